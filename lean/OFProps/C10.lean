import OFModel.Frame
/-!
# C10 — property theorems (frame views never go stale, never alias what they promise to copy)

Quantifier: every pixel algebra `A` (in particular the real numpy/OpenCV one), every heap reachable from
the empty heap by **any** sequence of the operations `Op` (construct from array / jpg / dict / another
frame with new data or format / another frame's image, `copy`, the nine views, `.image`, `.jpg`, pickle
round trip, pixel write through a writable image), applied to any live frame.
-/
namespace OF.Frame

variable {A : PixAlg}

/-! ## the invariant -/

/-- what must hold of one frame record in a heap -/
structure FrameOK (h : Heap A) (f : Frm A) : Prop where
  ref_lt : ∀ a, f.img = .ref a → a < h.nArr
  jpgOnly_jpg : f.img = .jpgOnly → ∃ e, f.jpg = .cached e
  /-- a cached jpg sits on a read-only array and is its encoding, or the array is its decoding -/
  jpg_ok : ∀ a e, f.img = .ref a → f.jpg = .cached e →
    h.wr a = false ∧ (e = A.enc (h.pix a) ∨ h.pix a = A.dec e f.isGray)
  /-- a cached view: source and target arrays are distinct and read-only, the target frame has the
  promised format and shows the conversion of the source's *current* pixels -/
  cache_ok : ∀ x g, f.cache x = some g → ∃ a b f0, f.img = .ref a ∧ f.fmt = some f0 ∧ h.wr a = false ∧
    g < h.nFrm ∧ (h.frm g).img = .ref b ∧ (h.frm g).fmt = some x ∧ b < h.nArr ∧ h.wr b = false ∧ a ≠ b ∧
    h.pix b = conv A f0 x (h.pix a)

def Inv (h : Heap A) : Prop := ∀ i, i < h.nFrm → FrameOK h (h.frm i)

/-- heap evolution: read-only arrays are frozen (flag and pixels), frames keep their format and their array -/
structure Ext (h h' : Heap A) : Prop where
  nArr_le : h.nArr ≤ h'.nArr
  nFrm_le : h.nFrm ≤ h'.nFrm
  ro_frozen : ∀ a, a < h.nArr → h.wr a = false → h'.wr a = false ∧ h'.pix a = h.pix a
  frm_keep : ∀ j, j < h.nFrm → (h'.frm j).fmt = (h.frm j).fmt ∧ ∀ b, (h.frm j).img = .ref b → (h'.frm j).img = .ref b

theorem Ext.refl (h : Heap A) : Ext h h :=
  ⟨Nat.le_refl _, Nat.le_refl _, fun _ _ hw => ⟨hw, rfl⟩, fun _ _ => ⟨rfl, fun _ hb => hb⟩⟩

theorem Ext.trans {h1 h2 h3 : Heap A} (e1 : Ext h1 h2) (e2 : Ext h2 h3) : Ext h1 h3 := by
  refine ⟨Nat.le_trans e1.nArr_le e2.nArr_le, Nat.le_trans e1.nFrm_le e2.nFrm_le, ?_, ?_⟩
  · intro a ha hw
    have h12 := e1.ro_frozen a ha hw
    have h23 := e2.ro_frozen a (Nat.lt_of_lt_of_le ha e1.nArr_le) h12.1
    exact ⟨h23.1, h23.2.trans h12.2⟩
  · intro j hj
    have h12 := e1.frm_keep j hj
    have h23 := e2.frm_keep j (Nat.lt_of_lt_of_le hj e1.nFrm_le)
    exact ⟨h23.1.trans h12.1, fun b hb => h23.2 b (h12.2 b hb)⟩

theorem FrameOK.mono {h h' : Heap A} {f : Frm A} (e : Ext h h') (ok : FrameOK h f) : FrameOK h' f := by
  refine ⟨?_, ok.jpgOnly_jpg, ?_, ?_⟩
  · intro a ha; exact Nat.lt_of_lt_of_le (ok.ref_lt a ha) e.nArr_le
  · intro a e' ha hj
    have h1 := ok.jpg_ok a e' ha hj
    have h2 := e.ro_frozen a (ok.ref_lt a ha) h1.1
    rw [h2.2]; exact ⟨h2.1, h1.2⟩
  · intro x g hc
    obtain ⟨a, b, f0, hi, hf, hwa, hg, hgi, hgf, hb, hwb, hab, hp⟩ := ok.cache_ok x g hc
    have ha := e.ro_frozen a (ok.ref_lt a hi) hwa
    have hb' := e.ro_frozen b hb hwb
    have hk := e.frm_keep g hg
    refine ⟨a, b, f0, hi, hf, ha.1, Nat.lt_of_lt_of_le hg e.nFrm_le, hk.2 b hgi, hk.1.trans hgf,
      Nat.lt_of_lt_of_le hb e.nArr_le, hb'.1, hab, ?_⟩
    rw [hb'.2, ha.2]; exact hp

/-- the work-horse: an evolution step keeps the invariant if every frame of the new heap is an unchanged
old one or is checked directly -/
theorem inv_of_ext {h h' : Heap A} (inv : Inv h) (e : Ext h h')
    (hf : ∀ j, j < h'.nFrm → (j < h.nFrm ∧ h'.frm j = h.frm j) ∨ FrameOK h' (h'.frm j)) : Inv h' := by
  intro j hj
  rcases hf j hj with ⟨hlt, heq⟩ | ok
  · rw [heq]; exact (inv j hlt).mono e
  · exact ok

/-! ## primitives -/

@[simp] theorem upd_same {α : Type} (f : Nat → α) (k : Nat) (v : α) : upd f k v k = v := by simp [upd]
theorem upd_ne {α : Type} (f : Nat → α) {k x : Nat} (v : α) (hne : x ≠ k) : upd f k v x = f x := by simp [upd, hne]

theorem ext_allocArr (h : Heap A) (p : A.P) (w : Bool) : Ext h (h.allocArr p w) := by
  refine ⟨Nat.le_succ _, Nat.le_refl _, ?_, fun _ _ => ⟨rfl, fun _ hb => hb⟩⟩
  intro a ha hw
  have hne : a ≠ h.nArr := Nat.ne_of_lt ha
  simp [Heap.allocArr, upd_ne, hne, hw]

theorem ext_allocFrm (h : Heap A) (f : Frm A) : Ext h (h.allocFrm f) := by
  refine ⟨Nat.le_refl _, Nat.le_succ _, fun _ _ hw => ⟨hw, rfl⟩, ?_⟩
  intro j hj
  have hne : j ≠ h.nFrm := Nat.ne_of_lt hj
  simp [Heap.allocFrm, upd_ne, hne]

theorem ext_newData (h : Heap A) : Ext h h.newData :=
  ⟨Nat.le_refl _, Nat.le_refl _, fun _ _ hw => ⟨hw, rfl⟩, fun _ _ => ⟨rfl, fun _ hb => hb⟩⟩

theorem ext_setFrm (h : Heap A) (i : Nat) (f : Frm A) (hfmt : f.fmt = (h.frm i).fmt)
    (himg : ∀ b, (h.frm i).img = .ref b → f.img = .ref b) : Ext h (h.setFrm i f) := by
  refine ⟨Nat.le_refl _, Nat.le_refl _, fun _ _ hw => ⟨hw, rfl⟩, ?_⟩
  intro j _
  by_cases hji : j = i
  · subst hji; simp [Heap.setFrm, hfmt]; exact himg
  · simp [Heap.setFrm, upd_ne, hji]

theorem ext_setPix (h : Heap A) (a : Nat) (p : A.P) (hw : h.wr a = true) : Ext h (h.setPix a p) := by
  refine ⟨Nat.le_refl _, Nat.le_refl _, ?_, fun _ _ => ⟨rfl, fun _ hb => hb⟩⟩
  intro b _ hwb
  have hne : b ≠ a := by intro hba; subst hba; simp [hw] at hwb
  simp [Heap.setPix, upd_ne, hne, hwb]

/-! ## building blocks of the operations -/

theorem conv_self (f : Fmt) (p : A.P) : conv A f f p = p := by cases f <;> rfl

/-- a frame record without caches whose image is a valid array and that carries no jpg yet -/
theorem frameOK_plain (h : Heap A) (a : Nat) (fmt : Option Fmt) (d : Nat) (ha : a < h.nArr) :
    FrameOK h ({ img := .ref a, fmt := fmt, jpg := .notYet, data := d } : Frm A) := by
  refine ⟨?_, ?_, ?_, ?_⟩
  · intro b hb; cases hb; exact ha
  · intro hb; cases hb
  · intro b e _ hj; cases hj
  · intro x g hc; cases x <;> simp [Frm.cache] at hc

theorem ext_newArrFrame (h : Heap A) (i : Nat) (p : A.P) (w : Bool) (fmt : Option Fmt) :
    Ext h (newArrFrame h i p w fmt).1 :=
  (ext_allocArr h p w).trans (ext_allocFrm _ _)

theorem inv_allocFrm {h : Heap A} (inv : Inv h) (f : Frm A) (ok : FrameOK (h.allocFrm f) f) : Inv (h.allocFrm f) := by
  apply inv_of_ext inv (ext_allocFrm h f)
  intro j hj
  by_cases hjn : j = h.nFrm
  · right; subst hjn; simpa [Heap.allocFrm] using ok
  · left
    have : j < h.nFrm := by simp [Heap.allocFrm] at hj; omega
    exact ⟨this, by simp [Heap.allocFrm, upd_ne, hjn]⟩

theorem inv_allocArr {h : Heap A} (inv : Inv h) (p : A.P) (w : Bool) : Inv (h.allocArr p w) :=
  inv_of_ext inv (ext_allocArr h p w) (fun _ hj => Or.inl ⟨hj, rfl⟩)

theorem inv_newData {h : Heap A} (inv : Inv h) : Inv h.newData :=
  inv_of_ext inv (ext_newData h) (fun _ hj => Or.inl ⟨hj, rfl⟩)

theorem inv_newArrFrame {h : Heap A} (inv : Inv h) (i : Nat) (p : A.P) (w : Bool) (fmt : Option Fmt) :
    Inv (newArrFrame h i p w fmt).1 := by
  unfold newArrFrame
  apply inv_allocFrm (inv_allocArr inv p w)
  apply frameOK_plain
  simp [Heap.allocFrm, Heap.allocArr]

theorem inv_setFrm {h : Heap A} (inv : Inv h) (i : Nat) (f : Frm A) (hfmt : f.fmt = (h.frm i).fmt)
    (himg : ∀ b, (h.frm i).img = .ref b → f.img = .ref b) (ok : FrameOK (h.setFrm i f) f) : Inv (h.setFrm i f) := by
  apply inv_of_ext inv (ext_setFrm h i f hfmt himg)
  intro j hj
  by_cases hji : j = i
  · right; subst hji; simpa [Heap.setFrm] using ok
  · left; exact ⟨hj, by simp [Heap.setFrm, upd_ne, hji]⟩

/-- postcondition of `.image` -/
structure LoadOK (h : Heap A) (i : Nat) (r : Heap A × Option Nat) : Prop where
  inv : Inv r.1
  ext : Ext h r.1
  nFrm : r.1.nFrm = h.nFrm
  fmt : (r.1.frm i).fmt = (h.frm i).fmt
  data : (r.1.frm i).data = (h.frm i).data
  cache : ∀ x, (r.1.frm i).cache x = (h.frm i).cache x
  src : pixOf r.1 (r.1.frm i) = pixOf h (h.frm i)
  some : ∀ a, r.2 = some a → (r.1.frm i).img = .ref a ∧ a < r.1.nArr ∧ pixOf h (h.frm i) = some (r.1.pix a) ∧
    ((h.frm i).img = .ref a ∧ r.1 = h ∨ (h.frm i).img = .jpgOnly ∧ h.nArr ≤ a ∧ r.1.wr a = false)
  none : r.2 = none → r.1 = h ∧ pixOf h (h.frm i) = none

theorem loadImage_ok {h : Heap A} (inv : Inv h) (i : Nat) (hi : i < h.nFrm) : LoadOK h i (loadImage h i) := by
  have ok := inv i hi
  unfold loadImage
  dsimp only
  split
  · rename_i himg
    exact ⟨inv, Ext.refl h, rfl, rfl, rfl, fun _ => rfl, rfl, fun a ha => (by cases ha), fun _ => ⟨rfl, (by simp [pixOf, himg])⟩⟩
  · rename_i a himg
    refine ⟨inv, Ext.refl h, rfl, rfl, rfl, fun _ => rfl, rfl, ?_, fun hn => (by cases hn)⟩
    intro b hb; cases hb
    exact ⟨himg, ok.ref_lt a himg, by simp [pixOf, himg], Or.inl ⟨himg, rfl⟩⟩
  · rename_i himg
    obtain ⟨e, he⟩ := ok.jpgOnly_jpg himg
    have hcache : ∀ x, (h.frm i).cache x = none := by
      intro x
      cases hc : (h.frm i).cache x with
      | none => rfl
      | some g =>
        obtain ⟨a, _, _, hia, _⟩ := ok.cache_ok x g hc
        rw [himg] at hia; cases hia
    split
    · rename_i e' he'
      have hee : e' = e := by rw [he] at he'; cases he'; rfl
      subst hee
      have himg' : ∀ b, ((h.allocArr (A.dec e' (h.frm i).isGray) false).frm i).img = .ref b →
          ({ h.frm i with img := .ref h.nArr } : Frm A).img = .ref b := by
        intro b hb; simp [Heap.allocArr, himg] at hb
      refine ⟨?_, (ext_allocArr h _ false).trans (ext_setFrm _ i _ rfl himg'), rfl, (by simp [Heap.setFrm]),
        (by simp [Heap.setFrm]), ?_, ?_, ?_, fun hn => (by cases hn)⟩
      · refine inv_setFrm (inv_allocArr inv _ false) i ({ h.frm i with img := .ref h.nArr }) rfl himg' ?_
        refine ⟨?_, ?_, ?_, ?_⟩
        · intro b hb; cases hb; simp [Heap.setFrm, Heap.allocArr]
        · intro hb; cases hb
        · intro b e'' hb hj
          cases hb
          simp only [he] at hj; cases hj
          simp [Heap.setFrm, Heap.allocArr, Frm.isGray]
        · intro x g hc
          have : (h.frm i).cache x = some g := by cases x <;> simpa [Frm.cache] using hc
          rw [hcache x] at this; cases this
      · intro x; simp only [Heap.setFrm, upd_same]; cases x <;> rfl
      · simp [pixOf, Heap.setFrm, Heap.allocArr, himg, he, Frm.isGray]
      · intro b hb; cases hb
        refine ⟨(by simp [Heap.setFrm]), (by simp [Heap.setFrm, Heap.allocArr]), ?_,
          Or.inr ⟨himg, Nat.le_refl _, (by simp [Heap.setFrm, Heap.allocArr])⟩⟩
        simp [pixOf, Heap.setFrm, Heap.allocArr, himg, he]
    · rename_i hne
      exact absurd he (hne e)

/-! ## views -/

/-- what every view operation guarantees: invariant kept, heap only evolves, the source still stands for
the same pixels, and the returned frame has the promised format and shows the conversion of those pixels -/
structure ViewOK (h : Heap A) (i : Nat) (t : Option Fmt) (r : Heap A × Nat) : Prop where
  inv : Inv r.1
  ext : Ext h r.1
  lt : r.2 < r.1.nFrm
  src : pixOf r.1 (r.1.frm i) = pixOf h (h.frm i)
  shows : ∀ f0 p, (h.frm i).fmt = some f0 → pixOf h (h.frm i) = some p →
    (r.1.frm r.2).fmt = some (t.getD f0) ∧ pixOf r.1 (r.1.frm r.2) = some (conv A f0 (t.getD f0) p)

theorem ViewOK.of_load {h : Heap A} {i : Nat} {l : Heap A × Option Nat} (lo : LoadOK h i l) {t : Option Fmt}
    {r : Heap A × Nat} (v : ViewOK l.1 i t r) : ViewOK h i t r := by
  refine ⟨v.inv, lo.ext.trans v.ext, v.lt, v.src.trans lo.src, ?_⟩
  intro f0 p hf hp
  exact v.shows f0 p (lo.fmt.trans hf) (lo.src.trans hp)

theorem viewOK_self {h : Heap A} (inv : Inv h) {i : Nat} (hi : i < h.nFrm) (t : Option Fmt)
    (ht : ∀ f0, (h.frm i).fmt = some f0 → t.getD f0 = f0) : ViewOK h i t (h, i) := by
  refine ⟨inv, Ext.refl h, hi, rfl, ?_⟩
  intro f0 p hf hp
  rw [ht f0 hf, conv_self]; exact ⟨hf, hp⟩

theorem pixOf_newArrFrame {h : Heap A} {f : Frm A} (ok : FrameOK h f) (i : Nat) (p : A.P) (w : Bool) (fmt : Option Fmt) :
    pixOf (newArrFrame h i p w fmt).1 f = pixOf h f := by
  unfold pixOf
  split
  · rfl
  · rename_i a ha
    have : a ≠ h.nArr := Nat.ne_of_lt (ok.ref_lt a ha)
    simp [newArrFrame, Heap.allocArr, Heap.allocFrm, upd_ne, this]
  · rfl

theorem frm_newArrFrame_old (h : Heap A) (i : Nat) (p : A.P) (w : Bool) (fmt : Option Fmt) {j : Nat} (hj : j < h.nFrm) :
    (newArrFrame h i p w fmt).1.frm j = h.frm j := by
  have : j ≠ h.nFrm := Nat.ne_of_lt hj
  simp [newArrFrame, Heap.allocArr, Heap.allocFrm, upd_ne, this]

theorem viewOK_new {h : Heap A} (inv : Inv h) {i a : Nat} (hi : i < h.nFrm) (himg : (h.frm i).img = .ref a)
    (t : Option Fmt) (w : Bool) (fmt : Option Fmt) (P : A.P)
    (hs : ∀ f0, (h.frm i).fmt = some f0 → fmt = some (t.getD f0) ∧ P = conv A f0 (t.getD f0) (h.pix a)) :
    ViewOK h i t (newArrFrame h i P w fmt) := by
  refine ⟨inv_newArrFrame inv _ _ _ _, ext_newArrFrame _ _ _ _ _, by simp [newArrFrame, Heap.allocFrm, Heap.allocArr], ?_, ?_⟩
  · rw [frm_newArrFrame_old _ _ _ _ _ hi]; exact pixOf_newArrFrame (inv i hi) _ _ _ _
  · intro f1 p hf1 hp
    obtain ⟨h1, h2⟩ := hs f1 hf1
    have hp' : p = h.pix a := by simp [pixOf, himg] at hp; exact hp.symm
    subst hp'
    simp [newArrFrame, Heap.allocFrm, Heap.allocArr, pixOf, h1, h2]

theorem cache_setCache (f : Frm A) (x : Fmt) (g : Nat) (y : Fmt) :
    (f.setCache x g).cache y = if y = x then some g else f.cache y := by
  cases x <;> cases y <;> simp [Frm.setCache, Frm.cache]

theorem setCache_img (f : Frm A) (x : Fmt) (g : Nat) : (f.setCache x g).img = f.img := by cases x <;> rfl
theorem setCache_fmt (f : Frm A) (x : Fmt) (g : Nat) : (f.setCache x g).fmt = f.fmt := by cases x <;> rfl
theorem setCache_jpg (f : Frm A) (x : Fmt) (g : Nat) : (f.setCache x g).jpg = f.jpg := by cases x <;> rfl

theorem pixOf_setCache (h : Heap A) (f : Frm A) (x : Fmt) (g : Nat) : pixOf h (f.setCache x g) = pixOf h f := by
  simp [pixOf, setCache_img, setCache_jpg, Frm.isGray, setCache_fmt]

theorem viewOK_convRo {h : Heap A} (inv : Inv h) {i a : Nat} (hi : i < h.nFrm) (himg : (h.frm i).img = .ref a)
    {f0 : Fmt} (hf : (h.frm i).fmt = some f0) (x : Fmt) (keep : Bool) (hk : keep = true → h.wr a = false) :
    ViewOK h i (some x) (convRo h i a f0 x keep) := by
  have hnew : ViewOK h i (some x) (newArrFrame h i (conv A f0 x (h.pix a)) false (some x)) :=
    viewOK_new inv hi himg (some x) false (some x) _ (by intro f1 hf1; rw [hf] at hf1; cases hf1; exact ⟨rfl, rfl⟩)
  unfold convRo
  cases keep with
  | false => simpa using hnew
  | true =>
    simp only [if_true]
    have hwa := hk rfl
    have oki := inv i hi
    have ha : a < h.nArr := oki.ref_lt a himg
    have hne : i ≠ h.nFrm := Nat.ne_of_lt hi
    have hane : a ≠ h.nArr := Nat.ne_of_lt ha
    have hfrm : (newArrFrame h i (conv A f0 x (h.pix a)) false (some x)).1.frm i = h.frm i := frm_newArrFrame_old _ _ _ _ _ hi
    have himg' : ∀ b, ((newArrFrame h i (conv A f0 x (h.pix a)) false (some x)).1.frm i).img = .ref b →
        ((h.frm i).setCache x h.nFrm).img = .ref b := by
      intro b hb; rw [hfrm] at hb; rw [setCache_img]; exact hb
    have hfmt' : ((h.frm i).setCache x h.nFrm).fmt = ((newArrFrame h i (conv A f0 x (h.pix a)) false (some x)).1.frm i).fmt := by
      rw [hfrm, setCache_fmt]
    refine ⟨?_, hnew.ext.trans (ext_setFrm _ i _ hfmt' himg'), by simp [newArrFrame, Heap.allocFrm, Heap.allocArr, Heap.setFrm], ?_, ?_⟩
    · refine inv_setFrm hnew.inv i _ hfmt' himg' ?_
      have okm : FrameOK ((newArrFrame h i (conv A f0 x (h.pix a)) false (some x)).1.setFrm i ((h.frm i).setCache x h.nFrm)) (h.frm i) :=
        oki.mono (hnew.ext.trans (ext_setFrm _ i _ hfmt' himg'))
      refine ⟨?_, ?_, ?_, ?_⟩
      · intro b hb; rw [setCache_img] at hb; exact okm.ref_lt b hb
      · intro hb; rw [setCache_img] at hb; rw [setCache_jpg]; exact okm.jpgOnly_jpg hb
      · intro b e hb hj
        rw [setCache_img] at hb; rw [setCache_jpg] at hj
        have := okm.jpg_ok b e hb hj
        simpa [Frm.isGray, setCache_fmt] using this
      · intro y g hc
        rw [cache_setCache] at hc
        split at hc
        · rename_i hyx
          subst hyx; cases hc
          refine ⟨a, h.nArr, f0, by rw [setCache_img]; exact himg, by rw [setCache_fmt]; exact hf, ?_, ?_, ?_, ?_, ?_, ?_, hane, ?_⟩
          · simp [newArrFrame, Heap.allocFrm, Heap.allocArr, Heap.setFrm, upd_ne, hane, hwa]
          · simp [newArrFrame, Heap.allocFrm, Heap.allocArr, Heap.setFrm]
          · simp [newArrFrame, Heap.allocFrm, Heap.allocArr, Heap.setFrm, upd_ne, hne.symm]
          · simp [newArrFrame, Heap.allocFrm, Heap.allocArr, Heap.setFrm, upd_ne, hne.symm]
          · simp [newArrFrame, Heap.allocFrm, Heap.allocArr, Heap.setFrm]
          · simp [newArrFrame, Heap.allocFrm, Heap.allocArr, Heap.setFrm]
          · simp [newArrFrame, Heap.allocFrm, Heap.allocArr, Heap.setFrm, upd_ne, hane]
        · obtain ⟨a', b, f1, h1, h2, h3⟩ := okm.cache_ok y g hc
          exact ⟨a', b, f1, by rw [setCache_img]; exact h1, by rw [setCache_fmt]; exact h2, h3⟩
    · simp only [Heap.setFrm, upd_same]
      rw [pixOf_setCache]
      exact pixOf_newArrFrame oki i (conv A f0 x (h.pix a)) false (some x)
    · intro f1 p hf1 hp
      have := hnew.shows f1 p hf1 hp
      simpa [newArrFrame, Heap.allocFrm, Heap.allocArr, Heap.setFrm, upd_ne, hne.symm, pixOf] using this

theorem viewOK_cached {h : Heap A} (inv : Inv h) {i : Nat} (hi : i < h.nFrm) {x : Fmt} {g : Nat}
    (hc : (h.frm i).cache x = some g) : ViewOK h i (some x) (h, g) := by
  obtain ⟨a, b, f0, hia, hf, _, hg, hgi, hgf, _, _, _, hp⟩ := (inv i hi).cache_ok x g hc
  refine ⟨inv, Ext.refl h, hg, rfl, ?_⟩
  intro f1 p hf1 hp1
  rw [hf] at hf1; cases hf1
  have : p = h.pix a := by simp [pixOf, hia] at hp1; exact hp1.symm
  subst this
  simp [pixOf, hgi, hgf, hp]

theorem viewRw_ok {h : Heap A} (inv : Inv h) {i : Nat} (hi : i < h.nFrm) : ViewOK h i none (viewRw h i) := by
  have lo := loadImage_ok inv i hi
  unfold viewRw
  generalize loadImage h i = l at lo
  obtain ⟨h1, o⟩ := l
  have hi1 : i < h1.nFrm := by rw [lo.nFrm]; exact hi
  cases o with
  | none => exact ViewOK.of_load lo (viewOK_self lo.inv hi1 none (fun _ _ => rfl))
  | some a =>
    dsimp only
    split
    · exact ViewOK.of_load lo (viewOK_self lo.inv hi1 none (fun _ _ => rfl))
    · refine ViewOK.of_load lo (viewOK_new lo.inv hi1 (lo.some a rfl).1 none true _ _ ?_)
      intro f0 hf; exact ⟨hf, (conv_self _ _).symm⟩

theorem viewRo_ok {h : Heap A} (inv : Inv h) {i : Nat} (hi : i < h.nFrm) : ViewOK h i none (viewRo h i) := by
  unfold viewRo
  split
  · rename_i a himg
    split
    · refine viewOK_new inv hi himg none false _ _ ?_
      intro f0 hf; exact ⟨hf, (conv_self _ _).symm⟩
    · exact viewOK_self inv hi none (fun _ _ => rfl)
  · exact viewOK_self inv hi none (fun _ _ => rfl)

theorem viewFmt_ok {h : Heap A} (inv : Inv h) {i : Nat} (hi : i < h.nFrm) (x : Fmt) : ViewOK h i (some x) (viewFmt x h i) := by
  unfold viewFmt
  split
  · rename_i hf
    exact viewOK_self inv hi _ (by intro f0 hf0; rw [hf] at hf0; cases hf0)
  · rename_i f hf
    split
    · rename_i hfx
      exact viewOK_self inv hi _ (by intro f0 hf0; rw [hf] at hf0; cases hf0; exact hfx.symm)
    · have lo := loadImage_ok inv i hi
      generalize loadImage h i = l at lo
      obtain ⟨h1, o⟩ := l
      have hi1 : i < h1.nFrm := by rw [lo.nFrm]; exact hi
      have hf1 : (h1.frm i).fmt = some f := lo.fmt.trans hf
      cases o with
      | none =>
        refine ViewOK.of_load lo ⟨lo.inv, Ext.refl _, hi1, rfl, ?_⟩
        intro f0 p _ hp
        have hn := lo.none rfl
        dsimp only at hn hp
        rw [hn.1] at hp; rw [hn.2] at hp; cases hp
      | some a =>
        have himg := (lo.some a rfl).1
        dsimp only at himg ⊢
        split
        · refine ViewOK.of_load lo (viewOK_new lo.inv hi1 himg (some x) true _ _ ?_)
          intro f0 hf0; rw [hf1] at hf0; cases hf0; exact ⟨rfl, rfl⟩
        · rename_i hw
          split
          · rename_i g hc
            exact ViewOK.of_load lo (viewOK_cached lo.inv hi1 hc)
          · exact ViewOK.of_load lo (viewOK_convRo lo.inv hi1 himg hf1 x true (fun _ => by simpa using hw))

theorem viewRwFmt_ok {h : Heap A} (inv : Inv h) {i : Nat} (hi : i < h.nFrm) (x : Fmt) : ViewOK h i (some x) (viewRwFmt x h i) := by
  unfold viewRwFmt
  split
  · rename_i hf
    exact viewOK_self inv hi _ (by intro f0 hf0; rw [hf] at hf0; cases hf0)
  · rename_i f hf
    have lo := loadImage_ok inv i hi
    generalize loadImage h i = l at lo
    obtain ⟨h1, o⟩ := l
    have hi1 : i < h1.nFrm := by rw [lo.nFrm]; exact hi
    have hf1 : (h1.frm i).fmt = some f := lo.fmt.trans hf
    cases o with
    | none =>
      refine ViewOK.of_load lo ⟨lo.inv, Ext.refl _, hi1, rfl, ?_⟩
      intro f0 p _ hp
      have hn := lo.none rfl
      dsimp only at hn hp
      rw [hn.1] at hp; rw [hn.2] at hp; cases hp
    | some a =>
      have himg := (lo.some a rfl).1
      dsimp only at himg ⊢
      split
      · rename_i hfx
        split
        · exact ViewOK.of_load lo (viewOK_self lo.inv hi1 _ (by intro f0 hf0; rw [hf1] at hf0; cases hf0; exact hfx.symm))
        · refine ViewOK.of_load lo (viewOK_new lo.inv hi1 himg (some x) true _ _ ?_)
          intro f0 hf0; rw [hf1] at hf0; cases hf0; subst hfx; exact ⟨rfl, (conv_self _ _).symm⟩
      · refine ViewOK.of_load lo (viewOK_new lo.inv hi1 himg (some x) true _ _ ?_)
        intro f0 hf0; rw [hf1] at hf0; cases hf0; exact ⟨rfl, rfl⟩

theorem viewRoFmt_ok {h : Heap A} (inv : Inv h) {i : Nat} (hi : i < h.nFrm) (x : Fmt) :
    ViewOK h i (some x) (viewRoFmt false x h i) := by
  unfold viewRoFmt
  split
  · rename_i hf
    exact viewOK_self inv hi _ (by intro f0 hf0; rw [hf] at hf0; cases hf0)
  · rename_i f hf
    split
    · rename_i hfx
      have hself : ViewOK h i (some x) (h, i) :=
        viewOK_self inv hi _ (by intro f0 hf0; rw [hf] at hf0; cases hf0; exact hfx.symm)
      split
      · rename_i a himg
        split
        · refine viewOK_new inv hi himg (some x) false _ _ ?_
          intro f0 hf0; rw [hf] at hf0; cases hf0; subst hfx; exact ⟨rfl, (conv_self _ _).symm⟩
        · exact hself
      · exact hself
    · split
      · rename_i g hc
        exact viewOK_cached inv hi hc
      · have lo := loadImage_ok inv i hi
        generalize loadImage h i = l at lo
        obtain ⟨h1, o⟩ := l
        have hi1 : i < h1.nFrm := by rw [lo.nFrm]; exact hi
        have hf1 : (h1.frm i).fmt = some f := lo.fmt.trans hf
        cases o with
        | none =>
          refine ViewOK.of_load lo ⟨lo.inv, Ext.refl _, hi1, rfl, ?_⟩
          intro f0 p _ hp
          have hn := lo.none rfl
          dsimp only at hn hp
          rw [hn.1] at hp; rw [hn.2] at hp; cases hp
        | some a =>
          have himg := (lo.some a rfl).1
          dsimp only at himg ⊢
          exact ViewOK.of_load lo (viewOK_convRo lo.inv hi1 himg hf1 x _ (by simp))

theorem applyView_ok {h : Heap A} (inv : Inv h) {i : Nat} (hi : i < h.nFrm) (v : View) :
    ViewOK h i v.target (applyView false v h i) := by
  cases v
  · exact viewRw_ok inv hi
  · exact viewRo_ok inv hi
  · exact viewFmt_ok inv hi .rgb
  · exact viewFmt_ok inv hi .bgr
  · exact viewFmt_ok inv hi .gray
  · exact viewRwFmt_ok inv hi .rgb
  · exact viewRwFmt_ok inv hi .bgr
  · exact viewRoFmt_ok inv hi .rgb
  · exact viewRoFmt_ok inv hi .bgr

/-! ## the other operations -/

/-- a second frame record on the same image and jpg (no caches), same channel class -/
theorem frameOK_share {h : Heap A} {f : Frm A} (ok : FrameOK h f) (fmt : Option Fmt) (d : Nat)
    (hg : (fmt == some Fmt.gray) = (f.fmt == some Fmt.gray)) :
    FrameOK h ({ img := f.img, fmt := fmt, jpg := f.jpg, data := d } : Frm A) := by
  refine ⟨ok.ref_lt, ok.jpgOnly_jpg, ?_, ?_⟩
  · intro a e ha hj
    have := ok.jpg_ok a e ha hj
    simpa [Frm.isGray, hg] using this
  · intro x g hc; cases x <;> simp [Frm.cache] at hc

/-- a frame record on a just allocated array -/
theorem frameOK_newArr (h : Heap A) (P : A.P) (w : Bool) (fmt : Option Fmt) (jpg : Jpg A.E) (d : Nat)
    (hj : ∀ e, jpg = .cached e → w = false ∧ (e = A.enc P ∨ P = A.dec e (fmt == some Fmt.gray))) :
    FrameOK (h.allocArr P w) ({ img := .ref h.nArr, fmt := fmt, jpg := jpg, data := d } : Frm A) := by
  refine ⟨?_, ?_, ?_, ?_⟩
  · intro b hb; cases hb; simp [Heap.allocArr]
  · intro hb; cases hb
  · intro b e hb hje
    cases hb
    have := hj e hje
    simpa [Heap.allocArr, Frm.isGray] using this
  · intro x g hc; cases x <;> simp [Frm.cache] at hc

theorem inv_alloc2 {h : Heap A} (inv : Inv h) (P : A.P) (w : Bool) (f : Frm A) (ok : FrameOK (h.allocArr P w) f) :
    Inv ((h.allocArr P w).allocFrm f) :=
  inv_allocFrm (inv_allocArr inv P w) f (ok.mono (ext_allocFrm _ _))

theorem inv_alloc1 {h : Heap A} (inv : Inv h) (f : Frm A) (ok : FrameOK h f) : Inv (h.allocFrm f) :=
  inv_allocFrm inv f (ok.mono (ext_allocFrm _ _))

theorem opCopy_ok {h : Heap A} (inv : Inv h) {i : Nat} (hi : i < h.nFrm) : Inv (opCopy h i).1 ∧ Ext h (opCopy h i).1 := by
  have ok := inv i hi
  have okd : FrameOK h.newData (h.frm i) := ok.mono (ext_newData h)
  unfold opCopy
  dsimp only
  split
  · rename_i a himg
    split
    · rename_i hw
      refine ⟨inv_alloc2 (inv_newData inv) _ _ _ (frameOK_newArr h.newData _ _ _ _ _ ?_),
        (ext_newData h).trans ((ext_allocArr _ _ _).trans (ext_allocFrm _ _))⟩
      intro e he
      have := (ok.jpg_ok a e himg he).1
      rw [hw] at this; cases this
    · exact ⟨inv_alloc1 (inv_newData inv) _ (frameOK_share okd _ _ rfl), (ext_newData h).trans (ext_allocFrm _ _)⟩
  · exact ⟨inv_alloc1 (inv_newData inv) _ (frameOK_share okd _ _ rfl), (ext_newData h).trans (ext_allocFrm _ _)⟩

theorem opPickle_ok {h : Heap A} (inv : Inv h) {i : Nat} (hi : i < h.nFrm) : Inv (opPickle h i).1 ∧ Ext h (opPickle h i).1 := by
  have ok := inv i hi
  have okd : FrameOK h.newData (h.frm i) := ok.mono (ext_newData h)
  unfold opPickle
  dsimp only
  split
  · rename_i a himg
    refine ⟨inv_alloc2 (inv_newData inv) _ _ _ (frameOK_newArr h.newData _ _ _ _ _ ?_),
      (ext_newData h).trans ((ext_allocArr _ _ _).trans (ext_allocFrm _ _))⟩
    intro e he
    have := ok.jpg_ok a e himg he
    simpa [Frm.isGray] using this
  · exact ⟨inv_alloc1 (inv_newData inv) _ (frameOK_share okd _ _ rfl), (ext_newData h).trans (ext_allocFrm _ _)⟩

theorem opJpg_ok {h : Heap A} (inv : Inv h) {i : Nat} (hi : i < h.nFrm) : Inv (opJpg h i) ∧ Ext h (opJpg h i) := by
  have ok := inv i hi
  unfold opJpg
  dsimp only
  split
  · rename_i a hj himg
    split
    · exact ⟨inv, Ext.refl h⟩
    · rename_i hw
      have hw' : h.wr a = false := by simpa using hw
      have himg' : ∀ b, (h.frm i).img = .ref b → ({ h.frm i with jpg := .cached (A.enc (h.pix a)) } : Frm A).img = .ref b :=
        fun b hb => hb
      have hext := ext_setFrm h i ({ h.frm i with jpg := .cached (A.enc (h.pix a)) } : Frm A) rfl himg'
      refine ⟨inv_setFrm inv i _ rfl himg' ?_, hext⟩
      have okm := ok.mono hext
      refine ⟨okm.ref_lt, ?_, ?_, okm.cache_ok⟩
      · intro hb; rw [himg] at hb; cases hb
      · intro b e hb he
        have hba : b = a := by rw [himg] at hb; cases hb; rfl
        subst hba
        cases he
        exact ⟨hw', Or.inl rfl⟩
  · exact ⟨inv, Ext.refl h⟩

theorem opWrite_ok {h : Heap A} (inv : Inv h) (i : Nat) (p : A.P) : Inv (opWrite h i p) ∧ Ext h (opWrite h i p) := by
  unfold opWrite
  split
  · rename_i a himg
    split
    · rename_i hw
      exact ⟨inv_of_ext inv (ext_setPix h a p hw) (fun _ hj => Or.inl ⟨hj, rfl⟩), ext_setPix h a p hw⟩
    · exact ⟨inv, Ext.refl h⟩
  · exact ⟨inv, Ext.refl h⟩

theorem sameChan_gray {f x : Fmt} (hs : sameChan f x = true) : (some x == some Fmt.gray) = (some f == some Fmt.gray) := by
  revert hs; cases f <;> cases x <;> decide

theorem relabel_gray {f x : Option Fmt} (hs : relabelOk f x = true) : (relabel f x == some Fmt.gray) = (f == some Fmt.gray) := by
  cases f with
  | none => rfl
  | some f0 =>
    cases x with
    | none => rfl
    | some x => exact sameChan_gray hs

theorem opFromFrame_ok {h : Heap A} (inv : Inv h) {i : Nat} (hi : i < h.nFrm) (nd : Bool) (fmt : Option Fmt) :
    Inv (opFromFrame h i nd fmt).1 ∧ Ext h (opFromFrame h i nd fmt).1 := by
  have ok := inv i hi
  unfold opFromFrame
  split
  · rename_i hok
    have hg := relabel_gray hok
    cases nd with
    | true =>
      exact ⟨inv_alloc1 (inv_newData inv) _ (frameOK_share (ok.mono (ext_newData h)) _ _ hg), (ext_newData h).trans (ext_allocFrm _ _)⟩
    | false =>
      exact ⟨inv_alloc1 inv _ (frameOK_share ok _ _ hg), ext_allocFrm _ _⟩
  · exact ⟨inv, Ext.refl h⟩

theorem opFromImage_ok {h : Heap A} (inv : Inv h) {i : Nat} (hi : i < h.nFrm) (x : Fmt) :
    Inv (opFromImage h i x).1 ∧ Ext h (opFromImage h i x).1 := by
  unfold opFromImage
  split
  · refine ⟨inv_alloc1 (inv_newData inv) _ ⟨?_, ?_, ?_, ?_⟩, (ext_newData h).trans (ext_allocFrm _ _)⟩
    · intro a ha; cases ha
    · intro ha; cases ha
    · intro a e ha; cases ha
    · intro y g hc; cases y <;> simp [Frm.cache] at hc
  · split
    · exact ⟨inv, Ext.refl h⟩
    · have lo := loadImage_ok inv i hi
      generalize loadImage h i = l at lo
      obtain ⟨h1, o⟩ := l
      cases o with
      | none => exact ⟨lo.inv, lo.ext⟩
      | some a =>
        dsimp only
        have ha := (lo.some a rfl).2.1
        exact ⟨inv_alloc1 (inv_newData lo.inv) _ (frameOK_plain _ a _ _ ha),
          lo.ext.trans ((ext_newData _).trans (ext_allocFrm _ _))⟩

/-- **every operation keeps the invariant and only evolves the heap** (patched behaviour) -/
theorem step_ok {h : Heap A} (inv : Inv h) (op : Op A) : Inv (step false h op).1 ∧ Ext h (step false h op).1 := by
  cases op with
  | fromArr p w fmt =>
    exact ⟨inv_alloc2 (inv_newData inv) _ _ _ (frameOK_newArr h.newData p w _ _ _ (by intro e he; cases he)),
      (ext_newData h).trans ((ext_allocArr _ _ _).trans (ext_allocFrm _ _))⟩
  | fromJpg e fmt dims =>
    cases dims with
    | true =>
      refine ⟨inv_alloc1 (inv_newData inv) _ ⟨?_, ?_, ?_, ?_⟩, (ext_newData h).trans (ext_allocFrm _ _)⟩
      · intro a ha; cases ha
      · intro _; exact ⟨e, rfl⟩
      · intro a e' ha; cases ha
      · intro y g hc; cases y <;> simp [Frm.cache] at hc
    | false =>
      refine ⟨inv_alloc2 (inv_newData inv) _ _ _ (frameOK_newArr h.newData _ false _ _ _ ?_),
        (ext_newData h).trans ((ext_allocArr _ _ _).trans (ext_allocFrm _ _))⟩
      intro e' he; cases he
      refine ⟨rfl, Or.inr ?_⟩
      cases fmt <;> rfl
  | fromData =>
    refine ⟨inv_alloc1 (inv_newData inv) _ ⟨?_, ?_, ?_, ?_⟩, (ext_newData h).trans (ext_allocFrm _ _)⟩
    · intro a ha; cases ha
    · intro ha; cases ha
    · intro a e ha; cases ha
    · intro y g hc; cases y <;> simp [Frm.cache] at hc
  | fromFrame i nd fmt =>
    simp only [step]; split
    · rename_i hi; exact opFromFrame_ok inv hi nd fmt
    · exact ⟨inv, Ext.refl h⟩
  | fromImage i fmt =>
    simp only [step]; split
    · rename_i hi; exact opFromImage_ok inv hi fmt
    · exact ⟨inv, Ext.refl h⟩
  | copy i =>
    simp only [step]; split
    · rename_i hi; exact opCopy_ok inv hi
    · exact ⟨inv, Ext.refl h⟩
  | view v i =>
    simp only [step]; split
    · rename_i hi; exact ⟨(applyView_ok inv hi v).inv, (applyView_ok inv hi v).ext⟩
    · exact ⟨inv, Ext.refl h⟩
  | image i =>
    simp only [step]; split
    · rename_i hi; exact ⟨(loadImage_ok inv i hi).inv, (loadImage_ok inv i hi).ext⟩
    · exact ⟨inv, Ext.refl h⟩
  | jpg i =>
    simp only [step]; split
    · rename_i hi; exact opJpg_ok inv hi
    · exact ⟨inv, Ext.refl h⟩
  | pickle i =>
    simp only [step]; split
    · rename_i hi; exact opPickle_ok inv hi
    · exact ⟨inv, Ext.refl h⟩
  | write i p =>
    simp only [step]; split
    · exact opWrite_ok inv i p
    · exact ⟨inv, Ext.refl h⟩

/-! ## freshness and writability of view results -/

/-- the returned frame sits on an array `b` that did not exist in `h0` (hence shares memory with nothing
that existed), different from the source frame's array, with writable flag `w` -/
def NewRes (h0 : Heap A) (i : Nat) (w : Bool) (r : Heap A × Nat) : Prop :=
  ∃ a b, (r.1.frm i).img = .ref a ∧ (r.1.frm r.2).img = .ref b ∧ a < b ∧ h0.nArr ≤ b ∧ r.1.wr b = w ∧ h0.nFrm ≤ r.2

theorem NewRes.isRw {h0 : Heap A} {i : Nat} {w : Bool} {r : Heap A × Nat} (n : NewRes h0 i w r) :
    isRw r.1 (r.1.frm r.2) = w := by
  obtain ⟨a, b, _, hb, _, _, hw, _⟩ := n
  simp [OF.Frame.isRw, hb, hw]

theorem newRes_newArrFrame {h0 h1 : Heap A} {i a : Nat} (hi : i < h1.nFrm) (himg : (h1.frm i).img = .ref a)
    (ha : a < h1.nArr) (hle : h0.nArr ≤ h1.nArr) (hlf : h0.nFrm ≤ h1.nFrm) (P : A.P) (w : Bool) (fmt : Option Fmt) :
    NewRes h0 i w (newArrFrame h1 i P w fmt) := by
  refine ⟨a, h1.nArr, ?_, ?_, ha, hle, ?_, hlf⟩
  · rw [frm_newArrFrame_old _ _ _ _ _ hi]; exact himg
  · simp [newArrFrame, Heap.allocFrm, Heap.allocArr]
  · simp [newArrFrame, Heap.allocFrm, Heap.allocArr]

theorem newRes_convRo {h0 h1 : Heap A} {i a : Nat} (hi : i < h1.nFrm) (himg : (h1.frm i).img = .ref a)
    (ha : a < h1.nArr) (hle : h0.nArr ≤ h1.nArr) (hlf : h0.nFrm ≤ h1.nFrm) (f x : Fmt) (keep : Bool) :
    NewRes h0 i false (convRo h1 i a f x keep) := by
  unfold convRo
  cases keep with
  | false => simpa using newRes_newArrFrame hi himg ha hle hlf _ false _
  | true =>
    have hne : i ≠ h1.nFrm := Nat.ne_of_lt hi
    refine ⟨a, h1.nArr, ?_, ?_, ha, hle, ?_, hlf⟩
    · simp [Heap.setFrm, setCache_img, himg]
    · simp [newArrFrame, Heap.allocFrm, Heap.allocArr, Heap.setFrm, upd_ne, hne.symm]
    · simp [newArrFrame, Heap.allocFrm, Heap.allocArr, Heap.setFrm]

theorem viewRw_res {h : Heap A} (inv : Inv h) {i : Nat} (hi : i < h.nFrm) (himg : (h.frm i).img ≠ .none) :
    isRw (viewRw h i).1 ((viewRw h i).1.frm (viewRw h i).2) = true ∧
    (isRw h (h.frm i) = false → NewRes h i true (viewRw h i)) := by
  have lo := loadImage_ok inv i hi
  unfold viewRw
  generalize loadImage h i = l at lo
  obtain ⟨h1, o⟩ := l
  have hi1 : i < h1.nFrm := by rw [lo.nFrm]; exact hi
  cases o with
  | none =>
    have hn := lo.none rfl
    dsimp only at hn
    exfalso
    have := hn.2
    unfold pixOf at this
    split at this
    · rename_i h0; exact himg h0
    · cases this
    · rename_i h0
      obtain ⟨e, he⟩ := (inv i hi).jpgOnly_jpg h0
      simp [he] at this
  | some a =>
    obtain ⟨h1img, ha, _, hor⟩ := lo.some a rfl
    dsimp only at h1img ha hor ⊢
    split
    · rename_i hw
      refine ⟨by simp [isRw, h1img, hw], ?_⟩
      intro hro
      exfalso
      rcases hor with ⟨h0img, heq⟩ | ⟨_, _, hwa⟩
      · subst heq; simp [isRw, h0img, hw] at hro
      · rw [hw] at hwa; cases hwa
    · have n := newRes_newArrFrame (h0 := h) hi1 h1img ha lo.ext.nArr_le lo.ext.nFrm_le (h1.pix a) true (h1.frm i).fmt
      exact ⟨n.isRw, fun _ => n⟩

theorem viewRo_res {h : Heap A} (inv : Inv h) {i : Nat} (hi : i < h.nFrm) :
    isRw (viewRo h i).1 ((viewRo h i).1.frm (viewRo h i).2) = false ∧
    (isRw h (h.frm i) = true → NewRes h i false (viewRo h i)) := by
  unfold viewRo
  split
  · rename_i a himg
    split
    · have n := newRes_newArrFrame (h0 := h) hi himg ((inv i hi).ref_lt a himg) (Nat.le_refl _) (Nat.le_refl _) (h.pix a) false (h.frm i).fmt
      exact ⟨n.isRw, fun _ => n⟩
    · rename_i hw
      have hw' : h.wr a = false := by simpa using hw
      refine ⟨by simp [isRw, himg, hw'], ?_⟩
      intro hrw; simp [isRw, himg, hw'] at hrw
  · rename_i hn
    have : isRw h (h.frm i) = false := by
      unfold isRw; split
      · rename_i a ha; exact absurd ha (hn a)
      · rfl
    exact ⟨this, fun hrw => by rw [this] at hrw; cases hrw⟩

theorem viewRwFmt_res {h : Heap A} (inv : Inv h) {i : Nat} (hi : i < h.nFrm) (x : Fmt) {f0 : Fmt}
    (hf : (h.frm i).fmt = some f0) (himg : (h.frm i).img ≠ .none) :
    isRw (viewRwFmt x h i).1 ((viewRwFmt x h i).1.frm (viewRwFmt x h i).2) = true ∧
    (¬(f0 = x ∧ isRw h (h.frm i) = true) → NewRes h i true (viewRwFmt x h i)) := by
  have lo := loadImage_ok inv i hi
  unfold viewRwFmt
  simp only [hf]
  generalize loadImage h i = l at lo
  obtain ⟨h1, o⟩ := l
  have hi1 : i < h1.nFrm := by rw [lo.nFrm]; exact hi
  cases o with
  | none =>
    have hn := lo.none rfl
    dsimp only at hn
    exfalso
    have := hn.2
    unfold pixOf at this
    split at this
    · rename_i h0; exact himg h0
    · cases this
    · rename_i h0
      obtain ⟨e, he⟩ := (inv i hi).jpgOnly_jpg h0
      simp [he] at this
  | some a =>
    obtain ⟨h1img, ha, _, hor⟩ := lo.some a rfl
    dsimp only at h1img ha hor ⊢
    split
    · rename_i hfx
      split
      · rename_i hw
        refine ⟨by simp [isRw, h1img, hw], ?_⟩
        intro hnot
        exfalso
        apply hnot
        refine ⟨hfx, ?_⟩
        rcases hor with ⟨h0img, heq⟩ | ⟨_, _, hwa⟩
        · subst heq; simp [isRw, h0img, hw]
        · rw [hw] at hwa; cases hwa
      · have n := newRes_newArrFrame (h0 := h) hi1 h1img ha lo.ext.nArr_le lo.ext.nFrm_le (h1.pix a) true (some x)
        exact ⟨n.isRw, fun _ => n⟩
    · have n := newRes_newArrFrame (h0 := h) hi1 h1img ha lo.ext.nArr_le lo.ext.nFrm_le (conv A f0 x (h1.pix a)) true (some x)
      exact ⟨n.isRw, fun _ => n⟩

/-- `ro_rgb` / `ro_bgr`: read-only result; when the source is not already read-only (or jpg-only) in the
requested format the result is a brand-new array, or the remembered conversion of a read-only source,
which lives on a different array than the source -/
theorem viewRoFmt_res {h : Heap A} (inv : Inv h) {i : Nat} (hi : i < h.nFrm) (x : Fmt) {f0 : Fmt}
    (hf : (h.frm i).fmt = some f0) (himg : (h.frm i).img ≠ .none) :
    isRw (viewRoFmt false x h i).1 ((viewRoFmt false x h i).1.frm (viewRoFmt false x h i).2) = false ∧
    (f0 ≠ x ∨ isRw h (h.frm i) = true →
      NewRes h i false (viewRoFmt false x h i) ∨
      ((h.frm i).cache x = some (viewRoFmt false x h i).2 ∧ (viewRoFmt false x h i).1 = h ∧
        ∃ a b, (h.frm i).img = .ref a ∧ (h.frm (viewRoFmt false x h i).2).img = .ref b ∧ a ≠ b)) := by
  unfold viewRoFmt
  simp only [hf]
  split
  · rename_i hfx
    split
    · rename_i a h0img
      split
      · have n := newRes_newArrFrame (h0 := h) hi h0img ((inv i hi).ref_lt a h0img) (Nat.le_refl _) (Nat.le_refl _) (h.pix a) false (some x)
        exact ⟨n.isRw, fun _ => Or.inl n⟩
      · rename_i hw
        have hw' : h.wr a = false := by simpa using hw
        refine ⟨by simp [isRw, h0img, hw'], ?_⟩
        intro hor; rcases hor with hne | hrw
        · exact absurd hfx hne
        · simp [isRw, h0img, hw'] at hrw
    · rename_i hn
      have : isRw h (h.frm i) = false := by
        unfold isRw; split
        · rename_i a ha; exact absurd ha (hn a)
        · rfl
      refine ⟨this, ?_⟩
      intro hor; rcases hor with hne | hrw
      · exact absurd hfx hne
      · rw [this] at hrw; cases hrw
  · split
    · rename_i g hc
      obtain ⟨a, b, f1, hia, _, _, _, hgi, _, _, hwb, hab, _⟩ := (inv i hi).cache_ok x g hc
      refine ⟨by simp [isRw, hgi, hwb], fun _ => Or.inr ⟨hc, rfl, a, b, hia, hgi, hab⟩⟩
    · have lo := loadImage_ok inv i hi
      generalize loadImage h i = l at lo
      obtain ⟨h1, o⟩ := l
      have hi1 : i < h1.nFrm := by rw [lo.nFrm]; exact hi
      cases o with
      | none =>
        have hn := lo.none rfl
        dsimp only at hn
        exfalso
        have := hn.2
        unfold pixOf at this
        split at this
        · rename_i h0; exact himg h0
        · cases this
        · rename_i h0
          obtain ⟨e, he⟩ := (inv i hi).jpgOnly_jpg h0
          simp [he] at this
      | some a =>
        obtain ⟨h1img, ha, _, _⟩ := lo.some a rfl
        dsimp only at h1img ha ⊢
        have n := newRes_convRo (h0 := h) hi1 h1img ha lo.ext.nArr_le lo.ext.nFrm_le f0 x (false || !h1.wr a)
        exact ⟨n.isRw, fun _ => Or.inl n⟩

/-- `rgb` / `bgr` / `gray` keep the writability of the source -/
theorem viewFmt_res {h : Heap A} (inv : Inv h) {i : Nat} (hi : i < h.nFrm) (x : Fmt) :
    isRw (viewFmt x h i).1 ((viewFmt x h i).1.frm (viewFmt x h i).2) = isRw h (h.frm i) := by
  unfold viewFmt
  split
  · rfl
  · rename_i f0 hf
    split
    · rfl
    · have lo := loadImage_ok inv i hi
      generalize loadImage h i = l at lo
      obtain ⟨h1, o⟩ := l
      have hi1 : i < h1.nFrm := by rw [lo.nFrm]; exact hi
      cases o with
      | none =>
        have hn := lo.none rfl
        dsimp only at hn ⊢
        rw [hn.1]
      | some a =>
        obtain ⟨h1img, ha, _, hor⟩ := lo.some a rfl
        dsimp only at h1img ha hor ⊢
        have hsrc : isRw h (h.frm i) = h1.wr a := by
          rcases hor with ⟨h0img, heq⟩ | ⟨h0img, _, hwa⟩
          · subst heq; simp [isRw, h0img]
          · simp [isRw, h0img, hwa]
        split
        · rename_i hw
          rw [(newRes_newArrFrame (h0 := h) hi1 h1img ha lo.ext.nArr_le lo.ext.nFrm_le _ true _).isRw, hsrc, hw]
        · rename_i hw
          have hw' : h1.wr a = false := by simpa using hw
          split
          · rename_i g hc
            obtain ⟨_, b, _, _, _, _, _, hgi, _, _, hwb, _, _⟩ := (lo.inv i hi1).cache_ok x g hc
            dsimp only at hgi hwb
            rw [hsrc, hw']
            simp [isRw, hgi, hwb]
          · rw [(newRes_convRo (h0 := h) hi1 h1img ha lo.ext.nArr_le lo.ext.nFrm_le f0 x true).isRw, hsrc, hw']

/-- `copy()` and a pickle round trip show the source's pixels with the source's writability; the copy of a
writable frame and every unpickled frame own a brand-new array -/
theorem opCopy_res {h : Heap A} (inv : Inv h) {i : Nat} (hi : i < h.nFrm) :
    pixOf (opCopy h i).1 ((opCopy h i).1.frm (opCopy h i).2) = pixOf h (h.frm i) ∧
    isRw (opCopy h i).1 ((opCopy h i).1.frm (opCopy h i).2) = isRw h (h.frm i) ∧
    (isRw h (h.frm i) = true → ∃ b, ((opCopy h i).1.frm (opCopy h i).2).img = .ref b ∧ h.nArr ≤ b) := by
  have ok := inv i hi
  unfold opCopy
  dsimp only
  split
  · rename_i a himg
    split
    · rename_i hw
      simp [pixOf, isRw, Heap.allocFrm, Heap.allocArr, Heap.newData, himg, hw]
    · rename_i hw
      have hw' : h.wr a = false := by simpa using hw
      simp [pixOf, isRw, Heap.allocFrm, Heap.newData, himg, hw']
  · rename_i hn
    have hrw : isRw h (h.frm i) = false := by
      unfold isRw; split
      · rename_i a ha; exact absurd ha (hn a)
      · rfl
    refine ⟨?_, ?_, fun hc => by rw [hrw] at hc; cases hc⟩
    · simp [pixOf, Heap.allocFrm, Heap.newData, Frm.isGray]
    · rw [hrw]; simp only [isRw, Heap.allocFrm, Heap.newData, upd_same]

theorem opPickle_res {h : Heap A} (i : Nat) :
    pixOf (opPickle h i).1 ((opPickle h i).1.frm (opPickle h i).2) = pixOf h (h.frm i) ∧
    isRw (opPickle h i).1 ((opPickle h i).1.frm (opPickle h i).2) = isRw h (h.frm i) ∧
    (∀ a, (h.frm i).img = .ref a → ((opPickle h i).1.frm (opPickle h i).2).img = .ref h.nArr) := by
  unfold opPickle
  dsimp only
  split
  · rename_i a himg
    simp [pixOf, isRw, Heap.allocFrm, Heap.allocArr, Heap.newData, himg]
  · rename_i hn
    have hrw : isRw h (h.frm i) = false := by
      unfold isRw; split
      · rename_i a ha; exact absurd ha (hn a)
      · rfl
    refine ⟨?_, ?_, fun a ha => absurd ha (hn a)⟩
    · simp [pixOf, Heap.allocFrm, Heap.newData, Frm.isGray]
    · rw [hrw]; simp only [isRw, Heap.allocFrm, Heap.newData, upd_same]

/-! ## the property -/

theorem inv_empty : Inv (Heap.empty : Heap A) := by
  intro i hi; simp [Heap.empty] at hi

theorem run_ok {h : Heap A} (inv : Inv h) (ops : List (Op A)) : Inv (run false h ops) ∧ Ext h (run false h ops) := by
  induction ops generalizing h with
  | nil => exact ⟨inv, Ext.refl h⟩
  | cons op ops ih =>
    have s := step_ok inv op
    have r := ih s.1
    exact ⟨r.1, s.2.trans r.2⟩

/-- a heap reachable from nothing by some sequence of operations -/
def Reachable (h : Heap A) : Prop := ∃ ops, h = run false Heap.empty ops

/-- **C10 (invariant)**: after ANY sequence of operations the invariant holds. -/
theorem C10_inv (ops : List (Op A)) : Inv (run false (Heap.empty : Heap A) ops) :=
  (run_ok inv_empty ops).1

theorem Reachable.inv {h : Heap A} (r : Reachable h) : Inv h := by
  obtain ⟨ops, rfl⟩ := r; exact C10_inv ops

/-- **C10 (cached views are current)**: in every reachable heap a remembered `ro` conversion of frame `i`
has the promised format and shows the conversion of the pixels frame `i` has *now*; both arrays are read-only. -/
theorem C10_cached_view_current {h : Heap A} (r : Reachable h) {i : Nat} (hi : i < h.nFrm) {x : Fmt} {g : Nat}
    (hc : (h.frm i).cache x = some g) :
    ∃ f0 p, (h.frm i).fmt = some f0 ∧ pixOf h (h.frm i) = some p ∧ (h.frm g).fmt = some x ∧
      pixOf h (h.frm g) = some (conv A f0 x p) ∧ isRw h (h.frm i) = false ∧ isRw h (h.frm g) = false := by
  obtain ⟨a, b, f0, hia, hf, hwa, _, hgi, hgf, _, hwb, _, hp⟩ := (r.inv i hi).cache_ok x g hc
  exact ⟨f0, h.pix a, hf, by simp [pixOf, hia], hgf, by simp [pixOf, hgi, hp], by simp [isRw, hia, hwa], by simp [isRw, hgi, hwb]⟩

/-- **C10 (cached jpg)**: in every reachable heap a cached jpg sits on a read-only array and is the encoding of
its pixels or the array is its decoding; and whatever happens afterwards, that array keeps flag and pixels. -/
theorem C10_cached_jpg_frozen {h : Heap A} (r : Reachable h) {i : Nat} (hi : i < h.nFrm) {a : Nat} {e : A.E}
    (himg : (h.frm i).img = .ref a) (hj : (h.frm i).jpg = .cached e) (ops : List (Op A)) :
    h.wr a = false ∧ (e = A.enc (h.pix a) ∨ h.pix a = A.dec e (h.frm i).isGray) ∧
    (run false h ops).wr a = false ∧ (run false h ops).pix a = h.pix a := by
  have ok := r.inv i hi
  have j := ok.jpg_ok a e himg hj
  have f := (run_ok r.inv ops).2.ro_frozen a (ok.ref_lt a himg) j.1
  exact ⟨j.1, j.2, f.1, f.2⟩

/-- **C10 (read-only stays read-only)**: no sequence of operations makes an existing read-only array writable
or changes its pixels. -/
theorem C10_ro_never_rw {h : Heap A} (r : Reachable h) (ops : List (Op A)) {a : Nat} (ha : a < h.nArr)
    (hw : h.wr a = false) : (run false h ops).wr a = false ∧ (run false h ops).pix a = h.pix a :=
  (run_ok r.inv ops).2.ro_frozen a ha hw

/-- **C10 (views are never stale)**: in every reachable heap, every view operation on every live frame returns
a frame of the promised format that shows the conversion of the pixels the source has at that moment; the
source itself still stands for the same pixels. -/
theorem C10_view_shows {h : Heap A} (r : Reachable h) {i : Nat} (hi : i < h.nFrm) (v : View) {f0 : Fmt} {p : A.P}
    (hf : (h.frm i).fmt = some f0) (hp : pixOf h (h.frm i) = some p) :
    let res := applyView false v h i
    (res.1.frm res.2).fmt = some (v.target.getD f0) ∧
    pixOf res.1 (res.1.frm res.2) = some (conv A f0 (v.target.getD f0) p) ∧
    pixOf res.1 (res.1.frm i) = some p := by
  have ok := applyView_ok r.inv hi v
  have s := ok.shows f0 p hf hp
  exact ⟨s.1, s.2, ok.src.trans hp⟩

/-- the views documented as returning a NEW image, given the source's format and writability -/
def promisesNew (v : View) (f0 : Fmt) (rw : Bool) : Bool :=
  match v with
  | .rw => !rw
  | .ro => rw
  | .rwRgb => !(f0 == .rgb && rw)
  | .rwBgr => !(f0 == .bgr && rw)
  | .roRgb => f0 != .rgb || rw
  | .roBgr => f0 != .bgr || rw
  | _ => false

/-- **C10 (promised copies are fresh)**: when the documentation promises a new image, the returned frame sits
on an array that did not exist before the call (so it shares memory with nothing the caller can reach) —
or, for `ro_rgb`/`ro_bgr` of a read-only source, on the remembered conversion, whose array differs from the
source's.  In all cases the result's array is not the source's array. -/
theorem C10_fresh {h : Heap A} (r : Reachable h) {i : Nat} (hi : i < h.nFrm) (v : View) {f0 : Fmt}
    (hf : (h.frm i).fmt = some f0) (himg : (h.frm i).img ≠ .none) (hp : promisesNew v f0 (isRw h (h.frm i)) = true) :
    let res := applyView false v h i
    ∃ a b, (res.1.frm i).img = .ref a ∧ (res.1.frm res.2).img = .ref b ∧ a ≠ b ∧
      (h.nArr ≤ b ∨ ∃ x, v.target = some x ∧ (h.frm i).cache x = some res.2) := by
  have inv := r.inv
  have fromNew : ∀ {w : Bool} {res : Heap A × Nat}, NewRes h i w res →
      ∃ a b, (res.1.frm i).img = .ref a ∧ (res.1.frm res.2).img = .ref b ∧ a ≠ b ∧
        (h.nArr ≤ b ∨ ∃ x, v.target = some x ∧ (h.frm i).cache x = some res.2) := by
    intro w res n
    obtain ⟨a, b, h1, h2, h3, h4, _, _⟩ := n
    exact ⟨a, b, h1, h2, Nat.ne_of_lt h3, Or.inl h4⟩
  cases v with
  | rw =>
    have hro : isRw h (h.frm i) = false := by simpa [promisesNew] using hp
    exact fromNew ((viewRw_res inv hi himg).2 hro)
  | ro =>
    have hrw : isRw h (h.frm i) = true := by simpa [promisesNew] using hp
    exact fromNew ((viewRo_res inv hi).2 hrw)
  | rwRgb =>
    refine fromNew ((viewRwFmt_res inv hi .rgb hf himg).2 ?_)
    intro hh; simp [promisesNew, hh.1, hh.2] at hp
  | rwBgr =>
    refine fromNew ((viewRwFmt_res inv hi .bgr hf himg).2 ?_)
    intro hh; simp [promisesNew, hh.1, hh.2] at hp
  | roRgb =>
    have hc : f0 ≠ .rgb ∨ isRw h (h.frm i) = true := by simpa [promisesNew] using hp
    rcases (viewRoFmt_res inv hi .rgb hf himg).2 hc with n | ⟨hcache, heq, a, b, h1, h2, h3⟩
    · exact fromNew n
    · refine ⟨a, b, ?_, ?_, h3, Or.inr ⟨.rgb, rfl, hcache⟩⟩
      · show ((viewRoFmt false .rgb h i).1.frm i).img = _
        rw [heq]; exact h1
      · show ((viewRoFmt false .rgb h i).1.frm (viewRoFmt false .rgb h i).2).img = _
        rw [heq]; exact h2
  | roBgr =>
    have hc : f0 ≠ .bgr ∨ isRw h (h.frm i) = true := by simpa [promisesNew] using hp
    rcases (viewRoFmt_res inv hi .bgr hf himg).2 hc with n | ⟨hcache, heq, a, b, h1, h2, h3⟩
    · exact fromNew n
    · refine ⟨a, b, ?_, ?_, h3, Or.inr ⟨.bgr, rfl, hcache⟩⟩
      · show ((viewRoFmt false .bgr h i).1.frm i).img = _
        rw [heq]; exact h1
      · show ((viewRoFmt false .bgr h i).1.frm (viewRoFmt false .bgr h i).2).img = _
        rw [heq]; exact h2
  | rgb => simp [promisesNew] at hp
  | bgr => simp [promisesNew] at hp
  | gray => simp [promisesNew] at hp

/-- the writability a view promises: `rw*` writable, `ro*` read-only, `rgb`/`bgr`/`gray` that of the source -/
def View.promisedRw (v : View) (src : Bool) : Bool :=
  match v with
  | .rw | .rwRgb | .rwBgr => true
  | .ro | .roRgb | .roBgr => false
  | _ => src

/-- **C10 (writability of views)** -/
theorem C10_view_writability {h : Heap A} (r : Reachable h) {i : Nat} (hi : i < h.nFrm) (v : View) {f0 : Fmt}
    (hf : (h.frm i).fmt = some f0) (himg : (h.frm i).img ≠ .none) :
    let res := applyView false v h i
    isRw res.1 (res.1.frm res.2) = v.promisedRw (isRw h (h.frm i)) := by
  have inv := r.inv
  cases v with
  | rw => exact (viewRw_res inv hi himg).1
  | ro => exact (viewRo_res inv hi).1
  | rgb => exact viewFmt_res inv hi .rgb
  | bgr => exact viewFmt_res inv hi .bgr
  | gray => exact viewFmt_res inv hi .gray
  | rwRgb => exact (viewRwFmt_res inv hi .rgb hf himg).1
  | rwBgr => exact (viewRwFmt_res inv hi .bgr hf himg).1
  | roRgb => exact (viewRoFmt_res inv hi .rgb hf himg).1
  | roBgr => exact (viewRoFmt_res inv hi .bgr hf himg).1

/-- **C10 (copy / pickle)**: same pixels, same writability; a writable frame's copy and every unpickled image
live on a brand-new array. -/
theorem C10_copy_pickle {h : Heap A} (r : Reachable h) {i : Nat} (hi : i < h.nFrm) :
    (pixOf (opCopy h i).1 ((opCopy h i).1.frm (opCopy h i).2) = pixOf h (h.frm i) ∧
     isRw (opCopy h i).1 ((opCopy h i).1.frm (opCopy h i).2) = isRw h (h.frm i) ∧
     (isRw h (h.frm i) = true → ∃ b, ((opCopy h i).1.frm (opCopy h i).2).img = .ref b ∧ h.nArr ≤ b)) ∧
    (pixOf (opPickle h i).1 ((opPickle h i).1.frm (opPickle h i).2) = pixOf h (h.frm i) ∧
     isRw (opPickle h i).1 ((opPickle h i).1.frm (opPickle h i).2) = isRw h (h.frm i) ∧
     (∀ a, (h.frm i).img = .ref a → ((opPickle h i).1.frm (opPickle h i).2).img = .ref h.nArr)) :=
  ⟨opCopy_res r.inv hi, opPickle_res i⟩

/-- **C10 (exact channel swap)**: converting RGB→BGR→RGB (or BGR→RGB→BGR) through any of the views gives back
exactly the source's pixels — uses that `swap` is an involution. -/
theorem C10_swap_roundtrip {h : Heap A} (r : Reachable h) {i : Nat} (hi : i < h.nFrm) (v1 v2 : View) {f0 x : Fmt} {p : A.P}
    (hf : (h.frm i).fmt = some f0) (hp : pixOf h (h.frm i) = some p)
    (hc : f0 ≠ .gray ∧ x ≠ .gray) (h1 : v1.target = some x) (h2 : v2.target = some f0) :
    let r1 := applyView false v1 h i
    let r2 := applyView false v2 r1.1 r1.2
    (r2.1.frm r2.2).fmt = some f0 ∧ pixOf r2.1 (r2.1.frm r2.2) = some p := by
  have ok1 := applyView_ok r.inv hi v1
  have s1 := ok1.shows f0 p hf hp
  have ok2 := applyView_ok ok1.inv ok1.lt v2
  have s2 := ok2.shows _ _ s1.1 s1.2
  rw [h1, h2] at s2
  simp only [Option.getD_some] at s2
  refine ⟨s2.1, ?_⟩
  rw [s2.2]
  cases f0 <;> cases x <;> simp [conv, A.swap_swap] at hc ⊢

/-! ## non-vacuity and negative witnesses (free term algebra) -/

section Witness
open T

/-- content #n, not swapped -/
private abbrev b (n : Nat) : T := .base n false

/-- a read-only BGR frame: `rgb` remembers its conversion (frame 1) and `ro_rgb` hands the same frame out:
the hypotheses of `C10_cached_view_current` and the cached branch of `C10_fresh` are satisfiable -/
example :
    let h := run false (Heap.empty : Heap termAlg) [.fromArr (b 0) false .bgr, .view .rgb 0]
    (h.frm 0).cache .rgb = some 1 ∧ pixOf h (h.frm 1) = some (T.base 0 true) ∧
    (step false h (.view .roRgb 0)).2 = some 1 := by
  dsimp only; decide

/-- a read-only frame caches its jpg; a writable one does not (hypotheses of `C10_cached_jpg_frozen`) -/
example :
    let h := run false (Heap.empty : Heap termAlg) [.fromArr (b 0) false .bgr, .jpg 0, .fromArr (b 1) true .bgr, .jpg 1]
    (h.frm 0).jpg = .cached (.enc (b 0)) ∧ (h.frm 1).jpg = .notYet := by
  dsimp only; decide

/-- a jpg-only GRAY frame decodes on `rw_bgr` into a read-only array (1) and returns a fresh writable 3-channel
array (2): promised copy, `C10_fresh` applies -/
example :
    let h := run false (Heap.empty : Heap termAlg) [.fromJpg (.blob 0) .gray true, .view .rwBgr 0]
    (h.frm 0).img = .ref 0 ∧ h.wr 0 = false ∧ (h.frm 1).img = .ref 1 ∧ h.wr 1 = true ∧
    h.pix 1 = T.g2c (T.dec 0 true false) false := by
  dsimp only; decide

/-- the sequence that breaks the pinned code: writable BGR frame, `ro_rgb`, write pixels, `ro_rgb` again -/
def staleOps : List (Op termAlg) := [.fromArr (b 0) true .bgr, .view .roRgb 0, .write 0 (b 1)]

/-- **pinned behaviour (before the fix)**: the second `ro_rgb` returns the remembered frame 1, which still shows
the swap of the OLD content #0 although the source now holds content #1 — the statement of `C10_view_shows`
fails in the model of the pinned code … -/
example :
    let h := run true (Heap.empty : Heap termAlg) staleOps
    let r := step true h (.view .roRgb 0)
    r.2 = some 1 ∧ pixOf r.1 (r.1.frm 1) = some (T.base 0 true) ∧ pixOf r.1 (r.1.frm 0) = some (T.base 1 false) ∧
    pixOf r.1 (r.1.frm 1) ≠ some (conv termAlg .bgr .rgb (T.base 1 false)) := by
  dsimp only; decide

/-- … and so does the invariant: a remembered view on a writable source. -/
example : ¬ Inv (run true (Heap.empty : Heap termAlg) staleOps) := by
  intro inv
  have h0 : ((run true (Heap.empty : Heap termAlg) staleOps).frm 0).img = .ref 0 := by decide
  have hc : ((run true (Heap.empty : Heap termAlg) staleOps).frm 0).cache .rgb = some 1 := by decide
  have hw : (run true (Heap.empty : Heap termAlg) staleOps).wr 0 = true := by decide
  obtain ⟨a, _, _, hia, _, hwa, _⟩ := (inv 0 (by decide)).cache_ok .rgb 1 hc
  rw [h0] at hia; cases hia
  rw [hw] at hwa; cases hwa

/-- **patched behaviour**: nothing is remembered for the writable source; the second `ro_rgb` returns a new
frame (2) that shows the swap of the current content #1 -/
example :
    let h := run false (Heap.empty : Heap termAlg) staleOps
    let r := step false h (.view .roRgb 0)
    (h.frm 0).cache .rgb = none ∧ r.2 = some 2 ∧ pixOf r.1 (r.1.frm 2) = some (conv termAlg .bgr .rgb (T.base 1 false)) := by
  dsimp only; decide

end Witness

end OF.Frame
