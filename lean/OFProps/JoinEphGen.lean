import OFProps.C03JoinMulti
/-!
# A join with EPHEMERAL side sources — generic part (helpers for `OFProps/C05JoinEph.lean`)

Setting: a non-balanced receiver whose sources are described by a list `sp : List ESpec`; entry `j` says whether source `j`
is synchronised (`eph = 0`) or ephemeral (`eph = 1` for `addr?`, `2` for `addr??`) and, through a `PubSpec`, which blocks
its publisher sends and how the consumer subscribes to it.  The network state `NSt` (receiver + undelivered streams) and
its events `NEv` are those of `C03_join_complete_multi`.

This file holds
* the invariant scheme `GInv R`: every source of the receiver is related by `R` to its entry of `sp` and to what is left
  of its stream (`s.queue ++ future`); the transfer principle `GInv_of` and the events that do not touch any buffer
  (`deliverNext`, `begin none`, `request`, `timeout`) for every `R` that only reads the buffer fields of a source;
* the exact effect of one `take` on the source list: a take on an ephemeral source rewrites that source only
  (`onTake_eph_shape`), a take on a synchronised source of a non-balanced receiver leaves every ephemeral source as it is
  (`onTake_spares_eph`).
-/
namespace OF.Recv

/-- one source of the join: publisher / subscription and the ephemeral level of the attachment -/
structure ESpec where
  pub : PubSpec
  eph : Nat

/-- a relation between a spec entry, the source index, the frontier, the source and the rest of its stream -/
abbrev SrcRel := ESpec → Nat → Int → Src → List Wire → Prop

/-- **invariant scheme**: a live receiver is non-balanced, has one source per spec entry of the same ephemeral level, and every
source satisfies `R` with the rest of its stream (queued ++ not yet delivered) -/
def GInv (R : SrcRel) (sp : List ESpec) (n : NSt) : Prop :=
  n.st.dead = false →
  n.st.balance = false ∧ n.st.srcs.length = sp.length ∧
  ∀ (j : Nat) (s : Src), n.st.srcs[j]? = some s →
    ∃ p fut, sp[j]? = some p ∧ n.future[j]? = some fut ∧ s.eph = p.eph ∧ R p j (expected n.st) s (s.queue ++ fut)

/-- `R` reads only the buffer, the poller flag, the per-source id and the static subscription fields of a source -/
def RCongr (R : SrcRel) : Prop :=
  ∀ (p : ESpec) (j : Nat) (F : Int) (s s' : Src) (rem : List Wire),
    s'.recvd = s.recvd → s'.reg = s.reg → s'.minId = s.minId → s'.eph = s.eph → s'.subAll = s.subAll →
    s'.star = s.star → s'.subs = s.subs → R p j F s rem → R p j F s' rem

/-- transfer principle: if every source of the new state comes from the source at the same index and `R` carries over, the
invariant carries over -/
theorem GInv_of (R R' : SrcRel) (sp : List ESpec) (n n' : NSt) (hd : n'.st.dead = n.st.dead) (hb : n'.st.balance = n.st.balance)
    (hlen : n'.st.srcs.length = n.st.srcs.length)
    (hsrc : n.st.dead = false → n.st.balance = false →
      ∀ (j : Nat) (s' : Src), n'.st.srcs[j]? = some s' → ∃ s, n.st.srcs[j]? = some s ∧ s'.eph = s.eph ∧
        ∀ fut, n.future[j]? = some fut → ∃ fut', n'.future[j]? = some fut' ∧
          ∀ p, sp[j]? = some p → s.eph = p.eph →
            R p j (expected n.st) s (s.queue ++ fut) → R' p j (expected n'.st) s' (s'.queue ++ fut')) :
    GInv R sp n → GInv R' sp n' := by
  intro h hd'
  rw [hd] at hd'
  have ⟨h1, h2, h3⟩ := h hd'
  refine ⟨hb ▸ h1, hlen ▸ h2, ?_⟩
  intro j s' hj
  rcases hsrc hd' h1 j s' hj with ⟨s, hs, he, hf⟩
  rcases h3 j s hs with ⟨p, fut, e1, e3, e4, e5⟩
  rcases hf fut e3 with ⟨fut', e3', hok⟩
  exact ⟨p, fut', e1, e3', he.trans e4, hok p e1 e4 e5⟩

/-! ### events that do not touch the sources' buffers -/

theorem deliverNext_GInv (R : SrcRel) (hR : RCongr R) (sp : List ESpec) (n : NSt) (j : Nat) (h : GInv R sp n) :
    GInv R sp (nDeliver n j).1 := by
  unfold nDeliver
  cases hf : n.future[j]? with
  | none => exact h
  | some fl =>
    cases fl with
    | nil => exact h
    | cons w rest =>
      simp only
      unfold stepDeliver
      cases hs : n.st.srcs[j]? with
      | none =>
        simp only
        refine GInv_of R R sp n _ rfl rfl rfl ?_ h
        intro _ _ a s' ha
        refine ⟨s', ha, rfl, ?_⟩
        intro fut hfut
        have haj : a ≠ j := by intro e; rw [e, hs] at ha; cases ha
        refine ⟨fut, by simp only; rw [List.getElem?_set_ne (fun e => haj e.symm)]; exact hfut, ?_⟩
        intro p _ _ hok; exact hok
      | some s =>
        simp only
        refine GInv_of R R sp n _ rfl rfl (by simp) ?_ h
        intro _ _ a s' ha
        simp only [List.getElem?_set] at ha
        by_cases haj : j = a
        · subst haj
          have hlen : j < n.st.srcs.length := (List.getElem?_eq_some_iff.mp hs).1
          simp only [hlen, ↓reduceIte, Option.some.injEq] at ha
          subst ha
          refine ⟨s, hs, rfl, ?_⟩
          intro fut hfut
          rw [hf] at hfut; cases hfut
          have hlen2 : j < n.future.length := (List.getElem?_eq_some_iff.mp hf).1
          refine ⟨rest, by simp only [List.getElem?_set, hlen2, ↓reduceIte], ?_⟩
          intro p _ _ hok
          have : (s.queue ++ [w]) ++ rest = s.queue ++ (w :: rest) := by simp
          simp only
          rw [this]
          exact hR p j _ s _ _ rfl rfl rfl rfl rfl rfl rfl hok
        · simp only [haj, ↓reduceIte] at ha
          refine ⟨s', ha, rfl, ?_⟩
          intro fut hfut
          refine ⟨fut, by simp only; rw [List.getElem?_set_ne haj]; exact hfut, ?_⟩
          intro p _ _ hok; exact hok

theorem same_srcs_GInv (R : SrcRel) (sp : List ESpec) (n : NSt) (st' : St) (hsr : st'.srcs = n.st.srcs) (hd : st'.dead = n.st.dead)
    (hb : st'.balance = n.st.balance) (he : n.st.dead = false → expected st' = expected n.st) (h : GInv R sp n) :
    GInv R sp { n with st := st' } := by
  refine GInv_of R R sp n _ hd hb (by simp only; rw [hsr]) ?_ h
  intro hdd _ a s' ha
  simp only at ha; rw [hsr] at ha
  refine ⟨s', ha, rfl, ?_⟩
  intro fut hfut
  refine ⟨fut, hfut, ?_⟩
  intro p _ _ hok
  simp only; rw [he hdd]; exact hok

theorem begin_GInv (R : SrcRel) (sp : List ESpec) (n : NSt) (h : GInv R sp n) : GInv R sp (nRecv n (.begin none)).1 := by
  unfold nRecv step
  simp only
  refine same_srcs_GInv R sp n _ ?_ ?_ ?_ ?_ h
  · unfold stepBegin; split <;> rfl
  · unfold stepBegin; split <;> rfl
  · unfold stepBegin; split <;> rfl
  · intro hd; exact expected_begin_none n.st hd

theorem request_GInv (R : SrcRel) (sp : List ESpec) (n : NSt) (h : GInv R sp n) : GInv R sp (nRecv n .request).1 := by
  unfold nRecv step
  simp only
  refine same_srcs_GInv R sp n _ ?_ ?_ ?_ ?_ h
  · unfold stepRequest; split <;> rfl
  · unfold stepRequest; split <;> rfl
  · unfold stepRequest; split <;> rfl
  · intro _; unfold stepRequest; split <;> rfl

theorem timeout_GInv (R : SrcRel) (sp : List ESpec) (n : NSt) (h : GInv R sp n) : GInv R sp (nRecv n .timeout).1 := by
  unfold nRecv step
  simp only
  refine same_srcs_GInv R sp n _ ?_ ?_ ?_ ?_ h
  · unfold stepTimeout; split <;> rfl
  · unfold stepTimeout; split <;> rfl
  · unfold stepTimeout; split <;> rfl
  · intro hd
    by_cases hc : n.st.inCall = true
    · exact C01_timeout_keeps_id n.st hd hc
    · unfold stepTimeout; simp [hc]

/-! ### the effect of one `take` on the source list -/

/-- what an ephemeral source looks like after it took the (non-special) message `w` -/
def ephTaken (s0 : Src) (i : Nat) (w : Wire) (q : List Wire) : Src :=
  if w.mid < s0.minId then { s0 with queue := q, conn := true }
  else { storeRecvd { s0 with queue := q, conn := true }
           (processMsg { s0 with queue := q, conn := true } (takenMsg s0 i w) w.topics s0.minId).2 w.topics with minId := w.mid }

/-- **a take on an ephemeral source rewrites that source only**: nothing else of the receiver state changes, whatever the
message is (data, heartbeat, OOB, CLOSE, HELLO, any id); for a data / heartbeat message the new source is `ephTaken` -/
theorem onTake_eph_shape (st : St) (i : Nat) (s0 : Src) (w : Wire) (q : List Wire)
    (hs : st.srcs[i]? = some s0) (hq : s0.queue = w :: q) (heph : s0.eph ≠ 0) :
    ∃ s', (onTake st i).1 = { st with srcs := st.srcs.set i s' } ∧ s'.eph = s0.eph ∧ s'.subAll = s0.subAll ∧
      s'.star = s0.star ∧ s'.subs = s0.subs ∧ s'.queue = q ∧ (0 ≤ w.mid → s' = ephTaken s0 i w q) := by
  rcases s0 with ⟨eph, subAll, star, subs, recvd, minId, conn, reg, queue⟩
  simp only at heph hq
  subst hq
  unfold onTake
  rw [hs]
  simp only [heph, ↓reduceIte, ne_eq, not_true_eq_false]
  by_cases hsp : w.mid ≤ OF.Facts.MSG_ID_SPECIAL
  · have hneg : ¬ 0 ≤ w.mid := by unfold OF.Facts.MSG_ID_SPECIAL at hsp; omega
    simp only [hsp, ↓reduceIte]
    unfold takeSpecial
    split
    · exact ⟨_, rfl, rfl, rfl, rfl, rfl, rfl, fun h => absurd h hneg⟩
    · split
      · exact ⟨_, rfl, rfl, rfl, rfl, rfl, rfl, fun h => absurd h hneg⟩
      · exact ⟨_, rfl, rfl, rfl, rfl, rfl, rfl, fun h => absurd h hneg⟩
  · simp only [hsp, ↓reduceIte, not_false_eq_true]
    unfold takeEph ephTaken takenMsg
    simp only
    by_cases hold : w.mid < minId
    · have : (processMsg { eph, subAll, star, subs, recvd, minId, conn := true, reg, queue := q }
          { mid := w.mid, topic := effTopic subAll subs (decodeTopic w.frame0), body := w.body, src := i } w.topics minId).1 = .older := by
        unfold processMsg; simp [hold]
      generalize hpm : processMsg { eph, subAll, star, subs, recvd, minId, conn := true, reg, queue := q }
          { mid := w.mid, topic := effTopic subAll subs (decodeTopic w.frame0), body := w.body, src := i } w.topics minId = pm at this
      rcases pm with ⟨res, r⟩
      simp only at this
      subst this
      simp only [hold, ↓reduceIte]
      exact ⟨_, rfl, rfl, rfl, rfl, rfl, rfl, fun _ => rfl⟩
    · have hne : (processMsg { eph, subAll, star, subs, recvd, minId, conn := true, reg, queue := q }
          { mid := w.mid, topic := effTopic subAll subs (decodeTopic w.frame0), body := w.body, src := i } w.topics minId).1 ≠ .older := by
        rw [processMsg_fst _ _ _ _ (by simp only; omega)]
        split <;> simp
      generalize hpm : processMsg { eph, subAll, star, subs, recvd, minId, conn := true, reg, queue := q }
          { mid := w.mid, topic := effTopic subAll subs (decodeTopic w.frame0), body := w.body, src := i } w.topics minId = pm at hne
      rcases pm with ⟨res, r⟩
      simp only at hne
      simp only [hold, ↓reduceIte]
      have hst : ∀ (x : Src), (storeRecvd x r w.topics).eph = x.eph ∧ (storeRecvd x r w.topics).subAll = x.subAll ∧
          (storeRecvd x r w.topics).star = x.star ∧ (storeRecvd x r w.topics).subs = x.subs ∧
          (storeRecvd x r w.topics).queue = x.queue := by
        intro x; unfold storeRecvd; simp only; split <;> exact ⟨rfl, rfl, rfl, rfl, rfl⟩
      have h5 := hst { eph, subAll, star, subs, recvd, minId, conn := true, reg, queue := q }
      cases res with
      | older => exact absurd rfl hne
      | same => exact ⟨_, rfl, h5.1, h5.2.1, h5.2.2.1, h5.2.2.2.1, h5.2.2.2.2, fun _ => rfl⟩
      | newer => exact ⟨_, rfl, h5.1, h5.2.1, h5.2.2.1, h5.2.2.2.1, h5.2.2.2.2, fun _ => rfl⟩

theorem balUpd_srcs (st : St) (c : Prop) [Decidable c] (b : Nat) :
    (if c then { st with balanced := b } else st).srcs = st.srcs ∧
    (if c then { st with balanced := b } else st).balance = st.balance := by
  by_cases h : c <;> simp [h]

/-- **a take on another source of a non-balanced receiver never touches an ephemeral source** -/
theorem onTake_spares_eph (st : St) (i : Nat) (hbal : st.balance = false) (a : Nat) (sa : Src) (ha : a ≠ i)
    (hsa : st.srcs[a]? = some sa) (he : sa.eph ≠ 0) : (onTake st i).1.srcs[a]? = some sa := by
  have hset : ∀ (l : List Src) (x : Src), l[a]? = some sa → (l.set i x)[a]? = some sa := by
    intro l x h; rw [List.getElem?_set_ne (fun e => ha e.symm)]; exact h
  unfold onTake
  cases hs : st.srcs[i]? with
  | none => exact hsa
  | some s0 =>
    simp only
    cases hq : s0.queue with
    | nil => exact hsa
    | cons w q =>
      simp only
      generalize hst1 : (if (if s0.eph = 0 then w.bal else 0) ≠ 0 then
          { st with balanced := if s0.eph = 0 then w.bal else 0 } else st) = st1
      have e1 : st1.srcs = st.srcs := by subst hst1; exact (balUpd_srcs st _ _).1
      have e2 : st1.balance = false := by subst hst1; rw [(balUpd_srcs st _ _).2]; exact hbal
      have hsa1 : st1.srcs[a]? = some sa := by rw [e1]; exact hsa
      split
      · unfold takeSpecial
        split
        · exact hset _ _ hsa1
        · split <;> exact hset _ _ hsa1
      · split
        · unfold takeEph
          split <;> exact hset _ _ hsa1
        · unfold takeSync
          split
          · exact hset _ _ hsa1
          · unfold syncApply
            simp only [e2, Bool.false_eq_true, not_false_eq_true, and_true, false_and, ↓reduceIte]
            split
            · rw [resetOthers_get, hset _ _ hsa1]
              simp only [Option.map_some, Option.some.injEq]
              have : ¬ (a ≠ i ∧ sa.eph = 0) := fun hh => he hh.2
              simp only [this, ↓reduceIte]
            · exact hset _ _ hsa1

/-- a take never changes the `balance` switch -/
theorem onTake_balance (st : St) (i : Nat) : (onTake st i).1.balance = st.balance := by
  unfold onTake
  cases hs : st.srcs[i]? with
  | none => rfl
  | some s0 =>
    simp only
    cases hq : s0.queue with
    | nil => rfl
    | cons w q =>
      simp only
      generalize hst1 : (if (if s0.eph = 0 then w.bal else 0) ≠ 0 then
          { st with balanced := if s0.eph = 0 then w.bal else 0 } else st) = st1
      have e2 : st1.balance = st.balance := by subst hst1; exact (balUpd_srcs st _ _).2
      split
      · unfold takeSpecial
        split
        · exact e2
        · split <;> exact e2
      · split
        · unfold takeEph
          split <;> exact e2
        · unfold takeSync
          split
          · exact e2
          · unfold syncApply
            exact e2

theorem expected_set_srcs (st : St) (srcs : List Src) : expected { st with srcs := srcs } = expected st := rfl

end OF.Recv
