import OFProps.C06ChainRecoverDown
set_option linter.unusedSimpArgs false
set_option linter.unusedVariables false
/-!
# C06 — a 3-node chain heals after ANY history, restarts included (`OFModel/Zmq/Net.lean`, `chainTopo 3`)

`source 0 → relay 1 → sink 2`; ANY schedule before: `nodeRecv i`, `nodeSend i t` at any clock readings, `restart i g` of ANY node
(graceful: the CLOSE messages are delivered; crash: nothing is), any number of times, anywhere.  Process functions `FwdMain`
(source and relay answer every call with a one-frame `main` result: dict, lone frame or callable).

* `C06_net_chain3_recovers` — THE RESULT: from EVERY reachable state the healing schedule `healOf st t1` of
  `OFProps/C06ChainRestart.lean` (a function of the state: requests queued at the source / relay, two clock readings one connection
  time-out after the previous phase and after every `t_last` in the source's / relay's client table; `2 n0 + 24 n1 + 115` events,
  `C06_net_chain3_recovery_bound`) makes the SINK's `recv` return a frame set with an id above its `prev_id`, i.e. above everything
  this sink incarnation returned before (`C06_net_chain3_order`).  No reachable deadlock in the 3-node chain, whatever was
  restarted, however often, gracefully or not.  The 12 kernel-evaluated restart scenarios of `C06ChainRestart.lean`
  (`healedBy pre t1 = returnedBy T3 mainProc 2 (stAfter pre) (healOf (stAfter pre) t1)`) are instances.
* `C06_net_chain3_recovers_at` — the same for ANY clock readings `t2`, `t3` beyond the two time-outs (not only the earliest ones)
  and ANY flush counts not below the numbers of queued requests (over-estimates are harmless).
* `C06_net_chain3_recovers_from_shape` — from the shape invariant `RShape` ALONE: nothing is assumed about what is queued in any
  of the four channels, about the client tables or about ids (so also under loss, duplication and stale traffic).
* `C06_net_chain3_relay_resupplied` — phase (a) on its own: after `send 2 @t1` and `pullU n0 t1 t2` the RELAY holds a result.
* `C06_net_chain3_keeps_recovering` — `k` consecutive healing schedules hand the sink at least `k` sets.
Proof (helper files `C06ChainRecoverEdge.lean`, `C06ChainRecoverUp.lean`, `C06ChainRecoverDown.lean`): one edge at endpoint level
(`edge_round`: a `send` under any id `≥ min_send_id` beyond the time-out of the others + a `recv` of the waiting consumer return a
new set or lower the handshake stage 3 HELLO → 2 fast-forward → 1 expected id → 0 newer id; the pair argument of `C06Live.lean`
with `state` hand-over values on both sides); upstream `resupply` (flush of the source's queue, one relay poll, four rounds: the
relay HOLDS a result afterwards, `UpOK` — at most one request of the LIVE relay queued, nobody else heard after `T0` — holds again);
downstream `down_flush` (one `send 1` per request queued at the relay, whatever it is, the relay re-supplied after each),
`down_first`, `w12_round` (measure `stageE` on the edge 1 → 2: after a fast-forward or a publish the relay's NEXT result carries an
id `≥ min_send_id` by `RShape`, which is all the measure needs).
Not covered: a `pass` relay (forwards whatever it is handed) is not `FwdMain`; multi-topic results; chains longer than 3; the
fair-schedule form (any schedule with enough fair rounds beyond the two time-outs) is NOT proved for the chain with restarts.
-/
namespace OF.Net
open OF
open OF.Pair (PubIdle PubBusy Idle Stale OthersStale)

theorem heal3_assoc (n0 n1 : Nat) (t1 t2 t3 : Int) :
    heal3 n0 n1 t1 t2 t3 = [Ev.nodeSend 2 t1] ++ (pullU n0 t1 t2 ++
      ((List.replicate n1 ([Ev.nodeSend 1 t2] ++ pullU 5 t2 t2)).flatten ++
        ([Ev.nodeRecv 2] ++ (List.replicate 4 (roundD t3)).flatten))) := by
  simp only [heal3, roundD, List.append_assoc]

/-- **the healing schedule works from every state with an invariant `I` that implies the shape invariant**, for any flush counts not
below the numbers of queued requests and any clock readings beyond the two time-outs -/
theorem heal3_from_inv (proc : Proc) {I : St → Prop} (hI : InvOK proc I) (st : St) (hsh : I st) (c0 c1 : Nat) (t1 t2 t3 : Int)
    (hc0 : reqLen st 0 ≤ c0) (hc1 : reqLen st 1 ≤ c1)
    (h2 : lastHeardAt st 0 t1 + OF.Facts.ZMQ_CONN_TIMEOUT < t2) (h3 : lastHeardAt st 1 t2 + OF.Facts.ZMQ_CONN_TIMEOUT < t3) :
    ∃ id ∈ returnedBy T3 proc 2 st (heal3 c0 c1 t1 t2 t3), prevOf st.nodes 2 < id := by
  have hsh' := hI.shape st hsh
  rcases hsh' with ⟨n0, n1, n2, hn, h0, h1, hN2⟩
  rcases h0.pub with ⟨q0, hq0⟩
  rcases h1.pub with ⟨q1, hq1⟩
  have hlen0 : reqLen st 0 = q0.length := by simp [reqLen, hn, hq0.queues]
  have hlen1 : reqLen st 1 = q1.length := by simp [reqLen, hn, hq1.queues]
  have hT0 : lastHeardAt st 0 t1 = Pair.lastHeard n0.pub.clients t1 := by simp [lastHeardAt, hn]
  have hT1 : lastHeardAt st 1 t2 = Pair.lastHeard n1.pub.clients t2 := by simp [lastHeardAt, hn]
  rw [hT0] at h2
  rw [hT1] at h3
  have ⟨a0, b0⟩ := Pair.lastHeard_ge n0.pub.clients t1
  have ⟨a1, b1⟩ := Pair.lastHeard_ge n1.pub.clients t2
  have hprev : prevOf st.nodes 2 = n2.con.prevId := prevOf_some st.nodes 2 n2 (by rw [hn]; rfl)
  rw [hlen0] at hc0
  rw [hlen1] at hc1
  rw [hprev, heal3_assoc]
  -- phase 0: the sink hands on what it holds
  have e0 := send2_nodes proc st n0 n1 n2 t1 hn
  have hsh0 : I (step T3 proc st (.nodeSend 2 t1)).1 := hI.step st _ hsh
  -- phase 1: the relay is made to hold a result
  have ⟨m0, m1, e1, e1p, e1g, e1h, e1u⟩ := resupply proc hI _ n0 n1 { n2 with pending := none } c0 t1 t2
    (Pair.lastHeard n0.pub.clients t1) q0 h2 e0 hsh0 hq0 hc0 (Or.inr a0) (othersLe_of_stale _ _ _ b0)
  have hsh1 := inv_run hI (pullU c0 t1 t2) _ hsh0
  have hH1 : Held I (run T3 proc (step T3 proc st (.nodeSend 2 t1)).1 (pullU c0 t1 t2)).1 m0 m1 { n2 with pending := none }
      (Pair.lastHeard n0.pub.clients t1) := ⟨e1, hsh1, e1u, e1h, rfl⟩
  -- phase 2: the relay's request queue is flushed
  have ⟨k0, k1, k2, hH2, f1, f2, f3, f4, f5⟩ := down_flush proc hI t2 (Pair.lastHeard n0.pub.clients t1)
    (Pair.lastHeard n1.pub.clients t2) h2 a1 c1 _ m0 m1 { n2 with pending := none } q1 hH1 (by rw [e1p]; exact hq1)
    hc1 (by rw [e1p]; exact b1)
  have f5' : k2.con.prevId = n2.con.prevId := f5
  -- phase 3: the sink polls
  have hT03 : Pair.lastHeard n0.pub.clients t1 + OF.Facts.ZMQ_CONN_TIMEOUT < t3 := by
    have := Pair.conn_timeout_nonneg; omega
  rw [returnedBy_append, returnedBy_append, returnedBy_append, run_one]
  refine (fun (hx : ∃ id ∈ returnedBy T3 proc 2
      (run T3 proc (run T3 proc (step T3 proc st (.nodeSend 2 t1)).1 (pullU c0 t1 t2)).1
        (List.replicate c1 ([Ev.nodeSend 1 t2] ++ pullU 5 t2 t2)).flatten).1
      ([Ev.nodeRecv 2] ++ (List.replicate 4 (roundD t3)).flatten), n2.con.prevId < id) => ?_) ?_
  · rcases hx with ⟨id, hid, hlt⟩
    exact ⟨id, List.mem_append_right _ (List.mem_append_right _ (List.mem_append_right _ hid)), hlt⟩
  · rw [returnedBy_append, run_one]
    rcases down_first proc hI _ k0 k1 k2 _ _ hH2 f1 f2 with ⟨id, hid, hlt⟩ | ⟨x1, x2, s', hw, hle⟩
    · refine ⟨id, List.mem_append_left _ ?_, by omega⟩
      show id ∈ retAt 2 (.nodeRecv 2) _ ++ []
      rw [List.append_nil]; exact hid
    · have ⟨id, hid, hlt⟩ := w12_rounds proc hI t3 _ _ hT03 h3 4 _ k0 x1 x2 s' hw
        (by have := stageE_le x1.pub x2.con s' 2 x2.gen; omega)
      exact ⟨id, List.mem_append_right _ hid, by omega⟩

theorem invOK_rshape (proc : Proc) (hf : FwdMain proc) : InvOK proc RShape :=
  ⟨fun _ h => h, fun st e h => rshape_step proc hf st e h⟩

theorem heal3_from_shape (proc : Proc) (hf : FwdMain proc) (st : St) (hsh : RShape st) (c0 c1 : Nat) (t1 t2 t3 : Int)
    (hc0 : reqLen st 0 ≤ c0) (hc1 : reqLen st 1 ≤ c1)
    (h2 : lastHeardAt st 0 t1 + OF.Facts.ZMQ_CONN_TIMEOUT < t2) (h3 : lastHeardAt st 1 t2 + OF.Facts.ZMQ_CONN_TIMEOUT < t3) :
    ∃ id ∈ returnedBy T3 proc 2 st (heal3 c0 c1 t1 t2 t3), prevOf st.nodes 2 < id :=
  heal3_from_inv proc (invOK_rshape proc hf) st hsh c0 c1 t1 t2 t3 hc0 hc1 h2 h3

/-- phase (a) from a state with the invariant -/
theorem relay_resupplied_inv (proc : Proc) {I : St → Prop} (hI : InvOK proc I) (st : St) (hsh : I st) (t1 t2 : Int)
    (h2 : lastHeardAt st 0 t1 + OF.Facts.ZMQ_CONN_TIMEOUT < t2) :
    pendingAt (run T3 proc st ([Ev.nodeSend 2 t1] ++ pullU (reqLen st 0) t1 t2)).1 1 = true := by
  have hsh' := hI.shape st hsh
  rcases hsh' with ⟨n0, n1, n2, hn, h0, h1, hN2⟩
  rcases h0.pub with ⟨q0, hq0⟩
  have hlen0 : reqLen st 0 = q0.length := by simp [reqLen, hn, hq0.queues]
  have hT0 : lastHeardAt st 0 t1 = Pair.lastHeard n0.pub.clients t1 := by simp [lastHeardAt, hn]
  rw [hT0] at h2
  have ⟨a0, c0⟩ := Pair.lastHeard_ge n0.pub.clients t1
  have e0 := send2_nodes proc st n0 n1 n2 t1 hn
  have hsh0 : I (step T3 proc st (.nodeSend 2 t1)).1 := hI.step st _ hsh
  have ⟨m0, m1, e1, _, _, e1h, _⟩ := resupply proc hI _ n0 n1 { n2 with pending := none } q0.length t1 t2
    (Pair.lastHeard n0.pub.clients t1) q0 h2 e0 hsh0 hq0 (Nat.le_refl _) (Or.inr a0) (othersLe_of_stale _ _ _ c0)
  rw [run_append_fst, run_one, hlen0]
  unfold pendingAt
  rw [e1]
  cases hp : m1.pending with
  | none => exact absurd hp e1h
  | some _ => simp [hp]

/-! ## the theorems -/

/-- **C06 (a 3-node chain heals after ANY history — counts and clock readings as parameters)**: from every reachable state
(restarts of any node anywhere in the history) the schedule `heal3 c0 c1 t1 t2 t3` with ANY `c0` / `c1` not below the numbers of
requests queued at the source / at the relay (over-estimates are harmless), the current clock reading `t1`, ANY `t2` more than `ZMQ_CONN_TIMEOUT` after `t1` and after everything the source's client table
remembers, ANY `t3` more than `ZMQ_CONN_TIMEOUT` after `t2` and after everything the relay's client table remembers, makes the
sink's `recv` return a frame set whose id is above the sink's `prev_id`. -/
theorem C06_net_chain3_recovers_at (proc : Proc) (hf : FwdMain proc) (st : St) (hr : Reachable T3 proc st) (c0 c1 : Nat)
    (t1 t2 t3 : Int) (hc0 : reqLen st 0 ≤ c0) (hc1 : reqLen st 1 ≤ c1)
    (h2 : lastHeardAt st 0 t1 + OF.Facts.ZMQ_CONN_TIMEOUT < t2) (h3 : lastHeardAt st 1 t2 + OF.Facts.ZMQ_CONN_TIMEOUT < t3) :
    ∃ id ∈ returnedBy T3 proc 2 st (heal3 c0 c1 t1 t2 t3), prevOf st.nodes 2 < id :=
  heal3_from_shape proc hf st (rshape_reachable proc hf st hr) c0 c1 t1 t2 t3 hc0 hc1 h2 h3

/-- **C06 (a 3-node chain heals after ANY history, restarts included)**: from EVERY state reachable by ANY schedule of `recv` /
`send` calls at any clock readings and restarts (graceful or crash) of ANY of the three nodes, the healing schedule `healOf st t1`
— a function of the state and of the current clock reading `t1` only — hands the SINK a new frame set: its `recv` returns an id
above its `prev_id`, hence above everything this sink incarnation returned before.  `2 n0 + 24 n1 + 115` events, two connection
time-outs (`C06_net_chain3_recovery_bound`). -/
theorem C06_net_chain3_recovers (proc : Proc) (hf : FwdMain proc) (st : St) (hr : Reachable T3 proc st) (t1 : Int) :
    ∃ id ∈ returnedBy T3 proc 2 st (healOf st t1), prevOf st.nodes 2 < id := by
  unfold healOf
  apply C06_net_chain3_recovers_at proc hf st hr _ _ _ _ _ (Nat.le_refl _) (Nat.le_refl _)
  · unfold healT2; omega
  · unfold healT3; omega

/-- **C06 (the same from the shape invariant alone)**: nothing is assumed about what is queued in any of the four channels, about
the two client tables or about any id — so the schedule also heals after loss, duplication or stale traffic. -/
theorem C06_net_chain3_recovers_from_shape (proc : Proc) (hf : FwdMain proc) (st : St) (hsh : RShape st) (t1 : Int) :
    ∃ id ∈ returnedBy T3 proc 2 st (healOf st t1), prevOf st.nodes 2 < id := by
  unfold healOf
  apply heal3_from_shape proc hf st hsh _ _ _ _ _ (Nat.le_refl _) (Nat.le_refl _)
  · unfold healT2; omega
  · unfold healT3; omega

/-- **C06 (phase (a): the relay is re-supplied)**: from every reachable state, after the sink's `send` and
`pullU (#requests queued at the source) t1 t2` (`t2` beyond the time-out of everything the source's client table remembers) the
RELAY holds a result — whatever incarnations of relay / source died before, whatever is queued. -/
theorem C06_net_chain3_relay_resupplied (proc : Proc) (hf : FwdMain proc) (st : St) (hr : Reachable T3 proc st) (t1 t2 : Int)
    (h2 : lastHeardAt st 0 t1 + OF.Facts.ZMQ_CONN_TIMEOUT < t2) :
    pendingAt (run T3 proc st ([Ev.nodeSend 2 t1] ++ pullU (reqLen st 0) t1 t2)).1 1 = true :=
  relay_resupplied_inv proc (invOK_rshape proc hf) st (rshape_reachable proc hf st hr) t1 t2 h2

/-! ## it keeps recovering -/

/-- `k` healing schedules one after the other, each computed from the state reached; the clock moves on -/
def healN (proc : Proc) : Nat → St → Int → List Ev
  | 0, _, _ => []
  | k + 1, st, t1 => healOf st t1 ++ healN proc k (run T3 proc st (healOf st t1)).1 (healT3 st t1)

theorem reachable_run3 (proc : Proc) : ∀ (evs : List Ev) (st : St), Reachable T3 proc st → Reachable T3 proc (run T3 proc st evs).1 := by
  intro evs
  induction evs with
  | nil => intro st h; exact h
  | cons e es ih => intro st h; exact ih _ (Reachable.step e h)

/-- **C06 (the chain keeps recovering)**: from every reachable state `k` consecutive healing schedules (each computed from the
state reached) hand the sink at least `k` frame sets — no reachable state from which only finitely many sets can be delivered. -/
theorem C06_net_chain3_keeps_recovering (proc : Proc) (hf : FwdMain proc) : ∀ (k : Nat) (st : St), Reachable T3 proc st →
    ∀ t1 : Int, k ≤ (returnedBy T3 proc 2 st (healN proc k st t1)).length := by
  intro k
  induction k with
  | zero => intro st _ t1; exact Nat.zero_le _
  | succ k ih =>
    intro st hr t1
    have ⟨id, hid, _⟩ := C06_net_chain3_recovers proc hf st hr t1
    have h1 : 1 ≤ (returnedBy T3 proc 2 st (healOf st t1)).length := List.length_pos_of_mem hid
    have h2 := ih _ (reachable_run3 proc (healOf st t1) st hr) (healT3 st t1)
    show k + 1 ≤ (returnedBy T3 proc 2 st (healOf st t1 ++ healN proc k (run T3 proc st (healOf st t1)).1 (healT3 st t1))).length
    rw [returnedBy_append, List.length_append]
    omega

/-! ## non-vacuity (kernel-evaluated on the definitions the driver executes) -/

/-- the theorem instantiated at the crash scenarios found on the REAL objects (sink crashed and restarted; relay crashed and
restarted; both): the states are reachable, the hypotheses hold … -/
example : ∃ id ∈ healedBy exSinkCrash 1351, prevOf (stAfter exSinkCrash).nodes 2 < id :=
  C06_net_chain3_recovers mainProc mainProc_fwdMain _ (reachable_run3 mainProc exSinkCrash _ Reachable.init) 1351

example : ∃ id ∈ healedBy exBothCrash 1403, prevOf (stAfter exBothCrash).nodes 2 < id :=
  C06_net_chain3_recovers mainProc mainProc_fwdMain _ (reachable_run3 mainProc exBothCrash _ Reachable.init) 1403

/-- … and the conclusion evaluated: the sink is handed set 1 (after set 0) resp. set 3 (after 0, 1, 2); the relay holds a
result after phase (a) -/
example : healedBy exSinkCrash 1351 = [1] ∧ prevOf (stAfter exSinkCrash).nodes 2 = -1 ∧
    healedBy (exFlow ++ [.restart 1 false, .nodeRecv 2, .nodeRecv 2, .restart 2 false]) 1600 = [3] ∧
    pendingAt (run T3 mainProc (stAfter exRelayCrash)
      ([Ev.nodeSend 2 7502] ++ pullU (reqLen (stAfter exRelayCrash) 0) 7502 (healT2 (stAfter exRelayCrash) 7502))).1 1 = true := by
  decide +kernel

/-- three consecutive healing schedules after the sink crash: sets 1, 2, 3 (an instance of `C06_net_chain3_keeps_recovering`) -/
example : returnedBy T3 mainProc 2 (stAfter exSinkCrash) (healN mainProc 3 (stAfter exSinkCrash) 1351) = [1, 2, 3] := by
  decide +kernel

/-- NEGATIVE (the two time-outs are needed): the same schedule with `t2 = t3 = t1` (hypotheses `h2`, `h3` of
`C06_net_chain3_recovers_at` violated) leaves the sink unserved after a crashed-and-restarted sink / relay -/
example : healedNoWait exSinkCrash 1351 = [] ∧ healedNoWait exRelayCrash 7502 = [] ∧
    ¬ (lastHeardAt (stAfter exSinkCrash) 1 1351 + OF.Facts.ZMQ_CONN_TIMEOUT < 1351) ∧
    ¬ (lastHeardAt (stAfter exRelayCrash) 0 7502 + OF.Facts.ZMQ_CONN_TIMEOUT < 7502) := by
  decide +kernel

end OF.Net
