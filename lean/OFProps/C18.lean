import OFModel.Lineage
import OFProps.C08
/-!
# C18 — property theorems (well-formed lineage history)

Quantifier: every `Script` and `Policy` (every way a run can end: C08's quantifier), every schedule of
the heartbeat thread `sched : List Nat` (every interleaving; run length vs heartbeat interval is the
number of heartbeat steps between two emitter calls), every run id.

The theorems are about `Variant.patched`, the behaviour of /repo with `fix: one terminal lineage
event per run`; the behaviour before the fix is kept as `decide`d witnesses at the end.
-/
set_option linter.unusedSimpArgs false
namespace OF.Lineage
open OF.Life

/-! ## the emitter calls of a run: `hbStop* [emitStart hbStart hbStop*] emitStop` -/

def AllHb (l : List EOp) : Prop := ∀ o ∈ l, o = .hbStop

theorem allHb_nil : AllHb [] := by intro o h; cases h
theorem allHb_append {a b : List EOp} (ha : AllHb a) (hb : AllHb b) : AllHb (a ++ b) := by
  intro o h; rcases List.mem_append.mp h with h | h
  · exact ha o h
  · exact hb o h

theorem opsOf_append (a b : List Ev) : opsOf (a ++ b) = opsOf a ++ opsOf b := by
  induction a with
  | nil => rfl
  | cons e a ih => cases e <;> simp [opsOf, ih]

/-- not an emitter call other than `stop_lineage_heart_beat` -/
def noEm : Ev → Bool
  | .emitStart | .hbStart | .emitStop _ => false
  | _ => true

theorem allHb_opsOf {l : List Ev} (h : ∀ e ∈ l, noEm e = true) : AllHb (opsOf l) := by
  induction l with
  | nil => exact allHb_nil
  | cons e l ih =>
    have hl := ih (fun x hx => h x (List.mem_cons_of_mem _ hx))
    have he := h e (List.mem_cons_self ..)
    cases e <;> simp [noEm] at he <;> simp only [opsOf] <;> try exact hl
    intro o ho
    rcases List.mem_cons.mp ho with rfl | ho
    · rfl
    · exact hl o ho

theorem aux_noEm {e : Ev} (h : e.aux = true) : noEm e = true := by
  cases e <;> simp [Ev.aux] at h <;> rfl

theorem stage_noEm (P : Policy) (s : Script) (st : Bool) : ∀ e ∈ (stage P s st).evs, noEm e = true := by
  intro e he
  unfold stage at he
  rcases bind_mem he with h | ⟨_, h⟩
  · simp [emit] at h; subst h; rfl
  · rcases bind_mem h with h | ⟨_, h⟩
    · exact aux_noEm (perform_aux _ _ _ _ h)
    · rcases bind_mem h with h | ⟨_, h⟩
      · simp [emit] at h; subst h; rfl
      · rw [fin_evs] at h
        rcases List.mem_append.mp h with h | h
        · exact aux_noEm (loop_aux _ _ _ _ _ _ h)
        · rcases bind_mem h with h | ⟨_, h⟩
          · simp [emit] at h; subst h; rfl
          · exact aux_noEm (perform_aux _ _ _ _ h)

theorem guarded_noEm (P : Policy) (s : Script) (st : Bool) : ∀ e ∈ (guarded P s st).evs, noEm e = true := by
  intro e he
  unfold guarded at he
  simp only [fin_evs] at he
  rcases List.mem_append.mp he with h | h
  · rcases List.mem_append.mp h with h | h
    · exact stage_noEm P s st e h
    · unfold announce at h
      split at h
      · simp at h; subst h; rfl
      · simp [emit] at h
  · rcases bind_mem h with h | ⟨_, h⟩
    · simp [emit] at h; rcases h with rfl | rfl <;> rfl
    · exact aux_noEm (perform_aux _ _ _ _ h)

/-- what `init()` does after START and the heartbeat: build the MQ, the subclass's own part -/
def initTail (P : Policy) (s : Script) (st : Bool) : R :=
  (if s.mqRaises then (⟨some .other, st, []⟩ : R) else emit [.mqBuilt] st).bind fun st =>
  let r := perform P.obey s.initPost st
  match r.exn with
  | some _ => ⟨r.exn, r.stop, r.evs ++ [.mqDestroy]⟩
  | none => ⟨none, r.stop, r.evs ++ [.initDone]⟩

theorem initStage_eq (P : Policy) (s : Script) (st : Bool) :
    initStage P s st = (emit [.init] st).bind fun st => (perform P.obey s.initPre st).bind fun st =>
      (emit [.emitStart, .hbStart] st).bind (initTail P s) := rfl

theorem initTail_noEm (P : Policy) (s : Script) (st : Bool) : ∀ e ∈ (initTail P s st).evs, noEm e = true := by
  intro e he
  unfold initTail at he
  rcases bind_mem he with h1 | ⟨st', h1⟩
  · split at h1
    · simp at h1
    · simp [emit] at h1; subst h1; rfl
  · simp only at h1
    split at h1
    · simp only [List.mem_append, List.mem_singleton] at h1
      rcases h1 with h1 | rfl
      · exact aux_noEm (perform_aux _ _ _ _ h1)
      · rfl
    · simp only [List.mem_append, List.mem_singleton] at h1
      rcases h1 with h1 | rfl
      · exact aux_noEm (perform_aux _ _ _ _ h1)
      · rfl

/-- emitter calls made by `init()`: either it fails before `Filter.init` is reached, or START + heartbeat -/
theorem initStage_ops (P : Policy) (s : Script) (st : Bool) :
    ∃ H1 H2, AllHb H1 ∧ AllHb H2 ∧
      (((initStage P s st).exn.isSome = true ∧ opsOf (initStage P s st).evs = H1) ∨
       opsOf (initStage P s st).evs = H1 ++ [.emitStart, .hbStart] ++ H2) := by
  rw [initStage_eq, emit_bind]
  have hH1 : AllHb (opsOf (perform P.obey s.initPre st).evs) := allHb_opsOf (fun x hx => aux_noEm (perform_aux _ _ _ _ hx))
  cases h : (perform P.obey s.initPre st).exn with
  | some e =>
    refine ⟨_, [], hH1, allHb_nil, Or.inl ?_⟩
    rw [bind_of_some h]; simp [h, opsOf]
  | none =>
    rw [bind_of_none h, emit_bind]
    refine ⟨_, opsOf (initTail P s (perform P.obey s.initPre st).stop).evs, hH1, allHb_opsOf (initTail_noEm P s _), Or.inr ?_⟩
    simp only [List.cons_append, List.nil_append, opsOf_append, opsOf, List.append_assoc]

/-- the terminal state `run` passes to `emit_stop` -/
def cleanEnd (P : Policy) (s : Script) : Bool := (run P s).outcome == .returns

/-- **shape of the emitter calls of any run** -/
theorem ops_shape (P : Policy) (s : Script) :
    opsOf (run P s).evs = [] ∨
    ∃ H1 H2, AllHb H1 ∧ AllHb H2 ∧
      (opsOf (run P s).evs = H1 ++ [.emitStop (cleanEnd P s)] ∨
       opsOf (run P s).evs = H1 ++ [.emitStart, .hbStart] ++ H2 ++ [.emitStop (cleanEnd P s)]) := by
  unfold cleanEnd
  generalize hc : ((run P s).outcome == .returns) = c
  unfold run at hc ⊢
  cases hctor : s.ctorRaises
  case true => left; simp [opsOf]
  case false =>
  right
  simp only [hctor, Bool.false_eq_true, if_false] at hc ⊢
  rw [hc]
  simp only [opsOf_append, opsOf, List.nil_append, inner]
  obtain ⟨H1, H2, h1, h2, h⟩ := initStage_ops P s false
  cases hi : (initStage P s false).exn with
  | some e =>
    rw [bind_of_some hi]
    rcases h with ⟨_, h⟩ | h
    · exact ⟨H1, [], h1, allHb_nil, Or.inl (by rw [h])⟩
    · exact ⟨H1, H2, h1, h2, Or.inr (by rw [h])⟩
  | none =>
    rw [bind_of_none hi]
    simp only [opsOf_append]
    rcases h with ⟨h0, _⟩ | h
    · simp [hi] at h0
    · refine ⟨H1, H2 ++ opsOf (guarded P s (initStage P s false).stop).evs, h1,
        allHb_append h2 (allHb_opsOf (guarded_noEm P s _)), Or.inr ?_⟩
      rw [h]; simp

/-! ## the emitter machine (patched) -/

def ev (rid : Nat) (t : EvT) : LEvent := ⟨t, rid⟩

/-- before START: nothing emitted, heartbeat thread not running -/
def Pre (rid : Nat) (m : Em) : Prop :=
  m.rid = rid ∧ m.started = false ∧ m.stopped = false ∧ m.alive = false ∧ m.out = []

/-- between START and the terminal event -/
def Running (rid n : Nat) (m : Em) : Prop :=
  m.rid = rid ∧ m.started = true ∧ m.stopped = false ∧ m.out = ev rid .start :: List.replicate n (ev rid .running)

/-- after the terminal event: the stop event is set -/
def Done (rid n : Nat) (t : EvT) (m : Em) : Prop :=
  m.rid = rid ∧ m.stopEv = true ∧ m.stopped = true ∧
  m.out = ev rid .start :: List.replicate n (ev rid .running) ++ [ev rid t]

theorem beat_pre {rid : Nat} {m : Em} (h : Pre rid m) : beat .patched m = m := by
  unfold beat; simp [h.2.2.2.1]

theorem beats_pre {rid : Nat} (k : Nat) {m : Em} (h : Pre rid m) : beats .patched k m = m := by
  induction k with
  | zero => rfl
  | succ k ih => simp only [beats, beat_pre h, ih]

theorem beat_running {rid n : Nat} {m : Em} (h : Running rid n m) :
    Running rid n (beat .patched m) ∨ Running rid (n + 1) (beat .patched m) := by
  obtain ⟨h1, h2, h3, h4⟩ := h
  unfold beat
  cases ha : m.alive
  · left; simp; exact ⟨h1, h2, h3, h4⟩
  · cases hs : m.stopEv
    · right
      simp only [Bool.not_true, Bool.false_eq_true, if_false]
      refine ⟨h1, h2, h3, ?_⟩
      simp only [Em.push, h4, h1, List.replicate_succ', ev]
      simp
    · left; simp; exact ⟨h1, h2, h3, h4⟩

theorem beats_running {rid : Nat} (k : Nat) : ∀ {n : Nat} {m : Em}, Running rid n m → ∃ n', Running rid n' (beats .patched k m) := by
  induction k with
  | zero => intro n m h; exact ⟨n, h⟩
  | succ k ih =>
    intro n m h
    rcases beat_running h with h | h
    · exact ih h
    · exact ih h

theorem beat_done {rid n : Nat} {t : EvT} {m : Em} (h : Done rid n t m) : Done rid n t (beat .patched m) := by
  obtain ⟨h1, h2, h3, h4⟩ := h
  unfold beat
  cases ha : m.alive
  · simp; exact ⟨h1, h2, h3, h4⟩
  · simp only [Bool.not_true, Bool.false_eq_true, if_false, h2, if_true]
    exact ⟨h1, rfl, h3, h4⟩

theorem beats_done {rid n : Nat} {t : EvT} (k : Nat) : ∀ {m : Em}, Done rid n t m → Done rid n t (beats .patched k m) := by
  induction k with
  | zero => intro m h; exact h
  | succ k ih => intro m h; exact ih (beat_done h)

theorem hbStop_pre {rid : Nat} {m : Em} (h : Pre rid m) : Pre rid (mainOp .patched m .hbStop) := by
  obtain ⟨h1, h2, h3, h4, h5⟩ := h; exact ⟨h1, h2, h3, h4, h5⟩

theorem hbStop_running {rid n : Nat} {m : Em} (h : Running rid n m) : Running rid n (mainOp .patched m .hbStop) := by
  obtain ⟨h1, h2, h3, h4⟩ := h; exact ⟨h1, h2, h3, h4⟩

theorem hbStart_running {rid n : Nat} {m : Em} (h : Running rid n m) : Running rid n (mainOp .patched m .hbStart) := by
  obtain ⟨h1, h2, h3, h4⟩ := h
  simp only [mainOp]
  split
  · exact ⟨h1, h2, h3, h4⟩
  · exact ⟨h1, h2, h3, h4⟩

theorem emitStart_pre {rid : Nat} {m : Em} (h : Pre rid m) : Running rid 0 (mainOp .patched m .emitStart) := by
  obtain ⟨h1, h2, h3, h4, h5⟩ := h
  refine ⟨h1, rfl, rfl, ?_⟩
  simp [mainOp, Em.push, h5, h1, ev]

theorem emitStop_pre {rid : Nat} {m : Em} (c : Bool) (h : Pre rid m) : Pre rid (mainOp .patched m (.emitStop c)) := by
  obtain ⟨h1, h2, h3, h4, h5⟩ := h
  simp only [mainOp, h2, Bool.false_and, Bool.false_eq_true, if_false]
  exact ⟨h1, rfl, h3, h4, h5⟩

/-- COMPLETE for a clean end, ABORT otherwise -/
def terminal (c : Bool) : EvT := if c then .complete else .abort

theorem emitStop_running {rid n : Nat} {m : Em} (c : Bool) (h : Running rid n m) :
    Done rid n (terminal c) (mainOp .patched m (.emitStop c)) := by
  obtain ⟨h1, h2, h3, h4⟩ := h
  simp only [mainOp, h2, h3, Bool.not_false, Bool.and_self, if_true]
  refine ⟨h1, rfl, rfl, ?_⟩
  simp only [Em.push, h4, h1, ev, terminal]

theorem interleave_hb_pre {rid : Nat} (H rest : List EOp) (hH : AllHb H) :
    ∀ (sched : List Nat) (m : Em), Pre rid m →
      ∃ sched' m', Pre rid m' ∧ interleave .patched (H ++ rest) sched m = interleave .patched rest sched' m' := by
  induction H with
  | nil => intro sched m h; exact ⟨sched, m, h, rfl⟩
  | cons o H ih =>
    intro sched m h
    have ho : o = .hbStop := hH o (List.mem_cons_self ..)
    subst ho
    simp only [List.cons_append, interleave, beats_pre _ h]
    exact ih (fun x hx => hH x (List.mem_cons_of_mem _ hx)) _ _ (hbStop_pre h)

theorem interleave_hb_running {rid : Nat} (H rest : List EOp) (hH : AllHb H) :
    ∀ (sched : List Nat) (n : Nat) (m : Em), Running rid n m →
      ∃ sched' n' m', Running rid n' m' ∧ interleave .patched (H ++ rest) sched m = interleave .patched rest sched' m' := by
  induction H with
  | nil => intro sched n m h; exact ⟨sched, n, m, h, rfl⟩
  | cons o H ih =>
    intro sched n m h
    have ho : o = .hbStop := hH o (List.mem_cons_self ..)
    subst ho
    simp only [List.cons_append, interleave]
    obtain ⟨n1, h1⟩ := beats_running (sched.headD 0) h
    exact ih (fun x hx => hH x (List.mem_cons_of_mem _ hx)) _ _ _ (hbStop_running h1)

/-- nothing is emitted when START was never reached -/
theorem interleave_no_start {rid : Nat} (H1 : List EOp) (h1 : AllHb H1) (c : Bool) (sched : List Nat) :
    (interleave .patched (H1 ++ [.emitStop c]) sched (Em.fresh rid)).out = [] := by
  obtain ⟨sched', m', hp, heq⟩ := interleave_hb_pre (rid := rid) H1 [.emitStop c] h1 sched (Em.fresh rid) ⟨rfl, rfl, rfl, rfl, rfl⟩
  rw [heq]
  simp only [interleave, beats_pre _ hp]
  have h2 := emitStop_pre c hp
  rw [beats_pre _ h2]
  exact h2.2.2.2.2

/-- START, heartbeats, one terminal event, for every schedule -/
theorem interleave_started {rid : Nat} (H1 H2 : List EOp) (h1 : AllHb H1) (h2 : AllHb H2) (c : Bool) (sched : List Nat) :
    ∃ n, (interleave .patched (H1 ++ [.emitStart, .hbStart] ++ H2 ++ [.emitStop c]) sched (Em.fresh rid)).out =
      ev rid .start :: List.replicate n (ev rid .running) ++ [ev rid (terminal c)] := by
  have e1 : H1 ++ [.emitStart, .hbStart] ++ H2 ++ [.emitStop c] = H1 ++ (.emitStart :: .hbStart :: (H2 ++ [.emitStop c])) := by simp
  rw [e1]
  obtain ⟨s1, m1, hp, heq⟩ := interleave_hb_pre (rid := rid) H1 _ h1 sched (Em.fresh rid) ⟨rfl, rfl, rfl, rfl, rfl⟩
  rw [heq]
  simp only [interleave, beats_pre _ hp]
  have hr0 := emitStart_pre hp
  obtain ⟨n1, hr1⟩ := beats_running (s1.tail.headD 0) hr0
  have hr2 := hbStart_running hr1
  obtain ⟨s3, n3, m3, hr3, heq3⟩ := interleave_hb_running (rid := rid) H2 [.emitStop c] h2 s1.tail.tail _ _ hr2
  rw [heq3]
  simp only [interleave]
  obtain ⟨n4, hr4⟩ := beats_running (s3.headD 0) hr3
  have hd := beats_done (s3.tail.headD 0 + 1) (emitStop_running c hr4)
  exact ⟨n4, hd.2.2.2⟩

/-! ## the property theorems -/

/-- **C18** (the whole statement): the history of a run is empty (START was never reached) or
`START · RUNNING* · t` with exactly one terminal event `t`, last, `t = COMPLETE` iff `run()` returned normally,
every event carrying the run id — for every script, policy, heartbeat schedule. -/
theorem C18_history (P : Policy) (s : Script) (sched : List Nat) (rid : Nat) :
    history .patched P s sched rid = [] ∨
    ∃ n, history .patched P s sched rid =
      ev rid .start :: List.replicate n (ev rid .running) ++ [ev rid (terminal (cleanEnd P s))] := by
  unfold history
  rcases ops_shape P s with h | ⟨H1, H2, h1, h2, h | h⟩
  · left; rw [h]; simp [interleave, beats, beat, Em.fresh]
    generalize sched.headD 0 = k
    have : ∀ k (m : Em), m.alive = false → (beats .patched k m) = m := by
      intro k; induction k with
      | zero => intro m _; rfl
      | succ k ih => intro m hm; simp only [beats, beat, hm, Bool.not_false, if_true]; exact ih m hm
    rw [this]; rfl
  · left; rw [h]; exact interleave_no_start H1 h1 _ sched
  · right; rw [h]; exact interleave_started H1 H2 h1 h2 _ sched

/-- **C18** (language): `START · RUNNING* · t`, exactly one terminal `t ∈ {COMPLETE, ABORT}`, nothing after it -/
theorem C18_language (P : Policy) (s : Script) (sched : List Nat) (rid : Nat) :
    history .patched P s sched rid = [] ∨
    ∃ n t, (t = EvT.complete ∨ t = EvT.abort) ∧
      history .patched P s sched rid = ev rid .start :: List.replicate n (ev rid .running) ++ [ev rid t] := by
  rcases C18_history P s sched rid with h | ⟨n, h⟩
  · exact Or.inl h
  · refine Or.inr ⟨n, terminal (cleanEnd P s), ?_, h⟩
    unfold terminal; cases cleanEnd P s <;> simp

/-- **C18** (terminal): the last event is COMPLETE iff the run ended cleanly (`run()` returned), ABORT otherwise -/
theorem C18_terminal (P : Policy) (s : Script) (sched : List Nat) (rid : Nat) (e : LEvent)
    (h : (history .patched P s sched rid).getLast? = some e) :
    (e.typ = .complete ↔ (run P s).outcome = .returns) ∧ (e.typ = .abort ↔ (run P s).outcome ≠ .returns) := by
  rcases C18_history P s sched rid with h0 | ⟨n, h0⟩
  · rw [h0] at h; cases h
  · rw [h0] at h
    have : e = ev rid (terminal (cleanEnd P s)) := by
      simp only [List.getLast?_append, List.getLast?_singleton, Option.some_or] at h
      simpa using h.symm
    subst this
    unfold terminal cleanEnd ev
    cases ho : (run P s).outcome <;> simp

/-- **C18** (errors and interrupts): whenever `run()` raises — an `Exception`, an escaped `PropagateError`, or an
interrupt (`KeyboardInterrupt`, `exit(reason, SystemExit(n))`) — the history, if START was reached, ends with
exactly one ABORT; never COMPLETE -/
theorem C18_raising_run_aborts (P : Policy) (s : Script) (sched : List Nat) (rid : Nat)
    (h : (run P s).outcome ≠ .returns) :
    history .patched P s sched rid = [] ∨
    ∃ n, history .patched P s sched rid = ev rid .start :: List.replicate n (ev rid .running) ++ [ev rid .abort] := by
  have hc : cleanEnd P s = false := by
    unfold cleanEnd; cases ho : (run P s).outcome with
    | returns => exact absurd ho h
    | raises e => rfl
  have := C18_history P s sched rid
  rw [hc] at this
  exact this

/-- **C18** (interrupts): a run that an interrupt leaves (`run()` raises a `BaseException` that is neither an
`Exception` nor `Filter.Exit`) reports ABORT, for every script, policy and heartbeat schedule -/
theorem C18_interrupted_run_aborts (P : Policy) (s : Script) (sched : List Nat) (rid : Nat)
    (h : (run P s).outcome = .raises .base) :
    history .patched P s sched rid = [] ∨
    ∃ n, history .patched P s sched rid = ev rid .start :: List.replicate n (ev rid .running) ++ [ev rid .abort] :=
  C18_raising_run_aborts P s sched rid (by rw [h]; simp)

/-- … and a run that returns normally reports COMPLETE -/
theorem C18_returning_run_completes (P : Policy) (s : Script) (sched : List Nat) (rid : Nat)
    (h : (run P s).outcome = .returns) :
    history .patched P s sched rid = [] ∨
    ∃ n, history .patched P s sched rid = ev rid .start :: List.replicate n (ev rid .running) ++ [ev rid .complete] := by
  have hc : cleanEnd P s = true := by unfold cleanEnd; rw [h]; rfl
  have := C18_history P s sched rid
  rw [hc] at this
  exact this

/-- **C18** (run id): every event of a run carries the same run id -/
theorem C18_run_id_constant (P : Policy) (s : Script) (sched : List Nat) (rid : Nat) :
    ∀ e ∈ history .patched P s sched rid, e.rid = rid := by
  intro e he
  rcases C18_history P s sched rid with h | ⟨n, h⟩
  · rw [h] at he; cases he
  · rw [h] at he
    simp only [List.cons_append, List.mem_cons, List.mem_append, List.mem_replicate, List.mem_singleton, List.not_mem_nil, or_false] at he
    rcases he with rfl | ⟨_, rfl⟩ | rfl <;> rfl

/-- **C18** (START): the history is empty exactly when `Filter.init` (which emits START) was never reached -/
theorem C18_start_iff (P : Policy) (s : Script) (sched : List Nat) (rid : Nat) :
    history .patched P s sched rid = [] ↔ EOp.emitStart ∉ opsOf (run P s).evs := by
  unfold history
  rcases ops_shape P s with h | ⟨H1, H2, h1, h2, h | h⟩
  · rw [h]; simp only [List.not_mem_nil, not_false_iff, iff_true]
    have := C18_history P s sched rid; unfold history at this; rw [h] at this
    rcases this with h0 | ⟨n, h0⟩
    · exact h0
    · have : ∀ k (m : Em), m.alive = false → (beats .patched k m) = m := by
        intro k; induction k with
        | zero => intro m _; rfl
        | succ k ih => intro m hm; simp only [beats, beat, hm, Bool.not_false, if_true]; exact ih m hm
      simp [interleave, this, Em.fresh] at h0
  · rw [h, interleave_no_start H1 h1 _ sched]
    simp only [true_iff, List.mem_append, List.mem_singleton, reduceCtorEq, or_false]
    intro hm; have := h1 _ hm; cases this
  · rw [h]
    obtain ⟨n, hn⟩ := interleave_started (rid := rid) H1 H2 h1 h2 (cleanEnd P s) sched
    rw [hn]; simp

/-! non-vacuity -/

example : (history .patched P0 { sBase with iters := [⟨.ret, .ret, .ret, 0⟩, ⟨.ret, .exitCall .exit, .ret, 0⟩] } [0, 0, 2, 1] 7).map (·.typ) =
    [.start, .running, .running, .complete] := by decide +kernel
example : (history .patched P0 { sBase with iters := [⟨.ret, .raise, .ret, 0⟩] } [0, 0, 3] 7).map (·.typ) =
    [.start, .running, .running, .running, .abort] := by decide +kernel
example : history .patched P0 { sBase with initPre := .raise } [1, 1, 1] 7 = [] := by decide +kernel
example : (run P0 { sBase with iters := [⟨.ret, .interrupt, .ret, 0⟩] }).outcome = .raises .base ∧
    (history .patched P0 { sBase with iters := [⟨.ret, .interrupt, .ret, 0⟩] } [0, 0, 1] 7).map (·.typ) = [.start, .running, .abort] ∧
    (history .patched ⟨3, 3, false⟩ { sBase with shutdown := .exitCall .base } [0, 0, 2] 7).map (·.typ) =
      [.start, .running, .running, .abort] := by decide +kernel

/-! ## the behaviour before the fix (witnesses) -/

/-- pinned: a clean run (`process` calls `exit()`) emits START RUNNING ABORT COMPLETE ABORT ABORT ABORT ABORT -/
theorem C18_pinned_clean_run_malformed :
    ((interleave .pinned pinnedCleanOps [0, 0, 1, 0, 1] (Em.fresh 7)).out.map (·.typ)) =
      [.start, .running, .abort, .complete, .abort, .abort, .abort, .abort] := by decide +kernel

/-- emitter calls of a failing run (`process` raises) at the call sites before the fix: `fini()`: emit_stop;
`except Exception`: stop, emit_stop; inner `finally`: stop, emit_stop; outer `finally`: stop, emit_stop -/
def pinnedErrorOps : List EOp :=
  [.emitStart, .hbStart, .emitStop false, .hbStop, .emitStop false, .hbStop, .emitStop false, .hbStop, .emitStop false]

/-- pinned: a failing run ends with COMPLETE (emitted by the heartbeat thread when it is stopped) -/
theorem C18_pinned_failing_run_ends_with_complete :
    ((interleave .pinned pinnedErrorOps [0, 0, 1] (Em.fresh 7)).out.map (·.typ)) =
      [.start, .running, .abort, .abort, .abort, .abort, .complete] := by decide +kernel

end OF.Lineage
