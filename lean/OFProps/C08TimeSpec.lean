import OFProps.TimeSpecLemmas
/-!
# C08 — the time specifications of `exit_after` (theorems about `OFModel/TimeSpec.lean`)

`parse_time_interval`, the non-ISO branch of `parse_date_and_or_time`, `timestr`, the time-zone decision and the dispatch of
`Filter.init`, as modelled in `OFModel/TimeSpec.lean` (strings are `List Char`; `parseInterval` / `parseDateTime` are the `String` entry
points).  Every theorem is for ALL inputs of the stated shape: `Digits ds` = any non-empty string of ASCII digits (any width, leading
zeros included), `AllDigits fs` = any string of ASCII digits (fraction digits), `Nat.toDigits 10 n` = `str(n)`.
The `example`s beside the theorems are kernel-evaluated instances: positive ones (non-vacuity) and NEGATIVE ones (what is rejected).

What is NOT proved here: that the model is the Python code (that is the tie of `harness/ofverif/timespec.py`: the real functions on
generated strings against the driver op `c08.timespec`); anything about the ISO branch (`datetime.fromisoformat`), `datetime.timestamp`
and binary floating point (see the model's header).
-/
namespace OF.TimeSpec

/-! ## `parse_time_interval`: the parts -/

/-- there are always exactly four parts: the last `match` arm of `parseIntervalL` is never taken -/
theorem C08_timespec_interval_parts_length (t : List Char) : (intervalParts t).length = 4 := by
  rw [intervalParts_eq]
  apply lastN_length
  have := splitOn_length_pos ':' t
  simp only [List.length_cons]; omega

theorem C08_timespec_interval_parts_shape (t : List Char) : ∃ a b c d, intervalParts t = [a, b, c, d] := by
  have := C08_timespec_interval_parts_length t
  match h : intervalParts t, this with
  | [a, b, c, d], _ => exact ⟨a, b, c, d, rfl⟩

/-- TOTAL: for every text the model gives one of the four answers, and it is the value of the four parts (`partsValue`) -/
theorem C08_timespec_interval_total (t : List Char) :
    ∃ a b c d, intervalParts t = [a, b, c, d] ∧ parseIntervalL t = partsValue a b c d := by
  obtain ⟨a, b, c, d, h⟩ := C08_timespec_interval_parts_shape t
  exact ⟨a, b, c, d, h, parseIntervalL_of_parts h⟩

/-- extra leading fields are ignored, whatever they contain: only the last four fields count.  (`p` may be anything, also more fields;
`t` has at least four fields) -/
theorem C08_timespec_interval_extra_fields_ignored (p t : List Char) (h : 4 ≤ (splitOn ':' t).length) :
    parseIntervalL (p ++ ':' :: t) = parseIntervalL t := by
  have e : intervalParts (p ++ ':' :: t) = intervalParts t := by
    rw [intervalParts_of_four_le h, intervalParts_of_four_le (by rw [splitOn_append_sep, List.length_append]; omega), splitOn_append_sep]
    exact lastN_append_of_le 4 _ _ h
  simp only [parseIntervalL, e]

example : parseIntervalL "garbage:9:1:2:3:4.5".toList = .ok (((1 * 24 + 2) * 60 + 3) * 60000 + 4500) := by decide
example : parseIntervalL "1:2:3:4.5".toList = .ok (((1 * 24 + 2) * 60 + 3) * 60000 + 4500) := by decide

/-- NEGATIVE (the hypothesis `4 ≤ fields of t` is needed): in front of a one-field text a further field is the minutes -/
example : parseIntervalL "1:5".toList = .ok 65000 ∧ parseIntervalL "5".toList = .ok 5000 := by decide

/-- missing leading fields are zero, and a `0:` in front never changes anything (with up to three fields it fills the next place with `0`,
with four or more it is one of the ignored fields) — for EVERY text, also the rejected ones -/
theorem C08_timespec_interval_zero_prefix (t : List Char) : parseIntervalL ('0' :: ':' :: t) = parseIntervalL t := by
  by_cases h : (splitOn ':' t).length ≤ 3
  · have e : intervalParts ('0' :: ':' :: t) = intervalParts t := by
      have e0 : '0' :: ':' :: t = ['0'] ++ ':' :: t := rfl
      have z : splitOn ':' ['0'] = [['0']] := by decide
      rw [intervalParts_eq, intervalParts_eq, e0, splitOn_append_sep, z]
      have := splitOn_length_pos ':' t
      match hs : splitOn ':' t, h, this with
      | [a], _, _ => rfl
      | [a, b], _, _ => rfl
      | [a, b, c], _, _ => rfl
    simp only [parseIntervalL, e]
  · exact C08_timespec_interval_extra_fields_ignored ['0'] t (by omega)

/-- the `d` rule is about the fourth field from the right, with or without the `0:`: `1d:0:0` has its `1d` in the hours place (`float` refuses it) -/
example : parseIntervalL "1d:0:0".toList = .reject ∧ parseIntervalL "0:1d:0:0".toList = .reject ∧ parseIntervalL "1d:0:0:0".toList = .ok 86400000 := by decide

/-! ## `parse_time_interval`: weights, fields not swapped -/

/-- value of the parts when every part is a modelled number (in thousandths): the weights are 86400 / 3600 / 60 / 1 -/
theorem C08_timespec_interval_weights {a b c d : List Char} {va vb vc vd : Nat}
    (ha : floatField (stripD a) = .ok va) (hb : floatField b = .ok vb) (hc : floatField c = .ok vc) (hd : floatField d = .ok vd) :
    partsValue a b c d = .ok (86400 * va + 3600 * vb + 60 * vc + vd) := by
  simp [partsValue, ha, hb, hc, hd, combine4]

/-- one field: seconds -/
theorem C08_timespec_interval_arity1 {s : List Char} (hs : ':' ∉ s) {vs : Nat} (h : floatField s = .ok vs) :
    parseIntervalL s = .ok vs := by
  rw [parseIntervalL_of_parts (parts1 hs), C08_timespec_interval_weights (by decide : floatField (stripD ['0']) = .ok 0)
    (by decide : floatField ['0'] = .ok 0) (by decide : floatField ['0'] = .ok 0) h]
  simp

/-- two fields: minutes, seconds (either may have a fraction) -/
theorem C08_timespec_interval_arity2 {m s : List Char} (hm : ':' ∉ m) (hs : ':' ∉ s) {vm vs : Nat}
    (h1 : floatField m = .ok vm) (h2 : floatField s = .ok vs) :
    parseIntervalL (m ++ ':' :: s) = .ok (60 * vm + vs) := by
  rw [parseIntervalL_of_parts (parts2 hm hs), C08_timespec_interval_weights (by decide : floatField (stripD ['0']) = .ok 0)
    (by decide : floatField ['0'] = .ok 0) h1 h2]
  simp

/-- three fields: hours, minutes, seconds.  The first field is NOT a days field: no `d` is stripped from it -/
theorem C08_timespec_interval_arity3 {h m s : List Char} (hh : ':' ∉ h) (hm : ':' ∉ m) (hs : ':' ∉ s) {vh vm vs : Nat}
    (h0 : floatField h = .ok vh) (h1 : floatField m = .ok vm) (h2 : floatField s = .ok vs) :
    parseIntervalL (h ++ ':' :: (m ++ ':' :: s)) = .ok (3600 * vh + 60 * vm + vs) := by
  rw [parseIntervalL_of_parts (parts3 hh hm hs), C08_timespec_interval_weights (by decide : floatField (stripD ['0']) = .ok 0) h0 h1 h2]
  simp

/-- four fields: days (one trailing `d` dropped), hours, minutes, seconds -/
theorem C08_timespec_interval_arity4 {d h m s : List Char} (hd : ':' ∉ d) (hh : ':' ∉ h) (hm : ':' ∉ m) (hs : ':' ∉ s) {vd vh vm vs : Nat}
    (h0 : floatField (stripD d) = .ok vd) (h1 : floatField h = .ok vh) (h2 : floatField m = .ok vm) (h3 : floatField s = .ok vs) :
    parseIntervalL (d ++ ':' :: (h ++ ':' :: (m ++ ':' :: s))) = .ok (86400 * vd + 3600 * vh + 60 * vm + vs) := by
  rw [parseIntervalL_of_parts (parts4 hd hh hm hs), C08_timespec_interval_weights h0 h1 h2 h3]

/-! ## `parse_time_interval`: the canonical renderings, all four arities

`D H M S` are ANY non-empty digit strings (so: every width, leading zeros), `F` any string of at most three fraction digits;
`natOf` is the decimal value, `fracMs F` the thousandths (`'5'` → 500).  No range restriction: `90` minutes or `36` hours are what they say. -/

/-- `S` -/
theorem C08_timespec_interval_canonical1 {S : List Char} (hS : Digits S) :
    parseIntervalL S = .ok (natOf S * 1000) :=
  C08_timespec_interval_arity1 (colon_not_mem_digits hS.2) (floatField_int hS)

/-- `S.F`, `S.`, `.F` -/
theorem C08_timespec_interval_canonical1_frac {S F : List Char} (hS : AllDigits S) (hF : AllDigits F) (hne : S ≠ [] ∨ F ≠ []) (hlen : F.length ≤ 3) :
    parseIntervalL (S ++ '.' :: F) = .ok (natOf S * 1000 + fracMs F) :=
  C08_timespec_interval_arity1 (by simp [colon_not_mem_digits hS, colon_not_mem_digits hF]) (floatField_frac hS hF hne hlen)

/-- `M:S` and `M:S.F` (`X` = the seconds as written, `x` its thousandths) -/
theorem C08_timespec_interval_canonical2 {M X : List Char} (hM : Digits M) (hX : ':' ∉ X) {x : Nat} (hx : floatField X = .ok x) :
    parseIntervalL (M ++ ':' :: X) = .ok (natOf M * 60 * 1000 + x) := by
  rw [C08_timespec_interval_arity2 (colon_not_mem_digits hM.2) hX (floatField_int hM) hx]
  exact ok_millis_congr (by omega)

/-- `H:M:S[.F]` -/
theorem C08_timespec_interval_canonical3 {H M X : List Char} (hH : Digits H) (hM : Digits M) (hX : ':' ∉ X) {x : Nat} (hx : floatField X = .ok x) :
    parseIntervalL (H ++ ':' :: (M ++ ':' :: X)) = .ok ((natOf H * 60 + natOf M) * 60 * 1000 + x) := by
  rw [C08_timespec_interval_arity3 (colon_not_mem_digits hH.2) (colon_not_mem_digits hM.2) hX (floatField_int hH) (floatField_int hM) hx]
  exact ok_millis_congr (by omega)

/-- `D[d]:H:M:S[.F]`: the `d` suffix of the days is optional and changes nothing -/
theorem C08_timespec_interval_canonical4 (dSuffix : Bool) {D H M X : List Char} (hD : Digits D) (hH : Digits H) (hM : Digits M) (hX : ':' ∉ X)
    {x : Nat} (hx : floatField X = .ok x) :
    parseIntervalL (withD dSuffix D ++ ':' :: (H ++ ':' :: (M ++ ':' :: X))) = .ok (((natOf D * 24 + natOf H) * 60 + natOf M) * 60 * 1000 + x) := by
  rw [C08_timespec_interval_arity4 (colon_not_mem_withD hD.2 dSuffix) (colon_not_mem_digits hH.2) (colon_not_mem_digits hM.2) hX
    (by rw [stripD_withD hD]; exact floatField_int hD) (floatField_int hH) (floatField_int hM) hx]
  exact ok_millis_congr (by omega)

/-- THE canonical rendering of `(d, h, m, s, ms)` with `str()` numbers and `s` or `s.mmm` seconds (`secsStr`), in each of the four arities,
is `((d*24 + h)*60 + m)*60 + s` seconds and `ms` milliseconds: weights right, fields not swapped, `d` suffix optional -/
theorem C08_timespec_interval_canonical (dSuffix : Bool) (d h m s ms : Nat) (hms : ms < 1000) :
    parseIntervalL (secsStr s ms) = .ok (s * 1000 + ms) ∧
    parseIntervalL (Nat.toDigits 10 m ++ ':' :: secsStr s ms) = .ok ((m * 60 + s) * 1000 + ms) ∧
    parseIntervalL (Nat.toDigits 10 h ++ ':' :: (Nat.toDigits 10 m ++ ':' :: secsStr s ms)) = .ok (((h * 60 + m) * 60 + s) * 1000 + ms) ∧
    parseIntervalL (withD dSuffix (Nat.toDigits 10 d) ++ ':' :: (Nat.toDigits 10 h ++ ':' :: (Nat.toDigits 10 m ++ ':' :: secsStr s ms)))
      = .ok ((((d * 24 + h) * 60 + m) * 60 + s) * 1000 + ms) := by
  have hx := floatField_secsStr s ms hms
  have hc := colon_not_mem_secsStr s ms
  refine ⟨C08_timespec_interval_arity1 hc hx, ?_, ?_, ?_⟩
  · rw [C08_timespec_interval_canonical2 (toDigits_digits m) hc hx, natOf_toDigits]; exact ok_millis_congr (by omega)
  · rw [C08_timespec_interval_canonical3 (toDigits_digits h) (toDigits_digits m) hc hx, natOf_toDigits, natOf_toDigits]; exact ok_millis_congr (by omega)
  · rw [C08_timespec_interval_canonical4 dSuffix (toDigits_digits d) (toDigits_digits h) (toDigits_digits m) hc hx, natOf_toDigits, natOf_toDigits,
      natOf_toDigits]; exact ok_millis_congr (by omega)

example : parseIntervalL "1d:02:03:04.005".toList = .ok ((((1 * 24 + 2) * 60 + 3) * 60 + 4) * 1000 + 5) := by decide
example : parseIntervalL "1:02:03:04.005".toList = .ok ((((1 * 24 + 2) * 60 + 3) * 60 + 4) * 1000 + 5) := by decide
example : parseIntervalL "90:00".toList = .ok 5400000 ∧ parseIntervalL "1.5:0".toList = .ok 90000 ∧ parseIntervalL ".5".toList = .ok 500 ∧ parseIntervalL "5.".toList = .ok 5000 := by decide
/-- NEGATIVE: the `d` belongs to the fourth field from the right only; one `d` only; an empty field, a blank inside, a letter -/
example : parseIntervalL "1d:0:0".toList = .reject ∧ parseIntervalL "1dd:0:0:0".toList = .reject ∧ parseIntervalL "d:0:0:0".toList = .reject ∧
    parseIntervalL "1::0".toList = .reject ∧ parseIntervalL "".toList = .reject ∧ parseIntervalL "1 0".toList = .reject ∧ parseIntervalL "1m".toList = .reject ∧
    parseIntervalL "5e".toList = .reject ∧ parseIntervalL "1__0".toList = .reject ∧ parseIntervalL "1.2.3".toList = .reject := by decide
/-- outside the model but accepted by `float` (the harness checks that the real function returns and skips the value) -/
example : parseIntervalL "-5".toList = .accepts ∧ parseIntervalL " 5 ".toList = .accepts ∧ parseIntervalL "1e3".toList = .accepts ∧ parseIntervalL "inf".toList = .accepts ∧
    parseIntervalL "1_0".toList = .accepts ∧ parseIntervalL "0.0005".toList = .accepts ∧ parseIntervalL "-.5E-3:nan".toList = .accepts := by decide
example : parseIntervalL ['٣'] = .unknown := by decide

/-! ## `parse_time_interval`: which texts are accepted, which are rejected -/

/-- accepted with a value ⇔ each of the four parts is a plain ASCII decimal (`plainDecimal`), and then the value is the weighted sum -/
theorem C08_timespec_interval_ok_iff (t : List Char) (v : Nat) :
    parseIntervalL t = .ok v ↔ ∃ a b c d va vb vc vd, intervalParts t = [a, b, c, d] ∧
      floatField (stripD a) = .ok va ∧ floatField b = .ok vb ∧ floatField c = .ok vc ∧ floatField d = .ok vd ∧
      v = 86400 * va + 3600 * vb + 60 * vc + vd := by
  obtain ⟨a, b, c, d, hp, hv⟩ := C08_timespec_interval_total t
  rw [hv]
  constructor
  · intro h
    refine ⟨a, b, c, d, ?_⟩
    unfold partsValue combine4 at h
    split at h
    · rename_i va vb vc vd ha hb hc hd
      cases h
      exact ⟨va, vb, vc, vd, hp, ha, hb, hc, hd, rfl⟩
    · split at h
      · cases h
      · split at h <;> cases h
  · rintro ⟨a', b', c', d', va, vb, vc, vd, hp', ha, hb, hc, hd, rfl⟩
    rw [hp] at hp'; cases hp'
    exact C08_timespec_interval_weights ha hb hc hd

/-- rejected (`ValueError`) ⇔ one of the four parts is something `float` refuses -/
theorem C08_timespec_interval_reject_iff (t : List Char) :
    parseIntervalL t = .reject ↔ ∃ a b c d, intervalParts t = [a, b, c, d] ∧
      (floatField (stripD a) = .reject ∨ floatField b = .reject ∨ floatField c = .reject ∨ floatField d = .reject) := by
  obtain ⟨a, b, c, d, hp, hv⟩ := C08_timespec_interval_total t
  rw [hv]
  have key : partsValue a b c d = .reject ↔
      (floatField (stripD a) = .reject ∨ floatField b = .reject ∨ floatField c = .reject ∨ floatField d = .reject) := by
    unfold partsValue
    cases floatField (stripD a) <;> cases floatField b <;> cases floatField c <;> cases floatField d <;>
      simp [combine4, Res.isReject, Res.isUnknown]
  rw [key]
  constructor
  · intro h; exact ⟨a, b, c, d, hp, h⟩
  · rintro ⟨a', b', c', d', hp', h⟩
    rw [hp] at hp'; cases hp'; exact h

/-- `none` of the `String` entry point: exactly when the text is not accepted with a value -/
theorem C08_timespec_interval_none_iff (s : String) : parseInterval s = none ↔ ∀ v, parseIntervalL s.toList ≠ .ok v := by
  unfold parseInterval
  cases parseIntervalL s.toList <;> simp [Res.toOption]

/-- NEVER NEGATIVE, and why: the value is a natural number of milliseconds; a text that is accepted with a value has, in its four parts, only ASCII
digits and `.` (after the `d`): no `-`.  (The real function returns negative numbers for parts with a `-` sign: those are `accepts`, outside the model.) -/
theorem C08_timespec_interval_nonneg (t : List Char) (v : Nat) (h : parseIntervalL t = .ok v) :
    (0 : Int) ≤ v ∧ ∃ a b c d, intervalParts t = [a, b, c, d] ∧ PlainChars (stripD a) ∧ PlainChars b ∧ PlainChars c ∧ PlainChars d := by
  refine ⟨Int.natCast_nonneg v, ?_⟩
  obtain ⟨a, b, c, d, va, vb, vc, vd, hp, ha, hb, hc, hd, _⟩ := (C08_timespec_interval_ok_iff t v).mp h
  exact ⟨a, b, c, d, hp, plainChars_of_plainDecimal ((floatField_ok_iff _ _).mp ha).2, plainChars_of_plainDecimal ((floatField_ok_iff _ _).mp hb).2,
    plainChars_of_plainDecimal ((floatField_ok_iff _ _).mp hc).2, plainChars_of_plainDecimal ((floatField_ok_iff _ _).mp hd).2⟩

/-! ## `timestr` and back -/

/-- what `timestr` prints for a whole number of milliseconds parses back to that number: all four layouts (`s`, `m:ss`, `h:mm:ss`, `Dd:hh:mm:ss`,
each with `.mmm` when the milliseconds are not zero), for EVERY `ms` -/
theorem C08_timespec_timestr_roundtrip (ms : Nat) : parseIntervalL (timestr ms) = .ok ms := by
  have hf : ms % 1000 < 1000 := Nat.mod_lt _ (by decide)
  have hc := colon_not_mem_subsecs (ms % 1000)
  have hx2 : ∀ x, floatField (pad2 x ++ subsecs (ms % 1000)) = .ok (natOf (pad2 x) * 1000 + ms % 1000) :=
    fun x => floatField_digits_subsecs (pad2_digits x) _ hf
  have hcx : ∀ x, ':' ∉ pad2 x ++ subsecs (ms % 1000) := fun x => by
    simp [colon_not_mem_digits (pad2_digits x).2, hc]
  unfold timestr
  simp only
  split
  · have := (C08_timespec_interval_canonical false 0 0 0 (ms / 1000) (ms % 1000) hf).1
    unfold secsStr at this
    rw [this]; exact ok_millis_congr (by omega)
  · split
    · rename_i h1 h2
      simp only [List.append_assoc, List.cons_append]
      rw [C08_timespec_interval_canonical2 (toDigits_digits _) (hcx _) (hx2 _), natOf_toDigits, natOf_pad2 (by omega)]
      exact ok_millis_congr (by omega)
    · split
      · rename_i h1 h2 h3
        simp only [List.append_assoc, List.cons_append]
        rw [C08_timespec_interval_canonical3 (toDigits_digits _) (pad2_digits _) (hcx _) (hx2 _), natOf_toDigits, natOf_pad2 (by omega), natOf_pad2 (by omega)]
        exact ok_millis_congr (by omega)
      · rename_i h1 h2 h3
        have e : ∀ r, Nat.toDigits 10 (ms / 1000 / 86400) ++ 'd' :: ':' :: r = withD true (Nat.toDigits 10 (ms / 1000 / 86400)) ++ ':' :: r := by
          intro r; simp [withD]
        simp only [List.append_assoc, List.cons_append]
        rw [e, C08_timespec_interval_canonical4 true (toDigits_digits _) (pad2_digits _) (pad2_digits _) (hcx _) (hx2 _), natOf_toDigits, natOf_pad2 (by omega),
          natOf_pad2 (by omega), natOf_pad2 (by omega)]
        exact ok_millis_congr (by omega)

example : timestr 90061001 = "1d:01:01:01.001".toList ∧ timestr 59000 = "59".toList ∧ timestr 60000 = "1:00".toList ∧ timestr 3600500 = "1:00:00.500".toList := by decide

/-! ## `parse_date_and_or_time` (non-ISO branch): date, time, or both — for ALL strings -/

/-- no blank / `T`, no `:` and no `.`: the string is a DATE; the time of the result is midnight and the date passed `datetime.replace` -/
theorem C08_timespec_datetime_date_only_midnight (now : YMD) {s : List Char} (h : NoBlank s) (hc : ':' ∉ s) (hd : '.' ∉ s) :
    parseDateTimeL now s = (parseDate now s).bind (fun ymd => .ok (Fields.of ymd midnight)) ∧
    ∀ f, parseDateTimeL now s = .ok f → f.hour = 0 ∧ f.minute = 0 ∧ f.second = 0 ∧ f.micro = 0 ∧ ValidYMD f.year f.month f.day := by
  have e := parseDateTimeL_date_only now h hc hd
  refine ⟨e, fun f hf => ?_⟩
  rw [e] at hf
  obtain ⟨ymd, h1, h2⟩ := Res.bind_eq_ok.mp hf
  cases h2
  exact ⟨rfl, rfl, rfl, rfl, parseDate_ok h1⟩

/-- no blank / `T` but a `:` or a `.`: the string is a TIME; the date of the result is today (`now`, untouched) and the time passed `datetime.replace` -/
theorem C08_timespec_datetime_time_only_today (now : YMD) {s : List Char} (h : NoBlank s) (hcd : ':' ∈ s ∨ '.' ∈ s) :
    parseDateTimeL now s = (parseTime s).bind (fun tm => .ok (Fields.of now tm)) ∧
    ∀ f, parseDateTimeL now s = .ok f → f.year = now.year ∧ f.month = now.month ∧ f.day = now.day ∧
      f.hour < 24 ∧ f.minute < 60 ∧ f.second < 60 ∧ f.micro < 1000000 := by
  have e := parseDateTimeL_time_only now h hcd
  refine ⟨e, fun f hf => ?_⟩
  rw [e] at hf
  obtain ⟨tm, h1, h2⟩ := Res.bind_eq_ok.mp hf
  cases h2
  obtain ⟨v1, v2, v3, v4, _⟩ := parseTime_ok h1
  exact ⟨rfl, rfl, rfl, v1, v2, v3, v4⟩

/-- exactly one blank or `T`: a date, then a time; the date is parsed first (its error wins), then the time -/
theorem C08_timespec_datetime_both (now : YMD) {d t : List Char} {sep : Char} (hsep : DtSep sep) (hd : NoBlank d) (ht : NoBlank t) :
    parseDateTimeL now (d ++ sep :: t) = (parseDate now d).bind (fun ymd => (parseTime t).bind fun tm => .ok (Fields.of ymd tm)) ∧
    ∀ f, parseDateTimeL now (d ++ sep :: t) = .ok f → ValidYMD f.year f.month f.day ∧ f.hour < 24 ∧ f.minute < 60 ∧ f.second < 60 ∧ f.micro < 1000000 := by
  have e := parseDateTimeL_both now hsep hd ht
  refine ⟨e, fun f hf => ?_⟩
  rw [e] at hf
  obtain ⟨ymd, h1, h2⟩ := Res.bind_eq_ok.mp hf
  obtain ⟨tm, h3, h4⟩ := Res.bind_eq_ok.mp h2
  cases h4
  obtain ⟨v1, v2, v3, v4, _⟩ := parseTime_ok h3
  exact ⟨parseDate_ok h1, v1, v2, v3, v4⟩

/-- a time with more than two colons, a date with more than three fields: `ValueError` -/
theorem C08_timespec_too_many_fields (now : YMD) (s : List Char) :
    (4 ≤ (splitOn ':' s).length → parseTime s = .reject) ∧ (4 ≤ (splitOn '/' (replaceChar '-' '/' s)).length → parseDate now s = .reject) :=
  ⟨parseTime_too_many, parseDate_too_many now⟩

/-- more than one blank / `T` (three or more pieces): `ValueError` -/
theorem C08_timespec_datetime_too_many_parts (now : YMD) {s : List Char} (h : 3 ≤ (splitOn ' ' (replaceChar 'T' ' ' s)).length) :
    parseDateTimeL now s = .reject := parseDateTimeL_too_many now h

/-- whatever the string: an accepted result has a time of day that `datetime.replace` accepts, and its date is a date that `datetime.replace`
accepted or is today's, untouched -/
theorem C08_timespec_datetime_ok_valid (now : YMD) (s : List Char) (f : Fields) (h : parseDateTimeL now s = .ok f) :
    f.hour < 24 ∧ f.minute < 60 ∧ f.second < 60 ∧ f.micro < 1000000 ∧ f.micro % 1000 = 0 ∧
    (ValidYMD f.year f.month f.day ∨ (f.year = now.year ∧ f.month = now.month ∧ f.day = now.day)) := by
  unfold parseDateTimeL at h
  split at h
  · obtain ⟨ymd, h1, h2⟩ := Res.bind_eq_ok.mp h
    obtain ⟨tm, h3, h4⟩ := Res.bind_eq_ok.mp h2
    cases h4
    obtain ⟨v1, v2, v3, v4, v5⟩ := parseTime_ok h3
    exact ⟨v1, v2, v3, v4, v5, Or.inl (parseDate_ok h1)⟩
  · split at h
    · obtain ⟨ymd, h1, h2⟩ := Res.bind_eq_ok.mp h
      cases h2
      exact ⟨by simp [Fields.of, midnight], by simp [Fields.of, midnight], by simp [Fields.of, midnight], by simp [Fields.of, midnight], by simp [Fields.of, midnight], Or.inl (parseDate_ok h1)⟩
    · obtain ⟨tm, h1, h2⟩ := Res.bind_eq_ok.mp h
      cases h2
      obtain ⟨v1, v2, v3, v4, v5⟩ := parseTime_ok h1
      exact ⟨v1, v2, v3, v4, v5, Or.inr ⟨rfl, rfl, rfl⟩⟩
  · cases h

/-! ## the date forms `yyyy/mm/dd`, `yy/mm/dd`, `mm/dd`, `dd` (separator `/` or `-`, each one independently)

`Y M D` are ANY non-empty digit strings.  Each form sets exactly the fields it names; the others are today's; the time is midnight;
a date that `datetime.replace` refuses (month 0 or 13, day 0 or beyond the month, Feb 29 outside leap years, year 0 or 10000) is `reject`. -/

theorem C08_timespec_date_ymd (now : YMD) {Y M D : List Char} {s1 s2 : Char} (h1 : DateSep s1) (h2 : DateSep s2)
    (hY : Digits Y) (hM : Digits M) (hD : Digits D) :
    parseDateTimeL now (Y ++ s1 :: (M ++ s2 :: D)) =
      if ValidYMD (yearOf (natOf Y)) (natOf M) (natOf D) then .ok ⟨yearOf (natOf Y), natOf M, natOf D, 0, 0, 0, 0⟩ else .reject := by
  have hs1 : s1 ≠ ' ' ∧ s1 ≠ 'T' := by rcases h1 with rfl | rfl <;> decide
  have hs2 : s2 ≠ ' ' ∧ s2 ≠ 'T' := by rcases h2 with rfl | rfl <;> decide
  have hs1' : s1 ≠ ':' ∧ s1 ≠ '.' := by rcases h1 with rfl | rfl <;> decide
  have hs2' : s2 ≠ ':' ∧ s2 ≠ '.' := by rcases h2 with rfl | rfl <;> decide
  have nb : NoBlank (Y ++ s1 :: (M ++ s2 :: D)) :=
    (noBlank_digits hY.2).append (NoBlank.cons hs1 ((noBlank_digits hM.2).append (NoBlank.cons hs2 (noBlank_digits hD.2))))
  have hc : ':' ∉ Y ++ s1 :: (M ++ s2 :: D) := by
    simp [colon_not_mem_digits hY.2, colon_not_mem_digits hM.2, colon_not_mem_digits hD.2, hs1'.1.symm, hs2'.1.symm]
  have hd : '.' ∉ Y ++ s1 :: (M ++ s2 :: D) := by
    simp [dot_not_mem_digits hY.2, dot_not_mem_digits hM.2, dot_not_mem_digits hD.2, hs1'.2.symm, hs2'.2.symm]
  rw [parseDateTimeL_date_only now nb hc hd, parseDate3 now h1 h2 hY hM hD, mkDate_natCast]
  split <;> rfl

theorem C08_timespec_date_md (now : YMD) {M D : List Char} {s : Char} (hs : DateSep s) (hM : Digits M) (hD : Digits D) :
    parseDateTimeL now (M ++ s :: D) =
      if ValidYMD (yearOf now.year) (natOf M) (natOf D) then .ok ⟨yearOf now.year, natOf M, natOf D, 0, 0, 0, 0⟩ else .reject := by
  have hs1 : s ≠ ' ' ∧ s ≠ 'T' := by rcases hs with rfl | rfl <;> decide
  have hs1' : s ≠ ':' ∧ s ≠ '.' := by rcases hs with rfl | rfl <;> decide
  have nb : NoBlank (M ++ s :: D) := (noBlank_digits hM.2).append (NoBlank.cons hs1 (noBlank_digits hD.2))
  have hc : ':' ∉ M ++ s :: D := by simp [colon_not_mem_digits hM.2, colon_not_mem_digits hD.2, hs1'.1.symm]
  have hd : '.' ∉ M ++ s :: D := by simp [dot_not_mem_digits hM.2, dot_not_mem_digits hD.2, hs1'.2.symm]
  rw [parseDateTimeL_date_only now nb hc hd, parseDate2 now hs hM hD, mkDate_natCast]
  split <;> rfl

/-- a bare number on its own is a DAY of the current month -/
theorem C08_timespec_date_d (now : YMD) {D : List Char} (hD : Digits D) :
    parseDateTimeL now D =
      if ValidYMD (yearOf now.year) now.month (natOf D) then .ok ⟨yearOf now.year, now.month, natOf D, 0, 0, 0, 0⟩ else .reject := by
  rw [parseDateTimeL_date_only now (noBlank_digits hD.2) (colon_not_mem_digits hD.2) (dot_not_mem_digits hD.2), parseDate1 now hD, mkDate_natCast]
  split <;> rfl

/-- two-digit years (in fact: every year number below 100, however it is written) mean 2000..2099; from 100 on the number is the year -/
theorem C08_timespec_two_digit_year (y : Nat) :
    (y < 100 → yearOf y = 2000 + y ∧ 2000 ≤ yearOf y ∧ yearOf y ≤ 2099) ∧ (100 ≤ y → yearOf y = y) := by
  unfold yearOf
  constructor
  · intro h; rw [if_pos h]; omega
  · intro h; rw [if_neg (by omega)]

/-- Feb 29 is a date exactly in leap years (divisible by 4, centuries only when divisible by 400); every month has its own last day -/
theorem C08_timespec_feb29_iff_leap (y : Nat) (hy : 1 ≤ y ∧ y ≤ 9999) :
    (ValidYMD y 2 29 ↔ (y % 4 = 0 ∧ (y % 100 ≠ 0 ∨ y % 400 = 0))) ∧ ValidYMD y 2 28 ∧ ¬ ValidYMD y 2 30 := by
  unfold ValidYMD daysInMonth isLeap
  simp only [beq_self_eq_true, if_true]
  by_cases h4 : y % 4 = 0 <;> by_cases h100 : y % 100 = 0 <;> by_cases h400 : y % 400 = 0 <;> simp [h4, h100, h400] <;> omega

example : (List.range 13).map (daysInMonth 2023) = [31, 31, 28, 31, 30, 31, 30, 31, 31, 30, 31, 30, 31] ∧ daysInMonth 2024 2 = 29 ∧ daysInMonth 1900 2 = 28 ∧
    daysInMonth 2000 2 = 29 := by decide

def now0 : YMD := ⟨2026, 9, 30⟩
example : parseDateTimeL now0 "24/2/29".toList = .ok ⟨2024, 2, 29, 0, 0, 0, 0⟩ ∧ parseDateTimeL now0 "2024-02-29".toList = .ok ⟨2024, 2, 29, 0, 0, 0, 0⟩ ∧
    parseDateTimeL now0 "2024-02/29".toList = .ok ⟨2024, 2, 29, 0, 0, 0, 0⟩ ∧ parseDateTimeL now0 "12/31".toList = .ok ⟨2026, 12, 31, 0, 0, 0, 0⟩ ∧
    parseDateTimeL now0 "5".toList = .ok ⟨2026, 9, 5, 0, 0, 0, 0⟩ ∧ parseDateTimeL now0 "099/1/1".toList = .ok ⟨2099, 1, 1, 0, 0, 0, 0⟩ ∧
    parseDateTimeL now0 "100/1/1".toList = .ok ⟨100, 1, 1, 0, 0, 0, 0⟩ ∧ parseDateTimeL now0 "2000/2/29".toList = .ok ⟨2000, 2, 29, 0, 0, 0, 0⟩ := by decide
/-- NEGATIVE: Feb 29 outside leap years (2023, 1900, 2100), day 31 in a 30-day month (today is in September), month 0 / 13, day 0, year 10000, four fields,
an empty field, the empty string -/
example : parseDateTimeL now0 "23/2/29".toList = .reject ∧ parseDateTimeL now0 "1900/2/29".toList = .reject ∧ parseDateTimeL now0 "2100-02-29".toList = .reject ∧
    parseDateTimeL now0 "31".toList = .reject ∧ parseDateTimeL now0 "0/1".toList = .reject ∧ parseDateTimeL now0 "13/1".toList = .reject ∧
    parseDateTimeL now0 "1/0".toList = .reject ∧ parseDateTimeL now0 "10000/1/1".toList = .reject ∧ parseDateTimeL now0 "1/2/3/4".toList = .reject ∧
    parseDateTimeL now0 "1//3".toList = .reject ∧ parseDateTimeL now0 "".toList = .reject ∧ parseDateTimeL now0 "2/30".toList = .reject := by decide

/-! ## the time forms `hh:mm:ss[.ms]`, `hh:mm`, `mm:ss.ms`, `ss.ms`

`H M S` are ANY non-empty digit strings, `F` at most three fraction digits.  Each form fills the slots it names, the date is today's
(time-only) and out-of-range values (`24:00`, `23:60`, `60.0`) are `reject`. -/

/-- the value of a time of day from natural numbers -/
def timeResult (d : YMD) (h m s us : Nat) : Res Fields :=
  if h < 24 ∧ m < 60 ∧ s < 60 then .ok ⟨d.year, d.month, d.day, h, m, s, us⟩ else .reject

theorem mkTime_bind_of (d : YMD) (h m s us : Nat) :
    ((mkTime (h : Int) (m : Int) (s, us)).bind fun tm => Res.ok (Fields.of d tm)) = timeResult d h m s us := by
  rw [mkTime_natCast]; unfold timeResult
  split <;> rfl

theorem noBlank_secs {S F : List Char} (hS : AllDigits S) (hF : AllDigits F) : NoBlank (S ++ '.' :: F) :=
  (noBlank_digits hS).append (NoBlank.cons (by decide) (noBlank_digits hF))

theorem colon_not_mem_secs {S F : List Char} (hS : AllDigits S) (hF : AllDigits F) : ':' ∉ S ++ '.' :: F := by
  simp [colon_not_mem_digits hS, colon_not_mem_digits hF]

/-- `hh:mm:ss` and `hh:mm:ss.ms` (`X` = the seconds as written: `S` or `S.F`) -/
theorem C08_timespec_time_hms (now : YMD) {H M X : List Char} (hH : Digits H) (hM : Digits M) (hXb : NoBlank X) (hXc : ':' ∉ X)
    {s us : Nat} (hX : secsField X = .ok (s, us)) :
    parseDateTimeL now (H ++ ':' :: (M ++ ':' :: X)) = timeResult now (natOf H) (natOf M) s us := by
  have nb : NoBlank (H ++ ':' :: (M ++ ':' :: X)) :=
    (noBlank_digits hH.2).append (NoBlank.cons (by decide) ((noBlank_digits hM.2).append (NoBlank.cons (by decide) hXb)))
  rw [parseDateTimeL_time_only now nb (Or.inl (by simp)), parseTime3 (colon_not_mem_digits hH.2) (colon_not_mem_digits hM.2) hXc,
    pyInt_digits hH, pyInt_digits hM, hX]
  simp only [Res.bind]
  exact mkTime_bind_of now _ _ _ _

/-- ONE colon and NO `.`: `hh:mm` -/
theorem C08_timespec_time_hm (now : YMD) {H M : List Char} (hH : Digits H) (hM : Digits M) :
    parseDateTimeL now (H ++ ':' :: M) = timeResult now (natOf H) (natOf M) 0 0 := by
  have nb : NoBlank (H ++ ':' :: M) := (noBlank_digits hH.2).append (NoBlank.cons (by decide) (noBlank_digits hM.2))
  have hdot : '.' ∉ H ++ ':' :: M := by simp [dot_not_mem_digits hH.2, dot_not_mem_digits hM.2]
  rw [parseDateTimeL_time_only now nb (Or.inl (by simp)), parseTime2_hm (colon_not_mem_digits hH.2) (colon_not_mem_digits hM.2) hdot,
    pyInt_digits hH, pyInt_digits hM]
  simp only [Res.bind]
  exact mkTime_bind_of now _ _ 0 0

/-- ONE colon and a `.`: `mm:ss.ms` — the same two numbers now are minutes and seconds -/
theorem C08_timespec_time_ms (now : YMD) {M S F : List Char} (hM : Digits M) (hS : AllDigits S) (hF : AllDigits F) (hne : S ≠ [] ∨ F ≠ []) (hlen : F.length ≤ 3) :
    parseDateTimeL now (M ++ ':' :: (S ++ '.' :: F)) = timeResult now 0 (natOf M) (natOf S) (fracMs F * 1000) := by
  have nb : NoBlank (M ++ ':' :: (S ++ '.' :: F)) := (noBlank_digits hM.2).append (NoBlank.cons (by decide) (noBlank_secs hS hF))
  have hdot : '.' ∈ M ++ ':' :: (S ++ '.' :: F) := by simp
  rw [parseDateTimeL_time_only now nb (Or.inl (by simp)), parseTime2_ms (colon_not_mem_digits hM.2) (colon_not_mem_secs hS hF) hdot,
    pyInt_digits hM, secsField_frac hS hF hne hlen]
  simp only [Res.bind]
  exact mkTime_bind_of now 0 _ _ _

/-- no colon but a `.`: `ss.ms` -/
theorem C08_timespec_time_s (now : YMD) {S F : List Char} (hS : AllDigits S) (hF : AllDigits F) (hne : S ≠ [] ∨ F ≠ []) (hlen : F.length ≤ 3) :
    parseDateTimeL now (S ++ '.' :: F) = timeResult now 0 0 (natOf S) (fracMs F * 1000) := by
  rw [parseDateTimeL_time_only now (noBlank_secs hS hF) (Or.inr (by simp)), parseTime1 (colon_not_mem_secs hS hF), secsField_frac hS hF hne hlen]
  simp only [Res.bind]
  exact mkTime_bind_of now 0 0 _ _

/-- THE DISAMBIGUATION, as one statement: for the same digit strings `A`, `B` (and any fraction `F` of at most three digits),
`A:B` is `A` hours `B` minutes, `A:B.F` is `A` minutes `B.F` seconds; and `B` alone is day `B` of this month while `B.F` is `B.F` seconds today -/
theorem C08_timespec_time_disambiguation (now : YMD) {A B F : List Char} (hA : Digits A) (hB : Digits B) (hF : AllDigits F) (hlen : F.length ≤ 3) :
    parseDateTimeL now (A ++ ':' :: B) = timeResult now (natOf A) (natOf B) 0 0 ∧
    parseDateTimeL now (A ++ ':' :: (B ++ '.' :: F)) = timeResult now 0 (natOf A) (natOf B) (fracMs F * 1000) ∧
    parseDateTimeL now (B ++ '.' :: F) = timeResult now 0 0 (natOf B) (fracMs F * 1000) ∧
    parseDateTimeL now B = (if ValidYMD (yearOf now.year) now.month (natOf B) then .ok ⟨yearOf now.year, now.month, natOf B, 0, 0, 0, 0⟩ else .reject) :=
  ⟨C08_timespec_time_hm now hA hB, C08_timespec_time_ms now hA hB.2 hF (Or.inl hB.1) hlen, C08_timespec_time_s now hB.2 hF (Or.inl hB.1) hlen,
    C08_timespec_date_d now hB⟩

example : parseDateTimeL now0 "10:30".toList = .ok ⟨2026, 9, 30, 10, 30, 0, 0⟩ ∧ parseDateTimeL now0 "10:30.5".toList = .ok ⟨2026, 9, 30, 0, 10, 30, 500000⟩ ∧
    parseDateTimeL now0 "10:30:15.250".toList = .ok ⟨2026, 9, 30, 10, 30, 15, 250000⟩ ∧ parseDateTimeL now0 "30.5".toList = .ok ⟨2026, 9, 30, 0, 0, 30, 500000⟩ ∧
    parseDateTimeL now0 "30".toList = .ok ⟨2026, 9, 30, 0, 0, 0, 0⟩ ∧ parseDateTimeL now0 "23:59:59.999".toList = .ok ⟨2026, 9, 30, 23, 59, 59, 999000⟩ ∧
    parseDateTimeL now0 "5.".toList = .ok ⟨2026, 9, 30, 0, 0, 5, 0⟩ ∧ parseDateTimeL now0 ".5".toList = .ok ⟨2026, 9, 30, 0, 0, 0, 500000⟩ := by decide
/-- NEGATIVE: hour 24, minute 60, second 60 (no leap second), four fields, empty fields, a `.` in the hour -/
example : parseDateTimeL now0 "24:00".toList = .reject ∧ parseDateTimeL now0 "23:60".toList = .reject ∧ parseDateTimeL now0 "23:59:60".toList = .reject ∧
    parseDateTimeL now0 "60.0".toList = .reject ∧ parseDateTimeL now0 "1:2:3:4".toList = .reject ∧ parseDateTimeL now0 "10:".toList = .reject ∧
    parseDateTimeL now0 ":30".toList = .reject ∧ parseDateTimeL now0 "1.5:30".toList = .reject ∧ parseDateTimeL now0 ".".toList = .reject ∧
    parseDateTimeL now0 "10:30:".toList = .reject := by decide

/-! ## date and time together (`' '` or `'T'`) -/

/-- `date<sep>hh:mm:ss[.ms]` with the full date form: all seven fields are the ones written; anything out of range in either half is `reject` -/
theorem C08_timespec_datetime_full (now : YMD) {Y Mo D H Mi X : List Char} {s1 s2 sep : Char} (h1 : DateSep s1) (h2 : DateSep s2) (hsep : DtSep sep)
    (hY : Digits Y) (hMo : Digits Mo) (hD : Digits D) (hH : Digits H) (hMi : Digits Mi) (hXb : NoBlank X) (hXc : ':' ∉ X)
    {s us : Nat} (hX : secsField X = .ok (s, us)) :
    parseDateTimeL now ((Y ++ s1 :: (Mo ++ s2 :: D)) ++ sep :: (H ++ ':' :: (Mi ++ ':' :: X))) =
      if ValidYMD (yearOf (natOf Y)) (natOf Mo) (natOf D) then timeResult ⟨yearOf (natOf Y), natOf Mo, natOf D⟩ (natOf H) (natOf Mi) s us else .reject := by
  have hs1 : s1 ≠ ' ' ∧ s1 ≠ 'T' := by rcases h1 with rfl | rfl <;> decide
  have hs2 : s2 ≠ ' ' ∧ s2 ≠ 'T' := by rcases h2 with rfl | rfl <;> decide
  have nbd : NoBlank (Y ++ s1 :: (Mo ++ s2 :: D)) :=
    (noBlank_digits hY.2).append (NoBlank.cons hs1 ((noBlank_digits hMo.2).append (NoBlank.cons hs2 (noBlank_digits hD.2))))
  have nbt : NoBlank (H ++ ':' :: (Mi ++ ':' :: X)) :=
    (noBlank_digits hH.2).append (NoBlank.cons (by decide) ((noBlank_digits hMi.2).append (NoBlank.cons (by decide) hXb)))
  rw [parseDateTimeL_both now hsep nbd nbt, parseDate3 now h1 h2 hY hMo hD, mkDate_natCast,
    parseTime3 (colon_not_mem_digits hH.2) (colon_not_mem_digits hMi.2) hXc, pyInt_digits hH, pyInt_digits hMi, hX]
  split
  · simp only [Res.bind]
    exact mkTime_bind_of _ _ _ _ _
  · rfl

/-- after a date a bare number is SECONDS (alone it is a day): `mm/dd ss` -/
theorem C08_timespec_datetime_md_s (now : YMD) {Mo D S : List Char} {s1 sep : Char} (h1 : DateSep s1) (hsep : DtSep sep)
    (hMo : Digits Mo) (hD : Digits D) (hS : Digits S) :
    parseDateTimeL now ((Mo ++ s1 :: D) ++ sep :: S) =
      if ValidYMD (yearOf now.year) (natOf Mo) (natOf D) then timeResult ⟨yearOf now.year, natOf Mo, natOf D⟩ 0 0 (natOf S) 0 else .reject := by
  have hs1 : s1 ≠ ' ' ∧ s1 ≠ 'T' := by rcases h1 with rfl | rfl <;> decide
  have nbd : NoBlank (Mo ++ s1 :: D) := (noBlank_digits hMo.2).append (NoBlank.cons hs1 (noBlank_digits hD.2))
  rw [parseDateTimeL_both now hsep nbd (noBlank_digits hS.2), parseDate2 now h1 hMo hD, mkDate_natCast, parseTime1 (colon_not_mem_digits hS.2), secsField_digits hS]
  split
  · simp only [Res.bind]
    exact mkTime_bind_of _ 0 0 _ _
  · rfl

example : parseDateTimeL now0 "24-02-29T23:59:59.5".toList = .ok ⟨2024, 2, 29, 23, 59, 59, 500000⟩ ∧
    parseDateTimeL now0 "2024/2/29 1:02:03".toList = .ok ⟨2024, 2, 29, 1, 2, 3, 0⟩ ∧ parseDateTimeL now0 "5 10:30".toList = .ok ⟨2026, 9, 5, 10, 30, 0, 0⟩ ∧
    parseDateTimeL now0 "12/31T30.5".toList = .ok ⟨2026, 12, 31, 0, 0, 30, 500000⟩ ∧ parseDateTimeL now0 "12/31 30".toList = .ok ⟨2026, 12, 31, 0, 0, 30, 0⟩ := by decide
/-- NEGATIVE: two separators, a separator at an end, a bad half -/
example : parseDateTimeL now0 "5  10:30".toList = .reject ∧ parseDateTimeL now0 "5T10:30T1".toList = .reject ∧ parseDateTimeL now0 "5 ".toList = .reject ∧
    parseDateTimeL now0 " 5".toList = .reject ∧ parseDateTimeL now0 "2/30 10:30".toList = .reject ∧ parseDateTimeL now0 "5 24:00".toList = .reject ∧
    parseDateTimeL now0 "10:30 5".toList = .reject := by decide
/-- outside the model (`unknown`): seconds whose `float` value is not modelled, non-ASCII digits; `int` with sign / blanks / underscores IS modelled -/
example : parseDateTimeL now0 "5 10:30:1e1".toList = .unknown ∧ parseDateTimeL now0 "10:30:-0.5".toList = .unknown ∧ parseDateTimeL now0 ['٣'] = .unknown ∧
    parseDateTimeL now0 "+5".toList = .ok ⟨2026, 9, 5, 0, 0, 0, 0⟩ ∧ parseDateTimeL now0 "-0:30".toList = .ok ⟨2026, 9, 30, 0, 30, 0, 0⟩ ∧
    parseDateTimeL now0 "1_0:3_0".toList = .ok ⟨2026, 9, 30, 10, 30, 0, 0⟩ ∧ parseDateTimeL now0 "-1:30".toList = .reject ∧ parseDateTimeL now0 "\t5".toList = .ok ⟨2026, 9, 5, 0, 0, 0, 0⟩ := by decide

/-! ## the time zone of the result, and `Filter.init` -/

/-- an explicit UTC offset in the string is the offset of the result: `utc` (`LOG_UTC`) never overrides it -/
theorem C08_timespec_tz_explicit_wins (o : Int) (utc : Bool) : tzChoice (some o) utc = .explicit o := rfl

/-- without an offset in the string: UTC exactly when `utc` is set, else the local zone -/
theorem C08_timespec_tz_default (utc : Bool) : tzChoice none utc = (if utc then .utc else .local) := rfl

/-- so `utc` matters only for strings without an offset -/
theorem C08_timespec_tz_utc_matters_iff (e : Option Int) : tzChoice e true ≠ tzChoice e false ↔ e = none := by
  cases e <;> simp [tzChoice]

example : tzChoice (some (-14400)) true = .explicit (-14400) ∧ tzChoice (some 0) false = .explicit 0 ∧ tzChoice none true = .utc ∧ tzChoice none false = .local := by decide
/-- NEGATIVE: the behaviour the theorem excludes - dropping the offset under `utc` - would give a different answer -/
example : tzChoice (some 19800) true ≠ tzChoice none true := by decide

/-- `Filter.init`: a string that starts with `@` is a date/time, every other string an interval -/
theorem C08_timespec_exit_after_dispatch (now : YMD) (utc : Bool) (s : List Char) :
    exitAfterStr now utc ('@' :: s) = (parseDateTimeL now s).map (fun f => .at f (if utc then .utc else .local)) ∧
    (s.head? ≠ some '@' → exitAfterStr now utc s = (parseIntervalL s).map .after) := by
  constructor
  · rfl
  · intro h
    unfold exitAfterStr
    split
    · simp at h
    · rfl

example : exitAfterStr now0 false "1:30".toList = .ok (.after 90000) ∧ exitAfterStr now0 true "@10:30".toList = .ok (.at ⟨2026, 9, 30, 10, 30, 0, 0⟩ .utc) ∧
    exitAfterStr now0 false "@5".toList = .ok (.at ⟨2026, 9, 5, 0, 0, 0, 0⟩ .local) ∧ exitAfterStr now0 false "@".toList = .reject ∧ exitAfterStr now0 false "5@".toList = .reject := by decide

/-! ## the `String` entry points -/

/-- `f'{d}d:{h}:{m}:{s}'` and `f'{d}:{h}:{m}:{s}'` for all natural numbers -/
theorem C08_timespec_interval_string (d h m s : Nat) :
    parseInterval s!"{d}d:{h}:{m}:{s}" = some ((((d * 24 + h) * 60 + m) * 60 + s) * 1000) ∧
    parseInterval s!"{d}:{h}:{m}:{s}" = some ((((d * 24 + h) * 60 + m) * 60 + s) * 1000) ∧
    parseInterval s!"{h}:{m}:{s}" = some (((h * 60 + m) * 60 + s) * 1000) ∧
    parseInterval s!"{m}:{s}" = some ((m * 60 + s) * 1000) ∧
    parseInterval s!"{s}" = some (s * 1000) := by
  have c := fun b => C08_timespec_interval_canonical b d h m s 0 (by decide)
  have e : secsStr s 0 = Nat.toDigits 10 s := by simp [secsStr, subsecs]
  simp only [e, Nat.add_zero] at c
  have hd : (toString "d:").toList = ['d', ':'] := by decide
  have hc : (toString ":").toList = [':'] := by decide
  refine ⟨?_, ?_, ?_, ?_, ?_⟩
  · have := (c true).2.2.2
    simp only [withD, if_true, List.append_assoc, List.cons_append, List.nil_append] at this
    simp [parseInterval, String.toList_append, hd, hc, this, Res.toOption]
  · have := (c false).2.2.2
    simp only [withD, Bool.false_eq_true, if_false] at this
    simp [parseInterval, String.toList_append, hc, this, Res.toOption]
  · simp [parseInterval, String.toList_append, hc, (c false).2.2.1, Res.toOption]
  · simp [parseInterval, String.toList_append, hc, (c false).2.1, Res.toOption]
  · simp [parseInterval, (c false).1, Res.toOption]

example : parseInterval "1d:02:03:04.005" = some 93784005 ∧ parseInterval "1:30" = some 90000 ∧ parseInterval "1:3o" = none ∧ parseInterval "-5" = none := by decide
example : parseDateTime now0 "24-02-29T23:59:59.5" = some ⟨2024, 2, 29, 23, 59, 59, 500000⟩ ∧ parseDateTime now0 "10:30" = some ⟨2026, 9, 30, 10, 30, 0, 0⟩ ∧
    parseDateTime now0 "23-02-29" = none ∧ parseDateTime now0 "24:00" = none := by decide
example : timestrS 90061001 = "1d:01:01:01.001" := by decide

end OF.TimeSpec
