import OFProps.JoinEphGhost
/-!
# A join with ephemeral side sources — the run WITH the ephemeral deliveries is never ahead (helpers for `C05_join_eph_never_ahead`)

Two runs of deliveries and whole `recv(None, 0)` calls from the same state: run 1 under a schedule `evs`, run 2 under `evs` with
every delivery to a non-synchronised source erased (`keepEv`).  `Behind sp n1 n2`: the frontier of run 1 is not higher, the
undelivered synchronised streams are the same and every synchronised queue of run 2 is a suffix of the queue of run 1 (run 1 has
consumed a prefix of what run 2 has consumed).  It is preserved by every pair of corresponding events (`behind_crun`):
* a `take` of run 1 against the state in which `recv_once` of run 2 ENDS (`sim_take`): run 1 cannot poll a source beyond the point
  where run 2 stopped (`gh_lock`) and what it takes run 2 has consumed, so its id is at most the frontier of run 2;
* the end of the two calls (`behind_call`): if run 1 returns the frontier id and run 2 has the same frontier, run 2's buffers
  are ready too (`gh_all_transfer`; its ephemeral sources never got anything: `EphFresh`) - so it does not time out.
-/
namespace OF.Recv

/-- every synchronised subscription shares at least one topic with its publisher (the analogue of `EphOK.keysNe`) -/
def SyncKeysNe (sp : List ESpec) : Prop := ∀ p ∈ sp, p.eph = 0 → p.pub.keys ≠ []

/-- run 1 (state `n1`) is behind or level with run 2 (state `n2`) -/
def Behind (sp : List ESpec) (n1 n2 : NSt) : Prop :=
  expected n1.st ≤ expected n2.st ∧
  ∀ (j : Nat) (p : ESpec), sp[j]? = some p → p.eph = 0 →
    n1.future[j]? = n2.future[j]? ∧
    ∀ (s1 s2 : Src), n1.st.srcs[j]? = some s1 → n2.st.srcs[j]? = some s2 → ∃ X, s1.queue = X ++ s2.queue

/-- `j` is the index of a synchronised source -/
def isSyncIdx (sp : List ESpec) (j : Nat) : Bool :=
  match sp[j]? with
  | some p => p.eph == 0
  | none => false

/-- the events that remain when the deliveries to the ephemeral sources are erased -/
def keepEv (sp : List ESpec) : CEv → Bool
  | .deliverNext j => isSyncIdx sp j
  | .call _ => true

/-- nothing of the stream of any ephemeral source has been delivered -/
def EphFresh (sp : List ESpec) (n : NSt) : Prop :=
  ∀ (j : Nat) (p : ESpec), sp[j]? = some p → p.eph ≠ 0 → n.future[j]? = some p.pub.wires

theorem isSyncIdx_spec (sp : List ESpec) (j : Nat) (h : isSyncIdx sp j = true) : ∃ p, sp[j]? = some p ∧ p.eph = 0 := by
  unfold isSyncIdx at h
  cases hs : sp[j]? with
  | none => rw [hs] at h; cases h
  | some p => rw [hs] at h; exact ⟨p, rfl, by simpa using h⟩

theorem isSyncIdx_false (sp : List ESpec) (j : Nat) (h : ¬ isSyncIdx sp j = true) (p : ESpec) (hp : sp[j]? = some p) : p.eph ≠ 0 := by
  intro h0
  apply h
  unfold isSyncIdx
  rw [hp]; simp [h0]

theorem behind_refl (sp : List ESpec) (n : NSt) : Behind sp n n := by
  refine ⟨Int.le_refl _, fun j p _ _ => ⟨rfl, ?_⟩⟩
  intro s1 s2 h1 h2
  rw [h1] at h2; cases h2
  exact ⟨[], rfl⟩

/-- transfer: the queues of run 1 are the same, those of run 2 have shrunk -/
theorem behind_mono (sp : List ESpec) (n1 n2 n1' n2' : NSt) (hB : Behind sp n1 n2)
    (hF : expected n1'.st ≤ expected n2'.st) (hf1 : n1'.future = n1.future) (hf2 : n2'.future = n2.future)
    (hq1 : ∀ (a : Nat) (s' : Src), n1'.st.srcs[a]? = some s' → ∃ s, n1.st.srcs[a]? = some s ∧ s'.queue = s.queue)
    (hq2 : ∀ (a : Nat) (s' : Src), n2'.st.srcs[a]? = some s' → ∃ s, n2.st.srcs[a]? = some s ∧ s'.queue <:+ s.queue) :
    Behind sp n1' n2' := by
  refine ⟨hF, ?_⟩
  intro j p hj h0
  refine ⟨by rw [hf1, hf2]; exact (hB.2 j p hj h0).1, ?_⟩
  intro s1' s2' h1 h2
  rcases hq1 j s1' h1 with ⟨s1, e1, eq1⟩
  rcases hq2 j s2' h2 with ⟨s2, e2, ⟨Y, eY⟩⟩
  rcases (hB.2 j p hj h0).2 s1 s2 e1 e2 with ⟨X, eX⟩
  exact ⟨X ++ Y, by rw [eq1, eX, ← eY]; simp⟩

/-! ### one `take` of run 1 against the state in which `recv_once` of run 2 ends -/

theorem sim_take (sp : List ESpec) (hsp : SyncOK sp) (hk : SyncKeysNe sp) (n1 n2 : NSt) (i : Nat)
    (hS1 : SInv sp n1) (hH1 : HInv sp n1) (hS2 : SInv sp n2) (hH2 : HInv sp n2) (hd2 : n2.st.dead = false)
    (hdr : ∀ (j : Nat) (s : Src), n2.st.srcs[j]? = some s → s.reg = true → s.queue = [])
    (hB : Behind sp n1 n2) : Behind sp (nRecv n1 (.take i)).1 n2 := by
  rcases take_qs n1.st i with hsame | ⟨s0, w, q, hs0, hreg, hq, hd1, hin, hst, hset⟩
  · show Behind sp { n1 with st := (step n1.st (.take i)).1 } n2
    rw [hsame]; exact hB
  · show Behind sp { n1 with st := (step n1.st (.take i)).1 } n2
    rw [hst]
    have hmono := onTake_mono n1.st i
    have hexp1 : expected n1.st = n1.st.minRecvId := by unfold expected; simp [hin]
    have hexp1' : expected (onTake n1.st i).1 = (onTake n1.st i).1.minRecvId := by
      unfold expected; simp [hmono.2.1, hin]
    have ⟨_, hlen1, hall1⟩ := hS1 hd1
    have ⟨_, hlen2, hall2⟩ := hS2 hd2
    rcases hall1 i s0 hs0 with ⟨p, fut, ep, ef, hpe, hR⟩
    -- the sources other than `i` keep their queues
    have hother : ∀ (a : Nat) (s s' : Src), a ≠ i → n1.st.srcs[a]? = some s → (onTake n1.st i).1.srcs[a]? = some s' →
        s'.queue = s.queue := by
      intro a s s' hai hs hs'
      have := congrArg (fun l => l[a]?) hset
      simp only [qs_get, hs, hs', Option.map_some, List.getElem?_set] at this
      have hia : ¬ i = a := fun e => hai e.symm
      simp only [hia, ↓reduceIte, Option.some.injEq] at this
      exact this
    have hown : ∀ s', (onTake n1.st i).1.srcs[i]? = some s' → s'.queue = q := by
      intro s' hs'
      have := congrArg (fun l => l[i]?) hset
      have hlt : i < (qs n1.st.srcs).length := by
        unfold qs; rw [List.length_map]; exact (List.getElem?_eq_some_iff.mp hs0).1
      simp only [qs_get, hs', Option.map_some, List.getElem?_set, hlt, ↓reduceIte, Option.some.injEq] at this
      exact this
    have hrest : ∀ (j : Nat) (pj : ESpec), sp[j]? = some pj → pj.eph = 0 → j ≠ i →
        ∀ (s1' s2 : Src), (onTake n1.st i).1.srcs[j]? = some s1' → n2.st.srcs[j]? = some s2 → ∃ X, s1'.queue = X ++ s2.queue := by
      intro j pj hj hj0 hji s1' s2 hs1' hs2
      have hjlt : j < n1.st.srcs.length := by rw [hlen1]; exact (List.getElem?_eq_some_iff.mp hj).1
      have hs1 := List.getElem?_eq_getElem hjlt
      rw [hother j _ s1' hji hs1 hs1']
      exact (hB.2 j pj hj hj0).2 _ s2 hs1 hs2
    by_cases hpn : p.eph ≠ 0
    · -- an ephemeral take: the frontier and the synchronised queues stay
      have hF : expected (onTake n1.st i).1 = expected n1.st := by
        rcases onTake_minRecvId n1.st i s0 w q hs0 hq with h | ⟨h0, _⟩
        · rw [hexp1', hexp1, h]
        · exact absurd (hpe ▸ h0) hpn
      refine ⟨by show expected (onTake n1.st i).1 ≤ _; rw [hF]; exact hB.1, ?_⟩
      intro j pj hj hj0
      refine ⟨(hB.2 j pj hj hj0).1, ?_⟩
      have hji : j ≠ i := by
        intro e; subst e; rw [ep] at hj; cases hj; exact hpn hj0
      exact hrest j pj hj hj0 hji
    · have hp0 : p.eph = 0 := by omega
      have hilt2 : i < n2.st.srcs.length := by rw [hlen2]; exact (List.getElem?_eq_some_iff.mp ep).1
      obtain ⟨s2, hs2⟩ : ∃ s2, n2.st.srcs[i]? = some s2 := ⟨_, List.getElem?_eq_getElem hilt2⟩
      rcases (hB.2 i p ep hp0).2 s0 s2 hs0 hs2 with ⟨X, hX⟩
      have hfe := (hB.2 i p ep hp0).1
      rcases hall2 i s2 hs2 with ⟨p2, fut2, ep2, ef2, _, hR2⟩
      rw [ep] at ep2; cases ep2
      have hfut : fut2 = fut := by
        rw [ef, ef2] at hfe; exact (Option.some.inj hfe).symm
      subst hfut
      have ⟨hm1, ho1⟩ := hR hp0
      have ⟨hm2, ho2⟩ := hR2 hp0
      have ⟨_, _, hallH1⟩ := hH1 hd1
      have ⟨_, _, hallH2⟩ := hH2 hd2
      rcases hallH1 i s0 hs0 with ⟨pa, fa, ea1, ea2, _, hG1⟩
      rw [ep] at ea1; cases ea1
      rw [ef] at ea2; cases ea2
      rcases hallH2 i s2 hs2 with ⟨pb, fb, eb1, eb2, _, hG2⟩
      rw [ep] at eb1; cases eb1
      rw [ef2] at eb2; cases eb2
      have hg1 := hG1 hp0
      have hg2 := hG2 hp0
      have hpo := hsp p (List.mem_of_getElem? ep) hp0
      have hkn := hk p (List.mem_of_getElem? ep) hp0
      -- run 1 has not yet consumed everything run 2 has consumed of this stream
      have hXne : X ≠ [] := by
        intro hXe
        subst hXe
        simp only [List.nil_append] at hX
        have hq2 : s2.queue ≠ [] := by rw [← hX, hq]; simp
        have hr2 : s2.reg = false := by
          cases hr : s2.reg with
          | false => rfl
          | true => exact absurd (hdr i s2 hs2 hr) hq2
        rw [hX] at ho1 hg1
        have := gh_lock p.pub hpo hkn i _ _ s0 s2 _ hm1 hm2 ho1 hg1 ho2 hg2 hB.1 hr2
        rw [hreg] at this; cases this
      cases X with
      | nil => exact absurd rfl hXne
      | cons x X' =>
        rw [hq] at hX
        simp only [List.cons_append, List.cons.injEq] at hX
        rcases hX with ⟨hwx, hq'⟩
        subst hwx
        have hwle : w.mid ≤ expected n2.st := by
          rcases hg2 with ⟨c2, hc2, ga2, _, _⟩
          rcases hg1 with ⟨c1, hc1, _, _, _⟩
          have hcc : c2 = c1 ++ (w :: X') := by
            have h : c2 ++ (s2.queue ++ fut2) = (c1 ++ (w :: X')) ++ (s2.queue ++ fut2) := by
              rw [← hc2, hc1, hq, hq']; simp
            exact List.append_cancel_right h
          exact ga2 w (by rw [hcc]; simp)
        have hF : expected (onTake n1.st i).1 ≤ expected n2.st := by
          rcases onTake_minRecvId n1.st i s0 w q hs0 hq with h | ⟨_, h⟩
          · rw [hexp1', h, ← hexp1]; exact hB.1
          · rw [hexp1', h]; exact hwle
        refine ⟨hF, ?_⟩
        intro j pj hj hj0
        refine ⟨(hB.2 j pj hj hj0).1, ?_⟩
        by_cases hji : j = i
        · subst hji
          intro s1' s2' hs1' hs2'
          rw [hs2] at hs2'; cases hs2'
          exact ⟨X', by rw [hown s1' hs1']; exact hq'⟩
        · exact hrest j pj hj hj0 hji

theorem sim_takes (sp : List ESpec) (hsp : SyncOK sp) (hk : SyncKeysNe sp) (n2 : NSt)
    (hS2 : SInv sp n2) (hH2 : HInv sp n2) (hd2 : n2.st.dead = false)
    (hdr : ∀ (j : Nat) (s : Src), n2.st.srcs[j]? = some s → s.reg = true → s.queue = []) :
    ∀ (tk : List Nat) (n1 : NSt), SInv sp n1 → HInv sp n1 → Behind sp n1 n2 →
      Behind sp { n1 with st := (run n1.st (OF.Net.takes tk)).1 } n2 := by
  intro tk
  induction tk with
  | nil => intro n1 _ _ hB; exact hB
  | cons i rest ih =>
    intro n1 hS1 hH1 hB
    have hrun : (run n1.st (OF.Net.takes (i :: rest))).1 = (run (step n1.st (.take i)).1 (OF.Net.takes rest)).1 := by
      simp only [OF.Net.takes, List.map_cons]
      rw [OF.Net.rrun_cons]
    rw [hrun]
    exact ih (nRecv n1 (.take i)).1 (take_SInv sp hsp n1 i hS1) (take_HInv sp hsp n1 i hS1 hH1)
      (sim_take sp hsp hk n1 n2 i hS1 hH1 hS2 hH2 hd2 hdr hB)

/-! ### deliveries -/

theorem stepDeliver_get (st : St) (j : Nat) (w : Wire) (a : Nat) :
    (stepDeliver st j w).1.srcs[a]? =
      (st.srcs[a]?).map (fun s => if a = j then { s with queue := s.queue ++ [w] } else s) := by
  unfold stepDeliver
  cases hs : st.srcs[j]? with
  | none =>
    simp only
    by_cases e : a = j
    · subst e; rw [hs]; rfl
    · cases st.srcs[a]? <;> simp [e]
  | some s =>
    simp only [List.getElem?_set]
    by_cases e : j = a
    · subst e
      have hlt : j < st.srcs.length := (List.getElem?_eq_some_iff.mp hs).1
      rw [hs]
      simp [hlt]
    · have e' : ¬ a = j := fun h => e h.symm
      cases st.srcs[a]? <;> simp [e, e']

theorem stepDeliver_expected (st : St) (j : Nat) (w : Wire) : expected (stepDeliver st j w).1 = expected st := by
  unfold stepDeliver; split <;> rfl

/-- a delivery to a source that is not synchronised, made in run 1 only -/
theorem behind_deliver_left (sp : List ESpec) (n1 n2 : NSt) (j : Nat) (hj : ¬ isSyncIdx sp j = true) (hB : Behind sp n1 n2) :
    Behind sp (nDeliver n1 j).1 n2 := by
  unfold nDeliver
  split
  · rename_i w rest _
    refine ⟨by show expected (stepDeliver n1.st j w).1 ≤ _; rw [stepDeliver_expected]; exact hB.1, ?_⟩
    intro a p ha h0
    have haj : a ≠ j := by
      intro e; subst e; exact isSyncIdx_false sp a hj p ha h0
    refine ⟨by show (n1.future.set j rest)[a]? = _; rw [List.getElem?_set_ne (Ne.symm haj)]; exact (hB.2 a p ha h0).1, ?_⟩
    intro s1' s2 hs1' hs2
    have hg := stepDeliver_get n1.st j w a
    simp only at hs1'
    rw [hg] at hs1'
    cases hs1 : n1.st.srcs[a]? with
    | none => rw [hs1] at hs1'; cases hs1'
    | some s1 =>
      rw [hs1] at hs1'
      simp only [Option.map_some, haj, ↓reduceIte, Option.some.injEq] at hs1'
      subst hs1'
      exact (hB.2 a p ha h0).2 s1 s2 hs1 hs2
  · exact hB

/-- the same delivery to a synchronised source in both runs -/
theorem behind_deliver_both (sp : List ESpec) (n1 n2 : NSt) (j : Nat) (hj : isSyncIdx sp j = true) (hB : Behind sp n1 n2) :
    Behind sp (nDeliver n1 j).1 (nDeliver n2 j).1 := by
  rcases isSyncIdx_spec sp j hj with ⟨pj, hpj, hpj0⟩
  have hfe := (hB.2 j pj hpj hpj0).1
  unfold nDeliver
  cases hf1 : n1.future[j]? with
  | none => rw [← hfe, hf1]; exact hB
  | some l =>
    cases l with
    | nil => rw [← hfe, hf1]; exact hB
    | cons w rest =>
      rw [← hfe, hf1]
      simp only
      refine ⟨by show expected (stepDeliver n1.st j w).1 ≤ expected (stepDeliver n2.st j w).1
                 rw [stepDeliver_expected, stepDeliver_expected]; exact hB.1, ?_⟩
      intro a p ha h0
      have hl1 : j < n1.future.length := (List.getElem?_eq_some_iff.mp hf1).1
      have hl2 : j < n2.future.length := by
        rw [hfe] at hf1; exact (List.getElem?_eq_some_iff.mp hf1).1
      refine ⟨?_, ?_⟩
      · show (n1.future.set j rest)[a]? = (n2.future.set j rest)[a]?
        by_cases e : j = a
        · subst e; simp [List.getElem?_set, hl1, hl2]
        · rw [List.getElem?_set_ne e, List.getElem?_set_ne e]; exact (hB.2 a p ha h0).1
      · intro s1' s2' hs1' hs2'
        simp only at hs1' hs2'
        rw [stepDeliver_get] at hs1' hs2'
        cases hs1 : n1.st.srcs[a]? with
        | none => rw [hs1] at hs1'; cases hs1'
        | some s1 =>
          cases hs2 : n2.st.srcs[a]? with
          | none => rw [hs2] at hs2'; cases hs2'
          | some s2 =>
            rw [hs1] at hs1'; rw [hs2] at hs2'
            simp only [Option.map_some, Option.some.injEq] at hs1' hs2'
            rcases (hB.2 a p ha h0).2 s1 s2 hs1 hs2 with ⟨X, hX⟩
            by_cases e : a = j
            · simp only [e, ↓reduceIte] at hs1' hs2'
              subst hs1'; subst hs2'
              exact ⟨X, by simp [hX]⟩
            · simp only [e, ↓reduceIte] at hs1' hs2'
              subst hs1'; subst hs2'
              exact ⟨X, hX⟩

/-! ### whole calls -/

/-- where `recv_once(0)` of a call ends -/
def callMid (st : St) (prio : List Nat) : St × List Out × Bool :=
  recvOnce0 (totalQueued (OF.Net.beginSt st none) + 1) (OF.Net.beginSt st none) prio

theorem finish_expected (st : St) : expected (finish st).1 = st.minRecvId + 1 := by
  unfold finish
  simp only
  split <;> (unfold expected; simp)

theorem finish_queue (st : St) (a : Nat) (s' : Src) (h : (finish st).1.srcs[a]? = some s') :
    ∃ s, st.srcs[a]? = some s ∧ s'.queue = s.queue := by
  unfold finish at h
  simp only at h
  split at h
  · exact ⟨s', h, rfl⟩
  · simp only at h
    rw [newRecvAll_get'] at h
    cases hs : st.srcs[a]? with
    | none => rw [hs] at h; cases h
    | some s =>
      rw [hs] at h
      simp only [Option.map_some, Option.some.injEq] at h
      subst h
      exact ⟨s, rfl, rfl⟩

/-- everything we need to know about one call of a live receiver between calls -/
theorem call_facts (sp : List ESpec) (hsp : SyncOK sp) (hep : EphSpecOK sp) (n : NSt) (fl : Nat → Bool) (h : CInv sp fl n)
    (hH : HInv sp n) (hd : n.st.dead = false) (prio : List Nat) (hcov : Covers sp prio) :
    ∃ (tk : List Nat) (fl1 : Nat → Bool),
      (callMid n.st prio).1 = (run (OF.Net.beginSt n.st none) (OF.Net.takes tk)).1 ∧
      (callMid n.st prio).1.dead = false ∧ (callMid n.st prio).1.inCall = true ∧
      SInv sp { n with st := (callMid n.st prio).1 } ∧ HInv sp { n with st := (callMid n.st prio).1 } ∧
      EphInv fl1 sp { n with st := (callMid n.st prio).1 } ∧
      (∀ (j : Nat) (s : Src), (callMid n.st prio).1.srcs[j]? = some s → s.reg = true → s.queue = []) ∧
      (((callMid n.st prio).2.2 = true ∧ returnCond (callMid n.st prio).1 = true ∧
          (call0 n.st none prio).1 = (finish (callMid n.st prio).1).1) ∨
       ((callMid n.st prio).2.2 = false ∧ bufReady (callMid n.st prio).1 = false ∧
          (call0 n.st none prio).1 =
            { (callMid n.st prio).1 with inCall := false, prevId := (callMid n.st prio).1.minRecvId - 1 })) := by
  have hg : ¬ (n.st.dead = true ∨ n.st.inCall = true) := by rw [hd, h.2.2.1]; simp
  rcases call_analysis sp hsp hep n fl h hd prio hcov with ⟨fl1, hS1, hE1, _, hfalse⟩
  rcases call0_cases n.st prio hg with ⟨tk, hr1, hd1, hi1, _, hcases⟩
  rcases OF.Net.recvOnce0_as_run (totalQueued (OF.Net.beginSt n.st none) + 1) (OF.Net.beginSt n.st none) prio with ⟨_, _, hrcflag⟩
  have hevs : ∀ e ∈ (Ev.begin none :: OF.Net.takes tk).map NEv.recv, NAdm e := by
    intro e he
    rcases List.mem_map.mp he with ⟨x, hx, rfl⟩
    simp only [List.mem_cons, OF.Net.takes, List.mem_map] at hx
    rcases hx with rfl | ⟨i, _, rfl⟩ <;> trivial
  have hrun : nrun n ((Ev.begin none :: OF.Net.takes tk).map NEv.recv) =
      ({ n with st := (callMid n.st prio).1 }, (run (OF.Net.beginSt n.st none) (OF.Net.takes tk)).2) := by
    rw [nrun_recv, OF.Net.rrun_cons, OF.Net.step_begin n.st none hg]
    unfold callMid
    rw [hr1]
    simp
  have hH1 := nrun_HInv sp hsp _ n hevs h.1 hH
  rw [hrun] at hH1
  have hdrain_of_rc : returnCond (callMid n.st prio).1 = true →
      ∀ (j : Nat) (s : Src), (callMid n.st prio).1.srcs[j]? = some s → s.reg = true → s.queue = [] := by
    intro hrc j s hs hreg
    rw [returnCond_eq] at hrc
    simp only [Bool.and_eq_true, Bool.not_eq_true'] at hrc
    have hp := hrc.2
    unfold pending at hp
    apply Classical.byContradiction
    intro hq
    have : (callMid n.st prio).1.srcs.any (fun s => s.reg && !s.queue.isEmpty) = true := by
      rw [List.any_eq_true]
      exact ⟨s, List.mem_of_getElem? hs, by simp [hreg, hq]⟩
    rw [this] at hp; cases hp
  refine ⟨tk, fl1, hr1, hd1, hi1, hS1, hH1, hE1, ?_, ?_⟩
  · rcases hcases with ⟨hflag, _, _⟩ | ⟨hflag, _⟩
    · exact hdrain_of_rc (hrcflag hflag)
    · exact (hfalse hflag).1
  · rcases hcases with ⟨hflag, hst, _⟩ | ⟨hflag, hst⟩
    · left; exact ⟨hflag, hrcflag hflag, hst⟩
    · right; exact ⟨hflag, (hfalse hflag).2, hst⟩

/-- **the same call in both runs** -/
theorem behind_call (sp : List ESpec) (hsp : SyncOK sp) (hep : EphSpecOK sp) (hk : SyncKeysNe sp)
    (H0 : ∃ (j : Nat) (p : ESpec), sp[j]? = some p ∧ p.eph = 0)
    (n1 n2 : NSt) (fl1 fl2 : Nat → Bool) (hC1 : CInv sp fl1 n1) (hC2 : CInv sp fl2 n2) (hH1 : HInv sp n1) (hH2 : HInv sp n2)
    (hd1 : n1.st.dead = false) (hd2 : n2.st.dead = false) (prio : List Nat) (hcov : Covers sp prio)
    (hEF : EphFresh sp n2) (hB : Behind sp n1 n2) :
    Behind sp (cstep n1 (.call prio)).1 (cstep n2 (.call prio)).1 := by
  rcases call_facts sp hsp hep n1 fl1 hC1 hH1 hd1 prio hcov with ⟨tk1, g1, hr1, hmd1, hmi1, hmS1, hmH1, _, _, hc1⟩
  rcases call_facts sp hsp hep n2 fl2 hC2 hH2 hd2 prio hcov with ⟨tk2, g2, hr2, hmd2, hmi2, hmS2, hmH2, hmE2, hdr2, hc2⟩
  have hg1 : ¬ (n1.st.dead = true ∨ n1.st.inCall = true) := by rw [hd1, hC1.2.2.1]; simp
  have hem1 : expected (callMid n1.st prio).1 = (callMid n1.st prio).1.minRecvId := by unfold expected; simp [hmi1]
  have hem2 : expected (callMid n2.st prio).1 = (callMid n2.st prio).1.minRecvId := by unfold expected; simp [hmi2]
  -- run 1 at the beginning of its call against run 2 at the end of its `recv_once`
  have hBb : Behind sp { n1 with st := OF.Net.beginSt n1.st none } { n2 with st := (callMid n2.st prio).1 } := by
    refine behind_mono sp n1 n2 _ _ hB ?_ rfl rfl ?_ ?_
    · have e1 : expected (OF.Net.beginSt n1.st none) = expected n1.st := by
        unfold expected; simp [OF.Net.beginSt, beginId, hC1.2.2.1]
      have e2 : expected n2.st ≤ expected (callMid n2.st prio).1 := by
        rw [hem2, hr2]
        have := (OF.Net.takes_run_facts tk2 (OF.Net.beginSt n2.st none)).2.2.2.1
        have e3 : expected n2.st = (OF.Net.beginSt n2.st none).minRecvId := by
          unfold expected; simp [OF.Net.beginSt, beginId, hC2.2.2.1]
        rw [e3]; exact this
      show expected (OF.Net.beginSt n1.st none) ≤ expected (callMid n2.st prio).1
      rw [e1]; exact Int.le_trans hB.1 e2
    · intro a s' hs'; exact ⟨s', hs', rfl⟩
    · intro a s' hs'
      simp only at hs'
      rw [hr2] at hs'
      have hq := takes_queue_suffix tk2 (OF.Net.beginSt n2.st none)
      have hlt : a < n2.st.srcs.length := by
        have := (List.getElem?_eq_some_iff.mp hs').1
        rw [hq.1] at this; exact this
      have hs : n2.st.srcs[a]? = some n2.st.srcs[a] := List.getElem?_eq_getElem hlt
      exact ⟨_, hs, hq.2 a _ s' hs hs'⟩
  -- the takes of run 1
  have hb1 : (nRecv n1 (.begin none)).1 = { n1 with st := OF.Net.beginSt n1.st none } := by
    unfold nRecv; rw [OF.Net.step_begin n1.st none hg1]
  have hSb : SInv sp { n1 with st := OF.Net.beginSt n1.st none } := by rw [← hb1]; exact begin_GInv RSync sp n1 hC1.1
  have hHb : HInv sp { n1 with st := OF.Net.beginSt n1.st none } := by rw [← hb1]; exact begin_GInv RGh sp n1 hH1
  have hBm := sim_takes sp hsp hk { n2 with st := (callMid n2.st prio).1 } hmS2 hmH2 hmd2 hdr2 tk1 _ hSb hHb hBb
  simp only at hBm
  rw [← hr1] at hBm
  have hle : (callMid n1.st prio).1.minRecvId ≤ (callMid n2.st prio).1.minRecvId := by
    have := hBm.1
    simp only at this
    rw [hem1, hem2] at this; exact this
  -- the ends of the two calls
  have hq1 : ∀ (a : Nat) (s' : Src), (call0 n1.st none prio).1.srcs[a]? = some s' →
      ∃ s, (callMid n1.st prio).1.srcs[a]? = some s ∧ s'.queue = s.queue := by
    intro a s' hs'
    rcases hc1 with ⟨_, _, hst⟩ | ⟨_, _, hst⟩
    · rw [hst] at hs'; exact finish_queue _ a s' hs'
    · rw [hst] at hs'; exact ⟨s', hs', rfl⟩
  have hq2 : ∀ (a : Nat) (s' : Src), (call0 n2.st none prio).1.srcs[a]? = some s' →
      ∃ s, (callMid n2.st prio).1.srcs[a]? = some s ∧ s'.queue <:+ s.queue := by
    intro a s' hs'
    rcases hc2 with ⟨_, _, hst⟩ | ⟨_, _, hst⟩
    · rw [hst] at hs'
      rcases finish_queue _ a s' hs' with ⟨s, e1, e2⟩
      exact ⟨s, e1, by rw [e2]; exact List.suffix_refl _⟩
    · rw [hst] at hs'; exact ⟨s', hs', List.suffix_refl _⟩
  show Behind sp { n1 with st := (call0 n1.st none prio).1 } { n2 with st := (call0 n2.st none prio).1 }
  refine behind_mono sp _ _ _ _ hBm ?_ rfl rfl hq1 hq2
  show expected (call0 n1.st none prio).1 ≤ expected (call0 n2.st none prio).1
  have hto : ∀ (st : St), expected { st with inCall := false, prevId := st.minRecvId - 1 } = st.minRecvId := by
    intro st; unfold expected; simp
  rcases hc1 with ⟨_, hrc1, hst1⟩ | ⟨_, _, hst1⟩
  · rcases hc2 with ⟨_, _, hst2⟩ | ⟨_, hnb2, hst2⟩
    · rw [hst1, hst2, finish_expected, finish_expected]; omega
    · -- run 1 returns, run 2 times out: the frontier of run 2 is strictly higher
      rw [hst1, hst2, finish_expected, hto]
      apply Classical.byContradiction
      intro hnot
      have hFe : expected (callMid n1.st prio).1 = expected (callMid n2.st prio).1 := by rw [hem1, hem2]; omega
      exfalso
      have ⟨hbal1, hlen1, hall1⟩ := hmS1 hmd1
      have ⟨hbal2, hlen2, hall2⟩ := hmS2 hmd2
      have ⟨_, _, hallH1⟩ := hmH1 hmd1
      have ⟨_, _, hallH2⟩ := hmH2 hmd2
      have ⟨_, _, hallE2⟩ := hmE2 hmd2
      simp only at hbal1 hlen1 hall1 hbal2 hlen2 hall2 hallH1 hallH2 hallE2
      have hspec1 := returnCond_spec _ hrc1
      have hsrc : ∀ (j : Nat) (s : Src), (callMid n2.st prio).1.srcs[j]? = some s →
          got s ≠ .some ∧ (s.eph = 0 → got s = .all) := by
        intro j s hs
        rcases hall2 j s hs with ⟨p, fut, ep, ef, hpe, hR⟩
        by_cases hp0 : p.eph = 0
        · have hjlt : j < (callMid n1.st prio).1.srcs.length := by
            rw [hlen1]; exact (List.getElem?_eq_some_iff.mp ep).1
          obtain ⟨s1, hs1⟩ : ∃ s1, (callMid n1.st prio).1.srcs[j]? = some s1 := ⟨_, List.getElem?_eq_getElem hjlt⟩
          rcases hall1 j s1 hs1 with ⟨p1, fut1, ep1, ef1, _, hR1⟩
          rw [ep] at ep1; cases ep1
          have hfe := (hBm.2 j p ep hp0).1
          simp only at hfe
          have hfut : fut1 = fut := by
            rw [ef1, ef] at hfe; exact Option.some.inj hfe
          subst hfut
          rcases (hBm.2 j p ep hp0).2 s1 s hs1 hs with ⟨X, hX⟩
          have ⟨hm1, ho1⟩ := hR1 hp0
          have ⟨_, ho2⟩ := hR hp0
          rcases hallH1 j s1 hs1 with ⟨pa, fa, ea1, ea2, _, hG1⟩
          rw [ep] at ea1; cases ea1
          rw [ef1] at ea2; cases ea2
          rcases hallH2 j s hs with ⟨pb, fb, eb1, eb2, _, hG2⟩
          rw [ep] at eb1; cases eb1
          rw [ef] at eb2; cases eb2
          have hg1 := hG1 hp0
          have hg2 := hG2 hp0
          rw [hFe] at ho1 hg1
          have hgot1 : got s1 = .all := (hspec1 s1 (List.mem_of_getElem? hs1)).2 hm1.1 hbal1
          have := gh_all_transfer p.pub (hsp p (List.mem_of_getElem? ep) hp0) (hk p (List.mem_of_getElem? ep) hp0) j _ s1 s _ _
            hm1 ho1 hg1 ho2 hg2 ⟨X, by rw [hX, List.append_assoc]⟩ hgot1
          exact ⟨by rw [this]; simp, fun _ => this⟩
        · rcases hallE2 j s hs with ⟨p', fut', ep', ef', _, hR'⟩
          rw [ep] at ep'; cases ep'
          rw [ef] at ef'; cases ef'
          have ⟨_, hok⟩ := hR' hp0
          have hfw : fut = p.pub.wires := by
            have := hEF j p ep hp0
            rw [ef] at this; exact Option.some.inj this
          refine ⟨eph_not_partial_of_drained p.pub (hep p (List.mem_of_getElem? ep) hp0) j (g2 j) s fut hok (hdr2 j s hs)
            ⟨[], by rw [hfw]; rfl, by intro w' hw'; cases hw'⟩, ?_⟩
          intro he; exact absurd (hpe ▸ he) hp0
      have hmem : ∀ s ∈ (callMid n2.st prio).1.srcs, got s ≠ .some ∧ (s.eph = 0 → got s = .all) := by
        intro s hs
        rcases List.getElem?_of_mem hs with ⟨j, hj⟩
        exact hsrc j s hj
      have hany : (callMid n2.st prio).1.srcs.any (fun s => decide (got s = .all)) = true := by
        rcases H0 with ⟨j0, p0, hj0, hp0⟩
        have hj' : j0 < (callMid n2.st prio).1.srcs.length := by rw [hlen2]; exact (List.getElem?_eq_some_iff.mp hj0).1
        have hs0 := List.getElem?_eq_getElem hj'
        rcases hall2 j0 _ hs0 with ⟨p, _, ep, _, hpe, _⟩
        rw [hj0] at ep; cases ep
        rw [List.any_eq_true]
        exact ⟨_, List.mem_of_getElem? hs0, by simp [(hsrc j0 _ hs0).2 (hpe.trans hp0)]⟩
      have hbuf : bufReady (callMid n2.st prio).1 = true := by
        unfold bufReady
        rw [hbal2, scanGot_ready _ false hmem, hany]
        rfl
      rw [hbuf] at hnb2; cases hnb2
  · rcases hc2 with ⟨_, _, hst2⟩ | ⟨_, _, hst2⟩
    · rw [hst1, hst2, finish_expected, hto]; omega
    · rw [hst1, hst2, hto, hto]; exact hle

/-! ### whole runs -/

theorem crun_foldl (evs : List CEv) : ∀ (n : NSt) (o : List Out),
    evs.foldl (fun (acc : NSt × List Out) e => ((cstep acc.1 e).1, acc.2 ++ (cstep acc.1 e).2)) (n, o) =
      ((crun n evs).1, o ++ (crun n evs).2) := by
  induction evs with
  | nil => intro n o; simp [crun]
  | cons e es ih =>
    intro n o
    simp only [List.foldl_cons, crun]
    rw [ih, ih (cstep n e).1 ([] ++ (cstep n e).2)]
    simp [List.append_assoc]

theorem crun_cons (n : NSt) (e : CEv) (es : List CEv) :
    crun n (e :: es) = ((crun (cstep n e).1 es).1, (cstep n e).2 ++ (crun (cstep n e).1 es).2) := by
  simp only [crun, List.foldl_cons]
  rw [crun_foldl]
  simp [crun]

theorem cstep_dead (n : NSt) (c : CEv) (h : n.st.dead = true) : (cstep n c).1.st.dead = true := by
  cases c with
  | deliverNext j =>
    show (nDeliver n j).1.st.dead = true
    unfold nDeliver
    split
    · simp only; unfold stepDeliver; split <;> exact h
    · exact h
  | call prio =>
    show (call0 n.st none prio).1.dead = true
    unfold call0; simp [h]

theorem crun_dead : ∀ (es : List CEv) (n : NSt), n.st.dead = true → (crun n es).1.st.dead = true := by
  intro es
  induction es with
  | nil => intro n h; exact h
  | cons e es ih => intro n h; rw [crun_cons]; exact ih _ (cstep_dead n e h)

theorem cstep_HInv (sp : List ESpec) (hsp : SyncOK sp) (n : NSt) (c : CEv) (hS : SInv sp n) (hH : HInv sp n) :
    HInv sp (cstep n c).1 := by
  rcases cstep_as_nrun n c with ⟨evs, hadm, hrun⟩
  rw [hrun]; exact nrun_HInv sp hsp evs n hadm hS hH

theorem cstep_EphFresh (sp : List ESpec) (n : NSt) (c : CEv) (hc : keepEv sp c = true) (h : EphFresh sp n) :
    EphFresh sp (cstep n c).1 := by
  cases c with
  | call prio => exact h
  | deliverNext j =>
    rcases isSyncIdx_spec sp j hc with ⟨pj, hpj, hpj0⟩
    show EphFresh sp (nDeliver n j).1
    unfold nDeliver
    split
    · intro a p ha hp
      have haj : j ≠ a := by
        intro e; subst e; rw [hpj] at ha; cases ha; exact hp hpj0
      show (n.future.set j _)[a]? = _
      rw [List.getElem?_set_ne haj]; exact h a p ha hp
    · exact h

/-- **the run with the deliveries to the ephemeral sources is behind or level with the run without them, after every schedule** -/
theorem behind_crun (sp : List ESpec) (hsp : SyncOK sp) (hep : EphSpecOK sp) (hk : SyncKeysNe sp)
    (H0 : ∃ (j : Nat) (p : ESpec), sp[j]? = some p ∧ p.eph = 0) :
    ∀ (evs : List CEv) (n1 n2 : NSt) (fl1 fl2 : Nat → Bool), CInv sp fl1 n1 → CInv sp fl2 n2 → HInv sp n1 → HInv sp n2 →
      EphFresh sp n2 → Behind sp n1 n2 → (∀ c ∈ evs, ∀ prio, c = .call prio → Covers sp prio) →
      (crun n1 evs).1.st.dead = false → (crun n2 (evs.filter (keepEv sp))).1.st.dead = false →
      Behind sp (crun n1 evs).1 (crun n2 (evs.filter (keepEv sp))).1 := by
  intro evs
  induction evs with
  | nil => intro n1 n2 _ _ _ _ _ _ _ hB _ _ _; exact hB
  | cons e es ih =>
    intro n1 n2 fl1 fl2 hC1 hC2 hH1 hH2 hEF hB hcov hl1 hl2
    have hd1 : n1.st.dead = false := by
      cases hd : n1.st.dead with
      | false => rfl
      | true => rw [crun_dead _ n1 hd] at hl1; cases hl1
    have hd2 : n2.st.dead = false := by
      cases hd : n2.st.dead with
      | false => rfl
      | true => rw [crun_dead _ n2 hd] at hl2; cases hl2
    have hcov' : ∀ c ∈ es, ∀ prio, c = .call prio → Covers sp prio := fun c hc => hcov c (List.mem_cons_of_mem _ hc)
    have hce := hcov e (List.mem_cons_self ..)
    rcases cstep_CInv sp hsp hep H0 n1 fl1 hC1 e hce with ⟨fl1', hC1'⟩
    have hH1' := cstep_HInv sp hsp n1 e hC1.1 hH1
    by_cases hkeep : keepEv sp e = true
    · rw [List.filter_cons_of_pos hkeep] at hl2 ⊢
      rw [crun_cons] at hl1 hl2 ⊢
      rw [crun_cons]
      rcases cstep_CInv sp hsp hep H0 n2 fl2 hC2 e hce with ⟨fl2', hC2'⟩
      have hH2' := cstep_HInv sp hsp n2 e hC2.1 hH2
      have hEF' := cstep_EphFresh sp n2 e hkeep hEF
      have hB' : Behind sp (cstep n1 e).1 (cstep n2 e).1 := by
        cases e with
        | deliverNext j => exact behind_deliver_both sp n1 n2 j hkeep hB
        | call prio => exact behind_call sp hsp hep hk H0 n1 n2 fl1 fl2 hC1 hC2 hH1 hH2 hd1 hd2 prio (hce prio rfl) hEF hB
      exact ih _ _ fl1' fl2' hC1' hC2' hH1' hH2' hEF' hB' hcov' hl1 hl2
    · rw [List.filter_cons_of_neg hkeep] at hl2 ⊢
      rw [crun_cons] at hl1 ⊢
      have hB' : Behind sp (cstep n1 e).1 n2 := by
        cases e with
        | deliverNext j => exact behind_deliver_left sp n1 n2 j hkeep hB
        | call prio => exact absurd rfl hkeep
      exact ih _ _ fl1' fl2 hC1' hC2 hH1' hH2 hEF hB' hcov' hl1 hl2

end OF.Recv
