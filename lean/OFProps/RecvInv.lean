import OFProps.RecvLemmas
/-! The receiver's main safety invariant and its preservation by every event (C01, C07). -/
namespace OF.Recv

/-- the id the receiver is currently assembling: the call-local `min_recv_id`, or, between calls,
the id the next call will start from (`prev_id + 1`, which after the C01 fix remembers an adopted id) -/
def expected (st : St) : Int := if st.inCall then st.minRecvId else st.prevId + 1

/-- every frame buffered for a synchronised source carries the id being assembled -/
def SameId (st : St) : Prop :=
  ∀ (j : Nat) (s : Src), st.srcs[j]? = some s → s.eph = 0 → ∀ l, s.recvd = some l → entriesHaveId l (expected st)

def holds (s : Src) : Prop := ∃ l, s.recvd = some l ∧ ∃ p ∈ l, ∃ m, p.2 = some m

/-- balanced receiver: while a synchronised source holds a frame every other source is out of the poller -/
def LockInv (st : St) : Prop := st.balance = true →
  ∀ (i j : Nat) (si sj : Src), i ≠ j → st.srcs[i]? = some si → st.srcs[j]? = some sj → si.eph = 0 → holds si → sj.reg = false

def Inv (st : St) : Prop := st.dead = false → SameId st ∧ LockInv st

/-- no synchronised source buffers a frame -/
def NoSyncFrames (st : St) : Prop :=
  ∀ (j : Nat) (s : Src), st.srcs[j]? = some s → s.eph = 0 → ∀ l, s.recvd = some l → noFrames l

/-- which events the theorems quantify over: everything, except that a `state` *above* the id the
receiver itself expects may only be passed while no partial set is buffered.  `MQ.recv` satisfies
this: it passes a new state only right after a successful `recv` (buffers were just reset) and the
same one until the next success.  Topic names are non-empty (a topic named "" has the wire frame of
a heartbeat). -/
def Adm (st : St) : Ev → Prop
  | .begin (some k) => k ≤ st.prevId + 1 ∨ NoSyncFrames st
  | .take i => ∀ (s : Src) (w : Wire) (q : List Wire), st.srcs[i]? = some s → s.queue = w :: q → "" ∉ w.topics
  | _ => True

theorem not_holds_of_noFrames (s : Src) (h : ∀ l, s.recvd = some l → noFrames l) : ¬ holds s := by
  rintro ⟨l, hl, p, hp, m, hm⟩
  rw [h l hl p hp] at hm; cases hm

/-! ### frame conditions: parts of the state the invariant does not read -/

theorem SameId_congr (st st' : St) (h1 : st'.srcs = st.srcs) (h2 : expected st' = expected st) :
    SameId st → SameId st' := by
  intro h; unfold SameId at *; intro j s hj; rw [h1] at hj; rw [h2]; exact h j s hj

theorem LockInv_congr (st st' : St) (h1 : st'.srcs = st.srcs) (h2 : st'.balance = st.balance) :
    LockInv st → LockInv st' := by
  intro h; unfold LockInv at *; intro hb i j si sj hij hi hj; rw [h1] at hi hj; rw [h2] at hb; exact h hb i j si sj hij hi hj

/-! ### deliver -/

/-- replacing a source by one with the same buffer, kind and registration keeps both invariants -/
theorem set_same_inv (st : St) (i : Nat) (s s' : Src) (hs : st.srcs[i]? = some s)
    (h1 : s'.recvd = s.recvd) (h2 : s'.eph = s.eph) (h3 : s'.reg = s.reg) (st' : St)
    (hsrcs : st'.srcs = st.srcs.set i s') (hexp : expected st' = expected st) (hbal : st'.balance = st.balance)
    (hS : SameId st) (hL : LockInv st) : SameId st' ∧ LockInv st' := by
  have key : ∀ (a : Nat) (sa : Src), st'.srcs[a]? = some sa →
      ∃ sa0, st.srcs[a]? = some sa0 ∧ sa0.recvd = sa.recvd ∧ sa0.eph = sa.eph ∧ sa0.reg = sa.reg := by
    intro a sa ha
    rw [hsrcs, List.getElem?_set] at ha
    split at ha
    · split at ha
      · cases ha; subst_vars; exact ⟨s, hs, h1.symm, h2.symm, h3.symm⟩
      · cases ha
    · exact ⟨sa, ha, rfl, rfl, rfl⟩
  constructor
  · unfold SameId at *
    intro j sj hj he l hl
    rcases key j sj hj with ⟨s0, h0, hr, he0, _⟩
    rw [hexp]
    exact hS j s0 h0 (he0 ▸ he) l (hr ▸ hl)
  · unfold LockInv at *
    intro hb a b sa sb hab ha hb' hea hh
    rcases key a sa ha with ⟨sa0, ha0, hra, hea0, _⟩
    rcases key b sb hb' with ⟨sb0, hb0, _, _, hregb⟩
    rw [← hregb]
    refine hL (hbal ▸ hb) a b sa0 sb0 hab ha0 hb0 (hea0 ▸ hea) ?_
    rcases hh with ⟨l, hl, rest⟩
    exact ⟨l, hra ▸ hl, rest⟩

theorem deliver_inv (st : St) (i : Nat) (w : Wire) (h : Inv st) : Inv (stepDeliver st i w).1 := by
  unfold stepDeliver
  cases hs : st.srcs[i]? with
  | none => exact h
  | some s =>
    simp only
    unfold Inv at *
    intro hd
    have ⟨h1, h2⟩ := h hd
    exact set_same_inv st i s { s with queue := s.queue ++ [w] } hs rfl rfl rfl _ rfl rfl rfl h1 h2

/-! ### begin / request / timeout -/

theorem begin_inv (st : St) (state : Option Int) (h : Inv st) (ha : Adm st (.begin state)) :
    Inv (stepBegin st state).1 := by
  unfold stepBegin
  split
  · exact h
  · rename_i hg
    have hnc : st.inCall = false := by
      cases hc : st.inCall with
      | false => rfl
      | true => exact absurd (Or.inr hc) hg
    unfold Inv at *
    simp only
    intro hd
    have ⟨h1, h2⟩ := h hd
    refine ⟨?_, LockInv_congr st _ rfl rfl h2⟩
    have hexp : expected st = st.prevId + 1 := by unfold expected; simp [hnc]
    have stay : beginId st state = st.prevId + 1 → SameId { st with inCall := true, minRecvId := beginId st state, balanced := 0 } := by
      intro hb
      exact SameId_congr st _ rfl (by unfold expected; simp [hb, hnc]) h1
    cases state with
    | none => exact stay rfl
    | some k =>
      rcases ha with hk | hk
      · exact stay (by simp only [beginId]; omega)
      · unfold SameId
        intro j s hj he l hl
        exact noFrames_entries l _ (hk j s hj he l hl)

theorem request_inv (st : St) (h : Inv st) : Inv (stepRequest st).1 := by
  unfold stepRequest; split <;> exact h

theorem timeout_inv (st : St) (h : Inv st) : Inv (stepTimeout st).1 := by
  unfold stepTimeout
  split
  · exact h
  · rename_i hg
    have hc : st.inCall = true := by
      cases hc : st.inCall with
      | true => rfl
      | false => exact absurd (Or.inr (by simp [hc])) hg
    unfold Inv at *
    simp only
    intro hd
    have ⟨h1, h2⟩ := h hd
    refine ⟨SameId_congr st _ rfl ?_ h1, LockInv_congr st _ rfl rfl h2⟩
    unfold expected; simp [hc]

/-! ### check / finish -/

theorem newRecvAll_get (srcs : List Src) (j : Nat) (s : Src) (h : (newRecvAll srcs)[j]? = some s) :
    ∃ s0, srcs[j]? = some s0 ∧ s.recvd = recvdNew s0 := by
  unfold newRecvAll at h
  rw [List.getElem?_map] at h
  cases h0 : srcs[j]? with
  | none => rw [h0] at h; cases h
  | some s0 => rw [h0] at h; cases h; exact ⟨s0, rfl, rfl⟩

theorem finish_inv (st : St) : Inv (finish st).1 := by
  unfold finish
  simp only
  split
  · unfold Inv; intro hd; simp at hd
  · unfold Inv at *
    simp only
    intro hd
    have key : ∀ (j : Nat) (s : Src), (newRecvAll st.srcs)[j]? = some s → ∀ l, s.recvd = some l → noFrames l := by
      intro j s hj l hl
      rcases newRecvAll_get _ j s hj with ⟨s0, _, hr⟩
      exact noFrames_recvdNew s0 l (hr ▸ hl)
    constructor
    · unfold SameId; intro j s hj _ l hl
      exact noFrames_entries l _ (key j s hj l hl)
    · unfold LockInv; intro _ a b sa sb _ ha _ _ hh
      exact absurd hh (not_holds_of_noFrames sa (key a sa ha))

theorem check_inv (st : St) (h : Inv st) : Inv (stepCheck st).1 := by
  unfold stepCheck
  split
  · exact h
  · split
    · exact finish_inv st
    · exact h

/-! ### take -/

/-- an ephemeral source may change its own buffer freely, and may only leave the poller -/
theorem set_eph_inv (st : St) (i : Nat) (s s' : Src) (hs : st.srcs[i]? = some s)
    (h2 : s'.eph = s.eph) (hne : s.eph ≠ 0) (h3 : s'.reg = s.reg ∨ s'.reg = false) (st' : St)
    (hsrcs : st'.srcs = st.srcs.set i s') (hexp : expected st' = expected st) (hbal : st'.balance = st.balance)
    (hS : SameId st) (hL : LockInv st) : SameId st' ∧ LockInv st' := by
  have key : ∀ (a : Nat) (sa : Src), st'.srcs[a]? = some sa →
      (a = i ∧ sa = s') ∨ (a ≠ i ∧ st.srcs[a]? = some sa) := by
    intro a sa ha
    rw [hsrcs, List.getElem?_set] at ha
    split at ha
    · split at ha
      · cases ha; left; exact ⟨by omega, rfl⟩
      · cases ha
    · right; exact ⟨by omega, ha⟩
  constructor
  · unfold SameId at *
    intro j sj hj he l hl
    rcases key j sj hj with ⟨_, h⟩ | ⟨_, h⟩
    · subst h; rw [h2] at he; exact absurd he hne
    · rw [hexp]; exact hS j sj h he l hl
  · unfold LockInv at *
    intro hb a b sa sb hab ha hb' hea hh
    rcases key a sa ha with ⟨_, h⟩ | ⟨hai, h⟩
    · subst h; rw [h2] at hea; exact absurd hea hne
    · rcases key b sb hb' with ⟨hbi, h'⟩ | ⟨_, h'⟩
      · subst h'
        have := hL (hbal ▸ hb) a b sa s hab h (hbi ▸ hs) hea hh
        rcases h3 with h3 | h3
        · rw [h3]; exact this
        · exact h3
      · exact hL (hbal ▸ hb) a b sa sb hab h h' hea hh

theorem takeSpecial_inv (st : St) (i : Nat) (s0 s : Src) (w : Wire) (hs : st.srcs[i]? = some s0)
    (h1 : s.recvd = s0.recvd) (h2 : s.eph = s0.eph) (h3 : s.reg = s0.reg)
    (hS : SameId st) (hL : LockInv st) :
    SameId (takeSpecial st i s w).1 ∧ LockInv (takeSpecial st i s w).1 := by
  unfold takeSpecial
  split
  · exact set_same_inv st i s0 s hs h1 h2 h3 _ rfl rfl rfl hS hL
  · split
    · exact set_same_inv st i s0 { s with minId := OF.Facts.MSG_ID_INITIAL, conn := false } hs h1 h2 h3 _ rfl rfl rfl hS hL
    · exact set_same_inv st i s0 s hs h1 h2 h3 _ rfl rfl rfl hS hL

theorem storeRecvd_reg (s : Src) (r : Option Recvd) (topics : List Topic) :
    (storeRecvd s r topics).reg = s.reg ∨ (storeRecvd s r topics).reg = false := by
  unfold storeRecvd; simp only; split
  · right; rfl
  · left; rfl

theorem takeEph_inv (st : St) (i : Nat) (s0 s : Src) (m : Msg) (topics : List Topic) (hs : st.srcs[i]? = some s0)
    (h1 : s.recvd = s0.recvd) (h2 : s.eph = s0.eph) (h3 : s.reg = s0.reg) (hne : s0.eph ≠ 0)
    (hS : SameId st) (hL : LockInv st) :
    SameId (takeEph st i s m topics).1 ∧ LockInv (takeEph st i s m topics).1 := by
  unfold takeEph
  split
  · exact set_same_inv st i s0 s hs h1 h2 h3 _ rfl rfl rfl hS hL
  · rename_i _ _ r _ _
    refine set_eph_inv st i s0 { storeRecvd s r topics with minId := m.mid } hs ?_ hne ?_ _ rfl rfl rfl hS hL
    · simp only; rw [storeRecvd_eph]; exact h2
    · simp only
      rcases storeRecvd_reg s r topics with h | h
      · left; rw [h]; exact h3
      · right; exact h

theorem lockOthers_get (l : List Src) (i j : Nat) :
    (lockOthers l i)[j]? = l[j]?.map (fun s => if j ≠ i then { s with reg := false } else s) := by
  unfold lockOthers; rw [List.getElem?_mapIdx]

theorem resetOthers_get (l : List Src) (i j : Nat) :
    (resetOthers l i)[j]? =
      l[j]?.map (fun s => if j ≠ i ∧ s.eph = 0 then { s with recvd := recvdNew s, reg := true } else s) := by
  unfold resetOthers; rw [List.getElem?_mapIdx]

/-- what the source holds after `process_msg` + pruning, in the two non-older outcomes -/
theorem store_entries (s : Src) (m : Msg) (topics : List Topic) (k : Int)
    (hold : ∀ l0, s.recvd = some l0 → entriesHaveId l0 k)
    (hno : (processMsg s m topics k).1 ≠ .older) :
    ∀ l, (storeRecvd s (processMsg s m topics k).2 topics).recvd = some l → entriesHaveId l m.mid := by
  intro l hl
  rw [storeRecvd_recvd] at hl
  rcases processMsg_cases s m topics k with ⟨h, _⟩ | ⟨_, _, l1, h1, h2⟩ | ⟨_, hk, l1, h1, h2⟩
  · exact absurd h hno
  · rw [h1] at hl; simp only [Option.map_some] at hl; cases hl
    exact entries_prune s l1 topics _ h2
  · rw [h1] at hl; simp only [Option.map_some] at hl; cases hl
    exact entries_prune s l1 topics _ (hk ▸ h2 hold)

/-- non-balanced receiver -/
theorem syncApply_inv_nobal (st : St) (i : Nat) (s0 s : Src) (m : Msg) (topics : List Topic)
    (hs : st.srcs[i]? = some s0) (h1 : s.recvd = s0.recvd) (hsync : s0.eph = 0)
    (hin : st.inCall = true) (hbal : st.balance = false) (hS : SameId st)
    (hno : (processMsg s m topics st.minRecvId).1 ≠ .older) :
    SameId (syncApply st i s m topics (processMsg s m topics st.minRecvId).1 (processMsg s m topics st.minRecvId).2).1 ∧
    LockInv (syncApply st i s m topics (processMsg s m topics st.minRecvId).1 (processMsg s m topics st.minRecvId).2).1 := by
  have hexp : expected st = st.minRecvId := by unfold expected; simp [hin]
  have hold : ∀ l0, s.recvd = some l0 → entriesHaveId l0 st.minRecvId := by
    intro l0 hl0; rw [h1] at hl0; exact hexp ▸ hS i s0 hs hsync l0 hl0
  have hi := store_entries s m topics st.minRecvId hold hno
  have hlen : i < st.srcs.length := by
    rcases List.getElem?_eq_some_iff.mp hs with ⟨h, _⟩; exact h
  constructor
  · unfold SameId
    intro j sj hj he l hl
    unfold syncApply at hj ⊢
    simp only [hbal, Bool.false_eq_true, false_and, ↓reduceIte, not_false_eq_true, and_true] at hj ⊢
    simp only [expected, hin, ↓reduceIte]
    split at hj
    · -- newer: the others were reset
      rw [resetOthers_get, List.getElem?_set] at hj
      by_cases hij : i = j
      · subst hij
        simp only [hlen, ↓reduceIte, Option.map_some, ne_eq, not_true_eq_false, false_and] at hj
        cases hj
        exact hi l hl
      · simp only [hij, ↓reduceIte] at hj
        cases h0 : st.srcs[j]? with
        | none => rw [h0] at hj; cases hj
        | some sj0 =>
          rw [h0] at hj; simp only [Option.map_some] at hj
          split at hj
          · cases hj
            simp only at hl
            exact noFrames_entries l _ (noFrames_recvdNew sj0 l hl)
          · rename_i hc
            cases hj
            exact absurd ⟨fun h => hij h.symm, he⟩ hc
    · -- same id: nothing else changes
      rename_i hres
      rcases processMsg_cases s m topics st.minRecvId with ⟨h, _⟩ | ⟨h, _⟩ | ⟨_, hk, _⟩
      · exact absurd h hno
      · exact absurd h hres
      · rw [List.getElem?_set] at hj
        by_cases hij : i = j
        · subst hij
          simp only [hlen, ↓reduceIte] at hj
          cases hj
          exact hi l hl
        · simp only [hij, ↓reduceIte] at hj
          rw [hk, ← hexp]
          exact hS j sj hj he l hl
  · unfold LockInv
    intro hb
    unfold syncApply at hb
    simp only at hb
    rw [hbal] at hb; cases hb

/-! balanced receiver -/

theorem noFrames_initRecvd (s : Src) (m : Msg) (topics : List Topic) (h : m.topic ∉ topics) :
    noFrames (initRecvd s m topics) := by
  unfold initRecvd
  have hts : ∀ t ∈ topics.filter (fun t => s.star || !t.startsWith "_"), t ≠ m.topic := by
    intro t ht heq; exact h (heq ▸ (List.mem_filter.mp ht).1)
  generalize (topics.filter _) = ts at hts
  suffices hh : ∀ (d : Recvd), noFrames d →
      noFrames (ts.foldl (fun d t => dset d t (if t == m.topic then some m else none)) d) from
    hh [] (by intro p hp; cases hp)
  induction ts with
  | nil => intro d hd; simpa using hd
  | cons t ts ih =>
    intro d hd
    simp only [List.foldl_cons]
    apply ih (fun x hx => hts x (List.mem_cons_of_mem _ hx))
    have : (t == m.topic) = false := by simpa using hts t (List.mem_cons_self ..)
    rw [this]
    exact noFrames_dset_none d t hd

theorem holds_of_sub (s s' : Src) (l l' : Recvd) (h' : s'.recvd = some l') (h : s.recvd = some l)
    (hsub : ∀ p ∈ l', p ∈ l) : holds s' → holds s := by
  rintro ⟨l1, hl1, p, hp, m, hm⟩
  rw [h'] at hl1; cases hl1
  exact ⟨l, h, p, hsub p hp, m, hm⟩

/-- a heartbeat (empty topic) never adds a frame -/
theorem holds_store_topicless (s : Src) (m : Msg) (topics : List Topic) (k : Int)
    (ht : m.topic = "") (hwf : "" ∉ topics) :
    holds (storeRecvd s (processMsg s m topics k).2 topics) → holds s := by
  intro hh
  have hnot : ∀ l, noFrames l → ¬ holds (storeRecvd s (some l) topics) := by
    intro l hl
    apply not_holds_of_noFrames
    intro l' hl'
    rw [storeRecvd_recvd] at hl'
    simp only [Option.map_some] at hl'; cases hl'
    intro p hp; exact hl p (prune_sub s l topics p hp)
  have hinit : noFrames (initRecvd s m topics) := noFrames_initRecvd s m topics (ht ▸ hwf)
  unfold processMsg at hh
  split at hh
  · -- older: recvd unchanged (then pruned)
    cases hr : s.recvd with
    | none =>
      rw [hr] at hh
      rcases hh with ⟨l, hl, _⟩
      rw [storeRecvd_recvd] at hl; cases hl
    | some l0 =>
      rw [hr] at hh
      refine holds_of_sub s _ l0 (prune s l0 topics) ?_ hr (prune_sub s l0 topics) hh
      rw [storeRecvd_recvd]; rfl
  · cases hr : s.recvd with
    | none =>
      rw [hr] at hh; simp only at hh
      exact absurd hh (hnot _ hinit)
    | some l0 =>
      rw [hr] at hh; simp only at hh
      split at hh
      · simp only [ht, ne_eq, not_true_eq_false, ↓reduceIte] at hh
        refine holds_of_sub s _ l0 (prune s l0 topics) ?_ hr (prune_sub s l0 topics) hh
        rw [storeRecvd_recvd]; rfl
      · exfalso
        refine hnot (newRecvWith s m topics) ?_ hh
        unfold newRecvWith
        split
        · exact hinit
        · rename_i rn hrn
          simp only [ht, ne_eq, not_true_eq_false, ↓reduceIte]
          exact noFrames_recvdNew s rn hrn

theorem holds_congr (s s' : Src) (h : s'.recvd = s.recvd) : holds s' → holds s := by
  rintro ⟨l, hl, rest⟩; exact ⟨l, h ▸ hl, rest⟩

/-- shape of the source list after a synchronised take in a balanced receiver -/
theorem syncApply_bal_get (st : St) (i : Nat) (s : Src) (m : Msg) (topics : List Topic) (res : PM) (r : Option Recvd)
    (hlen : i < st.srcs.length) (hbal : st.balance = true) :
    ∀ (j : Nat) (sj : Src), (syncApply st i s m topics res r).1.srcs[j]? = some sj →
      (j = i ∧ sj = storeRecvd s r topics) ∨
      (j ≠ i ∧ ∃ sj0, st.srcs[j]? = some sj0 ∧ sj.recvd = sj0.recvd ∧ sj.eph = sj0.eph ∧
          ((m.topic ≠ "" ∧ sj.reg = false) ∨ (m.topic = "" ∧ sj.reg = sj0.reg))) := by
  intro j sj hj
  unfold syncApply at hj
  simp only [hbal, not_true_eq_false, and_false, ↓reduceIte, true_and] at hj
  by_cases ht : m.topic = ""
  · simp only [ht, ne_eq, not_true_eq_false, ↓reduceIte] at hj
    rw [List.getElem?_set] at hj
    by_cases hij : i = j
    · subst hij; simp only [hlen, ↓reduceIte] at hj; cases hj; left; exact ⟨rfl, rfl⟩
    · simp only [hij, ↓reduceIte] at hj
      right; exact ⟨fun h => hij h.symm, sj, hj, rfl, rfl, Or.inr ⟨ht, rfl⟩⟩
  · simp only [ht, ne_eq, not_false_eq_true, ↓reduceIte] at hj
    rw [lockOthers_get, List.getElem?_set] at hj
    by_cases hij : i = j
    · subst hij
      simp only [hlen, ↓reduceIte, Option.map_some, ne_eq, not_true_eq_false] at hj
      cases hj; left; exact ⟨rfl, rfl⟩
    · simp only [hij, ↓reduceIte] at hj
      cases h0 : st.srcs[j]? with
      | none => rw [h0] at hj; cases hj
      | some sj0 =>
        rw [h0] at hj
        have hji : j ≠ i := fun h => hij h.symm
        simp only [Option.map_some, ne_eq, hji, not_false_eq_true, ↓reduceIte] at hj
        cases hj
        right; exact ⟨hji, sj0, rfl, rfl, rfl, Or.inl ⟨ht, rfl⟩⟩

/-- balanced receiver: the source that is being polled proves that nobody else holds a frame -/
theorem others_not_hold (st : St) (i : Nat) (s0 : Src) (hs : st.srcs[i]? = some s0) (hreg : s0.reg = true)
    (hbal : st.balance = true) (hL : LockInv st) :
    ∀ (j : Nat) (sj : Src), j ≠ i → st.srcs[j]? = some sj → sj.eph = 0 → ¬ holds sj := by
  intro j sj hji hj he hh
  have := hL hbal j i sj s0 hji hj hs he hh
  rw [hreg] at this; cases this

theorem syncApply_inv_bal (st : St) (i : Nat) (s0 s : Src) (m : Msg) (topics : List Topic)
    (hs : st.srcs[i]? = some s0) (h1 : s.recvd = s0.recvd) (hsync : s0.eph = 0) (hreg : s0.reg = true)
    (hin : st.inCall = true) (hbal : st.balance = true) (hS : SameId st) (hL : LockInv st)
    (hwf : "" ∉ topics)
    (hno : (processMsg s m topics st.minRecvId).1 ≠ .older) :
    SameId (syncApply st i s m topics (processMsg s m topics st.minRecvId).1 (processMsg s m topics st.minRecvId).2).1 ∧
    LockInv (syncApply st i s m topics (processMsg s m topics st.minRecvId).1 (processMsg s m topics st.minRecvId).2).1 := by
  have hexp : expected st = st.minRecvId := by unfold expected; simp [hin]
  have hold : ∀ l0, s.recvd = some l0 → entriesHaveId l0 st.minRecvId := by
    intro l0 hl0; rw [h1] at hl0; exact hexp ▸ hS i s0 hs hsync l0 hl0
  have hi := store_entries s m topics st.minRecvId hold hno
  have hlen : i < st.srcs.length := by
    rcases List.getElem?_eq_some_iff.mp hs with ⟨h, _⟩; exact h
  have hothers := others_not_hold st i s0 hs hreg hbal hL
  have hget := syncApply_bal_get st i s m topics (processMsg s m topics st.minRecvId).1 (processMsg s m topics st.minRecvId).2 hlen hbal
  constructor
  · unfold SameId
    intro j sj hj he l hl
    have hexp2 : expected (syncApply st i s m topics (processMsg s m topics st.minRecvId).1
        (processMsg s m topics st.minRecvId).2).1 = m.mid := by
      unfold syncApply; simp only [expected, hin, ↓reduceIte]
    rw [hexp2]
    rcases hget j sj hj with ⟨_, h⟩ | ⟨hji, sj0, h0, hr, he0, _⟩
    · subst h; exact hi l hl
    · intro p hp m' hm'
      exact absurd ⟨l, hr ▸ hl, p, hp, m', hm'⟩ (hothers j sj0 hji h0 (he0 ▸ he))
  · unfold LockInv
    intro _ a b sa sb hab ha hb hea hh
    rcases hget a sa ha with ⟨hai, hsa⟩ | ⟨hai, sa0, ha0, hra, hea0, _⟩
    · -- the source that just took a message holds a frame
      rcases hget b sb hb with ⟨hbi, _⟩ | ⟨hbi, sb0, hb0, _, _, hregb⟩
      · exact absurd (hai.trans hbi.symm) hab
      · rcases hregb with ⟨_, h⟩ | ⟨ht, h⟩
        · exact h
        · rw [h]
          subst hsa
          have hs' : holds s := holds_store_topicless s m topics st.minRecvId ht hwf hh
          exact hL hbal i b s0 sb0 (fun h => hbi h.symm) hs hb0 hsync (holds_congr s0 s h1 hs')
    · -- another source holds a frame: impossible, source i was registered
      exact absurd (holds_congr sa0 sa hra hh) (hothers a sa0 hai ha0 (hea0 ▸ hea))

theorem takeSync_inv (st : St) (i : Nat) (s0 s : Src) (m : Msg) (topics : List Topic)
    (hs : st.srcs[i]? = some s0) (h1 : s.recvd = s0.recvd) (h2 : s.eph = s0.eph) (h3 : s.reg = s0.reg)
    (hsync : s0.eph = 0) (hreg : s0.reg = true) (hin : st.inCall = true) (hS : SameId st) (hL : LockInv st)
    (hwf : "" ∉ topics) :
    SameId (takeSync st i s m topics).1 ∧ LockInv (takeSync st i s m topics).1 := by
  unfold takeSync
  split
  · exact set_same_inv st i s0 s hs h1 h2 h3 _ rfl rfl rfl hS hL
  · rename_i x res r hno heq
    have e1 : res = (processMsg s m topics st.minRecvId).1 := by rw [heq]
    have e2 : r = (processMsg s m topics st.minRecvId).2 := by rw [heq]
    have hno' : (processMsg s m topics st.minRecvId).1 ≠ .older := by rw [← e1]; exact fun h => hno h
    rw [e1, e2]
    cases hb : st.balance with
    | false => exact syncApply_inv_nobal st i s0 s m topics hs h1 hsync hin hb hS hno'
    | true => exact syncApply_inv_bal st i s0 s m topics hs h1 hsync hreg hin hb hS hL hwf hno'

theorem balUpd_props (st : St) (c : Prop) [Decidable c] (b : Nat) :
    (if c then { st with balanced := b } else st).srcs = st.srcs ∧
    expected (if c then { st with balanced := b } else st) = expected st ∧
    (if c then { st with balanced := b } else st).balance = st.balance ∧
    (if c then { st with balanced := b } else st).inCall = st.inCall ∧
    (if c then { st with balanced := b } else st).dead = st.dead := by
  by_cases h : c <;> simp [h, expected]

theorem onTake_inv (st : St) (i : Nat) (s0 : Src) (hs : st.srcs[i]? = some s0) (hreg : s0.reg = true)
    (hin : st.inCall = true) (hS : SameId st) (hL : LockInv st)
    (hwf : ∀ (w : Wire) (q : List Wire), s0.queue = w :: q → "" ∉ w.topics) :
    SameId (onTake st i).1 ∧ LockInv (onTake st i).1 ∧ (onTake st i).1.dead = st.dead := by
  unfold onTake
  rw [hs]
  simp only
  cases hq : s0.queue with
  | nil => exact ⟨hS, hL, rfl⟩
  | cons w q =>
    simp only
    -- the `balanced` flag is not read by the invariant
    generalize hst1 : (if (if s0.eph = 0 then w.bal else 0) ≠ 0 then
        { st with balanced := if s0.eph = 0 then w.bal else 0 } else st) = st1
    have ⟨e1, e2, e3, e4, e5⟩ : st1.srcs = st.srcs ∧ expected st1 = expected st ∧ st1.balance = st.balance ∧
        st1.inCall = st.inCall ∧ st1.dead = st.dead := by
      subst hst1; exact balUpd_props st _ _
    have hS1 : SameId st1 := SameId_congr st st1 e1 e2 hS
    have hL1 : LockInv st1 := LockInv_congr st st1 e1 e3 hL
    have hs1 : st1.srcs[i]? = some s0 := by rw [e1]; exact hs
    split
    · have := takeSpecial_inv st1 i s0 { s0 with queue := q, conn := true } w hs1 rfl rfl rfl hS1 hL1
      refine ⟨this.1, this.2, ?_⟩
      unfold takeSpecial; split
      · exact e5
      · split <;> exact e5
    · split
      · rename_i hne
        have hne' : s0.eph ≠ 0 := by simpa using hne
        have := takeEph_inv st1 i s0 { s0 with queue := q, conn := true }
          { mid := w.mid, topic := effTopic s0.subAll s0.subs (decodeTopic w.frame0), body := w.body, src := i } w.topics hs1 rfl rfl rfl hne' hS1 hL1
        refine ⟨this.1, this.2, ?_⟩
        unfold takeEph; split <;> exact e5
      · rename_i hne
        have hsync : s0.eph = 0 := by simpa using hne
        have := takeSync_inv st1 i s0 { s0 with queue := q, conn := true }
          { mid := w.mid, topic := effTopic s0.subAll s0.subs (decodeTopic w.frame0), body := w.body, src := i } w.topics hs1 rfl rfl rfl hsync hreg
          (e4 ▸ hin) hS1 hL1 (hwf w q hq)
        refine ⟨this.1, this.2, ?_⟩
        unfold takeSync; split
        · exact e5
        · unfold syncApply; exact e5

theorem take_inv (st : St) (i : Nat) (h : Inv st) (ha : Adm st (.take i)) : Inv (stepTake st i).1 := by
  unfold stepTake
  split
  · exact h
  · rename_i hg
    have hd : st.dead = false := by
      cases hc : st.dead with
      | false => rfl
      | true => exact absurd (Or.inl hc) hg
    have hin : st.inCall = true := by
      cases hc : st.inCall with
      | true => rfl
      | false => exact absurd (Or.inr (by simp [hc])) hg
    cases hs : st.srcs[i]? with
    | none => exact h
    | some s0 =>
      simp only
      split
      · rename_i hreg
        have ⟨hS, hL⟩ := h hd
        have := onTake_inv st i s0 hs hreg hin hS hL (fun w q hq => ha s0 w q hs hq)
        intro _
        exact ⟨this.1, this.2.1⟩
      · exact h

/-- **the receiver invariant is preserved by every admissible event** -/
theorem step_inv (st : St) (e : Ev) (h : Inv st) (ha : Adm st e) : Inv (step st e).1 := by
  cases e with
  | deliver i w => exact deliver_inv st i w h
  | «begin» state => exact begin_inv st state h ha
  | take i => exact take_inv st i h ha
  | check => exact check_inv st h
  | request => exact request_inv st h
  | timeout => exact timeout_inv st h

end OF.Recv
