import OFModel.Zmq.NetEph
import OFProps.SendHasten
import OFProps.C05NetInv
import OFProps.C05Net
set_option linter.unusedSimpArgs false
/-!
# C05 at network level — listener requests can only HASTEN a due publish

`C05_net_listeners_only_hasten`: in every state satisfying the chain invariant (`Good proc L (stripX X)`, `C05NetInv.lean`) and the
sender invariant `PubOK` (nothing required; distinct table keys; listener entries ephemeral; every queued request a listener request or a
request of a node id), for every `MQ.send` of a node `j` that reaches its sender: **if the call publishes the block WITHOUT the listener
requests in the queue** (`stripPub nd.pub`: same client table, same everything, the queued listener requests erased) **then it publishes
the same block WITH them**: the same wire messages towards the synchronised consumers, the same id, the same return value; the loop is
free again.  A listener request never suppresses a due publish and never changes its content or id.

Side conditions on the queued SYNCHRONISED requests of that call (neither is implied by the chain invariant, which bounds the ids from
above only; BOTH are proved to be invariants of every restart-free chain run with any listener requests in `C05NetSyncQ.lean`, where the
closed form `C05_net_listeners_only_hasten_reachable` has no side condition left): they are ordinary requests (no special id: a CLOSE is only sent by a consumer
that is destroyed), and the handshake condition `HS`: a synchronised client whose `new` request is queued is not registered and has only
`new` requests queued.  Both are needed:
* `hasten_needs_handshake` (kernel-evaluated): a registered consumer silent beyond the connection time-out asks again with `new`; alone,
  the request refreshes its entry and the block is published; after a listener request the stale entry is evicted first, the `new` request
  of the now unknown client is answered by HELLO only — no publish in this call (the next request gets it);
* `hasten_needs_no_close` (kernel-evaluated): the last synchronised consumer says CLOSE while a listener entry is tracked: without the
  listener's own CLOSE the block is still published (to the listener); with it the table is empty — nobody is left to publish to.

The CONVERSE is false and is not claimed: `hasten_converse_false` — with only a listener tracked the publisher free-runs: the call
publishes WITH the listener request and times out without (DESIGN §11.5, `C05Pair.lean`).
`C05_net_pubOK_reachable`: `PubOK` holds for every publisher in EVERY state reachable with any listener requests (restarts included).
-/
namespace OF.Net.Eph
open OF OF.Send OF.Net
open OF.Pair (PubIdle PubBusy popped entryOf needsHello)
open OF.Recv (Wire)

/-! ## the outcome of a call and the gate after its drain -/

theorem sendMaybe_ret (st : Send.St) (hp : st.push = false) : (Send.sendMaybe st).2.2 = (st.doSend && !st.clients.isEmpty) := by
  unfold Send.sendMaybe Send.gate
  rw [hp]
  cases h1 : st.doSend <;> cases h2 : st.clients.isEmpty <;> simp
  cases st.payload with
  | topics ts => rfl
  | deferred r => cases r <;> rfl

/-- the call times out iff `send_maybe` after the drain says "not sent" -/
theorem send0_gate (P : Req → Prop) (p : Nat) (st : Send.St) (state : Option (Int × Nat)) (r : Option (List (String × Nat))) (t : Int)
    (hin : st.inCall = false) (hb : st.balance = false) (hq : st.queues.length = 1)
    (hs : state = none ∨ ∃ k', state = some (k', 0)) (hk : st.minSendId ≤ callId st state)
    (hreq : ∀ q ∈ st.queues, ∀ x ∈ q, (x.mid < callId st state ∨ x.eph ≠ 0) ∧ P x) :
    (sendRet (Send.send0 st state (.deferred r) false [0] t).2 = some none ↔
      (Send.sendMaybe (Send.drain (Send.totalQueued (Send.beginWith st (callId st state) 0 (.deferred r) false) + 1)
        (Send.beginWith st (callId st state) 0 (.deferred r) false) [0] t).1).2.2 = false) := by
  have hbeg : Send.step st (.begin state (.deferred r) false) =
      (Send.beginWith st (callId st state) 0 (.deferred r) false, []) := by
    unfold Send.step Send.stepBegin
    simp only [hin, Bool.false_eq_true, ↓reduceIte]
    rcases hs with rfl | ⟨k', rfl⟩
    · rfl
    · simp only [callId] at hk ⊢
      have : ¬ k' < st.minSendId := by omega
      simp only [this, ↓reduceIte]
  have h0 : CallE P (Send.beginWith st (callId st state) 0 (.deferred r) false) (callId st state) (.deferred r) st.minSendId :=
    ⟨rfl, rfl, rfl, rfl, rfl, rfl, hb, hq, hreq⟩
  unfold Send.send0
  rw [hbeg]
  simp only [h0.inCall, not_true_eq_false, ↓reduceIte, List.nil_append]
  have ⟨h1, q1⟩ := drain_callE P (Send.totalQueued (Send.beginWith st (callId st state) 0 (.deferred r) false) + 1)
    (Send.beginWith st (callId st state) 0 (.deferred r) false) [0] t _ _ _ h0
  cases hd : Send.drain (Send.totalQueued (Send.beginWith st (callId st state) 0 (.deferred r) false) + 1)
      (Send.beginWith st (callId st state) 0 (.deferred r) false) [0] t with
  | mk st1 o1 =>
    rw [hd] at h1 q1
    simp only at h1 q1 ⊢
    simp only [h1.inCall, not_true_eq_false, ↓reduceIte]
    have htry : Send.step st1 .trySend =
        if (Send.sendMaybe st1).2.2 then ((Send.endCall (Send.sendMaybe st1).1).1, (Send.sendMaybe st1).2.1 ++ (Send.endCall (Send.sendMaybe st1).1).2)
        else ((Send.sendMaybe st1).1, (Send.sendMaybe st1).2.1) := by
      simp only [Send.step, Send.stepTrySend, h1.inCall, not_true_eq_false, ↓reduceIte]
    rw [htry]
    rcases sendMaybe_chainE P p st1 _ r _ h1 with ⟨e1, c1, w1, s1, v1⟩ | ⟨hr, e1, c1, w1, s1, v1⟩ | ⟨ts, hr, e1, c1, w1, s1, v1⟩
    · simp only [e1, Bool.false_eq_true, ↓reduceIte, c1.inCall, not_true_eq_false]
      simp only [Send.step, Send.stepTimeout, c1.inCall, not_true_eq_false, ↓reduceIte]
      refine ⟨fun _ => trivial, fun _ => ?_⟩
      rw [List.append_assoc, oobOnly_sendRet _ _ q1, sendRet_append_none _ _ s1]; rfl
    · simp only [e1, ↓reduceIte, Send.endCall, Bool.false_eq_true, not_false_eq_true]
      refine ⟨fun hc => ?_, fun hc => by cases hc⟩
      rw [oobOnly_sendRet _ _ q1, sendRet_append_none _ _ s1] at hc
      simp [sendRet] at hc
    · simp only [e1, ↓reduceIte, Send.endCall, Bool.false_eq_true, not_false_eq_true]
      refine ⟨fun hc => ?_, fun hc => by cases hc⟩
      rw [oobOnly_sendRet _ _ q1, sendRet_append_none _ _ s1] at hc
      simp [sendRet] at hc

/-- a block is neither nothing nor a lone HELLO -/
theorem block_not_hellos (u : Nat) (k : Int) (ts : List (String × Nat)) (hk : 0 ≤ k) : ¬ Hellos u (blockWires u k ts) := by
  intro h
  unfold blockWires at h
  rcases h with h | h
  · simp at h
  · have := congrArg List.getLast? h
    simp only [List.getLast?_append, List.getLast?_singleton, Option.some_or] at this
    have hm := congrArg (fun o => o.map (·.mid)) this
    simp only [Option.map_some, helloW, Option.some.injEq] at hm
    have : OF.Facts.MSG_ID_HELLO = -4 := rfl
    omega

/-! ## sender level -/

theorem stripPub_queues (p : Send.St) (q : List Req) (h : p.queues = [q]) : (stripPub p).queues = [q.filter keepReq] := by
  simp only [stripPub, h, List.map_cons, List.map_nil]

/-- **listener requests only hasten (one call of the sender)**: `p` idle, one bound output, not balanced, nothing required; queue `q`
of listener requests and ordinary synchronised requests below the id of the call; distinct table keys, listener entries ephemeral,
handshake condition.  If the call on `q.filter keepReq` puts the block on the wire, so does the call on `q`: same block, same return
value, `min_send_id` one past the id. -/
theorem send0_hasten (u : Nat) (p : Send.St) (q : List Req) (state : Option (Int × Nat)) (ts : List (String × Nat)) (t : Int)
    (h : PubIdle p q) (hs : state = none ∨ ∃ k', state = some (k', 0)) (hk : p.minSendId ≤ callId p state)
    (hq : ∀ r ∈ q, ReqNoFf (callId p state) r)
    (hku : KeysND p.clients) (hle : ∀ x ∈ p.clients, isLKey x.1 = true → x.2.eph ≠ 0) (hc : QClass q) (hhs : HS p.clients q)
    (hpub0 : (Send.send0 (stripPub p) state (.deferred (some ts)) false [0] t).2.filterMap (wireOf u) = blockWires u (callId p state) ts) :
    (Send.send0 p state (.deferred (some ts)) false [0] t).2.filterMap (wireOf u) = blockWires u (callId p state) ts ∧
    sendRet (Send.send0 p state (.deferred (some ts)) false [0] t).2 = some (some (callId p state + 1)) ∧
    wasEvaluated (Send.send0 p state (.deferred (some ts)) false [0] t).2 = true ∧
    (Send.send0 p state (.deferred (some ts)) false [0] t).1.minSendId = callId p state + 1 ∧
    sendRet (Send.send0 (stripPub p) state (.deferred (some ts)) false [0] t).2 = some (some (callId p state + 1)) := by
  have hk0 : 0 ≤ callId p state := Int.le_trans h.minpos hk
  have hq0 : (stripPub p).queues = [q.filter keepReq] := stripPub_queues p q h.queues
  have hcid : callId (stripPub p) state = callId p state := rfl
  -- the three outcomes, both runs
  have hreq : ∀ q' ∈ p.queues, ∀ x ∈ q', (x.mid < callId p state ∨ x.eph ≠ 0) ∧ True := by
    intro q' hq' x hx
    rw [h.queues] at hq'
    simp only [List.mem_singleton] at hq'
    subst hq'
    exact ⟨hq x hx, trivial⟩
  have hreq0 : ∀ q' ∈ (stripPub p).queues, ∀ x ∈ q', (x.mid < callId (stripPub p) state ∨ x.eph ≠ 0) ∧ True := by
    intro q' hq' x hx
    rw [hq0] at hq'
    simp only [List.mem_singleton] at hq'
    subst hq'
    exact ⟨hq x (List.mem_filter.mp hx).1, trivial⟩
  have T := send0_chain_eph (fun _ => True) u p state (some ts) t h.inCall h.balance (by rw [h.queues]; rfl) hs hk hreq
  have T0 := send0_chain_eph (fun _ => True) u (stripPub p) state (some ts) t h.inCall h.balance (by rw [hq0]; rfl) hs hk hreq0
  have G := send0_gate (fun _ => True) u p state (some ts) t h.inCall h.balance (by rw [h.queues]; rfl) hs hk hreq
  have G0 := send0_gate (fun _ => True) u (stripPub p) state (some ts) t h.inCall h.balance (by rw [hq0]; rfl) hs hk hreq0
  rw [hcid] at T0 G0
  -- the drains as folds
  have hbusy : PubBusy (Send.beginWith p (callId p state) 0 (.deferred (some ts)) false) q :=
    ⟨h.queues, h.balance, h.required, rfl, rfl, h.minpos, hk0⟩
  have hbusy0 : PubBusy (Send.beginWith (stripPub p) (callId p state) 0 (.deferred (some ts)) false) (q.filter keepReq) :=
    ⟨hq0, h.balance, h.required, rfl, rfl, h.minpos, hk0⟩
  have htq : Send.totalQueued (Send.beginWith p (callId p state) 0 (.deferred (some ts)) false) = q.length := by
    simp [Send.totalQueued, Send.beginWith, h.queues]
  have htq0 : Send.totalQueued (Send.beginWith (stripPub p) (callId p state) 0 (.deferred (some ts)) false) = (q.filter keepReq).length := by
    simp [Send.totalQueued, Send.beginWith, hq0]
  rw [htq] at G
  rw [htq0] at G0
  have D := drain_foldE q _ t hbusy (fun r hr => hq r hr)
  have D0 := drain_foldE (q.filter keepReq) _ t hbusy0 (fun r hr => hq r (List.mem_filter.mp hr).1)
  generalize Send.drain (q.length + 1) (Send.beginWith p (callId p state) 0 (.deferred (some ts)) false) [0] t = d at G D
  generalize Send.drain ((q.filter keepReq).length + 1) (Send.beginWith (stripPub p) (callId p state) 0 (.deferred (some ts)) false) [0] t = d0 at G0 D0
  have F : ((d.1.clients, d.1.doSend, d.1.doHello) : DAcc) = q.foldl (hstepE t) (p.clients, false, false) := D.2.2.2.2.2
  have F0 : ((d0.1.clients, d0.1.doSend, d0.1.doHello) : DAcc) = (q.filter keepReq).foldl (hstepE t) (p.clients, false, false) := D0.2.2.2.2.2
  have R := fold_rel t q (p.clients, false, false) (p.clients, false, false)
    ⟨hku, hku, hle, fun x hx _ => hx, fun hc => by cases hc⟩ hc hhs
  rw [← F, ← F0] at R
  -- the listener-free run does not time out
  have hnt0 : sendRet (Send.send0 (stripPub p) state (.deferred (some ts)) false [0] t).2 ≠ some none := by
    intro hc
    rcases T0 with ⟨_, _, _, _, ⟨_, _, _, m4⟩ | ⟨hrn, _⟩ | ⟨ts', hrs, _, m2, _⟩⟩
    · rw [hpub0] at m4; exact block_not_hellos u _ ts hk0 m4
    · cases hrn
    · rw [m2] at hc; cases hc
  have hopen0 : (Send.sendMaybe d0.1).2.2 = true := by
    cases hx : (Send.sendMaybe d0.1).2.2 with
    | true => rfl
    | false => exact absurd (G0.mpr hx) hnt0
  rw [sendMaybe_ret d0.1 D0.1.push] at hopen0
  have hds0 : d0.1.doSend = true := by
    cases hx : d0.1.doSend with
    | true => rfl
    | false => rw [hx] at hopen0; simp at hopen0
  have ⟨r1, _, y, hy, _, _⟩ := R.dec hds0
  have hopen : (Send.sendMaybe d.1).2.2 = true := by
    rw [sendMaybe_ret d.1 D.1.push]
    have r1' : d.1.doSend = true := r1
    have hne : d.1.clients.isEmpty = false := by
      have hy' : y ∈ d.1.clients := hy
      cases hcl : d.1.clients with
      | nil => rw [hcl] at hy'; cases hy'
      | cons a b => rfl
    rw [r1', hne]; rfl
  have hnt : sendRet (Send.send0 p state (.deferred (some ts)) false [0] t).2 ≠ some none := by
    intro hc
    have := G.mp hc
    rw [hopen] at this; cases this
  rcases T with ⟨_, _, _, _, ⟨_, m2, _⟩ | ⟨hrn, _⟩ | ⟨ts', hrs, m1, m2, m3, m4⟩⟩
  · exact absurd m2 hnt
  · cases hrn
  · simp only [Option.some.injEq] at hrs
    subst hrs
    refine ⟨m4, m2, m3, m1, ?_⟩
    rcases T0 with ⟨_, _, _, _, ⟨_, n2, _⟩ | ⟨hrn, _⟩ | ⟨ts', hrs, _, n2, _⟩⟩
    · exact absurd n2 hnt0
    · cases hrn
    · exact n2

/-! ## network level -/

/-- what holds of every publisher's sender in every reachable state, beyond the chain invariant -/
structure PubOK (p : Send.St) : Prop where
  required : p.required = []
  ku : KeysND p.clients
  le : ∀ x ∈ p.clients, isLKey x.1 = true → x.2.eph ≠ 0
  qc : ∀ q ∈ p.queues, ∀ r ∈ q, IsListenerReq r ∨ (keepReq r = true ∧ isLKey (Pair.fidOf r) = false)

/-- **C05 (network level): listener requests can only hasten a due publish, never suppress it, never change its content or id.**
State `X` with the chain invariant on its stripped form; node `j` holds the result `d` of its `process()`; its sender satisfies `PubOK`;
the queued synchronised requests are ordinary (`hord`) and satisfy the handshake condition (`hhs`).  If `ZMQSender.send` on the queue
WITHOUT the listener requests puts the block `(sendId nd, d)` on the wire (`hpub0`), then on the queue WITH them it puts exactly the same
block on the wire, returns `ZMQStateRecv(id + 1)`, and `MQ.send` frees the loop. -/
theorem C05_net_listeners_only_hasten (proc : Proc) (L : Nat) (X : LSt) (j : Nat) (t : Int) (nd C : Node) (p : Pending)
    (d : List (Topic × Nat)) (h : Good proc L (stripX X)) (hn : X.st.nodes[j]? = some nd) (hpend : nd.pending = some p)
    (hC : X.st.nodes[j + 1]? = some C) (hd : dictOf p.res = some d) (hok : PubOK nd.pub)
    (hord : ∀ q ∈ nd.pub.queues, ∀ r ∈ q, keepReq r = true → ¬ r.mid ≤ OF.Facts.MSG_ID_SPECIAL)
    (hhs : ∀ q ∈ nd.pub.queues, HS nd.pub.clients q)
    (hpub0 : (Send.send0 (stripPub nd.pub) nd.sendState (payloadOf X.st.tbl.length p.res) false [0] t).2.filterMap (wireOf j) =
      blockWires j (sendId nd) (relabel X.st.tbl.length d)) :
    (Send.send0 nd.pub nd.sendState (payloadOf X.st.tbl.length p.res) false [0] t).2.filterMap (wireOf j) =
      blockWires j (sendId nd) (relabel X.st.tbl.length d) ∧
    sendRet (Send.send0 nd.pub nd.sendState (payloadOf X.st.tbl.length p.res) false [0] t).2 = some (some (sendId nd + 1)) ∧
    sendRet (Send.send0 (stripPub nd.pub) nd.sendState (payloadOf X.st.tbl.length p.res) false [0] t).2 = some (some (sendId nd + 1)) ∧
    (afterSend nd p (Send.send0 nd.pub nd.sendState (payloadOf X.st.tbl.length p.res) false [0] t)).pending = none := by
  have hnS := stripX_get X j nd hn
  have hCS := stripX_get X (j + 1) C hC
  rcases h.edge j _ _ hnS hCS with ⟨pub, bsW, s, hpub, hcon⟩
  have hG := h.node j _ hnS
  have hpis : (stripNode nd).pending.isSome = true := by show nd.pending.isSome = true; rw [hpend]; rfl
  have hs : nd.sendState = none ∨ ∃ k', nd.sendState = some (k', 0) := by
    by_cases hj0 : j = 0
    · left; exact (hG.src hj0).2
    · right; exact ⟨_, (hG.relay (by omega) hpis).1⟩
  have hlast : lastId pub < sendId nd := by
    rcases lastId_mem_or pub with e | ⟨b, hb, e⟩
    · have := (send_outcome_eph proc X j t nd p pub hpub hG hpend).2; omega
    · rw [e]; exact hpub.strict hpis b hb
  have hnq : nd.pub.queues.length = 1 := by
    have := hpub.nq
    simpa [stripNode, stripPub] using this
  -- the one PULL queue
  have hq1 : ∃ q, nd.pub.queues = [q] := by
    cases hqq : nd.pub.queues with
    | nil => rw [hqq] at hnq; cases hnq
    | cons a b =>
      cases b with
      | nil => exact ⟨a, rfl⟩
      | cons c e => rw [hqq] at hnq; simp at hnq
  rcases hq1 with ⟨q, hq⟩
  have hqmem : q ∈ nd.pub.queues := by rw [hq]; exact List.mem_singleton.mpr rfl
  have hmin : nd.pub.minSendId = lastId pub + 1 := hpub.minSend
  have hidle : PubIdle nd.pub q :=
    ⟨hq, hpub.bal, hok.required, hpub.idle, by rw [hmin]; have := lastId_ge_neg1 pub hpub.inc; omega⟩
  have hreqs := strip_reqs nd.pub (fun r => r.mid ≤ lastId pub) hpub.reqs q hqmem
  have hpay : payloadOf X.st.tbl.length p.res = .deferred (some (relabel X.st.tbl.length d)) := by
    simp only [payloadOf, hd, Option.map_some]
  rw [hpay] at hpub0 ⊢
  have hnoff : ∀ r ∈ q, ReqNoFf (callId nd.pub nd.sendState) r := by
    intro r hr
    rw [callId_sendId]
    by_cases hk : keepReq r = true
    · left; have := hreqs r hr hk; omega
    · right; exact not_keep_eph r hk
  have hclass : QClass q := by
    intro r hr
    rcases hok.qc q hqmem r hr with h1 | ⟨h1, h2⟩
    · exact Or.inl h1
    · exact Or.inr ⟨h1, h2, hord q hqmem r hr h1⟩
  have hres := send0_hasten j nd.pub q nd.sendState (relabel X.st.tbl.length d) t hidle hs
    (by rw [callId_sendId, hmin]; omega) hnoff hok.ku hok.le hclass (hhs q hqmem) (by rw [callId_sendId]; exact hpub0)
  rw [callId_sendId] at hres
  refine ⟨hres.1, hres.2.1, hres.2.2.2.2, ?_⟩
  unfold afterSend
  rw [hres.2.1]

/-! ## the sender invariant in every reachable state -/

/-- classification of a queued request -/
def ReqClass (r : Req) : Prop := IsListenerReq r ∨ (keepReq r = true ∧ isLKey (Pair.fidOf r) = false)

/-- `PubOK` and "not balanced" -/
def PubOKB (p : Send.St) : Prop := p.balance = false ∧ PubOK p

theorem pubOK_onReq (st : Send.St) (j : Nat) (r : Req) (t : Int) (hb : st.balance = false) (h : PubOK st) (hr : ReqClass r) :
    PubOK (onReq st j r t).1 ∧ (onReq st j r t).1.balance = false := by
  have hnew : ∀ (c : Client), c.eph = r.eph → isLKey (r.cid ++ r.uid) = true → c.eph ≠ 0 := by
    intro c hc hk
    rcases hr with hl | ⟨_, h2⟩
    · rw [hc]; exact hl.1
    · unfold Pair.fidOf at h2; rw [h2] at hk; cases hk
  unfold onReq
  simp only
  split
  · split
    · exact ⟨h, hb⟩
    · split
      · refine ⟨⟨h.required, keysND_sublist _ _ List.filter_sublist h.ku, ?_, h.qc⟩, hb⟩
        intro x hx; exact h.le x ((mem_cdel _ _ _).mp hx).1
      · exact ⟨h, hb⟩
  · split
    · exact ⟨⟨h.required, h.ku, h.le, h.qc⟩, hb⟩
    · have hle2 : ∀ x ∈ cset st.clients (r.cid ++ r.uid) { cid := r.cid, out := j, tLast := t, requested := true, eph := r.eph, prevId := r.mid },
          isLKey x.1 = true → x.2.eph ≠ 0 := by
        intro x hx hk
        rcases Pair.mem_cset _ _ _ x hx with h1 | h1
        · exact h.le x h1 hk
        · rw [h1] at hk ⊢; exact hnew _ rfl hk
      split
      · exact ⟨⟨h.required, keysND_cset _ _ _ h.ku, hle2, h.qc⟩, hb⟩
      · rw [hb]
        refine ⟨⟨h.required, keysND_sublist _ _ (evalClients_sublist _ _ _ _) (keysND_cset _ _ _ h.ku), ?_, h.qc⟩, rfl⟩
        intro x hx hk
        exact hle2 x ((evalClients_sublist _ _ _ _).subset hx) hk

theorem pubOKB_handle (st : Send.St) (j : Nat) (t : Int) (h : PubOKB st) : PubOKB (Send.step st (.handle j t)).1 := by
  unfold Send.step Send.stepHandle
  simp only
  split
  · exact h
  split
  · exact h
  · exact h
  · rename_i r q hq
    have hmem : (r :: q) ∈ st.queues := List.mem_of_getElem? hq
    have hr : ReqClass r := h.2.qc _ hmem r (List.mem_cons_self ..)
    have h1 : PubOK { st with queues := st.queues.set j q } := by
      refine ⟨h.2.required, h.2.ku, h.2.le, ?_⟩
      intro q' hq' x hx
      simp only at hq'
      rcases List.mem_or_eq_of_mem_set hq' with hq' | hq'
      · exact h.2.qc q' hq' x hx
      · subst hq'; exact h.2.qc (r :: q') hmem x (List.mem_cons_of_mem _ hx)
    have ⟨a, b⟩ := pubOK_onReq { st with queues := st.queues.set j q } j r t h.1 h1 hr
    split
    · exact ⟨b, ⟨a.required, a.ku, a.le, a.qc⟩⟩
    · exact ⟨b, a⟩

theorem pubOKB_begin (st : Send.St) (state : Option (Int × Nat)) (pl : Payload) (push : Bool) (h : PubOKB st) :
    PubOKB (Send.step st (.begin state pl push)).1 := by
  unfold Send.step Send.stepBegin
  simp only
  split
  · exact h
  · split
    · exact ⟨h.1, ⟨h.2.required, h.2.ku, h.2.le, h.2.qc⟩⟩
    · split
      · exact h
      · exact ⟨h.1, ⟨h.2.required, h.2.ku, h.2.le, h.2.qc⟩⟩

theorem pubOKB_publish (st : Send.St) (ts : List (String × Nat)) (h : PubOKB st) : PubOKB (Send.publish st ts).1 := by
  unfold Send.publish
  simp only
  refine ⟨h.1, ⟨h.2.required, ?_, ?_, h.2.qc⟩⟩
  · have : (st.clients.map fun x : String × Client =>
        if (!st.balance || (Send.pubTargets st).contains x.2.out) = true then (x.1, { x.2 with requested := false }) else (x.1, x.2)).map (·.1) =
        st.clients.map (·.1) := by
      rw [List.map_map]
      apply List.map_congr_left
      intro x _
      simp only [Function.comp]
      split <;> rfl
    show KeysND _
    unfold KeysND
    rw [this]; exact h.2.ku
  · intro x hx hk
    simp only [List.mem_map] at hx
    rcases hx with ⟨y, hy, rfl⟩
    rcases y with ⟨fid, c⟩
    simp only at hk ⊢
    split at hk <;> split <;> exact h.2.le (fid, c) hy (by simpa using hk)

theorem pubOKB_sendMaybe (st : Send.St) (h : PubOKB st) : PubOKB (Send.sendMaybe st).1 := by
  unfold Send.sendMaybe
  simp only
  have h1 : PubOKB { st with doHello := false, payload := (Send.gate st).2.1 } := ⟨h.1, ⟨h.2.required, h.2.ku, h.2.le, h.2.qc⟩⟩
  split
  · exact h1
  · exact pubOKB_publish { st with doHello := false, payload := (Send.gate st).2.1 } (Send.payloadTopics (Send.gate st).2.1) h1

theorem pubOKB_step (st : Send.St) (e : Send.Ev) (h : PubOKB st) (he : ∀ j r, e ≠ .deliver j r) : PubOKB (Send.step st e).1 := by
  cases e with
  | deliver j r => exact absurd rfl (he j r)
  | begin state pl push => exact pubOKB_begin st state pl push h
  | handle j t => exact pubOKB_handle st j t h
  | trySend =>
    unfold Send.step Send.stepTrySend
    simp only
    split
    · exact h
    · have := pubOKB_sendMaybe st h
      split
      · exact ⟨this.1, ⟨this.2.required, this.2.ku, this.2.le, this.2.qc⟩⟩
      · exact this
  | timeout =>
    unfold Send.step Send.stepTimeout
    simp only
    split
    · exact h
    · exact ⟨h.1, ⟨h.2.required, h.2.ku, h.2.le, h.2.qc⟩⟩

theorem pubOKB_drain : ∀ (f : Nat) (st : Send.St) (prio : List Nat) (t : Int), PubOKB st → PubOKB (Send.drain f st prio t).1 := by
  intro f
  induction f with
  | zero => intro st prio t h; exact h
  | succ f ih =>
    intro st prio t h
    unfold Send.drain
    split
    · exact h
    · split
      · exact h
      · rename_i j _
        have a := pubOKB_handle st j t h
        cases hs : Send.step st (.handle j t) with
        | mk st' o =>
          rw [hs] at a
          exact ih st' prio t a

/-- one whole `send(…, 0)` keeps the sender invariant -/
theorem pubOKB_send0 (st : Send.St) (state : Option (Int × Nat)) (pl : Payload) (push : Bool) (prio : List Nat) (t : Int)
    (h : PubOKB st) : PubOKB (Send.send0 st state pl push prio t).1 := by
  unfold Send.send0
  have h0 := pubOKB_begin st state pl push h
  cases hs0 : Send.step st (.begin state pl push) with
  | mk st0 o0 =>
    rw [hs0] at h0
    simp only
    split
    · exact h0
    · have h1 := pubOKB_drain (Send.totalQueued st0 + 1) st0 prio t h0
      cases hd : Send.drain (Send.totalQueued st0 + 1) st0 prio t with
      | mk st1 o1 =>
        rw [hd] at h1
        simp only
        split
        · exact h1
        · have h2 := pubOKB_step st1 .trySend h1 (by intro j r hc; cases hc)
          cases hs2 : Send.step st1 .trySend with
          | mk st2 o2 =>
            rw [hs2] at h2
            simp only
            split
            · exact h2
            · have h3 := pubOKB_step st2 .timeout h2 (by intro j r hc; cases hc)
              cases hs3 : Send.step st2 .timeout with
              | mk st3 o3 =>
                rw [hs3] at h3
                exact h3

theorem pubOKB_pushReqs (p : Send.St) (rs : List Req) (h : PubOKB p) (hr : ∀ r ∈ rs, ReqClass r) : PubOKB (pushReqs p rs) := by
  refine ⟨h.1, ⟨h.2.required, h.2.ku, h.2.le, ?_⟩⟩
  intro q hq r hr'
  rcases pushReqs_mem p rs q hq with ⟨q0, hq0, rfl⟩
  rw [List.mem_append] at hr'
  rcases hr' with h1 | h1
  · exact h.2.qc q0 hq0 r h1
  · exact hr r h1

theorem reqOf_class (i gen : Nat) (ups : List Nat) (u : Nat) (o : Recv.Out) (r : Req) (h : reqOf i gen ups u o = some r) : ReqClass r := by
  refine Or.inr ⟨reqOf_keep i gen ups u o r h, ?_⟩
  cases o with
  | req j mid eph new =>
    simp only [reqOf] at h
    split at h
    · simp only [Option.some.injEq] at h
      subst h
      exact node_key i _
    · cases h
  | oob a b => cases h
  | ret a b c => cases h
  | retNone => cases h
  | dupTopic t => cases h

/-- every node's sender satisfies the invariant -/
def AllPubOK (st : St) : Prop := ∀ (u : Nat) (nd : Node), st.nodes[u]? = some nd → PubOKB nd.pub

theorem allPubOK_deliverReqs (tp : Topo) (nodes : List Node) (tbl : List Entry) (i gen : Nat) (outs : List Recv.Out)
    (h : AllPubOK { nodes := nodes, tbl := tbl }) : AllPubOK { nodes := deliverReqs tp nodes i gen outs, tbl := tbl } := by
  intro u nd hu
  simp only at hu
  rw [deliverReqs_get] at hu
  cases hn : nodes[u]? with
  | none => rw [hn] at hu; cases hu
  | some nd0 =>
    rw [hn] at hu
    simp only [Option.map_some, Option.some.injEq] at hu
    subst hu
    refine pubOKB_pushReqs nd0.pub _ (h u nd0 hn) ?_
    intro r hr
    rw [List.mem_filterMap] at hr
    rcases hr with ⟨o, _, ho⟩
    exact reqOf_class i gen _ u o r ho

theorem allPubOK_deliverWires (tp : Topo) (nodes : List Node) (tbl tbl' : List Entry) (p : Nat) (ws : List Recv.Wire)
    (h : AllPubOK { nodes := nodes, tbl := tbl }) : AllPubOK { nodes := deliverWires tp nodes p ws, tbl := tbl' } := by
  intro u nd hu
  simp only at hu
  rw [deliverWires_get] at hu
  cases hn : nodes[u]? with
  | none => rw [hn] at hu; cases hu
  | some nd0 =>
    rw [hn] at hu
    simp only [Option.map_some, Option.some.injEq] at hu
    subst hu
    exact h u nd0 hn

theorem allPubOK_set (nodes : List Node) (tbl tbl' : List Entry) (i : Nat) (nd' : Node)
    (h : AllPubOK { nodes := nodes, tbl := tbl }) (h' : PubOKB nd'.pub) : AllPubOK { nodes := nodes.set i nd', tbl := tbl' } := by
  intro u nd hu
  simp only at hu
  rw [List.getElem?_set] at hu
  split at hu
  · split at hu
    · simp only [Option.some.injEq] at hu; subst hu; exact h'
    · cases hu
  · exact h u nd hu

theorem pubOKB_fresh (tp : Topo) (i gen : Nat) : PubOKB (freshNode tp i gen).pub := by
  refine ⟨rfl, ⟨rfl, ?_, ?_, ?_⟩⟩
  · simp [freshNode, Send.mkSt, KeysND]
  · intro x hx; simp [freshNode, Send.mkSt] at hx
  · intro q hq r hr
    simp [freshNode, Send.mkSt] at hq
    subst hq; cases hr

theorem allPubOK_estep (tp : Topo) (proc : Proc) (st : St) (e : EEv) (h : AllPubOK st) (hok : EvOK e) :
    AllPubOK (estep tp proc st e).1 := by
  cases e with
  | ephReq p r =>
    intro u nd hu
    simp only [estep, ephPush, List.getElem?_mapIdx] at hu
    cases hn : st.nodes[u]? with
    | none => rw [hn] at hu; cases hu
    | some nd0 =>
      rw [hn] at hu
      simp only [Option.map_some, Option.some.injEq] at hu
      split at hu
      · subst hu
        refine pubOKB_pushReqs nd0.pub [r] (h u nd0 hn) ?_
        intro x hx
        simp only [List.mem_singleton] at hx
        subst hx
        exact Or.inl hok
      · subst hu; exact h u nd0 hn
  | base e =>
    cases e with
    | nodeRecv i =>
      simp only [estep, step, stepRecv]
      cases hn : st.nodes[i]? with
      | none => exact h
      | some nd =>
        simp only
        split
        · exact h
        · split
          · simp only [recvSource]
            exact allPubOK_set st.nodes st.tbl st.tbl i _ h (h i nd hn)
          · simp only [recvRelay]
            refine allPubOK_deliverReqs tp _ st.tbl (i := i) (gen := nd.gen) _ (allPubOK_set st.nodes st.tbl st.tbl i _ h ?_)
            unfold afterRecv
            split
            · exact h i nd hn
            · exact h i nd hn
    | nodeSend i t =>
      simp only [estep, step, stepSend]
      cases hn : st.nodes[i]? with
      | none => exact h
      | some nd =>
        simp only
        cases hp : nd.pending with
        | none => exact h
        | some p =>
          simp only
          split
          · simp only [sendReal]
            refine allPubOK_deliverWires tp _ st.tbl _ i _ (allPubOK_set st.nodes st.tbl st.tbl i _ h ?_)
            have := pubOKB_send0 nd.pub nd.sendState (payloadOf st.tbl.length p.res) false [0] t (h i nd hn)
            unfold afterSend
            split
            · exact this
            · exact this
          · simp only [sendSkip]
            exact allPubOK_set st.nodes st.tbl st.tbl i _ h (h i nd hn)
    | restart i g =>
      simp only [estep, step, stepRestart]
      cases hn : st.nodes[i]? with
      | none => exact h
      | some nd =>
        simp only
        exact allPubOK_deliverWires tp _ st.tbl _ i _
          (allPubOK_deliverReqs tp _ st.tbl i nd.gen _ (allPubOK_set st.nodes st.tbl st.tbl i _ h (pubOKB_fresh tp i (nd.gen + 1))))

theorem allPubOK_reachable (tp : Topo) (proc : Proc) (st : St) (h : ReachableE tp proc st) : AllPubOK st := by
  induction h with
  | init =>
    intro u nd hu
    simp only [init, List.getElem?_map] at hu
    cases hr : (List.range tp.n)[u]? with
    | none => rw [hr] at hu; cases hu
    | some v =>
      rw [hr] at hu
      simp only [Option.map_some, Option.some.injEq] at hu
      subst hu
      exact pubOKB_fresh tp v 0
  | step e hok _ ih => exact allPubOK_estep tp proc _ e ih hok

/-- **the sender invariant `PubOK` holds for every publisher in EVERY state reachable with any listener requests**, restarts included:
nothing required, not balanced, distinct client-table keys, every listener entry ephemeral, every queued request a listener request or a
request of a node id -/
theorem C05_net_pubOK_reachable (tp : Topo) (proc : Proc) (st : St) (h : ReachableE tp proc st) (u : Nat) (nd : Node)
    (hu : st.nodes[u]? = some nd) : nd.pub.balance = false ∧ PubOK nd.pub :=
  allPubOK_reachable tp proc st h u nd hu

/-! ## witnesses (kernel-evaluated) -/

def wSt (clients : Clients) (q : List Req) : Send.St := { Send.mkSt 1 false [] with clients := clients, minSendId := 1, queues := [q] }

def wSync (new : Bool) (mid : Int) : Req := { cid := "N1", uid := "#0.0", mid := mid, eph := 0, new := new, body := 0 }

/-- what a call puts on the wire (frame, id) and what it returns -/
def wOut (r : Send.St × List Send.Out) : List (String × Int) × Option (Option Int) :=
  ((r.2.filterMap (wireOf 0)).map (fun (w : Wire) => (w.frame0, w.mid)), sendRet r.2)

/-- **the handshake condition `HS` is needed**: consumer `N1` is registered but silent beyond the connection time-out (last heard at 0,
clock 10000) and asks again with `new`.  Without the listener requests its request refreshes the entry and block 1 is published.  With
them — a listener request first (it evicts the stale entry), the listener's CLOSE last — the `new` request of the now unknown client is
answered by HELLO only and the table is empty: no publish in this call. -/
theorem hasten_needs_handshake :
    wOut (Send.send0 (stripPub (wSt [("N1#0.0", { cid := "N1", out := 0, tLast := 0, requested := false, eph := 0, prevId := 0 })]
        [lreq "E1" "a" 0 false, wSync true 0, lreq "E1" "a" (-3) false])) none (.deferred (some [("main", 7)])) false [0] 10000) =
      ([("/main/", 1), ("//", 1)], some (some 2)) ∧
    wOut (Send.send0 (wSt [("N1#0.0", { cid := "N1", out := 0, tLast := 0, requested := false, eph := 0, prevId := 0 })]
        [lreq "E1" "a" 0 false, wSync true 0, lreq "E1" "a" (-3) false]) none (.deferred (some [("main", 7)])) false [0] 10000) =
      ([("//", -4)], some none) := by decide +kernel

/-- **"no special id among the synchronised requests" is needed**: the last synchronised consumer asks and says CLOSE while a listener
entry is tracked: without the listener's own CLOSE block 1 is still published (the listener is a client); with it nobody is left -/
theorem hasten_needs_no_close :
    wOut (Send.send0 (stripPub (wSt [("E1a", { cid := "E1", out := 0, tLast := 900, requested := false, eph := 1, prevId := 0 })]
        [wSync false 0, wSync false (-3), lreq "E1" "a" (-3) false])) none (.deferred (some [("main", 7)])) false [0] 1000) =
      ([("/main/", 1), ("//", 1)], some (some 2)) ∧
    wOut (Send.send0 (wSt [("E1a", { cid := "E1", out := 0, tLast := 900, requested := false, eph := 1, prevId := 0 })]
        [wSync false 0, wSync false (-3), lreq "E1" "a" (-3) false]) none (.deferred (some [("main", 7)])) false [0] 1000) =
      ([], some none) := by decide +kernel

/-- non-vacuity of `send0_hasten`: the hypotheses hold and the listener-free call publishes — a registered consumer that has asked,
a stale listener entry, listener requests ahead / CLOSE / `new` of a second listener around the consumer's request -/
example :
    wOut (Send.send0 (wSt [("N1#0.0", { cid := "N1", out := 0, tLast := 900, requested := false, eph := 0, prevId := 0 }),
          ("E1a", { cid := "E1", out := 0, tLast := 0, requested := false, eph := 1, prevId := 0 })]
        [lreq "E1" "a" 50 false, wSync false 0, lreq "E2" "b" (-1) true, lreq "E1" "a" (-3) false]) none (.deferred (some [("main", 7)])) false [0] 1000) =
      ([("/main/", 1), ("//", 1)], some (some 2)) ∧
    wOut (Send.send0 (stripPub (wSt [("N1#0.0", { cid := "N1", out := 0, tLast := 900, requested := false, eph := 0, prevId := 0 }),
          ("E1a", { cid := "E1", out := 0, tLast := 0, requested := false, eph := 1, prevId := 0 })]
        [lreq "E1" "a" 50 false, wSync false 0, lreq "E2" "b" (-1) true, lreq "E1" "a" (-3) false])) none (.deferred (some [("main", 7)])) false [0] 1000) =
      ([("/main/", 1), ("//", 1)], some (some 2)) := by decide +kernel

/-- a listener request, the source's `recv`, its `send`: on `source → sink` before the sink has said anything -/
def freeSched : List EEv := [.ephReq 0 (lreq "E1" "a" (-1) false), .base (.nodeRecv 0), .base (.nodeSend 0 1000)]

def wiresOfObs (p : Nat) : Obs → List (String × Int)
  | .sent os => (os.filterMap (wireOf p)).map fun (w : Wire) => (w.frame0, w.mid)
  | _ => []

/-- **the converse is false**: with only a listener tracked the publisher free-runs — the `send` publishes block 0 WITH the listener
request and times out (nothing on the wire) without it.  A listener never delays the publisher; it may let it run (DESIGN §11.5). -/
theorem hasten_converse_false :
    (erun (chainTopo 2) cProc (init (chainTopo 2)) freeSched).2.map (wiresOfObs 0) = [[], [], [("/main/", 0), ("//", 0)]] ∧
    (run (chainTopo 2) cProc (init (chainTopo 2)) (erase freeSched)).2.map (wiresOfObs 0) = [[], []] := by decide +kernel

end OF.Net.Eph
