import OFProps.JoinMultiInv
import OFProps.C03Join
/-!
# C03 stage A1, general form — join completeness for MULTI-TOPIC blocks: **no block torn, no frame lost, none invented**

`C03_join_complete_multi`: a non-balanced receiver whose sources are all synchronised; source `j` publishes, for each id of
a strictly increasing list, one block = the topic messages of its (distinct, non-empty) topic list `ts` — hidden `_x`
topics included — each with `topics = ts` in the envelope, then the heartbeat `//` with `topics = ts`
(`ZMQSender.send_maybe`).  The consumer subscribes to source `j` with all topics (`addr`: hidden topics are neither delivered nor
expected), with `*` (everything) or with an explicit list of (possibly remapped) topics that may be a strict subset of the block, may name
topics the publisher does not have (they are pruned), and may let through, by ZeroMQ prefix matching, topic messages that
were not asked for (blanked by the receiver); it may even ask for no topic of the block at all (the source then
contributes no frame but still synchronises the ids).  The network delivers each stream in FIFO order at arbitrary times.  Then, under **any** sequence of `take / check / request / timeout / begin none`
events (any polling order, any placement of timed-out calls):
* (S0) every returned set is the concatenation, source by source, of exactly one frame for **each subscribed topic of that
  source's block** (`PubSpec.keys`: never a partial block, never a topic that was not asked for, hidden topics only with `*`), every
  frame carrying the returned id, the payload of the corresponding wire message of that block, and the destination name of
  the mapping;
* (S1) every id `recv` returns is an id that **every** source published;
* (S2) every id published by every source that lies below the frontier (`expected`) has been returned — nothing is skipped.
Returned ids are strictly increasing (`C02_strict_order`).  Not covered: ephemeral (`?`, `??`) side sources, balanced
receivers, `recv(state)` jumps, loss/reordering inside a connection, an explicit subscription with an empty topic list.
Progress is a liveness statement and is not claimed.
-/
namespace OF.Recv

/-- published by every source -/
def MCommon (sp : List PubSpec) (c : Int) : Prop := ∀ (j : Nat) (p : PubSpec), sp[j]? = some p → c ∈ p.ids

/-- the frames contributed by source `j` to a returned set of id `id`: one per subscribed topic of the block, in dict
order, all of that id, with the payload of a wire message of that id and topic, under the mapped name -/
def PartOK (p : PubSpec) (j : Nat) (id : Int) (part : List (Topic × Msg)) : Prop :=
  part.map (fun x => x.2.topic) = p.keys ∧
  ∀ x ∈ part, x.2.mid = id ∧ x.2.src = j ∧ x.1 = p.dst x.2.topic ∧
    ∃ w ∈ p.wires, w.mid = id ∧ p.eff w = x.2.topic ∧ w.body = x.2.body

/-- a returned set is the concatenation of one complete part per source -/
def MRetOK (sp : List PubSpec) (id : Int) (data : List (Topic × Msg)) : Prop :=
  ∃ parts : List (List (Topic × Msg)), data = parts.flatten ∧ parts.length = sp.length ∧
    ∀ (j : Nat) (p : PubSpec) (part : List (Topic × Msg)), sp[j]? = some p → parts[j]? = some part → PartOK p j id part

/-- what one admissible step does to the frontier and what it returns -/
def MFrontier (sp : List PubSpec) (n n' : NSt) (o : List Out) : Prop :=
  (n'.st.dead = true ∧ retIds o = []) ∨
  (retIds o = [] ∧ expected n.st ≤ expected n'.st ∧
      ∀ c, MCommon sp c → expected n.st ≤ c → c < expected n'.st → False) ∨
  (retIds o = [expected n.st] ∧ expected n'.st = expected n.st + 1 ∧ MCommon sp (expected n.st) ∧
      ∀ id bal data, Out.ret id bal data ∈ o → MRetOK sp id data)

theorem mfrontier_same (sp : List PubSpec) (n n' : NSt) (o : List Out) (ho : retIds o = [])
    (he : expected n'.st = expected n.st) : MFrontier sp n n' o := by
  right; left
  exact ⟨ho, by omega, fun c _ h1 h2 => by omega⟩

theorem mem_retIds (o : List Out) (id : Int) (bal : Nat) (data : List (Topic × Msg)) (h : Out.ret id bal data ∈ o) :
    id ∈ retIds o := by
  unfold retIds
  rw [List.mem_filterMap]
  exact ⟨_, h, rfl⟩

theorem take_mfrontier (sp : List PubSpec) (hsp : ∀ p ∈ sp, PubOK p) (n : NSt) (i : Nat) (h : MInv sp n) :
    MFrontier sp n (nRecv n (.take i)).1 (nRecv n (.take i)).2 := by
  unfold nRecv step stepTake
  simp only
  by_cases hg : n.st.dead = true ∨ ¬ n.st.inCall = true
  · simp only [hg, ↓reduceIte]; exact mfrontier_same sp n _ _ rfl rfl
  · simp only [hg, ↓reduceIte]
    have hd : n.st.dead = false := by
      cases hc : n.st.dead with
      | false => rfl
      | true => exact absurd (Or.inl hc) hg
    have hin : n.st.inCall = true := by
      cases hc : n.st.inCall with
      | true => rfl
      | false => exact absurd (Or.inr (by simp [hc])) hg
    have hexp : expected n.st = n.st.minRecvId := by unfold expected; simp [hin]
    cases hs : n.st.srcs[i]? with
    | none => exact mfrontier_same sp n _ _ rfl rfl
    | some s0 =>
      simp only
      cases hreg : s0.reg with
      | false => simp only [Bool.false_eq_true, ↓reduceIte]; exact mfrontier_same sp n _ _ rfl rfl
      | true =>
      simp only [↓reduceIte]
      have hret := (onTake_mono n.st i).2.2.2.2
      have ⟨hbal, _, hall⟩ := h hd
      rcases hall i s0 hs with ⟨p, fut, ep, ef, hp, hok⟩
      have hpo : PubOK p := hsp p (List.mem_of_getElem? ep)
      cases hq : s0.queue with
      | nil =>
        refine mfrontier_same sp n _ _ hret ?_
        simp only; rw [onTake_empty n.st i s0 hs hq]
      | cons w q =>
        rw [hq] at hok
        have hok' : MSrcOK p i (expected n.st) s0 (w :: (q ++ fut)) := by simpa using hok
        have hnew : n.st.minRecvId ≤ w.mid → expected (onTake n.st i).1 = w.mid := by
          intro hge
          have ⟨h0, hb0, _⟩ := mtake_src p hpo i (expected n.st) s0 w (q ++ fut) hok' hreg
          rw [onTake_sync n.st i s0 w q hs hq hp.1 h0 hge hb0 hbal]
          unfold expected; simp [hin]
        rcases mtake_src p hpo i (expected n.st) s0 w (q ++ fut) hok' hreg with
          ⟨h0, hb0, ⟨hlt, _, _⟩ | ⟨hge, _, _, _, _, hgap, _⟩ | ⟨heq, _, _, _⟩⟩
        · refine mfrontier_same sp n _ _ hret ?_
          simp only
          rw [onTake_older n.st i s0 w q hs hq hp.1 h0 (hexp ▸ hlt) hb0]
          rfl
        · have he' := hnew (hexp ▸ hge)
          right; left
          refine ⟨hret, by simp only; rw [he']; exact hge, ?_⟩
          intro c hc h1 h2
          simp only at h2
          rw [he'] at h2
          exact hgap c (hc i p ep) h1 h2
        · refine mfrontier_same sp n _ _ hret ?_
          simp only
          rw [hnew (by rw [heq, hexp]; exact Int.le_refl _), heq]

/-! ### the content of a returned set -/

theorem got_all_iff (s : Src) (l : Recvd) (h : s.recvd = some l) :
    got s = .all ↔ (l.filter (fun x => x.2.isNone)).length = 0 := by
  unfold got
  rw [h]
  simp only
  split
  · rename_i hc; simp [hc]
  · rename_i hc
    split <;> simp [hc]

theorem midle_not_all (p : PubSpec) (hp : PubOK p) (s : Src) (hs : MPlain p s) (hr : s.recvd = recvdNew s) :
    got s ≠ .all := by
  rcases hs with ⟨_, hsa, _, hsu⟩
  by_cases h : p.subAll = true
  · unfold got; rw [hr]; unfold recvdNew; simp [hsa, h]
  · have h' : p.subAll = false := by simpa using h
    have hne : p.subs ≠ [] := hp.subsNe h'
    have hrn : s.recvd = some (s.subs.map fun q => (q.1, none)) := by
      rw [hr]; unfold recvdNew; simp [hsa, h']
    rw [Ne, got_all_iff s _ hrn, hsu]
    have : (List.map (fun q : Topic × Topic => (q.1, (none : Option Msg))) p.subs).filter (fun x => x.2.isNone)
        = List.map (fun q : Topic × Topic => (q.1, (none : Option Msg))) p.subs := by
      rw [List.filter_eq_self]
      intro a ha
      rw [List.mem_map] at ha
      rcases ha with ⟨q, _, rfl⟩
      rfl
    rw [this, List.length_map]
    intro e
    exact hne (List.eq_nil_of_length_eq_zero e)

theorem frames_of_map (d : Topic → Topic) (g : Topic → Option Msg) : ∀ (ks : List Topic),
    (∀ t ∈ ks, ∃ m, g t = some m ∧ m.topic = t) →
    ((ks.map fun t => (t, g t)).filterMap fun (x : Topic × Option Msg) => x.2.map fun m => (d x.1, m)).map
      (fun x => x.2.topic) = ks := by
  intro ks
  induction ks with
  | nil => intro _; rfl
  | cons t ks ih =>
    intro h
    rcases h t (List.mem_cons_self ..) with ⟨m, hm, ht⟩
    simp only [List.map_cons, List.filterMap_cons, hm, Option.map_some]
    rw [ih (fun t' ht' => h t' (List.mem_cons_of_mem _ ht'))]
    simp only [ht]

theorem srcFrames_eq (s : Src) (l : Recvd) (h : s.recvd = some l) :
    srcFrames s = l.filterMap fun (x : Topic × Option Msg) =>
      x.2.map fun m => (((s.subs.find? (fun q => q.1 == x.1)).map (·.2)).getD x.1, m) := by
  unfold srcFrames
  rw [h]

/-- a source whose dict is complete is assembling the frontier id and holds exactly the subscribed topics of that block -/
theorem mgot_all_complete (p : PubSpec) (hp : PubOK p) (j : Nat) (F : Int) (s : Src) (rem : List Wire) (hs : MPlain p s)
    (hok : MSrcOK p j F s rem) (hg : got s = .all) : F ∈ p.ids ∧ PartOK p j F (srcFrames s) := by
  rcases hok with ⟨_, pre, rest, ws, e1, _, h⟩
  rcases h with ⟨_, _, _, h3, _, _⟩ | ⟨pre', done, todo, g, h1, _, _, _, h5, _, h7, _⟩
  · exact absurd hg (midle_not_all p hp s hs h3)
  · refine ⟨by rw [e1, h1]; simp, ?_⟩
    rw [got_all_iff s _ h5] at hg
    have hnil := List.eq_nil_of_length_eq_zero hg
    have hsome : ∀ t ∈ p.keys, ∃ m, g t = some m ∧ m.topic = t := by
      intro t ht
      cases hgt : g t with
      | none =>
        exfalso
        have : (t, g t) ∈ (p.keys.map fun t => (t, g t)).filter (fun x => x.2.isNone) := by
          rw [List.mem_filter]
          exact ⟨List.mem_map.mpr ⟨t, ht, rfl⟩, by simp [hgt]⟩
        rw [hnil] at this; cases this
      | some m => exact ⟨m, rfl, (h7 t m hgt).2.1⟩
    rw [srcFrames_eq s _ h5, hs.2.2.2]
    constructor
    · exact frames_of_map p.dst g p.keys hsome
    · intro x hx
      rw [List.mem_filterMap] at hx
      rcases hx with ⟨y, hy, hxy⟩
      rw [List.mem_map] at hy
      rcases hy with ⟨t, _, rfl⟩
      simp only at hxy
      cases hgt : g t with
      | none => rw [hgt] at hxy; cases hxy
      | some m =>
        rw [hgt] at hxy
        simp only [Option.map_some, Option.some.injEq] at hxy
        subst hxy
        have ⟨a, b, c, d⟩ := h7 t m hgt
        refine ⟨a, c, ?_, ?_⟩
        · simp only [b]; rfl
        · simp only [b]; exact d

theorem assemble_inr : ∀ (l acc d : List (Topic × Msg)), assemble l acc = .inr d → d = acc ++ l := by
  intro l
  induction l with
  | nil => intro acc d h; simp only [assemble, Sum.inr.injEq] at h; simp [h]
  | cons x rest ih =>
    intro acc d h
    rcases x with ⟨t, m⟩
    unfold assemble at h
    split at h
    · cases h
    · have := ih _ _ h
      rw [this]; simp

theorem check_mfrontier (sp : List PubSpec) (hsp : ∀ p ∈ sp, PubOK p) (n : NSt) (h : MInv sp n) :
    MFrontier sp n (nRecv n .check).1 (nRecv n .check).2 := by
  unfold nRecv step stepCheck
  simp only
  by_cases hg : n.st.dead = true ∨ ¬ n.st.inCall = true
  · simp only [hg, ↓reduceIte]; exact mfrontier_same sp n _ _ rfl rfl
  · simp only [hg, ↓reduceIte]
    have hd : n.st.dead = false := by
      cases hc : n.st.dead with
      | false => rfl
      | true => exact absurd (Or.inl hc) hg
    have hin : n.st.inCall = true := by
      cases hc : n.st.inCall with
      | true => rfl
      | false => exact absurd (Or.inr (by simp [hc])) hg
    have hexp : expected n.st = n.st.minRecvId := by unfold expected; simp [hin]
    cases hrc : returnCond n.st with
    | false => simp only [Bool.false_eq_true, ↓reduceIte]; exact mfrontier_same sp n _ _ rfl rfl
    | true =>
    simp only [↓reduceIte]
    have ⟨hbal, hlen, hall⟩ := h hd
    have hspec := returnCond_spec n.st hrc
    -- every source is complete for the frontier id
    have hsrc : ∀ (j : Nat) (p : PubSpec) (s : Src), sp[j]? = some p → n.st.srcs[j]? = some s →
        expected n.st ∈ p.ids ∧ PartOK p j (expected n.st) (srcFrames s) := by
      intro j p s hj hsj
      rcases hall j s hsj with ⟨p', fut, ep, _, hp, hok⟩
      rw [hj] at ep; cases ep
      have := (hspec s (List.mem_of_getElem? hsj)).2 hp.1 hbal
      exact mgot_all_complete p (hsp p (List.mem_of_getElem? hj)) j _ s _ hp hok this
    have hcommon : MCommon sp (expected n.st) := by
      intro j p hj
      have hj' : j < n.st.srcs.length := by
        rw [hlen]; exact (List.getElem?_eq_some_iff.mp hj).1
      exact (hsrc j p _ hj (List.getElem?_eq_getElem hj')).1
    unfold finish
    simp only
    have hreq : retIds (if (!n.st.lowLat && decide (n.st.balanced ≠ 1)) = true then requests n.st n.st.minRecvId else []) = [] := by
      split
      · exact retIds_requests _ _
      · rfl
    split
    · left; exact ⟨rfl, by rw [retIds_append, hreq]; rfl⟩
    · rename_i data hdata
      right; right
      refine ⟨?_, ?_, hcommon, ?_⟩
      · rw [retIds_append, hreq, hexp]; rfl
      · simp only; unfold expected; simp [hin]
      · intro id bal data' hmem
        rw [List.mem_append] at hmem
        rcases hmem with hmem | hmem
        · have := mem_retIds _ _ _ _ hmem
          rw [hreq] at this; cases this
        · simp only [List.mem_singleton, Out.ret.injEq] at hmem
          rcases hmem with ⟨rfl, _, rfl⟩
          have hd' := assemble_inr _ _ _ hdata
          simp only [List.nil_append] at hd'
          refine ⟨n.st.srcs.map srcFrames, by rw [hd', List.flatMap_def], by simp [hlen], ?_⟩
          intro j p part hj hpart
          rw [List.getElem?_map] at hpart
          cases hsj : n.st.srcs[j]? with
          | none => rw [hsj] at hpart; cases hpart
          | some s =>
            rw [hsj] at hpart
            simp only [Option.map_some, Option.some.injEq] at hpart
            subst hpart
            rw [← hexp]
            exact (hsrc j p s hj hsj).2

/-- every admissible step moves the frontier only over ids that are not common, or returns exactly the frontier id with a
complete set -/
theorem nstep_mfrontier (sp : List PubSpec) (hsp : ∀ p ∈ sp, PubOK p) (n : NSt) (e : NEv) (ha : NAdm e) (h : MInv sp n) :
    MFrontier sp n (nstep n e).1 (nstep n e).2 := by
  cases e with
  | deliverNext j =>
    show MFrontier sp n (nDeliver n j).1 (nDeliver n j).2
    unfold nDeliver
    split
    · refine mfrontier_same sp n _ _ rfl ?_
      simp only; unfold stepDeliver; split <;> rfl
    · exact mfrontier_same sp n _ _ rfl rfl
  | recv e =>
    show MFrontier sp n (nRecv n e).1 (nRecv n e).2
    cases e with
    | deliver i w => exact absurd ha (by simp [NAdm])
    | «begin» state =>
      cases state with
      | some k => exact absurd ha (by simp [NAdm])
      | none =>
        unfold nRecv step
        simp only
        by_cases hd : n.st.dead = true
        · left; unfold stepBegin; simp [hd, retIds]
        · refine mfrontier_same sp n _ _ ?_ (expected_begin_none n.st (by simpa using hd))
          unfold stepBegin; split <;> rfl
    | take i => exact take_mfrontier sp hsp n i h
    | check => exact check_mfrontier sp hsp n h
    | request =>
      unfold nRecv step
      simp only
      refine mfrontier_same sp n _ _ ?_ ?_
      · unfold stepRequest; split
        · rfl
        · exact retIds_requests _ _
      · unfold stepRequest; split <;> rfl
    | timeout =>
      unfold nRecv step
      simp only
      by_cases hd : n.st.dead = true
      · left; unfold stepTimeout; simp [hd, retIds]
      · refine mfrontier_same sp n _ _ ?_ ?_
        · unfold stepTimeout; split
          · rfl
          · simp [retIds]
        · by_cases hc : n.st.inCall = true
          · exact C01_timeout_keeps_id n.st (by simpa using hd) hc
          · simp only; unfold stepTimeout; simp [hc]

/-- invariant of a whole run -/
def MRunOK (sp : List PubSpec) (F0 : Int) (acc : NSt × List Out) : Prop :=
  MInv sp acc.1 ∧
  (∀ id bal data, Out.ret id bal data ∈ acc.2 → MRetOK sp id data) ∧
  (∀ id ∈ retIds acc.2, MCommon sp id) ∧
  (acc.1.st.dead = false → F0 ≤ expected acc.1.st ∧
    ∀ c, MCommon sp c → F0 ≤ c → c < expected acc.1.st → c ∈ retIds acc.2)

theorem mrunOK_step (sp : List PubSpec) (hsp : ∀ p ∈ sp, PubOK p) (F0 : Int) (acc : NSt × List Out) (e : NEv) (ha : NAdm e)
    (h : MRunOK sp F0 acc) : MRunOK sp F0 ((nstep acc.1 e).1, acc.2 ++ (nstep acc.1 e).2) := by
  rcases h with ⟨hJ, hS0, hS1, hS2⟩
  have hJ' := nstep_MInv sp hsp acc.1 e ha hJ
  have hF := nstep_mfrontier sp hsp acc.1 e ha hJ
  refine ⟨hJ', ?_, ?_, ?_⟩
  · intro id bal data hmem
    rw [List.mem_append] at hmem
    rcases hmem with hmem | hmem
    · exact hS0 id bal data hmem
    · have hid := mem_retIds _ _ _ _ hmem
      rcases hF with ⟨_, ho⟩ | ⟨ho, _, _⟩ | ⟨_, _, _, hc⟩
      · rw [ho] at hid; cases hid
      · rw [ho] at hid; cases hid
      · exact hc id bal data hmem
  · intro id hid
    rw [retIds_append, List.mem_append] at hid
    rcases hid with hid | hid
    · exact hS1 id hid
    · rcases hF with ⟨_, ho⟩ | ⟨ho, _, _⟩ | ⟨ho, _, hc, _⟩
      · rw [ho] at hid; cases hid
      · rw [ho] at hid; cases hid
      · rw [ho] at hid; simp only [List.mem_singleton] at hid; rw [hid]; exact hc
  · intro hd'
    have hd0 : acc.1.st.dead = false := by
      cases hc : acc.1.st.dead with
      | false => rfl
      | true => rw [dead_stays acc.1 e hc] at hd'; cases hd'
    have ⟨hF0, hS2'⟩ := hS2 hd0
    rcases hF with ⟨hdead, _⟩ | ⟨ho, hle, hgap⟩ | ⟨ho, heq, hc, _⟩
    · simp only at hd'; rw [hdead] at hd'; cases hd'
    · refine ⟨by simp only; omega, ?_⟩
      intro c hc h0 hlt
      rw [retIds_append, List.mem_append]
      by_cases hcl : c < expected acc.1.st
      · left; exact hS2' c hc h0 hcl
      · exact absurd hlt (fun hlt' => hgap c hc (by omega) hlt')
    · refine ⟨by simp only; omega, ?_⟩
      intro c hcc h0 hlt
      simp only at hlt
      rw [retIds_append, List.mem_append]
      by_cases hcl : c < expected acc.1.st
      · left; exact hS2' c hcc h0 hcl
      · right; rw [ho]; simp only [List.mem_singleton]; omega

/-- **C03 (A1, join completeness, multi-topic blocks, all subscription forms of synchronised sources)** -/
theorem C03_join_complete_multi (sp : List PubSpec) (hsp : ∀ p ∈ sp, PubOK p) (n0 : NSt) (h0 : MInv sp n0)
    (evs : List NEv) (hadm : ∀ e ∈ evs, NAdm e) :
    let r := nrun n0 evs
    (∀ id bal data, Out.ret id bal data ∈ r.2 → MCommon sp id ∧ MRetOK sp id data) ∧
    (∀ id ∈ retIds r.2, MCommon sp id) ∧
    (r.1.st.dead = false → ∀ c, MCommon sp c → expected n0.st ≤ c → c < expected r.1.st → c ∈ retIds r.2) := by
  have key : ∀ (evs : List NEv) (acc : NSt × List Out), (∀ e ∈ evs, NAdm e) → MRunOK sp (expected n0.st) acc →
      MRunOK sp (expected n0.st)
        (evs.foldl (fun (acc : NSt × List Out) e => ((nstep acc.1 e).1, acc.2 ++ (nstep acc.1 e).2)) acc) := by
    intro evs
    induction evs with
    | nil => intro acc _ h; exact h
    | cons e es ih =>
      intro acc hadm h
      simp only [List.foldl_cons]
      exact ih _ (fun x hx => hadm x (List.mem_cons_of_mem _ hx))
        (mrunOK_step sp hsp _ acc e (hadm e (List.mem_cons_self ..)) h)
  have hinit : MRunOK sp (expected n0.st) (n0, []) := by
    refine ⟨h0, ?_, ?_, ?_⟩
    · intro id bal data hmem; cases hmem
    · intro id hid; cases hid
    · intro _
      refine ⟨Int.le_refl _, ?_⟩
      intro c _ h1 h2
      simp only at h2
      omega
  have := key evs (n0, []) hadm hinit
  refine ⟨?_, this.2.2.1, fun hd => (this.2.2.2 hd).2⟩
  intro id bal data hmem
  exact ⟨this.2.2.1 id (mem_retIds _ _ _ _ hmem), this.2.1 id bal data hmem⟩

/-- `PubSpec.keys` is "the topics of the block the subscription asks for" -/
theorem C03_multi_keys (p : PubSpec) (t : Topic) : t ∈ p.keys ↔ t ∈ p.ts ∧ p.wanted t = true := PubSpec.mem_keys p t

/-- a freshly constructed receiver of synchronised sources, with nothing delivered yet, satisfies the invariant -/
theorem init_MInv (sp : List PubSpec) (srcs : List Src) (lowLat : Bool)
    (hlen : srcs.length = sp.length)
    (hsrc : ∀ (j : Nat) (s : Src), srcs[j]? = some s →
      ∃ p, sp[j]? = some p ∧ MStream p p.ids p.wires ∧ MPlain p s ∧ s.recvd = recvdNew s ∧ s.reg = true ∧ s.queue = []) :
    MInv sp { st := mkSt srcs false lowLat, future := sp.map (·.wires) } := by
  intro _
  refine ⟨rfl, by simp [mkSt, hlen], ?_⟩
  intro j s hj
  simp only [mkSt] at hj
  rcases hsrc j s hj with ⟨p, e1, e2, hp, hr, hg, hq⟩
  refine ⟨p, p.wires, e1, by simp [List.getElem?_map, e1], hp, ?_⟩
  rw [hq]
  exact ⟨by simp, [], p.ids, p.wires, rfl, e2,
    Or.inl ⟨[], by simp, (by intro w hw; cases hw), hr, hg, (by intro c hc; cases hc)⟩⟩


/-- **where `IsBlock` comes from.**  The block a publisher *sends* for id `k` is the topic messages of `ts` in order, then the
heartbeat (`ZMQSender.send_maybe`); the subscriber's SUB socket lets a message `pass` iff its frame matches a subscribed
prefix.  Whatever `pass` is, as long as it lets the heartbeat through (prefixes `/`, `` and `//` all match `//`), lets every
wanted topic through (`/` matches `/t/` of every non-hidden `t`; `` matches everything; `/t/` resp. `_t/` matches its own
topic) and, for all-topics / `*` subscriptions, lets nothing else through (`/` does not match `_h/`), the delivered block
is an `IsBlock`.  For explicit subscriptions `pass` may let through other topics (`/a/` matches `/a/b/`). -/
theorem isBlock_of_sent (p : PubSpec) (k : Int) (tm : List Wire) (h : Wire) (pass : Wire → Bool)
    (htm : tm.map (fun w => decodeTopic w.frame0) = p.ts) (hh : decodeTopic h.frame0 = "")
    (henv : ∀ w ∈ tm ++ [h], w.mid = k ∧ w.topics = p.ts ∧ w.bal = 0)
    (hpassh : pass h = true)
    (hwant : ∀ w ∈ tm, p.wanted (decodeTopic w.frame0) = true → pass w = true)
    (hall : p.subAll = true → ∀ w ∈ tm, pass w = true → p.wanted (decodeTopic w.frame0) = true) :
    IsBlock p k ((tm ++ [h]).filter pass) := by
  have hf : (tm ++ [h]).filter pass = tm.filter pass ++ [h] := by
    rw [List.filter_append]; simp [hpassh]
  refine ⟨⟨tm.filter pass, h, hf, hh, ?_, ?_, ?_⟩, ?_⟩
  · intro w hw
    rw [← htm]
    exact List.mem_map.mpr ⟨w, (List.mem_filter.mp hw).1, rfl⟩
  · intro t ht hw
    rw [← htm, List.mem_map] at ht
    rcases ht with ⟨w, hwm, rfl⟩
    exact ⟨w, List.mem_filter.mpr ⟨hwm, hwant w hwm hw⟩, rfl⟩
  · intro hsa w hw
    have := List.mem_filter.mp hw
    exact hall hsa w this.1 this.2
  · intro w hw
    exact henv w (List.mem_filter.mp hw).1

/-! ## Non-vacuity: a concrete two-source join with multi-topic blocks

Source 0 publishes blocks `a, b, _h` (one hidden topic) for ids 0, 1, 2 and is subscribed with all topics: `/a/`, `/b/`, `//`
reach the receiver, `_h/` does not.  Source 1 publishes blocks `c, c/x, d` for ids 0, 2 and is subscribed with the explicit,
remapped, strict-subset list `c>z`: `/c/`, the prefix-matched `/c/x/` (blanked by the receiver) and `//` reach it, `/d/` does not. -/

def exMT (ts : List Topic) (f : String) (k : Int) (b : Nat) : Wire :=
  { frame0 := f, sid := "s", mid := k, topics := ts, bal := 0, body := b }

def exBlk0 (k : Int) : List Wire :=
  [exMT ["a", "b", "_h"] "/a/" k 10, exMT ["a", "b", "_h"] "/b/" k 11, exMT ["a", "b", "_h"] "//" k 0]
def exBlk1 (k : Int) : List Wire :=
  [exMT ["c", "c/x", "d"] "/c/" k 20, exMT ["c", "c/x", "d"] "/c/x/" k 21, exMT ["c", "c/x", "d"] "//" k 0]

def exP0 : PubSpec :=
  { ts := ["a", "b", "_h"], ids := [0, 1, 2], wires := exBlk0 0 ++ (exBlk0 1 ++ (exBlk0 2 ++ [])),
    subAll := true, star := false, subs := [] }
def exP1 : PubSpec :=
  { ts := ["c", "c/x", "d"], ids := [0, 2], wires := exBlk1 0 ++ (exBlk1 2 ++ []),
    subAll := false, star := false, subs := [("c", "z")] }

def exMN0 : NSt :=
  { st := mkSt [mkSrc 0 none, mkSrc 0 (some [("c", "z")])] false false, future := [exP0, exP1].map (·.wires) }

theorem exP0_ok : PubOK exP0 :=
  ⟨by decide +kernel, by decide +kernel, by decide +kernel, by decide +kernel, by decide +kernel⟩
theorem exP1_ok : PubOK exP1 :=
  ⟨by decide +kernel, by decide +kernel, by decide +kernel, by decide +kernel, by decide +kernel⟩

theorem exBlk0_ok (k : Int) (hk : k ∈ [0, 1, 2]) : IsBlock exP0 k (exBlk0 k) := by
  simp only [List.mem_cons, List.not_mem_nil, or_false] at hk
  rcases hk with rfl | rfl | rfl <;>
  exact ⟨⟨[exMT ["a", "b", "_h"] "/a/" _ 10, exMT ["a", "b", "_h"] "/b/" _ 11], exMT ["a", "b", "_h"] "//" _ 0, rfl,
    by decide +kernel, by decide +kernel, by decide +kernel, by decide +kernel⟩, by decide +kernel⟩

theorem exBlk1_ok (k : Int) (hk : k ∈ [0, 2]) : IsBlock exP1 k (exBlk1 k) := by
  simp only [List.mem_cons, List.not_mem_nil, or_false] at hk
  rcases hk with rfl | rfl <;>
  exact ⟨⟨[exMT ["c", "c/x", "d"] "/c/" _ 20, exMT ["c", "c/x", "d"] "/c/x/" _ 21], exMT ["c", "c/x", "d"] "//" _ 0, rfl,
    by decide +kernel, by decide +kernel, by decide +kernel, by decide +kernel⟩, by decide +kernel⟩

theorem exP0_stream : MStream exP0 exP0.ids exP0.wires :=
  .cons (exBlk0_ok 0 (by decide)) (.cons (exBlk0_ok 1 (by decide)) (.cons (exBlk0_ok 2 (by decide)) .nil))
theorem exP1_stream : MStream exP1 exP1.ids exP1.wires :=
  .cons (exBlk1_ok 0 (by decide)) (.cons (exBlk1_ok 2 (by decide)) .nil)

/-- the hypotheses of `C03_join_complete_multi` are satisfiable: the concrete receiver satisfies the invariant -/
theorem exMN0_inv : MInv [exP0, exP1] exMN0 := by
  refine init_MInv [exP0, exP1] _ false rfl ?_
  intro j s hj
  match j, hj with
  | 0, hj =>
    simp only [List.getElem?_cons_zero, Option.some.injEq] at hj
    subst hj
    exact ⟨exP0, rfl, exP0_stream, ⟨rfl, rfl, rfl, rfl⟩, rfl, rfl, rfl⟩
  | 1, hj =>
    simp only [List.getElem?_cons_succ, List.getElem?_cons_zero, Option.some.injEq] at hj
    subst hj
    exact ⟨exP1, rfl, exP1_stream, ⟨rfl, by decide +kernel, by decide +kernel, by decide +kernel⟩, by decide +kernel,
      by decide +kernel, by decide +kernel⟩
  | j + 2, hj => simp at hj

/-- the subscribed topics of the two blocks: `_h` is not expected by the all-topics subscriber, `c/x` and `d` were not asked for -/
example : exP0.keys = ["a", "b"] ∧ exP1.keys = ["c"] := by decide +kernel

def exMSched : List NEv :=
  [.deliverNext 0, .deliverNext 0, .deliverNext 1, .recv (.begin none),
   .recv (.take 0), .recv .check,                                  -- source 0 holds a/0 only: partial, nothing returned
   .recv (.take 1), .recv .check,                                  -- c/0 complete, source 0 still partial
   .recv (.take 0), .recv .check,                                  -- a/0 b/0 c/0: returned
   .deliverNext 0, .deliverNext 0, .deliverNext 0, .deliverNext 0, .deliverNext 1, .deliverNext 1, .deliverNext 1, .deliverNext 1, .deliverNext 1,
   .recv (.begin none), .recv (.take 0), .recv (.take 0), .recv (.take 0), .recv .check,  -- hb 0 dropped, a/1 b/1 complete, waits for source 1
   .recv (.take 1), .recv (.take 1), .recv (.take 1), .recv .check, .recv .request, .recv .timeout,  -- c/2 is newer: block 1 of source 0 dropped
   .deliverNext 0, .deliverNext 0, .deliverNext 0,
   .recv (.begin none), .recv (.take 0), .recv (.take 0), .recv .check,                  -- hb 1 dropped, a/2 taken: partial
   .recv (.take 0), .recv .check]                                                        -- a/2 b/2 c/2: returned

/-- sets are actually returned: exactly the common ids, each with the complete subscribed block of each source -/
example : (nrun exMN0 exMSched).2.filter (fun o => match o with | .ret .. => true | _ => false) =
    [.ret 0 0 [("a", { mid := 0, topic := "a", body := 10, src := 0 }), ("b", { mid := 0, topic := "b", body := 11, src := 0 }),
               ("z", { mid := 0, topic := "c", body := 20, src := 1 })],
     .ret 2 0 [("a", { mid := 2, topic := "a", body := 10, src := 0 }), ("b", { mid := 2, topic := "b", body := 11, src := 0 }),
               ("z", { mid := 2, topic := "c", body := 20, src := 1 })]] := by decide +kernel

/-- executable form of `NAdm` -/
def nadmB : NEv → Bool
  | .deliverNext _ => true
  | .recv (.deliver _ _) => false
  | .recv (.begin (some _)) => false
  | .recv _ => true

theorem nadmB_sound (l : List NEv) (h : l.all nadmB = true) : ∀ e ∈ l, NAdm e := by
  intro e he
  have := List.all_eq_true.mp h e he
  cases e with
  | deliverNext j => trivial
  | recv e =>
    cases e with
    | deliver i w => simp [nadmB] at this
    | «begin» state =>
      cases state with
      | none => trivial
      | some k => simp [nadmB] at this
    | take i => trivial
    | check => trivial
    | request => trivial
    | timeout => trivial

/-- the theorem applied to the concrete instance -/
example : ∀ id bal data, Out.ret id bal data ∈ (nrun exMN0 exMSched).2 → MCommon [exP0, exP1] id ∧ MRetOK [exP0, exP1] id data :=
  (C03_join_complete_multi [exP0, exP1]
    (by intro p hp; simp only [List.mem_cons, List.not_mem_nil, or_false] at hp; rcases hp with rfl | rfl; exact exP0_ok; exact exP1_ok)
    exMN0 exMN0_inv exMSched (nadmB_sound _ (by decide +kernel))).1

end OF.Recv
