import OFModel.FilterLoop
import OFModel.Gen.Facts
/-!
# C04 — back-pressure passes through a relay (`Filter.loop_once` wait budgets)

"When a synchronized consumer stops taking frames, each publisher feeding it … waits, however long the stall lasts" includes
the position *consumer behind a relay*: the relay's `send` is blocked by the stalled consumer, and the relay must not go back
to `recv` (which would request the next frame from ITS publisher) while it still holds the unsent frame - unless the operator
configured an `outputs_timeout`.  These are statements about the loop model `OF.Loop.waitLoop`; the tie to the real
`Filter.init` / `Filter.loop_once` (which option feeds which budget, the attempt counts) is `harness/ofverif/loopbudget.py`.
-/
namespace OF.Loop

/-- with no `outputs_timeout` the blocked frame is never given up: after any number `b` of failed attempts the relay is still
in the send loop (it made `b + 1` attempts and the last one went through), it never returned to `recv` in between -/
theorem C04_relay_waits_forever (poll : Int) (b : Nat) : waitLoop poll none b = (b + 1, false) := by
  induction b with
  | zero => rfl
  | succ b ih => simp only [waitLoop, ih]

theorem C04_relay_never_pulls_while_blocked (poll : Int) (b : Nat) : relayPullsWhileBlocked poll none b = false := by
  unfold relayPullsWhileBlocked; rw [C04_relay_waits_forever]

/-- never more attempts than failures + 1, whatever the budget -/
theorem C04_wait_attempts_le (poll : Int) : ∀ (budget : Option Int) (b : Nat), (waitLoop poll budget b).1 ≤ b + 1
  | _, 0 => by simp [waitLoop]
  | none, b + 1 => by
    have := C04_wait_attempts_le poll none b
    simp only [waitLoop]; omega
  | some ms, b + 1 => by
    simp only [waitLoop]
    split
    · simp
    · have := C04_wait_attempts_le poll (some (ms - poll)) b
      simp only; omega

/-- a configured budget is honoured: the loop gives up only when the attempts made have used the budget up
(`attempts * poll ≥ ms`), and if it did not give up the frame went out -/
theorem C04_wait_budget_honoured (poll : Int) (hp : 0 < poll) : ∀ (ms : Int) (b : Nat),
    (waitLoop poll (some ms) b).2 = true → ms ≤ (waitLoop poll (some ms) b).1 * poll
  | _, 0 => by simp [waitLoop]
  | ms, b + 1 => by
    simp only [waitLoop]
    split
    · intro _; show ms ≤ ((1 : Nat) : Int) * poll; simp only [Int.natCast_one, Int.one_mul]; omega
    · intro h
      have ih := C04_wait_budget_honoured poll hp (ms - poll) b h
      simp only
      have : (((waitLoop poll (some (ms - poll)) b).1 + 1 : Nat) : Int) * poll
          = ((waitLoop poll (some (ms - poll)) b).1 : Int) * poll + poll := by
        push_cast; rw [Int.add_mul]; simp
      rw [this]; omega

/-- with a budget, the loop does give up once the failures outlast it: the bounded wait is really bounded -/
theorem C04_wait_gives_up (poll : Int) (hp : 0 < poll) : ∀ (ms : Int) (b : Nat), ms ≤ b * poll → 0 < b →
    (waitLoop poll (some ms) b).2 = true
  | _, 0 => by intro _ h; cases h
  | ms, b + 1 => by
    intro h _
    simp only [waitLoop]
    split
    · rfl
    · rename_i hgt
      simp only
      have hb : 0 < b := by
        cases b with
        | zero => exfalso; simp at h; omega
        | succ b => omega
      apply C04_wait_gives_up poll hp (ms - poll) b _ hb
      have : ((b + 1 : Nat) : Int) * poll = (b : Int) * poll + poll := by push_cast; rw [Int.add_mul]; simp
      rw [this] at h; omega

/-- non-vacuity / the documented examples: no budget, 500 failures -> 501 attempts, never gave up; `outputs_timeout=250` with the
real poll interval -> gives up after 3 attempts -/
example : waitLoop OF.Facts.ZMQ_POLL_TIMEOUT none 500 = (501, false) := by decide +kernel
example : waitLoop OF.Facts.ZMQ_POLL_TIMEOUT (some 250) 10 = (3, true) := by decide +kernel
example : waitLoop OF.Facts.ZMQ_POLL_TIMEOUT (some 250) 2 = (3, false) := by decide +kernel
example : waitLoop OF.Facts.ZMQ_POLL_TIMEOUT (some 0) 1 = (1, true) := by decide +kernel

end OF.Loop
