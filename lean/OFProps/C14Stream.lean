import OFProps.C14
import OFProps.C13Stream
/-!
# C14 — the saved reader position over a WHOLE history of crashes and restarts (`C14_stream_across_restarts`)

`C14.lean` states what one save and one restart do; `C13Stream.lean` what the reader delivers between two position
changes.  Here the two are composed: any history (from the empty directory, without a writer restart) of a read-only
instance WITH a head file that reads, refreshes, saves (with a crash after any number of the four file-system steps of
`write_head`), closes, and is restarted from the head file any number of times.

Excluded by an explicit decidable hypothesis (`ReaderPlain`): explicit seeks of the read-only instance.  A seek to an
explicit byte offset may put the reader inside a record, `tell()` then returns that offset, `write_head` saves it, and the
restarted reader starts inside a record too: a position saved by `write_head` is a record boundary exactly when the
reader was at one, which reads, refreshes, saves and restarts preserve (`HInv.al`, `HInv.hal`).
-/
namespace OF.RollLog

/-! ## vocabulary -/

/-- ops of the read-only instance other than its explicit seeks (a reader that only reads, refreshes, tells, saves,
closes, crashes and is restarted); ops of the writer and deletions are unrestricted -/
def plainB : Op → Bool
  | .seekStart .r | .seekEnd .r | .seek .r _ _ | .seekInvalid .r | .seekBlock .r _ => false
  | _ => true

def ReaderPlain (ops : List Op) : Prop := ∀ op ∈ ops, plainB op = true

/-- no restart of the read-only instance: the ops of one incarnation -/
def isRRestart : Op → Bool
  | .reopen .r _ => true
  | _ => false

def NoRRestart (ops : List Op) : Prop := ∀ op ∈ ops, isRRestart op = false

/-- a saved position as a point of the order the reader's `cur` lives in; `'start'` is below everything -/
def posOf (p : Pos) : Nat × Nat :=
  match p.name with
  | none => (0, 0)
  | some n => (n, p.off)

/-- the position the head file holds (absent head file: `'start'`) -/
def headPos (h : HeadFS) : Nat × Nat :=
  match h.head with
  | some (.full p) => posOf p
  | _ => (0, 0)

/-- the position names a file that exists (as an inode) and a record boundary of it -/
def PosAligned (fs : FS) (p : Pos) : Prop :=
  match p.name with
  | none => True
  | some n => ∃ f ∈ fs, f.name = n ∧ ∃ k, k ≤ f.recs.length ∧ p.off = recsSize (f.recs.take k)

/-- the head file is absent or holds a complete position that is a record boundary -/
def HeadAligned (fs : FS) (h : HeadFS) : Prop :=
  h.head = none ∨ ∃ p, h.head = some (.full p) ∧ PosAligned fs p

/-- the sizes in the reader's file list are record boundaries of the files they were taken from -/
def SizesOk (fs : FS) (L : List LF) : Prop :=
  ∀ lf ∈ L, ∃ f ∈ fs, f.name = lf.ts ∧ ∃ k, k ≤ f.recs.length ∧ lf.size = recsSize (f.recs.take k)

theorem posAligned_later {fs fs' : FS} {p : Pos} (hold : Holds fs fs') (h : PosAligned fs p) : PosAligned fs' p := by
  unfold PosAligned at *
  cases hn : p.name with
  | none => simp
  | some n =>
    simp only [hn] at h ⊢
    obtain ⟨f, hf, hname, k, hk, hoff⟩ := h
    obtain ⟨i, hi⟩ := List.mem_iff_getElem?.mp hf
    obtain ⟨f', hf', hlat⟩ := hold i f hi
    obtain ⟨t, ht⟩ := hlat.recs
    refine ⟨f', List.mem_of_getElem? hf', hlat.name.trans hname, k, ?_, ?_⟩
    · rw [← ht]; simp; omega
    · rw [← ht, List.take_append_of_le_length hk]; exact hoff

theorem headAligned_later {fs fs' : FS} {h : HeadFS} (hold : Holds fs fs') (ha : HeadAligned fs h) : HeadAligned fs' h := by
  rcases ha with e | ⟨p, e, hp⟩
  · exact Or.inl e
  · exact Or.inr ⟨p, e, posAligned_later hold hp⟩

theorem sizesOk_later {fs fs' : FS} {L : List LF} (hold : Holds fs fs') (h : SizesOk fs L) : SizesOk fs' L := by
  intro lf hlf
  obtain ⟨f, hf, hname, k, hk, hoff⟩ := h lf hlf
  obtain ⟨i, hi⟩ := List.mem_iff_getElem?.mp hf
  obtain ⟨f', hf', hlat⟩ := hold i f hi
  obtain ⟨t, ht⟩ := hlat.recs
  refine ⟨f', List.mem_of_getElem? hf', hlat.name.trans hname, k, ?_, ?_⟩
  · rw [← ht]; simp; omega
  · rw [← ht, List.take_append_of_le_length hk]; exact hoff

theorem sizesOk_dir {fs : FS} : SizesOk fs (dirEntries fs) := by
  intro lf hlf
  obtain ⟨f, hf, _, rfl⟩ := mem_dirEntries.mp hlf
  exact ⟨f, hf, rfl, f.recs.length, Nat.le_refl _, by simp [File.size]⟩

/-- **`tell()` is never ahead of the reader**: the position `write_head` saves is the reader's position, or - when the
reader stands past the last listed file - the listed end of that file, which is below the reader's position -/
theorem tellPos_le_cur (l : Log) : posLe (posOf (tellPos l)) (cur l) := by
  unfold tellPos cur posOf posLe
  cases h1 : l.logfiles[l.readIdx]? with
  | some lf => cases l.readFile <;> simp
  | none =>
    cases h2 : l.logfiles.getLast? with
    | some lf => simp
    | none => simp

/-! ## what one op does to the head file and to a stopped reader -/

theorem writeHead_nohead (l : Log) (h : HeadFS) (c : Option Nat) (hh : l.hasHead = false) : (writeHead l h c).2.1 = h := by
  unfold writeHead
  simp only [hh, Bool.not_false, ↓reduceIte]
  cases c <;> rfl

theorem writeHead_closed (l : Log) (h : HeadFS) (c : Option Nat) (hh : l.hasHead = true) (hc : l.readFile = .closed) :
    writeHead l h c = (l, h, .err .runtime) := by
  unfold writeHead
  simp only [hh, Bool.not_true, Bool.false_eq_true, ↓reduceIte, hc]

theorem close_closed (l : Log) (h : HeadFS) (hh : l.hasHead = true) (hc : l.readFile = .closed) :
    close l h = (l, h, .err .runtime) := by
  unfold close
  simp only [writeHead_closed l h none hh hc]

/-- the head file changes only by a save (or a close) of the live read-only instance, and then to its `tell()` -/
theorem step_head_r (s : Sys) (op : Op) (hw : s.w.hasHead = false) :
    (step patched s op).1.hd.head = s.hd.head ∨
      (s.r.readFile ≠ .closed ∧ (step patched s op).1.hd.head = some (.full (tellPos s.r))) := by
  have hr : ∀ c, (writeHead s.r s.hd c).2.1.head = s.hd.head ∨
      (s.r.readFile ≠ .closed ∧ (writeHead s.r s.hd c).2.1.head = some (.full (tellPos s.r))) := by
    intro c
    by_cases hc : s.r.readFile = .closed
    · left
      unfold writeHead
      split
      · cases c <;> rfl
      · simp only [hc]
    · rcases writeHead_head s.r s.hd c with h | h
      · exact Or.inl h
      · exact Or.inr ⟨hc, h⟩
  cases op with
  | save who crash =>
    cases who with
    | w => left; show (writeHead s.w s.hd crash).2.1.head = _; rw [writeHead_nohead _ _ _ hw]
    | r => exact hr crash
  | close who =>
    cases who with
    | w =>
      left
      show (close s.w s.hd).2.1.head = _
      have := writeHead_nohead s.w s.hd none hw
      unfold close
      simp only
      split <;> simp only [this]
    | r =>
      have := hr none
      show (close s.r s.hd).2.1.head = _ ∨ (_ ∧ (close s.r s.hd).2.1.head = _)
      unfold close
      simp only
      split <;> exact this
  | write recs us => left; rfl
  | read who block => left; cases who <;> rfl
  | seekStart who => left; cases who <;> rfl
  | seekEnd who => left; cases who <;> rfl
  | seek who name off => left; cases who <;> rfl
  | seekInvalid who => left; cases who <;> rfl
  | seekBlock who us => left; cases who <;> rfl
  | tell who => left; rfl
  | refresh who => left; cases who <;> rfl
  | reopen who ar => left; cases who <;> rfl
  | delete name => left; rfl

/-- a stopped (closed or crashed) read-only instance with a head file: until its restart no op changes it or the head
file, and nothing is delivered -/
theorem step_dead (s : Sys) (op : Op) (hw : s.w.hasHead = false) (hh : s.r.hasHead = true) (hc : s.r.readFile = .closed)
    (hop : isRRestart op = false) :
    (step patched s op).1.r = s.r ∧ (step patched s op).1.hd.head = s.hd.head ∧ delivStep s op = [] := by
  have hhd : (step patched s op).1.hd.head = s.hd.head := by
    rcases step_head_r s op hw with h | ⟨h, _⟩
    · exact h
    · exact absurd hc h
  refine ⟨?_, hhd, ?_⟩
  · cases op with
    | write recs us => rfl
    | delete name => rfl
    | tell who => rfl
    | read who b => cases who <;> first | rfl | (simp only [step, Sys.get, Sys.set, read_closed _ _ _ _ hc])
    | refresh who =>
      cases who with
      | w => rfl
      | r => simp only [step, Sys.get, Sys.set, refresh, hc]; split <;> rfl
    | seekStart who => cases who <;> first | rfl | (simp only [step, Sys.get, Sys.set, seekStart, hc])
    | seekEnd who => cases who <;> first | rfl | (simp only [step, Sys.get, Sys.set, seekEnd, hc])
    | seek who n o => cases who <;> first | rfl | (simp only [step, Sys.get, Sys.set, seekName, hc])
    | seekInvalid who => cases who <;> first | rfl | (simp only [step, Sys.get, Sys.set, seekInvalid, hc])
    | seekBlock who us => cases who <;> first | rfl | (simp only [step, Sys.get, Sys.set, seekBlock, hc])
    | reopen who ar => cases who <;> first | rfl | simp [isRRestart] at hop
    | close who => cases who <;> first | rfl | (simp only [step, Sys.get, Sys.set, close_closed _ _ hh hc])
    | save who c => cases who <;> first | rfl | (simp only [step, Sys.get, Sys.set, writeHead_closed _ _ _ hh hc])
  · cases op with
    | read who b =>
      cases who with
      | w => rfl
      | r => simp only [delivStep, read_closed _ _ _ _ hc, delivOf]
    | _ => rfl

theorem writeHead_open (l : Log) (h : HeadFS) (c : Option Nat) (hh : l.hasHead = true) (hc : l.readFile ≠ .closed) :
    writeHead l h c = (match c with
      | none => (l, headSteps (tellPos l) h 4, Res.ok)
      | some k => (kill l, headSteps (tellPos l) h (min k 4), Res.ok)) := by
  unfold writeHead
  simp only [hh, Bool.not_true, Bool.false_eq_true, ↓reduceIte]
  cases hrf : l.readFile with
  | closed => exact absurd hrf hc
  | none => rfl
  | opened a b => rfl

/-- `close()` and a crash inside `write_head`: the instance is stopped where it stood -/
theorem stop_spec (s : Sys) (op : Op) (hh : s.r.hasHead = true) (hop : op = .close .r ∨ ∃ k, op = .save .r (some k)) :
    (step patched s op).1.fs = s.fs ∧ (step patched s op).1.r.readFile = .closed ∧
      (step patched s op).1.r.logfiles = s.r.logfiles ∧ (step patched s op).1.r.readIdx = s.r.readIdx ∧
      delivStep s op = [] := by
  by_cases hc : s.r.readFile = .closed
  · rcases hop with rfl | ⟨k, rfl⟩
    · simp only [step, Sys.get, Sys.set, close_closed _ _ hh hc, delivStep, hc, and_self]
    · simp only [step, Sys.get, Sys.set, writeHead_closed _ _ _ hh hc, delivStep, hc, and_self]
  · rcases hop with rfl | ⟨k, rfl⟩
    · simp only [step, Sys.get, Sys.set, close, writeHead_open _ _ _ hh hc, delivStep, and_self]
    · simp only [step, Sys.get, Sys.set, writeHead_open _ _ _ hh hc, delivStep, kill, and_self]

/-- stopping does not move the position forward (the byte offset of the closed handle is forgotten) -/
theorem cur_stop_le {l l' : Log} (h1 : l'.logfiles = l.logfiles) (h2 : l'.readIdx = l.readIdx) (h3 : l'.readFile = .closed) :
    posLe (cur l') (cur l) := by
  unfold cur posLe
  rw [h1, h2, h3]
  cases l.logfiles[l.readIdx]? with
  | some lf => simp
  | none => cases l.logfiles.getLast? <;> simp

/-- the ops of a plain reader that set its position: stop, crash, restart -/
theorem cut_plain {op : Op} (hc : Cut op = true) (hp : plainB op = true) :
    op = .close .r ∨ (∃ k, op = .save .r (some k)) ∨ ∃ ar, op = .reopen .r ar := by
  cases op with
  | close who => cases who <;> simp [Cut] at hc ⊢
  | save who c =>
    cases who with
    | w => simp [Cut] at hc
    | r => cases c with
      | none => simp [Cut] at hc
      | some k => right; left; exact ⟨k, rfl⟩
  | reopen who ar => cases who <;> simp [Cut] at hc ⊢
  | seekStart who => cases who <;> simp [Cut, plainB] at hc hp
  | seekEnd who => cases who <;> simp [Cut, plainB] at hc hp
  | seek who n o => cases who <;> simp [Cut, plainB] at hc hp
  | seekInvalid who => cases who <;> simp [Cut, plainB] at hc hp
  | seekBlock who us => cases who <;> simp [Cut, plainB] at hc hp
  | write _ _ => simp [Cut] at hc
  | read _ _ => simp [Cut] at hc
  | tell _ => simp [Cut] at hc
  | refresh _ => simp [Cut] at hc
  | delete _ => simp [Cut] at hc

/-! ## the restart position -/

/-- how a restart position `c` relates to the saved position `hp` in the directory `fs`: it is not ahead of it, or it
is the beginning of an existing file and every file of the directory is older than the saved file or at / after `c` -/
def Rebase (fs : FS) (hp c : Nat × Nat) : Prop :=
  posLe c hp ∨ (c.2 = 0 ∧ (∃ f ∈ fs, f.name = c.1) ∧ ∀ g ∈ fs, g.linked = true → g.name < hp.1 ∨ c.1 ≤ g.name)

/-- nothing in the directory lies between the saved position and the restart position -/
theorem Rebase.not_live {fs : FS} {hp c : Nat × Nat} (h : Rebase fs hp c) {x : TRec} (h1 : posLe hp x.pos) (h2 : posLt x.pos c) :
    ¬ Live fs x := by
  rintro ⟨g, hg, hlk, hn, _⟩
  rcases h with h | ⟨_, _, h⟩
  · unfold posLe at *; unfold posLt at h2; omega
  · have := h g hg hlk
    unfold posLe at h1; unfold posLt at h2; unfold TRec.pos at *; simp only at *; omega

/-- … and no record written later does -/
theorem Rebase.not_future {fs : FS} {hp c : Nat × Nat} (h : Rebase fs hp c) {x : TRec} (h1 : posLe hp x.pos) (h2 : posLt x.pos c)
    (hf : FutureOf fs x) : False := by
  rcases h with h | ⟨h0, ⟨f, hf', hn⟩, _⟩
  · unfold posLe at *; unfold posLt at h2; omega
  · have := hf f hf'
    unfold posLe at this; unfold posLt at h2; omega

theorem rebase_of_list {fs : FS} {l : Log} {n off : Nat} (hs : Sorted (dirEntries fs)) (hL : l.logfiles = dirEntries fs)
    (hrf : l.readFile = .none) (hb : ∀ j lf, l.logfiles[j]? = some lf → j < l.readIdx → lf.ts < n) :
    Rebase fs (n, off) (cur l) := by
  cases hget : l.logfiles[l.readIdx]? with
  | some lf =>
    right
    have hc : cur l = (lf.ts, 0) := cur_not_opened hget (by intro i o h; rw [hrf] at h; cases h)
    rw [hc]
    refine ⟨rfl, ?_, ?_⟩
    · have : lf ∈ dirEntries fs := by rw [← hL]; exact List.mem_of_getElem? hget
      obtain ⟨f, hf, _, rfl⟩ := mem_dirEntries.mp this
      exact ⟨f, hf, rfl⟩
    · intro g hg hlk
      have hm : (⟨g.name, g.size⟩ : LF) ∈ l.logfiles := by rw [hL]; exact mem_dirEntries.mpr ⟨g, hg, hlk, rfl⟩
      obtain ⟨j, hj⟩ := List.mem_iff_getElem?.mp hm
      by_cases hji : j < l.readIdx
      · left; exact hb j _ hj hji
      · right
        by_cases e : j = l.readIdx
        · subst e; rw [hget] at hj; cases hj; exact Nat.le_refl _
        · have := sorted_getElem_lt (by rw [hL]; exact hs) hget hj (by omega)
          exact Nat.le_of_lt this
  | none =>
    left
    have hge : l.readIdx ≥ l.logfiles.length := List.getElem?_eq_none_iff.mp hget
    unfold cur posLe
    simp only [hget]
    cases hl : l.logfiles.getLast? with
    | none => simp only; omega
    | some last =>
      obtain ⟨j, hj⟩ := List.mem_iff_getElem?.mp (List.mem_of_getElem? (List.getLast?_eq_getElem? ▸ hl : l.logfiles[l.logfiles.length - 1]? = some last))
      have := hb j last hj (by have := (List.getElem?_eq_some_iff.mp hj).1; omega)
      simp only; omega

/-- restart without a head file on disk (no save has completed yet): at the first file, like `seek('start')` -/
theorem construct_head_none (l : Log) (ar : Bool) (fs : FS) (h : HeadFS) (hl : l.hasHead = true) (hr : l.rdonly = true)
    (hs : Sorted (dirEntries fs)) (hh : h.head = none) :
    (construct l ar fs h).1.logfiles = dirEntries fs ∧ (construct l ar fs h).1.readIdx = 0 ∧
      (construct l ar fs h).1.readFile = .none := by
  have hscan : scan fs = dirEntries fs := sortLF_of_sorted _ hs
  have e1 : (constructScan l ar fs).1 = { constructBase l ar fs with readIdx := (dirEntries fs).length } := by
    simp [constructScan, constructBase, hr, hscan]
  have e0 : construct l ar fs h = ((seekStart (constructScan l ar fs).1).1, fs, .ok) := by
    have : (constructScan l ar fs).1.hasHead = true := by rw [(constructScan_cfg _ _ _).hasHead]; exact hl
    have e2 : (constructScan l ar fs).2 = fs := by simp [constructScan, constructBase, hr]
    simp [construct, restoreHead, this, hh, e2]
  simp only [e0, e1]
  simp [seekStart, constructBase, hr, closeRead, hscan]

/-- **C14 (restart position, with alignment)**: a restart of the read-only instance from a head file that is absent or
holds a record boundary: the constructor succeeds, the new instance is live, stands at a record boundary, and between
the saved position and its position there is nothing that is in the directory (`Rebase`); if the saved file is still
in the directory it stands exactly at the saved position -/
theorem restart_spec {s : Sys} (g : GInv s) (hh : s.r.hasHead = true) (hal : HeadAligned s.fs s.hd) (ar : Bool) :
    (step patched s (.reopen .r ar)).1.fs = s.fs ∧ (step patched s (.reopen .r ar)).1.hd = s.hd ∧
      (step patched s (.reopen .r ar)).1.r.readFile ≠ .closed ∧
      (step patched s (.reopen .r ar)).1.r.logfiles = dirEntries s.fs ∧
      Aligned s.fs (step patched s (.reopen .r ar)).1.r ∧
      Rebase s.fs (headPos s.hd) (cur (step patched s (.reopen .r ar)).1.r) ∧
      (∀ e ∈ dirEntries s.fs, e.ts = (headPos s.hd).1 → cur (step patched s (.reopen .r ar)).1.r = headPos s.hd) := by
  have hrd := g.base.rRd
  have hsd := g.base.w.sortedD
  have hfs : (step patched s (.reopen .r ar)).1.fs = s.fs := construct_rdonly_fs s.r ar s.fs s.hd hrd
  have hr : (step patched s (.reopen .r ar)).1.r = (construct s.r ar s.fs s.hd).1 := rfl
  refine ⟨hfs, rfl, ?_⟩
  rw [hr]
  have start : ∀ l : Log, l.logfiles = dirEntries s.fs → l.readIdx = 0 → l.readFile = .none →
      l.readFile ≠ .closed ∧ l.logfiles = dirEntries s.fs ∧ Aligned s.fs l ∧ Rebase s.fs (0, 0) (cur l) ∧
        (∀ e ∈ dirEntries s.fs, e.ts = 0 → cur l = (0, 0)) := by
    intro l h1 h2 h3
    refine ⟨(by rw [h3]; intro h; cases h), h1, aligned_of_not_opened (by intro i o h; rw [h3] at h; cases h), ?_, ?_⟩
    · exact rebase_of_list hsd h1 h3 (by intro j lf _ hj; omega)
    · intro e he h0; have := dir_pos g e he; omega
  rcases hal with hnone | ⟨p, hp, hpa⟩
  · obtain ⟨h1, h2, h3⟩ := construct_head_none s.r ar s.fs s.hd hh hrd hsd hnone
    have : headPos s.hd = (0, 0) := by simp [headPos, hnone]
    rw [this]; exact start _ h1 h2 h3
  · have key := C14_no_skip s.r ar s.fs s.hd p hh hrd hsd hp
    simp only at key
    obtain ⟨h1, h2⟩ := key
    have hhp : headPos s.hd = posOf p := by simp [headPos, hp]
    rw [hhp]
    unfold PosAligned at hpa
    cases hn : p.name with
    | none =>
      rw [hn] at h2
      have : posOf p = (0, 0) := by simp [posOf, hn]
      rw [this]; exact start _ h1 h2.1 h2.2
    | some n =>
      rw [hn] at h2 hpa
      have hpos : posOf p = (n, p.off) := by simp [posOf, hn]
      rw [hpos]
      rcases h2 with ⟨ino, lf, hlk, hget, hts, hrf⟩ | ⟨hne, hrf, hb, _⟩
      · have hc : cur (construct s.r ar s.fs s.hd).1 = (n, p.off) := by rw [cur_valid hget, hrf, hts]
        refine ⟨(by rw [hrf]; intro h; cases h), h1, ?_, Or.inl (by rw [hc]; exact posLe_refl _), fun _ _ _ => hc⟩
        intro i o ho
        rw [hrf] at ho; cases ho
        obtain ⟨f0, hf0, _, hname0⟩ := lookup_some hlk
        obtain ⟨f, hf, hname, k, hk, hoff⟩ := hpa
        have : f0 = f := names_unique_mem g.inc (List.mem_of_getElem? hf0) hf (hname0.trans hname.symm)
        subst this
        exact ⟨k, by rw [inodeRecs_eq hf0]; exact hk, by rw [inodeRecs_eq hf0]; exact hoff⟩
      · refine ⟨(by rw [hrf]; intro h; cases h), h1, aligned_of_not_opened (by intro i o h; rw [hrf] at h; cases h), ?_, ?_⟩
        · exact rebase_of_list hsd h1 hrf hb
        · intro e he h0; exact absurd h0 (hne e he)

/-! ## the state invariant of a whole history -/

/-- **a position saved by `write_head` is a record boundary** (of a file that exists), when the reader stands at one -/
theorem tellPos_aligned {fs : FS} {l : Log} (h : RInv fs l) (al : Aligned fs l) (sz : SizesOk fs l.logfiles) :
    PosAligned fs (tellPos l) := by
  unfold tellPos PosAligned
  cases hget : l.logfiles[l.readIdx]? with
  | none =>
    cases hl : l.logfiles.getLast? with
    | none => simp
    | some lf =>
      simp only
      exact sz lf (List.mem_of_getLast? hl)
  | some lf =>
    simp only
    cases hrf : l.readFile with
    | opened ino off =>
      obtain ⟨f, lf', hf, hlf', hname⟩ := h.opened ino off hrf
      rw [hget] at hlf'; cases hlf'
      obtain ⟨k, hk, hoff⟩ := al ino off hrf
      rw [inodeRecs_eq hf] at hk hoff
      exact ⟨f, List.mem_of_getElem? hf, hname.symm, k, hk, hoff⟩
    | none =>
      obtain ⟨f, hf, hname⟩ := h.list.known lf (List.mem_of_getElem? hget)
      exact ⟨f, hf, hname, 0, Nat.zero_le _, by simp [recsSize]⟩
    | closed =>
      obtain ⟨f, hf, hname⟩ := h.list.known lf (List.mem_of_getElem? hget)
      exact ⟨f, hf, hname, 0, Nat.zero_le _, by simp [recsSize]⟩

theorem rstep_logfiles {fs : FS} {b : Bool} {l l1 : Log} (st : RStep fs b l l1) :
    l1.logfiles = l.logfiles ∨ l1.logfiles = scan fs := by
  induction st with
  | refl => exact Or.inl rfl
  | refresh _ _ => exact Or.inr (refreshLogfiles_logfiles _ _)
  | @finish l2 _ _ ih =>
    have : (readFinish l2 (startScan l2 fs b)).1.logfiles = l2.logfiles := by
      cases startScan l2 fs b <;> rfl
    rw [this]; exact ih
  | next _ _ ih => exact ih

/-- what is kept of the state along a whole history: the `C13` invariants, the reader at a record boundary, the listed
sizes and the head file at record boundaries -/
structure HCore (s : Sys) : Prop where
  g : GInv s
  hh : s.r.hasHead = true
  al : Aligned s.fs s.r
  sz : SizesOk s.fs s.r.logfiles
  hal : HeadAligned s.fs s.hd

theorem headPos_congr {h h' : HeadFS} (e : h'.head = h.head) : headPos h' = headPos h := by
  unfold headPos; rw [e]

theorem headAligned_congr {fs : FS} {h h' : HeadFS} (e : h'.head = h.head) (ha : HeadAligned fs h) : HeadAligned fs h' := by
  unfold HeadAligned at *; rw [e]; exact ha

theorem not_posLt {a b : Nat × Nat} (h : ¬ posLt a b) : posLe b a := by
  unfold posLt at h; unfold posLe; omega

/-- what one op of a whole history does -/
structure HStep (s : Sys) (op : Op) : Prop where
  core : HCore (step patched s op).1
  head : ∀ x : Nat × Nat, posLt x (headPos (step patched s op).1.hd) → posLt x (headPos s.hd) ∨ posLt x (cur s.r)
  cross : ∀ x : TRec, posLt x.pos (cur (step patched s op).1.r) → ¬ posLt x.pos (cur s.r) → ¬ posLt x.pos (headPos s.hd) →
    x ∈ delivStep s op ∨ (Cut op = false ∧ ¬ Live s.fs x) ∨ (∃ ar, op = .reopen .r ar ∧ ¬ Live s.fs x)
  below : ∀ y ∈ delivStep s op, posLt y.pos (cur (step patched s op).1.r)

theorem hstep_head {s : Sys} {op : Op} (h : HCore s) :
    HeadAligned (step patched s op).1.fs (step patched s op).1.hd ∧
    ∀ x : Nat × Nat, posLt x (headPos (step patched s op).1.hd) → posLt x (headPos s.hd) ∨ posLt x (cur s.r) := by
  have hold : Holds s.fs (step patched s op).1.fs := fun i f hi => step_inode h.g.base op i f hi
  rcases step_head_r s op h.g.base.w.cfg.2.2 with e | ⟨_, e⟩
  · exact ⟨headAligned_later hold (headAligned_congr e h.hal), fun x hx => Or.inl (by rw [headPos_congr e] at hx; exact hx)⟩
  · refine ⟨Or.inr ⟨_, e, posAligned_later hold (tellPos_aligned h.g.r h.al h.sz)⟩, fun x hx => Or.inr ?_⟩
    have h1 : headPos (step patched s op).1.hd = posOf (tellPos s.r) := by simp [headPos, e]
    rw [h1] at hx
    have := tellPos_le_cur s.r
    unfold posLe at this; unfold posLt at *; omega

theorem hcore_step {s : Sys} {op : Op} (h : HCore s) (hg : GoodOp op) (hp : plainB op = true) : HStep s op := by
  have g' := h.g.step op hg
  have hold : Holds s.fs (step patched s op).1.fs := fun i f hi => step_inode h.g.base op i f hi
  have hh' : (step patched s op).1.r.hasHead = true := (step_r_cfg patched s op).hasHead.trans h.hh
  obtain ⟨hal', hhead⟩ := hstep_head (op := op) h
  have hsd := h.g.base.w.sortedD
  have hscan : scan s.fs = dirEntries s.fs := sortLF_of_sorted _ hsd
  cases hc : Cut op with
  | false =>
    have cs := core_step (D := []) ⟨h.g, h.al, (by intro x hx; cases hx), (by intro x hx; cases hx), List.Pairwise.nil⟩ hg hc
    have sz' : SizesOk (step patched s op).1.fs (step patched s op).1.r.logfiles := by
      rcases step_r_noncut s op hc h.g.base.rRd with ⟨hr, _⟩ | ⟨b, rfl, hfs, hr⟩ | ⟨rfl, _, hfs, hr⟩
      · rw [hr]; exact sizesOk_later hold h.sz
      · rw [hfs, hr]
        rcases rstep_logfiles (read_rstep s.r s.fs b).1 with e | e <;> rw [e]
        · exact h.sz
        · rw [hscan]; exact sizesOk_dir
      · rw [hfs, hr, refreshLogfiles_logfiles, hscan]; exact sizesOk_dir
    refine ⟨⟨g', hh', cs.core.al, sz', hal'⟩, hhead, ?_, cs.below⟩
    intro x h1 h2 _
    rcases cs.cross x (not_posLt h2) h1 with h3 | h3
    · exact Or.inl h3
    · exact Or.inr (Or.inl ⟨hc, h3⟩)
  | true =>
    rcases cut_plain hc hp with hop | hop | ⟨ar, rfl⟩
    · obtain ⟨hfs, hcl, hlf, hidx, hd⟩ := stop_spec s op h.hh (by rcases hop with rfl | ⟨k, rfl⟩ <;> simp)
      refine ⟨⟨g', hh', aligned_of_not_opened (not_opened_of_closed hcl), by rw [hfs, hlf]; exact h.sz, hal'⟩, hhead, ?_, ?_⟩
      · intro x h1 h2 _
        have := cur_stop_le hlf hidx hcl
        exfalso; apply h2
        unfold posLe at this; unfold posLt at *; omega
      · rw [hd]; intro y hy; cases hy
    · obtain ⟨k, rfl⟩ := hop
      obtain ⟨hfs, hcl, hlf, hidx, hd⟩ := stop_spec s (.save .r (some k)) h.hh (Or.inr ⟨k, rfl⟩)
      refine ⟨⟨g', hh', aligned_of_not_opened (not_opened_of_closed hcl), by rw [hfs, hlf]; exact h.sz, hal'⟩, hhead, ?_, ?_⟩
      · intro x h1 h2 _
        have := cur_stop_le hlf hidx hcl
        exfalso; apply h2
        unfold posLe at this; unfold posLt at *; omega
      · rw [hd]; intro y hy; cases hy
    · obtain ⟨hfs, _, _, hlf, hal2, hreb, _⟩ := restart_spec h.g h.hh h.hal ar
      refine ⟨⟨g', hh', by rw [hfs]; exact hal2, by rw [hfs, hlf]; exact sizesOk_dir, hal'⟩, hhead, ?_, ?_⟩
      · intro x h1 _ h3
        exact Or.inr (Or.inr ⟨ar, rfl, hreb.not_live (not_posLt h3) h1⟩)
      · intro y hy; cases hy

/-! ## the whole-history invariant: nothing that is in the directory is left out -/

/-- at one op of the history that is not a stop / crash / restart the reader went past the position of `x`, and at that
moment `x` was not a record of a file in the directory -/
def SkippedAtN (s0 : Sys) (ops : List Op) (x : TRec) : Prop :=
  ∃ ops1 op ops2, ops = ops1 ++ op :: ops2 ∧ Cut op = false ∧
    posLe (cur (run patched s0 ops1).r) x.pos ∧ posLt x.pos (cur (step patched (run patched s0 ops1) op).1.r) ∧
    ¬ Live (run patched s0 ops1).fs x

/-- at one restart the position of `x` was at or after the saved position and before the position the new instance
started at, and at that moment `x` was not a record of a file in the directory -/
def RebasedAt (s0 : Sys) (ops : List Op) (x : TRec) : Prop :=
  ∃ ops1 ar ops2, ops = ops1 ++ .reopen .r ar :: ops2 ∧
    posLe (headPos (run patched s0 ops1).hd) x.pos ∧
    posLt x.pos (cur (step patched (run patched s0 ops1) (.reopen .r ar)).1.r) ∧
    ¬ Live (run patched s0 ops1).fs x

structure HInv (s0 : Sys) (ops : List Op) : Prop where
  core : HCore (run patched s0 ops)
  cov : ∀ x : TRec, posLe (cur s0.r) x.pos → posLe (headPos s0.hd) x.pos →
    (posLt x.pos (cur (run patched s0 ops).r) ∨ posLt x.pos (headPos (run patched s0 ops).hd) ∨
      ∃ y ∈ delivered s0 ops, tLt x y) →
    x ∈ delivered s0 ops ∨ SkippedAtN s0 ops x ∨ RebasedAt s0 ops x

theorem HInv.init {s0 : Sys} (h : HCore s0) : HInv s0 [] := by
  refine ⟨h, ?_⟩
  intro x h1 h2 h3
  exfalso
  simp only [OF.RollLog.run, delivered] at h3
  rcases h3 with h3 | h3 | ⟨y, hy, _⟩
  · unfold posLe at h1; unfold posLt at h3; omega
  · unfold posLe at h2; unfold posLt at h3; omega
  · cases hy

theorem HInv.snoc {s0 : Sys} {pre : List Op} {op : Op} (h : HInv s0 pre) (hg : GoodOp op) (hp : plainB op = true) :
    HInv s0 (pre ++ [op]) := by
  have hs := hcore_step h.core hg hp
  refine ⟨by rw [run_snoc]; exact hs.core, ?_⟩
  intro x hc0 hh0 hcase
  rw [run_snoc, delivered_snoc] at *
  have old : x ∈ delivered s0 pre ∨ SkippedAtN s0 pre x ∨ RebasedAt s0 pre x →
      x ∈ delivered s0 pre ++ delivStep (run patched s0 pre) op ∨ SkippedAtN s0 (pre ++ [op]) x ∨ RebasedAt s0 (pre ++ [op]) x := by
    rintro (h1 | ⟨seg1, op1, seg2, e, h2, h3, h4, h5⟩ | ⟨seg1, ar, seg2, e, h2, h3, h4⟩)
    · exact Or.inl (List.mem_append_left _ h1)
    · exact Or.inr (Or.inl ⟨seg1, op1, seg2 ++ [op], by simp [e], h2, h3, h4, h5⟩)
    · exact Or.inr (Or.inr ⟨seg1, ar, seg2 ++ [op], by simp [e], h2, h3, h4⟩)
  have hB : posLt x.pos (cur (run patched s0 pre).r) ∨ posLt x.pos (headPos (run patched s0 pre).hd) →
      x ∈ delivered s0 pre ++ delivStep (run patched s0 pre) op ∨ SkippedAtN s0 (pre ++ [op]) x ∨ RebasedAt s0 (pre ++ [op]) x := by
    rintro (h1 | h1)
    · exact old (h.cov x hc0 hh0 (Or.inl h1))
    · exact old (h.cov x hc0 hh0 (Or.inr (Or.inl h1)))
  have hA : posLt x.pos (cur (step patched (run patched s0 pre) op).1.r) →
      x ∈ delivered s0 pre ++ delivStep (run patched s0 pre) op ∨ SkippedAtN s0 (pre ++ [op]) x ∨ RebasedAt s0 (pre ++ [op]) x := by
    intro hlt'
    by_cases hlt : posLt x.pos (cur (run patched s0 pre).r)
    · exact hB (Or.inl hlt)
    · by_cases hlh : posLt x.pos (headPos (run patched s0 pre).hd)
      · exact hB (Or.inr hlh)
      · rcases hs.cross x hlt' hlt hlh with h1 | ⟨hc, h1⟩ | ⟨ar, rfl, h1⟩
        · exact Or.inl (List.mem_append_right _ h1)
        · exact Or.inr (Or.inl ⟨pre, op, [], rfl, hc, not_posLt hlt, hlt', h1⟩)
        · exact Or.inr (Or.inr ⟨pre, ar, [], rfl, not_posLt hlh, hlt', h1⟩)
  rcases hcase with h1 | h1 | ⟨y, hy, hxy⟩
  · exact hA h1
  · exact hB (Or.symm (hs.head x.pos h1))
  · rcases List.mem_append.mp hy with hy | hy
    · exact old (h.cov x hc0 hh0 (Or.inr (Or.inr ⟨y, hy, hxy⟩)))
    · apply hA
      have := hs.below y hy
      unfold tLt at hxy; unfold posLt at *; omega

theorem HInv.run {s0 : Sys} {ops : List Op} : ∀ {pre : List Op}, HInv s0 pre → NoWRestart ops → ReaderPlain ops →
    HInv s0 (pre ++ ops) := by
  induction ops with
  | nil => intro pre h _ _; simpa using h
  | cons op ops ih =>
    intro pre h hn hp
    have h1 := h.snoc (hn op (by simp)) (hp op (by simp))
    have := ih h1 (fun o ho => hn o (List.mem_cons_of_mem _ ho)) (fun o ho => hp o (List.mem_cons_of_mem _ ho))
    simpa using this

/-- a fresh pair of instances on the empty directory, no head file on disk yet -/
theorem hcore_boot (hd0 : HeadFS) (h0 : hd0.head = none) (fsz tot : Nat) (ra : Bool) :
    HCore (boot [] hd0 fsz tot true ra) := by
  have g := GInv.boot hd0 fsz tot true ra
  have hsd := g.base.w.sortedD
  have er : (boot [] hd0 fsz tot true ra).r =
      (construct (blankLog true true fsz tot) ra (construct (blankLog false false fsz tot) false [] hd0).2.1 hd0).1 := rfl
  have efs : (boot [] hd0 fsz tot true ra).fs = (construct (blankLog false false fsz tot) false [] hd0).2.1 := by
    show (construct (blankLog true true fsz tot) ra (construct (blankLog false false fsz tot) false [] hd0).2.1 hd0).2.1 = _
    exact construct_rdonly_fs _ _ _ _ rfl
  rw [efs] at hsd
  obtain ⟨h1, _, h3⟩ := construct_head_none (blankLog true true fsz tot) ra _ hd0 rfl rfl hsd h0
  refine ⟨g, (boot_r_cfg _ _ _ _ _ _).1, ?_, ?_, Or.inl h0⟩
  · rw [er]; exact aligned_of_not_opened (by intro i o h; rw [h3] at h; cases h)
  · rw [er, efs, h1]; exact sizesOk_dir

theorem hinv_reach (hd0 : HeadFS) (h0 : hd0.head = none) (fsz tot : Nat) (ra : Bool) (ops : List Op) (hn : NoWRestart ops)
    (hp : ReaderPlain ops) : HInv (boot [] hd0 fsz tot true ra) ops := by
  have := (HInv.init (hcore_boot hd0 h0 fsz tot ra)).run hn hp
  simpa using this

theorem boot_cur (hd0 : HeadFS) (fsz tot : Nat) (hh ra : Bool) : cur (boot [] hd0 fsz tot hh ra).r = (0, 0) := by
  have g := GInv.boot hd0 fsz tot hh ra
  have er : (boot [] hd0 fsz tot hh ra).r =
      (construct (blankLog true hh fsz tot) ra (construct (blankLog false false fsz tot) false [] hd0).2.1 hd0).1 := rfl
  have e1 : (construct (blankLog false false fsz tot) false [] hd0).2.1 = [] := by
    simp [construct, constructScan, constructBase, blankLog, prune, scan, dirEntries, sortLF]
  rw [er, e1]
  have hl : (construct (blankLog true hh fsz tot) ra [] hd0).1.logfiles = [] := by
    have e : (constructScan (blankLog true hh fsz tot) ra []).1.logfiles = [] := by
      simp [constructScan, constructBase, blankLog, scan, dirEntries, sortLF]
    unfold construct restoreHead
    simp only
    split
    · exact e
    · split
      · exact (seekStart_sameW _).logfiles.trans e
      · exact (seekPos_sameW _ _ _).logfiles.trans e
      · exact e
  unfold cur
  rw [hl]; rfl

/-! ## "not in the directory" means: the file had been unlinked -/

/-- at one restart the position of `x` was at or after the saved position and before the position the new instance
started at (the restart re-based past it), and at that moment the file of `x` existed and had been unlinked (pruned by
the writer or deleted from outside) -/
def RebasedGone (s0 : Sys) (ops : List Op) (x : TRec) : Prop :=
  ∃ ops1 ar ops2, ops = ops1 ++ .reopen .r ar :: ops2 ∧
    posLe (headPos (run patched s0 ops1).hd) x.pos ∧
    posLt x.pos (cur (step patched (run patched s0 ops1) (.reopen .r ar)).1.r) ∧
    ∃ f ∈ (run patched s0 ops1).fs, f.name = x.name ∧ f.linked = false

theorem gone_of_not_live {fs : FS} {x : TRec} (hx : x ∈ written fs) (h : ¬ Live fs x) : ∃ f ∈ fs, f.name = x.name ∧ f.linked = false := by
  obtain ⟨f, hf, hname, k, hk, ho⟩ := mem_written.mp hx
  refine ⟨f, hf, hname, ?_⟩
  cases hlk : f.linked with
  | false => rfl
  | true => exact absurd ⟨f, hf, hlk, hname, k, hk, ho⟩ h

theorem ReaderPlain.split {a b : List Op} (h : ReaderPlain (a ++ b)) : ReaderPlain a ∧ ReaderPlain b :=
  ⟨fun op ho => h op (List.mem_append_left _ ho), fun op ho => h op (List.mem_append_right _ ho)⟩

theorem skippedN_gone {s0 : Sys} {ops : List Op} (h0 : HCore s0) (hn : NoWRestart ops) (hp : ReaderPlain ops) {x : TRec}
    (hx : x ∈ written (run patched s0 ops).fs) (h : SkippedAtN s0 ops x) : SkippedGone s0 ops x := by
  obtain ⟨ops1, op, ops2, rfl, hc, h1, h2, h3⟩ := h
  refine ⟨ops1, op, ops2, rfl, h1, h2, ?_⟩
  have inv : HInv s0 ops1 := by simpa using (HInv.init h0).run hn.split.1 hp.split.1
  have hn2 := hn.split.2
  rw [run_append] at hx
  by_cases hx0 : x ∈ written (run patched s0 ops1).fs
  · exact gone_of_not_live hx0 h3
  · have core : Core (run patched s0 ops1) [] :=
      ⟨inv.core.g, inv.core.al, (by intro y hy; cases hy), (by intro y hy; cases hy), List.Pairwise.nil⟩
    exact core_cross_future core (hn2 op (by simp)) hc (future_above inv.core.g hn2 hx hx0) h1 h2

theorem rebased_gone {s0 : Sys} {ops : List Op} (h0 : HCore s0) (hn : NoWRestart ops) (hp : ReaderPlain ops) {x : TRec}
    (hx : x ∈ written (run patched s0 ops).fs) (h : RebasedAt s0 ops x) : RebasedGone s0 ops x := by
  obtain ⟨ops1, ar, ops2, rfl, h1, h2, h3⟩ := h
  refine ⟨ops1, ar, ops2, rfl, h1, h2, ?_⟩
  have inv : HInv s0 ops1 := by simpa using (HInv.init h0).run hn.split.1 hp.split.1
  have hn2 := hn.split.2
  rw [run_append] at hx
  by_cases hx0 : x ∈ written (run patched s0 ops1).fs
  · exact gone_of_not_live hx0 h3
  · exfalso
    obtain ⟨_, _, _, _, _, hreb, _⟩ := restart_spec inv.core.g inv.core.hh inv.core.hal ar
    exact hreb.not_future h1 h2 (future_above inv.core.g hn2 hx hx0)

/-- **C14 (no skip across crashes and restarts)**.  Any history from the empty directory (no head file on disk yet)
without a writer restart, of a read-only instance with a head file that does not seek explicitly (`ReaderPlain`): reads,
block reads, refreshes, tells, saves with a crash after any number of the four file-system steps of `write_head`,
closes, restarts from the head file - any number of them, interleaved with writes (any positive timestamps), prunes and
external deletions.  `D` = everything the incarnations of the reader were handed, in order.  Every record ever written
that lies before the final position of the last incarnation (or before the position in the head file, or before some
delivered record) and was handed to NO incarnation was passed while its file was gone: either a `read` / `refresh` of
some incarnation moved over it (`SkippedGone`) or a restart re-based past it, from the saved position to the first file
still in the directory (`RebasedGone`) - and at that moment its file existed and had been unlinked (pruned or deleted
from outside).  A record in a file that is in the directory is never skipped, whatever crashes. -/
theorem C14_no_skip_across_restarts (hd0 : HeadFS) (h0 : hd0.head = none) (fsz tot : Nat) (ra : Bool) (ops : List Op)
    (hn : NoWRestart ops) (hp : ReaderPlain ops) :
    let s0 := boot [] hd0 fsz tot true ra
    let sN := run patched s0 ops
    let D := delivered s0 ops
    ∀ x ∈ written sN.fs, x ∉ D →
      (posLt x.pos (cur sN.r) ∨ posLt x.pos (headPos sN.hd) ∨ ∃ y ∈ D, tLt x y) →
      SkippedGone s0 ops x ∨ RebasedGone s0 ops x := by
  intro s0 sN D x hx hxD hcase
  have hb := hcore_boot hd0 h0 fsz tot ra
  have inv := hinv_reach hd0 h0 fsz tot ra ops hn hp
  have c0 : posLe (cur s0.r) x.pos := by
    show posLe (cur (boot [] hd0 fsz tot true ra).r) x.pos
    rw [boot_cur]; unfold posLe; simp only; omega
  have c1 : posLe (headPos s0.hd) x.pos := by
    have : headPos s0.hd = (0, 0) := by
      show headPos hd0 = _
      simp [headPos, h0]
    rw [this]; unfold posLe; simp only; omega
  rcases inv.cov x c0 c1 hcase with h1 | h1 | h1
  · exact absurd h1 hxD
  · exact Or.inl (skippedN_gone hb hn hp hx h1)
  · exact Or.inr (rebased_gone hb hn hp hx h1)

/-! ## one incarnation: order, and nothing from before its start position -/

theorem Holds.trans {a b c : FS} (h1 : Holds a b) (h2 : Holds b c) : Holds a c := by
  intro i f hi
  obtain ⟨f', hf', l1⟩ := h1 i f hi
  obtain ⟨f'', hf'', l2⟩ := h2 i f' hf'
  exact ⟨f'', hf'', l1.trans l2⟩

theorem run_holds {s : Sys} (h : SInv s) (ops : List Op) : Holds s.fs (run patched s ops).fs := by
  induction ops generalizing s with
  | nil => exact Holds.refl _
  | cons op ops ih => exact Holds.trans (fun i f hi => step_inode h op i f hi) (ih (h.step op))

/-- every position below `c0` in a file of `F` is behind the reader -/
def Low (F : FS) (c0 : Nat × Nat) (s : Sys) : Prop :=
  ∀ p : Nat × Nat, posLt p c0 → (∃ g ∈ F, g.name = p.1) → Behind s.fs s.r p

theorem low_step {F : FS} {c0 : Nat × Nat} {s : Sys} {op : Op} {D : List TRec} (h : Core s D) (hF : Holds F s.fs)
    (low : Low F c0 s) (hg : GoodOp op) (hc : Cut op = false) :
    Low F c0 (step patched s op).1 ∧
      ∀ y ∈ delivStep s op, ∀ p : Nat × Nat, posLt p c0 → (∃ g ∈ F, g.name = p.1) → posLt p y.pos := by
  have g' := h.g.step op hg
  have hsd := h.g.base.w.sortedD
  have hold : Holds s.fs (step patched s op).1.fs := fun i f hi => step_inode h.g.base op i f hi
  have hname : ∀ p : Nat × Nat, (∃ g ∈ F, g.name = p.1) → ∃ g ∈ s.fs, g.name = p.1 := by
    rintro p ⟨g, hg', hn⟩
    obtain ⟨i, hi⟩ := List.mem_iff_getElem?.mp hg'
    obtain ⟨g2, hg2, lat⟩ := hF i g hi
    exact ⟨g2, List.mem_of_getElem? hg2, lat.name.trans hn⟩
  rcases step_r_noncut s op hc h.g.base.rRd with ⟨hr, hd⟩ | ⟨b, rfl, hfs, hr⟩ | ⟨rfl, hd, hfs, hr⟩
  · refine ⟨?_, by rw [hd]; intro y hy; cases hy⟩
    intro p hp hpF
    rw [hr]
    exact behind_later hold g'.inc (hname p hpF) (low p hp hpF)
  · have st := (read_rstep s.r s.fs b).1
    refine ⟨?_, ?_⟩
    · intro p hp hpF
      rw [hfs, hr]
      exact st.adv hsd h.g.r p (low p hp hpF)
    · intro y hy p hp hpF
      by_cases hres : ∃ d, (read patched s.r s.fs b).2 = .recs d
      · obtain ⟨d, hres⟩ := hres
        obtain ⟨f, k0, t, hf, hk, hrun, hne, htgt, hcur, hidx, hbelow⟩ := read_delivery hsd h.g.r h.al hres
        have hd : delivStep s (.read .r b) = tagOff f.name (recsSize (f.recs.take k0)) d := by
          show delivOf _ _ = _
          rw [hres]; simp only [delivOf]; rw [htgt]
        rw [hd] at hy
        obtain ⟨h1, h2, _⟩ := tagOff_pos_lt hy
        have := hbelow p (low p hp hpF)
        unfold posLt TRec.pos at *; simp only at *; omega
      · have hd : delivStep s (.read .r b) = [] := delivOf_nonrecs _ (fun d hd => hres ⟨d, hd⟩)
        rw [hd] at hy; cases hy
  · refine ⟨?_, by rw [hd]; intro y hy; cases hy⟩
    intro p hp hpF
    rw [hfs, hr]
    exact adv_refresh hsd p (low p hp hpF)

theorem cur_le_future {fs : FS} {l : Log} {y : TRec} (h : RInv fs l) (hf : FutureOf fs y) (hn : ¬ ∃ g ∈ fs, g.name = y.pos.1) :
    posLe (cur l) y.pos := by
  have key : ∀ lf ∈ l.logfiles, lf.ts < y.pos.1 := by
    intro lf hlf
    obtain ⟨f, hf', hname⟩ := h.list.known lf hlf
    have h1 := hf f hf'
    have h2 : f.name ≠ y.pos.1 := fun e => hn ⟨f, hf', e⟩
    unfold posLe at h1; simp only at h1; omega
  unfold cur posLe
  cases hget : l.logfiles[l.readIdx]? with
  | some lf => have := key lf (List.mem_of_getElem? hget); simp only; omega
  | none =>
    cases hl : l.logfiles.getLast? with
    | some lf => have := key lf (List.mem_of_getLast? hl); simp only; omega
    | none => simp only; omega

structure LowInv (s0 : Sys) (seg : List Op) : Prop where
  si : SegInv s0 seg
  hold : Holds s0.fs (run patched s0 seg).fs
  low : Low s0.fs (cur s0.r) (run patched s0 seg)
  above : ∀ y ∈ delivered s0 seg, ∀ p : Nat × Nat, posLt p (cur s0.r) → (∃ g ∈ s0.fs, g.name = p.1) → posLt p y.pos

theorem LowInv.snoc {s0 : Sys} {pre : List Op} {op : Op} (h : LowInv s0 pre) (hg : GoodOp op) (hc : Cut op = false) :
    LowInv s0 (pre ++ [op]) := by
  obtain ⟨l1, l2⟩ := low_step h.si.core h.hold h.low hg hc
  refine ⟨h.si.snoc hg hc, ?_, ?_, ?_⟩
  · rw [run_snoc]; exact h.hold.trans (fun i f hi => step_inode h.si.core.g.base op i f hi)
  · rw [run_snoc]; exact l1
  · rw [delivered_snoc]
    intro y hy
    rcases List.mem_append.mp hy with hy | hy
    · exact h.above y hy
    · exact l2 y hy

theorem LowInv.run {s0 : Sys} {seg : List Op} : ∀ {pre : List Op}, LowInv s0 pre → NoWRestart seg → NoCut seg →
    LowInv s0 (pre ++ seg) := by
  induction seg with
  | nil => intro pre h _ _; simpa using h
  | cons op seg ih =>
    intro pre h hn hc
    have h1 := h.snoc (hn op (by simp)) (hc op (by simp))
    have := ih h1 (fun o ho => hn o (List.mem_cons_of_mem _ ho)) (fun o ho => hc o (List.mem_cons_of_mem _ ho))
    simpa using this

/-- **a segment delivers nothing from before its start position** -/
theorem seg_above {s0 : Sys} {seg : List Op} (g : GInv s0) (al : Aligned s0.fs s0.r) (hn : NoWRestart seg) (hcut : NoCut seg) :
    ∀ y ∈ delivered s0 seg, posLe (cur s0.r) y.pos := by
  have init : LowInv s0 [] :=
    ⟨SegInv.init g al, Holds.refl _, fun p hp _ => Or.inl hp, by intro y hy; cases hy⟩
  have inv : LowInv s0 seg := by simpa using init.run hn hcut
  intro y hy
  by_cases hF : ∃ g ∈ s0.fs, g.name = y.pos.1
  · apply not_posLt
    intro hlt
    have := inv.above y hy y.pos hlt hF
    unfold posLt at this; omega
  · have hw := inv.si.core.mem y hy
    have hnw : y ∉ written s0.fs := fun hm => hF (mem_written_name hm)
    exact cur_le_future g.r (future_above g hn hw hnw) hF

theorem cut_split (inc : List Op) :
    ∃ seg rest, inc = seg ++ rest ∧ NoCut seg ∧ (rest = [] ∨ ∃ op r, rest = op :: r ∧ Cut op = true) := by
  induction inc with
  | nil => exact ⟨[], [], rfl, (by intro o ho; cases ho), Or.inl rfl⟩
  | cons op inc ih =>
    by_cases hc : Cut op = true
    · exact ⟨[], op :: inc, rfl, (by intro o ho; cases ho), Or.inr ⟨op, inc, rfl, hc⟩⟩
    · obtain ⟨seg, rest, e, h1, h2⟩ := ih
      refine ⟨op :: seg, rest, by rw [e]; rfl, ?_, h2⟩
      intro o ho
      rcases List.mem_cons.mp ho with rfl | ho
      · simpa using hc
      · exact h1 o ho

/-- a stopped instance stays as it is, the head file too, until the restart -/
theorem run_dead {ops : List Op} : ∀ {s : Sys}, GInv s → s.r.hasHead = true → s.r.readFile = .closed → NoWRestart ops →
    NoRRestart ops →
    (run patched s ops).r = s.r ∧ (run patched s ops).hd.head = s.hd.head ∧ delivered s ops = [] := by
  induction ops with
  | nil => intro s _ _ _ _ _; exact ⟨rfl, rfl, rfl⟩
  | cons op ops ih =>
    intro s g hh hc hn hr
    obtain ⟨h1, h2, h3⟩ := step_dead s op g.base.w.cfg.2.2 hh hc (hr op (by simp))
    obtain ⟨i1, i2, i3⟩ := ih (g.step op (hn op (by simp))) (by rw [h1]; exact hh) (by rw [h1]; exact hc)
      (fun o ho => hn o (List.mem_cons_of_mem _ ho)) (fun o ho => hr o (List.mem_cons_of_mem _ ho))
    refine ⟨?_, ?_, ?_⟩
    · simp only [OF.RollLog.run]; rw [i1, h1]
    · simp only [OF.RollLog.run]; rw [i2, h2]
    · simp only [delivered]; rw [i3, h3]; rfl

theorem NoRRestart.split {a b : List Op} (h : NoRRestart (a ++ b)) : NoRRestart a ∧ NoRRestart b :=
  ⟨fun op ho => h op (List.mem_append_left _ ho), fun op ho => h op (List.mem_append_right _ ho)⟩

/-- **one incarnation** (the ops between two restarts of the read-only instance, from a state of the whole-history
invariant): it consists of a live part `seg` without position changes - to which `C13_reader_stream`'s machinery
applies - and, after a `close()` or a crash, a part in which nothing is delivered.  What it delivered is strictly
increasing in (file, offset) - so in writing order and without repetition -, consists of written records, and contains
nothing from before the position it started at. -/
theorem incarnation_stream {s : Sys} {inc : List Op} (h : HCore s) (hn : NoWRestart inc) (hp : ReaderPlain inc)
    (hr : NoRRestart inc) :
    (delivered s inc).Pairwise tLt ∧ (∀ y ∈ delivered s inc, y ∈ written (run patched s inc).fs) ∧
      (∀ y ∈ delivered s inc, posLe (cur s.r) y.pos) ∧
      ∃ seg rest, inc = seg ++ rest ∧ NoCut seg ∧ delivered s inc = delivered s seg := by
  obtain ⟨seg, rest, rfl, hcut, hrest⟩ := cut_split inc
  have si : SegInv s seg := by simpa using (SegInv.init h.g h.al).run hn.split.1 hcut
  have g1 := si.core.g
  have hh1 : (run patched s seg).r.hasHead = true := (run_r_cfg patched s seg).hasHead.trans h.hh
  have hdead : delivered (run patched s seg) rest = [] := by
    rcases hrest with rfl | ⟨op, r, rfl, hc⟩
    · rfl
    · have hpo : plainB op = true := hp.split.2 op (by simp)
      have hro : isRRestart op = false := hr.split.2 op (by simp)
      have hstop : op = .close .r ∨ ∃ k, op = .save .r (some k) := by
        rcases cut_plain hc hpo with e | e | ⟨ar, rfl⟩
        · exact Or.inl e
        · exact Or.inr e
        · simp [isRRestart] at hro
      obtain ⟨_, hcl, _, _, hd⟩ := stop_spec (run patched s seg) op hh1 hstop
      have hgo := hn.split.2 op (by simp)
      have := run_dead (ops := r) (g1.step op hgo) ((step_r_cfg patched _ op).hasHead.trans hh1) hcl
        (fun o ho => hn.split.2 o (List.mem_cons_of_mem _ ho)) (fun o ho => hr.split.2 o (List.mem_cons_of_mem _ ho))
      simp only [delivered]; rw [hd, this.2.2]; rfl
  have hD : delivered s (seg ++ rest) = delivered s seg := by rw [delivered_append, hdead, List.append_nil]
  rw [hD]
  refine ⟨si.core.sorted, ?_, seg_above h.g h.al hn.split.1 hcut, seg, rest, rfl, hcut, rfl⟩
  intro y hy
  rw [run_append]
  exact written_later (run_holds g1.base rest) (si.core.mem y hy)

/-! ## the head file at a restart: `C14_save_old_or_new` along runs -/

/-- what a COMPLETED save of the live read-only instance (`write_head()` that returned, or `close()`) makes of the head
file content `acc`; every other op leaves it -/
def accStep (acc : Option HC) (s : Sys) (op : Op) : Option HC :=
  match op with
  | .save .r none | .close .r => if s.r.readFile = .closed then acc else some (.full (tellPos s.r))
  | _ => acc

/-- the head file content the completed saves along `ops` leave, starting from `acc`: the position of the last
completed save, or `acc` if none completed -/
def completedHead (acc : Option HC) (s : Sys) : List Op → Option HC
  | [] => acc
  | op :: ops => completedHead (accStep acc s op) (step patched s op).1 ops

/-- every op but a crash inside `write_head` of the live instance does to the head file what `accStep` says -/
theorem head_step_acc (s : Sys) (op : Op) (hw : s.w.hasHead = false) (hh : s.r.hasHead = true)
    (hop : ¬ ∃ k, op = .save .r (some k) ∧ s.r.readFile ≠ .closed) :
    (step patched s op).1.hd.head = accStep s.hd.head s op := by
  have hwr : ∀ c, (writeHead s.w s.hd c).2.1.head = s.hd.head := fun c => by rw [writeHead_nohead _ _ _ hw]
  cases op with
  | save who c =>
    cases who with
    | w => exact hwr c
    | r =>
      by_cases hc : s.r.readFile = .closed
      · have : (step patched s (.save .r c)).1.hd.head = s.hd.head := by
          simp only [step, Sys.get, Sys.set, writeHead_closed _ _ _ hh hc]
        rw [this]
        cases c <;> simp [accStep, hc]
      · cases c with
        | some k => exact absurd ⟨k, rfl, hc⟩ hop
        | none =>
          have := C14_save_old_or_new s.r s.hd hh hc none
          simp only at this
          simp only [accStep, hc, ↓reduceIte]
          exact this
  | close who =>
    cases who with
    | w =>
      show (close s.w s.hd).2.1.head = _
      have := hwr none
      unfold close
      simp only
      split <;> simp only [this, accStep]
    | r =>
      by_cases hc : s.r.readFile = .closed
      · simp only [step, Sys.get, Sys.set, close_closed _ _ hh hc, accStep, hc, ↓reduceIte]
      · have := C14_save_old_or_new s.r s.hd hh hc none
        simp only at this
        simp only [accStep, hc, ↓reduceIte]
        show (close s.r s.hd).2.1.head = _
        unfold close
        simp only
        split <;> exact this
  | write recs us => rfl
  | read who block => cases who <;> rfl
  | seekStart who => cases who <;> rfl
  | seekEnd who => cases who <;> rfl
  | seek who name off => cases who <;> rfl
  | seekInvalid who => cases who <;> rfl
  | seekBlock who us => cases who <;> rfl
  | tell who => rfl
  | refresh who => cases who <;> rfl
  | reopen who ar => cases who <;> rfl
  | delete name => rfl

/-- **C14 (old or new, along a run)**: after the ops of one incarnation (no restart of the read-only instance in
between) the head file holds the position of the incarnation's last completed save - the content it had at the start
if none completed - or the position `tell()` gave to the save during which the instance crashed (that save had reached
the rename: a crash after fewer than four steps leaves the first alternative) -/
theorem head_of_incarnation {inc : List Op} : ∀ {s : Sys}, GInv s → s.r.hasHead = true → NoWRestart inc → NoRRestart inc →
    (run patched s inc).hd.head = completedHead s.hd.head s inc ∨
    ∃ inc1 k inc2, inc = inc1 ++ .save .r (some k) :: inc2 ∧ 4 ≤ k ∧ (run patched s inc1).r.readFile ≠ .closed ∧
      (run patched s inc).hd.head = some (.full (tellPos (run patched s inc1).r)) := by
  induction inc with
  | nil => intro s _ _ _ _; exact Or.inl rfl
  | cons op rest ih =>
    intro s g hh hn hr
    have g' := g.step op (hn op (by simp))
    have hh' : (step patched s op).1.r.hasHead = true := (step_r_cfg patched s op).hasHead.trans hh
    have hn' : NoWRestart rest := fun o ho => hn o (List.mem_cons_of_mem _ ho)
    have hr' : NoRRestart rest := fun o ho => hr o (List.mem_cons_of_mem _ ho)
    have IH := ih g' hh' hn' hr'
    by_cases hcr : ∃ k, op = .save .r (some k) ∧ s.r.readFile ≠ .closed
    · obtain ⟨k, rfl, halive⟩ := hcr
      obtain ⟨_, hcl, _, _, _⟩ := stop_spec s (.save .r (some k)) hh (Or.inr ⟨k, rfl⟩)
      have dead := run_dead (ops := rest) g' hh' hcl hn' hr'
      have hsave : (step patched s (.save .r (some k))).1.hd.head = if k ≥ 4 then some (.full (tellPos s.r)) else s.hd.head :=
        C14_save_old_or_new s.r s.hd hh halive (some k)
      by_cases hk : k ≥ 4
      · right
        refine ⟨[], k, rest, rfl, hk, halive, ?_⟩
        simp only [OF.RollLog.run]
        rw [dead.2.1, hsave]; simp [hk]
      · left
        rcases IH with h1 | ⟨inc1, k1, inc2, e, _, hal1, _⟩
        · simp only [OF.RollLog.run, completedHead, accStep]
          rw [h1, hsave]; simp [hk]
        · exfalso
          subst e
          have d1 := run_dead (ops := inc1) g' hh' hcl hn'.split.1 hr'.split.1
          rw [d1.1] at hal1
          exact hal1 hcl
    · have hstep := head_step_acc s op g.base.w.cfg.2.2 hh hcr
      rcases IH with h1 | ⟨inc1, k1, inc2, e, hk1, hal1, h1⟩
      · left
        simp only [OF.RollLog.run, completedHead]
        rw [h1, hstep]
      · right
        exact ⟨op :: inc1, k1, inc2, by rw [e]; rfl, hk1, hal1, h1⟩

/-! ## The whole-history theorem -/

theorem Rebase.not_passed {fs : FS} {hp c : Nat × Nat} (h : Rebase fs hp c) : ¬ Passed fs hp c := by
  rintro ⟨f, hf, hlk, k, hk, h1, h2⟩
  exact h.not_live (x := ⟨f.name, recsSize (f.recs.take k), f.recs[k]⟩) h1 h2
    ⟨f, hf, hlk, rfl, k, List.getElem?_eq_getElem hk, rfl⟩

theorem headOk_of_aligned {fs : FS} {h : HeadFS} (ha : HeadAligned fs h) : HeadOk h := by
  rcases ha with e | ⟨p, e, _⟩
  · exact Or.inl e
  · exact Or.inr ⟨p, e⟩

/-- clause (1) for one restart, from the state invariant -/
theorem restart_clause {sa : Sys} {inc : List Op} (ha : HCore sa) (hn : NoWRestart inc) (hp : ReaderPlain inc)
    (hr : NoRRestart inc) (ar : Bool) :
    let sb := run patched sa inc
    let sc := (step patched sb (.reopen .r ar)).1
    (sb.hd.head = completedHead sa.hd.head sa inc ∨
      ∃ inc1 k inc2, inc = inc1 ++ .save .r (some k) :: inc2 ∧ 4 ≤ k ∧ (run patched sa inc1).r.readFile ≠ .closed ∧
        sb.hd.head = some (.full (tellPos (run patched sa inc1).r))) ∧
    (step patched sb (.reopen .r ar)).2 = .ok ∧ sc.r.readFile ≠ .closed ∧ sc.fs = sb.fs ∧ sc.hd = sb.hd ∧
    Aligned sc.fs sc.r ∧ Rebase sb.fs (headPos sb.hd) (cur sc.r) ∧ ¬ Passed sb.fs (headPos sb.hd) (cur sc.r) ∧
    (∀ e ∈ dirEntries sb.fs, e.ts = (headPos sb.hd).1 → cur sc.r = headPos sb.hd) := by
  intro sb sc
  have hb : HCore sb := by
    have := (HInv.init ha).run hn hp
    simpa using this.core
  obtain ⟨r1, r2, r3, _, r5, r6, r7⟩ := restart_spec hb.g hb.hh hb.hal ar
  refine ⟨head_of_incarnation ha.g ha.hh hn hr, ?_, r3, r1, r2, by rw [r1]; exact r5, r6, r6.not_passed, r7⟩
  exact C14_restart_ok _ _ _ _ (headOk_of_aligned hb.hal)

/-- **C14 (whole history across crashes and restarts)**.  `ops`: any history from the empty directory (no head file on
disk yet), without a writer restart (`NoWRestart`), of a read-only instance WITH a head file that does not seek
explicitly (`ReaderPlain`): reads, block reads, refreshes, tells, saves (`write_head`) with a crash after any number of
its four file-system steps, closes and restarts from the head file - any number of each -, interleaved with writes (any
positive timestamps), prunes and external deletions.  Cut `ops` at the restarts of the read-only instance into
incarnations.  `written`: everything ever written, in writing order; `D`: everything handed to the reader.

1. **every restart** (`ops = pre ++ inc ++ reopen :: post`, `inc` the incarnation before it): the head file holds the
   position of `inc`'s last COMPLETED save (`completedHead`; what it held when `inc` started, if none completed), or the
   position `tell()` gave to the save inside which `inc` crashed - never anything else, never a partial file; the
   constructor succeeds; the new incarnation is live and stands at a record boundary; its start position `cur sc.r` is
   exactly the saved position if the saved file is still in the directory, and in every case no record of a file in the
   directory lies between the saved position and the start position (`Rebase`, `¬ Passed`): the new incarnation is never
   ahead of what was saved (and `tellPos_le_cur`: what was saved was never ahead of the incarnation that saved it).
2. **no skip**: every record ever written that lies before the final position (or before the saved position, or
   before some delivered record) and was handed to no incarnation was passed while its file was gone: by a `read` /
   `refresh` (`SkippedGone`) or by the re-basing of a restart (`RebasedGone`), and its file had been unlinked then.
3. **every incarnation** (`ops = pre ++ inc ++ post`, no restart of the reader in `inc`; `D = … ++ Dk ++ …`): what it was
   handed (`Dk`) is a subsequence of `written`, strictly increasing in (file, offset), without repetition, and contains
   nothing from before the position the incarnation started at.  Hence a record can be handed to two incarnations only
   if it lies at or after the start position of the later one, i.e. after the position saved before the crash. -/
theorem C14_stream_across_restarts (hd0 : HeadFS) (h0 : hd0.head = none) (fsz tot : Nat) (ra : Bool) (ops : List Op)
    (hn : NoWRestart ops) (hp : ReaderPlain ops) :
    let s0 := boot [] hd0 fsz tot true ra
    let sN := run patched s0 ops
    let D := delivered s0 ops
    (∀ pre inc ar post, ops = pre ++ inc ++ .reopen .r ar :: post → NoRRestart inc →
      let sa := run patched s0 pre
      let sb := run patched sa inc
      let sc := (step patched sb (.reopen .r ar)).1
      (sb.hd.head = completedHead sa.hd.head sa inc ∨
        ∃ inc1 k inc2, inc = inc1 ++ .save .r (some k) :: inc2 ∧ 4 ≤ k ∧ (run patched sa inc1).r.readFile ≠ .closed ∧
          sb.hd.head = some (.full (tellPos (run patched sa inc1).r))) ∧
      (step patched sb (.reopen .r ar)).2 = .ok ∧ sc.r.readFile ≠ .closed ∧ sc.fs = sb.fs ∧ sc.hd = sb.hd ∧
      Aligned sc.fs sc.r ∧ Rebase sb.fs (headPos sb.hd) (cur sc.r) ∧ ¬ Passed sb.fs (headPos sb.hd) (cur sc.r) ∧
      (∀ e ∈ dirEntries sb.fs, e.ts = (headPos sb.hd).1 → cur sc.r = headPos sb.hd)) ∧
    (∀ x ∈ written sN.fs, x ∉ D →
      (posLt x.pos (cur sN.r) ∨ posLt x.pos (headPos sN.hd) ∨ ∃ y ∈ D, tLt x y) →
      SkippedGone s0 ops x ∨ RebasedGone s0 ops x) ∧
    (∀ pre inc post, ops = pre ++ inc ++ post → NoRRestart inc →
      let sa := run patched s0 pre
      let Dk := delivered sa inc
      D = delivered s0 pre ++ Dk ++ delivered (run patched sa inc) post ∧
      Dk.Sublist (written sN.fs) ∧ Dk.Pairwise tLt ∧ Dk.Nodup ∧ (∀ y ∈ Dk, posLe (cur sa.r) y.pos) ∧
      (∀ y ∈ Dk, y ∈ delivered s0 pre → posLe (cur sa.r) y.pos)) := by
  intro s0 sN D
  refine ⟨?_, C14_no_skip_across_restarts hd0 h0 fsz tot ra ops hn hp, ?_⟩
  · intro pre inc ar post e hr
    subst e
    have ha : HCore (run patched s0 pre) := (hinv_reach hd0 h0 fsz tot ra pre hn.split.1.split.1 hp.split.1.split.1).core
    exact restart_clause ha hn.split.1.split.2 hp.split.1.split.2 hr ar
  · intro pre inc post e hr sa Dk
    subst e
    have ha : HCore sa := (hinv_reach hd0 h0 fsz tot ra pre hn.split.1.split.1 hp.split.1.split.1).core
    obtain ⟨i1, i2, i3, _⟩ := incarnation_stream ha hn.split.1.split.2 hp.split.1.split.2 hr
    have gN : GInv sN := (GInv.boot hd0 fsz tot true ra).run _ hn
    have gb : GInv (run patched sa inc) := ha.g.run inc hn.split.1.split.2
    have hmem : ∀ y ∈ Dk, y ∈ written sN.fs := by
      intro y hy
      have : sN = run patched (run patched sa inc) post := by
        show run patched s0 (pre ++ inc ++ post) = _
        rw [run_append, run_append]
      rw [this]
      exact written_later (run_holds gb.base post) (i2 y hy)
    refine ⟨?_, sublist_of_pairwise_subset _ _ i1 (written_pairwise gN.inc) hmem, i1, nodup_of_pairwise i1, i3,
      fun y hy _ => i3 y hy⟩
    show delivered s0 (pre ++ inc ++ post) = _
    rw [delivered_append, delivered_append, run_append]

/-- **a restart from the head file starts at a record boundary**, in every state of a whole history (`HCore`: reached
from the empty directory by `NoWRestart` / `ReaderPlain` ops, `hinv_reach`): the head file holds a position saved by
`write_head` - a record boundary by `tellPos_aligned` - of a file whose records are only ever appended to -/
theorem aligned_after_construct {s : Sys} (h : HCore s) (ar : Bool) :
    Aligned (step patched s (.reopen .r ar)).1.fs (step patched s (.reopen .r ar)).1.r := by
  obtain ⟨r1, _, _, _, r5, _⟩ := restart_spec h.g h.hh h.hal ar
  rw [r1]; exact r5

/-- what `ReaderPlain` excludes: after an explicit seek INTO a record (`seek((1000, 3))`, six-byte records) `write_head`
saves that offset and the restarted instance has the file open at byte 3, inside record 0 -/
def midSeekOps : List Op := [.write [⟨0, 5⟩] 1000, .reopen .r true, .seek .r 1000 (some 3), .save .r none, .reopen .r true]

example : (run patched (boot [] ⟨none, none⟩ 5 12 true true) midSeekOps).hd.head = some (.full ⟨some 1000, 3⟩) ∧
    (run patched (boot [] ⟨none, none⟩ 5 12 true true) midSeekOps).r.readFile = .opened 0 3 := by decide +kernel

/-! ## non-vacuity -/

/-- `file_size = 5`, `total_size = 12`, six-byte records, so every write fills a file and the third file prunes the first.
Incarnation 1 (started when file 1000 exists, no head file yet: at the start) is handed record 0 and SAVES `(1000, 6)`
completely; file 1001 is written, the reader is handed record 1 and calls `write_head()` again, which **crashes after
the temp file is written and closed, before the rename** (`some 3`): the head file still holds `(1000, 6)`, the temp
file `(1001, 6)`.  File 1002 is written and file 1000 is **pruned**.  The restart reads `(1000, 6)`: that file is gone,
incarnation 2 starts at the first file after it, `(1001, 0)`, is handed record 1 AGAIN (it lies after the saved
position) and then record 2, and saves `(1002, 6)`. -/
def crashOps : List Op :=
  [.write [⟨0, 5⟩] 1000, .reopen .r true, .read .r false, .save .r none, .write [⟨1, 5⟩] 1001, .read .r false,
   .save .r (some 3), .write [⟨2, 5⟩] 1002, .reopen .r true, .read .r false, .read .r false, .save .r none]
def crashBoot : Sys := boot [] ⟨none, none⟩ 5 12 true true

example : delivered crashBoot crashOps =
      [⟨1000, 0, ⟨0, 5⟩⟩, ⟨1001, 0, ⟨1, 5⟩⟩, ⟨1001, 0, ⟨1, 5⟩⟩, ⟨1002, 0, ⟨2, 5⟩⟩] ∧
    (run patched crashBoot (crashOps.take 7)).hd = ⟨some (.full ⟨some 1000, 6⟩), some (.full ⟨some 1001, 6⟩)⟩ ∧
    (run patched crashBoot (crashOps.take 7)).r.readFile = .closed ∧
    completedHead (run patched crashBoot (crashOps.take 2)).hd.head (run patched crashBoot (crashOps.take 2))
      ((crashOps.drop 2).take 6) = some (.full ⟨some 1000, 6⟩) ∧
    (run patched crashBoot (crashOps.take 8)).fs.map (fun f => (f.name, f.linked)) = [(1000, false), (1001, true), (1002, true)] ∧
    cur (run patched crashBoot (crashOps.take 9)).r = (1001, 0) ∧
    (run patched crashBoot crashOps).hd = ⟨some (.full ⟨some 1002, 6⟩), none⟩ := by
  decide +kernel

/-- the theorem applies to this history; its clauses for the restart (`pre` = the first two ops, `inc` = incarnation 1)
and for incarnation 2: the start position `(1001, 0)` is not the saved one `(1000, 6)` (that file is gone) but nothing in
the directory lies in between, and incarnation 2 is handed nothing from before `(1001, 0)` -/
example : ¬ Passed (run patched crashBoot (crashOps.take 8)).fs (1000, 6) (1001, 0) ∧
    ∀ y ∈ delivered (run patched crashBoot (crashOps.take 9)) (crashOps.drop 9), posLe (1001, 0) y.pos := by
  have hn : NoWRestart crashOps := goodB_ok (by decide +kernel)
  have hp : ReaderPlain crashOps := by unfold ReaderPlain; decide +kernel
  obtain ⟨h1, _, h3⟩ := C14_stream_across_restarts ⟨none, none⟩ rfl 5 12 true crashOps hn hp
  have e1 : crashOps = crashOps.take 2 ++ (crashOps.drop 2).take 6 ++ .reopen .r true :: crashOps.drop 9 := by decide +kernel
  have e3 : crashOps = crashOps.take 9 ++ crashOps.drop 9 ++ [] := by decide +kernel
  have c1 := h1 _ _ _ _ e1 (by unfold NoRRestart; decide +kernel)
  have c3 := h3 _ _ _ e3 (by unfold NoRRestart; decide +kernel)
  simp only at c1 c3
  obtain ⟨_, _, _, _, _, _, _, c18, _⟩ := c1
  have e2 : run patched (run patched (boot [] ⟨none, none⟩ 5 12 true true) (crashOps.take 2)) ((crashOps.drop 2).take 6) =
      run patched crashBoot (crashOps.take 8) := by decide +kernel
  rw [e2] at c18
  have ec : cur (step patched (run patched crashBoot (crashOps.take 8)) (.reopen .r true)).1.r = (1001, 0) := by decide +kernel
  have eh : headPos (run patched crashBoot (crashOps.take 8)).hd = (1000, 6) := by decide +kernel
  rw [ec, eh] at c18
  refine ⟨c18, ?_⟩
  have e4 : cur (run patched (boot [] ⟨none, none⟩ 5 12 true true) (crashOps.take 9)).r = (1001, 0) := by decide +kernel
  rw [e4] at c3
  exact c3.2.2.2.2.1

/-- a record that no incarnation is handed: incarnation 1 is handed record 0, saves `(1000, 6)`, and crashes in its next
`write_head()` before it has read record 1 (file 1001); files 1002 and 1003 are written, files 1000 and 1001 are pruned;
the restart re-bases from `(1000, 6)` to `(1002, 0)`; incarnation 2 is handed records 2 and 3 -/
def gapOps : List Op :=
  [.write [⟨0, 5⟩] 1000, .reopen .r true, .read .r false, .save .r none, .write [⟨1, 5⟩] 1001,
   .save .r (some 3), .write [⟨2, 5⟩] 1002, .write [⟨3, 5⟩] 1003, .reopen .r true, .read .r false, .read .r false]

example : delivered crashBoot gapOps = [⟨1000, 0, ⟨0, 5⟩⟩, ⟨1002, 0, ⟨2, 5⟩⟩, ⟨1003, 0, ⟨3, 5⟩⟩] ∧
    (run patched crashBoot (gapOps.take 8)).fs.map (fun f => (f.name, f.linked)) =
      [(1000, false), (1001, false), (1002, true), (1003, true)] ∧
    cur (run patched crashBoot (gapOps.take 9)).r = (1002, 0) := by
  decide +kernel

/-- … and the no-skip clause is used: record 1 was written, lies before the delivered record 2, was handed to nobody -
so it was passed while its file was gone (here: by the re-basing of the restart; file 1001 had been pruned) -/
example : SkippedGone crashBoot gapOps ⟨1001, 0, ⟨1, 5⟩⟩ ∨ RebasedGone crashBoot gapOps ⟨1001, 0, ⟨1, 5⟩⟩ := by
  have hn : NoWRestart gapOps := goodB_ok (by decide +kernel)
  have hp : ReaderPlain gapOps := by unfold ReaderPlain; decide +kernel
  have h := (C14_stream_across_restarts ⟨none, none⟩ rfl 5 12 true gapOps hn hp).2.1
  refine h ⟨1001, 0, ⟨1, 5⟩⟩ (by decide +kernel) (by decide +kernel) (Or.inr (Or.inr ⟨⟨1002, 0, ⟨2, 5⟩⟩, by decide +kernel, ?_⟩))
  unfold tLt posLt TRec.pos; simp

end OF.RollLog
