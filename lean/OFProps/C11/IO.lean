import OFModel.Config.IO
import OFProps.C11.Dict
/-! # C11 helper lemmas for the endpoint-list classes (VideoIn, ImageIn, VideoOut, ImageOut). -/
namespace OF.Config

/-! ## `Filter.normalize_config` keeps the key list -/

theorem keys_normCommas (orig acc : Dict) (n : Str) (h : keys acc = keys orig) : keys (normCommas orig acc n) = keys orig := by
  unfold normCommas
  split
  · exact h
  · rename_i hne
    rw [keys_dictSet_present _ _ _ (h ▸ mem_keys_of_getD_ne_null orig n (by intro e; exact hne e)), h]

theorem keys_normLog (c c' : Dict) (k : Str) (h : normLog c k = .ok c') : keys c' = keys c := by
  unfold normLog at h
  split at h
  · injection h with h; subst h; rfl
  · rename_i hne
    split at h
    · cases h
    · cases h
    · injection h with h; subst h
      exact keys_dictSet_present _ _ _ (mem_keys_of_getD_ne_null c k (by intro e; exact hne e))

theorem keys_normExtraMetrics (c c' : Dict) (h : normExtraMetrics c = .ok c') : keys c' = keys c := by
  unfold normExtraMetrics at h
  split at h
  · injection h with h; subst h; rfl
  · rename_i l hl
    split at h
    · cases h
    · injection h with h; subst h
      exact keys_dictSet_present _ _ _ (mem_keys_of_getD_ne_null c _ (by rw [hl]; intro e; cases e))
  · injection h with h; subst h; rfl
  · cases h

theorem keys_normalizeFilter (env : Env) (c c' : Dict) (h : normalizeFilter env c = .ok c') : keys c' = keys c := by
  unfold normalizeFilter at h
  simp only at h
  split at h
  · cases h
  · split at h
    · cases h
    · rename_i c2 hx
      rw [keys_normLog _ _ _ h, keys_normExtraMetrics _ _ hx]
      exact keys_normCommas _ _ _ (keys_normCommas _ _ _ (keys_normCommas _ _ _ rfl))

/-! ## mapExcept -/

theorem mapExcept_fixed {α} (f : α → Except Err α) : ∀ (l : List α), (∀ x ∈ l, f x = .ok x) → mapExcept f l = .ok l
  | [], _ => rfl
  | x :: r, h => by
    simp only [mapExcept, h x (List.mem_cons_self ..),
      mapExcept_fixed f r (fun y hy => h y (List.mem_cons_of_mem _ hy))]

theorem mapExcept_mem {α β} (f : α → Except Err β) : ∀ (l : List α) (l' : List β), mapExcept f l = .ok l' →
    ∀ y ∈ l', ∃ x ∈ l, f x = .ok y
  | [], l', h, y, hy => by
    simp only [mapExcept] at h; injection h with h; subst h; cases hy
  | x :: r, l', h, y, hy => by
    simp only [mapExcept] at h
    split at h
    · cases h
    · rename_i y0 hx
      split at h
      · cases h
      · rename_i ys hr
        injection h with h; subst h
        rcases List.mem_cons.1 hy with e | e
        · exact ⟨x, List.mem_cons_self .., e ▸ hx⟩
        · obtain ⟨x', hx', hf⟩ := mapExcept_mem f r ys hr y e
          exact ⟨x', List.mem_cons_of_mem _ hx', hf⟩

theorem mapExcept_length {α β} (f : α → Except Err β) : ∀ (l : List α) (l' : List β), mapExcept f l = .ok l' → l'.length = l.length
  | [], l', h => by simp only [mapExcept] at h; injection h with h; subst h; rfl
  | x :: r, l', h => by
    simp only [mapExcept] at h
    split at h
    · cases h
    · split at h
      · cases h
      · rename_i ys hr
        injection h with h; subst h
        simp [mapExcept_length f r ys hr]

/-! ## options -/

/-- what the theorems need of the validator outcomes: `parse_segtime` never returns a string -/
def SegtimeNotStr (env : Env) : Prop := ∀ s v, env.segtime s = .ok v → isStrV v = false

/-- side conditions on a class description, true (by `decide`) for the four classes -/
structure SpecOk (spec : IOSpec) : Prop where
  keysDiffer : spec.otherKey ≠ spec.listKey
  paramsAllowed : spec.mode = .toParams → spec.allowed.contains kParams = true
  segMode : spec.segtime = true → spec.mode = .toParams ∧ spec.allowed.contains kSegtime = true

theorem moveToParams_allowed (allowed : List Str) : ∀ (snap o : Dict), (∀ p ∈ snap, allowed.contains p.1 = true) →
    moveToParams allowed snap o = .ok o
  | [], _, _ => rfl
  | (k, v) :: r, o, h => by
    have hk := h (k, v) (List.mem_cons_self ..)
    simp only at hk
    simp only [moveToParams, hk, ↓reduceIte]
    exact moveToParams_allowed allowed r o (fun p hp => h p (List.mem_cons_of_mem _ hp))

theorem mem_dictDel {d : Dict} {k : Str} {p : Str × Val} (h : p ∈ dictDel d k) : p ∈ d ∧ p.1 ≠ k := by
  simp only [dictDel, List.mem_filter, ne_eq, decide_not, Bool.not_eq_eq_eq_not, Bool.not_true,
    decide_eq_false_iff_not] at h
  exact h

theorem mem_dictSet {d : Dict} {k : Str} {v : Val} {p : Str × Val} (h : p ∈ dictSet d k v) : p ∈ d ∨ p = (k, v) := by
  induction d with
  | nil => simp only [dictSet, List.mem_singleton] at h; exact Or.inr h
  | cons q r ih =>
    obtain ⟨k', v'⟩ := q
    simp only [dictSet] at h
    split at h
    · rcases List.mem_cons.1 h with e | e
      · exact Or.inr e
      · exact Or.inl (List.mem_cons_of_mem _ e)
    · rcases List.mem_cons.1 h with e | e
      · exact Or.inl (e ▸ List.mem_cons_self ..)
      · rcases ih e with e' | e'
        · exact Or.inl (List.mem_cons_of_mem _ e')
        · exact Or.inr e'

/-- invariant of the move loop: every not-allowed key still in the options is still ahead in the snapshot -/
theorem moveToParams_result (allowed : List Str) (hp : allowed.contains kParams = true) :
    ∀ (snap o o2 : Dict), (∀ p ∈ o, allowed.contains p.1 = true ∨ p.1 ∈ keys snap) →
      moveToParams allowed snap o = .ok o2 → ∀ p ∈ o2, allowed.contains p.1 = true
  | [], o, o2, hinv, h => by
    simp only [moveToParams] at h; injection h with h; subst h
    intro p hpm
    rcases hinv p hpm with e | e
    · exact e
    · simp [keys] at e
  | (k, v) :: r, o, o2, hinv, h => by
    simp only [moveToParams] at h
    split at h
    · rename_i hk
      apply moveToParams_result allowed hp r o o2 _ h
      intro p hpm
      rcases hinv p hpm with e | e
      · exact Or.inl e
      · simp only [keys, List.map_cons, List.mem_cons] at e
        rcases e with e | e
        · left; rw [e]; exact hk
        · right; exact e
    · have step : ∀ (o' : Dict), (∀ p ∈ o', p ∈ o ∨ p.1 = kParams) →
          ∀ p ∈ dictDel o' k, allowed.contains p.1 = true ∨ p.1 ∈ keys r := by
        intro o' ho' p hpm
        obtain ⟨hm, hne⟩ := mem_dictDel hpm
        rcases ho' p hm with e | e
        · rcases hinv p e with e2 | e2
          · exact Or.inl e2
          · simp only [keys, List.map_cons, List.mem_cons] at e2
            rcases e2 with e2 | e2
            · exact absurd e2 hne
            · exact Or.inr e2
        · left; rw [e]; exact hp
      split at h
      · apply moveToParams_result allowed hp r _ o2 _ h
        apply step
        intro p hpm
        rcases mem_dictSet hpm with e | e
        · exact Or.inl e
        · right; rw [e]
      · apply moveToParams_result allowed hp r _ o2 _ h
        apply step
        intro p hpm
        rcases mem_dictSet hpm with e | e
        · exact Or.inl e
        · right; rw [e]
      · cases h


theorem lookup_moveToParams_allowed (allowed : List Str) (key : Str) (hk : allowed.contains key = true) (hkp : key ≠ kParams) :
    ∀ (snap o o2 : Dict), moveToParams allowed snap o = .ok o2 → lookup o2 key = lookup o key
  | [], o, o2, h => by simp only [moveToParams] at h; injection h with h; subst h; rfl
  | (k, v) :: r, o, o2, h => by
    simp only [moveToParams] at h
    split at h
    · exact lookup_moveToParams_allowed allowed key hk hkp r o o2 h
    · rename_i hnot
      have hne : key ≠ k := by intro e; subst e; exact hnot hk
      split at h
      · rw [lookup_moveToParams_allowed allowed key hk hkp r _ o2 h, lookup_dictDel_ne _ _ _ hne,
          lookup_dictSet_ne _ _ _ _ hkp]
      · rw [lookup_moveToParams_allowed allowed key hk hkp r _ o2 h, lookup_dictDel_ne _ _ _ hne,
          lookup_dictSet_ne _ _ _ _ hkp]
      · cases h

theorem modeStep_fixed (spec : IOSpec) (hs : SpecOk spec) (o1 o2 : Dict) (h : modeStep spec o1 = .ok o2) :
    modeStep spec o2 = .ok o2 := by
  unfold modeStep at h ⊢
  cases hm : spec.mode with
  | reject =>
    simp only [hm] at h ⊢
    split at h
    · injection h with h; subst h; rename_i hall; rw [if_pos hall]
    · cases h
  | toParams =>
    simp only [hm] at h ⊢
    have hall := moveToParams_result spec.allowed (hs.paramsAllowed hm) o1 o1 o2
      (fun p hp => Or.inr (by simp only [keys, List.mem_map]; exact ⟨p, hp, rfl⟩)) h
    exact moveToParams_allowed spec.allowed o2 o2 hall
  | drop =>
    simp only [hm] at h ⊢
    injection h with h; subst h
    simp [List.filter_filter]

theorem fixOptions_fixed (spec : IOSpec) (hs : SpecOk spec) (env : Env) (henv : SegtimeNotStr env) (o o2 : Dict)
    (h : fixOptions spec env o = .ok o2) : fixOptions spec env o2 = .ok o2 := by
  unfold fixOptions at h ⊢
  cases hseg : spec.segtime with
  | false =>
    simp only [hseg, Bool.false_eq_true, ↓reduceIte] at h ⊢
    exact modeStep_fixed spec hs o o2 h
  | true =>
    obtain ⟨hmode, hallow⟩ := hs.segMode hseg
    simp only [hseg, ↓reduceIte] at h ⊢
    split at h
    · cases h
    · rename_i o1 hstep
      -- after the segtime step the stored segtime is not a string
      have hns : ∀ s, lookup o1 kSegtime ≠ some (.str s) := by
        unfold segStep at hstep
        split at hstep
        · split at hstep
          · cases hstep
          · rename_i v hv
            injection hstep with hstep; subst hstep
            intro s e
            rw [lookup_dictSet_eq] at e
            injection e with e; subst e
            have := henv _ _ hv
            simp [isStrV] at this
        · rename_i hnot
          injection hstep with hstep; subst hstep
          intro s e; exact hnot s e
      have hlk : lookup o2 kSegtime = lookup o1 kSegtime := by
        unfold modeStep at h
        simp only [hmode] at h
        exact lookup_moveToParams_allowed spec.allowed kSegtime hallow (by decide) o1 o1 o2 h
      have hstep2 : segStep env o2 = .ok o2 := by
        unfold segStep
        split
        · rename_i s hs'
          rw [hlk] at hs'
          exact absurd hs' (hns s)
        · rfl
      rw [hstep2]
      exact modeStep_fixed spec hs o1 o2 h

/-! ## items -/

theorem fixItem_fixed (spec : IOSpec) (hs : SpecOk spec) (env : Env) (henv : SegtimeNotStr env) (x y : Val)
    (h : fixItem spec env x = .ok y) : fixItem spec env y = .ok y ∧ parseItem spec y = .ok y := by
  cases x with
  | dict d =>
    simp only [fixItem] at h
    split at h
    · cases h
    · rename_i o hopts
      split at h
      · cases h
      · rename_i o2 hfix
        injection h with h; subst h
        refine ⟨?_, rfl⟩
        -- the item after the first pass: topic is set, options is the fixed dict
        generalize hd1 : (if getD d kTopic = Val.null then dictSet d kTopic (Val.str kMain) else d) = d1 at hopts
        have htopic : getD d1 kTopic ≠ .null := by
          rw [← hd1]
          split
          · rw [getD_dictSet_eq]; intro e; cases e
          · assumption
        have hne : kTopic ≠ kOptions := by decide
        have ht2 : getD (dictSet d1 kOptions (.dict o2)) kTopic ≠ .null := by
          rw [getD_dictSet_ne _ _ _ _ hne]; exact htopic
        simp only [fixItem, ht2, ↓reduceIte, getD_dictSet_eq, fixOptions_fixed spec hs env henv o o2 hfix]
        have := dictSet_getD_self (dictSet d1 kOptions (.dict o2)) kOptions (by rw [getD_dictSet_eq]; intro e; cases e)
        rw [getD_dictSet_eq] at this
        rw [this]
  | null => simp [fixItem] at h
  | bool _ => simp [fixItem] at h
  | int _ => simp [fixItem] at h
  | float _ => simp [fixItem] at h
  | str _ => simp [fixItem] at h
  | list _ => simp [fixItem] at h
  | tuple _ => simp [fixItem] at h
  | blob _ => simp [fixItem] at h

end OF.Config
