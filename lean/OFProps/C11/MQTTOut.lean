import OFModel.Config.MQTTOut
import OFProps.C11.Dict
import OFProps.C11.IO
/-! # C11 helper lemmas for `MQTTOut.normalize_config`. -/
namespace OF.Config

/-! ## text helpers -/

theorem mem_takeWhile_true {α} (p : α → Bool) (a : α) : ∀ (l : List α), a ∈ l.takeWhile p → p a = true
  | [], h => by cases h
  | x :: r, h => by
    simp only [List.takeWhile_cons] at h
    split at h
    · rename_i hx
      rcases List.mem_cons.1 h with e | e
      · exact e ▸ hx
      · exact mem_takeWhile_true p a r e
    · cases h

/-- what follows the last `/` contains no `/` -/
theorem lastSeg_noSlash (s : Str) : '/' ∉ lastSeg s := by
  unfold lastSeg
  intro h
  have h2 := mem_takeWhile_true _ _ _ (List.mem_reverse.1 h)
  simp at h2

theorem endsWithCh_false_of_not_mem (ch : Char) (s : Str) (h : ch ∉ s) : endsWithCh ch s = false := by
  unfold endsWithCh
  rw [decide_eq_false_iff_not]
  intro e
  exact h (List.mem_of_getLast? e)

/-! ## what the `if outputs:` block touches -/

theorem lookup_dictUpdate_ne (k : Str) : ∀ (o c : Dict), (∀ p ∈ o, p.1 ≠ k) → lookup (dictUpdate c o) k = lookup c k
  | [], _, _ => rfl
  | (k', v) :: r, c, h => by
    have h1 : k ≠ k' := fun e => h (k', v) (List.mem_cons_self ..) e.symm
    have ih := lookup_dictUpdate_ne k r (dictSet c k' v) (fun p hp => h p (List.mem_cons_of_mem _ hp))
    unfold dictUpdate at ih ⊢
    rw [List.foldl_cons, ih, lookup_dictSet_ne _ _ _ _ h1]

theorem mqttBroker_frame (addr : Str) (c c' : Dict) (h : mqttBroker addr c = .ok c') :
    ∀ k, k ≠ kBrokerHost → k ≠ kBrokerPort → lookup c' k = lookup c k := by
  intro k h1 h2
  unfold mqttBroker at h
  simp only at h
  split at h
  · injection h with h; subst h; rfl
  · split at h
    · cases h
    · have hc1 : lookup (if (rsplit1 ':' addr).1 ≠ [] then dictSet c kBrokerHost (.str (rsplit1 ':' addr).1) else c) k = lookup c k := by
        split
        · exact lookup_dictSet_ne _ _ _ _ h1
        · rfl
      split at h
      · injection h with h; subst h; exact hc1
      · split at h
        · cases h
        · injection h with h; subst h
          rw [lookup_dictSet_ne _ _ _ _ h2]; exact hc1

theorem mqttAddr_frame (text : Str) (c4 c' : Dict) (h : mqttAddr text c4 = .ok c') :
    lookup c' kOutputs = none ∧
    ∀ k, k ≠ kOutputs → k ≠ kBaseTopic → k ≠ kBrokerHost → k ≠ kBrokerPort → lookup c' k = lookup c4 k := by
  unfold mqttAddr at h
  simp only at h
  split at h
  · cases h
  · split at h
    · cases h
    · rename_i c5 h5
      split at h
      · cases h
      · rename_i c6 h6
        injection h with h; subst h
        refine ⟨(lookup_none_iff _ _).2 (not_mem_keys_dictDel _ _), ?_⟩
        intro k a b d e
        rw [lookup_dictDel_ne _ _ _ a, mqttBroker_frame _ _ _ h6 k d e]
        split at h5
        · injection h5 with h5; subst h5; rfl
        · split at h5
          · cases h5
          · injection h5 with h5; subst h5; exact lookup_dictSet_ne _ _ _ _ b

theorem valid_option_ne (o : Dict) (k : Str) (h : o.all (fun p => mqttValidOptions.contains p.1) = true)
    (h1 : k ≠ kQos) (h2 : k ≠ kRetain) : ∀ p ∈ o, p.1 ≠ k := by
  intro p hp e
  have := List.all_eq_true.1 h p hp
  simp only [mqttValidOptions, strs, List.map_cons, List.map_nil, List.contains_iff_mem, List.mem_cons,
    List.not_mem_nil, or_false] at this
  rcases this with g | g
  · exact h1 (e ▸ g)
  · exact h2 (e ▸ g)

theorem mqttOutputText_frame (rest : Str) (c2 c' : Dict) (h : mqttOutputText rest c2 = .ok c') :
    lookup c' kOutputs = none ∧
    ∀ k, k ≠ kOutputs → k ≠ kBaseTopic → k ≠ kBrokerHost → k ≠ kBrokerPort → k ≠ kMappings → k ≠ kQos → k ≠ kRetain →
      lookup c' k = lookup c2 k := by
  unfold mqttOutputText at h
  split at h
  · cases h
  · rename_i output topics _
    simp only at h
    split at h
    · cases h
    · rename_i c3 h3
      split at h
      · cases h
      · rename_i hvalid
        split at h
        · cases h
        · obtain ⟨g1, g2⟩ := mqttAddr_frame _ _ _ h
          refine ⟨g1, ?_⟩
          intro k a b d e f i j
          have hvalid' : (parseOptions output).2.all (fun p => mqttValidOptions.contains p.1) = true := by
            simpa using hvalid
          rw [g2 k a b d e, lookup_dictUpdate_ne k _ _ (valid_option_ne _ k hvalid' i j)]
          split at h3
          · split at h3
            · cases h3
            · injection h3 with h3; subst h3; exact lookup_dictSet_ne _ _ _ _ f
          · injection h3 with h3; subst h3; rfl

theorem mqttOutput_frame (outputs : Val) (c2 c' : Dict) (h : mqttOutput outputs c2 = .ok c') :
    lookup c' kOutputs = none ∧
    ∀ k, k ≠ kOutputs → k ≠ kBaseTopic → k ≠ kBrokerHost → k ≠ kBrokerPort → k ≠ kMappings → k ≠ kQos → k ≠ kRetain →
      lookup c' k = lookup c2 k := by
  unfold mqttOutput at h
  split at h
  · cases h
  · split at h
    · cases h
    · split at h
      · cases h
      · split at h
        · cases h
        · exact mqttOutputText_frame _ _ _ h
      · cases h

/-! ## a normalised mapping is a fixed point of both loops -/

theorem truthy_str (s : Str) : truthy (.str s) = (s != []) := rfl

theorem fixPath_fixed (m1 : Dict) (y : Val) (o : Dict) (hopt : lookup m1 kOptions = some (.dict o))
    (hvalid : (!o.all (fun p => mqttValidOptions.contains p.1)) = false)
    (hsp : (!truthy (getD m1 kSrcPath)) = false)
    (hfix : fixMapping (.dict m1) = fixPath m1 (getD m1 kDstTopic) (getD m1 kSrcPath))
    (h : fixPath m1 (getD m1 kDstTopic) (getD m1 kSrcPath) = .ok y) : fixMapping y = .ok y ∧ mappingItem y = .ok y := by
  cases hp : getD m1 kSrcPath with
  | str p =>
    rw [hp] at h hsp
    simp only [fixPath] at h
    split at h
    · cases h
    · rename_i hend
      split at h
      · cases h
      · rename_i himg
        split at h
        · cases h
        · rename_i hdata
          split at h
          · rename_i hnull
            injection h with h; subst h
            refine ⟨?_, rfl⟩
            generalize ht : (if p = "image".toList then "frames".toList else lastSeg p) = t
            have hslash : endsWithCh '/' t = false := by
              rw [← ht]
              split
              · decide
              · exact endsWithCh_false_of_not_mem _ _ (lastSeg_noSlash p)
            have hopt2 : lookup (dictSet m1 kDstTopic (.str t)) kOptions = some (.dict o) := by
              rw [lookup_dictSet_ne _ _ _ _ (by decide)]; exact hopt
            have hg : getD (dictSet m1 kDstTopic (.str t)) kOptions = .dict o := by simp [getD, hopt2]
            have hself := dictSet_lookup_self _ _ _ hopt2
            have hd : getD (dictSet m1 kDstTopic (.str t)) kDstTopic = .str t := getD_dictSet_eq _ _ _
            have hs : getD (dictSet m1 kDstTopic (.str t)) kSrcPath = .str p := by
              rw [getD_dictSet_ne _ _ _ _ (by decide)]; exact hp
            have hds : dstEndsSlash (.str t) = .ok false := by
              unfold dstEndsSlash
              split
              · rfl
              · simp only [hslash]
            simp only [fixMapping, hg, mappingOptions, hvalid, hself, hd, hs, hds, hsp, fixPath, hend, himg, hdata]
            simp
          · injection h with h; subst h
            refine ⟨?_, rfl⟩
            rw [hfix, hp]
            simp only [fixPath, hend, himg, hdata]
            rename_i hnn
            simp [hnn]
  | null => rw [hp] at hsp; simp [truthy] at hsp
  | bool b => rw [hp] at h; simp [fixPath] at h
  | int b => rw [hp] at h; simp [fixPath] at h
  | float b => rw [hp] at h; simp [fixPath] at h
  | list b => rw [hp] at h; simp [fixPath] at h
  | tuple b => rw [hp] at h; simp [fixPath] at h
  | dict b => rw [hp] at h; simp [fixPath] at h
  | blob b => rw [hp] at h; simp [fixPath] at h

/-- whatever the second loop returns for a mapping is a dict that both loops leave as it is -/
theorem fixMapping_fixed (x y : Val) (h : fixMapping x = .ok y) : fixMapping y = .ok y ∧ mappingItem y = .ok y := by
  cases x with
  | dict m =>
    simp only [fixMapping] at h
    split at h
    · cases h
    · rename_i o ho
      split at h
      · cases h
      · rename_i hvalid
        have hvalid' : (!o.all (fun p => mqttValidOptions.contains p.1)) = false := by simpa using hvalid
        generalize hm1 : dictSet m kOptions (.dict o) = m1 at h
        have hopt : lookup m1 kOptions = some (.dict o) := by rw [← hm1, lookup_dictSet_eq]
        have hself : dictSet m1 kOptions (.dict o) = m1 := dictSet_lookup_self _ _ _ hopt
        have hg : getD m1 kOptions = .dict o := by simp [getD, hopt]
        split at h
        · cases h
        · cases h
        · rename_i hslash
          split at h
          · rename_i hsp
            split at h
            · cases h
            · rename_i hdst
              injection h with h; subst h
              refine ⟨?_, rfl⟩
              simp only [fixMapping, hg, mappingOptions, hvalid', hself, hslash, hsp, hdst]
              simp
          · rename_i hsp
            have hsp' : (!truthy (getD m1 kSrcPath)) = false := by simpa using hsp
            refine fixPath_fixed m1 y o hopt hvalid' hsp' ?_ h
            simp only [fixMapping, hg, mappingOptions, hvalid', hself, hslash, hsp']
            simp
  | null => simp [fixMapping] at h
  | bool _ => simp [fixMapping] at h
  | int _ => simp [fixMapping] at h
  | float _ => simp [fixMapping] at h
  | str _ => simp [fixMapping] at h
  | list _ => simp [fixMapping] at h
  | tuple _ => simp [fixMapping] at h
  | blob _ => simp [fixMapping] at h

/-- the list the two loops return has the input's length and is returned unchanged by a second run -/
theorem mqttMappingList_fixed (l l2 : List Val) (h : mqttMappingList l = .ok l2) :
    mqttMappingList l2 = .ok l2 ∧ l2.length = l.length := by
  unfold mqttMappingList at h
  split at h
  · cases h
  · rename_i l1 hl1
    split at h
    · cases h
    · rename_i l2' hl2
      split at h
      · cases h
      · rename_i hchk
        injection h with h; subst h
        have hall : ∀ y ∈ l2', fixMapping y = .ok y ∧ mappingItem y = .ok y := by
          intro y hy
          obtain ⟨x, _, hx⟩ := mapExcept_mem _ _ _ hl2 y hy
          exact fixMapping_fixed x y hx
        have hp : mapExcept mappingItem l2' = .ok l2' := mapExcept_fixed _ _ (fun y hy => (hall y hy).2)
        have hf : mapExcept fixMapping l2' = .ok l2' := mapExcept_fixed _ _ (fun y hy => (hall y hy).1)
        refine ⟨?_, by rw [mapExcept_length _ _ _ hl2, mapExcept_length _ _ _ hl1]⟩
        unfold mqttMappingList
        simp only [hp, hf, hchk]

/-- the value `config.mappings` ends up with is not a string and is a fixed point -/
theorem mqttMappings_fixed (ms M : Val) (hns : isStrV ms = false) (h : mqttMappings ms = .ok M) :
    isStrV M = false ∧ mqttMappings M = .ok M := by
  unfold mqttMappings at h
  split at h
  · rename_i hf
    injection h with h; subst h
    refine ⟨hns, ?_⟩
    unfold mqttMappings; rw [if_pos hf]
  · split at h
    · rename_i l _
      split at h
      · cases h
      · rename_i l2 hl
        injection h with h; subst h
        obtain ⟨hfix, _⟩ := mqttMappingList_fixed l l2 hl
        refine ⟨rfl, ?_⟩
        unfold mqttMappings
        split
        · rfl
        · simp only [hfix]
    all_goals cases h

end OF.Config
