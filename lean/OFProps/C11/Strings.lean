import OFModel.Config.Grammar
/-! # C11 helper lemmas: Python string primitives (`split`, `join`, `strip`) over `List Char`. -/
namespace OF.Config

/-! ## split / join -/

theorem splitHT_noSep (sep : Char) : ∀ (a : Str), sep ∉ a → splitHT sep a = (a, [])
  | [], _ => rfl
  | c :: r, h => by
    have hc : c ≠ sep := fun e => h (e ▸ List.mem_cons_self ..)
    have hr : sep ∉ r := fun m => h (List.mem_cons_of_mem _ m)
    simp [splitHT, hc, splitHT_noSep sep r hr]

theorem splitHT_append (sep : Char) (b : Str) : ∀ (a : Str), sep ∉ a →
    splitHT sep (a ++ sep :: b) = (a, (splitHT sep b).1 :: (splitHT sep b).2)
  | [], _ => by simp [splitHT]
  | c :: r, h => by
    have hc : c ≠ sep := fun e => h (e ▸ List.mem_cons_self ..)
    have hr : sep ∉ r := fun m => h (List.mem_cons_of_mem _ m)
    simp [splitHT, hc, splitHT_append sep b r hr]

theorem joinHT_cons (sep : Char) (h x : Str) (t : List Str) :
    joinHT sep h (x :: t) = h ++ sep :: joinHT sep x t := by
  simp [joinHT]

theorem splitHT_joinHT (sep : Char) : ∀ (t : List Str) (h : Str), sep ∉ h → (∀ x ∈ t, sep ∉ x) →
    splitHT sep (joinHT sep h t) = (h, t)
  | [], h, hh, _ => by simpa [joinHT] using splitHT_noSep sep h hh
  | x :: t, h, hh, ht => by
    rw [joinHT_cons, splitHT_append sep _ h hh,
      splitHT_joinHT sep t x (ht x (List.mem_cons_self ..)) (fun y hy => ht y (List.mem_cons_of_mem _ hy))]

theorem joinHT_splitHT (sep : Char) : ∀ (s : Str), joinHT sep (splitHT sep s).1 (splitHT sep s).2 = s
  | [] => rfl
  | c :: r => by
    have ih := joinHT_splitHT sep r
    by_cases hc : c = sep
    · simp only [splitHT, hc, ↓reduceIte, joinHT_cons]
      simp [ih]
    · simp only [splitHT, hc, ↓reduceIte]
      simp only [joinHT] at ih ⊢
      simp [ih]

theorem splitHT_parts_noSep (sep : Char) : ∀ (s : Str),
    sep ∉ (splitHT sep s).1 ∧ ∀ x ∈ (splitHT sep s).2, sep ∉ x
  | [] => by simp [splitHT]
  | c :: r => by
    have ih := splitHT_parts_noSep sep r
    by_cases hc : c = sep
    · simp only [splitHT, hc, ↓reduceIte]
      refine ⟨by simp, ?_⟩
      intro x hx
      rcases List.mem_cons.1 hx with h | h
      · exact h ▸ ih.1
      · exact ih.2 x h
    · simp only [splitHT, hc, ↓reduceIte]
      refine ⟨?_, ih.2⟩
      intro hm
      rcases List.mem_cons.1 hm with h | h
      · exact hc h.symm
      · exact ih.1 h

theorem joinHT_append (sep : Char) (h : Str) (t u : List Str) :
    joinHT sep (joinHT sep h t) u = joinHT sep h (t ++ u) := by
  simp [joinHT, List.append_assoc]

theorem split1_noSep (sep : Char) : ∀ (a : Str), sep ∉ a → split1 sep a = (a, none)
  | [], _ => rfl
  | c :: r, h => by
    have hc : c ≠ sep := fun e => h (e ▸ List.mem_cons_self ..)
    have hr : sep ∉ r := fun m => h (List.mem_cons_of_mem _ m)
    simp [split1, hc, split1_noSep sep r hr]

theorem split1_append (sep : Char) (b : Str) : ∀ (a : Str), sep ∉ a → split1 sep (a ++ sep :: b) = (a, some b)
  | [], _ => by simp [split1]
  | c :: r, h => by
    have hc : c ≠ sep := fun e => h (e ▸ List.mem_cons_self ..)
    have hr : sep ∉ r := fun m => h (List.mem_cons_of_mem _ m)
    simp [split1, hc, split1_append sep b r hr]

/-! ## strip -/

theorem rstrip_cons_of_ne_nil (c : Char) (r : Str) (h : rstrip r ≠ []) : rstrip (c :: r) = c :: rstrip r := by
  cases e : rstrip r with
  | nil => exact absurd e h
  | cons a b => simp [rstrip, e]

theorem rstrip_singleton (c : Char) (h : isSpace c = false) : rstrip [c] = [c] := by
  simp [rstrip, h]

theorem rstrip_length_le : ∀ (s : Str), (rstrip s).length ≤ s.length
  | [] => by simp [rstrip]
  | c :: r => by
    have ih := rstrip_length_le r
    simp only [rstrip]
    split
    · split <;> simp
    · simp only [List.length_cons]; omega

/-- `rstrip s = s` exactly when `s` is empty or ends in a non-blank -/
theorem rstrip_eq_self_cons (c : Char) (r : Str) (h : rstrip (c :: r) = c :: r) : (r = [] ∧ isSpace c = false) ∨ (r ≠ [] ∧ rstrip r = r) := by
  simp only [rstrip] at h
  split at h
  · split at h
    · cases h
    · rename_i hc
      injection h with _ h2
      left; exact ⟨h2.symm, by simpa using hc⟩
  · rename_i hne
    injection h with _ h2
    right
    refine ⟨?_, h2⟩
    intro e; subst e; exact hne (by simp [rstrip])

theorem rstrip_append_of_ne_nil : ∀ (a b : Str), rstrip b ≠ [] → rstrip (a ++ b) = a ++ rstrip b
  | [], _, _ => rfl
  | c :: r, b, h => by
    have ih := rstrip_append_of_ne_nil r b h
    have hne : rstrip (r ++ b) ≠ [] := by
      rw [ih]; intro e; exact h (List.append_eq_nil_iff.1 e).2
    rw [List.cons_append, rstrip_cons_of_ne_nil _ _ hne, ih]; rfl

theorem lstrip_eq_self_of_head (c : Char) (r : Str) (h : isSpace c = false) : lstrip (c :: r) = c :: r := by
  simp [lstrip, List.dropWhile, h]

theorem lstrip_length_le (s : Str) : (lstrip s).length ≤ s.length := by
  unfold lstrip
  induction s with
  | nil => simp
  | cons c r ih =>
    simp only [List.dropWhile]
    split
    · simp only [List.length_cons]; omega
    · simp

theorem lstrip_eq_self_iff_head (c : Char) (r : Str) : lstrip (c :: r) = c :: r ↔ isSpace c = false := by
  constructor
  · intro h
    cases hc : isSpace c
    · rfl
    · have hl := lstrip_length_le r
      simp only [lstrip, List.dropWhile, hc] at h
      have : (List.dropWhile isSpace r).length = (c :: r).length := by rw [h]
      simp only [lstrip, List.length_cons] at hl this
      omega
  · exact lstrip_eq_self_of_head c r

/-- a string is a fixed point of `strip` iff it is one of both `lstrip` and `rstrip` -/
theorem strip_eq_self_iff (s : Str) : strip s = s ↔ lstrip s = s ∧ rstrip s = s := by
  constructor
  · intro h
    have h1 := rstrip_length_le (lstrip s)
    have h2 := lstrip_length_le s
    have h3 : (rstrip (lstrip s)).length = s.length := by unfold strip at h; rw [h]
    have hl : lstrip s = s := by
      cases s with
      | nil => rfl
      | cons c r =>
        rw [lstrip_eq_self_iff_head]
        cases hc : isSpace c
        · rfl
        · have hl := lstrip_length_le r
          simp only [lstrip, List.dropWhile, hc, List.length_cons] at h1 h2 h3 hl
          omega
    refine ⟨hl, ?_⟩
    unfold strip at h; rw [hl] at h; exact h
  · intro ⟨h1, h2⟩
    unfold strip; rw [h1, h2]

theorem strip_nil : strip [] = [] := rfl

/-- first character non-blank, last character non-blank (as `rstrip` fixed point) ⇒ `strip` fixed point -/
theorem strip_append_eq_self (c : Char) (a b : Str) (hc : isSpace c = false) (hb : rstrip b = b) (hbne : b ≠ []) :
    strip (c :: a ++ b) = c :: a ++ b := by
  rw [strip_eq_self_iff]
  refine ⟨lstrip_eq_self_of_head _ _ hc, ?_⟩
  have : rstrip b ≠ [] := by rw [hb]; exact hbne
  rw [rstrip_append_of_ne_nil _ _ this, hb]

/-- a non-empty `rstrip` fixed point stays one when characters are put in front -/
theorem rstrip_cons_eq_self (c : Char) (b : Str) (hb : rstrip b = b) (hbne : b ≠ []) : rstrip (c :: b) = c :: b := by
  have : rstrip b ≠ [] := by rw [hb]; exact hbne
  rw [rstrip_cons_of_ne_nil _ _ this, hb]

/-- all characters non-blank ⇒ fixed point of `rstrip` -/
theorem rstrip_eq_self_of_all : ∀ (s : Str), (∀ c ∈ s, isSpace c = false) → rstrip s = s
  | [], _ => rfl
  | [c], h => rstrip_singleton c (h c (List.mem_cons_self ..))
  | c :: d :: r, h => by
    have ih := rstrip_eq_self_of_all (d :: r) (fun x hx => h x (List.mem_cons_of_mem _ hx))
    exact rstrip_cons_eq_self c (d :: r) ih (by simp)

end OF.Config
