import OFModel.Config.REST
import OFProps.C11.Dict
/-! # C11 helper lemmas for `REST.normalize_config` (behaviour with the pending fixes, `fixed = true`). -/
namespace OF.Config

/-! ## slash stripping is idempotent -/

theorem lstripCh_head (ch : Char) : ∀ (s : Str), lstripCh ch s = [] ∨ ∃ c t, lstripCh ch s = c :: t ∧ c ≠ ch
  | [] => Or.inl rfl
  | c :: r => by
    by_cases h : c = ch
    · have := lstripCh_head ch r
      simpa [lstripCh, List.dropWhile, h] using this
    · right; exact ⟨c, r, by simp [lstripCh, List.dropWhile, h], h⟩

theorem lstripCh_of_head (ch c : Char) (t : Str) (h : c ≠ ch) : lstripCh ch (c :: t) = c :: t := by
  simp [lstripCh, List.dropWhile, h]

theorem lstripCh_idem (ch : Char) (s : Str) : lstripCh ch (lstripCh ch s) = lstripCh ch s := by
  rcases lstripCh_head ch s with h | ⟨c, t, h, hc⟩
  · rw [h]; rfl
  · rw [h]; exact lstripCh_of_head ch c t hc

theorem rstripCh_idem (ch : Char) : ∀ (s : Str), rstripCh ch (rstripCh ch s) = rstripCh ch s
  | [] => rfl
  | c :: r => by
    have ih := rstripCh_idem ch r
    cases e : rstripCh ch r with
    | nil =>
      by_cases h : c = ch
      · simp [rstripCh, e, h]
      · simp [rstripCh, e, h]
    | cons a b =>
      rw [e] at ih
      simp only [rstripCh, e]
      simp only [rstripCh] at ih ⊢
      rw [ih]

theorem rstripCh_head (ch c : Char) (t : Str) (h : c ≠ ch) : ∃ t', rstripCh ch (c :: t) = c :: t' := by
  cases e : rstripCh ch t with
  | nil => exact ⟨[], by simp [rstripCh, e, h]⟩
  | cons a b => exact ⟨a :: b, by simp [rstripCh, e]⟩

theorem stripCh_idem (ch : Char) (s : Str) : stripCh ch (stripCh ch s) = stripCh ch s := by
  unfold stripCh
  rcases lstripCh_head ch s with h | ⟨c, t, h, hc⟩
  · rw [h]; rfl
  · rw [h]
    obtain ⟨t', ht'⟩ := rstripCh_head ch c t hc
    rw [ht', lstripCh_of_head ch c t' hc, ← ht', rstripCh_idem]

/-! ## what each step touches -/

theorem restSource_frame (sources : Val) (c2 c' : Dict) (h : restSource sources c2 = .ok c') :
    lookup c' kSources = none ∧
    ∀ k, k ≠ kBasePath → k ≠ kHost → k ≠ kPort → k ≠ kSources → k ≠ kEndpoints → lookup c' k = lookup c2 k := by
  unfold restSource at h
  split at h
  · cases h
  · split at h
    · cases h
    · split at h
      · cases h
      · split at h
        · cases h
        · split at h
          · cases h
          · simp only at h
            split at h
            · cases h
            · rename_i c5 hc5
              injection h with h; subst h
              constructor
              · rw [lookup_dictSet_ne _ _ _ _ (by decide)]
                exact (lookup_none_iff _ _).2 (not_mem_keys_dictDel _ _)
              · intro k h1 h2 h3 h4 h5
                rw [lookup_dictSet_ne _ _ _ _ h5, lookup_dictDel_ne _ _ _ h4]
                -- c5 is c2 with base_path / host / port possibly set
                have h45 : lookup c5 k = lookup c2 k := by
                  split at hc5
                  · injection hc5 with hc5; subst hc5
                    split
                    · rw [lookup_dictSet_ne _ _ _ _ h2]
                      split
                      · split
                        · exact lookup_dictSet_ne _ _ _ _ h1
                        · rfl
                      · rfl
                    · split
                      · split
                        · exact lookup_dictSet_ne _ _ _ _ h1
                        · rfl
                      · rfl
                  · split at hc5
                    · cases hc5
                    · injection hc5 with hc5; subst hc5
                      rw [lookup_dictSet_ne _ _ _ _ h3]
                      split
                      · rw [lookup_dictSet_ne _ _ _ _ h2]
                        split
                        · split
                          · exact lookup_dictSet_ne _ _ _ _ h1
                          · rfl
                        · rfl
                      · split
                        · split
                          · exact lookup_dictSet_ne _ _ _ _ h1
                          · rfl
                        · rfl
                exact h45
        · cases h

theorem normBasePath_frame (c c' : Dict) (h : normBasePath true c = .ok c') :
    ∀ k, k ≠ kBasePath → lookup c' k = lookup c k := by
  intro k hk
  unfold normBasePath at h
  split at h
  · injection h with h; subst h; rfl
  · split at h
    · injection h with h; subst h; exact lookup_dictSet_ne _ _ _ _ hk
    · simp only [↓reduceIte] at h
      injection h with h; subst h; exact lookup_dictSet_ne _ _ _ _ hk
  · split at h
    · cases h
    · injection h with h; subst h; exact lookup_dictSet_ne _ _ _ _ hk

theorem normEndpoints_frame (c c' : Dict) (h : normEndpoints true c = .ok c') :
    ∀ k, k ≠ kEndpoints → lookup c' k = lookup c k := by
  intro k hk
  unfold normEndpoints at h
  split at h
  · split at h
    · injection h with h; subst h; rfl
    · split at h
      · cases h
      · injection h with h; subst h; exact lookup_dictSet_ne _ _ _ _ hk
  · split at h
    · cases h
    · injection h with h; subst h; rfl

theorem normResourcePath_frame (env : Env) (c c' : Dict) (h : normResourcePath env c = .ok c') :
    ∀ k, k ≠ kResourcePath → lookup c' k = lookup c k := by
  intro k hk
  unfold normResourcePath at h
  split at h
  · split at h
    · injection h with h; subst h; rfl
    · split at h
      · cases h
      · injection h with h; subst h; exact lookup_dictSet_ne _ _ _ _ hk
  · split at h
    · cases h
    · injection h with h; subst h; rfl


/-! ## normal forms of the REST-specific fields -/

def NFBase (v : Val) : Prop := v = .null ∨ ∃ t, v = .str t ∧ t ≠ [] ∧ stripCh '/' t = t

theorem orNull_nf (s : Str) : NFBase (orNull (stripCh '/' s)) := by
  unfold orNull
  split
  · left; rfl
  · rename_i h; right; exact ⟨_, rfl, h, stripCh_idem '/' s⟩

theorem normBasePath_out (c c' : Dict) (h : normBasePath true c = .ok c') : NFBase (getD c' kBasePath) := by
  unfold normBasePath at h
  split at h
  · rename_i hn; injection h with h; subst h; left; exact hn
  · split at h
    · injection h with h; subst h; rw [getD_dictSet_eq]; left; rfl
    · simp only [↓reduceIte] at h
      injection h with h; subst h; rw [getD_dictSet_eq]; exact orNull_nf _
  · split at h
    · cases h
    · injection h with h; subst h; rw [getD_dictSet_eq]; left; rfl

theorem normBasePath_fixed (c : Dict) (h : NFBase (getD c kBasePath)) : normBasePath true c = .ok c := by
  unfold normBasePath
  rcases h with h | ⟨t, h, hne, hst⟩
  · simp [h]
  · simp only [h, hne, ↓reduceIte, hst, orNull]
    have := dictSet_getD_self c kBasePath (by rw [h]; intro e; cases e)
    rw [h] at this; rw [this]

/-- `endpoint.path` after the first pass: `None`, or a non-empty string without leading slash -/
def NFPath (v : Val) : Prop := v = .null ∨ ∃ t, v = .str t ∧ t ≠ [] ∧ lstripCh '/' t = t

theorem normPath_out (v w : Val) (h : normPath true v = .ok w) : NFPath w := by
  cases v with
  | null => simp only [normPath] at h; injection h with h; subst h; left; rfl
  | str p =>
    simp only [normPath, ↓reduceIte] at h
    injection h with h; subst h
    unfold orNull; split
    · left; rfl
    · rename_i hne; right; exact ⟨_, rfl, hne, lstripCh_idem '/' p⟩
  | bool b => simp only [normPath] at h; split at h <;> first | (injection h with h; subst h; exact Or.inl rfl) | cases h
  | int b => simp only [normPath] at h; split at h <;> first | (injection h with h; subst h; exact Or.inl rfl) | cases h
  | float b => simp only [normPath] at h; split at h <;> first | (injection h with h; subst h; exact Or.inl rfl) | cases h
  | list b => simp only [normPath] at h; split at h <;> first | (injection h with h; subst h; exact Or.inl rfl) | cases h
  | tuple b => simp only [normPath] at h; split at h <;> first | (injection h with h; subst h; exact Or.inl rfl) | cases h
  | dict b => simp only [normPath] at h; split at h <;> first | (injection h with h; subst h; exact Or.inl rfl) | cases h
  | blob b => simp only [normPath] at h; split at h <;> first | (injection h with h; subst h; exact Or.inl rfl) | cases h

theorem normPath_fixed (w : Val) (h : NFPath w) : normPath true w = .ok w := by
  rcases h with h | ⟨t, h, hne, hl⟩
  · subst h; rfl
  · subst h; simp [normPath, hl, orNull, hne]

theorem strList_map_str : ∀ (l : List Str), strList (l.map Val.str) = some l
  | [] => rfl
  | a :: r => by simp [strList, strList_map_str r]

theorem upperStr_valid (m : Str) (h : validMethods.contains m = true) : upperStr m = m := by
  have : m ∈ validMethods := by simpa using h
  simp only [validMethods, strs, List.map_cons, List.map_nil, List.mem_cons, List.not_mem_nil, or_false] at this
  rcases this with h | h | h | h <;> (subst h; decide)

theorem map_upper_valid : ∀ (ms : List Str), ms.all (fun m => validMethods.contains m) = true → ms.map upperStr = ms
  | [], _ => rfl
  | m :: r, h => by
    simp only [List.all_cons, Bool.and_eq_true] at h
    simp [upperStr_valid m h.1, map_upper_valid r h.2]


theorem strList_length : ∀ (l : List Val) (x : List Str), strList l = some x → x.length = l.length
  | [], x, h => by simp only [strList, Option.some.injEq] at h; subst h; rfl
  | v :: r, x, h => by
    cases v with
    | str s =>
      simp only [strList, Option.map_eq_some_iff] at h
      obtain ⟨y, hy, rfl⟩ := h
      simp [strList_length r y hy]
    | null => simp [strList] at h
    | bool _ => simp [strList] at h
    | int _ => simp [strList] at h
    | float _ => simp [strList] at h
    | list _ => simp [strList] at h
    | tuple _ => simp [strList] at h
    | dict _ => simp [strList] at h
    | blob _ => simp [strList] at h

theorem methodsOf_ne_nil (v : Val) (ms : List Str) (h : methodsOf v = .ok ms) : ms ≠ [] := by
  have hdef : strs ["GET", "POST"] ≠ [] := by decide
  cases v with
  | list l =>
    simp only [methodsOf] at h
    split at h
    · injection h with h; subst h; exact hdef
    · split at h
      · rename_i x hx
        injection h with h; subst h
        intro e; subst e
        have := strList_length l [] hx
        cases l with
        | nil => contradiction
        | cons _ _ => simp at this
      · cases h
  | tuple l =>
    simp only [methodsOf] at h
    split at h
    · injection h with h; subst h; exact hdef
    · split at h
      · rename_i x hx
        injection h with h; subst h
        intro e; subst e
        have := strList_length l [] hx
        cases l with
        | nil => contradiction
        | cons _ _ => simp at this
      · cases h
  | null => simp only [methodsOf] at h; split at h <;> first | (injection h with h; subst h; exact hdef) | cases h
  | bool _ => simp only [methodsOf] at h; split at h <;> first | (injection h with h; subst h; exact hdef) | cases h
  | int _ => simp only [methodsOf] at h; split at h <;> first | (injection h with h; subst h; exact hdef) | cases h
  | float _ => simp only [methodsOf] at h; split at h <;> first | (injection h with h; subst h; exact hdef) | cases h
  | str _ => simp only [methodsOf] at h; split at h <;> first | (injection h with h; subst h; exact hdef) | cases h
  | dict _ => simp only [methodsOf] at h; split at h <;> first | (injection h with h; subst h; exact hdef) | cases h
  | blob _ => simp only [methodsOf] at h; split at h <;> first | (injection h with h; subst h; exact hdef) | cases h

theorem methodsOf_map_str (ms : List Str) (h : ms ≠ []) : methodsOf (.list (ms.map Val.str)) = .ok ms := by
  have : ms.map Val.str ≠ [] := by simpa using h
  simp [methodsOf, this, strList_map_str]

/-- the normalised endpoint is a fixed point, with the same set of (method, path) keys -/
theorem fixEndpoint_fixed (seen : List Str) (e e' : Val) (seen' : List Str)
    (h : fixEndpoint true seen e = .ok (e', seen')) : fixEndpoint true seen e' = .ok (e', seen') := by
  cases e with
  | dict d =>
    simp only [fixEndpoint] at h
    split at h
    · cases h
    · rename_i ms hms
      split at h
      · cases h
      · rename_i path hpath
        split at h
        · cases h
        · rename_i hvalid
          split at h
          · cases h
          · rename_i hseen
            injection h with h
            injection h with h1 h2
            have hvalid' : (ms.map upperStr).all (fun m => validMethods.contains m) = true := by simpa using hvalid
            have hup : (ms.map upperStr).map upperStr = ms.map upperStr := map_upper_valid _ hvalid'
            have hne : ms.map upperStr ≠ [] := by
              have := methodsOf_ne_nil _ _ hms; simpa using this
            generalize hM : Val.list ((ms.map upperStr).map Val.str) = M at h1 hpath
            generalize hd2 : dictSet (dictSet d kMethods M) kPath path = d2 at h1
            have hm2 : lookup d2 kMethods = some M := by
              rw [← hd2, lookup_dictSet_ne _ _ _ _ (by decide), lookup_dictSet_eq]
            have hp2 : lookup d2 kPath = some path := by rw [← hd2, lookup_dictSet_eq]
            -- d3
            have hd3 : ∃ d3, e' = .dict d3 ∧ lookup d3 kMethods = some M ∧ lookup d3 kPath = some path ∧
                truthy (getD d3 kTopic) = true := by
              split at h1
              · rename_i ht
                exact ⟨d2, h1.symm, hm2, hp2, ht⟩
              · refine ⟨_, h1.symm, ?_, ?_, ?_⟩
                · rw [lookup_dictSet_ne _ _ _ _ (by decide)]; exact hm2
                · rw [lookup_dictSet_ne _ _ _ _ (by decide)]; exact hp2
                · rw [getD_dictSet_eq]; decide
            obtain ⟨d3, he', hm3, hp3, ht3⟩ := hd3
            subst he'
            have hgm : getD d3 kMethods = M := by simp [getD, hm3]
            have hself1 : dictSet d3 kMethods M = d3 := dictSet_lookup_self _ _ _ hm3
            have hgp : getD d3 kPath = path := by simp [getD, hp3]
            have hself2 : dictSet d3 kPath path = d3 := dictSet_lookup_self _ _ _ hp3
            simp only [fixEndpoint, hgm, ← hM, methodsOf_map_str _ hne, hup]
            rw [hM, hself1, hgp, normPath_fixed path (normPath_out _ _ hpath)]
            simp only [hself2, ht3, ↓reduceIte, hvalid, hseen, h2]
            simp
  | null => simp [fixEndpoint] at h
  | bool _ => simp [fixEndpoint] at h
  | int _ => simp [fixEndpoint] at h
  | float _ => simp [fixEndpoint] at h
  | str _ => simp [fixEndpoint] at h
  | list _ => simp [fixEndpoint] at h
  | tuple _ => simp [fixEndpoint] at h
  | blob _ => simp [fixEndpoint] at h

theorem fixEndpoints_fixed : ∀ (l l' : List Val) (seen : List Str), fixEndpoints true seen l = .ok l' →
    fixEndpoints true seen l' = .ok l' ∧ l'.length = l.length
  | [], l', seen, h => by
    simp only [fixEndpoints] at h; injection h with h; subst h; exact ⟨rfl, rfl⟩
  | e :: r, l', seen, h => by
    simp only [fixEndpoints] at h
    split at h
    · cases h
    · rename_i e' seen' he
      split at h
      · cases h
      · rename_i r' hr
        injection h with h; subst h
        obtain ⟨ih1, ih2⟩ := fixEndpoints_fixed r r' seen' hr
        simp only [fixEndpoints, fixEndpoint_fixed seen e e' seen' he, ih1, List.length_cons, ih2]
        exact ⟨trivial, trivial⟩


def NFEnd (v : Val) : Prop :=
  (∃ l, v = .list l ∧ (l = [] ∨ fixEndpoints true [] l = .ok l)) ∨ ((∀ l, v ≠ .list l) ∧ truthy v = false)

theorem normEndpoints_out (c c' : Dict) (h : normEndpoints true c = .ok c') : NFEnd (getD c' kEndpoints) := by
  unfold normEndpoints at h
  split at h
  · rename_i l hl
    split at h
    · rename_i hnil
      injection h with h; subst h
      left; exact ⟨l, hl, Or.inl hnil⟩
    · split at h
      · cases h
      · rename_i l' hl'
        injection h with h; subst h
        left; rw [getD_dictSet_eq]
        exact ⟨l', rfl, Or.inr (fixEndpoints_fixed l l' [] hl').1⟩
  · rename_i hnl
    split at h
    · cases h
    · rename_i hf
      injection h with h; subst h
      right; exact ⟨fun l e => hnl l e, by simpa using hf⟩

theorem normEndpoints_fixed (c : Dict) (h : NFEnd (getD c kEndpoints)) : normEndpoints true c = .ok c := by
  unfold normEndpoints
  rcases h with ⟨l, hl, hfix⟩ | ⟨hnl, hf⟩
  · rw [hl]
    simp only
    rcases hfix with h0 | hfix
    · simp [h0]
    · split
      · rfl
      · rw [hfix]
        simp only
        have := dictSet_getD_self c kEndpoints (by rw [hl]; intro e; cases e)
        rw [hl] at this; rw [this]
  · split
    · rename_i l hl; exact absurd hl (hnl l)
    · simp [hf]

/-- what the theorems need of the `isdir`/`abspath` outcomes: the absolute path of a directory is a directory and is
its own absolute path -/
def IsDirStable (env : Env) : Prop := ∀ s p, env.isDir s = some p → env.isDir p = some p

def NFRes (env : Env) (v : Val) : Prop :=
  (∃ s, v = .str s ∧ (s = [] ∨ env.isDir s = some s)) ∨ ((∀ s, v ≠ .str s) ∧ truthy v = false)

theorem normResourcePath_out (env : Env) (henv : IsDirStable env) (c c' : Dict) (h : normResourcePath env c = .ok c') :
    NFRes env (getD c' kResourcePath) := by
  unfold normResourcePath at h
  split at h
  · rename_i s hs
    split at h
    · rename_i hnil
      injection h with h; subst h
      left; exact ⟨s, hs, Or.inl hnil⟩
    · split at h
      · cases h
      · rename_i p hp
        injection h with h; subst h
        left; rw [getD_dictSet_eq]
        exact ⟨p, rfl, Or.inr (henv s p hp)⟩
  · rename_i hns
    split at h
    · cases h
    · rename_i hf
      injection h with h; subst h
      right; exact ⟨fun s e => hns s e, by simpa using hf⟩

theorem normResourcePath_fixed (env : Env) (c : Dict) (h : NFRes env (getD c kResourcePath)) :
    normResourcePath env c = .ok c := by
  unfold normResourcePath
  rcases h with ⟨s, hs, hfix⟩ | ⟨hns, hf⟩
  · rw [hs]
    simp only
    rcases hfix with h0 | hfix
    · simp [h0]
    · split
      · rfl
      · rw [hfix]
        simp only
        have := dictSet_getD_self c kResourcePath (by rw [hs]; intro e; cases e)
        rw [hs] at this; rw [this]
  · split
    · rename_i s hs; exact absurd hs (hns s)
    · simp [hf]

end OF.Config
