import OFModel.Config.Base
/-! # C11 helper lemmas: insertion-ordered dictionaries and the `Filter.normalize_config` steps. -/
namespace OF.Config

theorem lookup_dictSet_eq : ∀ (d : Dict) (k : Str) (v : Val), lookup (dictSet d k v) k = some v
  | [], k, v => by simp [dictSet, lookup]
  | (k', v') :: r, k, v => by
    by_cases h : k' = k
    · simp [dictSet, lookup, h]
    · simp [dictSet, lookup, h, lookup_dictSet_eq r k v]

theorem lookup_dictSet_ne : ∀ (d : Dict) (k k2 : Str) (v : Val), k2 ≠ k → lookup (dictSet d k v) k2 = lookup d k2
  | [], k, k2, v, hne => by simp [dictSet, lookup, Ne.symm hne]
  | (k', v') :: r, k, k2, v, hne => by
    by_cases h : k' = k
    · subst h; simp [dictSet, lookup, Ne.symm hne]
    · by_cases h2 : k' = k2
      · subst h2; simp [dictSet, lookup, hne]
      · simp [dictSet, lookup, h, h2, lookup_dictSet_ne r k k2 v hne]

theorem dictSet_lookup_self : ∀ (d : Dict) (k : Str) (v : Val), lookup d k = some v → dictSet d k v = d
  | [], _, _, h => by simp [lookup] at h
  | (k', v') :: r, k, v, h => by
    by_cases e : k' = k
    · simp only [lookup, e, ↓reduceIte, Option.some.injEq] at h
      simp [dictSet, e, h]
    · simp only [lookup, e, ↓reduceIte] at h
      simp [dictSet, e, dictSet_lookup_self r k v h]

theorem getD_dictSet_eq (d : Dict) (k : Str) (v : Val) : getD (dictSet d k v) k = v := by
  simp [getD, lookup_dictSet_eq]

theorem getD_dictSet_ne (d : Dict) (k k2 : Str) (v : Val) (h : k2 ≠ k) : getD (dictSet d k v) k2 = getD d k2 := by
  simp [getD, lookup_dictSet_ne d k k2 v h]

/-- writing back the value a key already reads as (and which is not `None`) changes nothing -/
theorem dictSet_getD_self (d : Dict) (k : Str) (h : getD d k ≠ .null) : dictSet d k (getD d k) = d := by
  unfold getD at h ⊢
  cases e : lookup d k with
  | none => simp [e] at h
  | some v => simpa using dictSet_lookup_self d k v e

/-! ## `split_commas_maybe(s) or None` -/

/-- normal form of a comma-list field: `None`, or a non-string truthy value -/
def NFCommas (v : Val) : Prop := v = .null ∨ (isStrV v = false ∧ truthy v = true)

theorem splitCommasMaybe_not_str (v : Val) : isStrV (splitCommasMaybe v) = true → False := by
  cases v <;> simp [splitCommasMaybe, isStrV]

theorem commasOrNone_nf (v : Val) : NFCommas (commasOrNone v) := by
  unfold commasOrNone
  simp only
  split
  · right
    rename_i h
    refine ⟨?_, h⟩
    cases hs : isStrV (splitCommasMaybe v)
    · rfl
    · exact absurd hs (by intro h'; exact splitCommasMaybe_not_str v h')
  · left; rfl

theorem commasOrNone_fixed (v : Val) (h : NFCommas v) : commasOrNone v = v := by
  rcases h with h | ⟨h1, h2⟩
  · subst h; rfl
  · have : splitCommasMaybe v = v := by
      cases v <;> simp_all [splitCommasMaybe, isStrV]
    simp [commasOrNone, this, h2]

theorem getD_normCommas_eq (orig acc : Dict) (n : Str) (hacc : getD orig n = .null → getD acc n = .null) :
    getD (normCommas orig acc n) n = commasOrNone (getD orig n) := by
  unfold normCommas
  split
  · rename_i h; rw [hacc h, h]; rfl
  · exact getD_dictSet_eq _ _ _

theorem getD_normCommas_ne (orig acc : Dict) (n k : Str) (h : k ≠ n) : getD (normCommas orig acc n) k = getD acc k := by
  unfold normCommas
  split
  · rfl
  · exact getD_dictSet_ne _ _ _ _ h

theorem normCommas_fixed (c : Dict) (n : Str) (h : NFCommas (getD c n)) : normCommas c c n = c := by
  unfold normCommas
  split
  · rfl
  · rename_i hne
    rw [commasOrNone_fixed _ h]
    exact dictSet_getD_self c n (by intro e; exact hne e)

end OF.Config

namespace OF.Config

/-! ## keys, deletion -/

def keys (d : Dict) : List Str := d.map (·.1)

theorem lookup_none_iff : ∀ (d : Dict) (k : Str), lookup d k = none ↔ k ∉ keys d
  | [], k => by simp [lookup, keys]
  | (k', v) :: r, k => by
    have ih := lookup_none_iff r k
    by_cases h : k' = k
    · simp [lookup, keys, h]
    · simp only [lookup, h, ↓reduceIte, keys, List.map_cons, List.mem_cons, not_or]
      simp only [keys] at ih
      rw [ih]
      constructor
      · intro hh; exact ⟨fun e => h e.symm, hh⟩
      · intro hh; exact hh.2

theorem keys_dictSet_present : ∀ (d : Dict) (k : Str) (v : Val), k ∈ keys d → keys (dictSet d k v) = keys d
  | [], _, _, h => by simp [keys] at h
  | (k', v') :: r, k, v, h => by
    by_cases e : k' = k
    · simp [dictSet, keys, e]
    · have : k ∈ keys r := by
        simp only [keys, List.map_cons, List.mem_cons] at h
        rcases h with h | h
        · exact absurd h.symm e
        · exact h
      have ih := keys_dictSet_present r k v this
      simp only [keys] at ih
      simp [dictSet, keys, e, ih]

theorem mem_keys_of_getD_ne_null (d : Dict) (k : Str) (h : getD d k ≠ .null) : k ∈ keys d := by
  apply Classical.byContradiction
  intro hn
  have := (lookup_none_iff d k).2 hn
  simp [getD, this] at h

theorem dictSet_absent (d : Dict) (k : Str) (v : Val) (h : k ∉ keys d) : dictSet d k v = d ++ [(k, v)] := by
  induction d with
  | nil => rfl
  | cons p r ih =>
    obtain ⟨k', v'⟩ := p
    simp only [keys, List.map_cons, List.mem_cons, not_or] at h
    have h1 : k' ≠ k := fun e => h.1 e.symm
    simp only [dictSet, h1, ↓reduceIte, List.cons_append]
    rw [ih (by simpa [keys] using h.2)]

theorem dictDel_absent (d : Dict) (k : Str) (h : k ∉ keys d) : dictDel d k = d := by
  unfold dictDel
  rw [List.filter_eq_self]
  intro p hp
  simp only [ne_eq, decide_not, Bool.not_eq_eq_eq_not, Bool.not_true, decide_eq_false_iff_not]
  intro e
  exact h (by simp only [keys, List.mem_map]; exact ⟨p, hp, e⟩)

theorem not_mem_keys_dictDel (d : Dict) (k : Str) : k ∉ keys (dictDel d k) := by
  simp only [keys, dictDel, List.mem_map, List.mem_filter, not_exists, not_and]
  intro p hp e
  simp [e] at hp

theorem dictDel_append_last (d : Dict) (k : Str) (v : Val) (h : k ∉ keys d) : dictDel (d ++ [(k, v)]) k = d := by
  unfold dictDel
  rw [List.filter_append]
  have := dictDel_absent d k h
  unfold dictDel at this
  rw [this]; simp

theorem getD_dictDel_eq (d : Dict) (k : Str) : getD (dictDel d k) k = .null := by
  have := (lookup_none_iff _ _).2 (not_mem_keys_dictDel d k)
  simp [getD, this]

theorem dictDel_cons_eq (k : Str) (v : Val) (r : Dict) : dictDel ((k, v) :: r) k = dictDel r k := by
  simp [dictDel]

theorem dictDel_cons_ne (k k' : Str) (v : Val) (r : Dict) (h : k' ≠ k) : dictDel ((k', v) :: r) k = (k', v) :: dictDel r k := by
  simp [dictDel, h]

theorem lookup_dictDel_ne : ∀ (d : Dict) (k k2 : Str), k2 ≠ k → lookup (dictDel d k) k2 = lookup d k2
  | [], _, _, _ => rfl
  | (k', v') :: r, k, k2, h => by
    have ih := lookup_dictDel_ne r k k2 h
    by_cases e : k' = k
    · subst e
      rw [dictDel_cons_eq, ih]
      simp [lookup, Ne.symm h]
    · rw [dictDel_cons_ne _ _ _ _ e]
      by_cases e2 : k' = k2
      · simp [lookup, e2]
      · simp [lookup, e2, ih]

theorem getD_dictDel_ne (d : Dict) (k k2 : Str) (h : k2 ≠ k) : getD (dictDel d k) k2 = getD d k2 := by
  simp [getD, lookup_dictDel_ne d k k2 h]

theorem getD_append_last (d : Dict) (k : Str) (v : Val) (h : k ∉ keys d) : getD (d ++ [(k, v)]) k = v := by
  rw [← dictSet_absent d k v h, getD_dictSet_eq]

theorem getD_append_ne (d : Dict) (k k2 : Str) (v : Val) (h : k ∉ keys d) (hne : k2 ≠ k) :
    getD (d ++ [(k, v)]) k2 = getD d k2 := by
  rw [← dictSet_absent d k v h, getD_dictSet_ne _ _ _ _ hne]

end OF.Config
