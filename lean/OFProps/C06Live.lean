import OFProps.PairRecv
import OFProps.PairSend
import OFProps.C02
set_option linter.unusedSimpArgs false
/-!
# C06 — the closed pair always can heal (`OFModel/Zmq/Pair.lean`)

System: one `ZMQSender` (one bound output) and one synchronised all-topics `ZMQReceiver`, wired to each other; events
`sendCall payload t | recvCall | restartConsumer graceful | restartPublisher graceful` (see the model's header for what
is abstracted: immediate loss-free FIFO delivery, instant reconnect; the HELLO handshake, fast-forward, eviction are the
endpoint models' own).  NO bound on the history.

Proved, for EVERY state reachable by ANY schedule (restarts of either side anywhere, any payloads, any clock readings):
* `C06_pair_recovers_const` (+ `_explicit`, `C06_pair_recovery_bound_const`) — THE MAIN RESULT.  The fixed 12-event
  continuation `healConst t1 t2 b` = `[send @t1] × 3 ++ [recv] ++ [send @t2; recv] × 4`, with `t2` more than
  ZMQ_CONN_TIMEOUT after `t1` and after every client's last request (`healTime`), makes `recv` return a frame set with an
  id above everything this consumer incarnation returned before.  No reachable deadlock, and recovery within
  5 polls + one connection time-out (+ three `send` calls that return at once).  It rests on two invariants:
  - `Shape` (`C06_pair_shape_invariant`): both endpoints between calls, single source / single output, receive buffer
    incomplete with distinct keys, receiver not dead, ids in range;
  - `Tight` (`tight_step`, `tight_reachable`): all adoptable wire messages in flight carry one id; while one is in flight
    no request is queued; the request ids at or beyond the publisher's next id take at most two values — so at most two
    fast-forwards are pending and three `send`s empty the request queue (`sends_two`);
  and on a progress measure for the rounds at `t2` (`stage` ∈ {3 HELLO, 2 fast-forward, 1 publish of the expected id,
  0 publish of a strictly newer id}) that strictly decreases in every round that does not deliver (`round_progress`).
* `C06_pair_recovers` (+ `_explicit`, `C06_pair_recovery_bound`) — the same from `Shape` alone, i.e. assuming NOTHING
  about what is queued in either channel, about the client table or about ids (so also under loss, duplication, stale
  traffic): schedule `heal st t1 t2 b` with one `send @t1` per queued request instead of three: `#queued requests + 9`
  events, still 5 polls and one connection time-out.
* `C06_pair_recovers_quiet_partial`, `C06_pair_recovers_after_publisher_restart_partial` — 9 events when the request
  channel is empty; after a publisher restart additionally at ANY clock reading (no time-out has to expire).
* `C06_pair_order`, `C06_pair_order_from` — safety along the way: per consumer incarnation the returned ids are
  strictly increasing over any run (restarts anywhere); `C06_pair_order_by_C02` obtains the same for one incarnation
  literally from `C02_strict_order`, through `consumer_as_run` / `call0_as_run`: the consumer inside the closed system
  IS the receiver event machine (its `recv` is a run of `begin, take*, check | request, timeout`), so every receiver
  theorem for arbitrary event sequences applies to it.
Examples (kernel-evaluated): a consumer crash healed (ids 3, 4, 5 after 0, 1), a publisher restart healed without waiting
(HELLO, fast-forward, ids 2, 3), and the negative witness that without the wait a dead incarnation's entry holds the publisher.
Not proved: anything about more than two endpoints; fairness-based liveness (the theorems exhibit a schedule, they do not
say every fair schedule heals); the constant 3 of the draining phase is not shown minimal.
-/
namespace OF.Pair
open OF

/-- states reachable from the initial pair by any schedule, restarts of either side included -/
inductive Reachable : St → Prop where
  | init : Reachable init
  | step (st : St) (e : Ev) : Reachable st → Reachable (step st e).1

/-- the invariant: both endpoints are between calls and have the shape of the pair (nothing is said about what is
queued in either channel, about the client table or about the ids) -/
structure Shape (st : St) : Prop where
  con : ∃ s, Idle st.con s
  pub : ∃ q, PubIdle st.pub q

theorem idle_pushWires (c : Recv.St) (s : Recv.Src) (ws : List Recv.Wire) (h : Idle c s) :
    Idle (pushWires c ws) { s with queue := s.queue ++ ws } := by
  refine ⟨by simp [pushWires, h.srcs], ⟨h.shape.eph, h.shape.subAll, h.shape.star, h.shape.subs⟩,
    ⟨h.static.dead, h.static.balance, h.static.lowLat⟩, h.reg, ?_, h.keys, h.inCall, h.prev⟩
  exact (gotAll_congr _ s rfl).trans h.notAll

theorem pubIdle_pushReqs (p : Send.St) (q rs : List Send.Req) (h : PubIdle p q) : PubIdle (pushReqs p rs) (q ++ rs) :=
  ⟨by simp [pushReqs, h.queues], h.balance, h.required, h.inCall, h.minpos⟩

theorem idle_fresh : Idle freshCon (Recv.mkSrc 0 none) := by
  refine ⟨rfl, ⟨rfl, rfl, rfl, rfl⟩, ⟨rfl, rfl, rfl⟩, rfl, rfl, ?_, rfl, ?_⟩
  · intro l hl; cases hl
  · decide

theorem pubIdle_fresh : PubIdle freshPub [] := ⟨rfl, rfl, rfl, rfl, by decide⟩

/-- some clock reading bounds every `t_last` of a client table and a given time -/
theorem exists_stale (cl : Send.Clients) (t : Int) : ∃ T, Stale T cl ∧ t ≤ T := by
  induction cl with
  | nil => exact ⟨t, (by intro x hx; cases hx), Int.le_refl _⟩
  | cons x xs ih =>
    rcases ih with ⟨T, h1, h2⟩
    refine ⟨max T x.2.tLast, ?_, by omega⟩
    intro y hy
    rcases List.mem_cons.mp hy with rfl | hy'
    · omega
    · have := h1 y hy'; omega

/-- **the invariant is kept by every event** -/
theorem shape_step (st : St) (e : Ev) (h : Shape st) : Shape (step st e).1 := by
  rcases h with ⟨⟨s, hc⟩, ⟨q, hp⟩⟩
  cases e with
  | sendCall payload t =>
    have ⟨T, hT, ht⟩ := exists_stale st.pub.clients t
    have ⟨q', h1, _, _⟩ := send0_spec st.pub q payload t T hp hT ht
    exact ⟨⟨_, idle_pushWires _ s _ hc⟩, ⟨q', h1⟩⟩
  | recvCall =>
    have ⟨s', h1, _⟩ := call0_spec st.con s hc
    exact ⟨⟨s', h1⟩, ⟨_, pubIdle_pushReqs _ q _ hp⟩⟩
  | restartConsumer g => exact ⟨⟨_, idle_fresh⟩, ⟨_, pubIdle_pushReqs _ q _ hp⟩⟩
  | restartPublisher g => exact ⟨⟨_, idle_pushWires _ s _ hc⟩, ⟨_, pubIdle_fresh⟩⟩

theorem shape_init : Shape init := ⟨⟨_, idle_fresh⟩, ⟨_, pubIdle_fresh⟩⟩

/-- **every reachable state satisfies the invariant** -/
theorem shape_reachable (st : St) (h : Reachable st) : Shape st := by
  induction h with
  | init => exact shape_init
  | step st e _ ih => exact shape_step st e ih

/-! ### the healing schedule -/

/-- ids of the frame sets the consumer's `recv` returned during one event -/
def obsRets : Obs → List Int
  | .rcvd outs => Recv.retIds outs
  | _ => []

/-- ids of all frame sets returned along a run, in order -/
def returned (obs : List Obs) : List Int := obs.flatMap obsRets

theorem run_append (st : St) (a b : List Ev) :
    run st (a ++ b) = ((run (run st a).1 b).1, (run st a).2 ++ (run (run st a).1 b).2) := by
  induction a generalizing st with
  | nil => simp [run]
  | cons e es ih => simp only [List.cons_append, run, ih, List.cons_append]

theorem returned_append (a b : List Obs) : returned (a ++ b) = returned a ++ returned b := by
  simp [returned]

/-- the healing payload: one frame on topic `main` -/
def mainPayload (b : Nat) : Send.Payload := .topics [("main", b)]

/-- `m` sends at clock reading `t` -/
def sends (m : Nat) (t : Int) (b : Nat) : List Ev := List.replicate m (.sendCall (mainPayload b) t)

/-- sending alone never makes the consumer return anything, never touches its ids, and empties the request queue
in at most as many calls as requests are queued -/
theorem sends_spec : ∀ (m : Nat) (st : St) (q : List Send.Req) (s : Recv.Src) (t T : Int) (b : Nat),
    PubIdle st.pub q → Idle st.con s → Stale T st.pub.clients → t ≤ T → q.length ≤ m →
    PubIdle (run st (sends m t b)).1.pub [] ∧ (∃ s', Idle (run st (sends m t b)).1.con s') ∧
    Stale T (run st (sends m t b)).1.pub.clients ∧ (run st (sends m t b)).1.gen = st.gen ∧
    (run st (sends m t b)).1.con.prevId = st.con.prevId ∧ returned (run st (sends m t b)).2 = [] := by
  intro m
  induction m with
  | zero =>
    intro st q s t T b hp hc hs _ hl
    have : q = [] := List.length_eq_zero_iff.mp (by omega)
    subst this
    exact ⟨hp, ⟨s, hc⟩, hs, rfl, rfl, rfl⟩
  | succ m ih =>
    intro st q s t T b hp hc hs ht hl
    have ⟨q', h1, h2, h3⟩ := send0_spec st.pub q (mainPayload b) t T hp hs ht
    have hl' : q'.length ≤ m := by
      rcases h2 with h2 | h2
      · rw [h2]; simp
      · omega
    have hc' := idle_pushWires st.con s ((Send.send0 st.pub none (mainPayload b) false [0] t).2.filterMap wireOf) hc
    have := ih (step st (.sendCall (mainPayload b) t)).1 q' _ t T b h1 hc' h3 ht hl'
    simp only [sends, List.replicate_succ, run]
    refine ⟨this.1, this.2.1, this.2.2.1, this.2.2.2.1, this.2.2.2.2.1, ?_⟩
    have hr := this.2.2.2.2.2
    simp only [sends] at hr
    simp only [returned, List.flatMap_cons] at hr ⊢
    rw [hr]; rfl


/-- the request the consumer pushes when it times out in its current state -/
def curReq (st : St) (s : Recv.Src) : Send.Req := reqFor (uidOf st.gen) st.con.prevId (!s.conn)

/-- one `recvCall` of the pair, whatever is queued: a new frame set is returned, or the consumer ends with an empty
queue and exactly its current request is appended to the publisher's queue -/
theorem recvStep_spec (st : St) (s : Recv.Src) (q : List Send.Req) (hc : Idle st.con s) (hp : PubIdle st.pub q) :
    (step st .recvCall).1.gen = st.gen ∧ (step st .recvCall).1.pub.clients = st.pub.clients ∧
    (step st .recvCall).1.pub.minSendId = st.pub.minSendId ∧ st.con.prevId ≤ (step st .recvCall).1.con.prevId ∧
    ((∃ id ∈ obsRets (step st .recvCall).2, st.con.prevId < id) ∨
     (∃ s', Idle (step st .recvCall).1.con s' ∧ s'.queue = [] ∧
        PubIdle (step st .recvCall).1.pub (q ++ [curReq (step st .recvCall).1 s']) ∧
        ((∀ w ∈ s.queue, w.mid ≠ OF.Facts.MSG_ID_CLOSE) → s.queue ≠ [] → s'.conn = true) ∧
        ((step st .recvCall).1.con.prevId = st.con.prevId ∨
          ∃ w ∈ s.queue, (step st .recvCall).1.con.prevId = w.mid - 1))) := by
  have ⟨s', h1, _, h3, h4⟩ := call0_spec st.con s hc
  refine ⟨rfl, rfl, rfl, h3, ?_⟩
  rcases h4 with ⟨id, h5, h6, _⟩ | ⟨_, h6, h7, h8, _, h10⟩
  · left
    refine ⟨id, ?_, h6⟩
    show id ∈ Recv.retIds (Recv.call0 st.con none [0]).2
    rw [h5]; simp
  · right
    refine ⟨s', h1, h6, ?_, h8, h10⟩
    have hq : (step st .recvCall).1.pub =
        pushReqs st.pub [reqFor (uidOf st.gen) (Recv.call0 st.con none [0]).1.prevId (!s'.conn)] := by
      show pushReqs st.pub _ = _
      rw [h7 (uidOf st.gen)]
    rw [hq]
    exact pubIdle_pushReqs st.pub q _ hp


/-- consumer waiting: its queue is empty, its current request is the only thing queued at the publisher, and every
other client-table entry is past the connection time-out at clock reading `t2` -/
structure Waiting (st : St) (t2 : Int) (s : Recv.Src) : Prop where
  con : Idle st.con s
  empty : s.queue = []
  pub : PubIdle st.pub [curReq st s]
  stale : OthersStale (fidOf (curReq st s)) t2 st.pub.clients

/-- how far the handshake has got: 3 = HELLO still needed, 2 = the publisher must fast-forward, 1 = the next publish
carries exactly the expected id (it may meet a stale partial buffer), 0 = the next publish is strictly newer -/
def stage (st : St) (s : Recv.Src) : Nat :=
  if needsHello st.pub (curReq st s) = true then 3
  else if st.pub.minSendId ≤ st.con.prevId then 2
  else if st.pub.minSendId = st.con.prevId + 1 then 1 else 0

/-- one healing round: the publisher sends, the consumer receives -/
def round (t : Int) (b : Nat) : List Ev := [.sendCall (mainPayload b) t, .recvCall]

theorem run_round (st : St) (t : Int) (b : Nat) :
    run st (round t b) =
      ((step (step st (.sendCall (mainPayload b) t)).1 .recvCall).1,
       [(step st (.sendCall (mainPayload b) t)).2, (step (step st (.sendCall (mainPayload b) t)).1 .recvCall).2]) := rfl

theorem returned_round (st : St) (t : Int) (b : Nat) :
    returned (run st (round t b)).2 = obsRets (step (step st (.sendCall (mainPayload b) t)).1 .recvCall).2 := by
  rw [run_round]; simp [returned, obsRets, step, stepSend]

theorem pushWires_nil (c : Recv.St) : pushWires c [] = c := by
  simp [pushWires]

theorem curReq_data (st : St) (s : Recv.Src) (h : -1 ≤ st.con.prevId) : ¬ (curReq st s).mid ≤ OF.Facts.MSG_ID_SPECIAL := by
  have : OF.Facts.MSG_ID_SPECIAL = -2 := rfl
  simp only [curReq, reqFor]; omega


theorem fidOf_curReq (st : St) (s : Recv.Src) : fidOf (curReq st s) = CID ++ uidOf st.gen := rfl

theorem hello_not_close : helloWire.mid ≠ OF.Facts.MSG_ID_CLOSE := by decide

/-- stage 3: HELLO goes out, the consumer hears it and stops saying `new` -/
theorem round_hello (st : St) (t2 : Int) (b : Nat) (s : Recv.Src) (h : Waiting st t2 s)
    (hA : needsHello st.pub (curReq st s) = true) :
    (∃ id ∈ returned (run st (round t2 b)).2, st.con.prevId < id) ∨
    (∃ s', Waiting (run st (round t2 b)).1 t2 s' ∧ stage (run st (round t2 b)).1 s' < 3 ∧
      st.con.prevId ≤ (run st (round t2 b)).1.con.prevId) := by
  have hd := curReq_data st s h.con.prev
  have ⟨p1, p2, _, p4⟩ := send0_hello st.pub (curReq st s) (mainPayload b) t2 h.pub hd hA
  have hc1 : Idle (step st (.sendCall (mainPayload b) t2)).1.con { s with queue := s.queue ++ [helloWire] } := by
    have hcon : (step st (.sendCall (mainPayload b) t2)).1.con = pushWires st.con [helloWire] := by
      show pushWires st.con _ = _
      rw [p4]
    rw [hcon]; exact idle_pushWires st.con s _ h.con
  have R := recvStep_spec (step st (.sendCall (mainPayload b) t2)).1 _ [] hc1 p1
  rw [returned_round, run_round]
  rcases R with ⟨g1, g2, _, g4, g5⟩
  rcases g5 with ⟨id, hid, hlt⟩ | ⟨s', i1, i2, i3, i4, _⟩
  · left; exact ⟨id, hid, hlt⟩
  · right
    have hconn : s'.conn = true := by
      apply i4
      · intro w hw
        simp only [h.empty, List.nil_append, List.mem_singleton] at hw
        rw [hw]; exact hello_not_close
      · simp
    refine ⟨s', ⟨i1, i2, i3, ?_⟩, ?_, g4⟩
    · rw [fidOf_curReq, g1, g2]
      show OthersStale (CID ++ uidOf st.gen) t2 (Send.send0 st.pub none (mainPayload b) false [0] t2).1.clients
      rw [p2]; exact h.stale
    · have : needsHello (step (step st (.sendCall (mainPayload b) t2)).1 .recvCall).1.pub
          (curReq (step (step st (.sendCall (mainPayload b) t2)).1 .recvCall).1 s') = false := by
        simp [needsHello, curReq, reqFor, hconn]
      unfold stage
      simp only [this, Bool.false_eq_true, ↓reduceIte]
      split
      · omega
      · split <;> omega


/-- stage 2: the publisher adopts the consumer's id, nothing is published yet -/
theorem round_ffwd (st : St) (t2 : Int) (b : Nat) (s : Recv.Src) (h : Waiting st t2 s)
    (hA : needsHello st.pub (curReq st s) = false) (hB : st.pub.minSendId ≤ st.con.prevId) :
    (∃ id ∈ returned (run st (round t2 b)).2, st.con.prevId < id) ∨
    (∃ s', Waiting (run st (round t2 b)).1 t2 s' ∧ stage (run st (round t2 b)).1 s' < 2 ∧
      st.con.prevId ≤ (run st (round t2 b)).1.con.prevId) := by
  have hd := curReq_data st s h.con.prev
  have ⟨p1, p2, p3, p4⟩ := send0_ffwd st.pub (curReq st s) (mainPayload b) t2 h.pub hd hA rfl hB
  have hcon : (step st (.sendCall (mainPayload b) t2)).1.con = st.con := by
    show pushWires st.con _ = _
    rw [p4, pushWires_nil]
  have hc1 : Idle (step st (.sendCall (mainPayload b) t2)).1.con s := by rw [hcon]; exact h.con
  have R := recvStep_spec (step st (.sendCall (mainPayload b) t2)).1 s [] hc1 p1
  rw [returned_round, run_round]
  rcases R with ⟨g1, g2, g3, g4, g5⟩
  rw [hcon] at g4 g5
  rcases g5 with ⟨id, hid, hlt⟩ | ⟨s', i1, i2, i3, _, i5⟩
  · left; exact ⟨id, hid, hlt⟩
  · right
    have hprev : (step (step st (.sendCall (mainPayload b) t2)).1 .recvCall).1.con.prevId = st.con.prevId := by
      rcases i5 with i5 | ⟨w, hw, _⟩
      · exact i5
      · rw [h.empty] at hw; cases hw
    have hcl : (step (step st (.sendCall (mainPayload b) t2)).1 .recvCall).1.pub.clients =
        Send.cset st.pub.clients (fidOf (curReq st s)) (entryOf (curReq st s) t2) := by rw [g2]; exact p2
    have hmin : (step (step st (.sendCall (mainPayload b) t2)).1 .recvCall).1.pub.minSendId = st.con.prevId + 1 := by
      rw [g3]; exact p3
    refine ⟨s', ⟨i1, i2, i3, ?_⟩, ?_, g4⟩
    · rw [fidOf_curReq, g1, hcl]
      intro x hx hne
      rcases mem_cset _ _ _ x hx with h1 | h1
      · exact h.stale x h1 hne
      · rw [h1] at hne; exact absurd (fidOf_curReq st s) hne
    · have hnh : needsHello (step (step st (.sendCall (mainPayload b) t2)).1 .recvCall).1.pub
          (curReq (step (step st (.sendCall (mainPayload b) t2)).1 .recvCall).1 s') = false := by
        have hfid2 : fidOf (curReq (step (step st (.sendCall (mainPayload b) t2)).1 .recvCall).1 s') =
            fidOf (curReq st s) := by rw [fidOf_curReq, fidOf_curReq, g1]; rfl
        unfold needsHello
        rw [hcl, hfid2, cset_any]; rfl
      unfold stage
      rw [hnh, hmin, hprev]
      have h1 : ¬ (st.con.prevId + 1 ≤ st.con.prevId) := by omega
      simp [h1]


/-- stages 1 and 0: the stale entries are evicted, the next id is published; the consumer returns it, unless it carries
exactly the expected id and meets a stale partial buffer — then the following publish is strictly newer -/
theorem round_publish (st : St) (t2 : Int) (b : Nat) (s : Recv.Src) (h : Waiting st t2 s)
    (hA : needsHello st.pub (curReq st s) = false) (hB : st.con.prevId < st.pub.minSendId) :
    (∃ id ∈ returned (run st (round t2 b)).2, st.con.prevId < id) ∨
    (st.pub.minSendId = st.con.prevId + 1 ∧
     ∃ s', Waiting (run st (round t2 b)).1 t2 s' ∧ stage (run st (round t2 b)).1 s' = 0 ∧
      st.con.prevId ≤ (run st (round t2 b)).1.con.prevId) := by
  have hd := curReq_data st s h.con.prev
  have ⟨p1, p2, p3, p4, p5⟩ := send0_publish st.pub (curReq st s) b t2 h.pub hd hA hB h.stale
  have hcon : (step st (.sendCall (mainPayload b) t2)).1.con =
      pushWires st.con [mainWire st.pub.minSendId b, hbWire st.pub.minSendId] := by
    show pushWires st.con _ = _
    rw [mainPayload, p5]
  have hc1 : Idle (step st (.sendCall (mainPayload b) t2)).1.con
      { s with queue := s.queue ++ [mainWire st.pub.minSendId b, hbWire st.pub.minSendId] } := by
    rw [hcon]; exact idle_pushWires st.con s _ h.con
  have hq1 : ({ s with queue := s.queue ++ [mainWire st.pub.minSendId b, hbWire st.pub.minSendId] } : Recv.Src).queue =
      mainWire st.pub.minSendId b :: [hbWire st.pub.minSendId] := by simp [h.empty]
  have hprev1 : (step st (.sendCall (mainPayload b) t2)).1.con.prevId = st.con.prevId := by rw [hcon]; rfl
  rw [returned_round, run_round]
  by_cases hC : st.pub.minSendId = st.con.prevId + 1
  · -- the expected id itself
    have R := recvStep_spec (step st (.sendCall (mainPayload b) t2)).1 _ [] hc1 p1
    rcases R with ⟨g1, g2, g3, g4, g5⟩
    rw [hprev1] at g4 g5
    rcases g5 with ⟨id, hid, hlt⟩ | ⟨s', i1, i2, i3, _, i5⟩
    · left; exact ⟨id, hid, hlt⟩
    · right
      have hprev : (step (step st (.sendCall (mainPayload b) t2)).1 .recvCall).1.con.prevId = st.con.prevId := by
        rcases i5 with i5 | ⟨w, hw, hv⟩
        · exact i5
        · rw [hq1] at hw
          have hm : w.mid = st.pub.minSendId := by
            simp only [List.mem_cons, List.mem_singleton, List.not_mem_nil, or_false] at hw
            rcases hw with rfl | rfl <;> rfl
          rw [hv, hm]; omega
      have hfid2 : fidOf (curReq (step (step st (.sendCall (mainPayload b) t2)).1 .recvCall).1 s') =
          fidOf (curReq st s) := by rw [fidOf_curReq, fidOf_curReq, g1]; rfl
      have hcl : (step (step st (.sendCall (mainPayload b) t2)).1 .recvCall).1.pub.clients =
          (Send.send0 st.pub none (Send.Payload.topics [("main", b)]) false [0] t2).1.clients := g2
      have hmin : (step (step st (.sendCall (mainPayload b) t2)).1 .recvCall).1.pub.minSendId = st.pub.minSendId + 1 := by
        rw [g3]; exact p4
      refine ⟨hC, s', ⟨i1, i2, i3, ?_⟩, ?_, g4⟩
      · rw [hfid2, hcl]
        intro x hx hne
        exact absurd (p2 x hx) hne
      · have hnh : needsHello (step (step st (.sendCall (mainPayload b) t2)).1 .recvCall).1.pub
            (curReq (step (step st (.sendCall (mainPayload b) t2)).1 .recvCall).1 s') = false := by
          unfold needsHello
          rw [hcl, hfid2, p3]; rfl
        unfold stage
        rw [hnh, hmin, hprev]
        have h1 : ¬ (st.pub.minSendId + 1 ≤ st.con.prevId) := by omega
        have h2 : ¬ (st.pub.minSendId + 1 = st.con.prevId + 1) := by omega
        simp [h1, h2]
  · -- strictly newer: returned at once
    left
    have hn : (step st (.sendCall (mainPayload b) t2)).1.con.prevId + 1 < st.pub.minSendId := by rw [hprev1]; omega
    have ⟨r1, _⟩ := call0_newer _ _ st.pub.minSendId b [hbWire st.pub.minSendId] hc1 hq1 hn
    refine ⟨st.pub.minSendId, ?_, hB⟩
    show st.pub.minSendId ∈ Recv.retIds (Recv.call0 (step st (.sendCall (mainPayload b) t2)).1.con none [0]).2
    rw [r1]; simp

/-- **one healing round makes progress**: a new frame set is returned, or the handshake stage strictly decreases -/
theorem round_progress (st : St) (t2 : Int) (b : Nat) (s : Recv.Src) (h : Waiting st t2 s) :
    (∃ id ∈ returned (run st (round t2 b)).2, st.con.prevId < id) ∨
    (∃ s', Waiting (run st (round t2 b)).1 t2 s' ∧ stage (run st (round t2 b)).1 s' < stage st s ∧
      st.con.prevId ≤ (run st (round t2 b)).1.con.prevId) := by
  by_cases hA : needsHello st.pub (curReq st s) = true
  · have hs : stage st s = 3 := by simp [stage, hA]
    rw [hs]; exact round_hello st t2 b s h hA
  · have hA' : needsHello st.pub (curReq st s) = false := by simpa using hA
    by_cases hB : st.pub.minSendId ≤ st.con.prevId
    · have hs : stage st s = 2 := by simp [stage, hA', hB]
      rw [hs]; exact round_ffwd st t2 b s h hA' hB
    · rcases round_publish st t2 b s h hA' (by omega) with h1 | ⟨hC, s', h2, h3, h4⟩
      · exact Or.inl h1
      · right
        have hs : stage st s = 1 := by
          unfold stage
          rw [if_neg hA, if_neg hB, if_pos hC]
        exact ⟨s', h2, by rw [hs, h3]; decide, h4⟩


/-- `k` healing rounds -/
def rounds : Nat → Int → Nat → List Ev
  | 0, _, _ => []
  | k + 1, t, b => round t b ++ rounds k t b

theorem stage_le (st : St) (s : Recv.Src) : stage st s ≤ 3 := by
  unfold stage
  split
  · omega
  · split
    · omega
    · split <;> omega

/-- from a waiting state, as many rounds as the stage (plus one) deliver a new frame set -/
theorem rounds_heal : ∀ (k : Nat) (st : St) (t2 : Int) (b : Nat) (s : Recv.Src), Waiting st t2 s → stage st s < k →
    ∃ id ∈ returned (run st (rounds k t2 b)).2, st.con.prevId < id := by
  intro k
  induction k with
  | zero => intro st t2 b s _ hk; omega
  | succ k ih =>
    intro st t2 b s hw hk
    simp only [rounds]
    rw [run_append, returned_append]
    rcases round_progress st t2 b s hw with ⟨id, hid, hlt⟩ | ⟨s', hw', hst, hle⟩
    · exact ⟨id, List.mem_append_left _ hid, hlt⟩
    · have ⟨id, hid, hlt⟩ := ih _ t2 b s' hw' (by omega)
      exact ⟨id, List.mem_append_right _ hid, by omega⟩

/-- the healing schedule, an explicit function of the state (only the length of the request channel matters) and of
two clock readings: empty the publisher's request queue at `t1` (no waiting), let the consumer poll once, then four
rounds at `t2` -/
def heal (st : St) (t1 t2 : Int) (b : Nat) : List Ev :=
  sends (reqChan st).length t1 b ++ ([.recvCall] ++ rounds 4 t2 b)

theorem reqChan_single (st : St) (q : List Send.Req) (h : st.pub.queues = [q]) : reqChan st = q := by
  simp [reqChan, h]

/-- the healing schedule works from every state satisfying the invariant -/
theorem heal_from_shape (st : St) (hsh : Shape st) (t1 t2 : Int) (b : Nat)
    (h1 : t1 + OF.Facts.ZMQ_CONN_TIMEOUT < t2)
    (h2 : ∀ x ∈ st.pub.clients, x.2.tLast + OF.Facts.ZMQ_CONN_TIMEOUT < t2) :
    ∃ id ∈ returned (run st (heal st t1 t2 b)).2, st.con.prevId < id := by
  rcases hsh with ⟨⟨s, hc⟩, ⟨q, hp⟩⟩
  have hs : Stale (t2 - OF.Facts.ZMQ_CONN_TIMEOUT - 1) st.pub.clients := by
    intro x hx; have := h2 x hx; omega
  have ⟨a1, ⟨s1, a2⟩, a3, a4, a5, a6⟩ := sends_spec q.length st q s t1 (t2 - OF.Facts.ZMQ_CONN_TIMEOUT - 1) b hp hc hs
    (by omega) (Nat.le_refl _)
  unfold heal
  rw [reqChan_single st q hp.queues, run_append, returned_append, a6, List.nil_append, run_append, returned_append]
  generalize (run st (sends q.length t1 b)).1 = st1 at a1 a2 a3 a4 a5
  have R := recvStep_spec st1 s1 [] a2 a1
  have hrun1 : run st1 [.recvCall] = ((step st1 .recvCall).1, [(step st1 .recvCall).2]) := rfl
  rw [hrun1]
  rcases R with ⟨g1, g2, _, g4, g5⟩
  rcases g5 with ⟨id, hid, hlt⟩ | ⟨s2, i1, i2, i3, _, _⟩
  · refine ⟨id, List.mem_append_left _ ?_, by omega⟩
    simp only [returned, List.flatMap_cons, List.flatMap_nil, List.append_nil]; exact hid
  · have hw : Waiting (step st1 .recvCall).1 t2 s2 := by
      refine ⟨i1, i2, i3, ?_⟩
      intro x hx _
      rw [g2] at hx
      have := a3 x hx; omega
    have ⟨id, hid, hlt⟩ := rounds_heal 4 _ t2 b s2 hw (by have := stage_le (step st1 .recvCall).1 s2; omega)
    exact ⟨id, List.mem_append_right _ hid, by omega⟩


/-! ### the theorems -/

/-- **C06 (the invariant)**: `Shape` holds initially and is kept by every event, so it holds in every reachable state -/
theorem C06_pair_shape_invariant : Shape init ∧ (∀ st e, Shape st → Shape (step st e).1) ∧ ∀ st, Reachable st → Shape st :=
  ⟨shape_init, shape_step, shape_reachable⟩

/-- **C06 (the closed pair always can heal)**: from EVERY state reachable from the initial pair by ANY schedule of
`send` / `recv` calls and restarts (graceful or crash) of either side at any point, the explicit continuation
`heal st t1 t2 b` — empty the publisher's request queue with `send`s at any clock reading `t1`, one `recv`, then four
rounds `[send; recv]` at any clock reading `t2` that is more than `ZMQ_CONN_TIMEOUT` after `t1` and after every client's
last request — makes the consumer's `recv` return a frame set whose id is above its `prev_id`, i.e. above every id this
consumer incarnation has returned (`C06_pair_order`).  No reachable deadlock. -/
theorem C06_pair_recovers (st : St) (hr : Reachable st) (t1 t2 : Int) (b : Nat)
    (h1 : t1 + OF.Facts.ZMQ_CONN_TIMEOUT < t2)
    (h2 : ∀ x ∈ st.pub.clients, x.2.tLast + OF.Facts.ZMQ_CONN_TIMEOUT < t2) :
    ∃ id ∈ returned (run st (heal st t1 t2 b)).2, st.con.prevId < id :=
  heal_from_shape st (shape_reachable st hr) t1 t2 b h1 h2

/-- the latest clock reading the publisher's client table remembers (at least `t`) -/
def lastHeard (cl : Send.Clients) (t : Int) : Int := cl.foldl (fun m x => max m x.2.tLast) t

theorem lastHeard_ge (cl : Send.Clients) (t : Int) : t ≤ lastHeard cl t ∧ ∀ x ∈ cl, x.2.tLast ≤ lastHeard cl t := by
  unfold lastHeard
  induction cl generalizing t with
  | nil => exact ⟨Int.le_refl _, by intro x hx; cases hx⟩
  | cons y ys ih =>
    simp only [List.foldl_cons]
    have ⟨a, c⟩ := ih (max t y.2.tLast)
    refine ⟨by omega, ?_⟩
    intro x hx
    rcases List.mem_cons.mp hx with rfl | hx'
    · omega
    · exact c x hx'

/-- the second clock reading of the healing schedule as a function of the state: one connection time-out after the
later of `t1` and the last request the publisher remembers -/
def healTime (st : St) (t1 : Int) : Int := lastHeard st.pub.clients t1 + OF.Facts.ZMQ_CONN_TIMEOUT + 1

/-- **C06 (explicit schedule)**: the continuation is a function of the state and of the current clock reading only -/
theorem C06_pair_recovers_explicit (st : St) (hr : Reachable st) (t1 : Int) (b : Nat) :
    ∃ id ∈ returned (run st (heal st t1 (healTime st t1) b)).2, st.con.prevId < id := by
  have ⟨a, c⟩ := lastHeard_ge st.pub.clients t1
  apply C06_pair_recovers st hr
  · unfold healTime; omega
  · intro x hx; have := c x hx; unfold healTime; omega

theorem length_sends (m : Nat) (t : Int) (b : Nat) : (sends m t b).length = m := by simp [sends]

def isRecv : Ev → Bool
  | .recvCall => true
  | _ => false

/-- clock readings used by the `send` calls of a schedule -/
def sendTimes (evs : List Ev) : List Int := evs.filterMap fun e => match e with | .sendCall _ t => some t | _ => none

/-- **C06 (recovery bound)**: the healing schedule has `#queued requests + 9` events: one `send` per request that may be
queued at the publisher (all at the current clock reading `t1`: no waiting), then exactly 5 `recv` polls and 4 `send`s
(handshake, fast-forward, eviction + publish, one more publish if a stale partial buffer met the first one), all at the
single later clock reading `t2`: recovery time ≤ (#queued requests + 5) poll intervals + one ZMQ_CONN_TIMEOUT. -/
theorem C06_pair_recovery_bound (st : St) (t1 t2 : Int) (b : Nat) :
    (heal st t1 t2 b).length = (reqChan st).length + 9 ∧
    ((heal st t1 t2 b).filter isRecv).length = 5 ∧
    sendTimes (heal st t1 t2 b) = List.replicate (reqChan st).length t1 ++ List.replicate 4 t2 := by
  unfold heal
  refine ⟨by simp [length_sends, rounds, round], ?_, ?_⟩
  · simp [sends, rounds, round, isRecv, List.filter_append, List.filter_replicate, List.filter_cons]
  · simp [sendTimes, sends, rounds, round, List.filterMap_append, List.filterMap_replicate]

/-- **C06 (constant bound when the request channel is empty)**: if nothing is queued at the publisher and its client
table is empty or stale at clock reading `t`, nine events (5 polls) at that single clock reading suffice. -/
theorem C06_pair_recovers_quiet_partial (st : St) (hr : Reachable st) (t : Int) (b : Nat) (hq : reqChan st = [])
    (h2 : ∀ x ∈ st.pub.clients, x.2.tLast + OF.Facts.ZMQ_CONN_TIMEOUT < t) :
    ∃ id ∈ returned (run st (.recvCall :: rounds 4 t b)).2, st.con.prevId < id := by
  have := C06_pair_recovers st hr (t - OF.Facts.ZMQ_CONN_TIMEOUT - 1) t b (by omega) h2
  unfold heal at this
  rw [hq] at this
  exact this

/-- **C06 (any consumer state, freshly restarted publisher)**: right after a restart of the publisher (graceful or
crash) in any reachable state, nine events at ANY clock reading — no time-out has to expire — make the consumer return a
new frame set: HELLO, fast-forward to the consumer's id, publish (twice if a stale partial buffer is met). -/
theorem C06_pair_recovers_after_publisher_restart_partial (st : St) (hr : Reachable st) (g : Bool) (t : Int) (b : Nat) :
    ∃ id ∈ returned (run (step st (.restartPublisher g)).1 (.recvCall :: rounds 4 t b)).2,
      (step st (.restartPublisher g)).1.con.prevId < id := by
  apply C06_pair_recovers_quiet_partial _ (Reachable.step st _ hr) t b rfl
  intro x hx; cases hx


/-! ### safety along the way: one consumer incarnation never returns an id twice or out of order -/

def isConRestart : Ev → Bool
  | .restartConsumer _ => true
  | _ => false

/-- ids returned along a run, split at every restart of the consumer: one list per consumer incarnation -/
def segRets (st : St) (cur : List Int) : List Ev → List (List Int)
  | [] => [cur]
  | e :: es =>
    if isConRestart e then cur :: segRets (step st e).1 [] es
    else segRets (step st e).1 (cur ++ obsRets (step st e).2) es

/-- what the current incarnation returned so far is strictly increasing and not above its `prev_id` -/
def OrdInv (st : St) (cur : List Int) : Prop := cur.Pairwise (· < ·) ∧ ∀ id ∈ cur, id ≤ st.con.prevId

theorem ordInv_step (st : St) (e : Ev) (cur : List Int) (hs : Shape st) (ho : OrdInv st cur) (hne : isConRestart e = false) :
    OrdInv (step st e).1 (cur ++ obsRets (step st e).2) := by
  rcases hs with ⟨⟨s, hc⟩, _⟩
  cases e with
  | sendCall payload t =>
    show OrdInv _ (cur ++ [])
    rw [List.append_nil]; exact ⟨ho.1, ho.2⟩
  | restartPublisher g =>
    show OrdInv _ (cur ++ [])
    rw [List.append_nil]; exact ⟨ho.1, ho.2⟩
  | restartConsumer g => cases hne
  | recvCall =>
    have ⟨s', _, _, h3, h4⟩ := call0_spec st.con s hc
    show OrdInv _ (cur ++ Recv.retIds (Recv.call0 st.con none [0]).2)
    rcases h4 with ⟨id, h5, h6, h7⟩ | ⟨h5, _⟩
    · rw [h5]
      refine ⟨?_, ?_⟩
      · rw [List.pairwise_append]
        refine ⟨ho.1, List.pairwise_singleton _ _, ?_⟩
        intro a ha c hc'
        simp only [List.mem_singleton] at hc'
        have := ho.2 a ha
        omega
      · intro x hx
        rw [List.mem_append] at hx
        show x ≤ (Recv.call0 st.con none [0]).1.prevId
        rcases hx with hx | hx
        · have := ho.2 x hx; omega
        · simp only [List.mem_singleton] at hx; omega
    · rw [h5, List.append_nil]
      exact ⟨ho.1, fun x hx => by have := ho.2 x hx; show x ≤ (Recv.call0 st.con none [0]).1.prevId; omega⟩

theorem segRets_ordered : ∀ (evs : List Ev) (st : St) (cur : List Int), Shape st → OrdInv st cur →
    ∀ seg ∈ segRets st cur evs, seg.Pairwise (· < ·) := by
  intro evs
  induction evs with
  | nil =>
    intro st cur _ ho seg hseg
    simp only [segRets, List.mem_singleton] at hseg
    rw [hseg]; exact ho.1
  | cons e es ih =>
    intro st cur hs ho seg hseg
    unfold segRets at hseg
    split at hseg
    · rcases List.mem_cons.mp hseg with rfl | h
      · exact ho.1
      · exact ih _ [] (shape_step st e hs) ⟨List.Pairwise.nil, by intro x hx; cases hx⟩ seg h
    · rename_i hne
      exact ih _ _ (shape_step st e hs) (ordInv_step st e cur hs ho (by simpa using hne)) seg hseg

/-- **C06 (safety along the way)**: over ANY run from the initial pair — restarts of either side anywhere, the healing
schedule included — the ids each consumer incarnation returns are strictly increasing (the statement of
`C02_strict_order`, here for the consumer inside the closed system, across publisher restarts that start ids over). -/
theorem C06_pair_order (evs : List Ev) : ∀ seg ∈ segRets init [] evs, seg.Pairwise (· < ·) :=
  segRets_ordered evs init [] shape_init ⟨List.Pairwise.nil, by intro x hx; cases hx⟩

/-- … and from any reachable state on, for what the current incarnation returns from there -/
theorem C06_pair_order_from (st : St) (hr : Reachable st) (evs : List Ev) :
    ∀ seg ∈ segRets st [] evs, seg.Pairwise (· < ·) :=
  segRets_ordered evs st [] (shape_reachable st hr) ⟨List.Pairwise.nil, by intro x hx; cases hx⟩

/-! ### non-vacuity: concrete runs (kernel-evaluated on the same definitions the driver executes) -/

def exPayload (b : Nat) : Send.Payload := .topics [("main", b)]

/-- frames flow (ids 0, 1), then the consumer crashes and restarts -/
def exConsumerRestart : List Ev :=
  [.recvCall, .sendCall (exPayload 1) 1000, .recvCall, .sendCall (exPayload 2) 1100, .recvCall,
   .sendCall (exPayload 3) 1200, .recvCall, .sendCall (exPayload 4) 1300, .restartConsumer false]

/-- frames flow (ids 0, 1), then the publisher restarts gracefully (ids start over at 0) and the consumer polls once -/
def exPublisherRestart : List Ev :=
  [.recvCall, .sendCall (exPayload 1) 1000, .recvCall, .sendCall (exPayload 2) 1100, .recvCall,
   .sendCall (exPayload 3) 1200, .recvCall, .restartPublisher true, .recvCall]

/-- consumer restart: the new incarnation is served ids 3, 4, 5 by the healing schedule (HELLO, eviction of the dead
incarnation's entry, publish) -/
example : returned (run init exConsumerRestart).2 = [0, 1] ∧
    returned (run (run init exConsumerRestart).1 (heal (run init exConsumerRestart).1 1300 6400 9)).2 = [3, 4, 5] ∧
    segRets init [] (exConsumerRestart ++ heal (run init exConsumerRestart).1 1300 6400 9) = [[0, 1], [3, 4, 5]] := by
  decide +kernel

/-- publisher restart: HELLO, then the consumer (prev_id 1) makes the new publisher fast-forward; ids 2, 3 follow, at the
very clock reading of the restart (no time-out needed) -/
example : returned (run init exPublisherRestart).2 = [0, 1] ∧ (run init exPublisherRestart).1.con.prevId = 1 ∧
    returned (run (run init exPublisherRestart).1 (.recvCall :: rounds 4 1200 9)).2 = [2, 3] ∧
    segRets init [] (exPublisherRestart ++ .recvCall :: rounds 4 1200 9) = [[0, 1, 2, 3]] := by
  decide +kernel

/-- without the wait, a dead incarnation's entry does hold the publisher (this is what `t2` is for): same state as in the
first example, healing attempted 100 ms after the crash — nothing is returned -/
example : returned (run (run init exConsumerRestart).1 (heal (run init exConsumerRestart).1 1300 1400 9)).2 = [] := by
  decide +kernel

/-! ## A constant bound: the tighter invariant `Tight`

`Shape` says nothing about the channels, hence the `#queued requests` term above.  `Tight` adds what the closed system
maintains: (one) all adoptable wire messages in flight carry one id (blocks are published only on request, and a
request is only pushed by a `recv` that leaves nothing adoptable behind); (quiet) while one is in flight no request is
queued; (two) the ids queued as requests (or held as `prev_id`) at or beyond the publisher's next id take at most two
values — so at most two fast-forwards can be pending, and three `send`s empty the request queue. -/

/-- the tighter invariant, on top of `Shape`, with the two channels named -/
structure TightAt (st : St) (s : Recv.Src) (q : List Send.Req) : Prop where
  con : Idle st.con s
  pub : PubIdle st.pub q
  /-- all wire messages the consumer could still adopt (id above its `prev_id`) carry one and the same id -/
  one : ∀ w1 ∈ s.queue, ∀ w2 ∈ s.queue, st.con.prevId < w1.mid → st.con.prevId < w2.mid → w1.mid = w2.mid
  /-- while such a message is in flight no request is queued -/
  quiet : (∃ w ∈ s.queue, st.con.prevId < w.mid) → q = []
  /-- the ids at or beyond the publisher's next id that are queued as requests, or are the consumer's `prev_id`, take at
  most two values -/
  two : ∃ a b : Int, (∀ r ∈ q, st.pub.minSendId ≤ r.mid → r.mid = a ∨ r.mid = b) ∧
          (st.pub.minSendId ≤ st.con.prevId → st.con.prevId = a ∨ st.con.prevId = b)

def Tight (st : St) : Prop := ∃ s q, TightAt st s q

theorem tight_init : Tight init := by
  refine ⟨_, _, idle_fresh, pubIdle_fresh, ?_, ?_, 0, 0, ?_, ?_⟩
  · intro w hw; cases hw
  · intro _; rfl
  · intro r hr; cases hr
  · intro h; exact absurd h (by decide)

theorem tight_recv (st : St) (s : Recv.Src) (q : List Send.Req) (h : TightAt st s q) : Tight (step st .recvCall).1 := by
  have ⟨s', h1, ⟨pre, hpre⟩, h3, h4⟩ := call0_spec st.con s h.con
  have hsub : ∀ w ∈ s'.queue, w ∈ s.queue := fun w hw => by rw [hpre]; exact List.mem_append_right _ hw
  have hpub : PubIdle (step st .recvCall).1.pub (q ++ (Recv.call0 st.con none [0]).2.filterMap (reqOf (uidOf st.gen))) :=
    pubIdle_pushReqs st.pub q _ h.pub
  have hn : (step st .recvCall).1.pub.minSendId = st.pub.minSendId := rfl
  have hp : (step st .recvCall).1.con.prevId = (Recv.call0 st.con none [0]).1.prevId := rfl
  rcases h4 with ⟨id, _, h6, h7, ⟨w, hw, hwid⟩, h9⟩ | ⟨_, h6, h7, _, _, h10⟩
  · -- a set was returned: its id is the one adoptable id, nothing adoptable is left, no request was queued before
    have hq : q = [] := h.quiet ⟨w, hw, by rw [← hwid]; exact h6⟩
    have hnone : ∀ x ∈ s'.queue, ¬ (Recv.call0 st.con none [0]).1.prevId < x.mid := by
      intro x hx hlt
      have := h.one x (hsub x hx) w hw (by omega) (by rw [← hwid]; exact h6)
      omega
    refine ⟨s', _, h1, hpub, ?_, ?_, id, id, ?_, ?_⟩
    · intro w1 hw1 _ _ hl; exact absurd (by rw [hp] at hl; exact hl) (hnone w1 hw1)
    · rintro ⟨x, hx, hl⟩; exact absurd (by rw [hp] at hl; exact hl) (hnone x hx)
    · intro r hr _
      rw [hq, List.nil_append] at hr
      exact Or.inl (h9 _ r hr)
    · intro _; rw [hp, h7]; exact Or.inl rfl
  · -- time-out: the queue is empty now; one request for the (possibly adopted) prev_id was pushed
    rw [h7 (uidOf st.gen)] at hpub
    refine ⟨s', _, h1, hpub, ?_, ?_, ?_⟩
    · intro w1 hw1; rw [h6] at hw1; cases hw1
    · rintro ⟨x, hx, _⟩; rw [h6] at hx; cases hx
    · by_cases hu : ∃ w ∈ s.queue, st.con.prevId < w.mid
      · have hq : q = [] := h.quiet hu
        refine ⟨(Recv.call0 st.con none [0]).1.prevId, (Recv.call0 st.con none [0]).1.prevId, ?_, fun _ => Or.inl hp⟩
        intro r hr _
        rw [hq] at hr
        simp only [List.nil_append, List.mem_singleton] at hr
        rw [hr]; exact Or.inl rfl
      · have hsame : (Recv.call0 st.con none [0]).1.prevId = st.con.prevId := by
          rcases h10 with e | ⟨w, hw, e⟩
          · exact e
          · exfalso; apply hu; exact ⟨w, hw, by omega⟩
        rcases h.two with ⟨a, b, t1, t2⟩
        refine ⟨a, b, ?_, ?_⟩
        · intro r hr hle
          rw [List.mem_append] at hr
          rcases hr with hr | hr
          · exact t1 r hr hle
          · simp only [List.mem_singleton] at hr
            rw [hr] at hle ⊢
            simp only [reqFor] at hle ⊢
            rw [hsame] at hle ⊢
            exact t2 hle
        · intro hle; rw [hp, hsame] at hle ⊢; exact t2 hle


theorem hello_lt (p : Int) (hp : -1 ≤ p) : ¬ p < OF.Facts.MSG_ID_HELLO := by
  have : OF.Facts.MSG_ID_HELLO = -4 := rfl
  omega

theorem tight_send (st : St) (s : Recv.Src) (q : List Send.Req) (payload : Send.Payload) (t : Int) (h : TightAt st s q) :
    Tight (step st (.sendCall payload t)).1 := by
  have hcon := idle_pushWires st.con s ((Send.send0 st.pub none payload false [0] t).2.filterMap wireOf) h.con
  have hp : (step st (.sendCall payload t)).1.con.prevId = st.con.prevId := rfl
  cases hq : q with
  | nil =>
    -- nothing queued: nothing happens
    subst hq
    have ⟨i1, i2, _, i4⟩ := send0_idle st.pub payload t h.pub
    refine ⟨_, [], hcon, i1, ?_, fun _ => rfl, ?_⟩
    · intro w1 hw1 w2 hw2
      simp only [i4, List.append_nil] at hw1 hw2
      exact h.one w1 hw1 w2 hw2
    · rcases h.two with ⟨a, b, _, t2⟩
      refine ⟨a, b, (by intro r hr; cases hr), ?_⟩
      intro hle
      have hn : (step st (.sendCall payload t)).1.pub.minSendId = st.pub.minSendId := i2
      rw [hn] at hle; exact t2 hle
  | cons r0 q0 =>
    have hne : ¬ ∃ w ∈ s.queue, st.con.prevId < w.mid := by
      intro hu; have := h.quiet hu; rw [hq] at this; cases this
    have ⟨T, hT, ht⟩ := exists_stale st.pub.clients t
    have ⟨q', f1, ⟨pre, f2⟩, f3, _, f5, f6⟩ := send0_facts st.pub q payload t T h.pub hT ht
    have hn : (step st (.sendCall payload t)).1.pub.minSendId = (Send.send0 st.pub none payload false [0] t).1.minSendId := rfl
    have hnew : ∀ w ∈ (Send.send0 st.pub none payload false [0] t).2.filterMap wireOf, st.con.prevId < w.mid →
        w.mid = st.pub.minSendId := by
      intro w hw hl
      rcases f5 w hw with e | e
      · exact e
      · rw [e] at hl; exact absurd hl (hello_lt _ h.con.prev)
    have hold : ∀ w ∈ s.queue, ¬ st.con.prevId < w.mid := fun w hw hl => hne ⟨w, hw, hl⟩
    refine ⟨_, q', hcon, f1, ?_, ?_, ?_⟩
    · intro w1 hw1 w2 hw2 hl1 hl2
      simp only [List.mem_append] at hw1 hw2
      rcases hw1 with hw1 | hw1
      · exact absurd hl1 (hold w1 hw1)
      · rcases hw2 with hw2 | hw2
        · exact absurd hl2 (hold w2 hw2)
        · rw [hnew w1 hw1 hl1, hnew w2 hw2 hl2]
    · rintro ⟨w, hw, hl⟩
      simp only [List.mem_append] at hw
      rcases hw with hw | hw
      · exact absurd hl (hold w hw)
      · rcases f6 with ⟨e, _⟩ | ⟨_, _, _, _, _, e⟩
        · exact e
        · rw [e] at hw; cases hw
    · rcases h.two with ⟨a, b, t1, t2⟩
      refine ⟨a, b, ?_, ?_⟩
      · intro r hr hle
        rw [hn] at hle
        exact t1 r (by rw [f2]; exact List.mem_append_right _ hr) (by omega)
      · intro hle
        rw [hn, hp] at hle
        rw [hp]; exact t2 (by omega)

theorem close_wires (p : Send.St) : ∀ w ∈ (Send.destroyMsgs p).filterMap wireOf, w.mid = OF.Facts.MSG_ID_CLOSE := by
  intro w hw
  rw [List.mem_filterMap] at hw
  rcases hw with ⟨o, ho, hwo⟩
  unfold Send.destroyMsgs at ho
  rw [List.mem_map] at ho
  rcases ho with ⟨j, _, rfl⟩
  simp only [wireOf] at hwo
  split at hwo
  · cases hwo; rfl
  · cases hwo

theorem tight_restartPublisher (st : St) (s : Recv.Src) (q : List Send.Req) (g : Bool) (h : TightAt st s q) :
    Tight (step st (.restartPublisher g)).1 := by
  have hws : ∀ w ∈ (if g = true then (Send.destroyMsgs st.pub).filterMap wireOf else []), ¬ st.con.prevId < w.mid := by
    intro w hw hl
    split at hw
    · have := close_wires st.pub w hw
      have hc : OF.Facts.MSG_ID_CLOSE = -3 := rfl
      have := h.con.prev
      omega
    · cases hw
  refine ⟨_, [], idle_pushWires st.con s _ h.con, pubIdle_fresh, ?_, fun _ => rfl, st.con.prevId, st.con.prevId, ?_, fun _ => Or.inl rfl⟩
  · intro w1 hw1 w2 hw2 hl1 hl2
    simp only [List.mem_append] at hw1 hw2
    have hl1' : st.con.prevId < w1.mid := hl1
    have hl2' : st.con.prevId < w2.mid := hl2
    rcases hw1 with hw1 | hw1
    · rcases hw2 with hw2 | hw2
      · exact h.one w1 hw1 w2 hw2 hl1' hl2'
      · exact absurd hl2' (hws w2 hw2)
    · exact absurd hl1' (hws w1 hw1)
  · intro r hr; cases hr

theorem tight_restartConsumer (st : St) (s : Recv.Src) (q : List Send.Req) (g : Bool) (h : TightAt st s q) :
    Tight (step st (.restartConsumer g)).1 := by
  rcases h.two with ⟨a, b, t1, _⟩
  refine ⟨_, _, idle_fresh, pubIdle_pushReqs st.pub q _ h.pub, ?_, ?_, a, b, ?_, ?_⟩
  · intro w hw; cases hw
  · rintro ⟨w, hw, _⟩; cases hw
  · intro r hr hle
    have hn : (step st (.restartConsumer g)).1.pub.minSendId = st.pub.minSendId := rfl
    rw [hn] at hle
    rw [List.mem_append] at hr
    rcases hr with hr | hr
    · exact t1 r hr hle
    · exfalso
      split at hr
      · simp only [List.mem_singleton] at hr
        rw [hr] at hle
        have hc : (closeReq (uidOf st.gen)).mid = -3 := rfl
        have := h.pub.minpos
        omega
      · cases hr
  · intro hle
    exfalso
    have hn : (step st (.restartConsumer g)).1.pub.minSendId = st.pub.minSendId := rfl
    have hp : (step st (.restartConsumer g)).1.con.prevId = -1 := rfl
    rw [hn, hp] at hle
    have := h.pub.minpos
    omega

/-- **the tighter invariant is kept by every event** -/
theorem tight_step (st : St) (e : Ev) (h : Tight st) : Tight (step st e).1 := by
  rcases h with ⟨s, q, h⟩
  cases e with
  | sendCall payload t => exact tight_send st s q payload t h
  | recvCall => exact tight_recv st s q h
  | restartConsumer g => exact tight_restartConsumer st s q g h
  | restartPublisher g => exact tight_restartPublisher st s q g h

theorem tight_reachable (st : St) (h : Reachable st) : Tight st := by
  induction h with
  | init => exact tight_init
  | step st e _ ih => exact tight_step st e ih


/-- **C06 (the tighter invariant)**: `Tight` holds initially, is kept by every event, hence holds in every reachable state -/
theorem C06_pair_tight_invariant : Tight init ∧ (∀ st e, Tight st → Tight (step st e).1) ∧ ∀ st, Reachable st → Tight st :=
  ⟨tight_init, tight_step, tight_reachable⟩

/-- how many of the two values are still at or beyond the publisher's next id -/
def cnt (a b n : Int) : Nat := (if n ≤ a then 1 else 0) + (if n ≤ b then 1 else 0)

theorem cnt_le (a b n : Int) : cnt a b n ≤ 2 := by
  unfold cnt; split <;> split <;> omega

theorem cnt_ffwd (a b n x : Int) (hx : x = a ∨ x = b) (hn : n ≤ x) : cnt a b (x + 1) < cnt a b n := by
  unfold cnt
  rcases hx with rfl | rfl
  · have h1 : ¬ (x + 1 ≤ x) := by omega
    simp only [h1, hn, ↓reduceIte]
    split
    · rename_i h2; have : n ≤ b := by omega
      simp only [this, ↓reduceIte]; omega
    · split <;> omega
  · have h1 : ¬ (x + 1 ≤ x) := by omega
    simp only [h1, hn, ↓reduceIte]
    split
    · rename_i h2; have : n ≤ a := by omega
      simp only [this, ↓reduceIte]; omega
    · split <;> omega

/-- with at most two fast-forwardable ids queued, three sends empty the request queue -/
theorem sends_two : ∀ (m : Nat) (st : St) (q : List Send.Req) (s : Recv.Src) (t T : Int) (b : Nat) (x y : Int),
    PubIdle st.pub q → Idle st.con s → Stale T st.pub.clients → t ≤ T →
    (∀ r ∈ q, st.pub.minSendId ≤ r.mid → r.mid = x ∨ r.mid = y) → cnt x y st.pub.minSendId < m →
    PubIdle (run st (sends m t b)).1.pub [] ∧ (∃ s', Idle (run st (sends m t b)).1.con s') ∧
    Stale T (run st (sends m t b)).1.pub.clients ∧ (run st (sends m t b)).1.gen = st.gen ∧
    (run st (sends m t b)).1.con.prevId = st.con.prevId ∧ returned (run st (sends m t b)).2 = [] := by
  intro m
  induction m with
  | zero => intro st q s t T b x y _ _ _ _ _ hc; omega
  | succ m ih =>
    intro st q s t T b x y hp hc hs ht htwo hcnt
    have ⟨q', f1, ⟨pre, f2⟩, f3, f4, _, f6⟩ := send0_facts st.pub q (mainPayload b) t T hp hs ht
    have hc' := idle_pushWires st.con s ((Send.send0 st.pub none (mainPayload b) false [0] t).2.filterMap wireOf) hc
    have hrest : PubIdle (run (step st (.sendCall (mainPayload b) t)).1 (sends m t b)).1.pub [] ∧
        (∃ s', Idle (run (step st (.sendCall (mainPayload b) t)).1 (sends m t b)).1.con s') ∧
        Stale T (run (step st (.sendCall (mainPayload b) t)).1 (sends m t b)).1.pub.clients ∧
        (run (step st (.sendCall (mainPayload b) t)).1 (sends m t b)).1.gen = st.gen ∧
        (run (step st (.sendCall (mainPayload b) t)).1 (sends m t b)).1.con.prevId = st.con.prevId ∧
        returned (run (step st (.sendCall (mainPayload b) t)).1 (sends m t b)).2 = [] := by
      rcases f6 with ⟨e, _⟩ | ⟨r, hr, g1, _, g2, _⟩
      · subst e
        exact sends_spec m (step st (.sendCall (mainPayload b) t)).1 [] _ t T b f1 hc' f4 ht (by simp)
      · have hx := htwo r hr g1
        have hlt := cnt_ffwd x y st.pub.minSendId r.mid hx g1
        have hn : (step st (.sendCall (mainPayload b) t)).1.pub.minSendId = r.mid + 1 := g2
        apply ih (step st (.sendCall (mainPayload b) t)).1 q' _ t T b x y f1 hc' f4 ht
        · intro r' hr' hle
          rw [hn] at hle
          exact htwo r' (by rw [f2]; exact List.mem_append_right _ hr') (by omega)
        · rw [hn]; omega
    simp only [sends, List.replicate_succ, run]
    refine ⟨hrest.1, hrest.2.1, hrest.2.2.1, hrest.2.2.2.1, hrest.2.2.2.2.1, ?_⟩
    have hr := hrest.2.2.2.2.2
    simp only [sends] at hr
    simp only [returned, List.flatMap_cons] at hr ⊢
    rw [hr]; rfl


/-- once the request queue is empty and the client table is stale at `t2`: one poll and four rounds -/
theorem heal_after_drain (st : St) (s : Recv.Src) (t2 : Int) (b : Nat) (a1 : PubIdle st.pub []) (a2 : Idle st.con s)
    (a3 : ∀ x ∈ st.pub.clients, x.2.tLast + OF.Facts.ZMQ_CONN_TIMEOUT < t2) :
    ∃ id ∈ returned (run st ([.recvCall] ++ rounds 4 t2 b)).2, st.con.prevId < id := by
  rw [run_append, returned_append]
  have R := recvStep_spec st s [] a2 a1
  have hrun1 : run st [.recvCall] = ((step st .recvCall).1, [(step st .recvCall).2]) := rfl
  rw [hrun1]
  rcases R with ⟨_, g2, _, g4, g5⟩
  rcases g5 with ⟨id, hid, hlt⟩ | ⟨s2, i1, i2, i3, _, _⟩
  · refine ⟨id, List.mem_append_left _ ?_, hlt⟩
    simp only [returned, List.flatMap_cons, List.flatMap_nil, List.append_nil]; exact hid
  · have hw : Waiting (step st .recvCall).1 t2 s2 := by
      refine ⟨i1, i2, i3, ?_⟩
      intro x hx _
      rw [g2] at hx
      have := a3 x hx; omega
    have ⟨id, hid, hlt⟩ := rounds_heal 4 _ t2 b s2 hw (by have := stage_le (step st .recvCall).1 s2; omega)
    exact ⟨id, List.mem_append_right _ hid, by omega⟩

/-- the healing schedule with a constant number of events: it does not depend on the state at all -/
def healConst (t1 t2 : Int) (b : Nat) : List Ev := sends 3 t1 b ++ ([.recvCall] ++ rounds 4 t2 b)

/-- **C06 (the closed pair heals within a constant number of events)**: from EVERY reachable state (any history, any
number of restarts of either side at any point) the fixed 12-event continuation — three `send`s at the current clock
reading `t1` (they empty the request queue: at most two fast-forwards can be pending, by the invariant `Tight`), one
`recv`, four rounds `[send; recv]` at a clock reading `t2` more than ZMQ_CONN_TIMEOUT after `t1` and after every
client's last request — makes `recv` return a frame set with an id above everything this incarnation returned. -/
theorem C06_pair_recovers_const (st : St) (hr : Reachable st) (t1 t2 : Int) (b : Nat)
    (h1 : t1 + OF.Facts.ZMQ_CONN_TIMEOUT < t2)
    (h2 : ∀ x ∈ st.pub.clients, x.2.tLast + OF.Facts.ZMQ_CONN_TIMEOUT < t2) :
    ∃ id ∈ returned (run st (healConst t1 t2 b)).2, st.con.prevId < id := by
  rcases tight_reachable st hr with ⟨s, q, ht⟩
  rcases ht.two with ⟨x, y, htwo, _⟩
  have hs : Stale (t2 - OF.Facts.ZMQ_CONN_TIMEOUT - 1) st.pub.clients := by
    intro c hc; have := h2 c hc; omega
  have ⟨a1, ⟨s1, a2⟩, a3, _, a5, a6⟩ := sends_two 3 st q s t1 (t2 - OF.Facts.ZMQ_CONN_TIMEOUT - 1) b x y ht.pub ht.con hs
    (by omega) htwo (by have := cnt_le x y st.pub.minSendId; omega)
  unfold healConst
  rw [run_append, returned_append, a6, List.nil_append]
  have ⟨id, hid, hlt⟩ := heal_after_drain _ s1 t2 b a1 a2 (by intro c hc; have := a3 c hc; omega)
  exact ⟨id, hid, by omega⟩

/-- **C06 (recovery bound, constant)**: 12 events — 3 non-blocking `send`s at `t1`, 5 `recv` polls, 4 `send`s at `t2`:
recovery time ≤ 5 poll intervals + one ZMQ_CONN_TIMEOUT (+ three `send` calls that return at once). -/
theorem C06_pair_recovery_bound_const (t1 t2 : Int) (b : Nat) :
    (healConst t1 t2 b).length = 12 ∧ ((healConst t1 t2 b).filter isRecv).length = 5 ∧
    sendTimes (healConst t1 t2 b) = [t1, t1, t1, t2, t2, t2, t2] := by
  refine ⟨rfl, rfl, rfl⟩

/-- the constant schedule with its second clock reading computed from the state -/
theorem C06_pair_recovers_const_explicit (st : St) (hr : Reachable st) (t1 : Int) (b : Nat) :
    ∃ id ∈ returned (run st (healConst t1 (healTime st t1) b)).2, st.con.prevId < id := by
  have ⟨a, c⟩ := lastHeard_ge st.pub.clients t1
  apply C06_pair_recovers_const st hr
  · unfold healTime; omega
  · intro x hx; have := c x hx; unfold healTime; omega

/-- non-vacuity of the constant schedule: the consumer crash of `exConsumerRestart` healed by the 12 fixed events -/
example : returned (run (run init exConsumerRestart).1 (healConst 1300 6400 9)).2 = [3, 4, 5] ∧
    (healConst 1300 6400 9).length = 12 := by decide +kernel

/-- … and a publisher crash while a request is queued and the consumer is ahead (prev_id 1): the first `send` at `t1`
fast-forwards, the rounds deliver ids 2, 3, 4 -/
example : returned (run (run init (exPublisherRestart ++ [.recvCall])).1 (healConst 1200 6300 9)).2 = [2, 3, 4] := by
  decide +kernel

end OF.Pair

/-! ## The consumer inside the pair is the receiver event machine of C01/C02

`Recv.call0` on the pair's consumer is a run of `begin, take*, check | request, timeout` events of `OF.Recv.step`, and a
delivery is a run of `deliver` events — so the theorems proved for ARBITRARY receiver event sequences apply inside the
closed system; `C06_pair_order_by_C02` is `C02_strict_order` itself, instantiated. -/
namespace OF.Pair
open OF OF.Recv

theorem rrun_foldl (evs : List Recv.Ev) : ∀ (st : Recv.St) (o : List Recv.Out),
    evs.foldl (fun (acc : Recv.St × List Recv.Out) e => let (s, o) := Recv.step acc.1 e; (s, acc.2 ++ o)) (st, o) =
      ((Recv.run st evs).1, o ++ (Recv.run st evs).2) := by
  induction evs with
  | nil => intro st o; simp [Recv.run]
  | cons e es ih =>
    intro st o
    simp only [List.foldl_cons, Recv.run]
    rw [ih, ih (Recv.step st e).1 ([] ++ (Recv.step st e).2)]
    simp [List.append_assoc]

theorem rrun_cons (st : Recv.St) (e : Recv.Ev) (es : List Recv.Ev) :
    Recv.run st (e :: es) = ((Recv.run (Recv.step st e).1 es).1, (Recv.step st e).2 ++ (Recv.run (Recv.step st e).1 es).2) := by
  simp only [Recv.run, List.foldl_cons]
  rw [rrun_foldl]
  simp [Recv.run]

theorem rrun_nil (st : Recv.St) : Recv.run st [] = (st, []) := rfl

theorem rrun_append (st : Recv.St) (a b : List Recv.Ev) :
    Recv.run st (a ++ b) = ((Recv.run (Recv.run st a).1 b).1, (Recv.run st a).2 ++ (Recv.run (Recv.run st a).1 b).2) := by
  induction a generalizing st with
  | nil => simp [rrun_nil]
  | cons e es ih => rw [List.cons_append, rrun_cons, ih, rrun_cons]; simp [List.append_assoc]


theorem stepTake_busy (c : Recv.St) (s : Src) (h : Busy c s) :
    Recv.step c (.take 0) = ((onTake c 0).1, (onTake c 0).2.1) := by
  have hs0 : c.srcs[0]? = some s := by rw [h.srcs]; rfl
  have hd : ¬ (c.dead = true ∨ ¬ c.inCall = true) := by rw [h.static.dead, h.inCall]; simp
  simp only [Recv.step, stepTake, hd, ↓reduceIte, hs0, h.reg]

/-- `recv_once(0)` of the pair's consumer is a sequence of `take` events of the receiver machine -/
theorem recvOnce0_as_run : ∀ (f : Nat) (c : Recv.St) (s : Src), Busy c s → s.queue.length < f →
    ∃ evs, ((recvOnce0 f c [0]).1, (recvOnce0 f c [0]).2.1) = Recv.run c evs := by
  intro f
  induction f with
  | zero => intro c s _ hl; omega
  | succ f ih =>
    intro c s h hl
    cases hq : s.queue with
    | nil => rw [recvOnce0_nil f c s h hq]; exact ⟨[], rfl⟩
    | cons w rest =>
      rw [recvOnce0_cons f c s w rest h hq]
      have ⟨⟨s1, ht⟩, _⟩ := onTake_busy c s w rest h hq
      have ⟨hrc, _, hbusy⟩ := took_next c _ s s1 w rest h ht
      rw [hrc]
      cases hg : gotAll s1 with
      | true =>
        refine ⟨[.take 0], ?_⟩
        rw [rrun_cons, stepTake_busy c s h, rrun_nil]
        simp
      | false =>
        have hl1 : s1.queue.length < f := by rw [ht.queue]; rw [hq] at hl; simp at hl; omega
        have ⟨evs, he⟩ := ih _ s1 (hbusy hg) hl1
        refine ⟨.take 0 :: evs, ?_⟩
        rw [rrun_cons, stepTake_busy c s h]
        simp only [Bool.false_eq_true, ↓reduceIte]
        rw [← he]

/-- **the pair's consumer is the receiver event machine**: one `recv(None, 0)` is a run of `begin, take*, check` or
`begin, take*, request, timeout` of `OF.Recv.step` — so every theorem about arbitrary receiver event sequences
(C01 `SameId`, C02 `C02_strict_order`, …) applies to the consumer inside the closed system -/
theorem call0_as_run (c : Recv.St) (s : Src) (h : Idle c s) : ∃ evs, call0 c none [0] = Recv.run c evs := by
  have hb := beginSt_busy c s h
  have hg : ¬ (c.dead = true ∨ c.inCall = true) := by rw [h.static.dead, h.inCall]; simp
  have hbeg : Recv.step c (.begin none) = (beginSt c, []) := by
    simp only [Recv.step, stepBegin, hg, ↓reduceIte, beginId, beginSt]
  have ⟨evs, he⟩ := recvOnce0_as_run (s.queue.length + 1) (beginSt c) s hb (by omega)
  have hspec := recvOnce0_spec (s.queue.length + 1) (beginSt c) s hb (by omega)
  rw [call0_unfold c s h]
  generalize recvOnce0 (s.queue.length + 1) (beginSt c) [0] = r at he hspec ⊢
  rcases r with ⟨c1, o1, g⟩
  simp only at he hspec ⊢
  rcases hspec with ⟨_, _, _, s', _, hres⟩
  rcases hres with ⟨hgt, hd, _⟩ | ⟨hgf, hb1, _⟩
  · subst hgt
    simp only [↓reduceIte]
    refine ⟨.begin none :: (evs ++ [.check]), ?_⟩
    rw [rrun_cons, hbeg, rrun_append, ← he, rrun_cons, rrun_nil]
    have hrc : returnCond c1 = true := by
      rw [returnCond_single c1 s' hd.srcs hd.shape.eph hd.static.balance (by rw [hd.reg, hd.all]; rfl)]; exact hd.all
    have hd1 : ¬ (c1.dead = true ∨ ¬ c1.inCall = true) := by rw [hd.static.dead, hd.inCall]; simp
    simp only [Recv.step, stepCheck, hd1, ↓reduceIte, hrc, List.nil_append, List.append_nil]
  · subst hgf
    simp only [Bool.false_eq_true, ↓reduceIte]
    refine ⟨.begin none :: (evs ++ [.request, .timeout]), ?_⟩
    rw [rrun_cons, hbeg, rrun_append, ← he, rrun_cons, rrun_cons, rrun_nil]
    have hd1 : ¬ (c1.dead = true ∨ ¬ c1.inCall = true) := by rw [hb1.static.dead, hb1.inCall]; simp
    simp only [Recv.step, stepRequest, stepTimeout, hd1, ↓reduceIte, timeoutSt, List.nil_append, List.append_nil,
      List.append_assoc]


/-- delivery into the consumer's SUB queue is a sequence of `deliver` events of the receiver machine -/
theorem pushWires_as_run (ws : List Wire) : ∀ (c : Recv.St) (s : Src), c.srcs = [s] →
    Recv.run c (ws.map (Recv.Ev.deliver 0)) = (pushWires c ws, []) := by
  induction ws with
  | nil => intro c s _; rw [pushWires_nil]; rfl
  | cons w ws ih =>
    intro c s hs
    have hs0 : c.srcs[0]? = some s := by rw [hs]; rfl
    have hstep : Recv.step c (.deliver 0 w) = ({ c with srcs := [{ s with queue := s.queue ++ [w] }] }, []) := by
      simp only [Recv.step, stepDeliver, hs0]
      simp only [hs, List.set_cons_zero]
    rw [List.map_cons, rrun_cons, hstep, ih _ { s with queue := s.queue ++ [w] } rfl]
    simp [pushWires, hs, List.append_assoc]

/-- **the consumer inside the closed system is the receiver event machine**: over any schedule that does not restart
the consumer, its state and everything it returns are those of `OF.Recv.run` on some event sequence -/
theorem consumer_as_run : ∀ (evs : List Ev) (st : St), Shape st → (∀ e ∈ evs, isConRestart e = false) →
    ∃ revs, (run st evs).1.con = (Recv.run st.con revs).1 ∧ returned (run st evs).2 = retIds (Recv.run st.con revs).2 := by
  intro evs
  induction evs with
  | nil => intro st _ _; exact ⟨[], rfl, rfl⟩
  | cons e es ih =>
    intro st hs hne
    have hne' : ∀ x ∈ es, isConRestart x = false := fun x hx => hne x (List.mem_cons_of_mem _ hx)
    have ⟨revs, h1, h2⟩ := ih (step st e).1 (shape_step st e hs) hne'
    rcases hs with ⟨⟨s, hc⟩, _⟩
    have hhead : ∃ r0, (step st e).1.con = (Recv.run st.con r0).1 ∧ obsRets (step st e).2 = retIds (Recv.run st.con r0).2 := by
      cases e with
      | sendCall payload t =>
        refine ⟨((Send.send0 st.pub none payload false [0] t).2.filterMap wireOf).map (Recv.Ev.deliver 0), ?_, ?_⟩
        · rw [pushWires_as_run _ st.con s hc.srcs]; rfl
        · rw [pushWires_as_run _ st.con s hc.srcs]; rfl
      | recvCall =>
        have ⟨r0, hr0⟩ := call0_as_run st.con s hc
        exact ⟨r0, by rw [← hr0]; rfl, by rw [← hr0]; rfl⟩
      | restartConsumer g => exact absurd (hne _ (List.mem_cons_self ..)) (by simp [isConRestart])
      | restartPublisher g =>
        refine ⟨(if g = true then (Send.destroyMsgs st.pub).filterMap wireOf else []).map (Recv.Ev.deliver 0), ?_, ?_⟩
        · rw [pushWires_as_run _ st.con s hc.srcs]; rfl
        · rw [pushWires_as_run _ st.con s hc.srcs]; rfl
    rcases hhead with ⟨r0, g1, g2⟩
    refine ⟨r0 ++ revs, ?_, ?_⟩
    · rw [rrun_append, ← g1]; exact h1
    · rw [rrun_append, retIds_append, ← g2, ← g1, ← h2]
      simp [run, returned]

/-- **C06 (safety, by `C02_strict_order` itself)**: over any schedule without a consumer restart, from any reachable
state, the ids `recv` returns are strictly increasing and above the consumer's `prev_id` — an instance of the receiver
theorem, through `consumer_as_run` -/
theorem C06_pair_order_by_C02 (st : St) (hr : Reachable st) (evs : List Ev) (hne : ∀ e ∈ evs, isConRestart e = false) :
    (returned (run st evs).2).Pairwise (· < ·) ∧ ∀ id ∈ returned (run st evs).2, st.con.prevId < id := by
  have hs := shape_reachable st hr
  have ⟨revs, _, h2⟩ := consumer_as_run evs st hs hne
  rcases hs with ⟨⟨s, hc⟩, _⟩
  have hm : MonoInv st.con := by intro h; rw [hc.inCall] at h; cases h
  rw [h2]
  exact C02_strict_order st.con hm revs

end OF.Pair
