import OFProps.RejoinLongInv
/-!
# C03RejoinLong — C03 stage C for a tee-rejoin whose branches are CHAINS of relays (§11.3j): statement, tests, the proved case `L = 1`

**Statement tested, NOT proved for `L ≥ 2`** (`RejoinLongStmt`): topology `rejoinLongTopo b L`, `ProcNames`, `OwnedLast` (the LAST relay of every branch publishes
its own topic names), `RelayCntFree` (no relay of a branch depends on its call counter), every restart-free schedule: the log of the sets handed to the join
`J = b * L + 1` is a PREFIX of `rejoinSpecLong proc b L N` — the source's surviving frames that EVERY branch delivers (no relay of the branch makes `None` of what it is
handed, `alongOut`), in increasing order, each set holding, branch after branch, the visible topics of the branch's END result for that frame under the source's id.

* PROVED here: the case `L = 1` (`C03_net_rejoin_long_common_ids_one`), by reduction to `C03_net_rejoin_common_ids` (`rjl_one`, `specLong_one`): the new topology,
  hypotheses and specification specialise to those of §11.3g.
* TESTED on the model (`b = 2`, `L = 2`; relays that skip by content, return callables / callables with value `None`, hide topics; the source skips): 1500 random
  schedules of 20 phases (random subsets of active nodes, clock jumps beyond the connection time-out) — 6705 sets at the join, no failure; in 29 runs a FIRST relay of a
  branch was fast-forwarded by the next relay of its branch.
* `example` (kernel): the schedule `lSched` on which relay 1 — in the MIDDLE of branch 0, not adjacent to the join — is fast-forwarded: the join adopts id 6 from
  branch 1, asks relay 2 for 5; relay 2 (holding frame 2) is fast-forwarded to 6, its receiver asks relay 1 for 5, relay 1 (holding frame 4) is fast-forwarded to 6
  and its receiver discards source frame 5 unprocessed.  Everything lost lies in `[2, 6)`, frames branch 1 dropped: the statement needs NO weakening.
* `C03_net_rejoin_long_needs_cntfree` (kernel): `RelayCntFree` is needed for the relays ABOVE the last one too: relay 1 "drops its sixth set" — on `lSched` that is
  source frame 6 (common), on a lock-step schedule frame 5 (not common).
-/
namespace OF.Net
open OF.Recv (Topic)

/-- the statement of §11.3j for given `b`, `L` (tested; proved for `L = 1` only) -/
def RejoinLongStmt (b L : Nat) : Prop :=
  ∀ (proc : Proc), ProcNames proc → RelayCntFree proc b L → ∀ (owner : Topic → Nat), OwnedLast proc b L owner →
    ∀ (evs : List Ev), (∀ e ∈ evs, isRestart e = false) →
      (lrun (rejoinLongTopo b L) proc (linit (rejoinLongTopo b L)) evs).log (b * L + 1) <+:
        rejoinSpecLong proc b L (srcCount (lrun (rejoinLongTopo b L) proc (linit (rejoinLongTopo b L)) evs))

/-! ## `L = 1` is the tee-rejoin of §11.3g -/

theorem rjl_one (b : Nat) : rejoinLongTopo b 1 = rejoinTopo b := by
  unfold rejoinLongTopo rejoinTopo
  have h1 : (List.range (b * 1)).map (fun x => if x % 1 = 0 then [0] else [x]) = List.replicate b [0] := by
    apply List.ext_getElem
    · simp
    · intro i h1 h2
      simp [Nat.mod_one]
  have h2 : (List.range b).map (fun jj => (jj + 1) * 1) = (List.range b).map (· + 1) := by
    apply List.map_congr_left
    intro a _
    omega
  rw [h1, h2]

theorem branchNodes_one (jj : Nat) : branchNodes 1 jj = [jj + 1] := by
  simp [branchNodes, List.range_succ]

theorem alongOut_one (proc : Proc) (c i : Nat) (x : HSet) :
    alongOut proc c [i] x = (outOf proc i c x).map fun d => (x.1, d) := by
  unfold alongOut outOf
  cases dictOf (Loop.processFrames (proc i c (visB x).2)) with
  | none => rfl
  | some d => simp [alongOut]

theorem branchOut_one (proc : Proc) (c i : Nat) (x : HSet) :
    ((alongOut proc c [i] x).getD (x.1, [])) = branchOut proc i c (visB x) := by
  rw [alongOut_one]
  unfold branchOut blockOf outOf
  cases dictOf (Loop.processFrames (proc i c (visB x).2)) with
  | none => simp [visB]
  | some d => simp [visB]

theorem joinSetLong_one (proc : Proc) (b : Nat) (x : HSet) : joinSetLong proc b 1 x = joinSet proc b x := by
  unfold joinSetLong joinSet
  simp only [branchNodes_one, alongOut_one, Option.isSome_map]
  simp only [← alongOut_one]
  simp only [branchOut_one]

theorem specLong_one (proc : Proc) (b N : Nat) : rejoinSpecLong proc b 1 N = rejoinSpecSkip proc b N := by
  unfold rejoinSpecLong rejoinSpecSkip
  congr 1
  funext x
  exact joinSetLong_one proc b x

/-- **C03 stage C, long branches, the case `L = 1`** (the statement `RejoinLongStmt b 1`): the new topology / hypotheses / specification specialise to the
tee-rejoin with skipping one-relay branches, `C03_net_rejoin_common_ids`.  For `L ≥ 2` the statement is TESTED (file header), not proved. -/
theorem C03_net_rejoin_long_common_ids_one (b : Nat) (hb : 1 ≤ b) : RejoinLongStmt b 1 := by
  intro proc hp hcf owner hown evs hnr
  rw [rjl_one, specLong_one, Nat.mul_one]
  refine C03_net_rejoin_common_ids proc hp b hb ?_ owner ?_ evs hnr
  · intro i h1 h2 n m h
    exact hcf i h1 (by omega) n m h
  · intro i n h d h1 h2 hd x hx
    have := hown (i - 1) n h d (by omega) (by rw [show (i - 1 + 1) * 1 = i by omega]; exact hd) x hx
    omega

/-! ## `L = 2`: a relay in the MIDDLE of a branch is fast-forwarded (tests of the model, kernel-evaluated) -/

/-- `b = 2`, `L = 2` (`0 → 1 → 2 → J`, `0 → 3 → 4 → J`, `J = 5`): source `{main: 10 n}`; relay 1: `m1` = the sum; relay 2 (last of branch 0): `a` = the sum and a
hidden topic; relay 3: `None` for the source frames 2 … 5 (keyed on the CONTENT), else `m3`; relay 4 (last of branch 1): `b` = twice the sum, a CALLABLE for frame 7 -/
def lProc : Proc := fun i n h =>
  match i with
  | 0 => .now (.dict [("main", n * 10)])
  | 1 => .now (.dict [("m1", (h.map (·.2)).sum)])
  | 2 => .now (.dict [("a", (h.map (·.2)).sum), ("_hid", 7)])
  | 3 => if 20 ≤ (h.map (·.2)).sum ∧ (h.map (·.2)).sum ≤ 50 then .now .none else .now (.dict [("m3", (h.map (·.2)).sum)])
  | 4 => if (h.map (·.2)).sum = 70 then .later (.dict [("b", (h.map (·.2)).sum * 2)]) else .now (.dict [("b", (h.map (·.2)).sum * 2)])
  | _ => .now .none

/-- one round: the given nodes in the given order, `recv` then `send` (no `send` for the nodes of `nosend`) -/
def lRnd (nodes : List Nat) (t : Int) (nosend : List Nat := []) : List Ev :=
  nodes.flatMap fun i => [Ev.nodeRecv i] ++ (if nosend.contains i then [] else [Ev.nodeSend i t])

/-- five lock-step rounds; relay 1 takes frames and stalls with one (no `send`) for two rounds; the clock jumps beyond the connection time-out, the source evicts relay 1
and runs ahead with branch 1 alone (which drops 2 … 5 and delivers 6 to the join); branch 0 comes back, relay 2 BEFORE relay 1 -/
def lSched : List Ev :=
  lRnd [0,1,2,3,4,5] 1100 ++ lRnd [0,1,2,3,4,5] 1200 ++ lRnd [0,1,2,3,4,5] 1300 ++ lRnd [0,1,2,3,4,5] 1400 ++ lRnd [0,1,2,3,4,5] 1500 ++
  lRnd [0,1,2,3,4,5] 1600 [1] ++ lRnd [0,1,2,3,4,5] 1700 [1] ++
  lRnd [0,3,4,5] 7800 ++ lRnd [0,3,4,5] 7900 ++ lRnd [0,3,4,5] 8000 ++ lRnd [0,3,4,5] 8100 ++ lRnd [0,3,4,5] 8200 ++ lRnd [0,3,4,5] 8300 ++
  lRnd [0,2,1,3,4,5] 9000 ++ lRnd [0,2,1,3,4,5] 9100 ++ lRnd [0,1,2,3,4,5] 9200 ++ lRnd [0,1,2,3,4,5] 9300 ++ lRnd [0,1,2,3,4,5] 9400 ++
  lRnd [0,1,2,3,4,5] 9500 ++ lRnd [0,1,2,3,4,5] 9600 ++ lRnd [0,1,2,3,4,5] 9700

def lockSchedL : List Ev :=
  (List.range 12).flatMap fun (r : Nat) => lRnd [0,1,2,3,4,5] (1100 + 100 * (r : Int))

theorem lProc_names : ProcNames lProc := by
  intro i n h d hh hd
  unfold lProc at hd
  split at hd
  · simp only [Loop.processFrames, Loop.normPlain, dictOf, Option.some.injEq] at hd
    subst hd
    exact ⟨by simp, by intro x hx; simp only [List.mem_singleton] at hx; subst hx; exact (by decide : ("main" : String) ≠ "")⟩
  · simp only [Loop.processFrames, Loop.normPlain, dictOf, Option.some.injEq] at hd
    subst hd
    exact ⟨by simp, by intro x hx; simp only [List.mem_singleton] at hx; subst hx; exact (by decide : ("m1" : String) ≠ "")⟩
  · simp only [Loop.processFrames, Loop.normPlain, dictOf, Option.some.injEq] at hd
    subst hd
    refine ⟨by simp only [List.map_cons, List.map_nil]; decide, ?_⟩
    intro x hx
    simp only [List.mem_cons, List.mem_nil_iff, or_false] at hx
    rcases hx with rfl | rfl
    · exact (by decide : ("a" : String) ≠ "")
    · exact (by decide : ("_hid" : String) ≠ "")
  · split at hd
    · simp [Loop.processFrames, Loop.normPlain, dictOf] at hd
    · simp only [Loop.processFrames, Loop.normPlain, dictOf, Option.some.injEq] at hd
      subst hd
      exact ⟨by simp, by intro x hx; simp only [List.mem_singleton] at hx; subst hx; exact (by decide : ("m3" : String) ≠ "")⟩
  · split at hd
    · simp only [Loop.processFrames, Loop.normPlain, dictOf, Option.some.injEq] at hd
      subst hd
      exact ⟨by simp, by intro x hx; simp only [List.mem_singleton] at hx; subst hx; exact (by decide : ("b" : String) ≠ "")⟩
    · simp only [Loop.processFrames, Loop.normPlain, dictOf, Option.some.injEq] at hd
      subst hd
      exact ⟨by simp, by intro x hx; simp only [List.mem_singleton] at hx; subst hx; exact (by decide : ("b" : String) ≠ "")⟩
  · simp [Loop.processFrames, Loop.normPlain, dictOf] at hd

theorem lProc_cntfree : RelayCntFree lProc 2 2 := by
  intro i h1 h2 n m h
  have : i = 1 ∨ i = 2 ∨ i = 3 ∨ i = 4 := by omega
  rcases this with rfl | rfl | rfl | rfl <;> rfl

def lOwner (t : Topic) : Nat := if t = "b" then 1 else 0

theorem lProc_owned : OwnedLast lProc 2 2 lOwner := by
  intro jj n h d hjj hd x hx
  have : jj = 0 ∨ jj = 1 := by omega
  rcases this with rfl | rfl
  · have hd2 : dictOf (Loop.processFrames (lProc 2 n h)) = some d := hd
    unfold lProc at hd2
    simp only [Loop.processFrames, Loop.normPlain, dictOf, Option.some.injEq] at hd2
    subst hd2
    simp only [List.mem_cons, List.mem_nil_iff, or_false] at hx
    rcases hx with rfl | rfl
    · exact (by decide : lOwner "a" = 0)
    · exact (by decide : lOwner "_hid" = 0)
  · have hd2 : dictOf (Loop.processFrames (lProc 4 n h)) = some d := hd
    unfold lProc at hd2
    simp only at hd2
    split at hd2
    · simp only [Loop.processFrames, Loop.normPlain, dictOf, Option.some.injEq] at hd2
      subst hd2; simp only [List.mem_singleton] at hx; subst hx
      exact (by decide : lOwner "b" = 1)
    · simp only [Loop.processFrames, Loop.normPlain, dictOf, Option.some.injEq] at hd2
      subst hd2; simp only [List.mem_singleton] at hx; subst hx
      exact (by decide : lOwner "b" = 1)

/-- 226 events on `0 → 1 → 2 → 5`, `0 → 3 → 4 → 5` (a TEST of the model, kernel-evaluated; `lProc` satisfies the hypotheses `ProcNames`, `RelayCntFree`, `OwnedLast` of
the statement: `lProc_names`, `lProc_cntfree`, `lProc_owned`): the source has produced 17 frames; relay 3 was handed all of them and dropped 2 … 5; relay 1 — the FIRST
relay of branch 0, in the middle of the branch — was handed 0, 1, 2, 3, 4, 6, 7, 8, 9: it was FAST-FORWARDED past source frame 5 by relay 2, whose own hand-over had been
fast-forwarded by the join (relay 2 handed 0, 1, 2, 6, …: the frames 3, 4 relay 1 had published were discarded unprocessed, the result for frame 2 dropped
unpublished); the join was handed exactly the common frames 0, 1, 6, 7, 8, 9, each with both branches' END results for the same source frame (7: the value of relay
4's callable; the hidden topic of relay 2 never arrives) — the first six sets of `rejoinSpecLong`.  No common frame is lost: the statement needs no weakening. -/
example : (lrun (rejoinLongTopo 2 2) lProc (linit (rejoinLongTopo 2 2)) lSched).log 5 =
      [(0, [("a", 0), ("b", 0)]), (1, [("a", 10), ("b", 20)]), (6, [("a", 60), ("b", 120)]), (7, [("a", 70), ("b", 140)]),
       (8, [("a", 80), ("b", 160)]), (9, [("a", 90), ("b", 180)])] ∧
    ((lrun (rejoinLongTopo 2 2) lProc (linit (rejoinLongTopo 2 2)) lSched).log 1).map (·.1) = [0, 1, 2, 3, 4, 6, 7, 8, 9] ∧
    ((lrun (rejoinLongTopo 2 2) lProc (linit (rejoinLongTopo 2 2)) lSched).log 2).map (·.1) = [0, 1, 2, 6, 7, 8, 9] ∧
    ((lrun (rejoinLongTopo 2 2) lProc (linit (rejoinLongTopo 2 2)) lSched).log 3).length = 17 ∧
    ((lrun (rejoinLongTopo 2 2) lProc (linit (rejoinLongTopo 2 2)) lSched).log 4).map (·.1) = [0, 1, 6, 7, 8, 9, 10, 11, 12, 13, 14, 15, 16] ∧
    (rejoinSpecLong lProc 2 2 (srcCount (lrun (rejoinLongTopo 2 2) lProc (linit (rejoinLongTopo 2 2)) lSched))).take 6 =
      (lrun (rejoinLongTopo 2 2) lProc (linit (rejoinLongTopo 2 2)) lSched).log 5 ∧
    (rejoinSpecLong lProc 2 2 (srcCount (lrun (rejoinLongTopo 2 2) lProc (linit (rejoinLongTopo 2 2)) lSched))).map (·.1) =
      [0, 1, 6, 7, 8, 9, 10, 11, 12, 13, 14, 15, 16] := by
  decide +kernel

/-- the statement on a lock-step schedule (a TEST, kernel-evaluated) -/
example : (lrun (rejoinLongTopo 2 2) lProc (linit (rejoinLongTopo 2 2)) lockSchedL).log 5 <+:
    rejoinSpecLong lProc 2 2 (srcCount (lrun (rejoinLongTopo 2 2) lProc (linit (rejoinLongTopo 2 2)) lockSchedL)) := by
  decide +kernel

/-! ### `RelayCntFree` is needed for the relays ABOVE the last one -/

/-- as `lProc`, but relay 1 (first relay of branch 0) drops its SIXTH set, whatever it is (keyed on the call counter) -/
def nProcL : Proc := fun i n h =>
  match i with
  | 1 => if n = 5 then .now .none else .now (.dict [("m1", (h.map (·.2)).sum)])
  | _ => lProc i n h

/-- **`RelayCntFree` is needed, for a relay that is NOT adjacent to the join** (kernel-evaluated): relay 1 drops its sixth set.  With the call counter taken for the
source frame number (the specification) that is source frame 5 — which branch 1 drops anyway, so the common frames are 0, 1, 6, 7, 8, …; and that is what the join is
handed on a lock-step schedule.  On `lSched` relay 1 is fast-forwarded past frame 5 WITHOUT `process()` being called on it: its sixth set is source frame 6, it drops
THAT, and the join is handed 0, 1, 7, 8, 9 — frame 6, which every branch "delivers", is lost: not a prefix of the specification. -/
theorem C03_net_rejoin_long_needs_cntfree :
    ((lrun (rejoinLongTopo 2 2) nProcL (linit (rejoinLongTopo 2 2)) lSched).log 5).map (·.1) = [0, 1, 7, 8, 9] ∧
    ((lrun (rejoinLongTopo 2 2) nProcL (linit (rejoinLongTopo 2 2)) lSched).log 1).map (·.1) = [0, 1, 2, 3, 4, 6, 7, 8, 9] ∧
    (rejoinSpecLong nProcL 2 2 (srcCount (lrun (rejoinLongTopo 2 2) nProcL (linit (rejoinLongTopo 2 2)) lSched))).map (·.1) =
      [0, 1, 6, 7, 8, 9, 10, 11, 12, 13, 14, 15, 16] ∧
    ¬ ((lrun (rejoinLongTopo 2 2) nProcL (linit (rejoinLongTopo 2 2)) lSched).log 5 <+:
      rejoinSpecLong nProcL 2 2 (srcCount (lrun (rejoinLongTopo 2 2) nProcL (linit (rejoinLongTopo 2 2)) lSched))) ∧
    ((lrun (rejoinLongTopo 2 2) nProcL (linit (rejoinLongTopo 2 2)) lockSchedL).log 5).map (·.1) = [0, 1, 6, 7] ∧
    (lrun (rejoinLongTopo 2 2) nProcL (linit (rejoinLongTopo 2 2)) lockSchedL).log 5 <+:
      rejoinSpecLong nProcL 2 2 (srcCount (lrun (rejoinLongTopo 2 2) nProcL (linit (rejoinLongTopo 2 2)) lockSchedL)) := by
  decide +kernel

end OF.Net
