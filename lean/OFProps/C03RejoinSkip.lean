import OFProps.C03Rejoin
import OFProps.RejoinSkipRecv
import OFProps.RejoinSkipSend
set_option linter.unusedSimpArgs false
/-!
# C03 stage C / C01 across filters — the tee-rejoin whose branches SKIP frames

Topology `rejoinTopo b` of `C03Rejoin.lean` (source 0, branch relays `1 … b` each subscribed to the source, join `J = b + 1`
subscribed to ALL branches).  `C03_net_rejoin_composition` needs `NoSkip` (no branch returns `None`).  Here that hypothesis is
REMOVED: a branch may return `None` — directly or as the value of its callable — for any of its sets.

`C03_net_rejoin_common_ids`: for every `proc` with `ProcNames`, `Owned` and `BranchCntFree` (a branch's result does not depend on its
call counter — see below why this is needed), every restart-free schedule: the log of `(id, [(topic, content)])` sets handed to the
join's `process()` is a PREFIX of `rejoinSpecSkip proc b N`: the source's surviving frames `n = 0, 1, 2, …` (ids consecutive) for
which EVERY branch produces a dict, in increasing order, each set holding, branch after branch, the visible topics of that branch's
output for THAT source frame under id `n`.  Never a mixed set (C01), nothing lost that all branches delivered, nothing duplicated or
reordered (C03 for the rejoin).

## What the model (= the real code) does when a branch skips, and why `BranchCntFree`
The join sees on branch `A` the id `G` above the id `E` it expects (`A` skipped `E … G-1`), adopts `G`, drops what the other
branches had delivered for older ids (`resetOthers`) and — its call timing out — asks EVERY branch for `prev_id = G - 1`.  A branch
`B` that is still trying to send an id `k ≤ G - 1` takes the FAST-FORWARD path of `ZMQSender.poll_recv` (`prev_id >= msg_id`): its
pending result is dropped without being published (its callable is not even evaluated), `min_send_id := G`, and `MQ` hands `G` to
`B`'s own receiver (`recv_state`), which then DISCARDS the source's frames below `G` without calling `B.process()` on them.  All the
frames lost this way have ids in `[E, G)`: frames that `A` dropped, i.e. frames that are not common anyway — so the statement about
the join holds.  But `B.process()` is not called for them: `B`'s call counter no longer equals the source frame number.  A branch
whose decision to skip depends on HOW MANY sets it has seen (rather than on the set) makes the set of common frames depend on the
schedule; `C03_net_rejoin_skip_needs_cntfree` is a kernel-evaluated pair of schedules showing exactly that.  Hence the hypothesis.

## Proof
Invariant `GoodSW` (∃ published blocks `pubF`, wire blocks `bss`, join frontier `Jp = J.prev_id`):
* source: `PubInv` of `C03Net.lean` (nothing fast-forwards the source: every request it is sent names an id it has published);
* branch `u` (`BrInv`): as consumer its queue is `ChanQ` holding exactly the source's blocks above its `prev_id`; as publisher its
  ids increase, every queued request names an id `≤ Jp`, a `recv_state` above its own expectation is `≤ Jp + 1`, and the key fact
  `cc`: every id `n` with `Jp < n ≤ prev_id` is published / held by the loop, or `process()` made no dict of source frame `n`;
  every block it published or holds is what `process()` made of the source block of the same id (`pubO`, `pendO`);
* join (`JS`): `SInv` of `RejoinSkipRecv.lean` relative to `Jp + 1`, the blocks sent to source `jj` are all that branch `jj + 1`
  published, `log = (rejoinSpecSkip …).filter (id ≤ Jp)`.
Steps: `call0_chainS` / `send0_ffwd` for a branch, `call0_joinS` for the join; whenever the join's frontier jumps over an id `n`
(`Adv.gap`), some branch has published a later id but not `n`, so by `cc` it made no dict of frame `n`: `n` is not common.
-/
namespace OF.Net
open OF.Chain (Blk ChanQ BlkOK Rest visData vis SInv Mode raise headTs visDataJ Adv)
open OF.Recv (Src Wire Msg Topic)

/-! ## hypotheses and specification -/

/-- a branch's result does not depend on its call counter -/
def BranchCntFree (proc : Proc) (b : Nat) : Prop := ∀ i, 1 ≤ i → i ≤ b → ∀ (n m : Nat) (h : List (Topic × Nat)), proc i n h = proc i m h

/-- the dict branch `i` makes (call number `c`) of the visible part of the source block `x`, if any -/
def outOf (proc : Proc) (i c : Nat) (x : HSet) : Option (List (Topic × Nat)) :=
  dictOf (Loop.processFrames (proc i c (visB x).2))

/-- the set the join is handed for the source block `x` (id `x.1` = its number among the surviving frames): none unless EVERY branch
makes a dict of it -/
def joinSet (proc : Proc) (b : Nat) (x : HSet) : Option HSet :=
  if (List.range b).all (fun jj => (outOf proc (jj + 1) x.1.toNat x).isSome) then
    some (x.1, (List.range b).flatMap fun jj => (visB (branchOut proc (jj + 1) x.1.toNat (visB x))).2)
  else none

/-- the sets handed to the join when the source produces frames `0 … N-1`: the common frames -/
def rejoinSpecSkip (proc : Proc) (b N : Nat) : List HSet := (srcBlocks proc N).filterMap (joinSet proc b)

theorem joinSet_id (proc : Proc) (b : Nat) (x y : HSet) (h : joinSet proc b x = some y) : y.1 = x.1 := by
  unfold joinSet at h
  split at h
  · simp only [Option.some.injEq] at h; rw [← h]
  · cases h

theorem idsInc_unique (l : List HSet) (h : IdsInc l) (x y : HSet) (hx : x ∈ l) (hy : y ∈ l) (e : x.1 = y.1) : x = y := by
  have hp := h.1
  induction l with
  | nil => cases hx
  | cons a l ih =>
    rw [List.pairwise_cons] at hp
    rcases List.mem_cons.mp hx with rfl | hx'
    · rcases List.mem_cons.mp hy with rfl | hy'
      · rfl
      · have := hp.1 y hy'; omega
    · rcases List.mem_cons.mp hy with rfl | hy'
      · have := hp.1 x hx'; omega
      · exact ih ⟨hp.2, fun b hb => h.2 b (List.mem_cons_of_mem _ hb)⟩ hx' hy' hp.2

theorem srcBlocks_inc (proc : Proc) (n : Nat) : IdsInc (srcBlocks proc n) := by
  induction n with
  | zero => exact idsInc_nil
  | succ n ih =>
    simp only [srcBlocks, blockOf]
    split
    · refine idsInc_snoc _ _ ih ?_ (by simp)
      intro b hb
      have := lastId_ge _ ih b hb
      have h2 := srcBlocks_ids proc n
      simp only; omega
    · rw [List.append_nil]; exact ih

/-- the ids of the specification increase -/
theorem spec_pairwise (proc : Proc) (b N : Nat) : (rejoinSpecSkip proc b N).Pairwise (fun a c => a.1 < c.1) := by
  unfold rejoinSpecSkip
  have h := (srcBlocks_inc proc N).1
  generalize srcBlocks proc N = l at h
  induction l with
  | nil => exact List.Pairwise.nil
  | cons x l ih =>
    rw [List.pairwise_cons] at h
    rw [List.filterMap_cons]
    cases hj : joinSet proc b x with
    | none => exact ih h.2
    | some y =>
      simp only
      rw [List.pairwise_cons]
      refine ⟨?_, ih h.2⟩
      intro z hz
      rw [List.mem_filterMap] at hz
      rcases hz with ⟨x', hx', hz'⟩
      rw [joinSet_id proc b x y hj, joinSet_id proc b x' z hz']
      exact h.1 x' hx'

/-! ## lists with increasing ids, cut at an id -/

def upTo (m : Int) (l : List HSet) : List HSet := l.filter fun y => decide (y.1 ≤ m)

theorem upTo_prefix (m : Int) : ∀ (l : List HSet), l.Pairwise (fun a c => a.1 < c.1) → upTo m l <+: l := by
  intro l
  induction l with
  | nil => intro _; exact List.prefix_refl _
  | cons a l ih =>
    intro h
    rw [List.pairwise_cons] at h
    unfold upTo
    rw [List.filter_cons]
    by_cases ha : a.1 ≤ m
    · simp only [ha, decide_true, ↓reduceIte]
      exact (List.prefix_cons_inj a).mpr (ih h.2)
    · simp only [ha, decide_false, Bool.false_eq_true, ↓reduceIte]
      have : l.filter (fun y => decide (y.1 ≤ m)) = [] := by
        rw [List.filter_eq_nil_iff]
        intro y hy
        have := h.1 y hy
        simp only [decide_eq_true_eq]; omega
      rw [this]
      exact List.nil_prefix

/-- no entry with an id in `(m, m']`: cutting at `m'` is cutting at `m` -/
theorem upTo_congr (m m' : Int) (l : List HSet) (h : ∀ y ∈ l, y.1 ≤ m ∨ m' < y.1) (hm : m ≤ m') : upTo m' l = upTo m l := by
  unfold upTo
  apply List.filter_congr
  intro y hy
  rcases h y hy with h1 | h1
  · have : y.1 ≤ m' := by omega
    simp [h1, this]
  · have : ¬ y.1 ≤ m := by omega
    have h2 : ¬ y.1 ≤ m' := by omega
    simp [this, h2]

/-- `e` is the only entry with an id in `(m, e.1]`: cutting at `e.1` is cutting at `m`, then `e` -/
theorem upTo_snoc (m : Int) (e : HSet) : ∀ (l : List HSet), l.Pairwise (fun a c => a.1 < c.1) → e ∈ l → m < e.1 →
    (∀ y ∈ l, y.1 ≤ m ∨ e.1 ≤ y.1) → upTo e.1 l = upTo m l ++ [e] := by
  intro l
  induction l with
  | nil => intro _ he; cases he
  | cons a l ih =>
    intro hp he hm hy
    rw [List.pairwise_cons] at hp
    unfold upTo
    rw [List.filter_cons, List.filter_cons]
    rcases List.mem_cons.mp he with rfl | he'
    · have h1 : ¬ e.1 ≤ m := by omega
      have hrest : ∀ (k : Int), k ≤ e.1 → l.filter (fun y => decide (y.1 ≤ k)) = [] := by
        intro k hk
        rw [List.filter_eq_nil_iff]
        intro y hy'
        have := hp.1 y hy'
        simp only [decide_eq_true_eq]; omega
      simp only [Int.le_refl, decide_true, ↓reduceIte, h1, decide_false, Bool.false_eq_true]
      rw [hrest e.1 (Int.le_refl _), hrest m (by omega)]
      rfl
    · have hae : a.1 < e.1 := hp.1 e he'
      have ham : a.1 ≤ m := by
        rcases hy a (List.mem_cons_self ..) with h1 | h1
        · exact h1
        · omega
      have hae' : a.1 ≤ e.1 := by omega
      simp only [hae', decide_true, ↓reduceIte, ham, List.cons_append]
      congr 1
      exact ih hp.2 he' hm (fun y hy' => hy y (List.mem_cons_of_mem _ hy'))

/-! ## the invariant -/

/-- branch `u`: consumer of the source, publisher towards the join; `Jp` = the join's `prev_id` -/
structure BrInv (proc : Proc) (tbl : List Entry) (u : Nat) (nd : Node) (pub0 pub : List HSet) (Jp : Int) (bsW : List Blk) (s : Src) :
    Prop where
  rest : Rest nd.con s
  chan : ChanQ 0 nd.con.prevId s.queue bsW
  bodies : ∀ b ∈ bsW, ∀ x ∈ b.2, x.2 < tbl.length
  queued : pub0.filter (fun x => decide (nd.con.prevId < x.1)) = bsW.map (cblk tbl)
  prevLe : nd.con.prevId ≤ lastId pub0
  inc : IdsInc pub
  idle : nd.pub.inCall = false
  bal : nd.pub.balance = false
  nq : nd.pub.queues.length = 1
  reqs : ∀ q ∈ nd.pub.queues, ∀ r ∈ q, r.mid ≤ Jp
  minP : nd.pending.isSome = true → nd.pub.minSendId ≤ nd.con.prevId
  minN : nd.pending = none → nd.recvState = some nd.pub.minSendId ∨ nd.pub.minSendId ≤ nd.con.prevId + 1
  recvSt : ∀ G, nd.recvState = some G → G ≤ Jp + 1 ∨ G ≤ nd.con.prevId + 1
  pubLe : ∀ blk ∈ pub, blk.1 ≤ nd.con.prevId
  strict : nd.pending.isSome = true → ∀ blk ∈ pub, blk.1 < nd.con.prevId
  relay : nd.pending.isSome = true → nd.sendState = some (nd.con.prevId, 0) ∧ 0 ≤ nd.con.prevId
  names : ∀ p d, nd.pending = some p → dictOf p.res = some d → NamesOK d
  pendO : ∀ p d, nd.pending = some p → dictOf p.res = some d → ∃ x ∈ pub0, ∃ c, x.1 = nd.con.prevId ∧ outOf proc u c x = some d
  pubO : ∀ blk ∈ pub, ∃ x ∈ pub0, ∃ c, x.1 = blk.1 ∧ outOf proc u c x = some blk.2
  cc : ∀ n : Int, Jp < n → n ≤ nd.con.prevId →
    (∃ blk ∈ pub ++ pendOf nd, blk.1 = n) ∨ (∀ x ∈ pub0, x.1 = n → ∀ c, outOf proc u c x = none)

/-- the join; `bss jj` = ALL the blocks branch `jj + 1` has put on the wire -/
structure JS (proc : Proc) (b : Nat) (owner : Topic → Nat) (X : LSt) (J : Node) (pubF : Nat → List HSet) (bss : Nat → List Blk)
    (Jp : Int) : Prop where
  prev : J.con.prevId = Jp
  sinv : SInv ((List.range b).map (· + 1)) owner J.con (Jp + 1) bss
  idle : J.con.inCall = false
  rs : J.recvState = none
  link : ∀ jj, jj < b → pubF (jj + 1) = (bss jj).map (cblk X.st.tbl)
  bodies : ∀ jj, jj < b → ∀ blk ∈ bss jj, ∀ x ∈ blk.2, x.2 < X.st.tbl.length
  log : X.log (b + 1) = upTo Jp (rejoinSpecSkip proc b (srcCount X))
  jle : Jp ≤ lastId (pubF 0)

structure GoodSW (proc : Proc) (b : Nat) (owner : Topic → Nat) (X : LSt) (pubF : Nat → List HSet) (bss : Nat → List Blk) (Jp : Int) :
    Prop where
  len : X.st.nodes.length = b + 2
  tbl : 0 < X.st.tbl.length
  src : ∀ (P : Node), X.st.nodes[0]? = some P → PubInv proc X 0 P (pubF 0) ∧ NodeG 0 P
  br : ∀ (u : Nat) (C : Node), 1 ≤ u → u ≤ b → X.st.nodes[u]? = some C →
    ∃ bsW s, BrInv proc X.st.tbl u C (pubF 0) (pubF u) Jp bsW s
  join : ∀ (J : Node), X.st.nodes[b + 1]? = some J → JS proc b owner X J pubF bss Jp

def GoodS (proc : Proc) (b : Nat) (owner : Topic → Nat) (X : LSt) : Prop := ∃ pubF bss Jp, GoodSW proc b owner X pubF bss Jp

theorem upTo_nil (m : Int) : upTo m [] = [] := rfl

theorem goodS_init (proc : Proc) (b : Nat) (owner : Topic → Nat) :
    GoodSW proc b owner (linit (rejoinTopo b)) (fun _ => []) (fun _ => []) (-1) := by
  refine ⟨by simp [linit, init, rj_n], by simp [linit, init], ?_, ?_, ?_⟩
  · intro P hP
    rcases rj_init_get b 0 P hP with ⟨_, rfl⟩
    refine ⟨⟨?_, idsInc_nil, rfl, rfl, rfl, rfl, ?_, (by intro hc; cases hc), (by intro p d hp; cases hp)⟩,
      ⟨fun _ => by simp [freshNode, rj_ups0, Recv.mkSt], (by intro _ hc; cases hc), (by intro _ k hk; cases hk)⟩⟩
    · simp only [prodOf, freshNode, pendOf, List.append_nil]
      rfl
    · intro q hq r hr
      simp [freshNode, Send.mkSt] at hq
      subst hq; cases hr
  · intro u C h1 h2 hC
    rcases rj_init_get b u C hC with ⟨_, rfl⟩
    have hups := rj_upsBranch b u h1 h2
    refine ⟨[], Recv.mkSrc 0 none, ⟨⟨?_, ⟨rfl, rfl, rfl, rfl⟩, ⟨rfl, rfl, rfl⟩, rfl, rfl, (by intro l hl; cases hl), rfl,
      (by simp [freshNode, Recv.mkSt, OF.Facts.MSG_ID_INITIAL_PREV])⟩, rfl⟩,
      ChanQ.nil _, (by intro b hb; cases hb), rfl, ?_, idsInc_nil, rfl, rfl, rfl, ?_, (by intro hc; cases hc), ?_,
      (by intro G hG; cases hG), (by intro blk hb; cases hb), (by intro hc; cases hc), (by intro hc; cases hc),
      (by intro p d hp; cases hp), (by intro p d hp; cases hp), (by intro blk hb; cases hb), ?_⟩
    · simp [freshNode, hups, Recv.mkSt]
    · simp [freshNode, Recv.mkSt, OF.Facts.MSG_ID_INITIAL_PREV, lastId]
    · intro q hq r hr
      simp [freshNode, Send.mkSt] at hq
      subst hq; cases hr
    · intro _
      right
      simp [freshNode, Recv.mkSt, Send.mkSt, OF.Facts.MSG_ID_INITIAL_PREV, OF.Facts.MSG_ID_INITIAL]
    · intro n h1 h2
      simp only [freshNode, Recv.mkSt, OF.Facts.MSG_ID_INITIAL_PREV] at h2
      omega
  · intro J hJ
    rcases rj_init_get b (b + 1) J hJ with ⟨_, rfl⟩
    have hsrcs : (freshNode (rejoinTopo b) (b + 1) 0).con.srcs = (List.range b).map fun _ => Recv.mkSrc 0 none := by
      simp [freshNode, rj_upsJ, Recv.mkSt, List.map_map]
    have hget : ∀ (j : Nat) (s : Src), (freshNode (rejoinTopo b) (b + 1) 0).con.srcs[j]? = some s → j < b ∧ s = Recv.mkSrc 0 none := by
      intro j s hs
      rw [hsrcs, List.getElem?_map] at hs
      cases hr : (List.range b)[j]? with
      | none => rw [hr] at hs; cases hs
      | some v =>
        rw [hr] at hs
        have := (List.getElem?_eq_some_iff.mp hr).1
        simp only [List.length_range] at this
        simp only [Option.map_some, Option.some.injEq] at hs
        exact ⟨this, hs.symm⟩
    refine ⟨by simp [freshNode, Recv.mkSt, OF.Facts.MSG_ID_INITIAL_PREV],
      ⟨⟨rfl, rfl, rfl, ?_⟩, by rw [hsrcs]; simp, by omega, ?_, (by intro j blk hb; cases hb)⟩, rfl, rfl, (fun _ _ => rfl),
      (by intro jj _ blk hb; cases hb), ?_, by simp [lastId]⟩
    · intro j s hs
      rcases hget j s hs with ⟨_, rfl⟩
      exact ⟨rfl, rfl, rfl, rfl⟩
    · intro j s hs
      rcases hget j s hs with ⟨hjb, rfl⟩
      refine ⟨j + 1, by simp [hjb], Mode.idle rfl rfl (ChanQ.nil _)⟩
    · show [] = upTo (-1) (rejoinSpecSkip proc b (srcCount (linit (rejoinTopo b))))
      have : srcCount (linit (rejoinTopo b)) = 0 := by
        unfold srcCount
        simp [linit, init, rj_n, freshNode]
      rw [this]
      rfl

/-! ## frame lemmas -/

theorem pendOf_congr (nd nd' : Node) (hpend : nd'.pending = nd.pending) (hss : nd'.sendState = nd.sendState)
    (hmin : nd'.pub.minSendId = nd.pub.minSendId) : pendOf nd' = pendOf nd := by
  have hsid : sendId nd' = sendId nd := by unfold sendId; rw [hss, hmin]
  unfold pendOf; rw [hpend, hsid]

/-- a branch whose endpoints did not act: the table may have grown, the join's frontier may have moved on, requests may have
arrived -/
theorem brInv_frame (proc : Proc) (tbl es : List Entry) (u : Nat) (nd nd' : Node) (pub0 pub : List HSet) (Jp Jp' : Int)
    (bsW : List Blk) (s : Src) (h : BrInv proc tbl u nd pub0 pub Jp bsW s) (hJ : Jp ≤ Jp')
    (hcon : nd'.con = nd.con) (hpend : nd'.pending = nd.pending) (hss : nd'.sendState = nd.sendState)
    (hrs : nd'.recvState = nd.recvState) (hin : nd'.pub.inCall = nd.pub.inCall) (hbal : nd'.pub.balance = nd.pub.balance)
    (hmin : nd'.pub.minSendId = nd.pub.minSendId) (hnq : nd'.pub.queues.length = 1)
    (hq : ∀ q ∈ nd'.pub.queues, ∀ r ∈ q, r.mid ≤ Jp') : BrInv proc (tbl ++ es) u nd' pub0 pub Jp' bsW s := by
  have hpo := pendOf_congr nd nd' hpend hss hmin
  refine ⟨by rw [hcon]; exact h.rest, by rw [hcon]; exact h.chan, ?_, ?_, by rw [hcon]; exact h.prevLe, h.inc, hin.trans h.idle,
    hbal.trans h.bal, hnq, hq, by rw [hpend, hmin, hcon]; exact h.minP, by rw [hpend, hrs, hmin, hcon]; exact h.minN, ?_,
    by rw [hcon]; exact h.pubLe, by rw [hpend, hcon]; exact h.strict, by rw [hpend, hss, hcon]; exact h.relay,
    by rw [hpend]; exact h.names, by rw [hpend, hcon]; exact h.pendO, h.pubO, ?_⟩
  · intro b hb x hx
    rw [List.length_append]
    have := h.bodies b hb x hx; omega
  · rw [hcon, h.queued]
    apply List.map_congr_left
    intro b hb
    rw [cblk_append _ _ b (h.bodies b hb)]
  · intro G hG
    rw [hrs] at hG
    rw [hcon]
    rcases h.recvSt G hG with h1 | h1
    · left; omega
    · right; exact h1
  · intro n h1 h2
    rw [hcon] at h2
    rw [hpo]
    exact h.cc n (by omega) h2

theorem brInv_pushReqs (proc : Proc) (tbl : List Entry) (u : Nat) (nd : Node) (pub0 pub : List HSet) (Jp Jp' : Int)
    (bsW : List Blk) (s : Src) (rs : List Send.Req) (h : BrInv proc tbl u nd pub0 pub Jp bsW s) (hJ : Jp ≤ Jp')
    (hrs : ∀ r ∈ rs, r.mid ≤ Jp') : BrInv proc tbl u { nd with pub := pushReqs nd.pub rs } pub0 pub Jp' bsW s := by
  have := brInv_frame proc tbl [] u nd { nd with pub := pushReqs nd.pub rs } pub0 pub Jp Jp' bsW s h hJ rfl rfl rfl rfl rfl rfl rfl
    (by simp [pushReqs, h.nq]) ?_
  · simpa using this
  · intro q hq r hr
    rcases pushReqs_mem nd.pub rs q hq with ⟨q0, hq0, rfl⟩
    rw [List.mem_append] at hr
    rcases hr with hr | hr
    · have := h.reqs q0 hq0 r hr; omega
    · exact hrs r hr

theorem js_frame (proc : Proc) (b : Nat) (owner : Topic → Nat) (X X' : LSt) (J J' : Node) (pubF : Nat → List HSet)
    (bss : Nat → List Blk) (Jp : Int) (es : List Entry) (h : JS proc b owner X J pubF bss Jp) (htbl : X'.st.tbl = X.st.tbl ++ es)
    (hlog : X'.log (b + 1) = X.log (b + 1)) (hcon : J'.con = J.con) (hrs : J'.recvState = J.recvState)
    (hspec : upTo Jp (rejoinSpecSkip proc b (srcCount X')) = upTo Jp (rejoinSpecSkip proc b (srcCount X))) :
    JS proc b owner X' J' pubF bss Jp := by
  refine ⟨by rw [hcon]; exact h.prev, by rw [hcon]; exact h.sinv, by rw [hcon]; exact h.idle, hrs.trans h.rs, ?_, ?_,
    by rw [hlog, hspec]; exact h.log, h.jle⟩
  · intro jj hjj
    rw [h.link jj hjj, htbl]
    apply List.map_congr_left
    intro blk hblk
    exact (cblk_append X.st.tbl es blk (h.bodies jj hjj blk hblk)).symm
  · intro jj hjj blk hblk x hx
    rw [htbl, List.length_append]
    have := h.bodies jj hjj blk hblk x hx
    omega

theorem js_congr_pub (proc : Proc) (b : Nat) (owner : Topic → Nat) (X : LSt) (J : Node) (pubF pubF' : Nat → List HSet)
    (bss : Nat → List Blk) (Jp : Int) (h : JS proc b owner X J pubF bss Jp) (he : ∀ jj, jj < b → pubF' (jj + 1) = pubF (jj + 1))
    (hle : Jp ≤ lastId (pubF' 0)) : JS proc b owner X J pubF' bss Jp :=
  ⟨h.prev, h.sinv, h.idle, h.rs, fun jj hjj => by rw [he jj hjj]; exact h.link jj hjj, h.bodies, h.log, hle⟩

/-! ## generic re-assembly after a `nodeRecv` -/

theorem srcCount_eq (X X' : LSt) (h : (X'.st.nodes[0]?).map (·.count) = (X.st.nodes[0]?).map (·.count)) : srcCount X' = srcCount X := by
  unfold srcCount; rw [h]


theorem goodS_recv_gen (proc : Proc) (b : Nat) (owner : Topic → Nat) (X : LSt) (c : Nat) (nd' : Node) (rs : Nat → List Send.Req)
    (log' : Nat → List HSet) (nodes' : List Node) (pubF : Nat → List HSet) (bss bss' : Nat → List Blk) (Jp Jp' : Int)
    (h : GoodSW proc b owner X pubF bss Jp) (hlen : nodes'.length = b + 2)
    (hlook : ∀ (x : Nat), nodes'[x]? = if x = c then some nd'
        else (X.st.nodes[x]?).map fun P => { P with pub := pushReqs P.pub (rs x) })
    (hJp : Jp ≤ Jp')
    (hrs0 : ∀ r ∈ rs 0, r.mid ≤ lastId (pubF 0))
    (hrsB : ∀ u, 1 ≤ u → u ≤ b → ∀ r ∈ rs u, r.mid ≤ Jp')
    (hlog0 : log' 0 = X.log 0)
    (hsrc : c = 0 → PubInv proc { st := { X.st with nodes := nodes' }, log := log' } 0 nd' (pubF 0) ∧ NodeG 0 nd')
    (hbr : 1 ≤ c → c ≤ b → ∃ bsW s, BrInv proc X.st.tbl c nd' (pubF 0) (pubF c) Jp' bsW s)
    (hJ : c = b + 1 → JS proc b owner { st := { X.st with nodes := nodes' }, log := log' } nd' pubF bss' Jp')
    (hJo : c ≠ b + 1 → bss' = bss ∧ Jp' = Jp ∧ log' (b + 1) = X.log (b + 1) ∧
      (c = 0 → upTo Jp (rejoinSpecSkip proc b (srcCount { st := { X.st with nodes := nodes' }, log := log' })) =
        upTo Jp (rejoinSpecSkip proc b (srcCount X)))) :
    GoodSW proc b owner { st := { X.st with nodes := nodes' }, log := log' } pubF bss' Jp' := by
  have hother : ∀ (x : Nat) (n' : Node), x ≠ c → nodes'[x]? = some n' →
      ∃ P, X.st.nodes[x]? = some P ∧ n' = { P with pub := pushReqs P.pub (rs x) } := by
    intro x n' hx hn
    rw [hlook] at hn
    simp only [hx, ↓reduceIte] at hn
    cases hP : X.st.nodes[x]? with
    | none => rw [hP] at hn; cases hn
    | some P =>
      rw [hP] at hn
      simp only [Option.map_some, Option.some.injEq] at hn
      exact ⟨P, rfl, hn.symm⟩
  have hself : ∀ (n' : Node), nodes'[c]? = some n' → n' = nd' := by
    intro n' hn
    rw [hlook] at hn
    simp only [↓reduceIte, Option.some.injEq] at hn
    exact hn.symm
  refine ⟨hlen, h.tbl, ?_, ?_, ?_⟩
  · intro P' hP'
    by_cases hxc : 0 = c
    · subst hxc; rw [hself P' hP']; exact hsrc rfl
    · rcases hother 0 P' hxc hP' with ⟨P, hP, rfl⟩
      have ⟨hp, hg⟩ := h.src P hP
      exact ⟨pubInv_pushReqs proc X _ 0 P (pubF 0) (rs 0) hp hlog0 hrs0, nodeG_frame 0 P _ hg rfl rfl rfl rfl⟩
  · intro u C' h1 h2 hC'
    by_cases hxc : u = c
    · subst hxc; rw [hself C' hC']; exact hbr h1 h2
    · rcases hother u C' hxc hC' with ⟨P, hP, rfl⟩
      rcases h.br u P h1 h2 hP with ⟨bsW, s, hb⟩
      exact ⟨bsW, s, brInv_pushReqs proc X.st.tbl u P (pubF 0) (pubF u) Jp Jp' bsW s (rs u) hb hJp (hrsB u h1 h2)⟩
  · intro J' hJ'
    by_cases hxc : b + 1 = c
    · subst hxc; rw [hself J' hJ']; exact hJ rfl
    · rcases hother (b + 1) J' hxc hJ' with ⟨P, hP, rfl⟩
      have ⟨e1, e2, e3, e4⟩ := hJo (fun e => hxc e.symm)
      rw [e1, e2]
      refine js_frame proc b owner X _ P _ pubF bss Jp [] (h.join P hP) (by simp) e3 rfl rfl ?_
      by_cases hc0 : c = 0
      · exact e4 hc0
      · have : srcCount { st := { X.st with nodes := nodes' }, log := log' } = srcCount X := by
          unfold srcCount
          have hne : ¬ 0 = c := fun e => hc0 e.symm
          simp only [hlook 0, hne, ↓reduceIte]
          cases X.st.nodes[0]? with
          | none => rfl
          | some P0 => rfl
        rw [this]

/-! ## generic re-assembly after a `nodeSend` of a publisher -/

theorem goodS_send_gen (proc : Proc) (b : Nat) (owner : Topic → Nat) (X : LSt) (j : Nat) (nd nd' : Node) (es : List Entry)
    (ws : List Wire) (nodes' : List Node) (pubF pubF' : Nat → List HSet) (bss bss' : Nat → List Blk) (Jp : Int)
    (h : GoodSW proc b owner X pubF bss Jp) (hn : X.st.nodes[j]? = some nd) (hjb : j ≤ b) (hlen : nodes'.length = b + 2)
    (hlook : ∀ (x : Nat), nodes'[x]? = if x = j then some nd'
        else (X.st.nodes[x]?).map fun C => { C with con := pushWires C.con ((rejoinTopo b).upsOf x) j ws })
    (hpubF : ∀ u, u ≠ j → pubF' u = pubF u)
    (hsrc : j = 0 → PubInv proc { st := { nodes := nodes', tbl := X.st.tbl ++ es }, log := X.log } 0 nd' (pubF' 0) ∧ NodeG 0 nd' ∧
      nd'.count = nd.count ∧ Jp ≤ lastId (pubF' 0) ∧ bss' = bss)
    (hbrO : j = 0 → ∀ (x : Nat) (C : Node), 1 ≤ x → x ≤ b → X.st.nodes[x]? = some C →
      ∃ bsW s, BrInv proc (X.st.tbl ++ es) x { C with con := pushWires C.con [0] 0 ws } (pubF' 0) (pubF x) Jp bsW s)
    (hbrJ : 1 ≤ j → ∃ bsW s, BrInv proc (X.st.tbl ++ es) j nd' (pubF 0) (pubF' j) Jp bsW s)
    (hjoin : 1 ≤ j → ∀ (J : Node), X.st.nodes[b + 1]? = some J →
      JS proc b owner { st := { nodes := X.st.nodes, tbl := X.st.tbl ++ es }, log := X.log }
        { J with con := pushWires J.con ((List.range b).map (· + 1)) j ws } pubF' bss' Jp) :
    GoodSW proc b owner { st := { nodes := nodes', tbl := X.st.tbl ++ es }, log := X.log } pubF' bss' Jp := by
  have hother : ∀ (x : Nat) (n' : Node), x ≠ j → nodes'[x]? = some n' →
      ∃ C, X.st.nodes[x]? = some C ∧ n' = { C with con := pushWires C.con ((rejoinTopo b).upsOf x) j ws } := by
    intro x n' hx hn'
    rw [hlook] at hn'
    simp only [hx, ↓reduceIte] at hn'
    cases hP : X.st.nodes[x]? with
    | none => rw [hP] at hn'; cases hn'
    | some P =>
      rw [hP] at hn'
      simp only [Option.map_some, Option.some.injEq] at hn'
      exact ⟨P, rfl, hn'.symm⟩
  have hself : ∀ (n' : Node), nodes'[j]? = some n' → n' = nd' := by
    intro n' hn'
    rw [hlook] at hn'
    simp only [↓reduceIte, Option.some.injEq] at hn'
    exact hn'.symm
  refine ⟨hlen, by simp only [List.length_append]; have := h.tbl; omega, ?_, ?_, ?_⟩
  · intro P' hP'
    by_cases hxj : 0 = j
    · subst hxj; rw [hself P' hP']; exact ⟨(hsrc rfl).1, (hsrc rfl).2.1⟩
    · rcases hother 0 P' hxj hP' with ⟨C, hC, rfl⟩
      rw [rj_ups0, pushWires_noop C.con [] j ws (by intro k; simp), hpubF 0 hxj]
      have ⟨hp, hg⟩ := h.src C hC
      exact ⟨pubInv_frame proc X _ 0 C _ (pubF 0) hp rfl rfl rfl rfl rfl rfl rfl hp.nq hp.reqs, hg⟩
  · intro x C' h1 h2 hC'
    by_cases hxj : x = j
    · subst hxj
      rw [hself C' hC', hpubF 0 (by omega)]
      exact hbrJ h1
    · rcases hother x C' hxj hC' with ⟨C, hC, rfl⟩
      rw [rj_upsBranch b x h1 h2, hpubF x hxj]
      by_cases hj0 : j = 0
      · subst hj0
        exact hbrO rfl x C h1 h2 hC
      · rw [hpubF 0 (fun e => hj0 e.symm), pushWires_noop C.con [0] j ws (by
          intro k
          cases k with
          | zero => simp; omega
          | succ k => simp)]
        rcases h.br x C h1 h2 hC with ⟨bsW, s, hb⟩
        exact ⟨bsW, s, brInv_frame proc X.st.tbl es x C C (pubF 0) (pubF x) Jp Jp bsW s hb (Int.le_refl _) rfl rfl rfl rfl rfl rfl rfl
          hb.nq hb.reqs⟩
  · intro J' hJ'
    rcases hother (b + 1) J' (by omega) hJ' with ⟨J, hJ, rfl⟩
    rw [rj_upsJ]
    by_cases hj0 : j = 0
    · subst hj0
      have ⟨_, _, hcnt, hle, hbss⟩ := hsrc rfl
      rw [hbss, pushWires_noop J.con _ 0 ws (by
        intro k hc
        have := rj_ups_some b k 0 hc
        omega)]
      refine js_congr_pub proc b owner _ J pubF pubF' bss Jp ?_ (fun jj _ => hpubF (jj + 1) (by omega)) hle
      refine js_frame proc b owner X _ J J pubF bss Jp es (h.join J hJ) rfl rfl rfl rfl ?_
      have : srcCount { st := { nodes := nodes', tbl := X.st.tbl ++ es }, log := X.log } = srcCount X := by
        unfold srcCount
        simp only [hlook 0, ↓reduceIte, hn, Option.map_some, hcnt]
      rw [this]
    · refine js_frame proc b owner _ _ _ _ pubF' bss' Jp [] (hjoin (by omega) J hJ) (by simp) rfl rfl rfl ?_
      have : srcCount { st := { nodes := nodes', tbl := X.st.tbl ++ es }, log := X.log } =
          srcCount { st := { nodes := X.st.nodes, tbl := X.st.tbl ++ es }, log := X.log } := by
        apply srcCount_eq
        have hne : ¬ 0 = j := fun e => hj0 e.symm
        simp only [hlook 0, hne, ↓reduceIte]
        cases X.st.nodes[0]? with
        | none => rfl
        | some P0 => rfl
      rw [this]

/-! ## `nodeRecv` of the source -/

theorem goodS_eta (proc : Proc) (b : Nat) (owner : Topic → Nat) (X : LSt) (h : GoodS proc b owner X) :
    GoodS proc b owner { st := X.st, log := X.log } := by
  cases X; exact h

theorem spec_succ (proc : Proc) (b N : Nat) : rejoinSpecSkip proc b (N + 1) =
    rejoinSpecSkip proc b N ++ (blockOf proc 0 N (((srcBlocks proc N).length : Int), [])).filterMap (joinSet proc b) := by
  simp only [rejoinSpecSkip, srcBlocks, List.filterMap_append]

theorem upTo_append (m : Int) (a c : List HSet) : upTo m (a ++ c) = upTo m a ++ upTo m c := by
  unfold upTo; rw [List.filter_append]

/-- a new source frame has an id above the join's frontier: the part of the specification below the frontier stays -/
theorem spec_stable (proc : Proc) (b N : Nat) (Jp : Int) (h : Jp < ((srcBlocks proc N).length : Int)) :
    upTo Jp (rejoinSpecSkip proc b (N + 1)) = upTo Jp (rejoinSpecSkip proc b N) := by
  rw [spec_succ, upTo_append]
  have : upTo Jp ((blockOf proc 0 N (((srcBlocks proc N).length : Int), [])).filterMap (joinSet proc b)) = [] := by
    unfold upTo
    rw [List.filter_eq_nil_iff]
    intro y hy
    rw [List.mem_filterMap] at hy
    rcases hy with ⟨x, hx, hj⟩
    have h1 := blockOf_ids proc 0 N _ x hx
    have h2 := joinSet_id proc b x y hj
    simp only at h1
    simp only [decide_eq_true_eq]
    omega
  rw [this, List.append_nil]

theorem goodS_recvSource (proc : Proc) (hp : ProcNames proc) (b : Nat) (owner : Topic → Nat) (X : LSt) (nd : Node)
    (pubF : Nat → List HSet) (bss : Nat → List Blk) (Jp : Int) (h : GoodSW proc b owner X pubF bss Jp)
    (hn : X.st.nodes[0]? = some nd) (hpend : nd.pending = none) :
    GoodSW proc b owner { st := { X.st with nodes := X.st.nodes.set 0 (processed proc 0 nd []) }, log := X.log } pubF bss Jp := by
  have ⟨hpub, hG⟩ := h.src nd hn
  have h0 : 0 < X.st.nodes.length := (List.getElem?_eq_some_iff.mp hn).1
  have hJL : b + 1 < X.st.nodes.length := by rw [h.len]; omega
  have hJn : X.st.nodes[b + 1]? = some X.st.nodes[b + 1] := List.getElem?_eq_getElem hJL
  have hJ := h.join _ hJn
  refine goodS_recv_gen proc b owner X 0 (processed proc 0 nd []) (fun _ => []) X.log _ pubF bss bss Jp Jp h
    (by simp only [List.length_set]; exact h.len) ?_ (Int.le_refl _) (by intro r hr; cases hr) (by intro u _ _ r hr; cases hr) rfl
    ?_ (by intro hc; omega) (by intro hc; omega) ?_
  · intro x
    rw [List.getElem?_set]
    by_cases hx : x = 0
    · subst hx; simp [h0]
    · have : ¬ 0 = x := fun e => hx e.symm
      simp only [this, hx, ↓reduceIte]
      cases X.st.nodes[x]? with
      | none => rfl
      | some P => simp only [Option.map_some, pushReqs_nil]
  · intro _
    exact ⟨pubInv_after_src proc hp X _ nd (pubF 0) hpub hpend (hG.src rfl).2,
      ⟨fun _ => hG.src rfl, fun hc => absurd hc (by omega), fun hc => absurd hc (by omega)⟩⟩
  · intro _
    refine ⟨rfl, rfl, rfl, fun _ => ?_⟩
    have hc1 : srcCount { st := { X.st with nodes := X.st.nodes.set 0 (processed proc 0 nd []) }, log := X.log } = nd.count + 1 := by
      unfold srcCount
      simp [h0, processed]
    have hc0 : srcCount X = nd.count := by unfold srcCount; rw [hn]; rfl
    rw [hc1, hc0]
    apply spec_stable
    have hpubeq : srcBlocks proc nd.count = pubF 0 := by
      have := hpub.prod
      simp only [prodOf, ↓reduceIte, pendOf_none nd hpend, List.append_nil] at this
      exact this
    have := srcBlocks_ids proc nd.count
    rw [hpubeq] at this
    rw [hpubeq]
    have := hJ.jle
    omega

/-! ## `nodeRecv` of a branch -/

theorem queued_raise (tbl : List Entry) (pub0 : List HSet) (bsW : List Blk) (prev B : Int)
    (h : pub0.filter (fun x => decide (prev < x.1)) = bsW.map (cblk tbl)) (hB : prev ≤ B - 1) :
    pub0.filter (fun x => decide (B - 1 < x.1)) = (raise B bsW).map (cblk tbl) := by
  have e1 : pub0.filter (fun x => decide (B - 1 < x.1)) = (pub0.filter (fun x => decide (prev < x.1))).filter (fun x => decide (B - 1 < x.1)) := by
    rw [List.filter_filter]
    apply List.filter_congr
    intro x _
    by_cases hx : B - 1 < x.1
    · have : prev < x.1 := by omega
      simp [hx, this]
    · simp [hx]
  rw [e1, h, List.filter_map]
  unfold raise
  congr 1
  apply List.filter_congr
  intro x _
  simp only [Function.comp_apply, cblk]
  by_cases hx : B ≤ x.1
  · have : B - 1 < x.1 := by omega
    simp [hx, this]
  · have : ¬ B - 1 < x.1 := by omega
    simp [hx, this]

theorem beginId_cases (c : Recv.St) (state : Option Int) :
    c.prevId + 1 ≤ Recv.beginId c state ∧ (Recv.beginId c state = c.prevId + 1 ∨ state = some (Recv.beginId c state)) := by
  cases state with
  | none => exact ⟨Int.le_refl _, Or.inl rfl⟩
  | some k =>
    simp only [Recv.beginId]
    by_cases hk : c.prevId + 1 ≤ k
    · rw [Int.max_eq_right hk]; exact ⟨hk, Or.inr rfl⟩
    · rw [Int.max_eq_left (by omega)]; exact ⟨Int.le_refl _, Or.inl rfl⟩

theorem goodS_recvBranch (proc : Proc) (hp : ProcNames proc) (b : Nat) (hcf : BranchCntFree proc b) (owner : Topic → Nat) (X : LSt)
    (u : Nat) (nd : Node) (pubF : Nat → List HSet) (bss : Nat → List Blk) (Jp : Int) (h : GoodSW proc b owner X pubF bss Jp)
    (h1 : 1 ≤ u) (h2 : u ≤ b) (hn : X.st.nodes[u]? = some nd) (hpn : nd.pending = none) :
    GoodSW proc b owner (LSt.mk (recvRelay (rejoinTopo b) proc X.st u nd).1
      (logUpd X.log (.nodeRecv u) (recvRelay (rejoinTopo b) proc X.st u nd).2)) pubF bss Jp := by
  have h0L : 0 < X.st.nodes.length := by rw [h.len]; omega
  have hP : X.st.nodes[0]? = some X.st.nodes[0] := List.getElem?_eq_getElem h0L
  generalize X.st.nodes[0] = P at hP
  have ⟨hpub0, _⟩ := h.src P hP
  have hJL : b + 1 < X.st.nodes.length := by rw [h.len]; omega
  have hJn : X.st.nodes[b + 1]? = some X.st.nodes[b + 1] := List.getElem?_eq_getElem hJL
  have hJ := h.join _ hJn
  rcases h.br u nd h1 h2 hn with ⟨bsW, s, hB⟩
  have hups : (rejoinTopo b).upsOf u = [0] := rj_upsBranch b u h1 h2
  have hsrcs : nd.con.srcs = [s] := hB.rest.idle.srcs
  have hprio : List.range nd.con.srcs.length = [0] := by rw [hsrcs]; rfl
  have hjlen : u < X.st.nodes.length := (List.getElem?_eq_some_iff.mp hn).1
  have hJp1 : -1 ≤ Jp := by have := hJ.sinv.nonneg; omega
  -- the id the call starts from
  have ⟨hBge, hBc⟩ := beginId_cases nd.con nd.recvState
  generalize hBdef : Recv.beginId nd.con nd.recvState = B at hBge hBc
  have hBJ : B = nd.con.prevId + 1 ∨ B ≤ Jp + 1 := by
    rcases hBc with e | e
    · exact Or.inl e
    · rcases hB.recvSt B e with h3 | h3
      · exact Or.inr h3
      · left; omega
  have hBle : B - 1 ≤ lastId (pubF 0) := by
    have := hB.prevLe; have := hJ.jle
    rcases hBJ with e | e <;> omega
  have hminB : nd.pub.minSendId ≤ B := by
    rcases hB.minN hpn with e | e
    · have : Recv.beginId nd.con nd.recvState = max (nd.con.prevId + 1) nd.pub.minSendId := by rw [e]; rfl
      rw [hBdef] at this; omega
    · omega
  have hmid : ∀ (outs : List Recv.Out) (m : Int),
      (∀ o ∈ outs, o = .retNone ∨ (∃ k' bal data, o = .ret k' bal data) ∨ ∃ i e n, o = .req i m e n) →
      ∀ x, ∀ r ∈ outs.filterMap (reqOf u nd.gen [0] x), x = 0 ∧ r.mid = m := by
    intro outs m ho x r hr
    rw [List.mem_filterMap] at hr
    rcases hr with ⟨o, hoo, hro⟩
    rcases reqOf_some _ _ _ _ _ _ hro with ⟨k', e, n, rfl, hk'⟩
    have hx0 : x = 0 := by
      cases k' with
      | zero => simpa using hk'.symm
      | succ k' => simp at hk'
    refine ⟨hx0, ?_⟩
    rcases ho _ hoo with hc | ⟨_, _, _, hc⟩ | ⟨_, _, _, hc⟩
    · cases hc
    · cases hc
    · cases hc; rfl
  unfold recvRelay
  rw [hprio]
  rcases OF.Chain.call0_chainS 0 nd.con s nd.recvState s.queue bsW hB.rest rfl hB.chan with
    ⟨hb0, c1, s1, e1, hrest, hprev, hq1, _⟩ | ⟨k, ts, bs', c1, s1, q', hb0, hbk, hlt, e1, hrest, hprev, hq1, hch, _⟩
  · -- time-out
    rw [hBdef] at hb0 e1 hprev
    rw [e1]
    have hret : retOf [Recv.Out.req 0 (B - 1) 0 (!s1.conn), Recv.Out.retNone] = none := rfl
    simp only [afterRecv, recvObs, hret, logUpd]
    have houts : ∀ o ∈ [Recv.Out.req 0 (B - 1) 0 (!s1.conn), Recv.Out.retNone],
        o = .retNone ∨ (∃ k' bal data, o = .ret k' bal data) ∨ ∃ i e n, o = .req i (B - 1) e n := by
      intro o ho
      simp only [List.mem_cons, List.mem_nil_iff, or_false] at ho
      rcases ho with rfl | rfl
      · exact Or.inr (Or.inr ⟨_, _, _, rfl⟩)
      · exact Or.inl rfl
    refine goodS_recv_gen proc b owner X u { nd with con := c1 } _ X.log _ pubF bss bss Jp Jp h
      (by simp only [deliverReqs, List.length_mapIdx, List.length_set]; exact h.len)
      (fun x => recv_lookupR (rejoinTopo b) X.st.nodes u nd.gen _ _ (rj_noself b u) hjlen x)
      (Int.le_refl _) ?_ ?_ rfl (by intro hc; omega) ?_ (by intro hc; omega) (fun _ => ⟨rfl, rfl, rfl, fun hc => absurd hc (by omega)⟩)
    · rw [hups]
      intro r hr
      rw [(hmid _ _ houts 0 r hr).2]; exact hBle
    · rw [hups]
      intro x hx1 _ r hr
      have := (hmid _ _ houts x r hr).1
      omega
    · intro _ _
      refine ⟨[], s1, hrest, by simp only; rw [hq1]; exact ChanQ.nil _, (by intro b hb; cases hb), ?_, by simp only; rw [hprev]; exact hBle,
        hB.inc, hB.idle, hB.bal, hB.nq, hB.reqs, (by intro hc; simp only [hpn] at hc; cases hc), ?_, ?_, ?_,
        (by intro hc; simp only [hpn] at hc; cases hc), (by intro hc; simp only [hpn] at hc; cases hc),
        (by intro p d hc; simp only [hpn] at hc; cases hc), (by intro p d hc; simp only [hpn] at hc; cases hc), hB.pubO, ?_⟩
      · simp only; rw [hprev, queued_raise X.st.tbl (pubF 0) bsW nd.con.prevId B hB.queued (by omega), hb0]
      · intro _
        simp only; rw [hprev]
        rcases hB.minN hpn with e | e
        · exact Or.inl e
        · right; omega
      · intro G hG
        simp only at hG ⊢; rw [hprev]
        rcases hB.recvSt G hG with h3 | h3
        · exact Or.inl h3
        · right; omega
      · intro blk hblk
        simp only; rw [hprev]
        have := hB.pubLe blk hblk; omega
      · intro n hn1 hn2
        simp only at hn2; rw [hprev] at hn2
        have hpo : pendOf { nd with con := c1 } = pendOf nd := rfl
        rw [hpo]
        rcases hBJ with e | e
        · exact hB.cc n hn1 (by omega)
        · omega
  · -- a set is returned
    rw [hBdef] at hb0 hlt
    rw [e1]
    have hret : retOf [Recv.Out.req 0 k 0 false, Recv.Out.ret k 0 (visData k ts)] = some (k, 0, visData k ts) := rfl
    simp only [afterRecv, recvObs, hret, logUpd]
    have houts : ∀ o ∈ [Recv.Out.req 0 k 0 false, Recv.Out.ret k 0 (visData k ts)],
        o = .retNone ∨ (∃ k' bal data, o = .ret k' bal data) ∨ ∃ i e n, o = .req i k e n := by
      intro o ho
      simp only [List.mem_cons, List.mem_nil_iff, or_false] at ho
      rcases ho with rfl | rfl
      · exact Or.inr (Or.inr ⟨_, _, _, rfl⟩)
      · exact Or.inr (Or.inl ⟨_, _, _, rfl⟩)
    have hqr := queued_raise X.st.tbl (pubF 0) bsW nd.con.prevId B hB.queued (by omega)
    rw [hb0] at hqr
    -- the source block that was handed
    have hxmem : cblk X.st.tbl (k, ts) ∈ pubF 0 := by
      have : cblk X.st.tbl (k, ts) ∈ (pubF 0).filter (fun x => decide (B - 1 < x.1)) := by
        rw [hqr]; exact List.mem_map_of_mem (f := cblk X.st.tbl) (List.mem_cons_self ..)
      exact (List.mem_filter.mp this).1
    have hkle : k ≤ lastId (pubF 0) := lastId_ge (pubF 0) hpub0.inc _ hxmem
    have hk0 : 0 ≤ k := by have := hB.rest.idle.prev; omega
    have hbs'k : ∀ blk ∈ bs', k < blk.1 := OF.Chain.chanQ_ids 0 hch
    -- ids of source blocks strictly between the old `prev_id` and `k` are below `B`
    have hgap : ∀ x ∈ pubF 0, B - 1 < x.1 → k ≤ x.1 := by
      intro x hx hxB
      have : x ∈ (pubF 0).filter (fun x => decide (B - 1 < x.1)) := List.mem_filter.mpr ⟨hx, by simpa using hxB⟩
      rw [hqr] at this
      rcases List.mem_cons.mp this with rfl | hin
      · exact Int.le_refl _
      · rw [List.mem_map] at hin
        rcases hin with ⟨blk, hblk, rfl⟩
        have := hbs'k blk hblk
        simp only [cblk]; omega
    have hcontents : ((visData k ts).map (hframe X.st.tbl)).map (fun f => (f.topic, f.content)) = (visB (cblk X.st.tbl (k, ts))).2 :=
      handed_contents X.st.tbl k ts
    have hres : (processed proc u { nd with con := c1, sendState := some (k, 0), recvState := none }
        ((visData k ts).map (hframe X.st.tbl))).pending =
        some { res := Loop.processFrames (proc u nd.count (visB (cblk X.st.tbl (k, ts))).2),
               orig := ((visData k ts).map (hframe X.st.tbl)).flatMap (·.orig) } := by
      simp only [processed, hcontents]
    refine goodS_recv_gen proc b owner X u
      (processed proc u { nd with con := c1, sendState := some (k, 0), recvState := none } ((visData k ts).map (hframe X.st.tbl)))
      _ _ _ pubF bss bss Jp Jp h
      (by simp only [deliverReqs, List.length_mapIdx, List.length_set]; exact h.len)
      (fun x => recv_lookupR (rejoinTopo b) X.st.nodes u nd.gen _ _ (rj_noself b u) hjlen x)
      (Int.le_refl _) ?_ ?_ (by have : ¬ 0 = u := by omega
                                simp only [this, ↓reduceIte]) (by intro hc; omega) ?_ (by intro hc; omega) ?_
    · rw [hups]
      intro r hr
      rw [(hmid _ _ houts 0 r hr).2]; exact hkle
    · rw [hups]
      intro x hx1 _ r hr
      have := (hmid _ _ houts x r hr).1
      omega
    · intro _ _
      have hsid : sendId (processed proc u { nd with con := c1, sendState := some (k, 0), recvState := none }
          ((visData k ts).map (hframe X.st.tbl))) = k := rfl
      refine ⟨bs', s1, hrest, by show ChanQ 0 c1.prevId s1.queue bs'; rw [hprev, hq1]; exact hch,
        (fun blk hblk => hB.bodies blk (((OF.Chain.mem_raise B bsW blk).mp (by rw [hb0]; exact List.mem_cons_of_mem _ hblk)).1)), ?_,
        by show c1.prevId ≤ _; rw [hprev]; exact hkle,
        hB.inc, hB.idle, hB.bal, hB.nq, hB.reqs, ?_, (by intro hc; simp only [processed] at hc; cases hc),
        (by intro G hG; simp only [processed] at hG; cases hG), ?_, ?_, ?_, ?_, ?_, hB.pubO, ?_⟩
      · -- queued
        show (pubF 0).filter (fun x => decide (c1.prevId < x.1)) = bs'.map (cblk X.st.tbl)
        rw [hprev]
        have e2 : (pubF 0).filter (fun x => decide (k < x.1)) =
            ((pubF 0).filter (fun x => decide (B - 1 < x.1))).filter (fun x => decide (k < x.1)) := by
          rw [List.filter_filter]
          apply List.filter_congr
          intro x _
          by_cases hx : k < x.1
          · have : B - 1 < x.1 := by omega
            simp [hx, this]
          · simp [hx]
        rw [e2, hqr, List.map_cons, List.filter_cons]
        have : ¬ k < (cblk X.st.tbl (k, ts)).1 := by simp [cblk]
        simp only [this, decide_false, Bool.false_eq_true, ↓reduceIte]
        rw [List.filter_eq_self]
        intro x hx
        rw [List.mem_map] at hx
        rcases hx with ⟨blk, hblk, rfl⟩
        have := hbs'k blk hblk
        simp only [cblk]; exact decide_eq_true this
      · -- minP
        intro _
        show nd.pub.minSendId ≤ c1.prevId
        rw [hprev]; omega
      · -- pubLe
        intro blk hblk
        show blk.1 ≤ c1.prevId
        rw [hprev]; have := hB.pubLe blk hblk; omega
      · -- strict
        intro _ blk hblk
        show blk.1 < c1.prevId
        rw [hprev]; have := hB.pubLe blk hblk; omega
      · -- relay
        intro _
        show some (k, 0) = some (c1.prevId, 0) ∧ 0 ≤ c1.prevId
        rw [hprev]; exact ⟨rfl, hk0⟩
      · -- names
        intro p d hpd hd
        rw [hres] at hpd
        simp only [Option.some.injEq] at hpd
        subst hpd
        exact hp u nd.count _ d (namesOK_handed X.st.tbl k ts hbk) hd
      · -- pendO
        intro p d hpd hd
        rw [hres] at hpd
        simp only [Option.some.injEq] at hpd
        subst hpd
        refine ⟨cblk X.st.tbl (k, ts), hxmem, nd.count, ?_, hd⟩
        show k = c1.prevId
        rw [hprev]
      · -- cc
        intro n hn1 hn2
        have hn2' : n ≤ k := by
          have : n ≤ c1.prevId := hn2
          rw [hprev] at this; exact this
        by_cases hnk : n = k
        · subst hnk
          cases hd : outOf proc u nd.count (cblk X.st.tbl (n, ts)) with
          | some d =>
            left
            refine ⟨(n, d), ?_, rfl⟩
            rw [List.mem_append]
            right
            unfold pendOf
            rw [hres]
            simp only
            have : dictOf (Loop.processFrames (proc u nd.count (visB (cblk X.st.tbl (n, ts))).2)) = some d := hd
            rw [this, hsid]
            exact List.mem_cons_self ..
          | none =>
            right
            intro x hx hxn c
            have hxe : x = cblk X.st.tbl (n, ts) := idsInc_unique (pubF 0) hpub0.inc x _ hx hxmem (by rw [hxn]; rfl)
            rw [hxe]
            unfold outOf at hd ⊢
            rw [hcf u h1 h2 c nd.count]
            exact hd
        · by_cases hnp : n ≤ nd.con.prevId
          · rcases hB.cc n hn1 hnp with ⟨blk, hblk, e⟩ | hnone
            · left
              rw [pendOf_none nd hpn, List.append_nil] at hblk
              exact ⟨blk, List.mem_append_left _ hblk, e⟩
            · exact Or.inr hnone
          · -- `prev_id < n < k`
            by_cases hnB : n ≤ B - 1
            · rcases hBJ with e | e <;> omega
            · right
              intro x hx hxn c
              have := hgap x hx (by omega)
              omega
    · intro _
      refine ⟨rfl, rfl, ?_, fun hc => absurd hc (by omega)⟩
      have : ¬ b + 1 = u := by omega
      simp only [this, ↓reduceIte]

/-! ## `nodeRecv` of the join -/

theorem pendOf_mem (nd : Node) (x : HSet) (h : x ∈ pendOf nd) : nd.pending.isSome = true ∧ x.1 = sendId nd := by
  unfold pendOf at h
  cases hp : nd.pending with
  | none => rw [hp] at h; cases h
  | some p =>
    rw [hp] at h
    simp only at h
    cases hd : dictOf p.res with
    | none => rw [hd] at h; cases h
    | some d =>
      rw [hd] at h
      simp only [List.mem_singleton] at h
      subst h
      exact ⟨rfl, rfl⟩

theorem joinSet_some (proc : Proc) (b : Nat) (x y : HSet) (h : joinSet proc b x = some y) :
    ∀ jj, jj < b → (outOf proc (jj + 1) x.1.toNat x).isSome = true := by
  unfold joinSet at h
  split at h
  · rename_i hall
    intro jj hjj
    rw [List.all_eq_true] at hall
    exact hall jj (List.mem_range.mpr hjj)
  · cases h

/-- the source blocks: published or held by the source's loop; a block whose id is at or below a published id is published -/
theorem src_mem_pub (proc : Proc) (X : LSt) (P : Node) (pub0 : List HSet) (hpub : PubInv proc X 0 P pub0) (x : HSet)
    (hx : x ∈ srcBlocks proc P.count) (hle : x.1 ≤ lastId pub0) (h0 : 0 ≤ x.1) : x ∈ pub0 := by
  have hprod := hpub.prod
  simp only [prodOf, ↓reduceIte] at hprod
  rw [hprod, List.mem_append] at hx
  rcases hx with hx | hx
  · exact hx
  · exfalso
    have ⟨hpis, hxs⟩ := pendOf_mem P x hx
    rcases lastId_mem_or pub0 with e | ⟨b0, hb0, e⟩
    · omega
    · have := hpub.strict hpis b0 hb0
      omega

/-- an id that some branch jumped over (it published a later id, but not this one) above the join's frontier is not common -/
theorem gap_not_common (proc : Proc) (b : Nat) (owner : Topic → Nat) (X : LSt) (pubF : Nat → List HSet) (bss : Nat → List Blk)
    (Jp : Int) (h : GoodSW proc b owner X pubF bss Jp) (m : Int) (hm : Jp < m) (j : Nat) (hj : j < b)
    (hlater : ∃ blk ∈ bss j, m < blk.1) (hnot : ∀ blk ∈ bss j, blk.1 ≠ m) :
    ∀ y ∈ rejoinSpecSkip proc b (srcCount X), y.1 ≠ m := by
  intro y hy hym
  have h0L : 0 < X.st.nodes.length := by rw [h.len]; omega
  have hP : X.st.nodes[0]? = some X.st.nodes[0] := List.getElem?_eq_getElem h0L
  generalize X.st.nodes[0] = P at hP
  have ⟨hpub0, _⟩ := h.src P hP
  have hsc : srcCount X = P.count := by unfold srcCount; rw [hP]; rfl
  have hJL : b + 1 < X.st.nodes.length := by rw [h.len]; omega
  have hJn : X.st.nodes[b + 1]? = some X.st.nodes[b + 1] := List.getElem?_eq_getElem hJL
  have hJ := h.join _ hJn
  have hJp1 : -1 ≤ Jp := by have := hJ.sinv.nonneg; omega
  have huL : j + 1 < X.st.nodes.length := by rw [h.len]; omega
  have hC : X.st.nodes[j + 1]? = some X.st.nodes[j + 1] := List.getElem?_eq_getElem huL
  generalize X.st.nodes[j + 1] = C at hC
  rcases h.br (j + 1) C (by omega) (by omega) hC with ⟨bsW, s, hB⟩
  have hlink := hJ.link j hj
  rcases hlater with ⟨blk1, hblk1, hlt1⟩
  have hmem1 : cblk X.st.tbl blk1 ∈ pubF (j + 1) := by rw [hlink]; exact List.mem_map_of_mem hblk1
  have hmle : m ≤ C.con.prevId := by have := hB.pubLe _ hmem1; simp only [cblk] at this; omega
  unfold rejoinSpecSkip at hy
  rw [List.mem_filterMap] at hy
  rcases hy with ⟨x, hx, hjs⟩
  have hxm : x.1 = m := by rw [← joinSet_id proc b x y hjs]; exact hym
  have hsome := joinSet_some proc b x y hjs j hj
  rw [hsc] at hx
  have hxp : x ∈ pubF 0 := src_mem_pub proc X P (pubF 0) hpub0 x hx (by have := hB.prevLe; omega) (by omega)
  rcases hB.cc m hm hmle with ⟨blk', hblk', e⟩ | hnone
  · rw [List.mem_append] at hblk'
    rcases hblk' with hin | hin
    · rw [hlink, List.mem_map] at hin
      rcases hin with ⟨blk0, hblk0, rfl⟩
      exact hnot blk0 hblk0 e
    · have ⟨hpis, hsid⟩ := pendOf_mem C blk' hin
      have hs : sendId C = C.con.prevId := by unfold sendId; rw [(hB.relay hpis).1]
      have := hB.strict hpis _ hmem1
      simp only [cblk] at this
      omega
  · rw [hnone x hxp hxm] at hsome
    cases hsome

theorem blockOf_outOf (proc : Proc) (i n : Nat) (x : HSet) (d : List (Topic × Nat)) (h : outOf proc i n x = some d) :
    branchOut proc i n (visB x) = (x.1, d) := by
  unfold outOf at h
  unfold branchOut blockOf
  rw [h]
  rfl

/-- an id every branch has published a block of is common, and the join's set for it is made of these blocks -/
theorem common_in_spec (proc : Proc) (b : Nat) (hb : 1 ≤ b) (hcf : BranchCntFree proc b) (owner : Topic → Nat) (X : LSt)
    (pubF : Nat → List HSet) (bss : Nat → List Blk) (Jp : Int) (h : GoodSW proc b owner X pubF bss Jp) (k : Int)
    (tsOf : Nat → List (String × Nat)) (hall : ∀ jj, jj < b → (k, tsOf jj) ∈ bss jj) :
    (k, (List.range b).flatMap fun jj => (visB (cblk X.st.tbl (k, tsOf jj))).2) ∈ rejoinSpecSkip proc b (srcCount X) ∧
    k ≤ lastId (pubF 0) := by
  have h0L : 0 < X.st.nodes.length := by rw [h.len]; omega
  have hP : X.st.nodes[0]? = some X.st.nodes[0] := List.getElem?_eq_getElem h0L
  generalize X.st.nodes[0] = P at hP
  have ⟨hpub0, _⟩ := h.src P hP
  have hsc : srcCount X = P.count := by unfold srcCount; rw [hP]; rfl
  have hJL : b + 1 < X.st.nodes.length := by rw [h.len]; omega
  have hJn : X.st.nodes[b + 1]? = some X.st.nodes[b + 1] := List.getElem?_eq_getElem hJL
  have hJ := h.join _ hJn
  -- every branch made its block of a source block of id `k`
  have hsrc : ∀ jj, jj < b → ∃ x ∈ pubF 0, x.1 = k ∧ ∀ c, outOf proc (jj + 1) c x = some (cblk X.st.tbl (k, tsOf jj)).2 := by
    intro jj hjj
    have huL : jj + 1 < X.st.nodes.length := by rw [h.len]; omega
    have hC : X.st.nodes[jj + 1]? = some X.st.nodes[jj + 1] := List.getElem?_eq_getElem huL
    generalize X.st.nodes[jj + 1] = C at hC
    rcases h.br (jj + 1) C (by omega) (by omega) hC with ⟨bsW, s, hB⟩
    have hmem : cblk X.st.tbl (k, tsOf jj) ∈ pubF (jj + 1) := by
      rw [hJ.link jj hjj]; exact List.mem_map_of_mem (hall jj hjj)
    rcases hB.pubO _ hmem with ⟨x, hx, c, hxk, ho⟩
    refine ⟨x, hx, hxk, ?_⟩
    intro c'
    unfold outOf at ho ⊢
    rw [hcf (jj + 1) (by omega) (by omega) c' c]
    exact ho
  rcases hsrc 0 (by omega) with ⟨x, hx, hxk, _⟩
  have hsame : ∀ jj, jj < b → ∀ c, outOf proc (jj + 1) c x = some (cblk X.st.tbl (k, tsOf jj)).2 := by
    intro jj hjj
    rcases hsrc jj hjj with ⟨x', hx', hxk', ho⟩
    have : x' = x := idsInc_unique (pubF 0) hpub0.inc x' x hx' hx (by rw [hxk', hxk])
    rw [← this]; exact ho
  refine ⟨?_, by rw [← hxk]; exact lastId_ge (pubF 0) hpub0.inc x hx⟩
  unfold rejoinSpecSkip
  rw [List.mem_filterMap]
  refine ⟨x, ?_, ?_⟩
  · rw [hsc]
    have hprod := hpub0.prod
    simp only [prodOf, ↓reduceIte] at hprod
    rw [hprod]
    exact List.mem_append_left _ hx
  · unfold joinSet
    have hall' : ((List.range b).all fun jj => (outOf proc (jj + 1) x.1.toNat x).isSome) = true := by
      rw [List.all_eq_true]
      intro jj hjj
      rw [List.mem_range] at hjj
      rw [hsame jj hjj]; rfl
    rw [if_pos hall']
    congr 1
    rw [hxk]
    congr 1
    apply flatMap_congr_mem
    intro jj hjj
    rw [List.mem_range] at hjj
    rw [blockOf_outOf proc (jj + 1) k.toNat x _ (hsame jj hjj _), hxk]
    rfl

/-- every block a branch has put on the wire carries the id of a block the source has published -/
theorem blk_le_src (proc : Proc) (b : Nat) (owner : Topic → Nat) (X : LSt) (pubF : Nat → List HSet) (bss : Nat → List Blk)
    (Jp : Int) (h : GoodSW proc b owner X pubF bss Jp) (j : Nat) (hj : j < b) (blk : Blk) (hblk : blk ∈ bss j) :
    blk.1 ≤ lastId (pubF 0) := by
  have h0L : 0 < X.st.nodes.length := by rw [h.len]; omega
  have hP : X.st.nodes[0]? = some X.st.nodes[0] := List.getElem?_eq_getElem h0L
  have ⟨hpub0, _⟩ := h.src _ hP
  have hJL : b + 1 < X.st.nodes.length := by rw [h.len]; omega
  have hJn : X.st.nodes[b + 1]? = some X.st.nodes[b + 1] := List.getElem?_eq_getElem hJL
  have hJ := h.join _ hJn
  have huL : j + 1 < X.st.nodes.length := by rw [h.len]; omega
  have hC : X.st.nodes[j + 1]? = some X.st.nodes[j + 1] := List.getElem?_eq_getElem huL
  rcases h.br (j + 1) _ (by omega) (by omega) hC with ⟨bsW, s, hB⟩
  have hmem : cblk X.st.tbl blk ∈ pubF (j + 1) := by rw [hJ.link j hj]; exact List.mem_map_of_mem hblk
  rcases hB.pubO _ hmem with ⟨x, hx, _, hxk, _⟩
  have := lastId_ge (pubF 0) hpub0.inc x hx
  simp only [cblk] at hxk
  omega

theorem goodS_recvJoin (proc : Proc) (b : Nat) (hb : 1 ≤ b) (hcf : BranchCntFree proc b) (owner : Topic → Nat) (X : LSt) (nd : Node)
    (pubF : Nat → List HSet) (bss : Nat → List Blk) (Jp : Int) (h : GoodSW proc b owner X pubF bss Jp)
    (hn : X.st.nodes[b + 1]? = some nd) (_hpn : nd.pending = none) :
    ∃ Jp', GoodSW proc b owner (LSt.mk (recvRelay (rejoinTopo b) proc X.st (b + 1) nd).1
      (logUpd X.log (.nodeRecv (b + 1)) (recvRelay (rejoinTopo b) proc X.st (b + 1) nd).2)) pubF bss Jp' := by
  have hJ := h.join nd hn
  have hjlen : b + 1 < X.st.nodes.length := (List.getElem?_eq_some_iff.mp hn).1
  have hslen : nd.con.srcs.length = b := by rw [hJ.sinv.len]; simp
  have hplen : ((List.range b).map (· + 1)).length = b := by simp
  have hst : ∀ k, nd.recvState = some k → k ≤ nd.con.prevId + 1 := by intro k hk; rw [hJ.rs] at hk; cases hk
  have hsinv : SInv ((List.range b).map (· + 1)) owner nd.con (nd.con.prevId + 1) bss := by rw [hJ.prev]; exact hJ.sinv
  have hmid : ∀ (outs : List Recv.Out) (m : Int),
      (∀ o ∈ outs, o = .retNone ∨ (∃ k' bal data, o = .ret k' bal data) ∨ ∃ i e n, o = .req i m e n) →
      ∀ x, ∀ r ∈ outs.filterMap (reqOf (b + 1) nd.gen ((rejoinTopo b).upsOf (b + 1)) x), 1 ≤ x ∧ r.mid = m := by
    intro outs m ho x r hr
    rw [List.mem_filterMap] at hr
    rcases hr with ⟨o, hoo, hro⟩
    rcases reqOf_some _ _ _ _ _ _ hro with ⟨k', e, n, rfl, hk'⟩
    rw [rj_upsJ] at hk'
    have ⟨_, hk2⟩ := rj_ups_some b k' x hk'
    refine ⟨by omega, ?_⟩
    rcases ho _ hoo with hc | ⟨_, _, _, hc⟩ | ⟨_, _, _, hc⟩
    · cases hc
    · cases hc
    · cases hc; rfl
  -- the source node is not touched: the specification is that of the same source count
  have hcount : ∀ (nd' : Node) (outs : List Recv.Out) (log' : Nat → List HSet),
      srcCount { st := { X.st with nodes := deliverReqs (rejoinTopo b) (X.st.nodes.set (b + 1) nd') (b + 1) nd.gen outs }, log := log' } =
        srcCount X := by
    intro nd' outs log'
    apply srcCount_eq
    simp only
    rw [recv_lookupR (rejoinTopo b) X.st.nodes (b + 1) nd.gen nd' outs (rj_noself b (b + 1)) hjlen 0]
    have : ¬ 0 = b + 1 := by omega
    simp only [this, ↓reduceIte]
    cases X.st.nodes[0]? with
    | none => rfl
    | some P0 => rfl
  unfold recvRelay
  rcases OF.Chain.call0_joinS ((List.range b).map (· + 1)) owner nd.con nd.recvState (List.range nd.con.srcs.length) bss
    hsinv hJ.idle hst with ⟨E', adv, hcase⟩
  rw [hplen, hJ.prev] at adv
  -- no common frame has an id in `(Jp, E')`
  have hnospec : ∀ y ∈ rejoinSpecSkip proc b (srcCount X), y.1 ≤ Jp ∨ E' ≤ y.1 := by
    intro y hy
    by_cases hlow : y.1 ≤ Jp
    · exact Or.inl hlow
    · by_cases hhigh : E' ≤ y.1
      · exact Or.inr hhigh
      · exfalso
        rcases adv.gap y.1 (by omega) (by omega) with ⟨j, hj, hlater, hnot⟩
        exact gap_not_common proc b owner X pubF bss Jp h y.1 (by omega) j hj hlater hnot y hy rfl
  generalize hr : Recv.call0 nd.con nd.recvState (List.range nd.con.srcs.length) = r at hcase
  rcases hcase with ⟨hret, hk, hin, hprev, houts⟩ | ⟨reqs, houts, hreqs, hne, hk, hin, hprev⟩
  · -- time-out: the frontier may have moved on by adoptions
    refine ⟨E' - 1, ?_⟩
    simp only [afterRecv, recvObs, hret, logUpd]
    have houts' : ∀ o ∈ r.2, o = .retNone ∨ (∃ k' bal data, o = .ret k' bal data) ∨ ∃ i e n, o = .req i (E' - 1) e n := by
      intro o ho
      rcases houts o ho with rfl | hc
      · exact Or.inl rfl
      · exact Or.inr (Or.inr hc)
    have hjle : E' - 1 ≤ lastId (pubF 0) := by
      rcases adv.hit with e | ⟨j, hj, blk, hblk, e⟩
      · have := hJ.jle; omega
      · have := blk_le_src proc b owner X pubF bss Jp h j hj blk hblk; omega
    refine goodS_recv_gen proc b owner X (b + 1) { nd with con := r.1 } _ X.log _ pubF bss bss Jp (E' - 1) h
      (by simp only [deliverReqs, List.length_mapIdx, List.length_set]; exact h.len)
      (fun x => recv_lookupR (rejoinTopo b) X.st.nodes (b + 1) nd.gen _ _ (rj_noself b (b + 1)) hjlen x)
      (by have := adv.le; omega) ?_ ?_ rfl (by intro hc; omega) (by intro _ hc; omega) ?_ (fun hc => absurd rfl hc)
    · intro r' hr'
      have := (hmid _ _ houts' 0 r' hr').1
      omega
    · intro u _ _ r' hr'
      rw [(hmid _ _ houts' u r' hr').2]; exact Int.le_refl _
    · intro _
      refine ⟨hprev, ?_, hin, hJ.rs, hJ.link, hJ.bodies, ?_, hjle⟩
      · have : E' - 1 + 1 = E' := by omega
        rw [this]; exact hk
      · show X.log (b + 1) = _
        rw [hcount, hJ.log]
        symm
        apply upTo_congr Jp (E' - 1) _ _ (by have := adv.le; omega)
        intro y hy
        rcases hnospec y hy with h3 | h3
        · exact Or.inl h3
        · right; omega
  · -- the set of id `E'` is returned
    refine ⟨E', ?_⟩
    have hret : retOf r.2 = some (E', 0,
        (List.range nd.con.srcs.length).flatMap fun j => visDataJ j E' (headTs (raise E' (bss j)))) := by
      rw [houts]; exact retOf_reqs _ _ _ _ reqs hreqs
    have hhead : ∀ jj, jj < b → (E', headTs (raise E' (bss jj))) ∈ bss jj := by
      intro jj hjj
      rcases hne jj (by omega) with ⟨ts, bs', e⟩
      have : (E', ts) ∈ raise E' (bss jj) := by rw [e]; exact List.mem_cons_self ..
      rw [e]
      exact ((OF.Chain.mem_raise E' (bss jj) _).mp this).1
    have hcontents : (((List.range nd.con.srcs.length).flatMap fun j => visDataJ j E' (headTs (raise E' (bss j)))).map
        (hframe X.st.tbl)).map (fun f => (f.topic, f.content)) =
        (List.range b).flatMap fun jj => (visB (cblk X.st.tbl (E', headTs (raise E' (bss jj))))).2 := by
      rw [hslen, List.map_flatMap, List.map_flatMap]
      apply flatMap_congr_mem
      intro jj _
      rw [handed_contentsJ]
    have ⟨hespec, hEle⟩ := common_in_spec proc b hb hcf owner X pubF bss Jp h E' (fun jj => headTs (raise E' (bss jj))) hhead
    simp only [afterRecv, recvObs, hret, logUpd]
    have houts' : ∀ o ∈ r.2, o = .retNone ∨ (∃ k' bal data, o = .ret k' bal data) ∨ ∃ i e n, o = .req i E' e n := by
      intro o ho
      rw [houts, List.mem_append] at ho
      rcases ho with ho | ho
      · exact Or.inr (Or.inr (hreqs o ho))
      · simp only [List.mem_singleton] at ho
        exact Or.inr (Or.inl ⟨_, _, _, ho⟩)
    refine goodS_recv_gen proc b owner X (b + 1) _ _ _ _ pubF bss bss Jp E' h
      (by simp only [deliverReqs, List.length_mapIdx, List.length_set]; exact h.len)
      (fun x => recv_lookupR (rejoinTopo b) X.st.nodes (b + 1) nd.gen _ _ (rj_noself b (b + 1)) hjlen x)
      (by have := adv.le; omega) ?_ ?_ (if_neg (by omega)) (by intro hc; omega) (by intro _ hc; omega) ?_
      (fun hc => absurd rfl hc)
    · intro r' hr'
      have := (hmid _ _ houts' 0 r' hr').1
      omega
    · intro u _ _ r' hr'
      rw [(hmid _ _ houts' u r' hr').2]; exact Int.le_refl _
    · intro _
      refine ⟨hprev, hk, hin, rfl, hJ.link, hJ.bodies, ?_, hEle⟩
      show (if b + 1 = b + 1 then _ else _) = _
      simp only [↓reduceIte]
      rw [hcount, hJ.log, hcontents]
      symm
      exact upTo_snoc Jp (E', _) _ (spec_pairwise proc b _) hespec (by have := adv.le; simp only; omega) hnospec

theorem goodS_stepRecv (proc : Proc) (hp : ProcNames proc) (b : Nat) (hb : 1 ≤ b) (hcf : BranchCntFree proc b) (owner : Topic → Nat)
    (X : LSt) (j : Nat) (h : GoodS proc b owner X) : GoodS proc b owner (lstep (rejoinTopo b) proc X (.nodeRecv j)) := by
  rcases h with ⟨pubF, bss, Jp, hw⟩
  unfold lstep
  simp only [step, stepRecv]
  cases hn : X.st.nodes[j]? with
  | none => exact goodS_eta proc b owner X ⟨pubF, bss, Jp, hw⟩
  | some nd =>
    simp only
    have hjL : j < b + 2 := by rw [← hw.len]; exact (List.getElem?_eq_some_iff.mp hn).1
    by_cases hpend : nd.pending.isSome = true
    · simp only [hpend, ↓reduceIte]
      exact goodS_eta proc b owner X ⟨pubF, bss, Jp, hw⟩
    · have hpn : nd.pending = none := by
        cases hc : nd.pending with
        | none => rfl
        | some x => rw [hc] at hpend; simp at hpend
      simp only [hpend, Bool.false_eq_true, ↓reduceIte]
      by_cases hj0 : j = 0
      · subst hj0
        have hsrc : nd.con.srcs.isEmpty = true := by rw [(((hw.src nd hn).2).src rfl).1]; rfl
        simp only [hsrc, ↓reduceIte, recvSource, logUpd]
        exact ⟨pubF, bss, Jp, goodS_recvSource proc hp b owner X nd pubF bss Jp hw hn hpn⟩
      · by_cases hjb : j ≤ b
        · rcases hw.br j nd (by omega) hjb hn with ⟨bsW, s, hB⟩
          have hne : nd.con.srcs.isEmpty = false := by rw [hB.rest.idle.srcs]; rfl
          simp only [hne, Bool.false_eq_true, ↓reduceIte]
          exact ⟨pubF, bss, Jp, goodS_recvBranch proc hp b hcf owner X j nd pubF bss Jp hw (by omega) hjb hn hpn⟩
        · have hjJ : j = b + 1 := by omega
          subst hjJ
          have hlen : nd.con.srcs.length = b := by rw [(hw.join nd hn).sinv.len]; simp
          have hne : nd.con.srcs.isEmpty = false := by
            cases hs : nd.con.srcs with
            | nil => rw [hs] at hlen; simp at hlen; omega
            | cons a l => rfl
          simp only [hne, Bool.false_eq_true, ↓reduceIte]
          rcases goodS_recvJoin proc b hb hcf owner X nd pubF bss Jp hw hn hpn with ⟨Jp', hw'⟩
          exact ⟨pubF, bss, Jp', hw'⟩

/-! ## a branch when the source publishes -/

/-- the receiver of a branch got new wires: same `prev_id`, the source's list may have grown by blocks above it -/
theorem brInv_newcon (proc : Proc) (tbl tbl' : List Entry) (u : Nat) (C : Node) (pub0 pub0' pub : List HSet) (Jp : Int)
    (bsW bsW' : List Blk) (s s' : Src) (con' : Recv.St) (h : BrInv proc tbl u C pub0 pub Jp bsW s)
    (hprev : con'.prevId = C.con.prevId) (hrest : Rest con' s') (hchan : ChanQ 0 con'.prevId s'.queue bsW')
    (hbodies : ∀ b ∈ bsW', ∀ x ∈ b.2, x.2 < tbl'.length)
    (hqueued : pub0'.filter (fun x => decide (con'.prevId < x.1)) = bsW'.map (cblk tbl'))
    (hle : con'.prevId ≤ lastId pub0') (hsub : ∀ x ∈ pub0, x ∈ pub0') (hnew : ∀ x ∈ pub0', x ∈ pub0 ∨ C.con.prevId < x.1) :
    BrInv proc tbl' u { C with con := con' } pub0' pub Jp bsW' s' := by
  refine ⟨hrest, hchan, hbodies, hqueued, hle, h.inc, h.idle, h.bal, h.nq, h.reqs, by simp only; rw [hprev]; exact h.minP,
    by simp only; rw [hprev]; exact h.minN, by simp only; rw [hprev]; exact h.recvSt, by simp only; rw [hprev]; exact h.pubLe,
    by simp only; rw [hprev]; exact h.strict, by simp only; rw [hprev]; exact h.relay, h.names, ?_, ?_, ?_⟩
  · intro p d hpd hd
    simp only; rw [hprev]
    rcases h.pendO p d hpd hd with ⟨x, hx, c, e1, e2⟩
    exact ⟨x, hsub x hx, c, e1, e2⟩
  · intro blk hblk
    rcases h.pubO blk hblk with ⟨x, hx, c, e1, e2⟩
    exact ⟨x, hsub x hx, c, e1, e2⟩
  · intro n hn1 hn2
    simp only at hn2; rw [hprev] at hn2
    have hpo : pendOf { C with con := con' } = pendOf C := rfl
    rw [hpo]
    rcases h.cc n hn1 hn2 with hc | hc
    · exact Or.inl hc
    · right
      intro x hx hxn c
      rcases hnew x hx with hx0 | hx0
      · exact hc x hx0 hxn c
      · omega

theorem brInv_hellos (proc : Proc) (tbl es : List Entry) (u : Nat) (C : Node) (pub0 pub : List HSet) (Jp : Int)
    (bsW : List Blk) (s : Src) (ws : List Wire) (h : BrInv proc tbl u C pub0 pub Jp bsW s) (hw : Hellos 0 ws) :
    BrInv proc (tbl ++ es) u { C with con := pushWires C.con [0] 0 ws } pub0 pub Jp bsW { s with queue := s.queue ++ ws } := by
  have ⟨e1, r1⟩ := rest_push C.con s 0 ws h.rest
  rw [e1]
  refine brInv_newcon proc tbl (tbl ++ es) u C pub0 pub0 pub Jp bsW bsW s _ _ h rfl r1 ?_ ?_ ?_ h.prevLe (fun _ hx => hx)
    (fun _ hx => Or.inl hx)
  · simp only
    rcases hw with rfl | rfl
    · simpa using h.chan
    · exact OF.Chain.chanQ_hello 0 h.chan
  · intro b hb x hx
    rw [List.length_append]
    have := h.bodies b hb x hx; omega
  · simp only
    rw [h.queued]
    apply List.map_congr_left
    intro b hb
    rw [cblk_append _ _ b (h.bodies b hb)]

theorem brInv_block (proc : Proc) (tbl : List Entry) (u : Nat) (C : Node) (pub0 pub : List HSet) (Jp : Int)
    (bsW : List Blk) (s : Src) (k : Int) (d : List (Topic × Nat)) (o : List Org) (h : BrInv proc tbl u C pub0 pub Jp bsW s)
    (_hinc : IdsInc pub0) (hstrict : ∀ b ∈ pub0, b.1 < k) (hk0 : 0 ≤ k) (hnames : NamesOK d) :
    BrInv proc (tbl ++ d.map fun q => ({ content := q.2, orig := o } : Entry)) u
      { C with con := pushWires C.con [0] 0 (blockWires 0 k (relabel tbl.length d)) } (pub0 ++ [(k, d)]) pub Jp
      (bsW ++ [(k, relabel tbl.length d)]) { s with queue := s.queue ++ blockWires 0 k (relabel tbl.length d) } := by
  have ⟨e1, r1⟩ := rest_push C.con s 0 (blockWires 0 k (relabel tbl.length d)) h.rest
  have hprevlt : C.con.prevId < k := by
    have := h.prevLe
    rcases lastId_mem_or pub0 with e | ⟨b, hb, e⟩
    · omega
    · have := hstrict b hb; omega
  have hbsW : ∀ b ∈ bsW, b.1 < k := by
    intro b hb
    have : cblk tbl b ∈ pub0.filter (fun x => decide (C.con.prevId < x.1)) := by rw [h.queued]; exact List.mem_map_of_mem hb
    exact hstrict (cblk tbl b) (List.mem_filter.mp this).1
  rw [e1]
  refine brInv_newcon proc tbl _ u C pub0 (pub0 ++ [(k, d)]) pub Jp bsW _ s _ _ h rfl r1 ?_ ?_ ?_ ?_
    (fun x hx => List.mem_append_left _ hx) ?_
  · simp only
    exact OF.Chain.chanQ_block 0 k _ (blkOK_relabel d _ hnames) h.chan hprevlt hbsW
  · intro b hb x hx
    simp only [List.length_append, List.length_map]
    rw [List.mem_append] at hb
    rcases hb with hb | hb
    · have := h.bodies b hb x hx; omega
    · simp only [List.mem_singleton] at hb
      subst hb
      have := (relabel_spec d tbl.length x hx).2.1
      omega
  · simp only
    rw [List.filter_append, h.queued, List.map_append]
    congr 1
    · apply List.map_congr_left
      intro b hb
      rw [cblk_append _ _ b (h.bodies b hb)]
    · have : decide (C.con.prevId < ((k, d) : HSet).1) = true := by simpa using hprevlt
      simp only [List.filter_cons, this, ↓reduceIte, List.filter_nil, List.map_cons, List.map_nil, cblk]
      have := relabel_content o d tbl []
      simp only [List.append_nil] at this
      rw [this]
  · simp only
    rw [lastId_snoc]
    omega
  · intro x hx
    rw [List.mem_append] at hx
    rcases hx with hx | hx
    · exact Or.inl hx
    · simp only [List.mem_singleton] at hx
      subst hx
      exact Or.inr hprevlt

/-! ## `nodeSend` of the source -/

theorem goodS_sendSrc (proc : Proc) (b : Nat) (owner : Topic → Nat) (X : LSt) (t : Int) (nd : Node) (p : Pending)
    (pubF : Nat → List HSet) (bss : Nat → List Blk) (Jp : Int) (h : GoodSW proc b owner X pubF bss Jp)
    (hn : X.st.nodes[0]? = some nd) (hpend : nd.pending = some p) :
    ∃ pubF', GoodSW proc b owner (LSt.mk (sendReal (rejoinTopo b) X.st 0 nd p t).1 X.log) pubF' bss Jp := by
  have hjL : 0 < X.st.nodes.length := (List.getElem?_eq_some_iff.mp hn).1
  have ⟨hpub, hG⟩ := h.src nd hn
  have hJL : b + 1 < X.st.nodes.length := by rw [h.len]; omega
  have hJn : X.st.nodes[b + 1]? = some X.st.nodes[b + 1] := List.getElem?_eq_getElem hJL
  have hJ := h.join _ hJn
  have hpis : nd.pending.isSome = true := by rw [hpend]; rfl
  have ⟨hout, hsid0⟩ := send_outcome_gen proc X 0 t nd p (pubF 0) hpub hG hpend
  have hpay : payloadOf X.st.tbl.length p.res = .deferred ((dictOf p.res).map (relabel X.st.tbl.length)) := rfl
  unfold sendReal
  simp only [hpay]
  generalize hr : Send.send0 nd.pub nd.sendState (.deferred ((dictOf p.res).map (relabel X.st.tbl.length))) false [0] t = r at hout
  rcases hout with ⟨o1, o2, o3, o4, hcase⟩
  have hlen' : ∀ (nd' : Node) (ws : List Wire), (deliverWires (rejoinTopo b) (X.st.nodes.set 0 nd') 0 ws).length = b + 2 := by
    intro nd' ws; simp only [deliverWires, List.length_mapIdx, List.length_set]; exact h.len
  have hlook := fun nd' ws => send_lookupR b X.st.nodes 0 nd' ws hjL
  rcases hcase with ⟨m1, m2, m3, m4⟩ | ⟨hrn, m1, m2, m3, m4⟩ | ⟨ts, hrs, m1, m2, m3, m4⟩
  · -- time-out
    have haft : afterSend nd p r = { nd with pub := r.1 } := by unfold afterSend; rw [m2]
    rw [haft]
    refine ⟨pubF, goodS_send_gen proc b owner X 0 nd _ _ _ _ pubF pubF bss bss Jp h hn (by omega) (hlen' _ _) (hlook _ _)
      (fun _ _ => rfl) ?_ ?_ (by intro hc; omega) (by intro hc; omega)⟩
    · intro _
      exact ⟨pubInv_frame proc X _ 0 nd { nd with pub := r.1 } (pubF 0) hpub rfl rfl rfl rfl (o1.trans hpub.idle.symm)
        (o2.trans hpub.bal.symm) m1 o3 (fun q hq x hx => (o4 q hq x hx).2), nodeG_frame 0 nd _ hG rfl rfl rfl rfl, rfl, hJ.jle, rfl⟩
    · intro _ x C hx1 hx2 hC
      rcases h.br x C hx1 hx2 hC with ⟨bsW, s, hB⟩
      exact ⟨bsW, _, brInv_hellos proc X.st.tbl _ x C (pubF 0) (pubF x) Jp bsW s _ hB m4⟩
  · -- the callable returned None
    have hd : dictOf p.res = none := by
      cases hdd : dictOf p.res with
      | none => rfl
      | some d => rw [hdd] at hrn; cases hrn
    have haft : afterSend nd p r = { nd with pub := r.1, pending := none, sendState := none, recvState := none } := by
      unfold afterSend; rw [m2]; simp only [m3, hd, Option.isNone_none, Bool.and_self, ↓reduceIte]
    rw [haft]
    refine ⟨pubF, goodS_send_gen proc b owner X 0 nd _ _ _ _ pubF pubF bss bss Jp h hn (by omega) (hlen' _ _) (hlook _ _)
      (fun _ _ => rfl) ?_ ?_ (by intro hc; omega) (by intro hc; omega)⟩
    · intro _
      refine ⟨⟨?_, hpub.inc, o1, o2, o3, m1.trans hpub.minSend, fun q hq x hx => (o4 q hq x hx).2, (by intro hc; cases hc),
        (by intro q d hq; cases hq)⟩, ⟨fun h0 => ⟨(hG.src h0).1, rfl⟩, (by intro _ hc; cases hc), (by intro _ k hk; cases hk)⟩,
        rfl, hJ.jle, rfl⟩
      have := hpub.prod
      rw [pendOf_nodict nd p hpend hd] at this
      simp only [prodOf] at this ⊢
      rw [this]; rfl
    · intro _ x C hx1 hx2 hC
      rcases h.br x C hx1 hx2 hC with ⟨bsW, s, hB⟩
      exact ⟨bsW, _, brInv_hellos proc X.st.tbl _ x C (pubF 0) (pubF x) Jp bsW s _ hB m4⟩
  · -- the block is published
    have hd : ∃ d, dictOf p.res = some d ∧ ts = relabel X.st.tbl.length d := by
      cases hdd : dictOf p.res with
      | none => rw [hdd] at hrs; cases hrs
      | some d => rw [hdd] at hrs; simp only [Option.map_some, Option.some.injEq] at hrs; exact ⟨d, rfl, hrs.symm⟩
    rcases hd with ⟨d, hd, rfl⟩
    have haft : afterSend nd p r = { nd with pub := r.1, pending := none, sendState := none, recvState := some (sendId nd + 1) } := by
      unfold afterSend; rw [m2]; simp only [m3, hd, Option.isNone_some, Bool.and_false, Bool.false_eq_true, ↓reduceIte]
    have hent : entriesOf p.res (sendOrigin 0 nd p) = d.map fun q => ({ content := q.2, orig := sendOrigin 0 nd p } : Entry) := by
      simp only [entriesOf, hd, Option.getD_some]
    rw [haft, m4, hent]
    have hnames := hpub.names p d hpend hd
    refine ⟨fun u => if u = 0 then pubF 0 ++ [(sendId nd, d)] else pubF u,
      goodS_send_gen proc b owner X 0 nd _ _ _ _ pubF _ bss bss Jp h hn (by omega) (hlen' _ _) (hlook _ _)
        (fun u hu => by simp only [hu, ↓reduceIte]) ?_ ?_ (by intro hc; omega) (by intro hc; omega)⟩
    · intro _
      rw [if_pos rfl]
      refine ⟨⟨?_, idsInc_snoc (pubF 0) _ hpub.inc (hpub.strict hpis) hsid0, o1, o2, o3, (by rw [m1, lastId_snoc]), ?_,
        (by intro hc; cases hc), (by intro q d' hq; cases hq)⟩,
        ⟨fun h0 => ⟨(hG.src h0).1, rfl⟩, (by intro _ hc; cases hc), (by intro h0; omega)⟩, rfl, ?_, rfl⟩
      · have := hpub.prod
        rw [pendOf_some nd p d hpend hd] at this
        simp only [prodOf] at this ⊢
        rw [this]; simp [pendOf]
      · intro q hq x hx
        rw [lastId_snoc]
        have := (o4 q hq x hx).1; simp only; omega
      · rw [lastId_snoc]
        have := hJ.jle
        have hlast : lastId (pubF 0) < sendId nd := by
          rcases lastId_mem_or (pubF 0) with e | ⟨b0, hb0, e⟩
          · omega
          · rw [e]; exact hpub.strict hpis b0 hb0
        simp only; omega
    · intro _ x C hx1 hx2 hC
      rcases h.br x C hx1 hx2 hC with ⟨bsW, s, hB⟩
      simp only [↓reduceIte]
      exact ⟨_, _, brInv_block proc X.st.tbl x C (pubF 0) (pubF x) Jp bsW s (sendId nd) d _ hB hpub.inc (hpub.strict hpis) hsid0 hnames⟩

/-! ## the join when a branch runs `send` -/

theorem js_src (proc : Proc) (b : Nat) (owner : Topic → Nat) (X : LSt) (J : Node) (pubF : Nat → List HSet) (bss : Nat → List Blk)
    (Jp : Int) (h : JS proc b owner X J pubF bss Jp) (j : Nat) (h1 : 1 ≤ j) (h2 : j ≤ b) :
    ∃ s, J.con.srcs[j - 1]? = some s ∧ ((List.range b).map (· + 1))[j - 1]? = some j := by
  have hlen : J.con.srcs.length = b := by rw [h.sinv.len]; simp
  have hs : J.con.srcs[j - 1]? = some J.con.srcs[j - 1] := List.getElem?_eq_getElem (by omega)
  refine ⟨_, hs, ?_⟩
  rw [List.getElem?_map, List.getElem?_range (by omega)]
  simp only [Option.map_some, Option.some.injEq]; omega

/-- the join after branch `j` put messages on the wire that the join will skip (a HELLO; nothing at all) -/
theorem js_skips (proc : Proc) (b : Nat) (owner : Topic → Nat) (X : LSt) (J : Node) (pubF : Nat → List HSet) (bss : Nat → List Blk)
    (Jp : Int) (j : Nat) (ws : List Wire) (es : List Entry) (h : JS proc b owner X J pubF bss Jp) (h1 : 1 ≤ j) (h2 : j ≤ b)
    (hw : ∀ w ∈ ws, OF.Chain.Skip Jp w) :
    JS proc b owner { st := { nodes := X.st.nodes, tbl := X.st.tbl ++ es }, log := X.log }
      { J with con := pushWires J.con ((List.range b).map (· + 1)) j ws } pubF bss Jp := by
  rcases js_src proc b owner X J pubF bss Jp h j h1 h2 with ⟨s, hs, hu⟩
  rw [pushWires_join J.con b j ws s h1 h2 hs]
  have hk := OF.Chain.sinv_push _ owner J.con (Jp + 1) bss (j - 1) s ws [] h.sinv hs ?_ (by intro blk hb; cases hb)
  · have hbss : (fun jj => if jj = j - 1 then bss (j - 1) ++ [] else bss jj) = bss := by
      funext jj
      by_cases e : jj = j - 1
      · simp [e]
      · simp [e]
    rw [hbss] at hk
    have hJ2 : JS proc b owner X { J with con := { J.con with srcs := J.con.srcs.set (j - 1) { s with queue := s.queue ++ ws } } }
        pubF bss Jp := ⟨h.prev, hk, h.idle, h.rs, h.link, h.bodies, h.log, h.jle⟩
    exact js_frame proc b owner X _ _ _ pubF bss Jp es hJ2 rfl rfl rfl rfl rfl
  · intro p hp hm
    rw [hu] at hp
    simp only [Option.some.injEq] at hp
    rw [← hp] at hm ⊢
    rw [List.append_nil]
    have e : Jp + 1 - 1 = Jp := by omega
    exact OF.Chain.mode_push_skips j (j - 1) _ s _ ws (by rw [e]; exact hw) hm

/-- the join after branch `j` put the block `(k, d)` on the wire, `k` above every id it had published -/
theorem js_block (proc : Proc) (b : Nat) (owner : Topic → Nat) (X : LSt) (J : Node) (pubF : Nat → List HSet) (bss : Nat → List Blk)
    (Jp : Int) (j : Nat) (k : Int) (d : List (Topic × Nat)) (o : List Org) (h : JS proc b owner X J pubF bss Jp)
    (h1 : 1 ≤ j) (h2 : j ≤ b) (hk : ∀ blk ∈ pubF j, blk.1 < k) (hk0 : 0 ≤ k) (hnames : NamesOK d) (hown : ∀ x ∈ d, owner x.1 + 1 = j) :
    JS proc b owner { st := { nodes := X.st.nodes, tbl := X.st.tbl ++ d.map fun q => ({ content := q.2, orig := o } : Entry) }, log := X.log }
      { J with con := pushWires J.con ((List.range b).map (· + 1)) j (blockWires j k (relabel X.st.tbl.length d)) }
      (fun u => if u = j then pubF j ++ [(k, d)] else pubF u)
      (fun jj => if jj = j - 1 then bss (j - 1) ++ [(k, relabel X.st.tbl.length d)] else bss jj) Jp := by
  rcases js_src proc b owner X J pubF bss Jp h j h1 h2 with ⟨s, hs, hu⟩
  rw [pushWires_join J.con b j _ s h1 h2 hs]
  have hj1 : j - 1 + 1 = j := by omega
  have hlink := h.link (j - 1) (by omega)
  rw [hj1] at hlink
  have hlt : ∀ blk ∈ bss (j - 1), blk.1 < k := by
    intro blk hblk
    have hmem : cblk X.st.tbl blk ∈ pubF j := by rw [hlink]; exact List.mem_map_of_mem hblk
    have := hk (cblk X.st.tbl blk) hmem
    simpa [cblk] using this
  have hbk := blkOK_relabel d X.st.tbl.length hnames
  have hJp1 : 0 ≤ Jp + 1 := h.sinv.nonneg
  have hsinv := OF.Chain.sinv_push _ owner J.con (Jp + 1) bss (j - 1) s (blockWires j k (relabel X.st.tbl.length d))
    [(k, relabel X.st.tbl.length d)] h.sinv hs ?_ ?_
  · refine ⟨h.prev, hsinv, h.idle, h.rs, ?_, ?_, ?_, ?_⟩
    · intro jj hjj
      simp only
      by_cases hjj' : jj = j - 1
      · subst hjj'
        simp only [hj1, ↓reduceIte]
        rw [hlink, List.map_append]
        congr 1
        · apply List.map_congr_left
          intro blk hblk
          rw [cblk_append _ _ blk (h.bodies (j - 1) hjj blk hblk)]
        · simp only [List.map_cons, List.map_nil, cblk]
          have := relabel_content o d X.st.tbl []
          simp only [List.append_nil] at this
          rw [this]
      · have : ¬ jj + 1 = j := by omega
        simp only [this, hjj', ↓reduceIte]
        rw [h.link jj hjj]
        apply List.map_congr_left
        intro blk hblk
        rw [cblk_append _ _ blk (h.bodies jj hjj blk hblk)]
    · intro jj hjj blk hblk x hx
      simp only [List.length_append, List.length_map]
      by_cases hjj' : jj = j - 1
      · subst hjj'
        simp only [↓reduceIte] at hblk
        rw [List.mem_append] at hblk
        rcases hblk with hblk | hblk
        · have := h.bodies (j - 1) hjj blk hblk x hx; omega
        · simp only [List.mem_singleton] at hblk
          subst hblk
          have := (relabel_spec d X.st.tbl.length x hx).2.1
          omega
      · simp only [hjj', ↓reduceIte] at hblk
        have := h.bodies jj hjj blk hblk x hx; omega
    · exact h.log
    · have : ¬ 0 = j := by omega
      simp only [this, ↓reduceIte]
      exact h.jle
  · intro p hp hm
    rw [hu] at hp
    simp only [Option.some.injEq] at hp
    rw [← hp] at hm ⊢
    rw [OF.Chain.raise_append]
    by_cases hE : Jp + 1 ≤ k
    · rw [OF.Chain.raise_cons_ge (Jp + 1) _ [] hE]
      have : raise (Jp + 1) ([] : List Blk) = [] := rfl
      rw [this]
      refine OF.Chain.mode_push_blockS j (j - 1) _ s _ k _ hbk hE ?_ hm
      intro blk hblk
      exact hlt blk ((OF.Chain.mem_raise _ _ _).mp hblk).1
    · rw [OF.Chain.raise_cons_lt (Jp + 1) _ [] (by simp only; omega)]
      have : raise (Jp + 1) ([] : List Blk) = [] := rfl
      rw [this, List.append_nil]
      exact OF.Chain.mode_push_skips j (j - 1) _ s _ _
        (OF.Chain.blockWires_skip j k _ (Jp + 1 - 1) (by omega) (by omega)) hm
  · intro blk hblk x hx
    simp only [List.mem_singleton] at hblk
    subst hblk
    have := (relabel_spec d X.st.tbl.length x hx).2.2
    rw [List.mem_map] at this
    rcases this with ⟨y, hy, e⟩
    have := hown y hy
    rw [← e]; omega

/-! ## `nodeSend` of a branch -/

/-- a branch whose pending result is gone (published, dropped by a fast-forward, evaluated to `None`, or `None` from the start) -/
theorem brInv_done (proc : Proc) (tbl es : List Entry) (u : Nat) (nd nd' : Node) (pub0 pub pub' : List HSet) (Jp : Int)
    (bsW : List Blk) (s : Src) (h : BrInv proc tbl u nd pub0 pub Jp bsW s)
    (hcon : nd'.con = nd.con) (hpn : nd'.pending = none)
    (o1 : nd'.pub.inCall = false) (o2 : nd'.pub.balance = false) (o3 : nd'.pub.queues.length = 1)
    (o4 : ∀ q ∈ nd'.pub.queues, ∀ r ∈ q, r.mid ≤ Jp) (hinc : IdsInc pub')
    (hminN : nd'.recvState = some nd'.pub.minSendId ∨ nd'.pub.minSendId ≤ nd.con.prevId + 1)
    (hrecvSt : ∀ G, nd'.recvState = some G → G ≤ Jp + 1 ∨ G ≤ nd.con.prevId + 1)
    (hpubLe : ∀ blk ∈ pub', blk.1 ≤ nd.con.prevId)
    (hpubO : ∀ blk ∈ pub', ∃ x ∈ pub0, ∃ c, x.1 = blk.1 ∧ outOf proc u c x = some blk.2)
    (hcc : (∀ blk ∈ pub ++ pendOf nd, blk ∈ pub') ∨ nd.con.prevId ≤ Jp) :
    BrInv proc (tbl ++ es) u nd' pub0 pub' Jp bsW s := by
  refine ⟨by rw [hcon]; exact h.rest, by rw [hcon]; exact h.chan, ?_, ?_, by rw [hcon]; exact h.prevLe, hinc, o1, o2, o3, o4,
    (by intro hc; rw [hpn] at hc; cases hc), (by intro _; rw [hcon]; exact hminN), (by rw [hcon]; exact hrecvSt),
    (by rw [hcon]; exact hpubLe), (by intro hc; rw [hpn] at hc; cases hc), (by intro hc; rw [hpn] at hc; cases hc),
    (by intro p d hc; rw [hpn] at hc; cases hc), (by intro p d hc; rw [hpn] at hc; cases hc), hpubO, ?_⟩
  · intro b hb x hx
    rw [List.length_append]
    have := h.bodies b hb x hx; omega
  · rw [hcon, h.queued]
    apply List.map_congr_left
    intro b hb
    rw [cblk_append _ _ b (h.bodies b hb)]
  · intro n hn1 hn2
    rw [hcon] at hn2
    rcases hcc with hsub | hle
    · rcases h.cc n hn1 hn2 with ⟨blk, hblk, e⟩ | hnone
      · exact Or.inl ⟨blk, List.mem_append_left _ (hsub blk hblk), e⟩
      · exact Or.inr hnone
    · omega

theorem goodS_sendBranch (proc : Proc) (b : Nat) (owner : Topic → Nat) (hown : Owned proc b owner) (X : LSt)
    (j : Nat) (t : Int) (nd : Node) (p : Pending) (pubF : Nat → List HSet) (bss : Nat → List Blk) (Jp : Int)
    (h : GoodSW proc b owner X pubF bss Jp) (h1 : 1 ≤ j) (hjb : j ≤ b) (hn : X.st.nodes[j]? = some nd) (hpend : nd.pending = some p) :
    ∃ pubF' bss', GoodSW proc b owner (LSt.mk (sendReal (rejoinTopo b) X.st j nd p t).1 X.log) pubF' bss' Jp := by
  have hjL : j < X.st.nodes.length := (List.getElem?_eq_some_iff.mp hn).1
  rcases h.br j nd h1 hjb hn with ⟨bsW, s, hB⟩
  have hJL : b + 1 < X.st.nodes.length := by rw [h.len]; omega
  have hJn : X.st.nodes[b + 1]? = some X.st.nodes[b + 1] := List.getElem?_eq_getElem hJL
  have hJ := h.join _ hJn
  have hpis : nd.pending.isSome = true := by rw [hpend]; rfl
  have ⟨hss, hprev0⟩ := hB.relay hpis
  have hsid : sendId nd = nd.con.prevId := by unfold sendId; rw [hss]
  have hout := send0_ffwd (fun r => r.mid ≤ Jp) j nd.pub nd.sendState ((dictOf p.res).map (relabel X.st.tbl.length)) t
    hB.idle hB.bal hB.nq (Or.inr ⟨_, hss⟩) (by rw [callId_sendId, hsid]; exact hB.minP hpis) hB.reqs
  rw [callId_sendId, hsid] at hout
  have hpay : payloadOf X.st.tbl.length p.res = .deferred ((dictOf p.res).map (relabel X.st.tbl.length)) := rfl
  unfold sendReal
  simp only [hpay]
  generalize hr : Send.send0 nd.pub nd.sendState (.deferred ((dictOf p.res).map (relabel X.st.tbl.length))) false [0] t = r at hout
  rcases hout with ⟨o1, o2, o3, o4, hcase⟩
  have hlen' : ∀ (nd' : Node) (ws : List Wire), (deliverWires (rejoinTopo b) (X.st.nodes.set j nd') j ws).length = b + 2 := by
    intro nd' ws; simp only [deliverWires, List.length_mapIdx, List.length_set]; exact h.len
  have hlook := fun nd' ws => send_lookupR b X.st.nodes j nd' ws hjL
  have hpendOf : ∀ d, dictOf p.res = some d → pendOf nd = [(nd.con.prevId, d)] := by
    intro d hd; rw [pendOf_some nd p d hpend hd, hsid]
  rcases hcase with ⟨m1, m2, m3, m4⟩ | ⟨hrn, m1, m2, m3, m4⟩ | ⟨ts, hrs, m1, m2, m3, m4⟩ | ⟨x, hxP, hkx, m1, m2, m3, m4⟩
  · -- time-out
    have haft : afterSend nd p r = { nd with pub := r.1 } := by unfold afterSend; rw [m2]
    rw [haft]
    refine ⟨pubF, bss, goodS_send_gen proc b owner X j nd _ _ _ _ pubF pubF bss bss Jp h hn hjb (hlen' _ _) (hlook _ _)
      (fun _ _ => rfl) (by intro hc; omega) (by intro hc; omega) ?_ ?_⟩
    · intro _
      exact ⟨bsW, s, brInv_frame proc X.st.tbl _ j nd { nd with pub := r.1 } (pubF 0) (pubF j) Jp Jp bsW s hB (Int.le_refl _)
        rfl rfl rfl rfl (o1.trans hB.idle.symm) (o2.trans hB.bal.symm) m1 o3 o4⟩
    · intro _ J hJ'
      exact js_skips proc b owner X J pubF bss Jp j _ _ (h.join J hJ') h1 hjb (OF.Chain.hellos_skip j Jp _ m4)
  · -- the callable returned None
    have hd : dictOf p.res = none := by
      cases hdd : dictOf p.res with
      | none => rfl
      | some d => rw [hdd] at hrn; cases hrn
    have haft : afterSend nd p r = { nd with pub := r.1, pending := none, sendState := none, recvState := none } := by
      unfold afterSend; rw [m2]; simp only [m3, hd, Option.isNone_none, Bool.and_self, ↓reduceIte]
    rw [haft]
    refine ⟨pubF, bss, goodS_send_gen proc b owner X j nd _ _ _ _ pubF pubF bss bss Jp h hn hjb (hlen' _ _) (hlook _ _)
      (fun _ _ => rfl) (by intro hc; omega) (by intro hc; omega) ?_ ?_⟩
    · intro _
      refine ⟨bsW, s, brInv_done proc X.st.tbl _ j nd _ (pubF 0) (pubF j) (pubF j) Jp bsW s hB rfl rfl o1 o2 o3 o4 hB.inc ?_
        (by intro G hG; cases hG) hB.pubLe hB.pubO (Or.inl ?_)⟩
      · right
        show r.1.minSendId ≤ _
        rw [m1]; have := hB.minP hpis; omega
      · intro blk hblk
        rw [pendOf_nodict nd p hpend hd, List.append_nil] at hblk
        exact hblk
    · intro _ J hJ'
      exact js_skips proc b owner X J pubF bss Jp j _ _ (h.join J hJ') h1 hjb (OF.Chain.hellos_skip j Jp _ m4)
  · -- the block is published
    have hd : ∃ d, dictOf p.res = some d ∧ ts = relabel X.st.tbl.length d := by
      cases hdd : dictOf p.res with
      | none => rw [hdd] at hrs; cases hrs
      | some d => rw [hdd] at hrs; simp only [Option.map_some, Option.some.injEq] at hrs; exact ⟨d, rfl, hrs.symm⟩
    rcases hd with ⟨d, hd, rfl⟩
    have haft : afterSend nd p r = { nd with pub := r.1, pending := none, sendState := none, recvState := some (nd.con.prevId + 1) } := by
      unfold afterSend; rw [m2]; simp only [m3, hd, Option.isNone_some, Bool.and_false, Bool.false_eq_true, ↓reduceIte]
    have hent : entriesOf p.res (sendOrigin j nd p) = d.map fun q => ({ content := q.2, orig := sendOrigin j nd p } : Entry) := by
      simp only [entriesOf, hd, Option.getD_some]
    rw [haft, m4, hent]
    have hnames := hB.names p d hpend hd
    rcases hB.pendO p d hpend hd with ⟨x0, hx0, c0, hx0k, ho0⟩
    have hj0 : ¬ j = 0 := by omega
    refine ⟨fun u => if u = j then pubF j ++ [(nd.con.prevId, d)] else pubF u,
      fun jj => if jj = j - 1 then bss (j - 1) ++ [(nd.con.prevId, relabel X.st.tbl.length d)] else bss jj,
      goodS_send_gen proc b owner X j nd _ _ _ _ pubF _ bss _ Jp h hn hjb (hlen' _ _) (hlook _ _)
        (fun u hu => by simp only [hu, ↓reduceIte]) (by intro hc; omega) (by intro hc; omega) ?_ ?_⟩
    · intro _
      simp only [↓reduceIte]
      refine ⟨bsW, s, brInv_done proc X.st.tbl _ j nd _ (pubF 0) (pubF j) (pubF j ++ [(nd.con.prevId, d)]) Jp bsW s hB rfl rfl
        o1 o2 o3 o4 (idsInc_snoc (pubF j) _ hB.inc (hB.strict hpis) hprev0) (Or.inl ?_) ?_ ?_ ?_ (Or.inl ?_)⟩
      · show some (nd.con.prevId + 1) = some r.1.minSendId
        rw [m1]
      · intro G hG
        simp only [Option.some.injEq] at hG
        right; omega
      · intro blk hblk
        rw [List.mem_append] at hblk
        rcases hblk with hblk | hblk
        · exact hB.pubLe blk hblk
        · simp only [List.mem_singleton] at hblk
          subst hblk; exact Int.le_refl _
      · intro blk hblk
        rw [List.mem_append] at hblk
        rcases hblk with hblk | hblk
        · exact hB.pubO blk hblk
        · simp only [List.mem_singleton] at hblk
          subst hblk
          exact ⟨x0, hx0, c0, hx0k, ho0⟩
      · intro blk hblk
        rw [hpendOf d hd] at hblk
        exact hblk
    · intro _ J hJ'
      refine js_block proc b owner X J pubF bss Jp j nd.con.prevId d _ (h.join J hJ') h1 hjb (hB.strict hpis) hprev0 hnames ?_
      unfold outOf at ho0
      exact hown j c0 _ d h1 hjb ho0
  · -- fast-forwarded by a request of the join: the pending result is dropped, nothing is put on the wire
    have haft : afterSend nd p r = { nd with pub := r.1, pending := none, sendState := none, recvState := some (x.mid + 1) } := by
      unfold afterSend; rw [m2]; simp only [m3, Bool.false_and, Bool.false_eq_true, ↓reduceIte]
    rw [haft, m4]
    refine ⟨pubF, bss, goodS_send_gen proc b owner X j nd _ _ _ _ pubF pubF bss bss Jp h hn hjb (hlen' _ _) (hlook _ _)
      (fun _ _ => rfl) (by intro hc; omega) (by intro hc; omega) ?_ ?_⟩
    · intro _
      refine ⟨bsW, s, brInv_done proc X.st.tbl _ j nd _ (pubF 0) (pubF j) (pubF j) Jp bsW s hB rfl rfl o1 o2 o3 o4 hB.inc (Or.inl ?_) ?_
        hB.pubLe hB.pubO (Or.inr ?_)⟩
      · show some (x.mid + 1) = some r.1.minSendId
        rw [m1]
      · intro G hG
        simp only [Option.some.injEq] at hG
        left
        have : x.mid ≤ Jp := hxP
        omega
      · have : x.mid ≤ Jp := hxP
        omega
    · intro _ J hJ'
      exact js_skips proc b owner X J pubF bss Jp j [] _ (h.join J hJ') h1 hjb (by intro w hw; cases hw)

theorem goodS_sendSkip (proc : Proc) (b : Nat) (hb : 1 ≤ b) (owner : Topic → Nat) (X : LSt) (j : Nat) (nd : Node) (p : Pending)
    (pubF : Nat → List HSet) (bss : Nat → List Blk) (Jp : Int) (h : GoodSW proc b owner X pubF bss Jp)
    (hn : X.st.nodes[j]? = some nd) (hpend : nd.pending = some p)
    (hno : Loop.reachesSender ((rejoinTopo b).hasOut j) p.res = false) :
    GoodSW proc b owner { st := { X.st with nodes := X.st.nodes.set j { nd with pending := none } }, log := X.log } pubF bss Jp := by
  have hjL : j < X.st.nodes.length := (List.getElem?_eq_some_iff.mp hn).1
  have hpis : nd.pending.isSome = true := by rw [hpend]; rfl
  have hd : j ≤ b → dictOf p.res = none := by
    intro hjb
    rw [rj_hasOut b j hb] at hno
    simp only [hjb, decide_true] at hno
    cases hres : p.res with
    | none => rfl
    | dict d => rw [hres] at hno; simp [Loop.reachesSender] at hno
    | deferred r => rw [hres] at hno; simp [Loop.reachesSender] at hno
  refine goodS_recv_gen proc b owner X j { nd with pending := none } (fun _ => []) X.log _ pubF bss bss Jp Jp h
    (by simp only [List.length_set]; exact h.len) ?_ (Int.le_refl _) (by intro r hr; cases hr) (by intro u _ _ r hr; cases hr) rfl
    ?_ ?_ ?_ (fun _ => ⟨rfl, rfl, rfl, fun hc => ?_⟩)
  · intro x
    rw [List.getElem?_set]
    by_cases hx : x = j
    · subst hx; simp [hjL]
    · have : ¬ j = x := fun e => hx e.symm
      simp only [this, hx, ↓reduceIte]
      cases X.st.nodes[x]? with
      | none => rfl
      | some P => simp only [Option.map_some, pushReqs_nil]
  · intro hj0
    subst hj0
    have ⟨hpub, hG⟩ := h.src nd hn
    refine ⟨⟨?_, hpub.inc, hpub.idle, hpub.bal, hpub.nq, hpub.minSend, hpub.reqs, (by intro hc; cases hc), (by intro q d hq; cases hq)⟩,
      ⟨hG.src, (by intro _ hc; cases hc), hG.recvSt⟩⟩
    have := hpub.prod
    rw [pendOf_nodict nd p hpend (hd (by omega))] at this
    simp only [prodOf] at this ⊢
    rw [this]; rfl
  · intro h1 h2
    rcases h.br j nd h1 h2 hn with ⟨bsW, s, hB⟩
    have := brInv_done proc X.st.tbl [] j nd { nd with pending := none } (pubF 0) (pubF j) (pubF j) Jp bsW s hB rfl rfl hB.idle hB.bal
      hB.nq hB.reqs hB.inc (Or.inr (by have := hB.minP hpis; simp only; omega)) hB.recvSt hB.pubLe hB.pubO (Or.inl ?_)
    · exact ⟨bsW, s, by simpa using this⟩
    · intro blk hblk
      rw [pendOf_nodict nd p hpend (hd h2), List.append_nil] at hblk
      exact hblk
  · intro hjJ
    subst hjJ
    exact js_frame proc b owner X _ nd _ pubF bss Jp [] (h.join nd hn) (by simp) rfl rfl rfl (by
      have : srcCount { st := { X.st with nodes := X.st.nodes.set (b + 1) { nd with pending := none } }, log := X.log } = srcCount X := by
        apply srcCount_eq
        simp only
        rw [List.getElem?_set]
        have : ¬ b + 1 = 0 := by omega
        simp only [this, ↓reduceIte]
      rw [this])
  · -- `j = 0`: the source count is unchanged
    have : srcCount { st := { X.st with nodes := X.st.nodes.set j { nd with pending := none } }, log := X.log } = srcCount X := by
      apply srcCount_eq
      subst hc
      simp only
      rw [List.getElem?_set]
      simp only [↓reduceIte, hjL, hn, Option.map_some]
    rw [this]

theorem goodS_stepSend (proc : Proc) (b : Nat) (hb : 1 ≤ b) (owner : Topic → Nat) (hown : Owned proc b owner)
    (X : LSt) (j : Nat) (t : Int) (h : GoodS proc b owner X) : GoodS proc b owner (lstep (rejoinTopo b) proc X (.nodeSend j t)) := by
  rcases h with ⟨pubF, bss, Jp, hw⟩
  unfold lstep
  simp only [step, stepSend, logUpd]
  cases hn : X.st.nodes[j]? with
  | none => exact goodS_eta proc b owner X ⟨pubF, bss, Jp, hw⟩
  | some nd =>
    simp only
    cases hpend : nd.pending with
    | none => exact goodS_eta proc b owner X ⟨pubF, bss, Jp, hw⟩
    | some p =>
      simp only
      by_cases hr : Loop.reachesSender ((rejoinTopo b).hasOut j) p.res = true
      · simp only [hr, ↓reduceIte]
        have hout : (rejoinTopo b).hasOut j = true := by
          cases hres : p.res with
          | none => rw [hres] at hr; simp [Loop.reachesSender] at hr
          | dict d => rw [hres] at hr; simpa [Loop.reachesSender] using hr
          | deferred r => rw [hres] at hr; simpa [Loop.reachesSender] using hr
        rw [rj_hasOut b j hb] at hout
        have hjb : j ≤ b := by simpa using hout
        by_cases hj0 : j = 0
        · subst hj0
          rcases goodS_sendSrc proc b owner X t nd p pubF bss Jp hw hn hpend with ⟨pubF', hw'⟩
          exact ⟨pubF', bss, Jp, hw'⟩
        · rcases goodS_sendBranch proc b owner hown X j t nd p pubF bss Jp hw (by omega) hjb hn hpend with ⟨pubF', bss', hw'⟩
          exact ⟨pubF', bss', Jp, hw'⟩
      · have hr' : Loop.reachesSender ((rejoinTopo b).hasOut j) p.res = false := by simpa using hr
        simp only [hr', Bool.false_eq_true, ↓reduceIte, sendSkip]
        exact ⟨pubF, bss, Jp, goodS_sendSkip proc b hb owner X j nd p pubF bss Jp hw hn hpend hr'⟩

theorem goodS_lrun (proc : Proc) (hp : ProcNames proc) (b : Nat) (hb : 1 ≤ b) (hcf : BranchCntFree proc b) (owner : Topic → Nat)
    (hown : Owned proc b owner) : ∀ (evs : List Ev) (X : LSt),
    GoodS proc b owner X → (∀ e ∈ evs, isRestart e = false) → GoodS proc b owner (lrun (rejoinTopo b) proc X evs) := by
  intro evs
  induction evs with
  | nil => intro X h _; exact h
  | cons e es ih =>
    intro X h hnr
    apply ih _ _ (fun x hx => hnr x (List.mem_cons_of_mem _ hx))
    cases e with
    | nodeRecv j => exact goodS_stepRecv proc hp b hb hcf owner X j h
    | nodeSend j t => exact goodS_stepSend proc b hb owner hown X j t h
    | restart j g => have := hnr _ (List.mem_cons_self ..); simp [isRestart] at this

/-! ## the theorem -/

/-- **C03 stage C / C01 across filters, the tee-rejoin whose branches skip frames**: topology `rejoinTopo b` — source `0`, `b ≥ 1`
parallel branch relays `1 … b` each subscribed to the source only, the join `J = b + 1` subscribed to ALL branches.  For every
process-function family with dict-like results (`ProcNames`), branch-owned topic names (`Owned`) and branch results that do not depend
on the call counter (`BranchCntFree`) — NO hypothesis on skipping: any branch may return `None`, directly or as the value of its
callable, for any of its sets — and every restart-free schedule `evs` of `nodeRecv | nodeSend @t` events (no bound, any clock readings
— evictions included —, any interleaving): the sequence of `(id, [(topic, content)])` sets the join's `process()` has been called with
is a PREFIX of `rejoinSpecSkip proc b N` (`N` = frames the source has produced): the source's surviving frames (ids consecutive) of
which EVERY branch makes a dict, in increasing order, each set holding, branch after branch, the visible topics of that branch's
output for THAT source frame under its id.  Never a mixed set (C01), nothing lost that all branches delivered, nothing duplicated or
reordered (C03 for the rejoin). -/
theorem C03_net_rejoin_common_ids (proc : Proc) (hp : ProcNames proc) (b : Nat) (hb : 1 ≤ b) (hcf : BranchCntFree proc b)
    (owner : Topic → Nat) (hown : Owned proc b owner) (evs : List Ev) (hnr : ∀ e ∈ evs, isRestart e = false) :
    (lrun (rejoinTopo b) proc (linit (rejoinTopo b)) evs).log (b + 1) <+:
      rejoinSpecSkip proc b (srcCount (lrun (rejoinTopo b) proc (linit (rejoinTopo b)) evs)) := by
  have hg := goodS_lrun proc hp b hb hcf owner hown evs _ ⟨_, _, _, goodS_init proc b owner⟩ hnr
  generalize lrun (rejoinTopo b) proc (linit (rejoinTopo b)) evs = X at hg
  rcases hg with ⟨pubF, bss, Jp, h⟩
  have hJL : b + 1 < X.st.nodes.length := by rw [h.len]; omega
  have hJn : X.st.nodes[b + 1]? = some X.st.nodes[b + 1] := List.getElem?_eq_getElem hJL
  rw [(h.join _ hJn).log]
  exact upTo_prefix Jp _ (spec_pairwise proc b _)

/-- `C03_net_rejoin_common_ids` on the observations of the model's own `run` -/
theorem C03_net_rejoin_common_ids_run (proc : Proc) (hp : ProcNames proc) (b : Nat) (hb : 1 ≤ b) (hcf : BranchCntFree proc b)
    (owner : Topic → Nat) (hown : Owned proc b owner) (evs : List Ev) (hnr : ∀ e ∈ evs, isRestart e = false) :
    (handedTo (b + 1) evs (run (rejoinTopo b) proc (init (rejoinTopo b)) evs).2).map contentsOf <+:
      rejoinSpecSkip proc b ((((run (rejoinTopo b) proc (init (rejoinTopo b)) evs).1.nodes[0]?).map (·.count)).getD 0) := by
  have := C03_net_rejoin_common_ids proc hp b hb hcf owner hown evs hnr
  rw [lrun_log] at this
  simp only [linit, List.nil_append] at this
  unfold srcCount at this
  rw [lrun_st] at this
  exact this

/-! ### non-vacuity: a diamond in which a stalled branch is fast-forwarded past the frames its sibling dropped -/

/-- source: `{main: 10 n}`; branch 1: topic `a` = the sum, `None` for the source frames 2 … 5 (keyed on the CONTENT); branch 2: topic `b` =
twice the sum (a CALLABLE for frame 7) and a hidden topic; join: anything -/
def rsProc : Proc := fun i n h =>
  match i with
  | 0 => .now (.dict [("main", n * 10)])
  | 1 => if 20 ≤ (h.map (·.2)).sum ∧ (h.map (·.2)).sum ≤ 50 then .now .none else .now (.dict [("a", (h.map (·.2)).sum)])
  | 2 => if (h.map (·.2)).sum = 70 then .later (.dict [("b", (h.map (·.2)).sum * 2)])
         else .now (.dict [("b", (h.map (·.2)).sum * 2), ("_hid", 7)])
  | _ => .now .none

def kOwner (t : Topic) : Nat := if t = "a" then 0 else 1

def fRnd (t : Int) : List Ev :=
  [.nodeRecv 0, .nodeSend 0 t, .nodeRecv 1, .nodeSend 1 t, .nodeRecv 2, .nodeSend 2 t, .nodeRecv 3, .nodeSend 3 t]
/-- branch 2 takes what there is but does not send -/
def fHold (t : Int) : List Ev := [.nodeRecv 0, .nodeSend 0 t, .nodeRecv 1, .nodeSend 1 t, .nodeRecv 2, .nodeRecv 3, .nodeSend 3 t]
/-- branch 2 is away -/
def fAway (t : Int) : List Ev := [.nodeRecv 0, .nodeSend 0 t, .nodeRecv 1, .nodeSend 1 t, .nodeRecv 3, .nodeSend 3 t]

/-- five lock-step rounds; branch 2 takes frame 2 and stalls with it; the clock jumps beyond the connection time-out, the source evicts
branch 2 and runs ahead with branch 1 alone (which drops frames 2 … 5 and publishes 6); the join adopts 6 and asks for 5; branch 2
comes back, is fast-forwarded to 6 (its frame 2 is dropped unpublished), its receiver discards frames 3, 4, 5 unprocessed -/
def fSched : List Ev :=
  fRnd 1100 ++ fRnd 1200 ++ fRnd 1300 ++ fRnd 1400 ++ fRnd 1500 ++ fHold 1600 ++ fHold 1700 ++
  fAway 7800 ++ fAway 7900 ++ fAway 8000 ++ fAway 8100 ++ fAway 8200 ++ fAway 8300 ++
  fRnd 9000 ++ fRnd 9100 ++ fRnd 9200 ++ fRnd 9300

theorem rsProc_names : ProcNames rsProc := by
  intro i n h d hh hd
  unfold rsProc at hd
  split at hd
  · simp only [Loop.processFrames, Loop.normPlain, dictOf, Option.some.injEq] at hd
    subst hd
    exact ⟨by simp, by intro x hx; simp only [List.mem_singleton] at hx; subst hx; exact (by decide : ("main" : String) ≠ "")⟩
  · split at hd
    · simp [Loop.processFrames, Loop.normPlain, dictOf] at hd
    · simp only [Loop.processFrames, Loop.normPlain, dictOf, Option.some.injEq] at hd
      subst hd
      exact ⟨by simp, by intro x hx; simp only [List.mem_singleton] at hx; subst hx; exact (by decide : ("a" : String) ≠ "")⟩
  · split at hd
    · simp only [Loop.processFrames, Loop.normPlain, dictOf, Option.some.injEq] at hd
      subst hd
      exact ⟨by simp, by intro x hx; simp only [List.mem_singleton] at hx; subst hx; exact (by decide : ("b" : String) ≠ "")⟩
    · simp only [Loop.processFrames, Loop.normPlain, dictOf, Option.some.injEq] at hd
      subst hd
      refine ⟨by simp only [List.map_cons, List.map_nil]; decide, ?_⟩
      intro x hx
      simp only [List.mem_cons, List.mem_nil_iff, or_false] at hx
      rcases hx with rfl | rfl
      · exact (by decide : ("b" : String) ≠ "")
      · exact (by decide : ("_hid" : String) ≠ "")
  · simp [Loop.processFrames, Loop.normPlain, dictOf] at hd

theorem rsProc_cntfree : BranchCntFree rsProc 2 := by
  intro i h1 h2 n m h
  have : i = 1 ∨ i = 2 := by omega
  rcases this with rfl | rfl <;> rfl

theorem rsProc_owned : Owned rsProc 2 kOwner := by
  intro i n h d h1 h2 hd x hx
  have : i = 1 ∨ i = 2 := by omega
  rcases this with rfl | rfl
  · unfold rsProc at hd
    simp only at hd
    split at hd
    · simp [Loop.processFrames, Loop.normPlain, dictOf] at hd
    · simp only [Loop.processFrames, Loop.normPlain, dictOf, Option.some.injEq] at hd
      subst hd; simp only [List.mem_singleton] at hx; subst hx; rfl
  · unfold rsProc at hd
    simp only at hd
    split at hd
    · simp only [Loop.processFrames, Loop.normPlain, dictOf, Option.some.injEq] at hd
      subst hd; simp only [List.mem_singleton] at hx; subst hx
      exact (by decide : kOwner "b" + 1 = 2)
    · simp only [Loop.processFrames, Loop.normPlain, dictOf, Option.some.injEq] at hd
      subst hd
      simp only [List.mem_cons, List.mem_nil_iff, or_false] at hx
      rcases hx with rfl | rfl
      · exact (by decide : kOwner "b" + 1 = 2)
      · exact (by decide : kOwner "_hid" + 1 = 2)

/-- 122 events on the diamond `0 → {1, 2} → 3` (a TEST of the model, kernel-evaluated): the source has produced 14 frames; branch 1 was
handed all of them and dropped 2 … 5; branch 2 was handed the ids 0, 1, 2, 6, 7, 8 — it was FAST-FORWARDED past 3, 4, 5, and its
frame 2 was never published; the join was handed exactly the common frames 0, 1, 6, 7, 8, each with both branches' outputs for the
same source frame (7: the value of branch 2's callable; the hidden topic never arrives) — the first five sets of `rejoinSpecSkip` -/
example : (lrun (rejoinTopo 2) rsProc (linit (rejoinTopo 2)) fSched).log 3 =
      [(0, [("a", 0), ("b", 0)]), (1, [("a", 10), ("b", 20)]), (6, [("a", 60), ("b", 120)]), (7, [("a", 70), ("b", 140)]),
       (8, [("a", 80), ("b", 160)])] ∧
    ((lrun (rejoinTopo 2) rsProc (linit (rejoinTopo 2)) fSched).log 2).map (·.1) = [0, 1, 2, 6, 7, 8] ∧
    ((lrun (rejoinTopo 2) rsProc (linit (rejoinTopo 2)) fSched).log 1).length = 14 ∧
    (rejoinSpecSkip rsProc 2 (srcCount (lrun (rejoinTopo 2) rsProc (linit (rejoinTopo 2)) fSched))).take 5 =
      (lrun (rejoinTopo 2) rsProc (linit (rejoinTopo 2)) fSched).log 3 ∧
    (rejoinSpecSkip rsProc 2 (srcCount (lrun (rejoinTopo 2) rsProc (linit (rejoinTopo 2)) fSched))).map (·.1) =
      [0, 1, 6, 7, 8, 9, 10, 11, 12, 13] := by
  decide +kernel

/-- the hypotheses of the theorem are satisfiable: it applies to this family, whose branch 1 skips, on every restart-free schedule -/
example (evs : List Ev) (hnr : ∀ e ∈ evs, isRestart e = false) :
    (lrun (rejoinTopo 2) rsProc (linit (rejoinTopo 2)) evs).log 3 <+:
      rejoinSpecSkip rsProc 2 (srcCount (lrun (rejoinTopo 2) rsProc (linit (rejoinTopo 2)) evs)) :=
  C03_net_rejoin_common_ids rsProc rsProc_names 2 (by omega) rsProc_cntfree kOwner rsProc_owned evs hnr

/-- the skipping family of `C03_net_rejoin_needs_noskip` (`sProc`: branch 1 drops its second set) on its schedule `rSched`: the ids
0, 2, 3, 4 the join is handed ARE the first four common frames (a TEST, kernel-evaluated; on that lock-step schedule every branch is
handed every source frame, so the call counter is the frame number) -/
example : (lrun (rejoinTopo 2) sProc (linit (rejoinTopo 2)) rSched).log 3 =
    (rejoinSpecSkip sProc 2 (srcCount (lrun (rejoinTopo 2) sProc (linit (rejoinTopo 2)) rSched))).take 4 := by
  decide +kernel

/-! ### `BranchCntFree` is needed -/

/-- as `rsProc`, but branch 2 drops its FOURTH set, whatever it is (keyed on the call counter) -/
def nProc : Proc := fun i n h =>
  match i with
  | 2 => if n = 3 then .now .none else .now (.dict [("b", (h.map (·.2)).sum * 2)])
  | _ => rsProc i n h

/-- twelve lock-step rounds -/
def lockSched : List Ev :=
  fRnd 1100 ++ fRnd 1200 ++ fRnd 1300 ++ fRnd 1400 ++ fRnd 1500 ++ fRnd 1600 ++ fRnd 1700 ++ fRnd 1800 ++ fRnd 1900 ++ fRnd 2000 ++
  fRnd 2100 ++ fRnd 2200

theorem nProc_names : ProcNames nProc := by
  intro i n h d hh hd
  by_cases hi : i = 2
  · subst hi
    unfold nProc at hd
    simp only at hd
    split at hd
    · simp [Loop.processFrames, Loop.normPlain, dictOf] at hd
    · simp only [Loop.processFrames, Loop.normPlain, dictOf, Option.some.injEq] at hd
      subst hd
      exact ⟨by simp, by intro x hx; simp only [List.mem_singleton] at hx; subst hx; exact (by decide : ("b" : String) ≠ "")⟩
  · have e : nProc i n h = rsProc i n h := by
      unfold nProc
      split
      · exact absurd rfl hi
      · rfl
    rw [e] at hd
    exact rsProc_names i n h d hh hd

theorem nProc_owned : Owned nProc 2 kOwner := by
  intro i n h d h1 h2 hd x hx
  have : i = 1 ∨ i = 2 := by omega
  rcases this with rfl | rfl
  · exact rsProc_owned 1 n h d (by omega) (by omega) hd x hx
  · unfold nProc at hd
    simp only at hd
    split at hd
    · simp [Loop.processFrames, Loop.normPlain, dictOf] at hd
    · simp only [Loop.processFrames, Loop.normPlain, dictOf, Option.some.injEq] at hd
      subst hd; simp only [List.mem_singleton] at hx; subst hx
      exact (by decide : kOwner "b" + 1 = 2)

/-- **`BranchCntFree` is needed** (kernel-evaluated; `nProc` satisfies `ProcNames` and `Owned`): branch 2 drops its FOURTH set.  With
the call counter taken for the source frame number (the specification) that is source frame 3 — which branch 1 drops anyway, so the
common frames are 0, 1, 6, 7, 8, …; and that is what the join is handed on a lock-step schedule.  On `fSched` branch 2 is fast-forwarded
past the frames 3, 4, 5 WITHOUT `process()` being called on them: its fourth set is source frame 6, it drops THAT, and the join is
handed 0, 1, 7, 8 — frame 6, of which every branch "makes a dict", is lost: not a prefix of the specification.  The frames handed to
the join depend on the schedule. -/
theorem C03_net_rejoin_skip_needs_cntfree :
    ((lrun (rejoinTopo 2) nProc (linit (rejoinTopo 2)) fSched).log 3).map (·.1) = [0, 1, 7, 8] ∧
    ((lrun (rejoinTopo 2) nProc (linit (rejoinTopo 2)) fSched).log 2).map (·.1) = [0, 1, 2, 6, 7, 8] ∧
    (rejoinSpecSkip nProc 2 (srcCount (lrun (rejoinTopo 2) nProc (linit (rejoinTopo 2)) fSched))).map (·.1) =
      [0, 1, 6, 7, 8, 9, 10, 11, 12, 13] ∧
    ¬ ((lrun (rejoinTopo 2) nProc (linit (rejoinTopo 2)) fSched).log 3 <+:
      rejoinSpecSkip nProc 2 (srcCount (lrun (rejoinTopo 2) nProc (linit (rejoinTopo 2)) fSched))) ∧
    ((lrun (rejoinTopo 2) nProc (linit (rejoinTopo 2)) lockSched).log 3).map (·.1) = [0, 1, 6, 7, 8] ∧
    (lrun (rejoinTopo 2) nProc (linit (rejoinTopo 2)) lockSched).log 3 <+:
      rejoinSpecSkip nProc 2 (srcCount (lrun (rejoinTopo 2) nProc (linit (rejoinTopo 2)) lockSched)) := by
  decide +kernel

end OF.Net
