import OFProps.C06StarSem
set_option linter.unusedSimpArgs false
/-!
# C06 at network level — a tee keeps moving, and heals after a consumer falls silent (`OFModel/Zmq/Net.lean`)

"Under any fair schedule an acyclic pipeline never deadlocks … a consumer that is not declared a required output [and] dies or
falls silent for longer than the connection timeout: frames flow again to every live consumer within a bounded time" — for the
TEE: topology `starTopo b` (source 0, consumers `1 … b` subscribed to the source only, `b ≥ 1`), the complement of
`C04_net_tee_stall_bounded_partial` (before the time-out the publisher waits for a silent tracked consumer).
Hypotheses: `ProcNames` (results of `process()` are dicts: distinct non-empty topic names — as in `C03_net_tree_*`), `SrcAll`
(the source always has a next frame), states reachable without restarts (`ReachNR`).

* `C06_net_star_progress` — from every such state, at ANY clock reading `t`, the explicit schedule `starProgress b t`
  (`6 b + 3` events) makes EVERY consumer's `recv` return a new frame set (`prev_id` moves).
* `C06_net_star_fair_heals` — fairness is enough: EVERY schedule of 8 rounds, each round containing a `recv` and a `send` of
  every node in any order, with any repetitions / extra events / ANY clock readings, does (time-out evictions of live consumers,
  which arbitrary clock readings may cause, do no harm: an evicted consumer is registered again by its next request).
* `C06_net_star_heals_after_silence` — a set `dead` of consumers makes NO event any more.  If nothing of theirs is queued at the
  source (`NoDeadReq`) and every `send` of the source reads a clock beyond `t_last + ZMQ_CONN_TIMEOUT` of every silent consumer
  in its client table (`ClockOK`, read off the state), EVERY schedule of 8 rounds of the LIVE nodes hands every live consumer a new
  set.  `C06_net_star_heals_after_silence_flush`: from ANY state (requests of the silent consumers still queued): a first phase
  containing `recv 0 … send 0` (clock readings `≤ T`) flushes them, then 8 live rounds at clock readings beyond
  `healTimeS` = `max (T, every t_last in the table) + ZMQ_CONN_TIMEOUT`; `C06_net_star_heals_explicit`: the explicit schedule
  `[recv 0, send 0 @t1] ++ starProgressL …` (`6 b + 5` events at most).
* `C06_net_star_all_silent_blocks` — the boundary: if ALL consumers are silent and nothing is queued, the source never publishes
  again (every `send` times out, its result stays held): nobody is left to publish to.
Proof: `star_trans` (`C06StarSem.lean`) + the chain of stable predicates of `C06StarMeasure.lean` run along the schedule
(`pattern_run`): two rounds make the source hold a frame and every live consumer ask; then the pattern
`[send 0, send i, recv i, send 0, send i, recv i]` (6 rounds) moves consumer `i`: the first drain leaves nobody live holding the
source up and `i` hearing (a request of an unknown consumer is answered by HELLO; a tracked consumer has heard: invariant
`StarHeard`), `i` polls (its request does not say `new`), the second drain PUBLISHES, `i` takes the set.
Not proved: restarts, the exact number of rounds needed (8 is not tight: from the initial state round-robin needs 3, kernel-evaluated example; the real objects needed at most 4 in 2000 random trials),
general trees with relays that have several consumers.
-/
namespace OF.Net
open OF

/-! ## running a schedule -/

def stepS (b : Nat) (proc : Proc) (s : St) (e : Ev) : St := (step (starTopo b) proc s e).1

theorem run_fst_foldl (tp : Topo) (proc : Proc) : ∀ (evs : List Ev) (st : St),
    (run tp proc st evs).1 = evs.foldl (fun s e => (step tp proc s e).1) st := by
  intro evs
  induction evs with
  | nil => intro st; rfl
  | cons e es ih => intro st; rw [run_fst_cons, ih]; rfl

/-- what is kept along a schedule of live events -/
def LiveInv (b : Nat) (proc : Proc) (dead : Nat → Bool) (st0 s : St) : Prop := ReachNR (starTopo b) proc s ∧ DeadSub dead st0 s

section Core
variable (b : Nat) (hb : 1 ≤ b) (proc : Proc) (hp : ProcNames proc) (hs : SrcAll proc) (dead : Nat → Bool) (st0 : St)

include hb hp hs in
theorem liveInv_step (s : St) (e : Ev) (hI : LiveInv b proc dead st0 s) (hok : LiveOk dead st0 e) :
    LiveInv b proc dead st0 (stepS b proc s e) :=
  ⟨reach_step _ proc s e hI.1 hok.1, (star_trans b hb proc hp hs dead st0 s hI.1 hI.2 e hok).2⟩

include hb hp hs in
/-- a predicate on views that every transition keeps (given `VOK` and the base `p0 ≤ prev_id`) is kept by every live event -/
theorem lift_stable (i : Nat) (hi : inC b i) (p0 : Int) (X : SView → Prop)
    (hX : ∀ v v' e, STrans b dead v v' e → VOK b v → p0 ≤ v.prev i → X v → X v')
    (s : St) (e : Ev) (hI : LiveInv b proc dead st0 s) (hok : LiveOk dead st0 e)
    (hq : p0 ≤ prevOf s.nodes i ∧ X (sviewOf s)) :
    p0 ≤ prevOf (stepS b proc s e).nodes i ∧ X (sviewOf (stepS b proc s e)) := by
  have ⟨_, hh, nd0, hd⟩ := star_inv3 b hb proc hp hs s hI.1
  have ht := (star_trans b hb proc hp hs dead st0 s hI.1 hI.2 e hok).1
  have hv := star_vok b s nd0 hd hh
  refine ⟨?_, hX _ _ e ht hv hq.1 hq.2⟩
  have := prev_mono b dead _ _ e ht i hi
  have h1 : (sviewOf s).prev i ≤ (sviewOf (stepS b proc s e)).prev i := this
  have h2 : (sviewOf s).prev i = prevOf s.nodes i := rfl
  have h3 : (sviewOf (stepS b proc s e)).prev i = prevOf (stepS b proc s e).nodes i := rfl
  omega

include hb hp hs in
theorem lift_adv (i : Nat) (p0 : Int) (X Y : SView → Prop) (e : Ev)
    (hXY : ∀ v v', STrans b dead v v' e → VOK b v → p0 ≤ v.prev i → X v → Y v')
    (s : St) (hI : LiveInv b proc dead st0 s) (hok : LiveOk dead st0 e)
    (hq : p0 ≤ prevOf s.nodes i ∧ X (sviewOf s)) : Y (sviewOf (stepS b proc s e)) := by
  have ⟨_, hh, nd0, hd⟩ := star_inv3 b hb proc hp hs s hI.1
  have ht := (star_trans b hb proc hp hs dead st0 s hI.1 hI.2 e hok).1
  exact hXY _ _ ht (star_vok b s nd0 hd hh) hq.1 hq.2

include hb hp hs in
/-- **the core**: consumer `i` is live; the first part of the schedule contains `recv 0` and, for every live consumer `j`,
`send j … recv j`; the second part contains the pattern `starPat i`: then `i` takes a new frame set -/
theorem star_core (s0 : St) (hI0 : LiveInv b proc dead st0 s0) (i : Nat) (hi : inC b i) (hdi : dead i = false)
    (evsA evsB : List Ev) (hokA : ∀ e ∈ evsA, LiveOk dead st0 e) (hokB : ∀ e ∈ evsB, LiveOk dead st0 e)
    (hA0 : [Kind.recv 0].Sublist (evsA.map evKind))
    (hAj : ∀ j, inC b j → dead j = false → [Kind.send j, Kind.recv j].Sublist (evsA.map evKind))
    (hB : (starPat i).Sublist (evsB.map evKind)) :
    prevOf s0.nodes i < prevOf (run (starTopo b) proc s0 (evsA ++ evsB)).1.nodes i ∧
    LiveInv b proc dead st0 (run (starTopo b) proc s0 (evsA ++ evsB)).1 := by
  generalize hp0 : prevOf s0.nodes i = p0
  have hbase0 : p0 ≤ prevOf s0.nodes i := by omega
  have hinv := fun s e => liveInv_step b hb proc hp hs dead st0 s e
  -- part A: the source holds a frame
  have hP := pattern_run (stepS b proc) (LiveInv b proc dead st0) (LiveOk dead st0)
    (fun k s => p0 ≤ prevOf s.nodes i ∧ (k = 0 ∨ Wv i p0 (sviewOf s) ∨ (sviewOf s).P0 = true)) [Kind.recv 0] hinv
    (by
      intro k s e hI hok hq
      refine lift_stable b hb proc hp hs dead st0 i hi p0 (fun v => k = 0 ∨ Wv i p0 v ∨ v.P0 = true) ?_ s e hI hok hq
      intro v v' e' ht hv hb0 hx
      rcases hx with h0 | hw | hpp
      · exact Or.inl h0
      · exact Or.inr (Or.inl (wv_stable b dead v v' e' ht i hi p0 hb0 hw))
      · exact Or.inr (p0_stable b dead i p0 hi v v' e' ht hv hb0 hpp))
    (by
      intro k s e hI hok hk hq
      have hq' := lift_stable b hb proc hp hs dead st0 i hi p0 (fun _ => True) (fun _ _ _ _ _ _ _ => trivial) s e hI hok ⟨hq.1, trivial⟩
      refine ⟨hq'.1, Or.inr (Or.inr ?_)⟩
      cases k with
      | zero =>
        simp only [List.getElem?_cons_zero, Option.some.injEq] at hk
        have he := evKind_recv e 0 hk.symm
        subst he
        exact lift_adv b hb proc hp hs dead st0 i p0 (fun _ => True) (fun v => v.P0 = true) _
          (fun v v' ht _ _ _ => p0_adv b dead v v' ht) s hI hok ⟨hq.1, trivial⟩
      | succ k => simp at hk)
    evsA s0 0 (by simp) hI0 hokA hA0 ⟨hbase0, Or.inl rfl⟩
  -- part A: every live consumer has asked or does not hold the source up
  have hPsi : ∀ j, inC b j → dead j = false →
      Wv i p0 (sviewOf (evsA.foldl (stepS b proc) s0)) ∨
        (PsiAt (sviewOf (evsA.foldl (stepS b proc) s0)) j ∧ Yv j (sviewOf (evsA.foldl (stepS b proc) s0))) := by
    intro j hj hdj
    have := pattern_run (stepS b proc) (LiveInv b proc dead st0) (LiveOk dead st0)
      (fun k s => p0 ≤ prevOf s.nodes i ∧ PsiQ i p0 j k (sviewOf s)) [Kind.send j, Kind.recv j] hinv
      (by
        intro k s e hI hok hq
        exact lift_stable b hb proc hp hs dead st0 i hi p0 (PsiQ i p0 j k)
          (fun v v' e' ht hv hb0 hx => psiQ_stable b dead i p0 hi j hj k v v' e' ht hv hb0 hx) s e hI hok hq)
      (by
        intro k s e hI hok hk hq
        have hq' := lift_stable b hb proc hp hs dead st0 i hi p0 (fun _ => True) (fun _ _ _ _ _ _ _ => trivial) s e hI hok ⟨hq.1, trivial⟩
        exact ⟨hq'.1, lift_adv b hb proc hp hs dead st0 i p0 (PsiQ i p0 j k) (PsiQ i p0 j (k + 1)) e
          (fun v v' ht hv hb0 hx => psiQ_adv b dead i p0 hi j hj k v v' e ht hv hb0 hk hx) s hI hok hq⟩)
      evsA s0 0 (by simp) hI0 hokA (hAj j hj hdj) ⟨hbase0, trivial⟩
    exact this.1.2
  have hrun : (run (starTopo b) proc s0 (evsA ++ evsB)).1 = evsB.foldl (stepS b proc) (evsA.foldl (stepS b proc) s0) := by
    rw [run_fst_append, run_fst_foldl, run_fst_foldl]; rfl
  rw [hrun]
  generalize evsA.foldl (stepS b proc) s0 = sA at hP hPsi ⊢
  have hQ0 : p0 ≤ prevOf sA.nodes i ∧ Qv b dead i p0 0 (sviewOf sA) := by
    refine ⟨hP.1.1, ?_⟩
    by_cases hw : Wv i p0 (sviewOf sA)
    · exact Or.inl hw
    · right
      refine ⟨?_, ?_, ?_⟩
      · rcases hP.1.2 with h0 | h1 | h2
        · cases h0
        · exact absurd h1 hw
        · exact h2
      · intro j hj hdj
        rcases hPsi j hj hdj with h1 | h1
        · exact absurd h1 hw
        · exact h1.1
      · rcases hPsi i hi hdi with h1 | h1
        · exact absurd h1 hw
        · exact h1.2
  -- part B: the pattern
  have hQ := pattern_run (stepS b proc) (LiveInv b proc dead st0) (LiveOk dead st0)
    (fun k s => p0 ≤ prevOf s.nodes i ∧ Qv b dead i p0 k (sviewOf s)) (starPat i) hinv
    (by
      intro k s e hI hok hq
      exact lift_stable b hb proc hp hs dead st0 i hi p0 (Qv b dead i p0 k)
        (fun v v' e' ht hv hb0 hx => qv_stable b dead i p0 hi k v v' e' ht hv hb0 hx) s e hI hok hq)
    (by
      intro k s e hI hok hk hq
      have hq' := lift_stable b hb proc hp hs dead st0 i hi p0 (fun _ => True) (fun _ _ _ _ _ _ _ => trivial) s e hI hok ⟨hq.1, trivial⟩
      exact ⟨hq'.1, lift_adv b hb proc hp hs dead st0 i p0 (Qv b dead i p0 k) (Qv b dead i p0 (k + 1)) e
        (fun v v' ht hv hb0 hx => qv_adv b dead i p0 hi k v v' e ht hv hb0 hk hx) s hI hok hq⟩)
    evsB sA 0 (by simp) hP.2 hokB hB hQ0
  exact ⟨hQ.1.2, hQ.2⟩

end Core

/-! ## rounds of the live nodes -/

/-- the kinds of events of the live nodes: `recv` / `send` of the source and of every consumer that is not silent -/
def KLive (b : Nat) (dead : Nat → Bool) (k : Kind) : Prop :=
  k = .recv 0 ∨ k = .send 0 ∨ ∃ j, inC b j ∧ dead j = false ∧ (k = .recv j ∨ k = .send j)

/-- `n` rounds of the live nodes: each round contains a `recv` and a `send` of the source and of every live consumer (any order,
any repetitions, any extra events) -/
def LiveRounds (b : Nat) (dead : Nat → Bool) (n : Nat) (evs : List Ev) : Prop := RoundsK (KLive b dead) n evs

theorem starPat_live (b : Nat) (dead : Nat → Bool) (i : Nat) (hi : inC b i) (hd : dead i = false) : ∀ k ∈ starPat i, KLive b dead k := by
  intro k hk
  simp only [starPat, List.mem_cons, List.mem_nil_iff, or_false] at hk
  rcases hk with h | h | h | h | h | h <;> subst h
  all_goals first
    | exact Or.inr (Or.inl rfl)
    | exact Or.inr (Or.inr ⟨i, hi, hd, Or.inl rfl⟩)
    | exact Or.inr (Or.inr ⟨i, hi, hd, Or.inr rfl⟩)

/-- what the theorems ask of the events of a schedule: no restart, no event of a silent consumer -/
def LiveEv (dead : Nat → Bool) (e : Ev) : Prop := isRestart e = false ∧ (nodeOf e ≠ 0 → dead (nodeOf e) = false)

/-- nobody is silent -/
def noDead : Nat → Bool := fun _ => false

theorem star_prev_step (b : Nat) (hb : 1 ≤ b) (proc : Proc) (hp : ProcNames proc) (hs : SrcAll proc) (s : St)
    (hr : ReachNR (starTopo b) proc s) (e : Ev) (hne : isRestart e = false) (i : Nat) (hi : inC b i) :
    prevOf s.nodes i ≤ prevOf (step (starTopo b) proc s e).1.nodes i := by
  have hnd : NoDeadReq noDead s := by intro r _ ⟨j, hj, _⟩; cases hj
  have hck : ∀ t, e = .nodeSend 0 t → ClockOK noDead s t := by intro t _ x _ ⟨j, hj, _⟩; cases hj
  have ht := (star_trans b hb proc hp hs noDead s s hr ⟨hnd, fun x hx _ => ⟨x, hx, rfl, rfl⟩⟩ e ⟨hne, fun _ => rfl, hck⟩).1
  exact prev_mono b noDead _ _ e ht i hi

theorem star_prev_run (b : Nat) (hb : 1 ≤ b) (proc : Proc) (hp : ProcNames proc) (hs : SrcAll proc) (i : Nat) (hi : inC b i) :
    ∀ (evs : List Ev) (s : St), ReachNR (starTopo b) proc s → (∀ e ∈ evs, isRestart e = false) →
    prevOf s.nodes i ≤ prevOf (run (starTopo b) proc s evs).1.nodes i := by
  intro evs
  induction evs with
  | nil => intro s _ _; exact Int.le_refl _
  | cons e es ih =>
    intro s hr hne
    have h1 := star_prev_step b hb proc hp hs s hr e (hne e (List.mem_cons_self ..)) i hi
    have h2 := ih _ (reach_step _ proc s e hr (hne e (List.mem_cons_self ..))) (fun x hx => hne x (List.mem_cons_of_mem _ hx))
    rw [run_fst_cons]
    omega

/-- 8 rounds of the live nodes, from a state in which the silent consumers are as in `st0` -/
theorem star_rounds8 (b : Nat) (hb : 1 ≤ b) (proc : Proc) (hp : ProcNames proc) (hs : SrcAll proc)
    (dead : Nat → Bool) (st0 s : St) (hI0 : LiveInv b proc dead st0 s) (evs : List Ev)
    (hok : ∀ e ∈ evs, LiveOk dead st0 e) (hrounds : LiveRounds b dead 8 evs) :
    (∀ i, inC b i → dead i = false → prevOf s.nodes i < prevOf (run (starTopo b) proc s evs).1.nodes i) ∧
    LiveInv b proc dead st0 (run (starTopo b) proc s evs).1 := by
  rcases rounds_split (KLive b dead) 2 6 evs hrounds with ⟨evsA, evsB, rfl, hA, hB⟩
  have hokA : ∀ e ∈ evsA, LiveOk dead st0 e := fun e he => hok e (List.mem_append_left _ he)
  have hokB : ∀ e ∈ evsB, LiveOk dead st0 e := fun e he => hok e (List.mem_append_right _ he)
  have hA0 : [Kind.recv 0].Sublist (evsA.map evKind) :=
    rounds_sublist (KLive b dead) [Kind.recv 0] 2 evsA (by intro k hk; simp only [List.mem_singleton] at hk; subst hk; exact Or.inl rfl)
      (by simp) hA
  have hAj : ∀ j, inC b j → dead j = false → [Kind.send j, Kind.recv j].Sublist (evsA.map evKind) := by
    intro j hj hdj
    refine rounds_sublist (KLive b dead) _ 2 evsA ?_ (by simp) hA
    intro k hk
    simp only [List.mem_cons, List.mem_nil_iff, or_false] at hk
    rcases hk with h | h <;> subst h
    · exact Or.inr (Or.inr ⟨j, hj, hdj, Or.inr rfl⟩)
    · exact Or.inr (Or.inr ⟨j, hj, hdj, Or.inl rfl⟩)
  refine ⟨?_, ?_⟩
  · intro i hi hdi
    have hBi := rounds_sublist (KLive b dead) (starPat i) 6 evsB (starPat_live b dead i hi hdi) (by simp [starPat]) hB
    exact (star_core b hb proc hp hs dead st0 s hI0 i hi hdi evsA evsB hokA hokB hA0 hAj hBi).1
  · -- the invariant at the end does not depend on `i`: run the events one by one
    have : ∀ (l : List Ev) (x : St), LiveInv b proc dead st0 x → (∀ e ∈ l, LiveOk dead st0 e) →
        LiveInv b proc dead st0 (run (starTopo b) proc x l).1 := by
      intro l
      induction l with
      | nil => intro x h _; exact h
      | cons e es ih =>
        intro x h hl
        exact ih _ (liveInv_step b hb proc hp hs dead st0 x e h (hl e (List.mem_cons_self ..))) (fun y hy => hl y (List.mem_cons_of_mem _ hy))
    exact this _ s hI0 hok

/-- `8 n` rounds of the live nodes hand every live consumer at least `n` new frame sets -/
theorem star_rounds_gen (b : Nat) (hb : 1 ≤ b) (proc : Proc) (hp : ProcNames proc) (hs : SrcAll proc) (dead : Nat → Bool) (st0 : St) :
    ∀ (n : Nat) (evs : List Ev) (s : St), LiveInv b proc dead st0 s → (∀ e ∈ evs, LiveOk dead st0 e) →
    LiveRounds b dead (8 * n) evs →
    (∀ i, inC b i → dead i = false → prevOf s.nodes i + n ≤ prevOf (run (starTopo b) proc s evs).1.nodes i) ∧
    LiveInv b proc dead st0 (run (starTopo b) proc s evs).1 := by
  intro n
  induction n with
  | zero =>
    intro evs s hI hok _
    have hmono := star_prev_run b hb proc hp hs
    have : ∀ (l : List Ev) (x : St), LiveInv b proc dead st0 x → (∀ e ∈ l, LiveOk dead st0 e) →
        LiveInv b proc dead st0 (run (starTopo b) proc x l).1 := by
      intro l
      induction l with
      | nil => intro x h _; exact h
      | cons e es ih =>
        intro x h hl
        exact ih _ (liveInv_step b hb proc hp hs dead st0 x e h (hl e (List.mem_cons_self ..))) (fun y hy => hl y (List.mem_cons_of_mem _ hy))
    refine ⟨?_, this evs s hI hok⟩
    intro i hi _
    have := hmono i hi evs s hI.1 (fun e he => (hok e he).1)
    simp only [Int.natCast_zero, Int.add_zero]; omega
  | succ n ih =>
    intro evs s hI hok hr
    have hr' : RoundsK (KLive b dead) (8 + 8 * n) evs := by
      have : 8 * (n + 1) = 8 + 8 * n := by omega
      unfold LiveRounds at hr; rw [this] at hr; exact hr
    rcases rounds_split (KLive b dead) 8 (8 * n) evs hr' with ⟨a, c, rfl, ha, hc⟩
    have hoka : ∀ e ∈ a, LiveOk dead st0 e := fun e he => hok e (List.mem_append_left _ he)
    have hokc : ∀ e ∈ c, LiveOk dead st0 e := fun e he => hok e (List.mem_append_right _ he)
    have ⟨h1, hI1⟩ := star_rounds8 b hb proc hp hs dead st0 s hI a hoka ha
    have ⟨h2, hI2⟩ := ih c _ hI1 hokc hc
    rw [run_fst_append]
    refine ⟨?_, hI2⟩
    intro i hi hdi
    have e1 := h1 i hi hdi
    have e2 := h2 i hi hdi
    simp only [Int.natCast_add, Int.natCast_one]
    omega

/-- **C06 (a tee heals after consumers fall silent; any fair schedule of the live nodes)** — `starTopo b`, `b ≥ 1`, `ProcNames`,
`SrcAll`.  `dead` = the consumers that make NO event any more.  From EVERY state reachable without restarts in which no request of
a silent consumer is queued at the source (`NoDeadReq`; see `…_flush` for the general case), EVERY schedule `evs` that
* contains no restart and no event of a silent consumer (`LiveEv`),
* reads, at every `send` of the source, a clock beyond `t_last + ZMQ_CONN_TIMEOUT` of every silent consumer in the source's client
  table of the START state (`ClockOK dead st t`; vacuous when nobody is silent or none of them is tracked),
* consists of 8 rounds of the live nodes (`LiveRounds`: any order inside a round, any repetitions, any extra events, any clock
  readings for the live consumers - evictions of live consumers are allowed to happen),
hands EVERY live consumer a new frame set (`prev_id` moves).  The silent consumers are evicted at the first `send` that
evaluates a request; `C06_net_star_heals_throughput`: frames keep flowing, `n` new sets per `8 n` rounds. -/
theorem C06_net_star_heals_after_silence (b : Nat) (hb : 1 ≤ b) (proc : Proc) (hp : ProcNames proc) (hs : SrcAll proc)
    (dead : Nat → Bool) (st : St) (hr : ReachNR (starTopo b) proc st) (hq : NoDeadReq dead st) (evs : List Ev)
    (hlive : ∀ e ∈ evs, LiveEv dead e) (hclock : ∀ t, Ev.nodeSend 0 t ∈ evs → ClockOK dead st t)
    (hrounds : LiveRounds b dead 8 evs) :
    ∀ i, inC b i → dead i = false → prevOf st.nodes i < prevOf (run (starTopo b) proc st evs).1.nodes i := by
  have hok : ∀ e ∈ evs, LiveOk dead st e := fun e he => ⟨(hlive e he).1, (hlive e he).2, fun t ht => hclock t (by rw [← ht]; exact he)⟩
  exact (star_rounds8 b hb proc hp hs dead st st ⟨hr, hq, fun x hx _ => ⟨x, hx, rfl, rfl⟩⟩ evs hok hrounds).1

/-- **C06 (frames flow again, for ever)**: under the hypotheses of `C06_net_star_heals_after_silence`, `8 n` rounds of the live
nodes hand every live consumer at least `n` new frame sets: the silent consumers never hold the source up again. -/
theorem C06_net_star_heals_throughput (b : Nat) (hb : 1 ≤ b) (proc : Proc) (hp : ProcNames proc) (hs : SrcAll proc)
    (dead : Nat → Bool) (st : St) (hr : ReachNR (starTopo b) proc st) (hq : NoDeadReq dead st) (n : Nat) (evs : List Ev)
    (hlive : ∀ e ∈ evs, LiveEv dead e) (hclock : ∀ t, Ev.nodeSend 0 t ∈ evs → ClockOK dead st t)
    (hrounds : LiveRounds b dead (8 * n) evs) :
    ∀ i, inC b i → dead i = false → prevOf st.nodes i + n ≤ prevOf (run (starTopo b) proc st evs).1.nodes i := by
  have hok : ∀ e ∈ evs, LiveOk dead st e := fun e he => ⟨(hlive e he).1, (hlive e he).2, fun t ht => hclock t (by rw [← ht]; exact he)⟩
  exact (star_rounds_gen b hb proc hp hs dead st n evs st ⟨hr, hq, fun x hx _ => ⟨x, hx, rfl, rfl⟩⟩ hok hrounds).1

theorem rounds_live (b : Nat) : ∀ (n : Nat) (evs : List Ev), Rounds (b + 1) n evs → LiveRounds b noDead n evs := by
  intro n
  induction n with
  | zero => intro _ _; trivial
  | succ n ih =>
    intro evs ⟨a, c, hac, hcov, hrest⟩
    refine ⟨a, c, hac, ?_, ih c hrest⟩
    intro k hk
    rcases hk with rfl | rfl | ⟨j, hj, _, rfl | rfl⟩
    · exact ⟨.nodeRecv 0, (hcov.2 0 (by omega)).1, rfl⟩
    · rcases (hcov.2 0 (by omega)).2 with ⟨t, ht⟩; exact ⟨.nodeSend 0 t, ht, rfl⟩
    · exact ⟨.nodeRecv j, (hcov.2 j (by unfold inC at hj; omega)).1, rfl⟩
    · rcases (hcov.2 j (by unfold inC at hj; omega)).2 with ⟨t, ht⟩; exact ⟨.nodeSend j t, ht, rfl⟩

/-- **C06 (fairness is enough: a tee keeps moving under ANY fair schedule)** — `starTopo b`, `b ≥ 1`: from EVERY state reachable
without restarts, EVERY schedule that consists of 8 rounds — each round containing a `recv` and a `send` of every node, in any
order, with any repetitions and extra events, at ANY clock readings (`Rounds (b + 1) 8`, the very notion of
`C06_net_chain_fair_heals`) — makes the `recv` of EVERY consumer return a new frame set.  The bound does not depend on `b`:
the consumers pass the handshake in parallel.  (Not tight: see the kernel-evaluated examples.) -/
theorem C06_net_star_fair_heals (b : Nat) (hb : 1 ≤ b) (proc : Proc) (hp : ProcNames proc) (hs : SrcAll proc) (st : St)
    (hr : ReachNR (starTopo b) proc st) (evs : List Ev) (h : Rounds (b + 1) 8 evs) :
    ∀ i, 1 ≤ i → i ≤ b → prevOf st.nodes i < prevOf (run (starTopo b) proc st evs).1.nodes i := by
  intro i h1 h2
  have hnr := rounds_notRestart (b + 1) 8 evs h
  have hnd : NoDeadReq noDead st := by
    intro r _ ⟨j, hj, _⟩; cases hj
  exact (C06_net_star_heals_after_silence b hb proc hp hs noDead st hr hnd evs
    (fun e he => ⟨hnr e he, fun _ => rfl⟩) (fun t _ x _ ⟨j, hj, _⟩ => by cases hj) (rounds_live b 8 evs h)) i ⟨h1, h2⟩ rfl

/-! ## explicit schedules -/

/-- the consumers that are not silent, in order -/
def liveList (b : Nat) (dead : Nat → Bool) : List Nat := ((List.range b).map (· + 1)).filter fun j => !dead j

theorem mem_liveList (b : Nat) (dead : Nat → Bool) (j : Nat) : j ∈ liveList b dead ↔ inC b j ∧ dead j = false := by
  unfold liveList inC
  simp only [List.mem_filter, List.mem_map, List.mem_range, Bool.not_eq_true']
  constructor
  · rintro ⟨⟨a, ha, rfl⟩, hd⟩; exact ⟨⟨by omega, by omega⟩, hd⟩
  · rintro ⟨⟨h1, h2⟩, hd⟩; exact ⟨⟨j - 1, by omega, by omega⟩, hd⟩

/-- every live consumer finishes what it holds and polls once -/
def allRound (b : Nat) (dead : Nat → Bool) (t : Int) : List Ev :=
  (liveList b dead).flatMap fun j => [Ev.nodeSend j t, Ev.nodeRecv j]

/-- the explicit schedule: the source takes a frame, everybody polls, then four times "the source sends, everybody polls" -/
def starProgressL (b : Nat) (dead : Nat → Bool) (t : Int) : List Ev :=
  (Ev.nodeRecv 0 :: allRound b dead t) ++
  ([Ev.nodeSend 0 t] ++ (allRound b dead t ++ [Ev.nodeSend 0 t]) ++ allRound b dead t)

/-- the schedule of `C06_net_star_progress` -/
def starProgress (b : Nat) (t : Int) : List Ev := starProgressL b noDead t

theorem allRound_length (b : Nat) (dead : Nat → Bool) (t : Int) : (allRound b dead t).length = 2 * (liveList b dead).length := by
  unfold allRound
  induction liveList b dead with
  | nil => rfl
  | cons x xs ih => simp only [List.flatMap_cons, List.length_append, List.length_cons, List.length_nil, ih]; omega

theorem starProgressL_length (b : Nat) (dead : Nat → Bool) (t : Int) :
    (starProgressL b dead t).length = 6 * (liveList b dead).length + 3 := by
  simp only [starProgressL, List.length_append, List.length_cons, List.length_nil, allRound_length]; omega

theorem liveList_noDead (b : Nat) : (liveList b noDead).length = b := by
  have : ∀ l : List Nat, l.filter (fun j => !noDead j) = l := by
    intro l
    induction l with
    | nil => rfl
    | cons x xs ih =>
      rw [List.filter_cons]
      have : (!noDead x) = true := rfl
      rw [this, ih]; rfl
  unfold liveList
  rw [this]; simp

theorem starProgress_length (b : Nat) (t : Int) : (starProgress b t).length = 6 * b + 3 := by
  unfold starProgress; rw [starProgressL_length, liveList_noDead]

theorem pair_sublist_flatMap (t : Int) (j : Nat) : ∀ (l : List Nat), j ∈ l →
    [Kind.send j, Kind.recv j].Sublist ((l.flatMap fun x => [Ev.nodeSend x t, Ev.nodeRecv x]).map evKind) := by
  intro l
  induction l with
  | nil => intro h; cases h
  | cons x xs ih =>
    intro h
    simp only [List.flatMap_cons, List.map_append, List.map_cons, List.map_nil, evKind]
    rcases List.mem_cons.mp h with rfl | h
    · exact (List.Sublist.refl _).trans (List.sublist_append_left _ _)
    · exact (ih h).trans (List.sublist_append_right _ _)

theorem allRound_sublist (b : Nat) (dead : Nat → Bool) (t : Int) (j : Nat) (hj : inC b j) (hd : dead j = false) :
    [Kind.send j, Kind.recv j].Sublist ((allRound b dead t).map evKind) :=
  pair_sublist_flatMap t j _ ((mem_liveList b dead j).mpr ⟨hj, hd⟩)

theorem allRound_live (b : Nat) (dead : Nat → Bool) (t : Int) : ∀ e ∈ allRound b dead t, LiveEv dead e ∧ ∀ t', e ≠ .nodeSend 0 t' := by
  intro e he
  unfold allRound at he
  rw [List.mem_flatMap] at he
  rcases he with ⟨j, hj, he⟩
  have ⟨hin, hd⟩ := (mem_liveList b dead j).mp hj
  simp only [List.mem_cons, List.mem_nil_iff, or_false] at he
  rcases he with rfl | rfl
  · refine ⟨⟨rfl, fun _ => hd⟩, ?_⟩
    intro t' h; cases h; exact absurd hin.1 (by omega)
  · exact ⟨⟨rfl, fun _ => hd⟩, fun t' h => by cases h⟩

/-- the explicit schedule moves every live consumer (no request of a silent consumer queued, clock beyond their time-out) -/
theorem starProgressL_moves (b : Nat) (hb : 1 ≤ b) (proc : Proc) (hp : ProcNames proc) (hs : SrcAll proc)
    (dead : Nat → Bool) (st : St) (hr : ReachNR (starTopo b) proc st) (hq : NoDeadReq dead st) (t : Int) (hclock : ClockOK dead st t) :
    ∀ i, inC b i → dead i = false → prevOf st.nodes i < prevOf (run (starTopo b) proc st (starProgressL b dead t)).1.nodes i := by
  intro i hi hdi
  have hsrc_recv : LiveOk dead st (.nodeRecv 0) := ⟨rfl, fun h => absurd rfl h, fun t' h => by cases h⟩
  have hsrc_send : LiveOk dead st (.nodeSend 0 t) := ⟨rfl, fun h => absurd rfl h, fun t' h => by cases h; exact hclock⟩
  have hall : ∀ e ∈ allRound b dead t, LiveOk dead st e := by
    intro e he
    have ⟨h1, h2⟩ := allRound_live b dead t e he
    exact ⟨h1.1, h1.2, fun t' h => absurd h (h2 t')⟩
  have hokA : ∀ e ∈ Ev.nodeRecv 0 :: allRound b dead t, LiveOk dead st e := by
    intro e he
    rcases List.mem_cons.mp he with rfl | he
    · exact hsrc_recv
    · exact hall e he
  have hokB : ∀ e ∈ [Ev.nodeSend 0 t] ++ (allRound b dead t ++ [Ev.nodeSend 0 t]) ++ allRound b dead t, LiveOk dead st e := by
    intro e he
    simp only [List.mem_append, List.mem_singleton] at he
    rcases he with (rfl | he | rfl) | he
    all_goals first
      | exact hsrc_send
      | exact hall e he
  have hA0 : [Kind.recv 0].Sublist ((Ev.nodeRecv 0 :: allRound b dead t).map evKind) := by
    rw [List.map_cons]
    exact (List.Sublist.refl [Kind.recv 0]).trans (List.Sublist.cons_cons _ (List.nil_sublist _))
  have hAj : ∀ j, inC b j → dead j = false → [Kind.send j, Kind.recv j].Sublist ((Ev.nodeRecv 0 :: allRound b dead t).map evKind) := by
    intro j hj hdj
    rw [List.map_cons]
    exact List.Sublist.cons _ (allRound_sublist b dead t j hj hdj)
  have hpi := allRound_sublist b dead t i hi hdi
  have hs0 : [Kind.send 0].Sublist ([Ev.nodeSend 0 t].map evKind) := List.Sublist.refl _
  have hB : (starPat i).Sublist (([Ev.nodeSend 0 t] ++ (allRound b dead t ++ [Ev.nodeSend 0 t]) ++ allRound b dead t).map evKind) := by
    have e : starPat i = [Kind.send 0] ++ ([Kind.send i, Kind.recv i] ++ [Kind.send 0]) ++ [Kind.send i, Kind.recv i] := rfl
    rw [e]
    simp only [List.map_append]
    exact ((hs0.append (hpi.append hs0))).append hpi
  exact (star_core b hb proc hp hs dead st st ⟨hr, hq, fun x hx _ => ⟨x, hx, rfl, rfl⟩⟩ i hi hdi _ _ hokA hokB hA0 hAj hB).1

/-- **C06 (a tee never deadlocks)** — `starTopo b` (source 0, consumers `1 … b`, `b ≥ 1`), `ProcNames`, `SrcAll`: from EVERY state
reachable without restarts, at ANY clock reading `t`, the explicit schedule `starProgress b t` — `recv 0`, then three poll rounds of
all consumers (`send j · recv j` for `j = 1 … b`) separated by two `send 0 @t`; `6 b + 3` events —
makes the `recv` of EVERY consumer return a frame set with an id above everything it returned before.  The handshake (a consumer is
tracked only after it has heard HELLO or a message) and the rule "publish only when every tracked consumer has asked" are
covered: no reachable state needs anything but these polls. -/
theorem C06_net_star_progress (b : Nat) (hb : 1 ≤ b) (proc : Proc) (hp : ProcNames proc) (hs : SrcAll proc) (st : St)
    (hr : ReachNR (starTopo b) proc st) (t : Int) :
    (∀ i, 1 ≤ i → i ≤ b → prevOf st.nodes i < prevOf (run (starTopo b) proc st (starProgress b t)).1.nodes i) ∧
    (starProgress b t).length = 6 * b + 3 := by
  refine ⟨?_, starProgress_length b t⟩
  intro i h1 h2
  exact starProgressL_moves b hb proc hp hs noDead st hr (by intro r _ ⟨j, hj, _⟩; cases hj) t
    (by intro x _ ⟨j, hj, _⟩; cases hj) i ⟨h1, h2⟩ rfl

/-! ## the first phase: requests of the silent consumers that are still queued are flushed -/

/-- one event of a live node in the first phase (clock readings of the source `≤ Tm`) -/
theorem flush_step (b : Nat) (hb : 1 ≤ b) (proc : Proc) (hp : ProcNames proc) (hs : SrcAll proc) (dead : Nat → Bool) (Tm : Int)
    (s : St) (hr : ReachNR (starTopo b) proc s) (e : Ev) (hlive : LiveEv dead e) (hclk : ∀ t, e = .nodeSend 0 t → t ≤ Tm) :
    (Pair.Stale Tm (srcPub s).clients → Pair.Stale Tm (srcPub (step (starTopo b) proc s e).1).clients) ∧
    (NoDeadReq dead s → NoDeadReq dead (step (starTopo b) proc s e).1) ∧
    (pendingAt s 0 = true → pendingAt (step (starTopo b) proc s e).1 0 = true ∨ srcQ (step (starTopo b) proc s e).1 = []) ∧
    (e = .nodeRecv 0 → pendingAt (step (starTopo b) proc s e).1 0 = true) ∧
    ((∃ t, e = .nodeSend 0 t) → pendingAt s 0 = true → srcQ (step (starTopo b) proc s e).1 = []) := by
  have ⟨ho, nd0, hd⟩ := star_inv b hb proc hp hs s hr
  have hP0 : pendingAt s 0 = nd0.pending.isSome := pendingAt_some s 0 nd0 hd.n0
  -- an event that changes neither the `ZMQSender` of the source nor what the source holds
  have hkeep : ∀ s' : St, srcPub s' = srcPub s → pendingAt s' 0 = pendingAt s 0 →
      (Pair.Stale Tm (srcPub s).clients → Pair.Stale Tm (srcPub s').clients) ∧ (NoDeadReq dead s → NoDeadReq dead s') ∧
      (pendingAt s 0 = true → pendingAt s' 0 = true ∨ srcQ s' = []) := by
    intro s' h1 h2
    refine ⟨by rw [h1]; exact id, ?_, by rw [h2]; exact Or.inl⟩
    unfold NoDeadReq srcQ; rw [h1]; exact id
  cases e with
  | restart i g => exact absurd hlive.1 (by simp [isRestart])
  | nodeRecv i =>
    show (_ → Pair.Stale Tm (srcPub (stepRecv (starTopo b) proc s i).1).clients) ∧ (_ → NoDeadReq dead (stepRecv (starTopo b) proc s i).1) ∧
      (_ → pendingAt (stepRecv (starTopo b) proc s i).1 0 = true ∨ srcQ (stepRecv (starTopo b) proc s i).1 = []) ∧
      (_ → pendingAt (stepRecv (starTopo b) proc s i).1 0 = true) ∧ (_ → _ → srcQ (stepRecv (starTopo b) proc s i).1 = [])
    have h5 : (∃ t, Ev.nodeRecv i = .nodeSend 0 t) → pendingAt s 0 = true → srcQ (stepRecv (starTopo b) proc s i).1 = [] :=
      fun ⟨t, h⟩ => by cases h
    cases hC : s.nodes[i]? with
    | none =>
      have hst : (stepRecv (starTopo b) proc s i).1 = s := by unfold stepRecv; simp only [hC]
      rw [hst]
      have := hkeep s rfl rfl
      refine ⟨this.1, this.2.1, this.2.2, ?_, fun ⟨t, h⟩ => by cases h⟩
      intro h; cases h
      rw [hd.n0] at hC; cases hC
    | some C =>
      cases hpend : C.pending with
      | some p =>
        have hst : (stepRecv (starTopo b) proc s i).1 = s := by
          unfold stepRecv; simp only [hC, hpend, Option.isSome_some, ↓reduceIte]
        rw [hst]
        have := hkeep s rfl rfl
        refine ⟨this.1, this.2.1, this.2.2, ?_, fun ⟨t, h⟩ => by cases h⟩
        intro h; cases h
        rw [hd.n0] at hC; cases hC
        rw [hP0, hpend]; rfl
      | none =>
        have hil : i < b + 1 := by rw [← hd.len]; exact (List.getElem?_eq_some_iff.mp hC).1
        by_cases hi0 : i = 0
        · subst hi0
          rw [hd.n0] at hC; cases hC
          have ⟨hsh, _⟩ := star_srecv_shape b proc s nd0 hd hpend
          have h0' : (stepRecv (starTopo b) proc s 0).1.nodes[0]? = some (processed proc 0 nd0 []) := by rw [hsh 0]; simp
          have hpub : srcPub (stepRecv (starTopo b) proc s 0).1 = srcPub s := by
            rw [srcPub_some _ _ h0', srcPub_some s nd0 hd.n0]; rfl
          have hpt : pendingAt (stepRecv (starTopo b) proc s 0).1 0 = true := by rw [pendingAt_some _ 0 _ h0']; rfl
          refine ⟨by rw [hpub]; exact id, ?_, fun _ => Or.inl hpt, fun _ => hpt, h5⟩
          unfold NoDeadReq srcQ; rw [hpub]; exact id
        · have ⟨c1, c2⟩ := crecv_src b proc s nd0 hd ho i (by omega) (by omega) C hC hpend
          obtain ⟨rq, C', _, _, hsh, _⟩ := star_recv_shape b proc s nd0 hd i (by omega) (by omega) C hC hpend
          have h0' : (stepRecv (starTopo b) proc s i).1.nodes[0]? = some { nd0 with pub := pushReqs nd0.pub [rq] } := by
            rw [hsh 0]; simp
          have hpt : pendingAt (stepRecv (starTopo b) proc s i).1 0 = pendingAt s 0 := by
            rw [pendingAt_some _ 0 _ h0', hP0]
          refine ⟨by rw [c1]; exact id, ?_, by rw [hpt]; exact Or.inl, fun h => by cases h; exact absurd rfl hi0, h5⟩
          intro hnd r hr hk
          rcases c2 r hr with h1 | h1
          · exact hnd r h1 hk
          · rcases hk with ⟨x, hx, hkx⟩
            rw [h1] at hkx
            have := fidC_inj _ _ hkx
            have hdd : dead i = false := hlive.2 (by simp [nodeOf]; exact hi0)
            rw [this, hx] at hdd; cases hdd
  | nodeSend i t =>
    show (_ → Pair.Stale Tm (srcPub (stepSend (starTopo b) s i t).1).clients) ∧ (_ → NoDeadReq dead (stepSend (starTopo b) s i t).1) ∧
      (_ → pendingAt (stepSend (starTopo b) s i t).1 0 = true ∨ srcQ (stepSend (starTopo b) s i t).1 = []) ∧
      (_ → pendingAt (stepSend (starTopo b) s i t).1 0 = true) ∧ (_ → _ → srcQ (stepSend (starTopo b) s i t).1 = [])
    have h4 : Ev.nodeSend i t = .nodeRecv 0 → pendingAt (stepSend (starTopo b) s i t).1 0 = true := fun h => by cases h
    cases hC : s.nodes[i]? with
    | none =>
      have hst : (stepSend (starTopo b) s i t).1 = s := by unfold stepSend; simp only [hC]
      rw [hst]
      have := hkeep s rfl rfl
      refine ⟨this.1, this.2.1, this.2.2, (fun h => by cases h), ?_⟩
      intro ⟨t', h⟩; cases h
      rw [hd.n0] at hC; cases hC
    | some C =>
      by_cases hi0 : i = 0
      · subst hi0
        rw [hd.n0] at hC; cases hC
        cases hpend : nd0.pending with
        | none =>
          have hst : (stepSend (starTopo b) s 0 t).1 = s := by unfold stepSend; simp only [hd.n0, hpend]
          rw [hst]
          have := hkeep s rfl rfl
          refine ⟨this.1, this.2.1, this.2.2, (fun h => by cases h), ?_⟩
          intro _ hpp
          rw [hP0, hpend] at hpp; cases hpp
        | some p =>
          have hso := ho.src nd0 hd.n0
          have hsh := star_ssend_shape b hb s nd0 hd t p hpend (hso.dict p hpend)
          rcases hso.pub with ⟨q, hq⟩
          have hout := star_send_outcome b s nd0 hd hso t p hpend q hq
          have h0' : (stepSend (starTopo b) s 0 t).1.nodes[0]? =
              some (afterSend nd0 p (Send.send0 nd0.pub none (payloadOf s.tbl.length p.res) false [0] t)) := by rw [hsh 0]; simp
          have hpub : srcPub (stepSend (starTopo b) s 0 t).1 = (Send.send0 nd0.pub none (payloadOf s.tbl.length p.res) false [0] t).1 := by
            rw [srcPub_some _ _ h0', afterSend_pub]
          have hq0 : srcQ (stepSend (starTopo b) s 0 t).1 = [] := by
            unfold srcQ; rw [hpub, hout.1.queues]; rfl
          refine ⟨?_, ?_, fun _ => Or.inr hq0, h4, fun _ _ => hq0⟩
          · intro hst
            rw [hpub]
            rw [srcPub_some s nd0 hd.n0] at hst
            obtain ⟨_, _, _, h3⟩ := Pair.send0_spec nd0.pub q (payloadOf s.tbl.length p.res) t Tm hq hst (hclk t rfl)
            exact h3
          · intro _ r hr
            rw [hq0] at hr; cases hr
      · have ⟨hsh, _⟩ := star_csend_shape b proc s i (by omega) t C hC
        have h0' : (stepSend (starTopo b) s i t).1.nodes[0]? = s.nodes[0]? := by
          rw [hsh 0]
          have : ¬ (0 = i) := fun e => hi0 e.symm
          simp only [this, ↓reduceIte]
        have hpub := srcPub_congr s _ h0'
        have hpt : pendingAt (stepSend (starTopo b) s i t).1 0 = pendingAt s 0 := by unfold pendingAt; rw [h0']
        have := hkeep _ hpub hpt
        refine ⟨this.1, this.2.1, this.2.2, h4, ?_⟩
        intro ⟨t', h⟩; cases h; exact absurd rfl hi0

/-- **the first phase**: a schedule of live events (clock readings of the source `≤ Tm`, nobody in the table heard after `Tm`)
that contains `recv 0 … send 0` leaves no request of a silent consumer queued, and still nobody heard after `Tm` -/
theorem flush_run (b : Nat) (hb : 1 ≤ b) (proc : Proc) (hp : ProcNames proc) (hs : SrcAll proc) (dead : Nat → Bool) (Tm : Int)
    (evs : List Ev) (s : St) (hr : ReachNR (starTopo b) proc s) (hl : ∀ e ∈ evs, LiveEv dead e)
    (hc : ∀ t, Ev.nodeSend 0 t ∈ evs → t ≤ Tm) (hst : Pair.Stale Tm (srcPub s).clients)
    (hpat : [Kind.recv 0, Kind.send 0].Sublist (evs.map evKind)) :
    ReachNR (starTopo b) proc (run (starTopo b) proc s evs).1 ∧ NoDeadReq dead (run (starTopo b) proc s evs).1 ∧
    Pair.Stale Tm (srcPub (run (starTopo b) proc s evs).1).clients := by
  have hok : ∀ e ∈ evs, LiveEv dead e ∧ ∀ t, e = .nodeSend 0 t → t ≤ Tm :=
    fun e he => ⟨hl e he, fun t ht => hc t (by rw [← ht]; exact he)⟩
  have := pattern_run (stepS b proc) (fun x => ReachNR (starTopo b) proc x ∧ Pair.Stale Tm (srcPub x).clients)
    (fun e => LiveEv dead e ∧ ∀ t, e = .nodeSend 0 t → t ≤ Tm)
    (fun k x => match k with
      | 0 => True
      | 1 => pendingAt x 0 = true ∨ NoDeadReq dead x
      | _ => NoDeadReq dead x) [Kind.recv 0, Kind.send 0]
    (by
      intro x e hI hk
      exact ⟨reach_step _ proc x e hI.1 hk.1.1, (flush_step b hb proc hp hs dead Tm x hI.1 e hk.1 hk.2).1 hI.2⟩)
    (by
      intro k x e hI hk hq
      have hf := flush_step b hb proc hp hs dead Tm x hI.1 e hk.1 hk.2
      match k, hq with
      | 0, _ => trivial
      | 1, hq =>
        rcases hq with h1 | h1
        · rcases hf.2.2.1 h1 with h2 | h2
          · exact Or.inl h2
          · right; intro r hr; rw [show srcQ (stepS b proc x e) = [] from h2] at hr; cases hr
        · exact Or.inr (hf.2.1 h1)
      | k + 2, hq => exact hf.2.1 hq)
    (by
      intro k x e hI hk hkk hq
      have hf := flush_step b hb proc hp hs dead Tm x hI.1 e hk.1 hk.2
      match k, hkk, hq with
      | 0, hkk, _ =>
        simp only [List.getElem?_cons_zero, Option.some.injEq] at hkk
        have he := evKind_recv e 0 hkk.symm
        exact Or.inl (hf.2.2.2.1 he)
      | 1, hkk, hq =>
        simp only [List.getElem?_cons_succ, List.getElem?_cons_zero, Option.some.injEq] at hkk
        have ⟨t, he⟩ := evKind_send e 0 hkk.symm
        rcases hq with h1 | h1
        · intro r hr
          rw [show srcQ (stepS b proc x e) = [] from hf.2.2.2.2 ⟨t, he⟩ h1] at hr; cases hr
        · exact hf.2.1 h1
      | k + 2, hkk, _ => simp at hkk)
    evs s 0 (by simp) ⟨hr, hst⟩ hok hpat trivial
  rw [run_fst_foldl]
  exact ⟨this.2.1, this.1, this.2.2⟩

/-- the clock reading from which on every entry of the source's client table is past the connection time-out, given that
the source's clock does not pass `t1` before: one time-out after the later of `t1` and every `t_last` in the table -/
def healTimeS (st : St) (t1 : Int) : Int := Pair.lastHeard (srcPub st).clients t1 + OF.Facts.ZMQ_CONN_TIMEOUT + 1

/-- **C06 (a tee heals after consumers fall silent, from EVERY state)** — `dead` = the consumers that make no event any more; ANY
state reachable without restarts (requests of the silent consumers may still be queued at the source, which would refresh their
`t_last`).  First phase `evs1`: events of live nodes, clock readings of the source `≤ t1`, containing `recv 0 … send 0` (one full
drain).  Second phase `evs2`: 8 rounds of the live nodes, every `send` of the source at a clock reading `≥ healTimeS st t1`
(`max (t1, every t_last in the table) + ZMQ_CONN_TIMEOUT + 1`, read off the state).  Then EVERY live consumer is handed a new set. -/
theorem C06_net_star_heals_after_silence_flush (b : Nat) (hb : 1 ≤ b) (proc : Proc) (hp : ProcNames proc) (hs : SrcAll proc)
    (dead : Nat → Bool) (st : St) (hr : ReachNR (starTopo b) proc st) (t1 : Int) (evs1 evs2 : List Ev)
    (hl1 : ∀ e ∈ evs1, LiveEv dead e) (hc1 : ∀ t, Ev.nodeSend 0 t ∈ evs1 → t ≤ t1)
    (hflush : [Kind.recv 0, Kind.send 0].Sublist (evs1.map evKind))
    (hl2 : ∀ e ∈ evs2, LiveEv dead e) (hc2 : ∀ t, Ev.nodeSend 0 t ∈ evs2 → healTimeS st t1 ≤ t)
    (hrounds : LiveRounds b dead 8 evs2) :
    ∀ i, inC b i → dead i = false → prevOf st.nodes i < prevOf (run (starTopo b) proc st (evs1 ++ evs2)).1.nodes i := by
  intro i hi hdi
  have ⟨g1, g2⟩ := Pair.lastHeard_ge (srcPub st).clients t1
  have hfl := flush_run b hb proc hp hs dead (Pair.lastHeard (srcPub st).clients t1) evs1 st hr hl1
    (fun t ht => by have := hc1 t ht; omega) g2 hflush
  have hmono := star_prev_run b hb proc hp hs i hi evs1 st hr (fun e he => (hl1 e he).1)
  rw [run_fst_append]
  generalize (run (starTopo b) proc st evs1).1 = s1 at hfl hmono
  have hck : ∀ t, Ev.nodeSend 0 t ∈ evs2 → ClockOK dead s1 t := by
    intro t ht x hx _
    have h1 := hfl.2.2 x hx
    have h2 := hc2 t ht
    unfold healTimeS at h2
    omega
  have := C06_net_star_heals_after_silence b hb proc hp hs dead s1 hfl.1 hfl.2.1 evs2 hl2 hck hrounds i hi hdi
  omega

/-- the explicit healing schedule: one poll of the source at `t1` (flushes what the silent consumers left), then the progress
schedule of the live consumers at `t2` -/
def starHeal (b : Nat) (dead : Nat → Bool) (t1 t2 : Int) : List Ev := [Ev.nodeRecv 0, Ev.nodeSend 0 t1] ++ starProgressL b dead t2

theorem starHeal_length (b : Nat) (dead : Nat → Bool) (t1 t2 : Int) :
    (starHeal b dead t1 t2).length = 6 * (liveList b dead).length + 5 := by
  simp only [starHeal, List.length_append, List.length_cons, List.length_nil, starProgressL_length]; omega

/-- **C06 (explicit healing schedule)** — from EVERY state reachable without restarts, for EVERY set `dead` of consumers that have
fallen silent, at ANY clock reading `t1`: `starHeal b dead t1 (healTimeS st t1)` = `recv 0, send 0 @t1` followed by the progress
schedule of the live consumers at one connection time-out after the later of `t1` and every `t_last` the source remembers
(`6 · #live + 5` events) hands EVERY live consumer a new frame set. -/
theorem C06_net_star_heals_explicit (b : Nat) (hb : 1 ≤ b) (proc : Proc) (hp : ProcNames proc) (hs : SrcAll proc)
    (dead : Nat → Bool) (st : St) (hr : ReachNR (starTopo b) proc st) (t1 t2 : Int) (ht2 : healTimeS st t1 ≤ t2) :
    (∀ i, inC b i → dead i = false → prevOf st.nodes i < prevOf (run (starTopo b) proc st (starHeal b dead t1 t2)).1.nodes i) ∧
    (starHeal b dead t1 t2).length = 6 * (liveList b dead).length + 5 := by
  refine ⟨?_, starHeal_length b dead t1 t2⟩
  intro i hi hdi
  have ⟨g1, g2⟩ := Pair.lastHeard_ge (srcPub st).clients t1
  have hl1 : ∀ e ∈ [Ev.nodeRecv 0, Ev.nodeSend 0 t1], LiveEv dead e := by
    intro e he
    simp only [List.mem_cons, List.mem_nil_iff, or_false] at he
    rcases he with rfl | rfl
    · exact ⟨rfl, fun h => absurd rfl h⟩
    · exact ⟨rfl, fun h => absurd rfl h⟩
  have hfl := flush_run b hb proc hp hs dead (Pair.lastHeard (srcPub st).clients t1) [Ev.nodeRecv 0, Ev.nodeSend 0 t1] st hr hl1
    (by
      intro t ht
      simp only [List.mem_cons, List.mem_nil_iff, or_false] at ht
      rcases ht with h | h
      · cases h
      · cases h; exact g1) g2 (List.Sublist.refl _)
  have hmono := star_prev_run b hb proc hp hs i hi [Ev.nodeRecv 0, Ev.nodeSend 0 t1] st hr (fun e he => (hl1 e he).1)
  unfold starHeal
  rw [run_fst_append]
  generalize (run (starTopo b) proc st [Ev.nodeRecv 0, Ev.nodeSend 0 t1]).1 = s1 at hfl hmono
  have hck : ClockOK dead s1 t2 := by
    intro x hx _
    have h1 := hfl.2.2 x hx
    unfold healTimeS at ht2
    omega
  have := starProgressL_moves b hb proc hp hs dead s1 hfl.1 hfl.2.1 t2 hck i hi hdi
  omega

/-! ## what `recv` returns -/

/-- `prev_id` of consumer `i` moves only when its `recv` returns a frame set, and then to the id returned -/
theorem star_step_ret (b : Nat) (hb : 1 ≤ b) (proc : Proc) (hp : ProcNames proc) (hs : SrcAll proc) (s : St)
    (hr : ReachNR (starTopo b) proc s) (i : Nat) (hi : inC b i) (e : Ev) (hne : isRestart e = false) :
    prevOf (step (starTopo b) proc s e).1.nodes i = prevOf s.nodes i ∨
    (prevOf s.nodes i < prevOf (step (starTopo b) proc s e).1.nodes i ∧
      prevOf (step (starTopo b) proc s e).1.nodes i ∈ retAt i e (step (starTopo b) proc s e).2) := by
  by_cases he : e = .nodeRecv i
  · subst he
    have ⟨_, nd0, hd⟩ := star_inv b hb proc hp hs s hr
    rcases hd.con i hi.1 hi.2 with ⟨C, _, _, hC, _⟩
    show prevOf (stepRecv (starTopo b) proc s i).1.nodes i = _ ∨ (_ < prevOf (stepRecv (starTopo b) proc s i).1.nodes i ∧
      prevOf (stepRecv (starTopo b) proc s i).1.nodes i ∈ retAt i (.nodeRecv i) (stepRecv (starTopo b) proc s i).2)
    cases hpend : C.pending with
    | some p =>
      left
      have hst : (stepRecv (starTopo b) proc s i).1 = s := by
        unfold stepRecv; simp only [hC, hpend, Option.isSome_some, ↓reduceIte]
      rw [hst]
    | none =>
      obtain ⟨rq, C', _, _, hsh, _, _, _, _, _, _, _, _, _, _, _, hcaught, hbehind, hret⟩ :=
        star_recv_shape b proc s nd0 hd i hi.1 hi.2 C hC hpend
      have hi0 : ¬ i = 0 := by have := hi.1; omega
      have hi' : (stepRecv (starTopo b) proc s i).1.nodes[i]? = some C' := by rw [hsh i]; simp [hi0]
      rw [prevOf_some _ _ _ hi', prevOf_some _ _ _ hC]
      by_cases hbh : C.con.prevId + 1 < nd0.pub.minSendId
      · right
        rw [hret, if_pos hbh]
        exact ⟨(hbehind hbh).1, List.mem_singleton.mpr rfl⟩
      · left; exact (hcaught hbh).1
  · exact Or.inl (prevOf_step _ proc s i e hne he)

/-- if `prev_id` of consumer `i` is higher after a schedule, its `recv` has RETURNED a frame set with a higher id on the way -/
theorem star_returned_of_prev (b : Nat) (hb : 1 ≤ b) (proc : Proc) (hp : ProcNames proc) (hs : SrcAll proc) (i : Nat) (hi : inC b i) :
    ∀ (evs : List Ev) (st : St), ReachNR (starTopo b) proc st → (∀ e ∈ evs, isRestart e = false) →
    prevOf st.nodes i < prevOf (run (starTopo b) proc st evs).1.nodes i →
    ∃ id ∈ returnedBy (starTopo b) proc i st evs, prevOf st.nodes i < id := by
  intro evs
  induction evs with
  | nil => intro st _ _ h; exact absurd h (by show ¬ prevOf st.nodes i < prevOf st.nodes i; omega)
  | cons e es ih =>
    intro st hr hne hlt
    have he := hne e (List.mem_cons_self ..)
    rcases star_step_ret b hb proc hp hs st hr i hi e he with h1 | ⟨h1, h2⟩
    · have hlt' : prevOf (step (starTopo b) proc st e).1.nodes i < prevOf (run (starTopo b) proc (step (starTopo b) proc st e).1 es).1.nodes i := by
        rw [h1]; exact hlt
      rcases ih _ (reach_step _ proc st e hr he) (fun x hx => hne x (List.mem_cons_of_mem _ hx)) hlt' with ⟨id, hid, hlt2⟩
      exact ⟨id, List.mem_append_right _ hid, by rw [h1] at hlt2; exact hlt2⟩
    · exact ⟨_, List.mem_append_left _ h2, h1⟩

/-- **C06 (a tee never deadlocks), as observations**: along `starProgress b t` the `recv` of every consumer RETURNS a frame set with an id above
everything it returned before (`returnedBy`: the ids in the observations `Obs.rcvd` of its `recv` events) -/
theorem C06_net_star_progress_returns (b : Nat) (hb : 1 ≤ b) (proc : Proc) (hp : ProcNames proc) (hs : SrcAll proc) (st : St)
    (hr : ReachNR (starTopo b) proc st) (t : Int) (i : Nat) (h1 : 1 ≤ i) (h2 : i ≤ b) :
    ∃ id ∈ returnedBy (starTopo b) proc i st (starProgress b t), prevOf st.nodes i < id := by
  have hmove := (C06_net_star_progress b hb proc hp hs st hr t).1 i h1 h2
  refine star_returned_of_prev b hb proc hp hs i ⟨h1, h2⟩ _ st hr ?_ hmove
  intro e he
  unfold starProgress starProgressL at he
  simp only [List.mem_append, List.mem_cons, List.mem_singleton, List.mem_nil_iff, or_false] at he
  have hall : ∀ x ∈ allRound b noDead t, isRestart x = false := fun x hx => (allRound_live b noDead t x hx).1.1
  rcases he with (rfl | he) | ((rfl | he | rfl) | he)
  all_goals first
    | rfl
    | exact hall e he

/-! ## the boundary: everybody is silent -/

/-- one event of the source while no request is queued: nothing is published, nothing gets queued, a held result stays held -/
theorem silent_step (b : Nat) (hb : 1 ≤ b) (proc : Proc) (hp : ProcNames proc) (hs : SrcAll proc) (s : St)
    (hr : ReachNR (starTopo b) proc s) (hq : srcQ s = []) (e : Ev) (hne : isRestart e = false) (h0 : nodeOf e = 0) :
    msOf (step (starTopo b) proc s e).1.nodes 0 = msOf s.nodes 0 ∧ srcQ (step (starTopo b) proc s e).1 = [] ∧
    (pendingAt s 0 = true → pendingAt (step (starTopo b) proc s e).1 0 = true) := by
  have ⟨ho, nd0, hd⟩ := star_inv b hb proc hp hs s hr
  have hP0 : pendingAt s 0 = nd0.pending.isSome := pendingAt_some s 0 nd0 hd.n0
  cases e with
  | restart i g => exact absurd hne (by simp [isRestart])
  | nodeRecv i =>
    have : i = 0 := h0
    subst this
    show msOf (stepRecv (starTopo b) proc s 0).1.nodes 0 = _ ∧ srcQ (stepRecv (starTopo b) proc s 0).1 = [] ∧
      (_ → pendingAt (stepRecv (starTopo b) proc s 0).1 0 = true)
    cases hpend : nd0.pending with
    | some p =>
      have hst : (stepRecv (starTopo b) proc s 0).1 = s := by
        unfold stepRecv; simp only [hd.n0, hpend, Option.isSome_some, ↓reduceIte]
      rw [hst]; exact ⟨rfl, hq, id⟩
    | none =>
      have ⟨hsh, _⟩ := star_srecv_shape b proc s nd0 hd hpend
      have h0' : (stepRecv (starTopo b) proc s 0).1.nodes[0]? = some (processed proc 0 nd0 []) := by rw [hsh 0]; simp
      have hpub : srcPub (stepRecv (starTopo b) proc s 0).1 = srcPub s := by
        rw [srcPub_some _ _ h0', srcPub_some s nd0 hd.n0]; rfl
      refine ⟨?_, ?_, fun _ => ?_⟩
      · rw [msOf_some _ _ _ h0', msOf_some _ _ _ hd.n0]; rfl
      · unfold srcQ; rw [hpub]; exact hq
      · rw [pendingAt_some _ 0 _ h0']; rfl
  | nodeSend i t =>
    have : i = 0 := h0
    subst this
    show msOf (stepSend (starTopo b) s 0 t).1.nodes 0 = _ ∧ srcQ (stepSend (starTopo b) s 0 t).1 = [] ∧
      (_ → pendingAt (stepSend (starTopo b) s 0 t).1 0 = true)
    cases hpend : nd0.pending with
    | none =>
      have hst : (stepSend (starTopo b) s 0 t).1 = s := by unfold stepSend; simp only [hd.n0, hpend]
      rw [hst]; exact ⟨rfl, hq, id⟩
    | some p =>
      have hso := ho.src nd0 hd.n0
      have hsh := star_ssend_shape b hb s nd0 hd t p hpend (hso.dict p hpend)
      rcases hso.pub with ⟨q, hqq⟩
      have hqe : q = [] := by rw [← srcQ_idle s nd0 q hd.n0 hqq]; exact hq
      subst hqe
      have hout := star_send_outcome b s nd0 hd hso t p hpend [] hqq
      have h0' : (stepSend (starTopo b) s 0 t).1.nodes[0]? =
          some (afterSend nd0 p (Send.send0 nd0.pub none (payloadOf s.tbl.length p.res) false [0] t)) := by rw [hsh 0]; simp
      have hpub : srcPub (stepSend (starTopo b) s 0 t).1 = (Send.send0 nd0.pub none (payloadOf s.tbl.length p.res) false [0] t).1 := by
        rw [srcPub_some _ _ h0', afterSend_pub]
      rcases hout.2 with ⟨hc, _⟩ | ⟨_, e1, _, e3, _⟩
      · simp only [List.foldl_nil] at hc; cases hc
      · refine ⟨?_, ?_, fun _ => ?_⟩
        · rw [msOf_some _ _ _ h0', afterSend_pub, e1, msOf_some _ _ _ hd.n0]
        · unfold srcQ; rw [hpub, hout.1.queues]; rfl
        · rw [pendingAt_some _ 0 _ h0', e3]; rfl

/-- **C06 (boundary: ALL consumers are silent)** — if no request is queued at the source and only the source makes events (no
consumer polls any more), the source never publishes again: every `send` times out (`min_send_id` stays), nothing gets queued,
the result it holds stays held (the filter loop keeps retrying `send`), every consumer's `prev_id` stays.  Nobody is left to
publish to: a publish needs a request evaluated in that very call.  (With requests still queued at most one more set is
published: `C04_net_tee_stall_bounded_partial`.) -/
theorem C06_net_star_all_silent_blocks (b : Nat) (hb : 1 ≤ b) (proc : Proc) (hp : ProcNames proc) (hs : SrcAll proc) :
    ∀ (evs : List Ev) (st : St), ReachNR (starTopo b) proc st → srcQ st = [] →
    (∀ e ∈ evs, isRestart e = false ∧ nodeOf e = 0) →
    msOf (run (starTopo b) proc st evs).1.nodes 0 = msOf st.nodes 0 ∧ srcQ (run (starTopo b) proc st evs).1 = [] ∧
    (pendingAt st 0 = true → pendingAt (run (starTopo b) proc st evs).1 0 = true) ∧
    ∀ i, 1 ≤ i → prevOf (run (starTopo b) proc st evs).1.nodes i = prevOf st.nodes i := by
  intro evs
  induction evs with
  | nil => intro st _ hq _; exact ⟨rfl, hq, id, fun _ _ => rfl⟩
  | cons e es ih =>
    intro st hr hq hev
    have ⟨hne, h0⟩ := hev e (List.mem_cons_self ..)
    have ⟨s1, s2, s3⟩ := silent_step b hb proc hp hs st hr hq e hne h0
    have ⟨i1, i2, i3, i4⟩ := ih _ (reach_step _ proc st e hr hne) s2 (fun x hx => hev x (List.mem_cons_of_mem _ hx))
    rw [run_fst_cons]
    refine ⟨by rw [i1, s1], i2, fun h => i3 (s3 h), ?_⟩
    intro i hi
    rw [i4 i hi]
    apply prevOf_step _ proc st i e hne
    intro he
    rw [he] at h0
    simp only [nodeOf] at h0
    omega


/-! ## non-vacuity and negative witnesses (kernel-evaluated) -/

/-- the source publishes `{main: n}`; the consumers are sinks (`process()` returns `None`) -/
def starProc : Proc := fun i n _ => if i = 0 then .now (.dict [("main", n)]) else .now .none

theorem starProc_names : ProcNames starProc := by
  intro i n h d _ hd
  unfold starProc at hd
  by_cases hi : i = 0
  · simp only [hi, ↓reduceIte, Loop.processFrames, Loop.normPlain, dictOf, Option.some.injEq] at hd
    subst hd
    exact ⟨by simp, by intro x hx; simp only [List.mem_singleton] at hx; subst hx; show "main" ≠ ""; decide⟩
  · simp only [hi, ↓reduceIte, Loop.processFrames, Loop.normPlain, dictOf] at hd
    cases hd

theorem starProc_src : SrcAll starProc := by
  intro n h
  simp [starProc, Loop.processFrames, Loop.normPlain, dictOf]

/-- `prev_id` of the consumers `1 … b` -/
def starPrevs (b : Nat) (st : St) : List Int := (List.range b).map fun j => prevOf st.nodes (j + 1)

/-- TEST (progress, `b = 2`, from the initial state): after the 15 events both consumers have been handed frame set 0 -/
example : starPrevs 2 (run (starTopo 2) starProc (init (starTopo 2)) (starProgress 2 1000)).1 = [0, 0] ∧
    returnedBy (starTopo 2) starProc 1 (init (starTopo 2)) (starProgress 2 1000) = [0] ∧
    returnedBy (starTopo 2) starProc 2 (init (starTopo 2)) (starProgress 2 1000) = [0] ∧ (starProgress 2 1000).length = 15 := by
  decide +kernel

/-- the hypotheses of `C06_net_star_progress` are satisfiable -/
example (t : Int) : ∀ i, 1 ≤ i → i ≤ 2 →
    prevOf (init (starTopo 2)).nodes i < prevOf (run (starTopo 2) starProc (init (starTopo 2)) (starProgress 2 t)).1.nodes i :=
  (C06_net_star_progress 2 (by omega) starProc starProc_names starProc_src _ .init t).1

/-- round-robin is fair: 8 rounds of it at any clock readings hand every consumer of a tee of 3 a new set -/
example (ts : List Int) (h : ts.length = 8) : ∀ i, 1 ≤ i → i ≤ 3 →
    prevOf (init (starTopo 3)).nodes i < prevOf (run (starTopo 3) starProc (init (starTopo 3)) (roundRobinN 4 ts)).1.nodes i :=
  C06_net_star_fair_heals 3 (by omega) starProc starProc_names starProc_src _ .init _ (by rw [← h]; exact rounds_roundRobinN 4 ts)

/-- TEST (the bound 8 is not tight): from the initial state round-robin hands everybody the first set in round 3 (requests in round 1,
HELLO and the requests that register in round 2, publish and take in round 3), then one set per round -/
example : (List.range 8).map (fun n => starPrevs 3 (run (starTopo 3) starProc (init (starTopo 3)) (roundRobinN 4 (List.replicate n 1000))).1) =
    [[-1, -1, -1], [-1, -1, -1], [-1, -1, -1], [0, 0, 0], [1, 1, 1], [2, 2, 2], [3, 3, 3], [4, 4, 4]] := by
  decide +kernel

/-- a consumer that never shows up (`b = 3`, consumer 3 silent from the very start): the two others are served -/
example : starPrevs 3 (run (starTopo 3) starProc (init (starTopo 3)) (starProgressL 3 (fun j => j == 3) 1000)).1 = [0, 0, -1] := by
  decide +kernel

/-! ### one consumer goes silent mid-stream (`b = 2`) -/

/-- five round-robin rounds of everybody: both consumers have taken sets 0, 1, 2; both are tracked, both have a request queued -/
def starMidPre : List Ev := roundRobinN 3 [1000, 1010, 1020, 1030, 1040]

def starMid : St := (run (starTopo 2) starProc (init (starTopo 2)) starMidPre).1

theorem starMid_reach : ReachNR (starTopo 2) starProc starMid :=
  reachNR_run _ starProc starMidPre _ .init (rounds_notRestart 3 5 starMidPre (rounds_roundRobinN 3 [1000, 1010, 1020, 1030, 1040]))

/-- consumer 2 is silent from now on -/
def starDeadTwo : Nat → Bool := fun j => j == 2

/-- one round of the live nodes (source and consumer 1) -/
def starLiveRound1 (t : Int) : List Ev := [Ev.nodeRecv 0, .nodeSend 0 t, .nodeRecv 1, .nodeSend 1 t]

/-- `n` such rounds at clock readings `t0, t0 + 10, …` -/
def starLiveRounds1 (t0 : Int) : Nat → List Ev
  | 0 => []
  | n + 1 => starLiveRound1 t0 ++ starLiveRounds1 (t0 + 10) n

/-- TEST: the state at which consumer 2 falls silent, and the clock reading `healTimeS` reads off it -/
example : starPrevs 2 starMid = [2, 2] ∧ (srcPub starMid).clients.map (fun x => (x.1, x.2.tLast, x.2.requested)) =
      [("N1#0.0", 1040, false), ("N2#0.0", 1040, false)] ∧ (srcQ starMid).map (fun r => (r.cid, r.mid)) = [("N1", 2), ("N2", 2)] ∧
    healTimeS starMid 1050 = 6051 := by
  decide +kernel

/-- TEST (healing, explicit schedule): `recv 0, send 0 @1050`, then the live consumer's progress schedule at `healTimeS` = 6051:
consumer 1 is handed sets 3 and 4, the silent consumer 2 stays at 2 -/
example : starPrevs 2 (run (starTopo 2) starProc starMid (starHeal 2 starDeadTwo 1050 (healTimeS starMid 1050))).1 = [4, 2] ∧
    (starHeal 2 starDeadTwo 1050 6051).length = 11 := by
  decide +kernel

/-- the hypotheses of `C06_net_star_heals_explicit` are satisfiable (this very state) -/
example : prevOf starMid.nodes 1 < prevOf (run (starTopo 2) starProc starMid (starHeal 2 starDeadTwo 1050 (healTimeS starMid 1050))).1.nodes 1 :=
  (C06_net_star_heals_explicit 2 (by omega) starProc starProc_names starProc_src starDeadTwo starMid starMid_reach 1050 _ (Int.le_refl _)).1 1
    ⟨by omega, by omega⟩ rfl

/-- TEST (frames flow again): after the flush, 28 rounds of the live nodes at clock readings beyond `healTimeS` hand consumer 1
one set per round -/
example : starPrevs 2 (run (starTopo 2) starProc starMid ([Ev.nodeRecv 0, .nodeSend 0 1050] ++ starLiveRounds1 6051 28)).1 = [30, 2] := by
  decide +kernel

/-- NEGATIVE (the time-out is needed): the clock never passes `t_last + ZMQ_CONN_TIMEOUT` of the silent consumer (60 live rounds at
1050, 1060, …, 1640): the source publishes ONE more set (the request consumer 2 had queued lets it through:
`C04_net_tee_stall_bounded_partial`), then waits for consumer 2 for ever - the live consumer gets nothing more -/
example : starPrevs 2 (run (starTopo 2) starProc starMid (starLiveRounds1 1050 30)).1 = [3, 2] ∧
    starPrevs 2 (run (starTopo 2) starProc starMid (starLiveRounds1 1050 60)).1 = [3, 2] := by
  decide +kernel

/-- NEGATIVE (the flush phase / `NoDeadReq` is needed for more than one set): all clock readings are beyond `healTimeS` of the
start state (7000, 7010, …), but the request the silent consumer had queued is handled at 7000 and REFRESHES its `t_last`: one set
gets through, then the source waits again (until 12000) -/
example : starPrevs 2 (run (starTopo 2) starProc starMid (starLiveRounds1 7000 30)).1 = [3, 2] := by
  decide +kernel

end OF.Net
