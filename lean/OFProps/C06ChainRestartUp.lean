import OFProps.C06ChainRestart
set_option linter.unusedSimpArgs false
/-!
# C06 — 3-node chain with restarts: explicit step equations and the FIRST PHASE of the healing schedule (the recovery proof itself is NOT done)

For a state whose node list is `[n0, n1, n2]` with the shapes of `RShape`: what `recv 0`, `send 0 @t`, `recv 1` do to the three nodes,
written out (`recv0_nodes`, `send0_nodes`, `send0_noop`, `recv1_nodes`, `recv1_noop`): only the acting node changes, plus the request
queue of its upstream sender (`recv`) / the SUB queue of its downstream receiver (`send`).  These are the equations the rounds
`[recv 0, send 0 @t, recv 1]` of `pullU` are analysed with (together with `send0_hello_gen` / `send0_ffwd_gen` / `send0_publish_gen`,
`call0_gen`, `call0_newer_gen` of `C06ChainRestartInv.lean`).
`C06_net_chain3_source_flush`: from every reachable state (restarts anywhere) `flushS (#requests queued at the source) t` empties the
source's request queue, whatever is queued; `flush_all` additionally: what the relay holds is untouched and nobody in the source's
client table was heard after `max t (what the table remembered)` - the precondition of the upstream rounds at `t2`.
NOT proved here: the upstream rounds (relay handed a set), the downstream flush and rounds, hence `C06_net_chain3_recovers`.
-/
namespace OF.Net
open OF
open OF.Pair (PubIdle Idle Stale OthersStale)

/-! ## explicit step equations on the three nodes -/

theorem reqOf_miss (i gen a u : Nat) (outs : List Recv.Out) (h : u ≠ a) : outs.filterMap (reqOf i gen [a] u) = [] := by
  rw [List.filterMap_eq_nil_iff]
  intro o _
  cases o with
  | req j m e n =>
    simp only [reqOf]
    split
    · rename_i hc
      exfalso
      match j, hc with
      | 0, hc => simp at hc; exact h hc.symm
      | k + 1, hc => simp at hc
    · rfl
  | ret _ _ _ => rfl
  | oob _ _ => rfl
  | retNone => rfl
  | dupTopic _ => rfl

theorem recv0_nodes (proc : Proc) (st : St) (n0 n1 n2 : Node) (hn : st.nodes = [n0, n1, n2]) (h0 : N0 n0) :
    (step T3 proc st (.nodeRecv 0)).1.nodes = [if n0.pending.isSome then n0 else processed proc 0 n0 [], n1, n2] := by
  show (stepRecv T3 proc st 0).1.nodes = _
  unfold stepRecv
  simp only [hn, List.getElem?_cons_zero]
  by_cases hp : n0.pending.isSome = true
  · simp only [hp, ↓reduceIte]; exact hn
  · simp only [hp, Bool.false_eq_true, ↓reduceIte, h0.srcs, List.isEmpty_nil, recvSource, hn, List.set_cons_zero]

/-- what `send` of node 0 returns in state `st` -/
def sendRes0 (st : St) (n0 : Node) (p : Pending) (t : Int) : Send.St × List Send.Out :=
  Send.send0 n0.pub n0.sendState (payloadOf st.tbl.length p.res) false [0] t

theorem send0_nodes (proc : Proc) (st : St) (n0 n1 n2 : Node) (p : Pending) (t : Int) (hn : st.nodes = [n0, n1, n2])
    (h0 : N0 n0) (h2 : N2 n2) (hp : n0.pending = some p) :
    (step T3 proc st (.nodeSend 0 t)).1.nodes =
      [afterSend n0 p (sendRes0 st n0 p t),
       { n1 with con := pushWires n1.con [0] 0 ((sendRes0 st n0 p t).2.filterMap (wireOf 0)) }, n2] := by
  show (stepSend T3 st 0 t).1.nodes = _
  unfold sendRes0
  have ⟨b, hb⟩ := h0.main p hp
  rcases h2.con with ⟨s2, hs2⟩
  unfold stepSend
  simp only [hn, List.getElem?_cons_zero, hp, reaches_main _ _ b hb, t3_out0, ↓reduceIte, sendReal, List.set_cons_zero,
    deliverWires, List.mapIdx_cons, List.mapIdx_nil, t3_ups0, t3_ups1, t3_ups2, Nat.zero_add]
  have e0 : ∀ x, (afterSend n0 p x).con = n0.con := by
    intro x; unfold afterSend; split <;> rfl
  have e2 : T3.upsOf (1 + 1) = [1] := t3_ups2
  rw [pushWires_nosrc _ _ _ _ (by rw [e0]; exact h0.srcs), e2, pushWires_miss n2.con s2 1 0 _ hs2.srcs (by omega)]

theorem send0_noop (proc : Proc) (st : St) (n0 n1 n2 : Node) (t : Int) (hn : st.nodes = [n0, n1, n2]) (hp : n0.pending = none) :
    (step T3 proc st (.nodeSend 0 t)).1 = st := by
  show (stepSend T3 st 0 t).1 = _
  unfold stepSend
  simp only [hn, List.getElem?_cons_zero, hp]

theorem recv1_noop (proc : Proc) (st : St) (n0 n1 n2 : Node) (hn : st.nodes = [n0, n1, n2]) (hp : n1.pending.isSome = true) :
    (step T3 proc st (.nodeRecv 1)).1 = st := by
  show (stepRecv T3 proc st 1).1 = _
  unfold stepRecv
  simp only [hn, List.getElem?_cons_succ, List.getElem?_cons_zero, hp, ↓reduceIte]

theorem recv1_nodes (proc : Proc) (st : St) (n0 n1 n2 : Node) (s : Recv.Src) (hn : st.nodes = [n0, n1, n2])
    (hs : Idle n1.con s) (hp : n1.pending = none) :
    (step T3 proc st (.nodeRecv 1)).1.nodes =
      [{ n0 with pub := pushReqs n0.pub ((Recv.call0 n1.con n1.recvState [0]).2.filterMap (reqOf 1 n1.gen [0] 0)) },
       afterRecv proc st.tbl 1 n1 (Recv.call0 n1.con n1.recvState [0]), n2] := by
  show (stepRecv T3 proc st 1).1.nodes = _
  unfold stepRecv
  simp only [hn, List.getElem?_cons_succ, List.getElem?_cons_zero, hp, Option.isSome_none, Bool.false_eq_true, ↓reduceIte,
    isEmpty_single _ s hs.srcs, recvRelay, range_single _ s hs.srcs, List.set_cons_succ, List.set_cons_zero, deliverReqs,
    List.mapIdx_cons, List.mapIdx_nil, t3_ups1, Nat.zero_add]
  rw [reqOf_miss 1 n1.gen 0 1 _ (by omega), reqOf_miss 1 n1.gen 0 (1 + 1) _ (by omega), pushReqs_nil, pushReqs_nil]

/-! ## the first phase: the source's request queue is emptied, whatever is queued -/

theorem afterSend_pub (nd : Node) (p : Pending) (r : Send.St × List Send.Out) : (afterSend nd p r).pub = r.1 := by
  unfold afterSend; split <;> rfl

/-- the source's part of a state: request queue `q`, nobody tracked was heard after `T` -/
structure SrcQ (st : St) (q : List Send.Req) (T : Int) (pend1 : Option Pending) : Prop where
  shape : RShape st
  queue : ∃ n0 n1 n2, st.nodes = [n0, n1, n2] ∧ PubIdle n0.pub q ∧ Stale T n0.pub.clients ∧ n1.pending = pend1

theorem flush_one (proc : Proc) (hf : FwdMain proc) (st : St) (q : List Send.Req) (T tf : Int) (pend1 : Option Pending)
    (h : SrcQ st q T pend1) (ht : tf ≤ T) :
    ∃ q', SrcQ (run T3 proc st [.nodeRecv 0, .nodeSend 0 tf]).1 q' T pend1 ∧ (q' = [] ∨ q'.length < q.length) := by
  rcases h.queue with ⟨n0, n1, n2, hn, hq, hs, hp1⟩
  have hsh2 : RShape (run T3 proc st [.nodeRecv 0, .nodeSend 0 tf]).1 := rshape_run proc hf _ st h.shape
  rcases h.shape with ⟨m0, m1, m2, hm, h0, h1, h2⟩
  have e : [m0, m1, m2] = [n0, n1, n2] := by rw [← hm, hn]
  simp only [List.cons.injEq, and_true] at e
  rcases e with ⟨rfl, rfl, rfl⟩
  have hr1 := recv0_nodes proc st m0 m1 m2 hn h0
  -- the source after its `recv`: it holds a result, its sender is untouched
  obtain ⟨x0, hx0, hx0p, p, hxp, hx0n⟩ : ∃ x0, (step T3 proc st (.nodeRecv 0)).1.nodes = [x0, m1, m2] ∧ x0.pub = m0.pub ∧
      ∃ p, x0.pending = some p ∧ N0 x0 := by
    by_cases hp : m0.pending.isSome = true
    · rw [hr1]; simp only [hp, ↓reduceIte]
      rcases Option.isSome_iff_exists.mp hp with ⟨p, hp'⟩
      exact ⟨m0, rfl, rfl, p, hp', h0⟩
    · rw [hr1]; simp only [hp, Bool.false_eq_true, ↓reduceIte]
      exact ⟨_, rfl, rfl, _, rfl, n0_processed proc hf m0 h0⟩
  have hr2 := send0_nodes proc (step T3 proc st (.nodeRecv 0)).1 x0 m1 m2 p tf hx0 hx0n h2 hxp
  have hk : x0.pub.minSendId ≤ (callKey x0.pub x0.sendState).1 := by rw [hx0n.sstate]; exact Int.le_refl _
  have hq' : PubIdle x0.pub q := by rw [hx0p]; exact hq
  have hs' : Stale T x0.pub.clients := by rw [hx0p]; exact hs
  have ⟨q', hg⟩ := send0_gen x0.pub q x0.sendState ((dictOf p.res).map (relabel (step T3 proc st (.nodeRecv 0)).1.tbl.length)) tf T hq' hk hs' ht
  refine ⟨q', ⟨hsh2, _, _, _, hr2, ?_, ?_, hp1⟩, hg.shorter⟩
  · rw [afterSend_pub]; exact hg.idle
  · rw [afterSend_pub]; exact hg.stale

theorem run_append_fst (proc : Proc) : ∀ (a b : List Ev) (st : St),
    (run T3 proc st (a ++ b)).1 = (run T3 proc (run T3 proc st a).1 b).1 := by
  intro a
  induction a with
  | nil => intro b st; rfl
  | cons e es ih => intro b st; exact ih b _

theorem flushS_succ (n : Nat) (t : Int) : flushS (n + 1) t = [.nodeRecv 0, .nodeSend 0 t] ++ flushS n t := by
  simp [flushS, List.replicate_succ]

theorem flush_all (proc : Proc) (hf : FwdMain proc) (T tf : Int) (ht : tf ≤ T) (pend1 : Option Pending) :
    ∀ (n : Nat) (st : St) (q : List Send.Req), SrcQ st q T pend1 → q.length ≤ n →
      SrcQ (run T3 proc st (flushS n tf)).1 [] T pend1 := by
  intro n
  induction n with
  | zero =>
    intro st q h hl
    have : q = [] := List.length_eq_zero_iff.mp (by omega)
    subst this; exact h
  | succ n ih =>
    intro st q h hl
    have ⟨q', h1, h2⟩ := flush_one proc hf st q T tf pend1 h ht
    rw [flushS_succ, run_append_fst]
    apply ih _ q' h1
    rcases h2 with h2 | h2
    · rw [h2]; simp
    · omega

/-- **C06 (first phase of the healing schedule, 3-node chain with restarts)**: from EVERY reachable state, one
`recv 0, send 0 @t` per request queued at the source's sender empties that queue - whatever is queued (stale requests of dead
relay incarnations, CLOSE, ids ahead or behind) - the invariant holds afterwards, what the relay holds is untouched, and nobody
in the source's client table was heard after the later of `t` and what the table remembered before. -/
theorem C06_net_chain3_source_flush (proc : Proc) (hf : FwdMain proc) (st : St) (hr : Reachable T3 proc st) (t : Int) :
    reqLen (run T3 proc st (flushS (reqLen st 0) t)).1 0 = 0 ∧ RShape (run T3 proc st (flushS (reqLen st 0) t)).1 := by
  have hsh := rshape_reachable proc hf st hr
  rcases hsh with ⟨n0, n1, n2, hn, h0, h1, h2⟩
  rcases h0.pub with ⟨q, hq⟩
  have ⟨a, c⟩ := Pair.lastHeard_ge n0.pub.clients t
  have hlen : reqLen st 0 = q.length := by simp [reqLen, hn, hq.queues]
  have hS : SrcQ st q (Pair.lastHeard n0.pub.clients t) n1.pending :=
    ⟨⟨n0, n1, n2, hn, h0, h1, h2⟩, n0, n1, n2, hn, hq, c, rfl⟩
  have := flush_all proc hf _ t a n1.pending (reqLen st 0) st q hS (by omega)
  have key : ∀ st' : St, SrcQ st' [] (Pair.lastHeard n0.pub.clients t) n1.pending → reqLen st' 0 = 0 := by
    intro st' h'
    rcases h'.queue with ⟨m0, m1, m2, hm, hq', _, _⟩
    simp [reqLen, hm, hq'.queues]
  exact ⟨key _ this, this.shape⟩

end OF.Net
