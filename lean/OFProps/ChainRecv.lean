import OFModel.Zmq.Net
import OFProps.PairRecv
import OFProps.JoinMultiDefs
import OFProps.ChainSend
import OFProps.NetRecv
set_option linter.unusedSimpArgs false
/-!
# Receiver side of a chain edge (helper lemmas for `OFProps/C03Net.lean`)

A consumer with ONE synchronised all-topics source (the shape `Pair.Idle` of `PairRecv.lean`) whose SUB queue holds what a chain
publisher put on the wire: `ChanQ p prev q bs` — `q` is, in order, *skippable* messages (HELLO, or a message of an id `≤ prev`:
the heartbeat left over from the block returned last) and COMPLETE blocks `blockWires p k ts` (one message per visible topic of the
dict `ts` in dict order, then the heartbeat; every message carries id `k` and the topic list of `ts`) with strictly increasing
ids `k > prev`; `bs` lists the blocks.  Blocks may have ANY topic lists (distinct non-empty names), different from block to block.

`call0_chain`: one `recv(state, timeout=0)` with `state ≤ prev_id + 1` (what `MQ` passes, by the network invariant)
* no block queued: empties the queue, pushes ONE request for `prev_id`, times out, `prev_id` unchanged;
* first block `(k, ts)`: returns exactly `visData k ts` — the visible topics of `ts` in dict order, each with the payload it was
  published with — under id `k`; `prev_id = k`; what follows the block stays queued (`ChanQ p k q' bs'`); requests name `k`.
Nothing is lost, nothing is taken from a later block, no call ever ends with a partly assembled block.
-/
namespace OF.Chain
open OF OF.Recv
open OF.Pair (Busy Idle Done SrcShape ConStatic KeysNodup)
open OF.Net (blockWires helloW visible)

abbrev Blk := Int × List (String × Nat)

/-- a dict as `process_frames` hands it to `MQ.send`: distinct, non-empty topic names -/
def BlkOK (ts : List (String × Nat)) : Prop := (ts.map (·.1)).Nodup ∧ ∀ x ∈ ts, x.1 ≠ ""

/-- a message the receiver drops without any effect on its buffer: HELLO, or an id at or below `prev` -/
def Skip (prev : Int) (w : Wire) : Prop :=
  w.bal = 0 ∧ (w.mid = OF.Facts.MSG_ID_HELLO ∨ (OF.Facts.MSG_ID_SPECIAL < w.mid ∧ w.mid ≤ prev))

/-- the SUB queue of a chain consumer: skippable messages and complete blocks with increasing ids above `prev` -/
inductive ChanQ (p : Nat) : Int → List Wire → List Blk → Prop
  | nil (prev : Int) : ChanQ p prev [] []
  | skip {prev : Int} {w : Wire} {q : List Wire} {bs : List Blk} : Skip prev w → ChanQ p prev q bs → ChanQ p prev (w :: q) bs
  | blk {prev k : Int} {ts : List (String × Nat)} {q : List Wire} {bs : List Blk} :
      prev < k → BlkOK ts → ChanQ p k q bs → ChanQ p prev (blockWires p k ts ++ q) ((k, ts) :: bs)

/-- the frame a receiver builds for topic `x.1` of block `k` -/
def mkMsg (k : Int) (x : String × Nat) : Msg := { mid := k, topic := x.1, body := x.2, src := 0 }

/-- what `recv` returns for block `(k, ts)`: the visible topics in dict order -/
def visData (k : Int) (ts : List (String × Nat)) : List (Topic × Msg) :=
  (ts.filter fun x => visible x.1).map fun x => (x.1, mkMsg k x)

/-! ## one take of a skippable message -/

theorem set0_single (s s' : Src) : [s].set 0 s' = [s'] := rfl

theorem onTake_skip (c : Recv.St) (s : Src) (w : Wire) (rest : List Wire) (h : Busy c s) (hq : s.queue = w :: rest)
    (hw : Skip (c.minRecvId - 1) w) :
    onTake c 0 = ({ c with srcs := [{ s with queue := rest, conn := true }] }, [], false) := by
  have hs0 : c.srcs[0]? = some s := by rw [h.srcs]; rfl
  rcases hw with ⟨hb, hm⟩
  unfold onTake
  simp only [hs0, hq, h.shape.eph, ↓reduceIte, hb, ne_eq, not_true_eq_false]
  rcases hm with hm | ⟨h1, h2⟩
  · have hsp : w.mid ≤ OF.Facts.MSG_ID_SPECIAL := by rw [hm]; decide
    simp only [hsp, ↓reduceIte]
    unfold takeSpecial
    have e1 : ¬ w.mid = OF.Facts.MSG_ID_OOB := by rw [hm]; decide
    have e2 : ¬ w.mid = OF.Facts.MSG_ID_CLOSE := by rw [hm]; decide
    simp only [e1, e2, ↓reduceIte, h.srcs, set0_single]
  · have hsp : ¬ w.mid ≤ OF.Facts.MSG_ID_SPECIAL := by omega
    simp only [hsp, ↓reduceIte]
    unfold takeSync processMsg
    have hlt : w.mid < c.minRecvId := by omega
    simp only [hlt, ↓reduceIte, h.srcs, set0_single]

/-! ## one take of a message that is not older than expected (single source) -/

theorem resetOthers_single (s : Src) : resetOthers [s] 0 = [s] := by
  apply List.ext_getElem?
  intro j
  rw [resetOthers_get]
  cases j with
  | zero => simp
  | succ j => simp

/-- `onTake_sync` of `JoinMultiDefs.lean` with outputs, for the single source of a chain consumer -/
theorem onTake_fresh (c : Recv.St) (s : Src) (w : Wire) (rest : List Wire) (h : Busy c s) (hq : s.queue = w :: rest)
    (hid : 0 ≤ w.mid) (hnew : c.minRecvId ≤ w.mid) (hb : w.bal = 0) :
    onTake c 0 =
      ({ c with srcs := [storeRecvd { s with queue := rest, conn := true }
            (processMsg { s with queue := rest, conn := true } (takenMsg s 0 w) w.topics c.minRecvId).2 w.topics],
                minRecvId := w.mid }, [], false) := by
  have hs0 : c.srcs[0]? = some s := by rw [h.srcs]; rfl
  have hsp : ¬ w.mid ≤ OF.Facts.MSG_ID_SPECIAL := by unfold OF.Facts.MSG_ID_SPECIAL; omega
  have hbal := h.static.balance
  have heph := h.shape.eph
  rcases s with ⟨eph, subAll, star, subs, recvd, minId, conn, reg, queue⟩
  simp only at heph hq
  subst heph hq
  unfold onTake
  rw [hs0]
  simp only [↓reduceIte, hb, ne_eq, not_true_eq_false, hsp]
  unfold takeSync
  have hfst := processMsg_fst { eph := 0, subAll, star, subs, recvd, minId, conn := true, reg, queue := rest }
    (takenMsg { eph := 0, subAll, star, subs, recvd, minId, conn, reg, queue := w :: rest } 0 w) w.topics c.minRecvId hnew
  unfold takenMsg at hfst ⊢
  simp only at hfst ⊢
  generalize hpm : processMsg { eph := 0, subAll, star, subs, recvd, minId, conn := true, reg, queue := rest }
    { mid := w.mid, topic := effTopic subAll subs (decodeTopic w.frame0), body := w.body, src := 0 } w.topics c.minRecvId = pm at hfst ⊢
  rcases pm with ⟨res, r⟩
  simp only at hfst
  subst hfst
  by_cases hlt : c.minRecvId < w.mid
  · simp only [hlt, ↓reduceIte]
    unfold syncApply
    simp [hbal, h.srcs, resetOthers_single]
  · simp only [hlt, ↓reduceIte]
    unfold syncApply
    simp [hbal, h.srcs]

/-! ## assembling one block -/

def vis (ts : List (String × Nat)) : List (String × Nat) := ts.filter fun x => visible x.1

/-- the wire message of topic `x` of block `(k, ts)` -/
def topicW (p : Nat) (k : Int) (ts : List (String × Nat)) (x : String × Nat) : Wire :=
  { frame0 := Send.frame0 x.1, sid := Net.cidOf p, mid := k, topics := ts.map (·.1), bal := 0, body := x.2 }

def hbW (p : Nat) (k : Int) (ts : List (String × Nat)) : Wire :=
  { frame0 := "//", sid := Net.cidOf p, mid := k, topics := ts.map (·.1), bal := 0, body := 0 }

theorem blockWires_eq (p : Nat) (k : Int) (ts : List (String × Nat)) :
    blockWires p k ts = (vis ts).map (topicW p k ts) ++ [hbW p k ts] := rfl

/-- the `PubSpec` of `JoinMultiDefs.lean` for ONE block: all-topics subscription -/
def specOf (ts : List (String × Nat)) : PubSpec :=
  { ts := ts.map (·.1), ids := [], wires := [], subAll := true, star := false, subs := [] }

theorem specOf_ok (ts : List (String × Nat)) (h : BlkOK ts) : PubOK (specOf ts) := by
  refine ⟨?_, h.1, (by intro hc; cases hc), List.Pairwise.nil, (by intro k hk; cases hk)⟩
  intro t ht
  simp only [specOf, List.mem_map] at ht
  rcases ht with ⟨x, hx, rfl⟩
  exact h.2 x hx

theorem specOf_keys (ts : List (String × Nat)) : (specOf ts).keys = (vis ts).map (·.1) := by
  simp only [PubSpec.keys, specOf, ↓reduceIte, Bool.false_or, vis, visible, List.filter_map]
  rfl

theorem mplain (ts : List (String × Nat)) (s : Src) (h : SrcShape s) : MPlain (specOf ts) s :=
  ⟨h.eph, h.subAll, h.star, h.subs⟩

/-- what has arrived: the frames of the topics in `done` -/
def asg (k : Int) (done : List (String × Nat)) (t : Topic) : Option Msg :=
  (done.find? fun x => x.1 == t).map (mkMsg k)

theorem asg_snoc (k : Int) (done : List (String × Nat)) (x : String × Nat) (hx : x.1 ∉ done.map (·.1)) (t : Topic) :
    asg k (done ++ [x]) t = if t = x.1 then some (mkMsg k x) else asg k done t := by
  unfold asg
  rw [List.find?_append]
  cases hf : done.find? (fun y => y.1 == t) with
  | some y =>
    have hy := List.find?_some hf
    have hmem := List.mem_of_find?_eq_some hf
    simp only [beq_iff_eq] at hy
    have : t ≠ x.1 := by
      intro e; apply hx; rw [← e, ← hy]; exact List.mem_map_of_mem hmem
    simp [this]
  | none =>
    by_cases e : t = x.1
    · simp [e]
    · have : ¬ x.1 = t := fun h => e h.symm
      simp [e, this]

theorem asg_mem (k : Int) : ∀ (l : List (String × Nat)) (x : String × Nat), (l.map (·.1)).Nodup → x ∈ l →
    asg k l x.1 = some (mkMsg k x) := by
  intro l
  induction l with
  | nil => intro x _ hx; cases hx
  | cons y l ih =>
    intro x hn hx
    rw [List.map_cons, List.nodup_cons] at hn
    unfold asg
    rcases List.mem_cons.mp hx with rfl | hx
    · simp
    · have hne : ¬ y.1 = x.1 := by
        intro e; apply hn.1; rw [e]; exact List.mem_map_of_mem hx
      have hb : (y.1 == x.1) = false := by simpa using hne
      simp only [List.find?_cons, hb]
      exact ih x hn.2 hx

/-- the frame built from the wire message of a visible topic -/
theorem takenMsg_topicW (p : Nat) (k : Int) (ts : List (String × Nat)) (x : String × Nat) (s : Src) (h : SrcShape s)
    (hv : visible x.1 = true) : takenMsg s 0 (topicW p k ts x) = mkMsg k x := by
  have hh : x.1.startsWith "_" = false := by simpa [visible] using hv
  unfold takenMsg topicW mkMsg
  simp only [Net.decode_frame0 x.1 hh]
  rw [effTopic_keep _ _ _ (Or.inl h.subAll)]

theorem takenMsg_hbW (p : Nat) (k : Int) (ts : List (String × Nat)) (s : Src) :
    (takenMsg s 0 (hbW p k ts)).topic = "" ∧ (takenMsg s 0 (hbW p k ts)).mid = k := by
  have hdec : decodeTopic "//" = "" := by decide
  unfold takenMsg hbW
  simp only [hdec, effTopic_empty]
  exact ⟨trivial, trivial⟩

/-- the consumer inside a call, assembling block `(k, ts)`: the topics in `done` have arrived -/
structure Asm (c : Recv.St) (s : Src) (k : Int) (ts done : List (String × Nat)) : Prop where
  srcs : c.srcs = [s]
  shape : SrcShape s
  static : ConStatic c
  inCall : c.inCall = true
  exp : c.minRecvId = k
  prev : -1 ≤ c.prevId
  mono : c.prevId + 1 ≤ c.minRecvId
  recvd : s.recvd = some (((vis ts).map (·.1)).map fun t => (t, asg k done t))
  reg : s.reg = !gotAll s
  conn : s.conn = true

theorem vis_nodup (ts : List (String × Nat)) (h : BlkOK ts) : ((vis ts).map (·.1)).Nodup := by
  have : (vis ts).map (·.1) = (ts.map (·.1)).filter visible := by
    simp only [vis, List.filter_map]; rfl
  rw [this]; exact h.1.filter _

theorem asg_none (k : Int) (done : List (String × Nat)) (t : Topic) (h : t ∉ done.map (·.1)) : asg k done t = none := by
  unfold asg
  cases hf : done.find? (fun y => y.1 == t) with
  | none => rfl
  | some y =>
    exfalso
    have hy := List.find?_some hf
    simp only [beq_iff_eq] at hy
    exact h (hy ▸ List.mem_map_of_mem (List.mem_of_find?_eq_some hf))

/-- the set is complete exactly when nothing is left to come -/
theorem asm_gotAll (c : Recv.St) (s : Src) (k : Int) (ts done todo : List (String × Nat)) (h : Asm c s k ts done)
    (hb : BlkOK ts) (hv : vis ts = done ++ todo) : gotAll s = todo.isEmpty := by
  have hn := vis_nodup ts hb
  rw [hv, List.map_append, List.nodup_append] at hn
  unfold gotAll
  rw [h.recvd]
  simp only [List.all_map, Function.comp_def]
  cases todo with
  | nil =>
    simp only [List.isEmpty_nil, List.all_eq_true]
    intro x hx
    rw [hv, List.append_nil] at hx
    rw [asg_mem k done x hn.1 hx]; rfl
  | cons x todo =>
    simp only [List.isEmpty_cons]
    rw [Bool.eq_false_iff]
    intro hall
    rw [List.all_eq_true] at hall
    have hx : x ∈ vis ts := by rw [hv]; simp
    have := hall x hx
    have hnot : x.1 ∉ done.map (·.1) := by
      intro hc
      exact hn.2.2 x.1 hc x.1 (by simp) rfl
    rw [asg_none k done x.1 hnot] at this
    cases this

theorem asm_busy (c : Recv.St) (s : Src) (k : Int) (ts done todo : List (String × Nat)) (h : Asm c s k ts done)
    (hb : BlkOK ts) (hv : vis ts = done ++ todo) (hne : todo ≠ []) : Busy c s := by
  have hg : gotAll s = false := by
    rw [asm_gotAll c s k ts done todo h hb hv]
    cases todo with
    | nil => exact absurd rfl hne
    | cons x t => rfl
  refine ⟨h.srcs, h.shape, h.static, by rw [h.reg, hg]; rfl, hg, ?_, h.inCall, h.prev, h.mono⟩
  intro l hl
  rw [h.recvd] at hl
  cases hl
  rw [List.map_map]
  have : ((fun x : Topic × Option Msg => x.1) ∘ fun t => (t, asg k done t)) = id := by funext t; rfl
  rw [this, List.map_id]
  exact vis_nodup ts hb

/-- a further topic message of the block arrives -/
theorem asm_next (p : Nat) (c : Recv.St) (s : Src) (k : Int) (ts done todo : List (String × Nat)) (x : String × Nat)
    (rest : List Wire) (h : Asm c s k ts done) (hb : BlkOK ts) (hv : vis ts = done ++ x :: todo)
    (hq : s.queue = topicW p k ts x :: rest) :
    ∃ s1, onTake c 0 = ({ c with srcs := [s1], minRecvId := k }, [], false) ∧
      Asm { c with srcs := [s1], minRecvId := k } s1 k ts (done ++ [x]) ∧ s1.queue = rest := by
  have hbusy := asm_busy c s k ts done (x :: todo) h hb hv (by simp)
  have hk0 : 0 ≤ k := by have := h.mono; have := h.prev; rw [h.exp] at *; omega
  have hxv : x ∈ vis ts := by rw [hv]; simp
  have hvis : visible x.1 = true := (List.mem_filter.mp hxv).2
  have hn := vis_nodup ts hb
  have hxd : x.1 ∉ done.map (·.1) := by
    rw [hv, List.map_append, List.nodup_append] at hn
    intro hc; exact hn.2.2 x.1 hc x.1 (by simp) rfl
  have hfresh := onTake_fresh c s (topicW p k ts x) rest hbusy hq hk0 (by rw [h.exp]; exact Int.le_refl _) rfl
  rw [takenMsg_topicW p k ts x s h.shape hvis] at hfresh
  have hsh : SrcShape { s with queue := rest, conn := true } := ⟨h.shape.eph, h.shape.subAll, h.shape.star, h.shape.subs⟩
  have hspec := Pair.storeRecvd_spec { s with queue := rest, conn := true }
    (processMsg { s with queue := rest, conn := true } (mkMsg k x) (topicW p k ts x).topics c.minRecvId).2
    (topicW p k ts x).topics h.shape.subAll hbusy.reg
  have hnext := next_recvd (specOf ts) (specOf_ok ts hb) { s with queue := rest, conn := true } (mplain ts _ hsh)
    (asg k done) (by rw [specOf_keys]; exact h.recvd) (mkMsg k x) c.minRecvId (by rw [h.exp]; rfl)
    (Or.inr (by rw [specOf_keys]; exact List.mem_map_of_mem hxv))
  refine ⟨_, hfresh, ?_, hspec.2.2.1⟩
  refine ⟨rfl, ⟨hspec.2.2.2.2.1.trans h.shape.eph, hspec.2.2.2.2.2.1.trans h.shape.subAll, hspec.2.2.2.2.2.2.1.trans h.shape.star,
    hspec.2.2.2.2.2.2.2.trans h.shape.subs⟩, ⟨h.static.dead, h.static.balance, h.static.lowLat⟩, h.inCall, rfl, h.prev,
    by have := h.mono; rw [h.exp] at this; exact this, ?_, hspec.2.1, hspec.2.2.2.1⟩
  rw [storeRecvd_recvd]
  refine Eq.trans hnext ?_
  rw [specOf_keys]
  congr 1
  apply List.map_congr_left
  intro t _
  rw [asg_snoc k done x hxd t]
  rfl

theorem recvdNew_all (s : Src) (h : s.subAll = true) : recvdNew s = none := by
  unfold recvdNew; simp [h]

/-- the first message of a block arrives at an idle source (nothing buffered): a topic message … -/
theorem asm_first (p : Nat) (c : Recv.St) (s : Src) (k : Int) (ts todo : List (String × Nat)) (x : String × Nat)
    (rest : List Wire) (h : Busy c s) (hr : s.recvd = none) (hk : c.minRecvId ≤ k) (hb : BlkOK ts) (hv : vis ts = x :: todo)
    (hq : s.queue = topicW p k ts x :: rest) :
    ∃ s1, onTake c 0 = ({ c with srcs := [s1], minRecvId := k }, [], false) ∧
      Asm { c with srcs := [s1], minRecvId := k } s1 k ts [x] ∧ s1.queue = rest := by
  have hk0 : 0 ≤ k := by have := h.mono; have := h.prev; omega
  have hxv : x ∈ vis ts := by rw [hv]; simp
  have hvis : visible x.1 = true := (List.mem_filter.mp hxv).2
  have hfresh := onTake_fresh c s (topicW p k ts x) rest h hq hk0 hk rfl
  rw [takenMsg_topicW p k ts x s h.shape hvis] at hfresh
  have hsh : SrcShape { s with queue := rest, conn := true } := ⟨h.shape.eph, h.shape.subAll, h.shape.star, h.shape.subs⟩
  have hspec := Pair.storeRecvd_spec { s with queue := rest, conn := true }
    (processMsg { s with queue := rest, conn := true } (mkMsg k x) (topicW p k ts x).topics c.minRecvId).2
    (topicW p k ts x).topics h.shape.subAll h.reg
  have hfirst := first_recvd (specOf ts) (specOf_ok ts hb) { s with queue := rest, conn := true } (mplain ts _ hsh)
    (by rw [recvdNew_all _ hsh.subAll]; exact hr) (mkMsg k x) c.minRecvId hk
    (Or.inr (by rw [specOf_keys]; exact List.mem_map_of_mem hxv))
  refine ⟨_, hfresh, ?_, hspec.2.2.1⟩
  refine ⟨rfl, ⟨hspec.2.2.2.2.1.trans h.shape.eph, hspec.2.2.2.2.2.1.trans h.shape.subAll, hspec.2.2.2.2.2.2.1.trans h.shape.star,
    hspec.2.2.2.2.2.2.2.trans h.shape.subs⟩, ⟨h.static.dead, h.static.balance, h.static.lowLat⟩, h.inCall, rfl, h.prev,
    by have := h.mono; simp only; omega, ?_, hspec.2.1, hspec.2.2.2.1⟩
  rw [storeRecvd_recvd]
  refine Eq.trans hfirst ?_
  rw [specOf_keys]
  congr 1
  apply List.map_congr_left
  intro t _
  have := asg_snoc k [] x (by simp) t
  simp only [List.nil_append] at this
  rw [this]
  rfl

/-- … or, for a block without visible topics, its heartbeat: the (empty) set is complete at once -/
theorem asm_first_hb (p : Nat) (c : Recv.St) (s : Src) (k : Int) (ts : List (String × Nat))
    (rest : List Wire) (h : Busy c s) (hr : s.recvd = none) (hk : c.minRecvId ≤ k) (hb : BlkOK ts) (hv : vis ts = [])
    (hq : s.queue = hbW p k ts :: rest) :
    ∃ s1, onTake c 0 = ({ c with srcs := [s1], minRecvId := k }, [], false) ∧
      Asm { c with srcs := [s1], minRecvId := k } s1 k ts [] ∧ s1.queue = rest := by
  have hk0 : 0 ≤ k := by have := h.mono; have := h.prev; omega
  have hfresh := onTake_fresh c s (hbW p k ts) rest h hq hk0 hk rfl
  have ⟨ht, hm⟩ := takenMsg_hbW p k ts s
  have hsh : SrcShape { s with queue := rest, conn := true } := ⟨h.shape.eph, h.shape.subAll, h.shape.star, h.shape.subs⟩
  have hspec := Pair.storeRecvd_spec { s with queue := rest, conn := true }
    (processMsg { s with queue := rest, conn := true } (takenMsg s 0 (hbW p k ts)) (hbW p k ts).topics c.minRecvId).2
    (hbW p k ts).topics h.shape.subAll h.reg
  have hfirst := first_recvd (specOf ts) (specOf_ok ts hb) { s with queue := rest, conn := true } (mplain ts _ hsh)
    (by rw [recvdNew_all _ hsh.subAll]; exact hr) (takenMsg s 0 (hbW p k ts)) c.minRecvId (by rw [hm]; exact hk)
    (Or.inl ht)
  refine ⟨_, hfresh, ?_, hspec.2.2.1⟩
  refine ⟨rfl, ⟨hspec.2.2.2.2.1.trans h.shape.eph, hspec.2.2.2.2.2.1.trans h.shape.subAll, hspec.2.2.2.2.2.2.1.trans h.shape.star,
    hspec.2.2.2.2.2.2.2.trans h.shape.subs⟩, ⟨h.static.dead, h.static.balance, h.static.lowLat⟩, h.inCall, rfl, h.prev,
    by have := h.mono; simp only; omega, ?_, hspec.2.1, hspec.2.2.2.1⟩
  rw [storeRecvd_recvd]
  refine Eq.trans hfirst ?_
  rw [specOf_keys, hv]
  rfl

/-! ## `recv_once(0)` over a block, over the channel -/

theorem asm_returnCond (c : Recv.St) (s : Src) (k : Int) (ts done todo : List (String × Nat)) (h : Asm c s k ts done)
    (hb : BlkOK ts) (hv : vis ts = done ++ todo) : returnCond c = todo.isEmpty := by
  rw [Pair.returnCond_single c s h.srcs h.shape.eph h.static.balance h.reg, asm_gotAll c s k ts done todo h hb hv]

theorem recvOnce0_todo (p : Nat) (k : Int) (ts : List (String × Nat)) (hb : BlkOK ts) :
    ∀ (todo : List (String × Nat)) (f : Nat) (c : Recv.St) (s : Src) (done : List (String × Nat)) (rest : List Wire),
      Asm c s k ts done → vis ts = done ++ todo → todo ≠ [] → s.queue = todo.map (topicW p k ts) ++ rest → todo.length ≤ f →
      ∃ s1, recvOnce0 f c [0] = ({ c with srcs := [s1], minRecvId := k }, [], true) ∧
        Asm { c with srcs := [s1], minRecvId := k } s1 k ts (vis ts) ∧ s1.queue = rest := by
  intro todo
  induction todo with
  | nil => intro f c s done rest _ _ hne; exact absurd rfl hne
  | cons x todo ih =>
    intro f c s done rest h hv _ hq hf
    cases f with
    | zero => simp at hf
    | succ f =>
      have hbusy := asm_busy c s k ts done (x :: todo) h hb hv (by simp)
      simp only [List.map_cons, List.cons_append] at hq
      have ⟨s1, e1, a1, q1⟩ := asm_next p c s k ts done todo x _ h hb hv hq
      have hv1 : vis ts = (done ++ [x]) ++ todo := by rw [hv]; simp
      rw [Pair.recvOnce0_cons f c s _ _ hbusy hq, e1]
      simp only
      rw [asm_returnCond _ s1 k ts (done ++ [x]) todo a1 hb hv1]
      cases todo with
      | nil =>
        simp only [List.isEmpty_nil, ↓reduceIte]
        refine ⟨s1, rfl, ?_, by simpa using q1⟩
        rw [hv1, List.append_nil]; exact a1
      | cons y todo =>
        simp only [List.isEmpty_cons, Bool.false_eq_true, ↓reduceIte, List.nil_append]
        have ⟨s2, e2, a2, q2⟩ := ih f _ s1 (done ++ [x]) rest a1 hv1 (by simp) q1 (by simp at hf ⊢; omega)
        rw [e2]
        exact ⟨s2, rfl, a2, q2⟩

theorem recvOnce0_block (p : Nat) (k : Int) (ts : List (String × Nat)) (hb : BlkOK ts) (f : Nat) (c : Recv.St) (s : Src)
    (tail : List Wire) (h : Busy c s) (hr : s.recvd = none) (hk : c.minRecvId ≤ k) (hq : s.queue = blockWires p k ts ++ tail)
    (hf : (vis ts).length + 1 ≤ f) :
    ∃ s1 rest, recvOnce0 f c [0] = ({ c with srcs := [s1], minRecvId := k }, [], true) ∧
      Asm { c with srcs := [s1], minRecvId := k } s1 k ts (vis ts) ∧ s1.queue = rest ∧
      (rest = tail ∨ rest = hbW p k ts :: tail) := by
  rw [blockWires_eq] at hq
  cases f with
  | zero => omega
  | succ f =>
    cases hv : vis ts with
    | nil =>
      rw [hv] at hq
      simp only [List.map_nil, List.nil_append, List.singleton_append] at hq
      have ⟨s1, e1, a1, q1⟩ := asm_first_hb p c s k ts tail h hr hk hb hv hq
      rw [Pair.recvOnce0_cons f c s _ _ h hq, e1]
      simp only
      rw [asm_returnCond _ s1 k ts [] [] a1 hb (by rw [hv]; rfl)]
      simp only [List.isEmpty_nil, ↓reduceIte]
      exact ⟨s1, tail, rfl, a1, q1, Or.inl rfl⟩
    | cons x todo =>
      rw [hv] at hq hf
      simp only [List.map_cons, List.cons_append, List.append_assoc, List.singleton_append] at hq
      have ⟨s1, e1, a1, q1⟩ := asm_first p c s k ts todo x _ h hr hk hb hv hq
      rw [Pair.recvOnce0_cons f c s _ _ h hq, e1]
      simp only
      rw [asm_returnCond _ s1 k ts [x] todo a1 hb (by rw [hv]; rfl)]
      cases todo with
      | nil =>
        simp only [List.isEmpty_nil, ↓reduceIte]
        refine ⟨s1, hbW p k ts :: tail, rfl, a1, by simpa using q1, Or.inr rfl⟩
      | cons y todo =>
        simp only [List.isEmpty_cons, Bool.false_eq_true, ↓reduceIte, List.nil_append]
        have ⟨s2, e2, a2, q2⟩ := recvOnce0_todo p k ts hb (y :: todo) f _ s1 [x] (hbW p k ts :: tail) a1 (by rw [hv]; rfl) (by simp)
          q1 (by simp at hf ⊢; omega)
        rw [e2]
        rw [hv] at a2
        exact ⟨s2, hbW p k ts :: tail, rfl, a2, q2, Or.inr rfl⟩

theorem st_srcs_eta (c : Recv.St) (s : Src) (h : c.srcs = [s]) : c = { c with srcs := [s] } := by
  cases c; simp only at h; subst h; rfl

theorem recvOnce0_chan (p : Nat) {prev : Int} {q : List Wire} {bs : List Blk} (hc : ChanQ p prev q bs) :
    ∀ (f : Nat) (c : Recv.St) (s : Src), Busy c s → s.recvd = none → c.minRecvId = prev + 1 → s.queue = q → q.length < f →
      (bs = [] ∧ ∃ s1, recvOnce0 f c [0] = ({ c with srcs := [s1] }, [], false) ∧ Busy { c with srcs := [s1] } s1 ∧
          s1.recvd = none ∧ s1.queue = [] ∧ (q ≠ [] → s1.conn = true) ∧ (q = [] → s1.conn = s.conn)) ∨
      (∃ k ts bs' s1 q', bs = (k, ts) :: bs' ∧ BlkOK ts ∧ prev < k ∧
          recvOnce0 f c [0] = ({ c with srcs := [s1], minRecvId := k }, [], true) ∧
          Asm { c with srcs := [s1], minRecvId := k } s1 k ts (vis ts) ∧ s1.queue = q' ∧ ChanQ p k q' bs') := by
  induction hc with
  | nil prev =>
    intro f c s h hr _ hq hf
    left
    cases f with
    | zero => simp at hf
    | succ f =>
      refine ⟨rfl, s, ?_, ?_, hr, hq, fun hne => absurd rfl hne, fun _ => rfl⟩
      · rw [Pair.recvOnce0_nil f c s h hq, ← st_srcs_eta c s h.srcs]
      · rw [← st_srcs_eta c s h.srcs]; exact h
  | @skip prev w q bs hw _ ih =>
    intro f c s h hr he hq hf
    cases f with
    | zero => simp at hf
    | succ f =>
      have hskip := onTake_skip c s w q h hq (by rw [he]; simpa using hw)
      have hb1 : Busy { c with srcs := [{ s with queue := q, conn := true }] } { s with queue := q, conn := true } :=
        ⟨rfl, ⟨h.shape.eph, h.shape.subAll, h.shape.star, h.shape.subs⟩, ⟨h.static.dead, h.static.balance, h.static.lowLat⟩,
          h.reg, (by unfold gotAll; simp only [hr]), (by intro l hl; simp only [hr] at hl; cases hl), h.inCall, h.prev, h.mono⟩
      have hrc : returnCond { c with srcs := [{ s with queue := q, conn := true }] } = false := by
        rw [Pair.returnCond_single { c with srcs := [{ s with queue := q, conn := true }] } { s with queue := q, conn := true }
          rfl h.shape.eph h.static.balance (by simp only [h.reg]; unfold gotAll; simp only [hr]; rfl)]
        unfold gotAll; simp only [hr]
      rw [Pair.recvOnce0_cons f c s w q h hq, hskip]
      simp only [hrc, Bool.false_eq_true, ↓reduceIte, List.nil_append]
      rcases ih f _ _ hb1 hr he rfl (by simp at hf; omega) with ⟨e0, s1, e1, b1, r1, q1, c1, c2⟩ | ⟨k, ts, bs', s1, q', e0, hbk, hlt, e1, a1, q1, ch⟩
      · left
        refine ⟨e0, s1, by rw [e1], b1, r1, q1, fun _ => ?_, fun hc => by cases hc⟩
        by_cases hqe : q = []
        · rw [c2 hqe]
        · exact c1 hqe
      · right
        exact ⟨k, ts, bs', s1, q', e0, hbk, hlt, by rw [e1], a1, q1, ch⟩
  | @blk prev k ts q bs hlt hbk hch _ =>
    intro f c s h hr he hq hf
    right
    have hlen : (vis ts).length + 1 ≤ f := by
      rw [blockWires_eq] at hf
      simp only [List.length_append, List.length_map, List.length_cons, List.length_nil] at hf
      omega
    have ⟨s1, rest, e1, a1, q1, hrest⟩ := recvOnce0_block p k ts hbk f c s q h hr (by omega) hq hlen
    refine ⟨k, ts, bs, s1, rest, rfl, hbk, hlt, e1, a1, q1, ?_⟩
    rcases hrest with rfl | rfl
    · exact hch
    · refine ChanQ.skip ⟨rfl, Or.inr ⟨?_, Int.le_refl _⟩⟩ hch
      have := h.mono; have := h.prev
      show OF.Facts.MSG_ID_SPECIAL < k
      unfold OF.Facts.MSG_ID_SPECIAL; omega

/-! ## one whole `recv(state, 0)` of a chain consumer -/

/-- a `state` at or below the receiver's own expectation changes nothing -/
theorem call0_state (c : Recv.St) (state : Option Int) (prio : List Nat) (h : ∀ k, state = some k → k ≤ c.prevId + 1) :
    call0 c state prio = call0 c none prio := by
  have hb : beginId c state = beginId c none := by
    cases state with
    | none => rfl
    | some k => have := h k rfl; simp only [beginId]; omega
  have hs : Recv.step c (.begin state) = Recv.step c (.begin none) := by
    simp only [Recv.step, stepBegin, hb]
  unfold call0
  rw [hs]

theorem filterMap_some_map {α β : Type} (g : α → Option β) (f : α → β) : ∀ (l : List α), (∀ x ∈ l, g x = some (f x)) →
    l.filterMap g = l.map f := by
  intro l
  induction l with
  | nil => intro _; rfl
  | cons a l ih =>
    intro h
    rw [List.filterMap_cons, h a (List.mem_cons_self ..)]
    simp only [List.map_cons]
    rw [ih (fun x hx => h x (List.mem_cons_of_mem _ hx))]

theorem srcFrames_asm (c : Recv.St) (s : Src) (k : Int) (ts : List (String × Nat)) (h : Asm c s k ts (vis ts)) (hb : BlkOK ts) :
    srcFrames s = visData k ts := by
  unfold srcFrames visData
  rw [h.recvd, h.shape.subs]
  simp only [List.map_map, List.filterMap_map]
  apply filterMap_some_map
  intro x hx
  simp only [Function.comp_apply, List.find?_nil, Option.map_none, Option.getD_none]
  rw [asg_mem k (vis ts) x (vis_nodup ts hb) hx]
  rfl

/-- the `if got_all:` block on the completed block `(k, ts)` -/
theorem finish_asm (c : Recv.St) (s : Src) (k : Int) (ts : List (String × Nat)) (h : Asm c s k ts (vis ts)) (hb : BlkOK ts)
    (hbal : c.balanced = 0) :
    finish c = ({ c with prevId := k, srcs := [{ s with recvd := none, reg := true }], inCall := false },
                [.req 0 k 0 false, .ret k 0 (visData k ts)]) := by
  have hall : gotAll s = true := by rw [asm_gotAll c s k ts (vis ts) [] h hb (by simp)]; rfl
  have hkeys : KeysNodup s.recvd := by
    intro l hl
    rw [h.recvd] at hl
    cases hl
    rw [List.map_map]
    have : ((fun x : Topic × Option Msg => x.1) ∘ fun t => (t, asg k (vis ts) t)) = id := by funext t; rfl
    rw [this, List.map_id]
    exact vis_nodup ts hb
  have hasm : assemble (c.srcs.flatMap srcFrames) [] = .inr (srcFrames s) := by
    rw [h.srcs]
    simp only [List.flatMap_cons, List.flatMap_nil, List.append_nil]
    rw [Pair.assemble_ok _ [] (Pair.srcFrames_keys s h.shape.subs hkeys) (by intro _ _ a ha; cases ha)]; rfl
  have hnew : newRecvAll c.srcs = [{ s with recvd := none, reg := true }] := by
    rw [h.srcs]; simp [newRecvAll, recvdNew, h.shape.subAll]
  unfold finish
  simp only [hasm, hnew, h.static.lowLat, hbal, h.exp, srcFrames_asm c s k ts h hb]
  rw [Pair.requests_single c s h.srcs h.shape.eph, h.conn]
  simp

/-- the consumer between two calls: idle, nothing buffered -/
structure Rest (c : Recv.St) (s : Src) : Prop where
  idle : Idle c s
  empty : s.recvd = none

/-- **one `recv(state, timeout=0)` of a chain consumer** whose queue holds `ChanQ p prev q bs`, `state ≤ prev_id + 1` -/
theorem call0_chain (p : Nat) (c : Recv.St) (s : Src) (state : Option Int) (q : List Wire) (bs : List Blk)
    (h : Rest c s) (hq : s.queue = q) (hc : ChanQ p c.prevId q bs) (hst : ∀ k, state = some k → k ≤ c.prevId + 1) :
    (bs = [] ∧ ∃ c1 s1, call0 c state [0] = (c1, [.req 0 c.prevId 0 (!s1.conn), .retNone]) ∧ Rest c1 s1 ∧
        c1.prevId = c.prevId ∧ s1.queue = [] ∧ (s.conn = true → s1.conn = true)) ∨
    (∃ k ts bs' c1 s1 q', bs = (k, ts) :: bs' ∧ BlkOK ts ∧ c.prevId < k ∧
        call0 c state [0] = (c1, [.req 0 k 0 false, .ret k 0 (visData k ts)]) ∧ Rest c1 s1 ∧ c1.prevId = k ∧
        s1.queue = q' ∧ ChanQ p k q' bs' ∧ s1.conn = true) := by
  rw [call0_state c state [0] hst, Pair.call0_unfold c s h.idle]
  have hbusy := Pair.beginSt_busy c s h.idle
  have hlen : q.length < s.queue.length + 1 := by rw [hq]; omega
  rcases recvOnce0_chan p hc (s.queue.length + 1) (Pair.beginSt c) s hbusy h.empty rfl hq hlen with
    ⟨e0, s1, e1, b1, r1, q1, c1, c2⟩ | ⟨k, ts, bs', s1, q', e0, hbk, hlt, e1, a1, q1, ch⟩
  · left
    rw [e1]
    simp only [Bool.false_eq_true, ↓reduceIte, List.nil_append]
    refine ⟨e0, Pair.timeoutSt { Pair.beginSt c with srcs := [s1] }, s1, ?_,
      ⟨⟨rfl, b1.shape, ⟨b1.static.dead, b1.static.balance, b1.static.lowLat⟩, b1.reg, b1.notAll, b1.keys,
      rfl, ?_⟩, r1⟩, ?_, q1, ?_⟩
    · rw [Pair.requests_single _ s1 rfl b1.shape.eph]
      simp [Pair.beginSt, Pair.timeoutSt]
    · simp only [Pair.timeoutSt, Pair.beginSt]; have := h.idle.prev; omega
    · simp only [Pair.timeoutSt, Pair.beginSt]; omega
    · intro hconn
      by_cases hqe : q = []
      · rw [c2 hqe]; exact hconn
      · exact c1 hqe
  · right
    rw [e1]
    simp only [↓reduceIte, List.nil_append]
    rw [finish_asm _ s1 k ts a1 hbk rfl]
    refine ⟨k, ts, bs', _, { s1 with recvd := none, reg := true }, q', e0, hbk, hlt, rfl, ?_, rfl, q1, ch, a1.conn⟩
    refine ⟨⟨rfl, ⟨a1.shape.eph, a1.shape.subAll, a1.shape.star, a1.shape.subs⟩,
      ⟨a1.static.dead, a1.static.balance, a1.static.lowLat⟩, rfl, rfl, (by intro l hl; cases hl), rfl, ?_⟩, rfl⟩
    have := h.idle.prev; simp only; omega

/-! ## the channel grows at its end -/

theorem chanQ_hello (p : Nat) {prev : Int} {q : List Wire} {bs : List Blk} (h : ChanQ p prev q bs) :
    ChanQ p prev (q ++ [helloW p]) bs := by
  induction h with
  | nil prev => exact ChanQ.skip ⟨rfl, Or.inl rfl⟩ (ChanQ.nil prev)
  | skip hw _ ih => exact ChanQ.skip hw ih
  | blk hlt hb _ ih => rw [List.append_assoc]; exact ChanQ.blk hlt hb ih

theorem chanQ_block (p : Nat) (k : Int) (ts : List (String × Nat)) (hb : BlkOK ts) {prev : Int} {q : List Wire} {bs : List Blk}
    (h : ChanQ p prev q bs) (hprev : prev < k) (hbs : ∀ b ∈ bs, b.1 < k) :
    ChanQ p prev (q ++ blockWires p k ts) (bs ++ [(k, ts)]) := by
  induction h with
  | nil prev =>
    have := ChanQ.blk (p := p) hprev hb (ChanQ.nil k)
    simpa using this
  | skip hw _ ih => exact ChanQ.skip hw (ih hprev hbs)
  | @blk prev k' ts' q bs hlt hb' _ ih =>
    rw [List.append_assoc]
    exact ChanQ.blk hlt hb' (ih (hbs (k', ts') (List.mem_cons_self ..)) (fun b hb => hbs b (List.mem_cons_of_mem _ hb)))

/-- ids queued are above `prev` -/
theorem chanQ_ids (p : Nat) {prev : Int} {q : List Wire} {bs : List Blk} (h : ChanQ p prev q bs) : ∀ b ∈ bs, prev < b.1 := by
  induction h with
  | nil prev => intro b hb; cases hb
  | skip _ _ ih => exact ih
  | @blk prev k ts q bs hlt _ _ ih =>
    intro b hb
    rcases List.mem_cons.mp hb with rfl | hb
    · exact hlt
    · have := ih b hb; omega

end OF.Chain
