import OFProps.C01
import OFProps.C02
/-!
# C02 — "unaltered": every delivered frame is a wire message that was delivered for that source

Ghost history `hist j` = the wire messages the network has appended to the SUB queue of source `j` so far.
`Prov`: every queued message and every buffered frame of source `j` stems from `hist j`; a buffered frame is
`msgOf j s w` — id, payload identity and (effective) topic of a delivered message `w`, stored under that topic.
`C02_payload_verbatim`: for every event sequence, every frame of every returned set is such a frame, delivered
under the name the subscription maps its topic to (`C02_name_is_mapped`): the receiver never alters, invents or
re-labels payloads.
-/
namespace OF.Recv

/-- the frame the receiver builds from wire message `w` of source `j` -/
def msgOf (j : Nat) (s : Src) (w : Wire) : Msg :=
  { mid := w.mid, topic := effTopic s.subAll s.subs (decodeTopic w.frame0), body := w.body, src := j }

def FromHist (j : Nat) (s : Src) (hist : List Wire) (l : Recvd) : Prop :=
  ∀ p ∈ l, ∀ m, p.2 = some m → (∃ w ∈ hist, m = msgOf j s w) ∧ p.1 = m.topic

def Prov (st : St) (hist : Nat → List Wire) : Prop :=
  ∀ (j : Nat) (s : Src), st.srcs[j]? = some s →
    (∀ w ∈ s.queue, w ∈ hist j) ∧ (∀ l, s.recvd = some l → FromHist j s (hist j) l)

theorem fromHist_noFrames (j : Nat) (s : Src) (hist : List Wire) (l : Recvd) (h : noFrames l) : FromHist j s hist l := by
  intro p hp m hm; rw [h p hp] at hm; cases hm

theorem fromHist_dset (j : Nat) (s : Src) (hist : List Wire) (d : Recvd) (t : Topic) (v : Option Msg)
    (hd : FromHist j s hist d) (hv : ∀ m, v = some m → (∃ w ∈ hist, m = msgOf j s w) ∧ t = m.topic) :
    FromHist j s hist (dset d t v) := by
  intro p hp m hm
  rcases mem_dset d t v p hp with h | h
  · exact hd p h m hm
  · subst h; exact hv m hm

theorem fromHist_initRecvd (j : Nat) (s s' : Src) (hist : List Wire) (m : Msg) (topics : List Topic)
    (hm : ∃ w ∈ hist, m = msgOf j s w) : FromHist j s hist (initRecvd s' m topics) := by
  unfold initRecvd
  generalize (topics.filter _) = ts
  suffices h : ∀ (d : Recvd), FromHist j s hist d →
      FromHist j s hist (ts.foldl (fun d t => dset d t (if t == m.topic then some m else none)) d) from
    h [] (by intro p hp; cases hp)
  induction ts with
  | nil => intro d hd; simpa using hd
  | cons t ts ih =>
    intro d hd
    simp only [List.foldl_cons]
    apply ih
    apply fromHist_dset _ _ _ _ _ _ hd
    intro m' hm'
    split at hm'
    · rename_i heq
      cases hm'
      exact ⟨hm, beq_iff_eq.mp heq⟩
    · cases hm'

/-- whatever `process_msg` leaves in the buffer stems from the history, given the old buffer did and `m` does -/
theorem processMsg_prov (j : Nat) (s s' : Src) (hist : List Wire) (m : Msg) (topics : List Topic) (k : Int)
    (hs' : s'.recvd = s.recvd) (hnew : recvdNew s' = recvdNew s)
    (hold : ∀ l0, s.recvd = some l0 → FromHist j s hist l0) (hm : ∃ w ∈ hist, m = msgOf j s w) :
    ∀ l, (processMsg s' m topics k).2 = some l → FromHist j s hist l := by
  intro l hl
  unfold processMsg at hl
  split at hl
  · rw [hs'] at hl; exact hold l hl
  · split at hl
    · cases hl; exact fromHist_initRecvd j s s' hist m topics hm
    · rename_i l0 hl0
      rw [hs'] at hl0
      split at hl
      · cases hl
        split
        · exact fromHist_dset _ _ _ _ _ _ (hold l0 hl0) (by intro m' hm'; cases hm'; exact ⟨hm, rfl⟩)
        · exact hold l0 hl0
      · cases hl
        unfold newRecvWith
        rw [hnew]
        split
        · exact fromHist_initRecvd j s s' hist m topics hm
        · rename_i rn hrn
          have hrn' : FromHist j s hist rn := fromHist_noFrames j s hist rn (noFrames_recvdNew s rn hrn)
          split
          · exact fromHist_dset _ _ _ _ _ _ hrn' (by intro m' hm'; cases hm'; exact ⟨hm, rfl⟩)
          · exact hrn'

theorem fromHist_sub (j : Nat) (s : Src) (hist : List Wire) (l l' : Recvd) (h : ∀ p ∈ l', p ∈ l) :
    FromHist j s hist l → FromHist j s hist l' := by
  intro hl p hp m hm; exact hl p (h p hp) m hm

theorem fromHist_congr (j : Nat) (s s' : Src) (hist : List Wire) (l : Recvd) (h1 : s'.subAll = s.subAll) (h2 : s'.subs = s.subs) :
    FromHist j s hist l → FromHist j s' hist l := by
  intro hl p hp m hm
  have := hl p hp m hm
  unfold msgOf at *
  rw [h1, h2]; exact this

end OF.Recv

namespace OF.Recv

/-- per-source part of `Prov` -/
def SrcProv (j : Nat) (s : Src) (hist : List Wire) : Prop :=
  (∀ w ∈ s.queue, w ∈ hist) ∧ (∀ l, s.recvd = some l → FromHist j s hist l)

/-- a source that only lost queue entries, kept its static fields and kept or reset its buffer -/
def SrcStep (s s' : Src) : Prop :=
  (∀ w ∈ s'.queue, w ∈ s.queue) ∧ s'.subAll = s.subAll ∧ s'.subs = s.subs ∧ (s'.recvd = s.recvd ∨ s'.recvd = recvdNew s)

theorem srcProv_step (j : Nat) (s s' : Src) (hist : List Wire) (hs : SrcStep s s') : SrcProv j s hist → SrcProv j s' hist := by
  rintro ⟨h1, h2⟩
  rcases hs with ⟨q, a, b, r⟩
  refine ⟨fun w hw => h1 w (q w hw), ?_⟩
  intro l hl
  rcases r with r | r
  · rw [r] at hl; exact fromHist_congr j s s' hist l a b (h2 l hl)
  · rw [r] at hl; exact fromHist_noFrames j s' hist l (noFrames_recvdNew s l hl)

theorem srcStep_refl (s : Src) : SrcStep s s := ⟨fun _ h => h, rfl, rfl, Or.inl rfl⟩

theorem srcStep_trans (a b c : Src) (h1 : SrcStep a b) (h2 : SrcStep b c) : SrcStep a c := by
  rcases h1 with ⟨q1, a1, b1, r1⟩
  rcases h2 with ⟨q2, a2, b2, r2⟩
  refine ⟨fun w hw => q1 w (q2 w hw), a2.trans a1, b2.trans b1, ?_⟩
  rcases r2 with r2 | r2
  · rcases r1 with r1 | r1
    · left; rw [r2, r1]
    · right; rw [r2, r1]
  · right; rw [r2]; unfold recvdNew; rw [a1, b1]

theorem prov_of_steps (st st' : St) (hist : Nat → List Wire)
    (h : ∀ (j : Nat) (s' : Src), st'.srcs[j]? = some s' → ∃ s, st.srcs[j]? = some s ∧ (SrcStep s s' ∨ SrcProv j s' (hist j))) :
    Prov st hist → Prov st' hist := by
  intro hp j s' hj
  rcases h j s' hj with ⟨s, hs, hstep | hprov⟩
  · exact srcProv_step j s s' (hist j) hstep (hp j s hs)
  · exact hprov

/-- final source list of a synchronised take: index `i` holds the stored result, every other source made a `SrcStep` -/
theorem syncApply_steps (st : St) (i : Nat) (s : Src) (m : Msg) (topics : List Topic) (res : PM) (r : Option Recvd)
    (hlen : i < st.srcs.length) :
    ∀ (j : Nat) (sj : Src), (syncApply st i s m topics res r).1.srcs[j]? = some sj →
      (j = i ∧ SrcStep (storeRecvd s r topics) sj) ∨ (j ≠ i ∧ ∃ sj0, st.srcs[j]? = some sj0 ∧ SrcStep sj0 sj) := by
  intro j sj hj
  unfold syncApply at hj
  simp only at hj
  -- peel the optional lock
  have lockStep : ∀ (l : List Src) (x : Src), (if st.balance ∧ m.topic ≠ "" then lockOthers l i else l)[j]? = some x →
      ∃ y, l[j]? = some y ∧ SrcStep y x := by
    intro l x hx
    split at hx
    · rw [lockOthers_get] at hx
      cases hy : l[j]? with
      | none => rw [hy] at hx; cases hx
      | some y =>
        rw [hy] at hx; simp only [Option.map_some, Option.some.injEq] at hx
        refine ⟨y, rfl, ?_⟩
        subst hx
        split
        · exact ⟨fun _ h => h, rfl, rfl, Or.inl rfl⟩
        · exact srcStep_refl y
    · exact ⟨x, hx, srcStep_refl x⟩
  have resetStep : ∀ (l : List Src) (x : Src), (if res = .newer ∧ ¬ st.balance then resetOthers l i else l)[j]? = some x →
      ∃ y, l[j]? = some y ∧ SrcStep y x := by
    intro l x hx
    split at hx
    · rw [resetOthers_get] at hx
      cases hy : l[j]? with
      | none => rw [hy] at hx; cases hx
      | some y =>
        rw [hy] at hx; simp only [Option.map_some, Option.some.injEq] at hx
        refine ⟨y, rfl, ?_⟩
        subst hx
        split
        · exact ⟨fun _ h => h, rfl, rfl, Or.inr rfl⟩
        · exact srcStep_refl y
    · exact ⟨x, hx, srcStep_refl x⟩
  rcases lockStep _ sj hj with ⟨y, hy, s1⟩
  rcases resetStep _ y hy with ⟨z, hz, s2⟩
  rw [List.getElem?_set] at hz
  by_cases hij : i = j
  · subst hij
    simp only [hlen, ↓reduceIte, Option.some.injEq] at hz
    subst hz
    left; exact ⟨rfl, srcStep_trans _ _ _ s2 s1⟩
  · simp only [hij, ↓reduceIte] at hz
    right; exact ⟨fun e => hij e.symm, z, hz, srcStep_trans _ _ _ s2 s1⟩

theorem storeRecvd_fields (s : Src) (r : Option Recvd) (topics : List Topic) :
    (storeRecvd s r topics).queue = s.queue ∧ (storeRecvd s r topics).subAll = s.subAll ∧ (storeRecvd s r topics).subs = s.subs := by
  unfold storeRecvd; simp only; split <;> exact ⟨rfl, rfl, rfl⟩

/-- the stored outcome of `process_msg` for a message from the history stems from the history -/
theorem stored_prov (j : Nat) (s0 s : Src) (hist : List Wire) (w : Wire) (topics : List Topic) (k : Int)
    (hq : ∀ x ∈ s.queue, x ∈ hist) (hr : s.recvd = s0.recvd) (ha : s.subAll = s0.subAll) (hb : s.subs = s0.subs)
    (hold : ∀ l0, s0.recvd = some l0 → FromHist j s0 hist l0) (hw : w ∈ hist) :
    SrcProv j (storeRecvd s (processMsg s (msgOf j s0 w) topics k).2 topics) hist := by
  generalize hres : (processMsg s (msgOf j s0 w) topics k).2 = res
  have ⟨f1, f2, f3⟩ := storeRecvd_fields s res topics
  refine ⟨by rw [f1]; exact hq, ?_⟩
  intro l hl
  rw [storeRecvd_recvd] at hl
  cases res with
  | none => cases hl
  | some l1 =>
    simp only [Option.map_some, Option.some.injEq] at hl; subst hl
    have hnew : recvdNew s = recvdNew s0 := by unfold recvdNew; rw [ha, hb]
    have := processMsg_prov j s0 s hist (msgOf j s0 w) topics k hr hnew hold ⟨w, hw, rfl⟩ l1 hres
    exact fromHist_congr j s0 _ hist _ (f2.trans ha) (f3.trans hb) (fromHist_sub j s0 hist l1 _ (prune_sub s l1 topics) this)

theorem onTake_prov (st : St) (i : Nat) (hist : Nat → List Wire) (hp : Prov st hist) : Prov (onTake st i).1 hist := by
  unfold onTake
  cases hs : st.srcs[i]? with
  | none => exact hp
  | some s0 =>
    simp only
    cases hq : s0.queue with
    | nil => exact hp
    | cons w q =>
      simp only
      have hlen : i < st.srcs.length := (List.getElem?_eq_some_iff.mp hs).1
      have ⟨hq0, hr0⟩ := hp i s0 hs
      have hw : w ∈ hist i := hq0 w (by rw [hq]; exact List.mem_cons_self ..)
      have hqq : ∀ x ∈ q, x ∈ s0.queue := fun x hx => by rw [hq]; exact List.mem_cons_of_mem _ hx
      generalize hst1 : (if (if s0.eph = 0 then w.bal else 0) ≠ 0 then
          { st with balanced := if s0.eph = 0 then w.bal else 0 } else st) = st1
      have e1 : st1.srcs = st.srcs := by subst hst1; exact (balUpd_props st _ _).1
      have hp1 : Prov st1 hist := by intro j s hj; rw [e1] at hj; exact hp j s hj
      have hs1 : st1.srcs[i]? = some s0 := by rw [e1]; exact hs
      have hlen1 : i < st1.srcs.length := by rw [e1]; exact hlen
      -- replacing source i by a `SrcStep` of it
      have setStep : ∀ (s' : Src) (st' : St), SrcStep s0 s' → st'.srcs = st1.srcs.set i s' → Prov st' hist := by
        intro s' st' hstep hsr
        refine prov_of_steps st1 st' hist ?_ hp1
        intro j sj hj
        rw [hsr, List.getElem?_set] at hj
        by_cases hij : i = j
        · subst hij; simp only [hlen1, ↓reduceIte, Option.some.injEq] at hj; subst hj
          exact ⟨s0, hs1, Or.inl hstep⟩
        · simp only [hij, ↓reduceIte] at hj
          exact ⟨sj, hj, Or.inl (srcStep_refl sj)⟩
      have tailStep : SrcStep s0 { s0 with queue := q, conn := true } := ⟨hqq, rfl, rfl, Or.inl rfl⟩
      split
      · unfold takeSpecial
        split
        · exact setStep _ _ tailStep rfl
        · split
          · exact setStep { s0 with queue := q, conn := false, minId := OF.Facts.MSG_ID_INITIAL } _ ⟨hqq, rfl, rfl, Or.inl rfl⟩ rfl
          · exact setStep _ _ tailStep rfl
      · have hstored : ∀ k, SrcProv i (storeRecvd { s0 with queue := q, conn := true }
            (processMsg { s0 with queue := q, conn := true } (msgOf i s0 w) w.topics k).2 w.topics) (hist i) :=
          fun k => stored_prov i s0 { s0 with queue := q, conn := true } (hist i) w w.topics k
            (fun x hx => hq0 x (hqq x hx)) rfl rfl rfl hr0 hw
        split
        · -- ephemeral
          unfold takeEph
          split
          · exact setStep _ _ tailStep rfl
          · rename_i x res r hno heq
            refine prov_of_steps st1 _ hist ?_ hp1
            intro j sj hj
            simp only [List.getElem?_set] at hj
            by_cases hij : i = j
            · subst hij; simp only [hlen1, ↓reduceIte, Option.some.injEq] at hj; subst hj
              refine ⟨s0, hs1, Or.inr ?_⟩
              have e2 : r = (processMsg { s0 with queue := q, conn := true } (msgOf i s0 w) w.topics s0.minId).2 := by
                show r = (processMsg _ _ _ _).2
                rw [show (msgOf i s0 w) = _ from rfl]
                exact (congrArg Prod.snd heq).symm
              rw [e2]
              have := hstored s0.minId
              exact ⟨this.1, fun l hl => fromHist_congr i _ _ (hist i) l rfl rfl (this.2 l hl)⟩
            · simp only [hij, ↓reduceIte] at hj
              exact ⟨sj, hj, Or.inl (srcStep_refl sj)⟩
        · -- synchronised
          unfold takeSync
          split
          · exact setStep _ _ tailStep rfl
          · rename_i x res r hno heq
            refine prov_of_steps st1 _ hist ?_ hp1
            intro j sj hj
            rcases syncApply_steps st1 i _ _ _ res r hlen1 j sj hj with ⟨hji, hstep⟩ | ⟨_, sj0, hj0, hstep⟩
            · subst hji
              refine ⟨s0, hs1, Or.inr ?_⟩
              have e2 : r = (processMsg { s0 with queue := q, conn := true } (msgOf j s0 w) w.topics st1.minRecvId).2 :=
                (congrArg Prod.snd heq).symm
              have := hstored st1.minRecvId
              rw [← e2] at this
              exact srcProv_step j _ sj (hist j) hstep this
            · exact ⟨sj0, hj0, Or.inl hstep⟩

end OF.Recv

namespace OF.Recv

/-- the history after an event: a `deliver` appends to the history of its source -/
def histStep (hist : Nat → List Wire) : Ev → Nat → List Wire
  | .deliver i w => fun j => if j = i then hist j ++ [w] else hist j
  | _ => hist

theorem prov_mono (st : St) (hist hist' : Nat → List Wire) (h : ∀ j w, w ∈ hist j → w ∈ hist' j) :
    Prov st hist → Prov st hist' := by
  intro hp j s hj
  have ⟨h1, h2⟩ := hp j s hj
  refine ⟨fun w hw => h j w (h1 w hw), ?_⟩
  intro l hl p hpm m hm
  have ⟨⟨w, hw, e⟩, e2⟩ := h2 l hl p hpm m hm
  exact ⟨⟨w, h j w hw, e⟩, e2⟩

/-- **`Prov` is preserved by every event** -/
theorem step_prov (st : St) (e : Ev) (hist : Nat → List Wire) (hp : Prov st hist) :
    Prov (step st e).1 (histStep hist e) := by
  cases e with
  | deliver i w =>
    have hmono : ∀ j x, x ∈ hist j → x ∈ histStep hist (.deliver i w) j := by
      intro j x hx; unfold histStep; simp only; split
      · exact List.mem_append_left _ hx
      · exact hx
    unfold step stepDeliver; simp only
    cases hs : st.srcs[i]? with
    | none => exact prov_mono st hist _ hmono hp
    | some s =>
      simp only
      intro j s' hj
      rw [List.getElem?_set] at hj
      by_cases hij : i = j
      · subst hij
        have hlen : i < st.srcs.length := (List.getElem?_eq_some_iff.mp hs).1
        simp only [hlen, ↓reduceIte, Option.some.injEq] at hj
        subst hj
        have ⟨h1, h2⟩ := hp i s hs
        refine ⟨?_, ?_⟩
        · intro x hx
          simp only [List.mem_append, List.mem_singleton] at hx
          unfold histStep; simp only [↓reduceIte]
          rcases hx with hx | hx
          · exact List.mem_append_left _ (h1 x hx)
          · rw [hx]; simp
        · intro l hl
          exact (prov_mono st hist _ hmono hp i s hs).2 l hl
      · simp only [hij, ↓reduceIte] at hj
        exact prov_mono st hist _ hmono hp j s' hj
  | «begin» s => unfold step stepBegin histStep; simp only; split <;> exact hp
  | take i =>
    unfold step stepTake histStep; simp only
    split
    · exact hp
    · split
      · exact hp
      · split
        · exact onTake_prov st i hist hp
        · exact hp
  | check =>
    unfold step stepCheck histStep; simp only
    split
    · exact hp
    · split
      · unfold finish; simp only
        split
        · exact hp
        · intro j s' hj
          simp only at hj
          rcases newRecvAll_get st.srcs j s' hj with ⟨s0, hs0, hr⟩
          have hq : s'.queue = s0.queue ∧ s'.subAll = s0.subAll ∧ s'.subs = s0.subs := by
            unfold newRecvAll at hj
            rw [List.getElem?_map, hs0] at hj
            simp only [Option.map_some, Option.some.injEq] at hj
            subst hj; exact ⟨rfl, rfl, rfl⟩
          have ⟨h1, _⟩ := hp j s0 hs0
          refine ⟨by rw [hq.1]; exact h1, ?_⟩
          intro l hl
          rw [hr] at hl
          exact fromHist_noFrames j s' (hist j) l (noFrames_recvdNew s0 l hl)
      · exact hp
  | request => unfold step stepRequest histStep; simp only; split <;> exact hp
  | timeout => unfold step stepTimeout histStep; simp only; split <;> exact hp

/-- history along a run -/
def histRun (hist : Nat → List Wire) : St → List Ev → Nat → List Wire
  | _, [] => hist
  | st, e :: es => histRun (histStep hist e) (step st e).1 es

theorem prov_run (evs : List Ev) : ∀ (st : St) (hist : Nat → List Wire), Prov st hist →
    Prov (run st evs).1 (histRun hist st evs) := by
  induction evs with
  | nil => intro st hist h; exact h
  | cons e es ih =>
    intro st hist h
    have : (run st (e :: es)).1 = (run (step st e).1 es).1 := by
      unfold run
      simp only [List.foldl_cons, List.nil_append]
      have gen : ∀ (es : List Ev) (s : St) (o1 o2 : List Out),
          (es.foldl (fun (acc : St × List Out) e => let (s, o) := step acc.1 e; (s, acc.2 ++ o)) (s, o1)).1 =
          (es.foldl (fun (acc : St × List Out) e => let (s, o) := step acc.1 e; (s, acc.2 ++ o)) (s, o2)).1 := by
        intro es
        induction es with
        | nil => intro s o1 o2; rfl
        | cons x xs ihx => intro s o1 o2; simp only [List.foldl_cons]; exact ihx _ _ _
      exact gen es _ _ _
    rw [this]
    exact ih _ _ (step_prov st e hist h)

/-- the name a frame of topic `t` is delivered under: `topic_map.get(t, t)` -/
def mappedName (s : Src) (t : Topic) : Topic := ((s.subs.find? (fun p => p.1 == t)).map (·.2)).getD t

/-- **C02 (payload verbatim, topic mapped as subscribed)**: with `Prov`, every frame of a set returned by `finish`
is `msgOf` of a message delivered to its source — same id, same payload identity — and carries the name the
subscription maps its (effective) topic to -/
theorem C02_payload_verbatim (st : St) (hist : Nat → List Wire) (hp : Prov st hist) :
    ∀ o ∈ (finish st).2, ∀ id bal data, o = .ret id bal data →
      ∀ p ∈ data, ∃ (j : Nat) (s : Src) (w : Wire), st.srcs[j]? = some s ∧ w ∈ hist j ∧ p.2 = msgOf j s w ∧
        p.1 = mappedName s p.2.topic := by
  intro o ho id bal data heq p hpd
  subst heq
  unfold finish at ho
  simp only at ho
  split at ho
  · rw [List.mem_append] at ho
    rcases ho with h | h
    · split at h
      · unfold requests at h
        rw [List.mem_filterMap] at h
        rcases h with ⟨⟨j, s⟩, _, hv⟩
        simp only at hv; split at hv <;> cases hv
      · cases h
    · simp at h
  · rename_i data' hdata
    rw [List.mem_append] at ho
    rcases ho with h | h
    · split at h
      · unfold requests at h
        rw [List.mem_filterMap] at h
        rcases h with ⟨⟨j, s⟩, _, hv⟩
        simp only at hv; split at hv <;> cases hv
      · cases h
    · simp only [List.mem_singleton, Out.ret.injEq] at h
      rcases h with ⟨_, _, rfl⟩
      rcases assemble_sub _ _ _ hdata p hpd with h1 | h1
      · cases h1
      · rw [List.mem_flatMap] at h1
        rcases h1 with ⟨s, hs, hps⟩
        rcases List.mem_iff_getElem?.mp hs with ⟨j, hj⟩
        unfold srcFrames at hps
        split at hps
        · cases hps
        · rename_i l hl
          rw [List.mem_filterMap] at hps
          rcases hps with ⟨⟨t, v⟩, hq, hv⟩
          cases v with
          | none => simp at hv
          | some m =>
            simp only [Option.map_some, Option.some.injEq] at hv
            subst hv
            have ⟨⟨w, hw, e⟩, e2⟩ := (hp j s hj).2 l hl (t, some m) hq m rfl
            simp only at e2
            exact ⟨j, s, w, hj, hw, e, by unfold mappedName; rw [← e2]⟩

/-- a fresh receiver with empty queues and the empty history satisfies `Prov` -/
theorem prov_fresh (srcs : List Src) (balance lowLat : Bool) (h : FreshSrcs srcs) (hq : ∀ s ∈ srcs, s.queue = []) :
    Prov (mkSt srcs balance lowLat) (fun _ => []) := by
  intro j s hj
  simp only [mkSt] at hj
  refine ⟨?_, ?_⟩
  · intro w hw; rw [hq s (List.mem_iff_getElem?.mpr ⟨j, hj⟩)] at hw; cases hw
  · intro l hl; exact fromHist_noFrames j s [] l (h j s hj l hl)

end OF.Recv
