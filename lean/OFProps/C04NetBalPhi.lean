import OFProps.C04NetBalInv
set_option linter.unusedSimpArgs false
/-!
# The potential `[requested] + #queued requests` of one client along ONE `send(…, timeout=0)` call of a balanced sender
(helper lemmas for `OFProps/C04NetBalQueued.lean`)

`phi st fid = flag st fid + queued st fid` (`OFProps/C04Potential.lean`).  `GoodReq fid o j r`: if the queued request `r` (PULL queue `j`)
is `fid`'s, it sits on output `o` and is an ordinary request (not ephemeral, no CLOSE / special id).

* `step_phi` — no event of the sender automaton but the delivery of a request of `fid` raises `phi`;
* `send0_phi` — a BALANCED sender that tracks `fid` as a synchronised client of output `o`, all queued requests of `fid` good, clock reading
  within the connection time-out: after the call it still tracks `fid`, the queued requests are still good, and
  `phi after + [the call put something on output o] ≤ phi before`: **a publish on `o` costs one unit** (the drain of that very call took the
  request and raised the flag, or the flag was up; the publish clears it).
-/
namespace OF.Send
open OF.Net (keyOf)

/-- a queued request of `fid` sits on output `o` and is ordinary -/
def GoodReq (fid : String) (o : Nat) : Nat → Req → Prop :=
  fun j r => keyOf r = fid → j = o ∧ r.eph = 0 ∧ ¬ r.mid ≤ OF.Facts.MSG_ID_SPECIAL

theorem step_phi (st : St) (e : Ev) (fid : String) (hn : notFrom fid e) : phi (step st e).1 fid ≤ phi st fid := by
  have h1 := step_flagSel st e fid (fun _ => true)
  have h2 := step_queued st e fid (fun _ => true) hn
  unfold phi
  rw [← flagSel_all, ← flagSel_all]
  omega

theorem step_queued_le (st : St) (e : Ev) (fid : String) (hn : notFrom fid e) : queued (step st e).1 fid ≤ queued st fid := by
  have h2 := step_queued st e fid (fun _ => true) hn
  omega

theorem flag_of_tracked_asked (st : St) (fid : String) (o : Nat) (lo : Int) (h : TrackOn st.clients fid o lo)
    (hall : ∀ p ∈ st.clients, p.2.eph = 0 → p.2.out = o → p.2.requested = true) : flag st fid = 1 := by
  rcases h with ⟨⟨c, hc⟩, h2⟩
  have hreq : c.requested = true := hall (fid, c) hc (h2 c hc).2.1 (h2 c hc).2.2
  have : flagged st.clients fid = true := by
    unfold flagged
    rw [List.any_eq_true]
    exact ⟨(fid, c), hc, by simp [hreq]⟩
  unfold flag
  rw [this]; rfl

theorem flag_of_holdOn (st : St) (fid : String) (o : Nat) (lo : Int) (h : HoldOn st.clients fid o lo) : flag st fid = 0 := by
  have : flagged st.clients fid = false := by
    unfold flagged
    rw [List.any_eq_false]
    intro p hp hc
    simp only [Bool.and_eq_true, beq_iff_eq] at hc
    have hp' : (fid, p.2) ∈ st.clients := by
      have : p = (fid, p.2) := by rw [← hc.1]
      rw [← this]; exact hp
    have := h.2 p.2 hp'
    rw [this] at hc
    exact absurd hc.2 (by decide)
  unfold flag
  rw [this]; rfl

/-- the four places a `send(…, timeout=0)` call can end -/
theorem send0_final_cases (st : St) (state : Option (Int × Nat)) (pl : Payload) (push : Bool) (prio : List Nat) (t : Int) :
    (send0 st state pl push prio t = ((step st (.begin state pl push)).1, (step st (.begin state pl push)).2)) ∨
    (send0 st state pl push prio t = ((afterDrain st state pl push prio t),
      (step st (.begin state pl push)).2 ++
        (drain (totalQueued (step st (.begin state pl push)).1 + 1) (step st (.begin state pl push)).1 prio t).2)) ∨
    ((send0 st state pl push prio t).1 = (step (afterDrain st state pl push prio t) .trySend).1) ∨
    ((send0 st state pl push prio t).1 = (step (step (afterDrain st state pl push prio t) .trySend).1 .timeout).1) := by
  rw [send0_eq]
  unfold afterDrain
  simp only
  split
  · exact Or.inl rfl
  · split
    · exact Or.inr (Or.inl rfl)
    · split
      · exact Or.inr (Or.inr (Or.inl rfl))
      · exact Or.inr (Or.inr (Or.inr rfl))

theorem any_isPubOn_false (o : Nat) (a : List Out) (ha : ∀ x ∈ a, isPubOn o x = false) : a.any (isPubOn o) = false := by
  rw [List.any_eq_false]
  intro x hx
  rw [ha x hx]; exact Bool.false_ne_true

theorem any_isPubOn_append (o : Nat) (a b : List Out) (ha : ∀ x ∈ a, isPubOn o x = false) (hb : ∀ x ∈ b, isPubOn o x = false) :
    (a ++ b).any (isPubOn o) = false := by
  rw [List.any_eq_false]
  intro x hx
  rcases List.mem_append.mp hx with h | h
  · rw [ha x h]; exact Bool.false_ne_true
  · rw [hb x h]; exact Bool.false_ne_true

/-- **one call of a balanced sender: a publish on the output of a tracked client costs one unit of its potential** -/
theorem send0_phi (st : St) (hP : PInv st) (hb : st.balance = true) (fid : String) (o : Nat) (lo : Int)
    (state : Option (Int × Nat)) (pl : Payload) (push : Bool) (prio : List Nat) (t : Int)
    (hT : TrackOn st.clients fid o lo) (hq : QAll (GoodReq fid o) st) (ht : t - OF.Facts.ZMQ_CONN_TIMEOUT ≤ lo) (hlo : lo ≤ t) :
    TrackOn (send0 st state pl push prio t).1.clients fid o lo ∧ QAll (GoodReq fid o) (send0 st state pl push prio t).1 ∧
    phi (send0 st state pl push prio t).1 fid + (if (send0 st state pl push prio t).2.any (isPubOn o) then 1 else 0) ≤ phi st fid := by
  have hg := send0_gen (fun cl => TrackOn cl fid o lo) (GoodReq fid o) (fun t' => t' - OF.Facts.ZMQ_CONN_TIMEOUT ≤ lo ∧ lo ≤ t')
    (fun s j r t' hT' hc hR => onReq_trackOn s j r t' fid o lo hc hR hT'.1 hT'.2)
    (fun s hc => trackOn_cleared s fid o lo hc) st state pl push prio t ⟨ht, hlo⟩ hT hq
  refine ⟨hg.2.1, hg.2.2, ?_⟩
  -- the potential along the stages of the call
  have p0 : phi (step st (.begin state pl push)).1 fid ≤ phi st fid := step_phi st _ fid trivial
  have p1 : phi (afterDrain st state pl push prio t) fid ≤ phi (step st (.begin state pl push)).1 fid := by
    unfold afterDrain
    exact drain_ind_t (fun s => phi s fid ≤ phi (step st (.begin state pl push)).1 fid) t
      (fun s j hs => Nat.le_trans (step_phi s (.handle j t) fid trivial) hs) _ _ prio (Nat.le_refl _)
  have p2 : phi (step (afterDrain st state pl push prio t) .trySend).1 fid ≤ phi (afterDrain st state pl push prio t) fid :=
    step_phi _ _ fid trivial
  have p3 : phi (step (step (afterDrain st state pl push prio t) .trySend).1 .timeout).1 fid ≤
      phi (step (afterDrain st state pl push prio t) .trySend).1 fid := step_phi _ _ fid trivial
  have q2 : queued (step (afterDrain st state pl push prio t) .trySend).1 fid ≤ queued (afterDrain st state pl push prio t) fid :=
    step_queued_le _ _ fid trivial
  have q3 : queued (step (step (afterDrain st state pl push prio t) .trySend).1 .timeout).1 fid ≤
      queued (step (afterDrain st state pl push prio t) .trySend).1 fid := step_queued_le _ _ fid trivial
  have hnb := nopub_of_ne st (.begin state pl push) o (by intro hh; cases hh)
  have hnd := drain_nopub o (totalQueued (step st (.begin state pl push)).1 + 1) (step st (.begin state pl push)).1 prio t
  cases hany : (send0 st state pl push prio t).2.any (isPubOn o) with
  | false =>
    simp only [Bool.false_eq_true, ↓reduceIte, Nat.add_zero]
    rcases send0_final_cases st state pl push prio t with h | h | h | h
    · rw [h]; exact p0
    · rw [h]; exact Nat.le_trans p1 p0
    · rw [h]; exact Nat.le_trans p2 (Nat.le_trans p1 p0)
    · rw [h]; exact Nat.le_trans p3 (Nat.le_trans p2 (Nat.le_trans p1 p0))
  | true =>
    simp only [↓reduceIte]
    have hany' := hany
    rw [List.any_eq_true] at hany'
    rcases hany' with ⟨x, hx, hpx⟩
    have ⟨hall, hcl⟩ := C07_send0_publish_needs_all_asked st hP hb state pl push prio t o x hx hpx
    have f1 : flag (afterDrain st state pl push prio t) fid = 1 := flag_of_tracked_asked _ fid o lo hg.1.1 hall
    have f2 : flag (send0 st state pl push prio t).1 fid = 0 := by
      apply flag_of_holdOn _ fid o lo
      rw [hcl]
      exact trackOn_clearedOn _ fid o lo hg.1.1
    have hqd : queued (send0 st state pl push prio t).1 fid ≤ queued (afterDrain st state pl push prio t) fid := by
      rcases send0_final_cases st state pl push prio t with h | h | h | h
      · exfalso
        rw [h] at hany
        rw [any_isPubOn_false o _ hnb] at hany
        cases hany
      · exfalso
        rw [h] at hany
        rw [any_isPubOn_append o _ _ hnb hnd] at hany
        cases hany
      · rw [h]; exact q2
      · rw [h]; exact Nat.le_trans q3 q2
    have hd : phi (afterDrain st state pl push prio t) fid ≤ phi st fid := Nat.le_trans p1 p0
    unfold phi at hd ⊢
    omega

end OF.Send
