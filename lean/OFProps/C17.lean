import OFModel.Resize
import Mathlib.Tactic.Linarith
/-!
# C17 — property theorems

Quantifier: every image size `w h ≥ 1`, every bound `W H ≥ 1`, both aspect modes, and **every admissible
rounding** `ρ` of the float idioms (see `OFModel/Resize.lean`); every `h × w` pixel grid for the
permutations; every rational box.  Stated for the patched arithmetic
(`pending_fixes/C17-zero-dim.diff`); the pinned arithmetic has `decide`d negative witnesses at the end.
-/
namespace OF.Resize

/-! ## arithmetic helpers -/

theorem div_spec (m d : Nat) (hd : 0 < d) : d * (m / d) ≤ m ∧ m < d * (m / d) + d := by
  have h1 := Nat.div_add_mod m d
  have h2 := Nat.mod_lt m hd
  omega

/-- `fscale` under-approximates the exact product by less than … -/
theorem fscale_le (ρ : Bool) (a n d : Nat) (hd : 0 < d) : d * fscale ρ a n d ≤ a * n := by
  have ⟨h1, _⟩ := div_spec (a * n) d hd
  unfold fscale
  split
  · have : d * (a * n / d - 1) ≤ d * (a * n / d) := Nat.mul_le_mul_left _ (Nat.sub_le _ _)
    omega
  · exact h1

/-- … at most one pixel (and exactly one only when the exact product is an integer) -/
theorem fscale_ge (ρ : Bool) (a n d : Nat) (hd : 0 < d) : a * n ≤ d * fscale ρ a n d + d := by
  have ⟨h1, h2⟩ := div_spec (a * n) d hd
  unfold fscale
  split
  · rename_i hc
    have hm := Nat.div_add_mod (a * n) d
    rw [hc.2] at hm
    generalize a * n / d = q at *
    cases q with
    | zero => simp only [Nat.zero_sub, Nat.mul_zero] at hm ⊢; omega
    | succ k => simp only [Nat.add_sub_cancel]; rw [Nat.mul_add] at hm; omega
  · omega

theorem fscale_le_floor (ρ : Bool) (a n d : Nat) : fscale ρ a n d ≤ a * n / d := by
  unfold fscale; split
  · exact Nat.sub_le _ _
  · exact Nat.le_refl _

theorem idiv_le (a b c : Nat) (hc : 0 < c) : c * idiv a b c ≤ a * b := (div_spec (a * b) c hc).1
theorem idiv_gt (a b c : Nat) (hc : 0 < c) : a * b < c * idiv a b c + c := (div_spec (a * b) c hc).2

/-- from `d * x ≤ d * y` -/
theorem le_of_mul_le (d x y : Nat) (hd : 0 < d) (h : d * x ≤ d * y) : x ≤ y :=
  Nat.le_of_mul_le_mul_left h hd

theorem minScale_cases (w h W H : Nat) :
    (W * h ≤ H * w ∧ minScale w h W H = (W, w)) ∨ (H * w < W * h ∧ minScale w h W H = (H, h)) := by
  unfold minScale; split
  · left; exact ⟨‹_›, rfl⟩
  · right; exact ⟨by omega, rfl⟩

theorem maxScale_cases (w h W H : Nat) :
    (H * w ≤ W * h ∧ maxScale w h W H = (W, w)) ∨ (W * h < H * w ∧ maxScale w h W H = (H, h)) := by
  unfold maxScale; split
  · left; exact ⟨‹_›, rfl⟩
  · right; exact ⟨by omega, rfl⟩

/-! ## maxsize -/

/-- **C17 (maxsize bounds)**: never larger than `W × H`. -/
theorem C17_maxsize_bounds (ρ : Rnd) (aspect : Bool) (w h W H : Nat) :
    (maxsizeDims ρ aspect w h W H).1 ≤ W ∧ (maxsizeDims ρ aspect w h W H).2 ≤ H := by
  unfold maxsizeDims
  exact ⟨Nat.min_le_right _ _, Nat.min_le_right _ _⟩

example : maxsizeDims {} true 1000 1 10 10 = (10, 1) := by decide
example : maxsizeDims ⟨true, true, false, false⟩ true 49 49 1 1 = (1, 1) := by decide

/-- a scaled side `⌊a·n/d⌋` (or one less) with `n ≤ d` does not exceed `a`, also after the `max 1` clamp -/
theorem clamp_scaled_le (f a n d : Nat) (ha : 1 ≤ a) (hd : 0 < d) (hnd : n ≤ d) (hf : d * f ≤ a * n) :
    max 1 f ≤ a := by
  have : d * f ≤ d * a := by
    calc d * f ≤ a * n := hf
      _ ≤ a * d := Nat.mul_le_mul_left _ hnd
      _ = d * a := Nat.mul_comm _ _
  have := le_of_mul_le d f a hd this
  omega

/-- **C17 (maxsize never enlarges)** -/
theorem C17_maxsize_never_enlarges (ρ : Rnd) (aspect : Bool) (w h W H : Nat) (hw : 1 ≤ w) (hh : 1 ≤ h) :
    (maxsizeDims ρ aspect w h W H).1 ≤ w ∧ (maxsizeDims ρ aspect w h W H).2 ≤ h := by
  unfold maxsizeDims
  split
  · rename_i hc
    split
    · rename_i hh'
      have hW : W ≤ w := by omega
      have := clamp_scaled_le (idiv h W w) h W w hh (by omega) hW (idiv_le h W w (by omega))
      simp only; omega
    · split
      · rename_i hh' hw'
        have hH : H ≤ h := by omega
        have := clamp_scaled_le (idiv w H h) w H h hw (by omega) hH (idiv_le w H h (by omega))
        simp only; omega
      · rename_i hh' hw'
        rcases minScale_cases w h W H with ⟨_, hs⟩ | ⟨_, hs⟩ <;> simp only [hs]
        · have h1 := clamp_scaled_le (fscale ρ.a w W w) w W w hw (by omega) (by omega) (fscale_le _ _ _ _ (by omega))
          have h2 := clamp_scaled_le (fscale ρ.b h W w) h W w hh (by omega) (by omega) (fscale_le _ _ _ _ (by omega))
          omega
        · have h1 := clamp_scaled_le (fscale ρ.a w H h) w H h hw (by omega) (by omega) (fscale_le _ _ _ _ (by omega))
          have h2 := clamp_scaled_le (fscale ρ.b h H h) h H h hh (by omega) (by omega) (fscale_le _ _ _ _ (by omega))
          omega
  · simp only; omega

/-! ## minsize -/

/-- **C17 (minsize bounds)**: never smaller than `W × H`. -/
theorem C17_minsize_bounds (ρ : Rnd) (aspect : Bool) (w h W H : Nat) :
    W ≤ (minsizeDims ρ aspect w h W H).1 ∧ H ≤ (minsizeDims ρ aspect w h W H).2 := by
  unfold minsizeDims
  exact ⟨Nat.le_max_right _ _, Nat.le_max_right _ _⟩

example : minsizeDims {} true 3 2 10 10 = (15, 10) := by decide

/-- a side scaled up by `n / d ≥ 1` is at least as long -/
theorem scaled_up_ge (a n d : Nat) (hd : 0 < d) (hnd : d ≤ n) : a ≤ idiv a n d := by
  unfold idiv
  rw [Nat.le_div_iff_mul_le hd]
  exact Nat.mul_le_mul_left _ hnd

/-- **C17 (minsize never shrinks)** -/
theorem C17_minsize_never_shrinks (ρ : Rnd) (aspect : Bool) (w h W H : Nat) (hw : 1 ≤ w) (hh : 1 ≤ h) :
    w ≤ (minsizeDims ρ aspect w h W H).1 ∧ h ≤ (minsizeDims ρ aspect w h W H).2 := by
  unfold minsizeDims
  split
  · rename_i hc
    split
    · rename_i hh'
      have := scaled_up_ge h W w (by omega) (by omega)
      simp only; omega
    · split
      · rename_i hh' hw'
        have := scaled_up_ge w H h (by omega) (by omega)
        simp only; omega
      · simp only; omega
  · simp only; omega

/-! ## resize -/

/-- **C17 (resize exact)**: `resize WxH` / `resize W+H` hands exactly `(W, H)` to `cv2.resize`. -/
theorem C17_resize_exact (ρ : Rnd) (aspect : Bool) (w h W H : Nat) :
    sizeDims ρ .resize aspect w h W H = (W, H) := rfl

/-- **C17 (video resize inside)**: the video reader's `resize=` result fits the box, for both forms -/
theorem C17_video_resize_inside (aspect : Bool) (w h W H : Nat) (hw : 1 ≤ w) (hh : 1 ≤ h) (hW : 1 ≤ W) (hH : 1 ≤ H) :
    (videoResizeDims aspect w h W H).1 ≤ W ∧ (videoResizeDims aspect w h W H).2 ≤ H := by
  unfold videoResizeDims
  split
  · split
    · simp
    · split
      · rename_i hc
        have h1 := idiv_le h W w (by omega)
        have : w * idiv h W w ≤ w * H := by
          calc w * idiv h W w ≤ h * W := h1
            _ = W * h := Nat.mul_comm _ _
            _ ≤ H * w := hc
            _ = w * H := Nat.mul_comm _ _
        have := le_of_mul_le w _ _ (by omega) this
        simp only; omega
      · rename_i hc
        have h1 := idiv_le w H h (by omega)
        have : h * idiv w H h ≤ h * W := by
          calc h * idiv w H h ≤ w * H := h1
            _ = H * w := Nat.mul_comm _ _
            _ ≤ W * h := by omega
            _ = h * W := Nat.mul_comm _ _
        have := le_of_mul_le h _ _ (by omega) this
        simp only; omega
  · rename_i hc
    have : h = H ∧ w = W := by omega
    simp only; omega

example : videoResizeDims true 100 50 200 50 = (100, 50) := by decide
example : videoResizeDims true 100 50 30 40 = (30, 15) := by decide

/-- **C17 (video resize, non-aspect form)** is exact -/
theorem C17_video_resize_plus_exact (w h W H : Nat) : videoResizeDims false w h W H = (W, H) := by
  unfold videoResizeDims
  split
  · simp
  · rename_i hc
    have : h = H ∧ w = W := by omega
    rw [this.1, this.2]

/-- **C17 (video resize is the largest aspect-preserving size inside the box)**: every size `a × b` with
exactly the image's aspect (`a·h = b·w`) that fits `W × H` is at most the result, in both dimensions;
and the result touches the box in one dimension. -/
theorem C17_video_resize_largest (w h W H : Nat) (hw : 1 ≤ w) (hh : 1 ≤ h) :
    ((videoResizeDims true w h W H).1 = W ∨ (videoResizeDims true w h W H).2 = H) ∧
    ∀ a b, a ≤ W → b ≤ H → a * h = b * w →
      a ≤ (videoResizeDims true w h W H).1 ∧ b ≤ (videoResizeDims true w h W H).2 := by
  unfold videoResizeDims
  split
  · simp only [Bool.true_eq_false, ↓reduceIte]
    split
    · rename_i hc
      refine ⟨Or.inl rfl, ?_⟩
      intro a b ha hb hab
      refine ⟨ha, ?_⟩
      have : b ≤ idiv h W w := by
        unfold idiv
        rw [Nat.le_div_iff_mul_le (by omega)]
        calc b * w = a * h := hab.symm
          _ ≤ W * h := Nat.mul_le_mul_right _ ha
          _ = h * W := Nat.mul_comm _ _
      simp only; omega
    · rename_i hc
      refine ⟨Or.inr rfl, ?_⟩
      intro a b ha hb hab
      refine ⟨?_, hb⟩
      have : a ≤ idiv w H h := by
        unfold idiv
        rw [Nat.le_div_iff_mul_le (by omega)]
        calc a * h = b * w := hab
          _ ≤ H * w := Nat.mul_le_mul_right _ hb
          _ = w * H := Nat.mul_comm _ _
      simp only; omega
  · rename_i hc
    have : h = H ∧ w = W := by omega
    refine ⟨Or.inl this.2, ?_⟩
    intro a b ha hb _
    simp only; omega

/-! ## aspect -/

/-- `a'` is within one pixel of the exact scaled length `a · n / d` -/
def Within1 (a' a n d : Nat) : Prop := d * a' ≤ a * n + d ∧ a * n ≤ d * a' + d

/-- the scale `maxsize WxH` applies: `min(1, W/w, H/h)` -/
def maxsizeScale (w h W H : Nat) : Nat × Nat := if h > H ∨ w > W then minScale w h W H else (1, 1)

/-- the scale `minsize WxH` applies: `max(1, W/w, H/h)` -/
def minsizeScale (w h W H : Nat) : Nat × Nat := if h < H ∨ w < W then maxScale w h W H else (1, 1)

/-- a clamped, bounded scaled side stays within one pixel of the exact value -/
theorem within1_clamped (f a n d B : Nat) (hd : 0 < d) (hB : 1 ≤ B)
    (hle : d * f ≤ a * n) (hge : a * n ≤ d * f + d) (hbound : a * n ≤ d * B) :
    Within1 (min (max 1 f) B) a n d := by
  have hfB : f ≤ B := le_of_mul_le d f B hd (Nat.le_trans hle hbound)
  have hm : min (max 1 f) B = max 1 f := by omega
  rw [hm]
  unfold Within1
  rcases Nat.eq_zero_or_pos f with h0 | hp
  · subst h0
    simp only [Nat.mul_zero, Nat.zero_add] at hge
    have : max 1 0 = 1 := by omega
    rw [this]; omega
  · have : max 1 f = f := by omega
    rw [this]; omega

/-- **C17 (aspect within one pixel, maxsize `x` form)**: both result sides are within one pixel of the
image scaled by the single factor `min(1, W/w, H/h)`, for every admissible rounding. -/
theorem C17_aspect_within_one (ρ : Rnd) (w h W H : Nat) (hw : 1 ≤ w) (hh : 1 ≤ h) (hW : 1 ≤ W) (hH : 1 ≤ H) :
    Within1 (maxsizeDims ρ true w h W H).1 w (maxsizeScale w h W H).1 (maxsizeScale w h W H).2 ∧
    Within1 (maxsizeDims ρ true w h W H).2 h (maxsizeScale w h W H).1 (maxsizeScale w h W H).2 := by
  unfold maxsizeDims maxsizeScale
  by_cases hc : h > H ∨ w > W
  · simp only [hc, and_self, ↓reduceIte]
    rcases minScale_cases w h W H with ⟨hs1, hs⟩ | ⟨hs1, hs⟩
    · -- width limits: scale W / w
      rw [hs]
      have hwW : w > W := by
        rcases hc with hc | hc
        · by_contra hcon
          have : H * w ≤ H * W := Nat.mul_le_mul_left _ (by omega)
          have : W * H < W * h := Nat.mul_lt_mul_of_pos_left hc (by omega)
          have := Nat.mul_comm H W
          omega
        · exact hc
      by_cases hh' : h > H
      · simp only [hh', not_true_eq_false, hwW, ↓reduceIte]
        constructor
        · exact within1_clamped (fscale ρ.a w W w) w W w W (by omega) hW (fscale_le _ _ _ _ (by omega))
            (fscale_ge _ _ _ _ (by omega)) (by nlinarith)
        · exact within1_clamped (fscale ρ.b h W w) h W w H (by omega) hH (fscale_le _ _ _ _ (by omega))
            (fscale_ge _ _ _ _ (by omega)) (by nlinarith)
      · simp only [hh', not_false_eq_true, ↓reduceIte]
        constructor
        · have : min w W = W := by omega
          simp only [this]; unfold Within1; constructor <;> nlinarith
        · exact within1_clamped (idiv h W w) h W w H (by omega) hH (idiv_le _ _ _ (by omega))
            (Nat.le_of_lt (idiv_gt _ _ _ (by omega))) (by nlinarith)
    · -- height limits: scale H / h
      rw [hs]
      have hhH : h > H := by
        rcases hc with hc | hc
        · exact hc
        · by_contra hcon
          have : W * h ≤ W * H := Nat.mul_le_mul_left _ (by omega)
          have : H * W < H * w := Nat.mul_lt_mul_of_pos_left hc (by omega)
          have := Nat.mul_comm H W
          omega
      by_cases hw' : w > W
      · simp only [hhH, hw', not_true_eq_false, ↓reduceIte]
        constructor
        · exact within1_clamped (fscale ρ.a w H h) w H h W (by omega) hW (fscale_le _ _ _ _ (by omega))
            (fscale_ge _ _ _ _ (by omega)) (by nlinarith)
        · exact within1_clamped (fscale ρ.b h H h) h H h H (by omega) hH (fscale_le _ _ _ _ (by omega))
            (fscale_ge _ _ _ _ (by omega)) (by nlinarith)
      · simp only [hhH, hw', not_true_eq_false, not_false_eq_true, ↓reduceIte]
        constructor
        · exact within1_clamped (idiv w H h) w H h W (by omega) hW (idiv_le _ _ _ (by omega))
            (Nat.le_of_lt (idiv_gt _ _ _ (by omega))) (by nlinarith)
        · have : min h H = H := by omega
          simp only [this]; unfold Within1; constructor <;> nlinarith
  · simp only [hc, false_and, ↓reduceIte]
    have : min w W = w ∧ min h H = h := by omega
    rw [this.1, this.2]
    unfold Within1; omega

example : Within1 333 1000 (maxsizeScale 1000 3 333 333).1 (maxsizeScale 1000 3 333 333).2 := by unfold Within1; decide

/-- a floored scaled side raised to a bound that the exact value reaches stays within one pixel -/
theorem within1_floored (f a n d B : Nat) (hd : 0 < d)
    (hle : d * f ≤ a * n) (hge : a * n ≤ d * f + d) (hbound : d * B ≤ a * n) :
    Within1 (max f B) a n d := by
  unfold Within1
  by_cases hfB : B ≤ f
  · have : max f B = f := by omega
    rw [this]; omega
  · have hm : max f B = B := by omega
    rw [hm]
    have : d * (f + 1) ≤ d * B := Nat.mul_le_mul_left _ (by omega)
    rw [Nat.mul_add] at this
    omega

/-- **C17 (aspect within one pixel, minsize `x` form)**: both result sides are within one pixel of the
image scaled by the single factor `max(1, W/w, H/h)`, for every admissible rounding. -/
theorem C17_minsize_aspect_within_one (ρ : Rnd) (w h W H : Nat) (hw : 1 ≤ w) (hh : 1 ≤ h) (hW : 1 ≤ W) (hH : 1 ≤ H) :
    Within1 (minsizeDims ρ true w h W H).1 w (minsizeScale w h W H).1 (minsizeScale w h W H).2 ∧
    Within1 (minsizeDims ρ true w h W H).2 h (minsizeScale w h W H).1 (minsizeScale w h W H).2 := by
  unfold minsizeDims minsizeScale
  by_cases hc : h < H ∨ w < W
  · simp only [hc, and_self, ↓reduceIte]
    rcases maxScale_cases w h W H with ⟨hs1, hs⟩ | ⟨hs1, hs⟩
    · -- scale W / w
      rw [hs]
      have hwW : w < W := by
        rcases hc with hc | hc
        · by_contra hcon
          have : H * W ≤ H * w := Nat.mul_le_mul_left _ (by omega)
          have : W * h < W * H := Nat.mul_lt_mul_of_pos_left hc (by omega)
          have := Nat.mul_comm H W
          omega
        · exact hc
      by_cases hh' : h < H
      · simp only [hh', not_true_eq_false, hwW, ↓reduceIte]
        constructor
        · exact within1_floored (fscale ρ.a w W w) w W w W (by omega) (fscale_le _ _ _ _ (by omega))
            (fscale_ge _ _ _ _ (by omega)) (Nat.le_refl _)
        · exact within1_floored (fscale ρ.b h W w) h W w H (by omega) (fscale_le _ _ _ _ (by omega))
            (fscale_ge _ _ _ _ (by omega)) (by nlinarith)
      · simp only [hh', not_false_eq_true, ↓reduceIte]
        constructor
        · have : max w W = W := by omega
          simp only [this]; unfold Within1; constructor <;> nlinarith
        · exact within1_floored (idiv h W w) h W w H (by omega) (idiv_le _ _ _ (by omega))
            (Nat.le_of_lt (idiv_gt _ _ _ (by omega))) (by nlinarith)
    · -- scale H / h
      rw [hs]
      have hhH : h < H := by
        rcases hc with hc | hc
        · exact hc
        · by_contra hcon
          have : W * H ≤ W * h := Nat.mul_le_mul_left _ (by omega)
          have : H * w < H * W := Nat.mul_lt_mul_of_pos_left hc (by omega)
          have := Nat.mul_comm H W
          omega
      by_cases hw' : w < W
      · simp only [hhH, hw', not_true_eq_false, ↓reduceIte]
        constructor
        · exact within1_floored (fscale ρ.a w H h) w H h W (by omega) (fscale_le _ _ _ _ (by omega))
            (fscale_ge _ _ _ _ (by omega)) (by nlinarith)
        · exact within1_floored (fscale ρ.b h H h) h H h H (by omega) (fscale_le _ _ _ _ (by omega))
            (fscale_ge _ _ _ _ (by omega)) (Nat.le_refl _)
      · simp only [hhH, hw', not_true_eq_false, not_false_eq_true, ↓reduceIte]
        constructor
        · exact within1_floored (idiv w H h) w H h W (by omega) (idiv_le _ _ _ (by omega))
            (Nat.le_of_lt (idiv_gt _ _ _ (by omega))) (by nlinarith)
        · have : max h H = H := by omega
          simp only [this]; unfold Within1; constructor <;> nlinarith
  · simp only [hc, false_and, ↓reduceIte]
    have : max w W = w ∧ max h H = h := by omega
    rw [this.1, this.2]
    unfold Within1; omega

example : minsizeDims {} true 3 2 10 10 = (15, 10) ∧ minsizeScale 3 2 10 10 = (10, 2) := by decide

/-! ## video `resize=`: aspect -/

theorem within1_clamp1 (f a n d : Nat) (hle : d * f ≤ a * n) (hge : a * n ≤ d * f + d) :
    Within1 (max 1 f) a n d := by
  unfold Within1
  rcases Nat.eq_zero_or_pos f with h0 | hp
  · subst h0
    simp only [Nat.mul_zero, Nat.zero_add] at hge
    have : max 1 0 = 1 := by omega
    rw [this]; omega
  · have : max 1 f = f := by omega
    rw [this]; omega

/-- **C17 (video resize keeps the aspect within one pixel)**: both sides are within one pixel of the frame
scaled by `min(W/w, H/h)` (no rounding choice is left in the patched arithmetic). -/
theorem C17_video_resize_aspect_within_one (w h W H : Nat) (hw : 1 ≤ w) (hh : 1 ≤ h) (hne : h ≠ H ∨ w ≠ W) :
    Within1 (videoResizeDims true w h W H).1 w (minScale w h W H).1 (minScale w h W H).2 ∧
    Within1 (videoResizeDims true w h W H).2 h (minScale w h W H).1 (minScale w h W H).2 := by
  unfold videoResizeDims minScale
  simp only [hne, ↓reduceIte, Bool.true_eq_false]
  split
  · refine ⟨?_, within1_clamp1 _ _ _ _ (idiv_le _ _ _ (by omega)) (Nat.le_of_lt (idiv_gt _ _ _ (by omega)))⟩
    unfold Within1; constructor <;> nlinarith
  · refine ⟨within1_clamp1 _ _ _ _ (idiv_le _ _ _ (by omega)) (Nat.le_of_lt (idiv_gt _ _ _ (by omega))), ?_⟩
    unfold Within1; constructor <;> nlinarith

example : videoResizeDims true 320 200 160 80 = (128, 80) := by decide

/-! ## `+` forms -/

/-- **C17 (`+` forms use the bounds independently)**, whatever the rounding choice -/
theorem C17_plus_independent (ρ : Rnd) (w h W H : Nat) :
    maxsizeDims ρ false w h W H = (min w W, min h H) ∧ minsizeDims ρ false w h W H = (max w W, max h H) := by
  unfold maxsizeDims minsizeDims
  simp

example : maxsizeDims {} false 100 10 50 50 = (50, 10) := by decide

/-! ## no zero dimension -/

/-- **C17 (no transform asks cv2 for a zero dimension)**: `Util.execute_xform_size`, every action, both
aspect modes, every admissible rounding. -/
theorem C17_dims_positive (ρ : Rnd) (a : Action) (aspect : Bool) (w h W H : Nat)
    (hw : 1 ≤ w) (hh : 1 ≤ h) (hW : 1 ≤ W) (hH : 1 ≤ H) :
    1 ≤ (sizeDims ρ a aspect w h W H).1 ∧ 1 ≤ (sizeDims ρ a aspect w h W H).2 := by
  cases a
  · exact ⟨hW, hH⟩
  · show 1 ≤ (maxsizeDims ρ aspect w h W H).1 ∧ 1 ≤ (maxsizeDims ρ aspect w h W H).2
    unfold maxsizeDims
    split
    · split
      · simp only; omega
      · split <;> (simp only; omega)
    · simp only; omega
  · have := C17_minsize_bounds ρ aspect w h W H
    show 1 ≤ (minsizeDims ρ aspect w h W H).1 ∧ 1 ≤ (minsizeDims ρ aspect w h W H).2
    omega

/-- the video reader's `maxsize=` arithmetic is the `Util` one -/
theorem videoMaxsize_eq (ρ : Rnd) (aspect : Bool) (w h W H : Nat) :
    videoMaxsizeDims ρ aspect w h W H = maxsizeDims ρ aspect w h W H := by
  unfold videoMaxsizeDims maxsizeDims
  by_cases hc : h > H ∨ w > W
  · cases aspect <;> simp [hc, Nat.min_comm]
  · have : min w W = w ∧ min h H = h := by omega
    simp [hc, this.1, this.2]

/-- **C17 (video maxsize)**: same laws as the `Util` transform -/
theorem C17_video_maxsize_bounds (ρ : Rnd) (aspect : Bool) (w h W H : Nat) (hw : 1 ≤ w) (hh : 1 ≤ h) :
    (videoMaxsizeDims ρ aspect w h W H).1 ≤ min w W ∧ (videoMaxsizeDims ρ aspect w h W H).2 ≤ min h H := by
  rw [videoMaxsize_eq]
  have := C17_maxsize_bounds ρ aspect w h W H
  have := C17_maxsize_never_enlarges ρ aspect w h W H hw hh
  omega

/-- **C17 (video reader never asks cv2 for a zero dimension)** -/
theorem C17_video_dims_positive (ρ : Rnd) (aspect : Bool) (w h W H : Nat)
    (hw : 1 ≤ w) (hh : 1 ≤ h) (hW : 1 ≤ W) (hH : 1 ≤ H) :
    (1 ≤ (videoMaxsizeDims ρ aspect w h W H).1 ∧ 1 ≤ (videoMaxsizeDims ρ aspect w h W H).2) ∧
    (1 ≤ (videoResizeDims aspect w h W H).1 ∧ 1 ≤ (videoResizeDims aspect w h W H).2) := by
  constructor
  · rw [videoMaxsize_eq]; exact C17_dims_positive ρ .maxsize aspect w h W H hw hh hW hH
  · unfold videoResizeDims
    split
    · split
      · simp only; omega
      · split <;> (simp only; omega)
    · simp only; omega

example : videoMaxsizeDims {} true 1000 1 10 10 = (10, 1) := by decide

/-! ## flips and rotations: index permutations of an `h × w` grid -/

section Grid
variable {α : Type} [Inhabited α]

/-- `h` rows of `w` pixels -/
def WF (h w : Nat) (g : List (List α)) : Prop := g.length = h ∧ ∀ row ∈ g, row.length = w

omit [Inhabited α] in
theorem tab_wf (h w : Nat) (f : Nat → Nat → α) : WF h w (tab h w f) := by
  unfold WF tab
  refine ⟨by simp, ?_⟩
  intro row hrow
  simp only [List.mem_map] at hrow
  rcases hrow with ⟨r, _, rfl⟩
  simp

theorem pxAt_tab (h w : Nat) (f : Nat → Nat → α) (r c : Nat) (hr : r < h) (hc : c < w) :
    pxAt (tab h w f) r c = f r c := by
  unfold pxAt tab
  simp [List.getD_eq_getElem?_getD, hr, hc]

theorem grid_ext (h w : Nat) (g g' : List (List α)) (hg : WF h w g) (hg' : WF h w g')
    (hpx : ∀ r c, r < h → c < w → pxAt g r c = pxAt g' r c) : g = g' := by
  apply List.ext_getElem (by rw [hg.1, hg'.1])
  intro r hr hr'
  have hl : g[r].length = w := hg.2 _ (List.getElem_mem _)
  have hl' : g'[r].length = w := hg'.2 _ (List.getElem_mem _)
  apply List.ext_getElem (by rw [hl, hl'])
  intro c hc hc'
  have := hpx r c (by rw [← hg.1]; exact hr) (by rw [← hl]; exact hc)
  unfold pxAt at this
  simpa [List.getD_eq_getElem?_getD, hr, hr', hc, hc'] using this

/-- **C17 (each flip is its own inverse)** on every `h × w` grid -/
theorem C17_flip_involutive (h w : Nat) (g : List (List α)) (hg : WF h w g) :
    flipx h w (flipx h w g) = g ∧ flipy h w (flipy h w g) = g ∧ flipboth h w (flipboth h w g) = g := by
  refine ⟨?_, ?_, ?_⟩
  · apply grid_ext h w _ _ (tab_wf ..) hg
    intro r c hr hc
    unfold flipx
    rw [pxAt_tab _ _ _ _ _ hr hc, pxAt_tab _ _ _ _ _ hr (by omega)]
    have : w - 1 - (w - 1 - c) = c := by omega
    rw [this]
  · apply grid_ext h w _ _ (tab_wf ..) hg
    intro r c hr hc
    unfold flipy
    rw [pxAt_tab _ _ _ _ _ hr hc, pxAt_tab _ _ _ _ _ (by omega) hc]
    have : h - 1 - (h - 1 - r) = r := by omega
    rw [this]
  · apply grid_ext h w _ _ (tab_wf ..) hg
    intro r c hr hc
    unfold flipboth
    rw [pxAt_tab _ _ _ _ _ hr hc, pxAt_tab _ _ _ _ _ (by omega) (by omega)]
    have h1 : h - 1 - (h - 1 - r) = r := by omega
    have h2 : w - 1 - (w - 1 - c) = c := by omega
    rw [h1, h2]

/-- **C17 (rotcw undoes rotccw and vice versa)**; a rotated `h × w` grid is `w × h` -/
theorem C17_rot_inverse (h w : Nat) (g : List (List α)) (hg : WF h w g) :
    rotcw w h (rotccw h w g) = g ∧ rotccw w h (rotcw h w g) = g ∧
    WF w h (rotcw h w g) ∧ WF w h (rotccw h w g) := by
  refine ⟨?_, ?_, tab_wf .., tab_wf ..⟩
  · apply grid_ext h w _ _ (tab_wf ..) hg
    intro r c hr hc
    simp only [rotccw]
    rw [pxAt_tab _ _ _ _ _ hr hc, pxAt_tab _ _ _ _ _ (by omega) hr]
    have : w - 1 - (w - 1 - c) = c := by omega
    rw [this]
  · apply grid_ext h w _ _ (tab_wf ..) hg
    intro r c hr hc
    simp only [rotcw]
    rw [pxAt_tab _ _ _ _ _ hr hc, pxAt_tab _ _ _ _ _ hc (by omega)]
    have : h - 1 - (h - 1 - r) = r := by omega
    rw [this]

/-- flipboth is flipx after flipy (and a half turn: rotcw twice) -/
theorem C17_flipboth_compose (h w : Nat) (g : List (List α)) :
    flipx h w (flipy h w g) = flipboth h w g ∧ rotcw w h (rotcw h w g) = flipboth h w g := by
  constructor
  · apply grid_ext h w _ _ (tab_wf ..) (tab_wf ..)
    intro r c hr hc
    simp only [flipy]
    rw [pxAt_tab _ _ _ _ _ hr hc, pxAt_tab _ _ _ _ _ hr (by omega), pxAt_tab _ _ _ _ _ hr hc]
  · apply grid_ext h w _ _ (tab_wf ..) (tab_wf ..)
    intro r c hr hc
    simp only [rotcw]
    rw [pxAt_tab _ _ _ _ _ hr hc, pxAt_tab _ _ _ _ _ (by omega) hr, pxAt_tab _ _ _ _ _ hr hc]

/-- every output pixel of a flip / rotation is the input pixel at the permuted index -/
theorem C17_perm_pixels (h w : Nat) (g : List (List α)) :
    (∀ r c, r < h → c < w → pxAt (flipx h w g) r c = pxAt g r (w - 1 - c)) ∧
    (∀ r c, r < h → c < w → pxAt (flipy h w g) r c = pxAt g (h - 1 - r) c) ∧
    (∀ r c, r < h → c < w → pxAt (flipboth h w g) r c = pxAt g (h - 1 - r) (w - 1 - c)) ∧
    (∀ r c, r < w → c < h → pxAt (rotcw h w g) r c = pxAt g (h - 1 - c) r) ∧
    (∀ r c, r < w → c < h → pxAt (rotccw h w g) r c = pxAt g c (w - 1 - r)) :=
  ⟨fun r c hr hc => pxAt_tab _ _ _ r c hr hc, fun r c hr hc => pxAt_tab _ _ _ r c hr hc,
   fun r c hr hc => pxAt_tab _ _ _ r c hr hc, fun r c hr hc => pxAt_tab _ _ _ r c hr hc,
   fun r c hr hc => pxAt_tab _ _ _ r c hr hc⟩

omit [Inhabited α] in
theorem mapPx_wf (h w : Nat) (f : α → α) (g : List (List α)) (hg : WF h w g) : WF h w (mapPx f g) := by
  unfold WF mapPx
  refine ⟨by simp [hg.1], ?_⟩
  intro row hrow
  simp only [List.mem_map] at hrow
  rcases hrow with ⟨r, hr, rfl⟩
  simp [hg.2 r hr]

end Grid

example : flipx 2 3 [[1, 2, 3], [4, 5, 6]] = [[3, 2, 1], [6, 5, 4]] := by decide
example : rotcw 2 3 [[1, 2, 3], [4, 5, 6]] = [[4, 1], [5, 2], [6, 3]] := by decide
example : rotccw 2 3 [[1, 2, 3], [4, 5, 6]] = [[3, 6], [2, 5], [1, 4]] := by decide

/-! ## `execute_xforms` steps -/

/-- the pixel grid of a frame, when tracked, is `h × w` -/
def Img.WF (i : Img) : Prop := ∀ rows, i.px = some rows → Resize.WF i.h i.w rows

/-- **C17 (format conversions keep size)**: `swaprgb`, `fmtrgb`, `fmtbgr`, `fmtgray` keep width, height
and the shape of the pixel grid (they are per-pixel maps). -/
theorem C17_format_keeps_size (ρ : Rnd) (x : XForm) (i : Img)
    (hx : x = .swaprgb ∨ x = .fmtrgb ∨ x = .fmtbgr ∨ x = .fmtgray) (hi : i.WF) :
    (step ρ x i).w = i.w ∧ (step ρ x i).h = i.h ∧ (step ρ x i).WF ∧
    ((step ρ x i).px.isSome = i.px.isSome) := by
  have key : ∀ (f : Px → Px) (fm : Fmt), ({ i with fmt := fm, px := i.px.map (mapPx f) } : Img).WF := by
    intro f fm rows hrows
    cases hp : i.px with
    | none => simp [hp] at hrows
    | some g =>
      simp only [hp, Option.map_some, Option.some.injEq] at hrows
      subst hrows
      exact mapPx_wf _ _ _ _ (hi g hp)
  rcases hx with rfl | rfl | rfl | rfl
  · simp only [step]
    split
    · exact ⟨rfl, rfl, hi, rfl⟩
    · refine ⟨rfl, rfl, ?_, by simp⟩
      have := key List.reverse i.fmt
      simpa using this
  · simp only [step]
    split
    · exact ⟨rfl, rfl, hi, rfl⟩
    · exact ⟨rfl, rfl, key _ _, by simp⟩
    · exact ⟨rfl, rfl, key _ _, by simp⟩
  · simp only [step]
    split
    · exact ⟨rfl, rfl, hi, rfl⟩
    · exact ⟨rfl, rfl, key _ _, by simp⟩
    · exact ⟨rfl, rfl, key _ _, by simp⟩
  · simp only [step]
    split
    · exact ⟨rfl, rfl, hi, rfl⟩
    · exact ⟨rfl, rfl, key _ _, by simp⟩

/-- flips keep the size, rotations swap it; every step keeps the grid well-formed -/
theorem C17_step_sizes (ρ : Rnd) (i : Img) :
    ((step ρ .flipx i).w = i.w ∧ (step ρ .flipx i).h = i.h) ∧
    ((step ρ .flipy i).w = i.w ∧ (step ρ .flipy i).h = i.h) ∧
    ((step ρ .flipboth i).w = i.w ∧ (step ρ .flipboth i).h = i.h) ∧
    ((step ρ .rotcw i).w = i.h ∧ (step ρ .rotcw i).h = i.w) ∧
    ((step ρ .rotccw i).w = i.h ∧ (step ρ .rotccw i).h = i.w) ∧
    (∀ x0 y0 bw bh den col, (step ρ (.box x0 y0 bw bh den col) i).w = i.w ∧ (step ρ (.box x0 y0 bw bh den col) i).h = i.h) :=
  ⟨⟨rfl, rfl⟩, ⟨rfl, rfl⟩, ⟨rfl, rfl⟩, ⟨rfl, rfl⟩, ⟨rfl, rfl⟩, fun _ _ _ _ _ _ => ⟨rfl, rfl⟩⟩

/-- a size transform inside a chain ends with the size of `sizeDims` (positive, bounded … by the theorems above) -/
theorem C17_step_size (ρ : Rnd) (a : Action) (W H : Nat) (aspect : Bool) (i : Img) :
    ((step ρ (.size a W H aspect) i).w, (step ρ (.size a W H aspect) i).h) = sizeDims ρ a aspect i.w i.h W H := by
  unfold step
  simp only
  split
  · rename_i hd; simp [hd]
  · rfl

/-! ## whole chains -/

theorem img_wf_of_map (w h : Nat) (fm : Fmt) (p : Option Rows) (f : Rows → Rows)
    (hf : ∀ g, p = some g → Resize.WF h w (f g)) : (⟨w, h, fm, p.map f⟩ : Img).WF := by
  intro rows hrows
  cases p with
  | none => simp at hrows
  | some g =>
    simp only [Option.map_some, Option.some.injEq] at hrows
    subst hrows
    exact hf g rfl

/-- every transform keeps the tracked pixel grid `h × w` -/
theorem step_wf (ρ : Rnd) (x : XForm) (i : Img) (hi : i.WF) : (step ρ x i).WF := by
  cases x with
  | flipx => exact img_wf_of_map _ _ _ _ _ (fun _ _ => tab_wf ..)
  | flipy => exact img_wf_of_map _ _ _ _ _ (fun _ _ => tab_wf ..)
  | flipboth => exact img_wf_of_map _ _ _ _ _ (fun _ _ => tab_wf ..)
  | rotcw => exact img_wf_of_map _ _ _ _ _ (fun _ _ => tab_wf ..)
  | rotccw => exact img_wf_of_map _ _ _ _ _ (fun _ _ => tab_wf ..)
  | swaprgb =>
    simp only [step]; split
    · exact hi
    · exact img_wf_of_map _ _ _ _ _ (fun g hg => mapPx_wf _ _ _ _ (hi g hg))
  | fmtrgb =>
    simp only [step]; split
    · exact hi
    · exact img_wf_of_map _ _ _ _ _ (fun g hg => mapPx_wf _ _ _ _ (hi g hg))
    · exact img_wf_of_map _ _ _ _ _ (fun g hg => mapPx_wf _ _ _ _ (hi g hg))
  | fmtbgr =>
    simp only [step]; split
    · exact hi
    · exact img_wf_of_map _ _ _ _ _ (fun g hg => mapPx_wf _ _ _ _ (hi g hg))
    · exact img_wf_of_map _ _ _ _ _ (fun g hg => mapPx_wf _ _ _ _ (hi g hg))
  | fmtgray =>
    simp only [step]; split
    · exact hi
    · exact img_wf_of_map _ _ _ _ _ (fun g hg => mapPx_wf _ _ _ _ (hi g hg))
  | size a W H asp =>
    simp only [step]; split
    · exact hi
    · intro rows hrows; simp at hrows
  | box x0 y0 bw bh den col => exact img_wf_of_map _ _ _ _ _ (fun _ _ => tab_wf ..)

/-- a transform with valid parameters: size bounds are at least 1×1 -/
def XForm.Valid : XForm → Prop
  | .size _ W H _ => 1 ≤ W ∧ 1 ≤ H
  | _ => True

theorem step_dims_positive (ρ : Rnd) (x : XForm) (i : Img) (hv : x.Valid) (hw : 1 ≤ i.w) (hh : 1 ≤ i.h) :
    1 ≤ (step ρ x i).w ∧ 1 ≤ (step ρ x i).h := by
  cases x with
  | flipx => exact ⟨hw, hh⟩
  | flipy => exact ⟨hw, hh⟩
  | flipboth => exact ⟨hw, hh⟩
  | rotcw => exact ⟨hh, hw⟩
  | rotccw => exact ⟨hh, hw⟩
  | swaprgb => simp only [step]; split <;> exact ⟨hw, hh⟩
  | fmtrgb => simp only [step]; split <;> exact ⟨hw, hh⟩
  | fmtbgr => simp only [step]; split <;> exact ⟨hw, hh⟩
  | fmtgray => simp only [step]; split <;> exact ⟨hw, hh⟩
  | size a W H asp =>
    have h1 := C17_step_size ρ a W H asp i
    have h2 := C17_dims_positive ρ a asp i.w i.h W H hw hh hv.1 hv.2
    rw [← h1] at h2
    exact h2
  | box x0 y0 bw bh den col => exact ⟨hw, hh⟩

/-- **C17 (no valid image makes a chain ask cv2 for a zero dimension)**: for every chain of transforms with
bounds ≥ 1, every rounding choice at every step and every image with sides ≥ 1, every intermediate and the
final frame have sides ≥ 1 and a well-formed pixel grid. -/
theorem C17_chain_dims_positive (xs : List XForm) :
    ∀ (ρs : List Rnd) (i : Img), (∀ x ∈ xs, x.Valid) → 1 ≤ i.w → 1 ≤ i.h → i.WF →
      1 ≤ (run ρs xs i).w ∧ 1 ≤ (run ρs xs i).h ∧ (run ρs xs i).WF := by
  induction xs with
  | nil => intro ρs i _ hw hh hi; cases ρs <;> exact ⟨hw, hh, hi⟩
  | cons x xs ih =>
    intro ρs i hv hw hh hi
    have hx : x.Valid := hv x (List.mem_cons_self ..)
    have hxs : ∀ y ∈ xs, y.Valid := fun y hy => hv y (List.mem_cons_of_mem _ hy)
    cases ρs with
    | nil =>
      have := step_dims_positive {} x i hx hw hh
      exact ih [] _ hxs this.1 this.2 (step_wf _ _ _ hi)
    | cons ρ ρs =>
      have := step_dims_positive ρ x i hx hw hh
      exact ih ρs _ hxs this.1 this.2 (step_wf _ _ _ hi)

example : (run [] [.rotcw, .size .maxsize 10 10 true, .flipx] ⟨1000, 1, .gray, none⟩).w = 1 ∧
    (run [] [.rotcw, .size .maxsize 10 10 true, .flipx] ⟨1000, 1, .gray, none⟩).h = 10 := by decide

/-! ## box -/

/-- **C17 (box inside its rectangle), partial**: every painted pixel lies in the image and its cell
`[c, c+1] × [r, r+1]` meets the requested real rectangle `[w·x0, w·x1] × [h·y0, h·y1]`.
MISSING for the full statement: proved for lower-corner products computed exactly (`ρ.a = ρ.b = false`,
which is the case for dyadic coordinates); when the float product of a non-dyadic coordinate lands one below
an exact integer the painted rectangle starts one pixel earlier — see `C17_box_inside_within_one`. -/
theorem C17_box_inside_partial (ρ : Rnd) (w h x0 y0 bw bh den r c : Nat) (hden : 0 < den)
    (hρ : ρ.a = false ∧ ρ.b = false)
    (hp : painted (boxRect ρ w h x0 y0 bw bh den) w h r c = true) :
    c < w ∧ r < h ∧ w * x0 < (c + 1) * den ∧ c * den ≤ w * (x0 + bw) ∧
    h * y0 < (r + 1) * den ∧ r * den ≤ h * (y0 + bh) := by
  unfold painted boxRect at hp
  simp only [decide_eq_true_eq, hρ.1, hρ.2] at hp
  obtain ⟨hx0, hx1, hcw, hy0, hy1, hrh⟩ := hp
  have a1 := div_spec (w * x0) den hden
  have a2 := fscale_le ρ.c w (x0 + bw) den hden
  have b1 := div_spec (h * y0) den hden
  have b2 := fscale_le ρ.d h (y0 + bh) den hden
  have fx : fscale false w x0 den = w * x0 / den := by simp [fscale]
  have fy : fscale false h y0 den = h * y0 / den := by simp [fscale]
  rw [fx] at hx0; rw [fy] at hy0
  have m1 : den * (w * x0 / den) ≤ den * c := Nat.mul_le_mul_left _ hx0
  have m2 : den * c ≤ den * fscale ρ.c w (x0 + bw) den := Nat.mul_le_mul_left _ hx1
  have m3 : den * (h * y0 / den) ≤ den * r := Nat.mul_le_mul_left _ hy0
  have m4 : den * r ≤ den * fscale ρ.d h (y0 + bh) den := Nat.mul_le_mul_left _ hy1
  refine ⟨hcw, hrh, ?_, ?_, ?_, ?_⟩ <;> nlinarith

/-- **C17 (box within one pixel of its rectangle)**, every admissible rounding of the corner products -/
theorem C17_box_inside_within_one (ρ : Rnd) (w h x0 y0 bw bh den r c : Nat) (hden : 0 < den)
    (hp : painted (boxRect ρ w h x0 y0 bw bh den) w h r c = true) :
    c < w ∧ r < h ∧ w * x0 < (c + 2) * den ∧ c * den ≤ w * (x0 + bw) ∧
    h * y0 < (r + 2) * den ∧ r * den ≤ h * (y0 + bh) := by
  unfold painted boxRect at hp
  simp only [decide_eq_true_eq] at hp
  obtain ⟨hx0, hx1, hcw, hy0, hy1, hrh⟩ := hp
  have a1 := fscale_ge ρ.a w x0 den hden
  have a2 := fscale_le ρ.c w (x0 + bw) den hden
  have b1 := fscale_ge ρ.b h y0 den hden
  have b2 := fscale_le ρ.d h (y0 + bh) den hden
  have m1 : den * fscale ρ.a w x0 den ≤ den * c := Nat.mul_le_mul_left _ hx0
  have m2 : den * c ≤ den * fscale ρ.c w (x0 + bw) den := Nat.mul_le_mul_left _ hx1
  have m3 : den * fscale ρ.b h y0 den ≤ den * r := Nat.mul_le_mul_left _ hy0
  have m4 : den * r ≤ den * fscale ρ.d h (y0 + bh) den := Nat.mul_le_mul_left _ hy1
  refine ⟨hcw, hrh, ?_, ?_, ?_, ?_⟩ <;> nlinarith

/-- **C17 (box paints the rectangle and nothing else)**: painted pixels get the colour, all others are untouched -/
theorem C17_box_paint (k : Rect) (col : Px) (h w : Nat) (g : Rows) (r c : Nat) (hr : r < h) (hc : c < w) :
    pxAt (paint k col h w g) r c = if painted k w h r c then col else pxAt g r c := by
  unfold paint
  rw [pxAt_tab _ _ _ _ _ hr hc]

/-- **C17 (box colour)**: the RGB colour is written in the frame's own channel order (read back as RGB it
is the requested colour); a GRAY frame gets the mean rounded to nearest; no colour means black. -/
theorem C17_box_colour (r g b : Nat) :
    boxColour .rgb (some (r, g, b)) = [r, g, b] ∧
    (boxColour .bgr (some (r, g, b))).reverse = [r, g, b] ∧
    (∃ v, boxColour .gray (some (r, g, b)) = [v] ∧ 3 * v ≤ r + g + b + 1 ∧ r + g + b ≤ 3 * v + 1) ∧
    boxColour .rgb none = [0, 0, 0] ∧ boxColour .bgr none = [0, 0, 0] ∧ boxColour .gray none = [0] := by
  refine ⟨rfl, rfl, ⟨(r + g + b + 1) / 3, rfl, ?_, ?_⟩, rfl, rfl, rfl⟩ <;> omega

example : painted (boxRect {} 4 4 0 0 32 32 64) 4 4 2 2 = true ∧ painted (boxRect {} 4 4 0 0 32 32 64) 4 4 3 2 = false := by decide

/-! ## negative witnesses: the pinned arithmetic -/

/-- pinned: a 49×49 image with `maxsize 1x1` (`int(49 * (1 / 49)) = 0`) asks cv2 for a 0×0 image -/
theorem C17_old_zero_dim_float : maxsizeDimsOld ⟨true, true, false, false⟩ true 49 49 1 1 = (0, 0) := by decide

/-- pinned: a 1000×1 image with `maxsize 10x10` gets height 0; a 1×4 image with `maxsize 18x3` width 0 -/
theorem C17_old_zero_dim_aspect (ρ : Rnd) :
    maxsizeDimsOld ρ true 1000 1 10 10 = (10, 0) ∧ maxsizeDimsOld ρ true 1 4 18 3 = (0, 3) := by
  constructor <;> rfl

/-- pinned: the video reader's `resize=200x50` of a 100×50 frame leaves the box -/
theorem C17_old_video_resize_outside (ρ : Rnd) : videoResizeDimsOld ρ true 100 50 200 50 = (200, 100) := by
  rfl

end OF.Resize
