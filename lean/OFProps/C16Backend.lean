import OFProps.BackendLemmas
import OFProps.C18Facet
/-!
# C16 at the backend boundary — every metric field of a RUNNING event stems from an allowed metric

`C16_only_allowed` (C16.lean) is about the facet one call of `export` hands to `update_heartbeat_lineage`.  What the lineage backend
finally receives is decided by the emitter: `self.facets` is REPLACED by a non-empty facet and left alone otherwise, and each
heartbeat sends whatever is there (OFModel/LineageBackend.lean).  The theorems below are about every sequence of export cycles
(each with its own batch of metrics), flushes and heartbeats, for an arbitrary - but fixed: the exporter's allow-list is set in
its constructor - decision function `allowed`.

Stated boundary (the real code, `if facets:` in `update_heartbeat_lineage`, `if facet:` in `export`): a cycle whose facet is EMPTY
(no metric, or none allowed, or none with a data point) leaves the previous facet in place, so a metric that was exported in an
earlier cycle keeps being sent with every later heartbeat until a non-empty facet replaces it (`C16_backend_stale_witness`).
It was allowed when it was exported and - the allow-list being fixed - still is; a disallowed metric can never appear this way
(`C16_backend_running_only_allowed`).  With lock-down nothing but the constructor's facets is ever sent (`C16_backend_lockdown`).
-/
namespace OF.Backend
open OF.Allow OF.FacetNames

/-- the property of a facet that C16 is about: every entry stems from a metric of the batch `ms` that the decision accepts -/
def StemsFrom (allowed : String → Bool) (ms : List Metric) (p : Facet) : Prop :=
  ∀ e ∈ p, ∃ m ∈ ms, allowed m.name = true ∧ (e.1 = m.name ∨ e.1 = m.name ++ "_histogram")

/-- **C16 (backend, position by position)**: the RUNNING event of the heartbeat that follows the steps `pre` carries exactly the LAST
non-empty facet an export cycle of `pre` handed over - the constructor's facets if there was none -, and every entry of such a
facet stems from a metric of that cycle's batch which the allow decision accepts. -/
theorem C16_backend_running_only_allowed (allowed : String → Bool) (ctor : Facet) (pre post : List BOp) :
    ∃ before payload rest,
      (brun allowed false (pre ++ .beat :: post) (BState.init ctor)).sent = before ++ payload :: rest ∧
      before.length = countBeats pre ∧
      payload = ((pre.filterMap (exported allowed false)).getLast?).getD ctor ∧
      (payload = ctor ∨ ∃ ms, BOp.export ms ∈ pre ∧ exportFacet allowed false ms = some payload ∧ StemsFrom allowed ms payload) := by
  rcases brun_sent_prefix allowed false pre (BState.init ctor) with ⟨before, hb1, hb2⟩
  rcases brun_sent_prefix allowed false post (bstep allowed false (brun allowed false pre (BState.init ctor)) .beat) with ⟨rest, hr1, _⟩
  refine ⟨before, (brun allowed false pre (BState.init ctor)).facets, rest, ?_, hb2, ?_, ?_⟩
  · rw [brun_append, brun_cons, hr1, bstep_sent, hb1]
    simp [BState.init]
  · rw [brun_facets]; rfl
  · rw [brun_facets]
    cases hl : (pre.filterMap (exported allowed false)).getLast? with
    | none => left; rfl
    | some f =>
      right
      have hmem : f ∈ pre.filterMap (exported allowed false) := List.mem_of_getLast? hl
      rw [List.mem_filterMap] at hmem
      rcases hmem with ⟨op, hop, he⟩
      cases op with
      | «export» ms =>
        simp only [exported] at he
        exact ⟨ms, hop, he, C16_only_allowed allowed ms f he⟩
      | flush => cases he
      | beat => cases he

/-- **C16 (backend, every event)**: whatever the sequence of cycles, flushes and heartbeats, each RUNNING event carries the
constructor's facets or a facet that one of the export cycles handed over, all of whose entries stem from allowed metrics of that
cycle.  In particular a metric the allow decision rejects is in no RUNNING event, ever. -/
theorem C16_backend_every_running_allowed (allowed : String → Bool) (ctor : Facet) (ops : List BOp) :
    ∀ p ∈ (brun allowed false ops (BState.init ctor)).sent,
      p = ctor ∨ ∃ ms, BOp.export ms ∈ ops ∧ exportFacet allowed false ms = some p ∧ StemsFrom allowed ms p := by
  refine (brun_inv allowed false
    (fun p => p = ctor ∨ ∃ ms, BOp.export ms ∈ ops ∧ exportFacet allowed false ms = some p ∧ StemsFrom allowed ms p)
    ops (BState.init ctor) ?_ (Or.inl rfl) (by intro p hp; cases hp)).2
  intro ms f hm he
  exact Or.inr ⟨ms, hm, he, C16_only_allowed allowed ms f he⟩

/-- a rejected metric is never sent under its own name: an entry whose key equals a rejected name `n` is part of the constructor's
facets, or is the `…_histogram` entry of ANOTHER metric, which is allowed (metric `lat` allowed, `n = "lat_histogram"`) -/
theorem C16_backend_rejected_never_sent (allowed : String → Bool) (ctor : Facet) (ops : List BOp) (n : String)
    (hrej : allowed n = false) :
    ∀ p ∈ (brun allowed false ops (BState.init ctor)).sent, p = ctor ∨
      ∀ e ∈ p, e.1 = n → ∃ m : Metric, allowed m.name = true ∧ n = m.name ++ "_histogram" := by
  intro p hp
  rcases C16_backend_every_running_allowed allowed ctor ops p hp with h | ⟨ms, _, _, hst⟩
  · left; exact h
  · right
    intro e he hen
    rcases hst e he with ⟨m, _, hal, h | h⟩
    · rw [hen] at h; rw [h, hal] at hrej; cases hrej
    · exact ⟨m, hal, by rw [← hen, h]⟩

/-- **C16 (backend, lock-down)**: when the decision rejects every name (empty allow-list) every RUNNING event carries the
constructor's facets and nothing else -/
theorem C16_backend_lockdown (allowed : String → Bool) (hl : ∀ n, allowed n = false) (ctor : Facet) (ops : List BOp) :
    ∀ p ∈ (brun allowed false ops (BState.init ctor)).sent, p = ctor := by
  refine (brun_inv allowed false (fun p => p = ctor) ops (BState.init ctor) ?_ rfl (by intro p hp; cases hp)).2
  intro ms f _ he
  rw [C16_lockdown allowed ms hl] at he
  cases he

/-- the same for the configured empty allow-list (`read_allowlist()` default) -/
theorem C16_backend_default_lockdown (ctor : Facet) (ops : List BOp) :
    ∀ p ∈ (brun (allowFn (some [])) false ops (BState.init ctor)).sent, p = ctor :=
  C16_backend_lockdown _ (fun n => C16_empty_allowlist_rejects n) ctor ops

/-- with the opt-in raw subject data the only other entry is `raw_subject_data` -/
theorem C16_backend_every_running_allowed_raw (allowed : String → Bool) (ctor : Facet) (ops : List BOp) :
    ∀ p ∈ (brun allowed true ops (BState.init ctor)).sent,
      p = ctor ∨ ∃ ms, BOp.export ms ∈ ops ∧ exportFacet allowed true ms = some p ∧
        ∀ e ∈ p, e = ("raw_subject_data", FVal.raw) ∨
          ∃ m ∈ ms, allowed m.name = true ∧ (e.1 = m.name ∨ e.1 = m.name ++ "_histogram") := by
  refine (brun_inv allowed true
    (fun p => p = ctor ∨ ∃ ms, BOp.export ms ∈ ops ∧ exportFacet allowed true ms = some p ∧
        ∀ e ∈ p, e = ("raw_subject_data", FVal.raw) ∨
          ∃ m ∈ ms, allowed m.name = true ∧ (e.1 = m.name ∨ e.1 = m.name ++ "_histogram"))
    ops (BState.init ctor) ?_ (Or.inl rfl) (by intro p hp; cases hp)).2
  intro ms f hm he
  exact Or.inr ⟨ms, hm, he, C16_only_allowed_raw allowed ms f he⟩

/-- one RUNNING event per heartbeat -/
theorem C16_backend_one_event_per_beat (allowed : String → Bool) (raw : Bool) (ctor : Facet) (ops : List BOp) :
    (brun allowed raw ops (BState.init ctor)).sent.length = countBeats ops := by
  rcases brun_sent_prefix allowed raw ops (BState.init ctor) with ⟨rest, h1, h2⟩
  rw [h1]; simpa [BState.init] using h2

/-! ## down to the field names the backend sees -/

/-- **C16 (backend, field names)**: every field of the `openfilter` run facet built from a sent facet `p` is one of the three fixed
fields, or the field name (`facet_field_name`, with the `__` rule) of a flattened key that is the normalised key of an entry of `p`, for a
histogram followed by `__buckets` / `__counts` / `__count` / `__sum`; the facet can always be built: the names pass the checks of
`make_dataclass` and none has the form of a special attribute (C18Facet) -/
theorem C16_backend_event_fields (p : Facet) :
    makeDataclassOK (eventFields (facetDict p)) = true ∧
    (∀ n ∈ eventFields (facetDict p), isDunder n = false) ∧
    ∀ n ∈ eventFields (facetDict p), n ∈ fixedFields ∨
      ∃ e ∈ p, ∃ k taken, n = facetFieldName k taken ∧
        (k = normalizeKey e.1.toList ∨ ∃ sub ∈ histSubKeys, k = joinKey (normalizeKey e.1.toList) sub) := by
  refine ⟨(C18_facet_event_never_dropped _).1, (C18_facet_event_never_dropped _).2.1, ?_⟩
  intro n hn
  unfold eventFields allFields at hn
  rcases List.mem_append.1 hn with h | h
  · right
    rcases fieldsWith_mem facetFieldName _ fixedFields n h with ⟨k, hk, t, e⟩
    rcases facetKeys_facetDict p k hk with ⟨en, hen, hor⟩
    exact ⟨en, hen, k, t, e, hor⟩
  · left; exact h

/-! ## non-vacuity, the stated boundary, tests -/

private def c (n : String) (v : Int) : Metric := ⟨n, .sum true v⟩

/-- non-vacuity: two cycles with different batches, heartbeats in between; the rejected metric `secret` is in no event -/
example : (brun (allowFn (some ["frames*"])) false
      [.beat, .export [c "frames" 1, c "secret" 5], .beat, .flush, .export [c "frames_total" 2, c "secret" 6], .beat, .beat]
      (BState.init [])).sent
    = [[], [("frames", .int 1)], [("frames_total", .int 2)], [("frames_total", .int 2)]] := by
  decide +kernel

/-- the stated boundary: an EMPTY cycle (here: nothing allowed in the batch) leaves the previous facet in place - `frames = 1` of the
first cycle is sent again after the second cycle although the second batch does not contain it -/
theorem C16_backend_stale_witness :
    (brun (allowFn (some ["frames"])) false
      [.export [c "frames" 1], .beat, .export [c "secret" 9], .beat, .export [], .beat] (BState.init [])).sent
    = [[("frames", .int 1)], [("frames", .int 1)], [("frames", .int 1)]] := by
  decide +kernel

/-- NEGATIVE witness: without an allow-list object (`None`: allow all) the same steps do send `secret` - the hypothesis that the
decision rejects the name is what keeps it out -/
example : (brun (allowFn none) false [.export [c "frames" 1], .beat, .export [c "secret" 9], .beat] (BState.init [])).sent
    = [[("frames", .int 1)], [("secret", .int 9)]] := by
  decide +kernel

/-- lock-down: the constructor's facets, whatever is exported -/
example : (brun (allowFn (some [])) false [.export [c "frames" 1], .beat, .export [c "secret" 9], .beat]
      (BState.init [("instance", .raw)])).sent = [[("instance", .raw)], [("instance", .raw)]] := by
  decide +kernel

/-- TEST: the field names of a RUNNING event: metric names that are not identifiers, a histogram, names that collide after
normalisation (`Fps` / `fps`: one dict entry), a reserved name, a name that would become a special attribute -/
example : runningFields (allowFn none) false []
      [.export [c "x-y" 1, ⟨"lat", .hist [1, 2] [10] 3 9⟩, c "Fps" 2, c "fps" 3, c "type" 4, c "m.n" 5, c "._init__" 6], .beat]
    = [["x_y", "lat_histogram__buckets", "lat_histogram__counts", "lat_histogram__count", "lat_histogram__sum", "fps", "type_2", "m_n",
        "_init__", "_producer", "schemaURL", "type"].map String.toList] := by
  decide +kernel

end OF.Backend
