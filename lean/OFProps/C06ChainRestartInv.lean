import OFProps.C06Net
import OFProps.C04NetTee
set_option linter.unusedSimpArgs false
/-!
# The 3-node chain with restarts: endpoint facts from SHAPE ALONE, and the invariant `RShape` (helper file for
`OFProps/C06ChainRestart.lean`)

`OFModel/Zmq/Net.lean`, topology `chainTopo 3` (source 0 → relay 1 → sink 2), ANY schedule incl. `restart i g` of any node.
Nothing is assumed about what is queued in any channel, about client tables or about ids (so the facts also hold under loss,
duplication and stale traffic of dead incarnations):
* `call0_gen` — one `recv(state, 0)` of a single-source consumer, any `state` hand-over value: a set with an id `≥` the id the
  call started from is returned, or the queue is drained, exactly ONE request (for the new `prev_id`) is pushed and the call
  times out (the version of `Pair.call0_spec` with `state`);
* `send0_gen` — one `send(callable, state, 0)` of a single-output publisher, any `state`: the request queue afterwards is a
  strictly shorter suffix or empty; what the call returned (`sendRet`) and what it did to `min_send_id`;
  `send0_hello_gen` / `send0_ffwd_gen` / `send0_publish_gen` — exactly one request queued: handshake, fast-forward, publish;
* `RShape` — the invariant of EVERY reachable state: the three nodes with their endpoint shapes (`Pair.Idle`, `Pair.PubIdle`),
  the relay's loop state (`pending` ⇒ `send_state` set and not below the sender's `min_send_id`; nothing pending ⇒ the id the
  next `recv` starts from is not below it: a relay never has its result DISCARDED), what is held is a one-frame `main` dict.
-/
namespace OF.Net
open OF
open OF.Pair (PubIdle PubBusy Idle Busy Done SrcShape ConStatic Stale OthersStale)

/-! ## `recv(state, 0)` from the shape alone -/

/-- outputs of the take phase: neither a returned set nor a request -/
def NoReqRet (os : List Recv.Out) : Prop :=
  ∀ o ∈ os, (∀ j m e n, o ≠ .req j m e n) ∧ (∀ i b d, o ≠ .ret i b d)

theorem noReqRet_of_quiet (os : List Recv.Out) (h : Pair.Quiet os) : NoReqRet os := by
  intro o ho
  constructor
  · intro j m e n he
    subst he
    have : Pair.reqOf "x" (.req j m e n) ∈ (os.filterMap (Pair.reqOf "x")).map some := by
      rw [List.mem_map]
      exact ⟨_, List.mem_filterMap.mpr ⟨_, ho, rfl⟩, rfl⟩
    rw [h.2 "x"] at this; cases this
  · intro i b d he
    subst he
    have : i ∈ Recv.retIds os := by
      unfold Recv.retIds
      exact List.mem_filterMap.mpr ⟨_, ho, rfl⟩
    rw [h.1] at this; cases this

theorem retOf_noReqRet (a b : List Recv.Out) (h : NoReqRet a) : retOf (a ++ b) = retOf b := by
  induction a with
  | nil => rfl
  | cons o a ih =>
    have ho := h o (List.mem_cons_self ..)
    have ha : NoReqRet a := fun x hx => h x (List.mem_cons_of_mem _ hx)
    cases o with
    | ret i b d => exact absurd rfl (ho.2 i b d)
    | oob _ _ => exact ih ha
    | req _ _ _ _ => exact ih ha
    | retNone => exact ih ha
    | dupTopic _ => exact ih ha

theorem reqs_noReqRet (i gen : Nat) (ups : List Nat) (u : Nat) (a : List Recv.Out) (h : NoReqRet a) :
    a.filterMap (reqOf i gen ups u) = [] := by
  rw [List.filterMap_eq_nil_iff]
  intro o ho
  have := h o ho
  cases o with
  | req j m e n => exact absurd rfl (this.1 j m e n)
  | ret _ _ _ => rfl
  | oob _ _ => rfl
  | retNone => rfl
  | dupTopic _ => rfl

/-- what one `recv(state, 0)` of a single-source consumer does, whatever is queued -/
structure RecvOut (c : Recv.St) (s : Recv.Src) (state : Option Int) (r : Recv.St × List Recv.Out) (s' : Recv.Src) : Prop where
  idle : Idle r.1 s'
  suffix : ∃ pre, s.queue = pre ++ s'.queue
  floor : Recv.beginId c state - 1 ≤ r.1.prevId
  out : (∃ o1 pre id bal data, NoReqRet o1 ∧ r.2 = o1 ++ (pre ++ [.ret id bal data]) ∧
          (pre = [] ∨ pre = [.req 0 id 0 (!s'.conn)]) ∧ Recv.beginId c state ≤ id ∧ r.1.prevId = id ∧
          (∃ w ∈ s.queue, id = w.mid)) ∨
        (∃ o1, NoReqRet o1 ∧ r.2 = o1 ++ [.req 0 r.1.prevId 0 (!s'.conn), .retNone] ∧ s'.queue = [] ∧
          ((∀ w ∈ s.queue, w.mid ≠ OF.Facts.MSG_ID_CLOSE) → s.queue ≠ [] → s'.conn = true) ∧
          (∀ w ∈ s.queue, OF.Facts.MSG_ID_SPECIAL < w.mid → w.mid - 1 ≤ r.1.prevId) ∧
          (r.1.prevId = Recv.beginId c state - 1 ∨ ∃ w ∈ s.queue, r.1.prevId = w.mid - 1))

theorem call0_gen (c : Recv.St) (s : Recv.Src) (state : Option Int) (h : Idle c s) :
    ∃ s', RecvOut c s state (Recv.call0 c state [0]) s' := by
  rw [call0_unfold_state c s state h]
  have hbusy := beginSt_busy c s state h
  have hspec := Pair.recvOnce0_spec (s.queue.length + 1) (beginSt c state) s hbusy (by omega)
  have hm0 : (beginSt c state).minRecvId = Recv.beginId c state := rfl
  have hp0 : (beginSt c state).prevId = c.prevId := rfl
  have hble : c.prevId + 1 ≤ Recv.beginId c state := hbusy.mono
  generalize Recv.recvOnce0 (s.queue.length + 1) (beginSt c state) [0] = r at hspec ⊢
  rcases r with ⟨c1, o1, g⟩
  simp only at hspec ⊢
  rcases hspec with ⟨hq, hprev, hmono, s', hpre, hres⟩
  rcases hres with ⟨hg, hd, wd, hwd, hwde⟩ | ⟨hg, hb, hempty, hconn, hge, hval⟩
  · subst hg
    simp only [↓reduceIte]
    have hkeys := Pair.srcFrames_keys s' hd.shape.subs hd.keys
    have hasm : Recv.assemble (c1.srcs.flatMap Recv.srcFrames) [] = .inr (Recv.srcFrames s') := by
      rw [hd.srcs]
      simp only [List.flatMap_cons, List.flatMap_nil, List.append_nil]
      rw [Pair.assemble_ok _ [] hkeys (by intro _ _ a ha; cases ha)]; rfl
    have hnew : Recv.newRecvAll c1.srcs = [{ s' with recvd := none, reg := true }] := by
      rw [hd.srcs]; simp [Recv.newRecvAll, Recv.recvdNew, hd.shape.subAll]
    have hfin : Recv.finish c1 =
        ({ c1 with prevId := c1.minRecvId, srcs := [{ s' with recvd := none, reg := true }], inCall := false },
         (if !c1.lowLat && c1.balanced ≠ 1 then Recv.requests c1 c1.minRecvId else []) ++
           [.ret c1.minRecvId c1.balanced (Recv.srcFrames s')]) := by
      unfold Recv.finish
      simp only [hasm, hnew]
    rw [hfin]
    refine ⟨{ s' with recvd := none, reg := true }, ?_, hpre, by simp only; omega, Or.inl
      ⟨o1, _, c1.minRecvId, c1.balanced, Recv.srcFrames s', noReqRet_of_quiet _ hq, rfl, ?_, by omega, rfl, wd, hwd, hwde⟩⟩
    · exact ⟨rfl, ⟨hd.shape.eph, hd.shape.subAll, hd.shape.star, hd.shape.subs⟩,
        ⟨hd.static.dead, hd.static.balance, hd.static.lowLat⟩, rfl, rfl, (by intro l hl; cases hl), rfl,
        (by simp only; have := h.prev; omega)⟩
    · split
      · right; rw [Pair.requests_single c1 s' hd.srcs hd.shape.eph]
      · left; rfl
  · subst hg
    simp only [Bool.false_eq_true, ↓reduceIte]
    refine ⟨s', ?_, hpre, by simp only [Pair.timeoutSt]; omega, Or.inr ⟨o1, noReqRet_of_quiet _ hq, ?_, hempty, hconn, ?_, ?_⟩⟩
    · exact ⟨hb.srcs, hb.shape, ⟨hb.static.dead, hb.static.balance, hb.static.lowLat⟩, hb.reg, hb.notAll, hb.keys, rfl,
        by simp only [Pair.timeoutSt]; have := h.prev; omega⟩
    · rw [Pair.requests_single c1 s' hb.srcs hb.shape.eph]
      simp [Pair.timeoutSt]
    · intro w hw hsp
      have := hge w hw hsp
      simp only [Pair.timeoutSt]; omega
    · rcases hval with hv | ⟨w, hw, hv⟩
      · left; simp only [Pair.timeoutSt]; omega
      · right; exact ⟨w, hw, by simp only [Pair.timeoutSt]; omega⟩

/-- a `main` frame of a one-frame set published under id `n` (any balancing mark, payload identity, sender id) -/
structure IsMainW (w : Recv.Wire) (n : Int) : Prop where
  frame : w.frame0 = "/main/"
  topics : w.topics = ["main"]
  mid : w.mid = n

/-- a strictly newer `main` message completes the set at once (any balancing mark) -/
theorem onTake_newer_mainw (c : Recv.St) (s : Recv.Src) (w : Recv.Wire) (n : Int) (rest : List Recv.Wire) (h : Busy c s)
    (hw : IsMainW w n) (hq : s.queue = w :: rest) (hn : c.minRecvId < n) :
    ∃ s1, (Recv.onTake c 0).1.srcs = [s1] ∧ Recv.gotAll s1 = true := by
  have hs0 : c.srcs[0]? = some s := by rw [h.srcs]; rfl
  rcases w with ⟨f, sid, mid, tps, bl, body⟩
  have e1 : f = "/main/" := hw.frame
  have e2 : tps = ["main"] := hw.topics
  have e3 : mid = n := hw.mid
  subst e1 e2 e3
  have hpos : ¬ mid ≤ OF.Facts.MSG_ID_SPECIAL := by
    have := h.mono; have := h.prev
    have : OF.Facts.MSG_ID_SPECIAL = -2 := rfl
    omega
  have htopic : Recv.effTopic s.subAll s.subs (Recv.decodeTopic "/main/") = "main" := by
    rw [Pair.decode_main]; simp [Recv.effTopic, h.shape.subAll]
  unfold Recv.onTake
  simp only [hs0, hq, hpos, ↓reduceIte, htopic]
  have hbal : (if s.eph = 0 then bl else 0) = bl := by simp [h.shape.eph]
  rw [hbal]
  generalize hst1 : (if bl ≠ 0 then { c with balanced := bl } else c) = c1
  have e : c1.srcs = c.srcs ∧ c1.minRecvId = c.minRecvId ∧ c1.balance = c.balance := by
    subst hst1; by_cases hb : bl ≠ 0 <;> simp [hb]
  rcases e with ⟨e1, e5, e6⟩
  have hset : ∀ x : Recv.Src, c1.srcs.set 0 x = [x] := by intro x; rw [e1, h.srcs]; rfl
  split
  · rename_i hne; exact absurd h.shape.eph hne
  · have hpm : (Recv.processMsg { s with queue := rest, conn := true } { mid := mid, topic := "main", body := body, src := 0 } ["main"] c1.minRecvId) =
        (.newer, some [("main", some { mid := mid, topic := "main", body := body, src := 0 })]) := by
      unfold Recv.processMsg
      have h1 : ¬ mid < c1.minRecvId := by omega
      have h2 : mid > c1.minRecvId := by omega
      have h3 : ¬ mid = c1.minRecvId := by omega
      simp only [h1, ↓reduceIte]
      cases hr : s.recvd with
      | none => simp [h2]; exact Pair.initRecvd_main _ _ h.shape.star rfl
      | some l => simp [h3, Recv.newRecvWith, Recv.recvdNew, h.shape.subAll]; exact Pair.initRecvd_main _ _ h.shape.star rfl
    unfold Recv.takeSync
    rw [hpm]
    simp only [Recv.syncApply, hset, e6, h.static.balance]
    have hreset : ∀ x : Recv.Src, Recv.resetOthers [x] 0 = [x] := by intro x; simp [Recv.resetOthers]
    simp only [hreset, Bool.false_eq_true, not_false_eq_true, and_true, false_and, ↓reduceIte]
    refine ⟨_, rfl, ?_⟩
    have hst := Pair.storeRecvd_spec { s with queue := rest, conn := true }
      (some [("main", some { mid := mid, topic := "main", body := body, src := 0 })]) ["main"] h.shape.subAll h.reg
    rw [Recv.gotAll, hst.1]
    simp

theorem retOf_requests_cr (st : Recv.St) (k : Int) (rest : List Recv.Out) : retOf (Recv.requests st k ++ rest) = retOf rest := by
  unfold Recv.requests
  generalize (st.srcs.mapIdx fun i s => (i, s)) = l
  induction l with
  | nil => rfl
  | cons x xs ih =>
    rcases x with ⟨i, s⟩
    simp only [List.filterMap_cons]
    split
    · exact ih
    · rename_i o ho
      split at ho
      · cases ho; exact ih
      · cases ho

/-- a queued `main` message with an id beyond the one the call starts from is returned by that call -/
theorem call0_newer_gen (c : Recv.St) (s : Recv.Src) (state : Option Int) (w : Recv.Wire) (n : Int) (rest : List Recv.Wire)
    (h : Idle c s) (hw : IsMainW w n) (hq : s.queue = w :: rest) (hn : Recv.beginId c state < n) :
    ∃ bal data, retOf (Recv.call0 c state [0]).2 = some (n, bal, data) ∧ (Recv.call0 c state [0]).1.prevId = n := by
  have hb := beginSt_busy c s state h
  have hm0 : (beginSt c state).minRecvId = Recv.beginId c state := rfl
  have ⟨⟨s1, ht⟩, hquiet⟩ := Pair.onTake_busy (beginSt c state) s _ rest hb hq
  have ⟨s1', hs1, hg⟩ := onTake_newer_mainw (beginSt c state) s w n rest hb hw hq (by rw [hm0]; exact hn)
  have hs1eq : s1' = s1 := by
    have : [s1'] = [s1] := by rw [← hs1, ht.srcs]
    simpa using this
  subst hs1eq
  have ⟨hrc, hdone, _⟩ := Pair.took_next (beginSt c state) _ s s1' _ rest hb ht
  have hmin : (Recv.onTake (beginSt c state) 0).1.minRecvId = n := by
    have hsp : OF.Facts.MSG_ID_SPECIAL < w.mid := by
      rw [hw.mid]; have := h.prev; have := hb.mono; have hp0 : (beginSt c state).prevId = c.prevId := rfl
      have : OF.Facts.MSG_ID_SPECIAL = -2 := rfl; rw [hm0] at *; omega
    have h1 := ht.ge hsp
    rw [hw.mid] at h1
    rcases ht.val with hv | hv
    · rw [hm0] at hv; omega
    · rw [hv, hw.mid]
  rw [call0_unfold_state c s state h, hq]
  simp only [List.length_cons]
  rw [Pair.recvOnce0_cons _ (beginSt c state) s _ rest hb hq, hrc, hg]
  simp only [↓reduceIte]
  have ⟨data, pre, hpre0, _, hfin⟩ := Pair.finish_done _ s1' (hdone hg)
  rw [hfin]
  simp only
  refine ⟨(Recv.onTake (beginSt c state) 0).1.balanced, data, ?_, hmin⟩
  rw [retOf_noReqRet _ _ (noReqRet_of_quiet _ hquiet)]
  have hpre : ∀ (l : List Recv.Out), Recv.retIds l = [] → ∀ x, retOf (l ++ [x]) = retOf [x] := by
    intro l
    induction l with
    | nil => intro _ _; rfl
    | cons o l ih =>
      intro hl x
      cases o with
      | ret i b d => simp [Recv.retIds] at hl
      | oob _ _ => exact ih (by simpa [Recv.retIds] using hl) x
      | req _ _ _ _ => exact ih (by simpa [Recv.retIds] using hl) x
      | retNone => exact ih (by simpa [Recv.retIds] using hl) x
      | dupTopic _ => exact ih (by simpa [Recv.retIds] using hl) x
  rw [hpre pre hpre0, hmin]
  rfl

/-! ## `send(callable, state, 0)` from the shape alone -/
open OF.Send in
theorem onReq_noRet (st : Send.St) (j : Nat) (r : Send.Req) (t : Int) : NoRet (onReq st j r t).2.1 := by
  intro o ho
  unfold onReq at ho
  simp only at ho
  split at ho
  · split at ho
    · simp only [List.mem_singleton] at ho; subst ho
      exact ⟨(fun n hh => nomatch hh), (fun hh => nomatch hh)⟩
    · split at ho <;> cases ho
  · split at ho
    · cases ho
    · split at ho <;> cases ho

theorem noRet_append (a b : List Send.Out) (ha : NoRet a) (hb : NoRet b) : NoRet (a ++ b) := by
  intro o ho
  rcases List.mem_append.mp ho with h | h
  · exact ha o h
  · exact hb o h

theorem noRet_nil : NoRet [] := by intro o ho; cases ho

theorem sendRet_tail (a : List Send.Out) (n : Int) (h : NoRet a) : sendRet (a ++ [.ret n]) = some (some n) := by
  rw [sendRet_noRet _ _ h]; rfl

theorem sendRet_tailNone (a : List Send.Out) (h : NoRet a) : sendRet (a ++ [.retNone]) = some none := by
  rw [sendRet_noRet _ _ h]; rfl

theorem noRet_evaluated : NoRet [Send.Out.evaluated] := noRet_cons_evaluated [] noRet_nil

open OF.Send in
/-- the drain either consumes everything without returning, or a fast-forward ends the call: it returns the new `min_send_id` -/
theorem drain_ret : ∀ (f : Nat) (st : Send.St) (q : List Req) (t : Int), PubBusy st q → q.length < f →
    ((drain f st [0] t).1.inCall = true ∧ NoRet (drain f st [0] t).2) ∨
    ((drain f st [0] t).1.inCall = false ∧ sendRet (drain f st [0] t).2 = some (some (drain f st [0] t).1.minSendId)) := by
  intro f
  induction f with
  | zero => intro st q t _ hl; omega
  | succ f ih =>
    intro st q t h hl
    cases q with
    | nil =>
      rw [Pair.drain_nil f st t h]
      exact Or.inl ⟨h.inCall, noRet_nil⟩
    | cons r q' =>
      rw [Pair.drain_cons f st r q' t h, Pair.stepHandle_cons st r q' t h]
      have hp := Pair.popped_busy st r q' h
      have hnr := onReq_noRet (Pair.popped st q') 0 r t
      have ⟨T, hT, ht⟩ := Pair.exists_stale (Pair.popped st q').clients t
      have ⟨g1, _, _, _, _⟩ := Pair.onReq_general (Pair.popped st q') q' r t T hp hT ht
      split
      · simp only [endCall]
        rw [Pair.drain_ended _ _ _ rfl]
        right
        refine ⟨rfl, ?_⟩
        simp only [List.append_nil]
        rw [sendRet_noRet _ _ hnr]; rfl
      · have hl' : q'.length < f := by simp at hl; omega
        rcases ih _ q' t g1 hl' with ⟨i1, i2⟩ | ⟨i1, i2⟩
        · exact Or.inl ⟨i1, noRet_append _ _ hnr i2⟩
        · exact Or.inr ⟨i1, by rw [sendRet_noRet _ _ hnr]; exact i2⟩

/-- what one `send(callable, state, 0)` of a single-output publisher does, whatever is queued -/
structure SendGen (p : Send.St) (q : List Send.Req) (T : Int) (r : Send.St × List Send.Out) (q' : List Send.Req) : Prop where
  idle : PubIdle r.1 q'
  suffix : ∃ pre, q = pre ++ q'
  shorter : q' = [] ∨ q'.length < q.length
  stale : Stale T r.1.clients
  mono : p.minSendId ≤ r.1.minSendId
  ret : (sendRet r.2 = some none ∧ r.1.minSendId = p.minSendId ∧ q' = []) ∨ sendRet r.2 = some (some r.1.minSendId)

open OF.Send in
theorem send0_gen (p : Send.St) (q : List Req) (state : Option (Int × Nat)) (res : Option (List (String × Nat))) (t T : Int)
    (h : PubIdle p q) (hk : p.minSendId ≤ (callKey p state).1) (hs : Stale T p.clients) (ht : t ≤ T) :
    ∃ q', SendGen p q T (send0 p state (.deferred res) false [0] t) q' := by
  have ⟨hbusy, heq⟩ := send0_unfold_gen p q state (.deferred res) t h hk
  rw [heq]
  have ⟨d1, _, d3⟩ := Pair.drain_spec (q.length + 1) _ q t T hbusy hs ht (by omega)
  have dr := drain_ret (q.length + 1) _ q t hbusy (by omega)
  have df := Pair.drain_facts (q.length + 1) _ q t T hbusy hs ht (by omega)
  have hmin0 : (beginWith p (callKey p state).1 (callKey p state).2 (.deferred res) false).minSendId = p.minSendId := rfl
  have hpay0 : (beginWith p (callKey p state).1 (callKey p state).2 (.deferred res) false).payload = .deferred res := rfl
  generalize drain (q.length + 1) (beginWith p (callKey p state).1 (callKey p state).2 (.deferred res) false) [0] t = d at d1 d3 dr df ⊢
  rcases d3 with ⟨d3, d4⟩ | ⟨q', d3, d4⟩
  · -- drained
    simp only [d3.inCall, Bool.true_eq_false, ↓reduceIte]
    have hnr : NoRet d.2 := by
      rcases dr with ⟨_, x⟩ | ⟨x, _⟩
      · exact x
      · rw [d3.inCall] at x; cases x
    have hmin : d.1.minSendId = p.minSendId := by
      rcases df with ⟨_, e, _⟩ | ⟨q', e, _⟩
      · rw [e, hmin0]
      · have := e.inCall; rw [d3.inCall] at this; cases this
    have sm := Pair.sendMaybe_general _ [] T d3 d1
    have ss := (Send.sendMaybe_spec d.1).2.2.2.2
    have hpay : d.1.payload = .deferred res := by rw [d4, hpay0]
    rcases sendMaybe_deferred d.1 res hpay d3.balance with e | ⟨_, e⟩ | ⟨ts, _, e⟩
    · rw [e] at sm ⊢
      simp only [Bool.false_eq_true, ↓reduceIte]
      refine ⟨[], ⟨sm.1, sm.2.1, sm.2.2.1, rfl, sm.2.2.2.2.1⟩, ⟨q, by simp⟩, Or.inl rfl, sm.2.2.2.2.2, by simp only; omega, Or.inl ⟨?_, hmin, rfl⟩⟩
      exact sendRet_tailNone _ (noRet_append _ _ hnr (noRet_hello _ _))
    · rw [e] at sm ⊢
      simp only [↓reduceIte]
      refine ⟨[], ⟨sm.1, sm.2.1, sm.2.2.1, rfl, sm.2.2.2.2.1⟩, ⟨q, by simp⟩, Or.inl rfl, sm.2.2.2.2.2, by simp only; omega, Or.inr ?_⟩
      exact sendRet_tail _ _ (noRet_append _ _ hnr (noRet_append _ _ noRet_evaluated (noRet_hello _ _)))
    · have hge : p.minSendId ≤ (sendMaybe d.1).1.minSendId := by
        rcases ss with ⟨_, e2⟩ | ⟨_, e2⟩
        · rw [e2, hmin]; omega
        · have hm : d.1.msgId = (callKey p state).1 := by
            rcases df with ⟨_, _, e3⟩ | ⟨q', e3, _⟩
            · rw [e3]; rfl
            · have := e3.inCall; rw [d3.inCall] at this; cases this
          rw [e2, hm]; omega
      rw [e] at sm hge ⊢
      simp only [↓reduceIte]
      refine ⟨[], ⟨sm.1, sm.2.1, sm.2.2.1, rfl, sm.2.2.2.2.1⟩, ⟨q, by simp⟩, Or.inl rfl, sm.2.2.2.2.2, hge, Or.inr ?_⟩
      exact sendRet_tail _ _ (noRet_append _ _ hnr (noRet_append _ _ noRet_evaluated (noRet_publish _ _)))
  · simp only [d3.inCall, ↓reduceIte]
    have hret : sendRet d.2 = some (some d.1.minSendId) := by
      rcases dr with ⟨x, _⟩ | ⟨_, x⟩
      · rw [d3.inCall] at x; cases x
      · exact x
    rcases df with ⟨e, _⟩ | ⟨q2, e1, e2, r, hr, e3, _, e4⟩
    · have := e.inCall; rw [d3.inCall] at this; cases this
    · have hqq : q2 = q' := by
        have := e1.queues; rw [d3.queues] at this; simpa using this.symm
      subst hqq
      refine ⟨q2, d3, e2, Or.inr d4, d1, ?_, Or.inr hret⟩
      have hm : (beginWith p (callKey p state).1 (callKey p state).2 (.deferred res) false).msgId = (callKey p state).1 := rfl
      rw [e4]; rw [hm] at e3; omega

/-! ### exactly one request queued: handshake, fast-forward, publish (any `state`, the payload a callable giving `{'main': b}`) -/

def mainPl (b : Nat) : Send.Payload := .deferred (some [("main", b)])

def mainW (u : Nat) (a : Int) (b bl : Nat) : Recv.Wire :=
  { frame0 := "/main/", sid := cidOf u, mid := a, topics := ["main"], bal := bl, body := b }
def hbW3 (u : Nat) (a : Int) (bl : Nat) : Recv.Wire :=
  { frame0 := "//", sid := cidOf u, mid := a, topics := ["main"], bal := bl, body := 0 }

theorem isMainW_mainW (u : Nat) (a : Int) (b bl : Nat) : IsMainW (mainW u a b bl) a := ⟨rfl, rfl, rfl⟩

open OF.Send in
theorem send0_hello_gen (u : Nat) (p : Send.St) (r : Req) (state : Option (Int × Nat)) (b : Nat) (t : Int) (h : PubIdle p [r])
    (hk : p.minSendId ≤ (callKey p state).1)
    (hd : ¬ r.mid ≤ OF.Facts.MSG_ID_SPECIAL) (hn : Pair.needsHello p r = true) :
    PubIdle (send0 p state (mainPl b) false [0] t).1 [] ∧
    (send0 p state (mainPl b) false [0] t).1.clients = p.clients ∧
    (send0 p state (mainPl b) false [0] t).1.minSendId = p.minSendId ∧
    (send0 p state (mainPl b) false [0] t).2.filterMap (wireOf u) = [helloW u] ∧
    sendRet (send0 p state (mainPl b) false [0] t).2 = some none := by
  have ⟨hb, heq⟩ := send0_unfold_gen p [r] state (mainPl b) t h hk
  have hn' : Pair.needsHello (Pair.popped (beginWith p (callKey p state).1 (callKey p state).2 (mainPl b) false) []) r = true := hn
  have ho := Pair.onReq_newconn (Pair.popped (beginWith p (callKey p state).1 (callKey p state).2 (mainPl b) false) []) r t hd hn'
  have hdr := Pair.drain_one _ r t hb (by rw [ho]; simp) (by rw [ho]; rfl) (by rw [ho]; rfl)
  rw [heq]
  simp only [List.length_cons, List.length_nil, Nat.zero_add, Nat.reduceAdd]
  rw [hdr, ho]
  simp only
  rw [Pair.sendMaybe_nosend _ rfl rfl]
  simp only [Pair.popped, beginWith, Bool.true_eq_false, ↓reduceIte, Bool.false_eq_true,
    helloOuts, Option.isSome_some, Bool.or_true, Bool.and_self,
    allOuts, List.length_cons, List.length_nil, Nat.zero_add, List.range_one, List.map_cons, List.map_nil,
    List.nil_append, List.append_nil]
  refine ⟨⟨rfl, h.balance, h.required, rfl, h.minpos⟩, trivial, trivial, ?_, ?_⟩
  · simp [wireOf, helloW]
  · rfl

open OF.Send in
theorem send0_ffwd_gen (u : Nat) (p : Send.St) (r : Req) (state : Option (Int × Nat)) (b : Nat) (t : Int) (h : PubIdle p [r])
    (hk : p.minSendId ≤ (callKey p state).1)
    (hd : ¬ r.mid ≤ OF.Facts.MSG_ID_SPECIAL) (hn : Pair.needsHello p r = false) (he : r.eph = 0)
    (hge : r.mid ≥ (callKey p state).1) :
    PubIdle (send0 p state (mainPl b) false [0] t).1 [] ∧
    (send0 p state (mainPl b) false [0] t).1.clients = cset p.clients (Pair.fidOf r) (Pair.entryOf r t) ∧
    (send0 p state (mainPl b) false [0] t).1.minSendId = r.mid + 1 ∧
    (send0 p state (mainPl b) false [0] t).2.filterMap (wireOf u) = [] ∧
    sendRet (send0 p state (mainPl b) false [0] t).2 = some (some (r.mid + 1)) := by
  have ⟨hb, heq⟩ := send0_unfold_gen p [r] state (mainPl b) t h hk
  have hn' : Pair.needsHello (Pair.popped (beginWith p (callKey p state).1 (callKey p state).2 (mainPl b) false) []) r = false := hn
  have ho := Pair.onReq_ffwd (Pair.popped (beginWith p (callKey p state).1 (callKey p state).2 (mainPl b) false) []) r t hd hn' he hge
  have hdr : drain 2 (beginWith p (callKey p state).1 (callKey p state).2 (mainPl b) false) [0] t =
      ((endCall (onReq (Pair.popped (beginWith p (callKey p state).1 (callKey p state).2 (mainPl b) false) []) 0 r t).1).1,
       (onReq (Pair.popped (beginWith p (callKey p state).1 (callKey p state).2 (mainPl b) false) []) 0 r t).2.1 ++
         (endCall (onReq (Pair.popped (beginWith p (callKey p state).1 (callKey p state).2 (mainPl b) false) []) 0 r t).1).2) := by
    rw [Pair.drain_cons 1 _ r [] t hb, Pair.stepHandle_cons _ r [] t hb]
    have : (onReq (Pair.popped (beginWith p (callKey p state).1 (callKey p state).2 (mainPl b) false) []) 0 r t).2.2 = .ffwd := by rw [ho]
    simp only [this, ↓reduceIte]
    rw [Pair.drain_ended _ _ _ rfl]
    simp
  rw [heq]
  simp only [List.length_cons, List.length_nil, Nat.zero_add, Nat.reduceAdd]
  rw [hdr, ho]
  simp only [endCall, ↓reduceIte]
  refine ⟨⟨rfl, h.balance, h.required, rfl, ?_⟩, rfl, trivial, ?_, ?_⟩
  · have : OF.Facts.MSG_ID_SPECIAL = -2 := rfl
    simp only; omega
  · simp [wireOf]
  · rfl

open OF.Send in
theorem send0_publish_gen (u : Nat) (p : Send.St) (r : Req) (state : Option (Int × Nat)) (b : Nat) (t : Int) (h : PubIdle p [r])
    (hk : p.minSendId ≤ (callKey p state).1)
    (hd : ¬ r.mid ≤ OF.Facts.MSG_ID_SPECIAL) (hn : Pair.needsHello p r = false) (hlt : r.mid < (callKey p state).1)
    (hs : OthersStale (Pair.fidOf r) t p.clients) :
    PubIdle (send0 p state (mainPl b) false [0] t).1 [] ∧
    (∀ x ∈ (send0 p state (mainPl b) false [0] t).1.clients, x.1 = Pair.fidOf r) ∧
    (send0 p state (mainPl b) false [0] t).1.clients.any (·.1 == Pair.fidOf r) = true ∧
    (send0 p state (mainPl b) false [0] t).1.minSendId = (callKey p state).1 + 1 ∧
    (∃ bl, (send0 p state (mainPl b) false [0] t).2.filterMap (wireOf u) =
      [mainW u (callKey p state).1 b bl, hbW3 u (callKey p state).1 bl]) ∧
    sendRet (send0 p state (mainPl b) false [0] t).2 = some (some ((callKey p state).1 + 1)) := by
  have ⟨hb, heq⟩ := send0_unfold_gen p [r] state (mainPl b) t h hk
  have hn' : Pair.needsHello (Pair.popped (beginWith p (callKey p state).1 (callKey p state).2 (mainPl b) false) []) r = false := hn
  have ho := Pair.onReq_normal (Pair.popped (beginWith p (callKey p state).1 (callKey p state).2 (mainPl b) false) []) r t hd hn' hlt
    h.balance h.required
  have hev := Pair.evalClients_stale p.clients r t hs
  have hcl : (Pair.popped (beginWith p (callKey p state).1 (callKey p state).2 (mainPl b) false) []).clients = p.clients := rfl
  rw [hcl] at ho
  generalize hE : evalClients false (t - OF.Facts.ZMQ_CONN_TIMEOUT) (cset p.clients (Pair.fidOf r) (Pair.entryOf r t))
    (cset p.clients (Pair.fidOf r) (Pair.entryOf r t), true, []) = E at ho hev
  rcases E with ⟨cl', ds', outs'⟩
  simp only at ho hev
  rcases hev with ⟨hds, houts, hmine, hall⟩
  subst hds houts
  have hdr := Pair.drain_one _ r t hb (by rw [ho]; simp) (by rw [ho]; rfl) (by rw [ho]; rfl)
  rw [heq]
  simp only [List.length_cons, List.length_nil, Nat.zero_add, Nat.reduceAdd]
  rw [hdr, ho]
  simp only
  have hne : cl'.isEmpty = false := by
    cases cl' with
    | nil => cases hmine
    | cons _ _ => rfl
  have hgate : ∀ (x : Send.St), x.doSend = true → x.clients = cl' → x.push = false → x.payload = mainPl b → x.balance = false →
      x.doHello = false →
      sendMaybe x = ((publish { x with doHello := false, payload := .topics [("main", b)] } [("main", b)]).1,
        [.evaluated] ++ (publish { x with doHello := false, payload := .topics [("main", b)] } [("main", b)]).2, true) := by
    intro x h1 h2 h3 h4 h5 h6
    have hg : gate x = (none, .topics [("main", b)], [.evaluated]) := by
      unfold gate
      simp only [h1, h2, hne, h3, h4, mainPl, Bool.not_true, Bool.or_self, Bool.false_and, Bool.false_eq_true, ↓reduceIte]
    unfold sendMaybe
    simp only [hg, payloadTopics, helloOuts, h6, Bool.false_and, Bool.false_eq_true, ↓reduceIte, List.append_nil]
  rw [hgate]
  rotate_left
  · rfl
  · rfl
  · rfl
  · rfl
  · exact h.balance
  · rfl
  simp only [Pair.popped, beginWith, Bool.true_eq_false, ↓reduceIte,
    publish, pubTargets, h.balance, allOuts, List.length_cons, List.length_nil, Nat.zero_add, List.range_one,
    Bool.not_false, Bool.true_or, List.flatMap_cons, List.flatMap_nil, List.map_cons, List.map_nil, List.append_nil,
    Pair.frame0_main, Bool.false_eq_true]
  refine ⟨⟨rfl, rfl, h.required, rfl, by simp only; have := h.minpos; omega⟩, ?_, ?_, trivial, ?_, ?_⟩
  · intro x hx
    simp only [List.mem_map] at hx
    rcases hx with ⟨y, hy, rfl⟩
    rw [hall y hy]
  · rw [List.any_eq_true]
    exact ⟨_, List.mem_map.mpr ⟨_, hmine, rfl⟩, by simp⟩
  · refine ⟨(if (callKey p state).2 ≠ 0 then (callKey p state).2 + 1 else 0), ?_⟩
    simp [mainW, hbW3, envBal, h.balance]
    simp only [List.filterMap_cons, List.filterMap_nil, wireOf, Pair.slash_main, Pair.slash_hb, if_true]
  · rfl

/-! ## the 3-node chain -/

abbrev T3 : Topo := chainTopo 3
theorem t3_ups0 : T3.upsOf 0 = [] := by decide
theorem t3_ups1 : T3.upsOf 1 = [0] := by decide
theorem t3_ups2 : T3.upsOf 2 = [1] := by decide
theorem t3_out0 : T3.hasOut 0 = true := by decide
theorem t3_out1 : T3.hasOut 1 = true := by decide
theorem t3_out2 : T3.hasOut 2 = false := by decide

/-- the source always has a next frame, the relay forwards every set; results are one-frame `main` dicts (directly, as a lone
frame, or through a callable) -/
def FwdMain (proc : Proc) : Prop :=
  ∀ i n h, i < 2 → ∃ b, dictOf (Loop.processFrames (proc i n h)) = some [("main", b)]

/-- what a node holds is a one-frame `main` dict -/
def PendMain (nd : Node) : Prop := ∀ p, nd.pending = some p → ∃ b, dictOf p.res = some [("main", b)]

/-- the id the next `recv` of the node starts from -/
def floorOf (nd : Node) : Int := Recv.beginId nd.con nd.recvState

structure N0 (nd : Node) : Prop where
  srcs : nd.con.srcs = []
  pub : ∃ q, PubIdle nd.pub q
  sstate : nd.sendState = none
  main : PendMain nd

structure N1 (nd : Node) : Prop where
  con : ∃ s, Idle nd.con s
  pub : ∃ q, PubIdle nd.pub q
  main : PendMain nd
  held : ∀ p, nd.pending = some p → ∃ a bl, nd.sendState = some (a, bl) ∧ nd.pub.minSendId ≤ a
  free : nd.pending = none → nd.pub.minSendId ≤ floorOf nd

structure N2 (nd : Node) : Prop where
  con : ∃ s, Idle nd.con s
  rstate : nd.recvState = none

/-- **the invariant**: the three nodes with their endpoint shapes and the relay's loop state; NOTHING about what is queued
anywhere, about client tables or about ids -/
def RShape (st : St) : Prop := ∃ n0 n1 n2, st.nodes = [n0, n1, n2] ∧ N0 n0 ∧ N1 n1 ∧ N2 n2

/-! ### pushing junk keeps the shapes -/

theorem pubIdle_pushReqs_net (p : Send.St) (q rs : List Send.Req) (h : PubIdle p q) : PubIdle (pushReqs p rs) (q ++ rs) :=
  ⟨by simp [pushReqs, h.queues], h.balance, h.required, h.inCall, h.minpos⟩

theorem pushWires_nosrc (c : Recv.St) (ups : List Nat) (p : Nat) (ws : List Recv.Wire) (h : c.srcs = []) : pushWires c ups p ws = c := by
  cases c; simp only at h; subst h; simp [pushWires]

theorem pushWires_hit (c : Recv.St) (s : Recv.Src) (p : Nat) (ws : List Recv.Wire) (h : c.srcs = [s]) :
    pushWires c [p] p ws = { c with srcs := [{ s with queue := s.queue ++ ws }] } := by
  simp [pushWires, h]

theorem pushWires_miss (c : Recv.St) (s : Recv.Src) (u p : Nat) (ws : List Recv.Wire) (h : c.srcs = [s]) (hne : u ≠ p) :
    pushWires c [u] p ws = c := by
  cases c; simp only at h; subst h; simp [pushWires, hne]

theorem idle_queue (c : Recv.St) (s : Recv.Src) (q : List Recv.Wire) (h : Idle c s) :
    Idle { c with srcs := [{ s with queue := q }] } { s with queue := q } := by
  refine ⟨rfl, ⟨h.shape.eph, h.shape.subAll, h.shape.star, h.shape.subs⟩,
    ⟨h.static.dead, h.static.balance, h.static.lowLat⟩, h.reg, ?_, h.keys, h.inCall, h.prev⟩
  exact (Pair.gotAll_congr _ s rfl).trans h.notAll

theorem idle_pushWires_one (c : Recv.St) (s : Recv.Src) (u p : Nat) (ws : List Recv.Wire) (h : Idle c s) :
    ∃ s', Idle (pushWires c [u] p ws) s' := by
  by_cases hu : u = p
  · subst hu
    rw [pushWires_hit c s u ws h.srcs]
    exact ⟨_, idle_queue c s _ h⟩
  · rw [pushWires_miss c s u p ws h.srcs hu]; exact ⟨s, h⟩

theorem n0_push (nd : Node) (h : N0 nd) (ups : List Nat) (p : Nat) (ws : List Recv.Wire) (rs : List Send.Req) :
    N0 { nd with con := pushWires nd.con ups p ws, pub := pushReqs nd.pub rs } := by
  rcases h.pub with ⟨q, hq⟩
  refine ⟨?_, ⟨_, pubIdle_pushReqs_net _ q rs hq⟩, h.sstate, h.main⟩
  show (pushWires nd.con ups p ws).srcs = []
  rw [pushWires_nosrc _ _ _ _ h.srcs]; exact h.srcs

theorem n1_push (nd : Node) (h : N1 nd) (u p : Nat) (ws : List Recv.Wire) (rs : List Send.Req) :
    N1 { nd with con := pushWires nd.con [u] p ws, pub := pushReqs nd.pub rs } := by
  rcases h.pub with ⟨q, hq⟩
  rcases h.con with ⟨s, hs⟩
  have hprev : (pushWires nd.con [u] p ws).prevId = nd.con.prevId := rfl
  refine ⟨idle_pushWires_one _ s u p ws hs, ⟨_, pubIdle_pushReqs_net _ q rs hq⟩, h.main, h.held, ?_⟩
  intro hp
  have := h.free hp
  exact this

theorem n2_push (nd : Node) (h : N2 nd) (u p : Nat) (ws : List Recv.Wire) (rs : List Send.Req) :
    N2 { nd with con := pushWires nd.con [u] p ws, pub := pushReqs nd.pub rs } := by
  rcases h.con with ⟨s, hs⟩
  exact ⟨idle_pushWires_one _ s u p ws hs, h.rstate⟩

/-! ### fresh nodes -/

theorem idle_freshCon : Idle (Recv.mkSt [Recv.mkSrc 0 none] false false) (Recv.mkSrc 0 none) := Pair.idle_fresh
theorem pubIdle_freshPub : PubIdle (Send.mkSt 1 false []) [] := Pair.pubIdle_fresh

theorem n0_fresh (g : Nat) : N0 (freshNode T3 0 g) := by
  refine ⟨by simp [freshNode, t3_ups0, Recv.mkSt], ⟨_, pubIdle_freshPub⟩, rfl, ?_⟩
  intro p hp; cases hp

theorem n1_fresh (g : Nat) : N1 (freshNode T3 1 g) := by
  have hc : (freshNode T3 1 g).con = Recv.mkSt [Recv.mkSrc 0 none] false false := by simp [freshNode, t3_ups1]
  refine ⟨⟨_, by rw [hc]; exact idle_freshCon⟩, ⟨_, pubIdle_freshPub⟩, ?_, ?_, ?_⟩
  · intro p hp; cases hp
  · intro p hp; cases hp
  · intro _
    show (Send.mkSt 1 false []).minSendId ≤ Recv.beginId (freshNode T3 1 g).con none
    rw [hc]; decide

theorem n2_fresh (g : Nat) : N2 (freshNode T3 2 g) := by
  have hc : (freshNode T3 2 g).con = Recv.mkSt [Recv.mkSrc 0 none] false false := by simp [freshNode, t3_ups2]
  exact ⟨⟨_, by rw [hc]; exact idle_freshCon⟩, rfl⟩

/-! ### what the acting node becomes -/

theorem retOf_ret_case (o1 pre : List Recv.Out) (id : Int) (bal : Nat) (data : List (Topic × Recv.Msg)) (cn : Bool)
    (h1 : NoReqRet o1) (h2 : pre = [] ∨ pre = [.req 0 id 0 cn]) :
    retOf (o1 ++ (pre ++ [.ret id bal data])) = some (id, bal, data) := by
  rw [retOf_noReqRet _ _ h1]
  rcases h2 with rfl | rfl <;> rfl

theorem retOf_timeout_case (o1 : List Recv.Out) (k : Int) (cn : Bool) (h1 : NoReqRet o1) :
    retOf (o1 ++ [.req 0 k 0 cn, .retNone]) = none := by
  rw [retOf_noReqRet _ _ h1]; rfl

theorem beginId_ge (c : Recv.St) (state : Option Int) : c.prevId + 1 ≤ Recv.beginId c state := by
  unfold Recv.beginId
  cases state with
  | none => exact Int.le_refl _
  | some k => simp only; omega

theorem beginId_mono (c c' : Recv.St) (state : Option Int) (h : Recv.beginId c state - 1 ≤ c'.prevId) :
    Recv.beginId c state ≤ Recv.beginId c' state := by
  have := beginId_ge c' state
  omega

theorem pendMain_processed (proc : Proc) (hf : FwdMain proc) (i : Nat) (hi : i < 2) (nd : Node) (fs : List HFrame) :
    PendMain (processed proc i nd fs) := by
  intro p hp
  simp only [processed, Option.some.injEq] at hp
  subst hp
  exact hf i nd.count _ hi

theorem n0_processed (proc : Proc) (hf : FwdMain proc) (nd : Node) (h : N0 nd) : N0 (processed proc 0 nd []) :=
  ⟨h.srcs, h.pub, h.sstate, pendMain_processed proc hf 0 (by omega) nd []⟩

/-- the payload a node offers for a one-frame `main` result -/
theorem payloadOf_main (base : Nat) (res : Loop.Sendable Nat) (b : Nat) (h : dictOf res = some [("main", b)]) :
    payloadOf base res = mainPl base := by
  simp [payloadOf, h, relabel, mainPl]

theorem n0_afterSend (nd : Node) (p : Pending) (base : Nat) (t : Int) (h : N0 nd) (hp : nd.pending = some p) :
    N0 (afterSend nd p (Send.send0 nd.pub nd.sendState (payloadOf base p.res) false [0] t)) := by
  rcases h.pub with ⟨q, hq⟩
  have ⟨T, hT, ht⟩ := Pair.exists_stale nd.pub.clients t
  have hk : nd.pub.minSendId ≤ (callKey nd.pub nd.sendState).1 := by rw [h.sstate]; exact Int.le_refl _
  have ⟨q', hg⟩ := send0_gen nd.pub q nd.sendState ((dictOf p.res).map (relabel base)) t T hq hk hT ht
  have hpl : payloadOf base p.res = .deferred ((dictOf p.res).map (relabel base)) := rfl
  rw [hpl]
  generalize Send.send0 nd.pub nd.sendState (.deferred ((dictOf p.res).map (relabel base))) false [0] t = R at hg
  unfold afterSend
  split
  · refine ⟨h.srcs, ⟨q', hg.idle⟩, rfl, ?_⟩
    intro p' hp'; cases hp'
  · exact ⟨h.srcs, ⟨q', hg.idle⟩, h.sstate, h.main⟩

theorem n1_afterSend (nd : Node) (p : Pending) (base : Nat) (t : Int) (h : N1 nd) (hp : nd.pending = some p) :
    N1 (afterSend nd p (Send.send0 nd.pub nd.sendState (payloadOf base p.res) false [0] t)) := by
  rcases h.pub with ⟨q, hq⟩
  have ⟨T, hT, ht⟩ := Pair.exists_stale nd.pub.clients t
  have ⟨a, bl, hss, hle⟩ := h.held p hp
  have hk : nd.pub.minSendId ≤ (callKey nd.pub nd.sendState).1 := by rw [hss]; exact hle
  have ⟨q', hg⟩ := send0_gen nd.pub q nd.sendState ((dictOf p.res).map (relabel base)) t T hq hk hT ht
  have hpl : payloadOf base p.res = .deferred ((dictOf p.res).map (relabel base)) := rfl
  have ⟨b, hb⟩ := h.main p hp
  rw [hpl]
  generalize Send.send0 nd.pub nd.sendState (.deferred ((dictOf p.res).map (relabel base))) false [0] t = R at hg
  unfold afterSend
  split
  · rename_i n hn
    have hn' : n = R.1.minSendId := by
      rcases hg.ret with ⟨e, _⟩ | e
      · rw [e] at hn; cases hn
      · rw [e] at hn; simpa using hn.symm
    refine ⟨h.con, ⟨q', hg.idle⟩, ?_, ?_, ?_⟩
    · intro p' hp'; cases hp'
    · intro p' hp'; cases hp'
    · intro _
      have hd : (dictOf p.res).isNone = false := by rw [hb]; rfl
      simp only [hd, Bool.and_false, Bool.false_eq_true, ↓reduceIte, floorOf, Recv.beginId]
      rw [hn']; omega
  · rename_i hnr
    refine ⟨h.con, ⟨q', hg.idle⟩, h.main, ?_, ?_⟩
    · intro p' hp'
      have ⟨a', bl', e1, e2⟩ := h.held p' hp'
      refine ⟨a', bl', e1, ?_⟩
      rcases hg.ret with ⟨_, e, _⟩ | e
      · show R.1.minSendId ≤ a'; rw [e]; exact e2
      · exact absurd e (hnr _)
    · intro hpn; rw [hp] at hpn; cases hpn

theorem n1_afterRecv (proc : Proc) (hf : FwdMain proc) (tbl : List Entry) (nd : Node) (h : N1 nd) (hp : nd.pending = none) :
    N1 (afterRecv proc tbl 1 nd (Recv.call0 nd.con nd.recvState [0])) := by
  rcases h.con with ⟨s, hs⟩
  have ⟨s', ho⟩ := call0_gen nd.con s nd.recvState hs
  have hfree := h.free hp
  generalize Recv.call0 nd.con nd.recvState [0] = R at ho
  rcases ho.out with ⟨o1, pre, id, bal, data, h1, h2, h3, h4, h5, _⟩ | ⟨o1, h1, h2, _⟩
  · have hr : retOf R.2 = some (id, bal, data) := by rw [h2]; exact retOf_ret_case _ _ _ _ _ _ h1 h3
    unfold afterRecv
    rw [hr]
    refine ⟨⟨s', ho.idle⟩, h.pub, pendMain_processed proc hf 1 (by omega) _ _, ?_, ?_⟩
    · intro p' _
      exact ⟨id, bal, rfl, by show nd.pub.minSendId ≤ id; unfold floorOf at hfree; omega⟩
    · intro hc; simp [processed] at hc
  · have hr : retOf R.2 = none := by rw [h2]; exact retOf_timeout_case _ _ _ h1
    unfold afterRecv
    rw [hr]
    refine ⟨⟨s', ho.idle⟩, h.pub, h.main, h.held, ?_⟩
    intro _
    have := beginId_mono nd.con R.1 nd.recvState ho.floor
    show nd.pub.minSendId ≤ Recv.beginId R.1 nd.recvState
    unfold floorOf at hfree; omega

theorem n2_afterRecv (proc : Proc) (tbl : List Entry) (nd : Node) (h : N2 nd) :
    N2 (afterRecv proc tbl 2 nd (Recv.call0 nd.con nd.recvState [0])) := by
  rcases h.con with ⟨s, hs⟩
  have ⟨s', ho⟩ := call0_gen nd.con s nd.recvState hs
  generalize Recv.call0 nd.con nd.recvState [0] = R at ho
  unfold afterRecv
  split
  · exact ⟨⟨s', ho.idle⟩, h.rstate⟩
  · exact ⟨⟨s', ho.idle⟩, rfl⟩

/-! ### every event keeps the invariant -/

theorem range_single (c : Recv.St) (s : Recv.Src) (h : c.srcs = [s]) : List.range c.srcs.length = [0] := by
  rw [h]; rfl

theorem isEmpty_single (c : Recv.St) (s : Recv.Src) (h : c.srcs = [s]) : c.srcs.isEmpty = false := by
  rw [h]; rfl

theorem reaches_main (b : Bool) (res : Loop.Sendable Nat) (x : Nat) (h : dictOf res = some [("main", x)]) :
    Loop.reachesSender b res = b := by
  cases res with
  | none => cases h
  | dict d => rfl
  | deferred r => rfl

theorem rshape_recv (proc : Proc) (hf : FwdMain proc) (st : St) (i : Nat) (h : RShape st) : RShape (stepRecv T3 proc st i).1 := by
  rcases h with ⟨n0, n1, n2, hn, h0, h1, h2⟩
  unfold stepRecv
  match i with
  | 0 =>
    simp only [hn, List.getElem?_cons_zero]
    split
    · exact ⟨n0, n1, n2, hn, h0, h1, h2⟩
    · simp only [h0.srcs, List.isEmpty_nil, ↓reduceIte, recvSource, hn, List.set_cons_zero]
      exact ⟨_, n1, n2, rfl, n0_processed proc hf n0 h0, h1, h2⟩
  | 1 =>
    simp only [hn, List.getElem?_cons_succ, List.getElem?_cons_zero]
    rcases h1.con with ⟨s, hs⟩
    split
    · exact ⟨n0, n1, n2, hn, h0, h1, h2⟩
    · rename_i hp
      have hp' : n1.pending = none := by
        cases hx : n1.pending with
        | none => rfl
        | some _ => rw [hx] at hp; exact absurd rfl hp
      simp only [isEmpty_single _ s hs.srcs, Bool.false_eq_true, ↓reduceIte, recvRelay, hn, range_single _ s hs.srcs,
        List.set_cons_succ, List.set_cons_zero, deliverReqs, List.mapIdx_cons, List.mapIdx_nil]
      refine ⟨_, _, _, rfl, ?_, ?_, ?_⟩
      · have := n0_push n0 h0 [] 0 [] ((Recv.call0 n1.con n1.recvState [0]).2.filterMap (reqOf 1 n1.gen (T3.upsOf 1) 0))
        rw [pushWires_nil] at this; exact this
      · have := n1_push _ (n1_afterRecv proc hf st.tbl n1 h1 hp') 0 0 []
          ((Recv.call0 n1.con n1.recvState [0]).2.filterMap (reqOf 1 n1.gen (T3.upsOf 1) (0 + 1)))
        rw [pushWires_nil] at this; exact this
      · have := n2_push n2 h2 0 0 [] ((Recv.call0 n1.con n1.recvState [0]).2.filterMap (reqOf 1 n1.gen (T3.upsOf 1) (0 + 1 + 1)))
        rw [pushWires_nil] at this; exact this
  | 2 =>
    simp only [hn, List.getElem?_cons_succ, List.getElem?_cons_zero]
    rcases h2.con with ⟨s, hs⟩
    split
    · exact ⟨n0, n1, n2, hn, h0, h1, h2⟩
    · simp only [isEmpty_single _ s hs.srcs, Bool.false_eq_true, ↓reduceIte, recvRelay, hn, range_single _ s hs.srcs,
        List.set_cons_succ, List.set_cons_zero, deliverReqs, List.mapIdx_cons, List.mapIdx_nil]
      refine ⟨_, _, _, rfl, ?_, ?_, ?_⟩
      · have := n0_push n0 h0 [] 0 [] ((Recv.call0 n2.con n2.recvState [0]).2.filterMap (reqOf 2 n2.gen (T3.upsOf 2) 0))
        rw [pushWires_nil] at this; exact this
      · have := n1_push n1 h1 0 0 [] ((Recv.call0 n2.con n2.recvState [0]).2.filterMap (reqOf 2 n2.gen (T3.upsOf 2) (0 + 1)))
        rw [pushWires_nil] at this; exact this
      · have := n2_push _ (n2_afterRecv proc st.tbl n2 h2) 0 0 []
          ((Recv.call0 n2.con n2.recvState [0]).2.filterMap (reqOf 2 n2.gen (T3.upsOf 2) (0 + 1 + 1)))
        rw [pushWires_nil] at this; exact this
  | k + 3 =>
    simp only [hn, List.getElem?_cons_succ, List.getElem?_nil]
    exact ⟨n0, n1, n2, hn, h0, h1, h2⟩

theorem rshape_send (proc : Proc) (st : St) (i : Nat) (t : Int) (h : RShape st) : RShape (stepSend T3 st i t).1 := by
  rcases h with ⟨n0, n1, n2, hn, h0, h1, h2⟩
  unfold stepSend
  match i with
  | 0 =>
    simp only [hn, List.getElem?_cons_zero]
    split
    · exact ⟨n0, n1, n2, hn, h0, h1, h2⟩
    · rename_i p hp
      have ⟨b, hb⟩ := h0.main p hp
      simp only [reaches_main _ _ b hb, t3_out0, ↓reduceIte, sendReal, hn, List.set_cons_zero, deliverWires, List.mapIdx_cons,
        List.mapIdx_nil]
      refine ⟨_, _, _, rfl, ?_, ?_, ?_⟩
      · have := n0_push _ (n0_afterSend n0 p st.tbl.length t h0 hp) (T3.upsOf 0) 0
          ((Send.send0 n0.pub n0.sendState (payloadOf st.tbl.length p.res) false [0] t).2.filterMap (wireOf 0)) []
        rw [pushReqs_nil] at this; exact this
      · have := n1_push n1 h1 0 0 ((Send.send0 n0.pub n0.sendState (payloadOf st.tbl.length p.res) false [0] t).2.filterMap (wireOf 0)) []
        rw [pushReqs_nil] at this
        rw [t3_ups1]; exact this
      · have := n2_push n2 h2 1 0 ((Send.send0 n0.pub n0.sendState (payloadOf st.tbl.length p.res) false [0] t).2.filterMap (wireOf 0)) []
        rw [pushReqs_nil] at this
        rw [t3_ups2]; exact this
  | 1 =>
    simp only [hn, List.getElem?_cons_succ, List.getElem?_cons_zero]
    split
    · exact ⟨n0, n1, n2, hn, h0, h1, h2⟩
    · rename_i p hp
      have ⟨b, hb⟩ := h1.main p hp
      simp only [reaches_main _ _ b hb, t3_out1, ↓reduceIte, sendReal, hn, List.set_cons_succ, List.set_cons_zero, deliverWires,
        List.mapIdx_cons, List.mapIdx_nil]
      refine ⟨_, _, _, rfl, ?_, ?_, ?_⟩
      · have := n0_push n0 h0 (T3.upsOf 0) 1
          ((Send.send0 n1.pub n1.sendState (payloadOf st.tbl.length p.res) false [0] t).2.filterMap (wireOf 1)) []
        rw [pushReqs_nil] at this; exact this
      · have := n1_push _ (n1_afterSend n1 p st.tbl.length t h1 hp) 0 1
          ((Send.send0 n1.pub n1.sendState (payloadOf st.tbl.length p.res) false [0] t).2.filterMap (wireOf 1)) []
        rw [pushReqs_nil] at this
        rw [t3_ups1]; exact this
      · have := n2_push n2 h2 1 1 ((Send.send0 n1.pub n1.sendState (payloadOf st.tbl.length p.res) false [0] t).2.filterMap (wireOf 1)) []
        rw [pushReqs_nil] at this
        rw [t3_ups2]; exact this
  | 2 =>
    simp only [hn, List.getElem?_cons_succ, List.getElem?_cons_zero]
    split
    · exact ⟨n0, n1, n2, hn, h0, h1, h2⟩
    · rename_i p hp
      have hr : Loop.reachesSender (T3.hasOut 2) p.res = false := by rw [t3_out2]; cases p.res <;> rfl
      simp only [hr, Bool.false_eq_true, ↓reduceIte, sendSkip, hn, List.set_cons_succ, List.set_cons_zero]
      exact ⟨n0, n1, _, rfl, h0, h1, ⟨h2.con, h2.rstate⟩⟩
  | k + 3 =>
    simp only [hn, List.getElem?_cons_succ, List.getElem?_nil]
    exact ⟨n0, n1, n2, hn, h0, h1, h2⟩

theorem rshape_restart (st : St) (i : Nat) (g : Bool) (h : RShape st) : RShape (stepRestart T3 st i g).1 := by
  rcases h with ⟨n0, n1, n2, hn, h0, h1, h2⟩
  unfold stepRestart
  match i with
  | 0 =>
    simp only [hn, List.getElem?_cons_zero, List.set_cons_zero, deliverReqs, deliverWires, List.mapIdx_cons, List.mapIdx_nil]
    exact ⟨_, _, _, rfl, n0_push _ (n0_fresh _) _ _ _ _, by rw [t3_ups1]; exact n1_push _ h1 _ _ _ _,
      by rw [t3_ups2]; exact n2_push _ h2 _ _ _ _⟩
  | 1 =>
    simp only [hn, List.getElem?_cons_succ, List.getElem?_cons_zero, List.set_cons_succ, List.set_cons_zero, deliverReqs,
      deliverWires, List.mapIdx_cons, List.mapIdx_nil]
    exact ⟨_, _, _, rfl, n0_push _ h0 _ _ _ _, by rw [t3_ups1]; exact n1_push _ (n1_fresh _) _ _ _ _,
      by rw [t3_ups2]; exact n2_push _ h2 _ _ _ _⟩
  | 2 =>
    simp only [hn, List.getElem?_cons_succ, List.getElem?_cons_zero, List.set_cons_succ, List.set_cons_zero, deliverReqs,
      deliverWires, List.mapIdx_cons, List.mapIdx_nil]
    exact ⟨_, _, _, rfl, n0_push _ h0 _ _ _ _, by rw [t3_ups1]; exact n1_push _ h1 _ _ _ _,
      by rw [t3_ups2]; exact n2_push _ (n2_fresh _) _ _ _ _⟩
  | k + 3 =>
    simp only [hn, List.getElem?_cons_succ, List.getElem?_nil]
    exact ⟨n0, n1, n2, hn, h0, h1, h2⟩

theorem rshape_init : RShape (init T3) :=
  ⟨_, _, _, rfl, n0_fresh 0, n1_fresh 0, n2_fresh 0⟩

/-- **the invariant is kept by every event, restarts (graceful or crash) of any node included** -/
theorem rshape_step (proc : Proc) (hf : FwdMain proc) (st : St) (e : Ev) (h : RShape st) : RShape (step T3 proc st e).1 := by
  cases e with
  | nodeRecv i => exact rshape_recv proc hf st i h
  | nodeSend i t => exact rshape_send proc st i t h
  | restart i g => exact rshape_restart st i g h

theorem rshape_reachable (proc : Proc) (hf : FwdMain proc) (st : St) (h : Reachable T3 proc st) : RShape st := by
  induction h with
  | init => exact rshape_init
  | step e _ ih => exact rshape_step proc hf _ e ih

theorem rshape_run (proc : Proc) (hf : FwdMain proc) : ∀ (evs : List Ev) (st : St), RShape st → RShape (run T3 proc st evs).1 := by
  intro evs
  induction evs with
  | nil => intro st h; exact h
  | cons e es ih => intro st h; exact ih _ (rshape_step proc hf st e h)

end OF.Net
