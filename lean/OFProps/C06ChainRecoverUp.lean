import OFProps.C06ChainRecoverEdge
set_option linter.unusedSimpArgs false
set_option linter.unusedVariables false
/-!
# 3-node chain with restarts: the UPSTREAM edge re-supplies the relay (helper file for `OFProps/C06ChainRecover.lean`)

State `[n0, n1, n2]` of `chainTopo 3` with the shapes of `RShape`.  Step equations for `send 1`, `recv 2`, `send 2` (those for
`recv 0`, `send 0`, `recv 1` are in `C06ChainRestartUp.lean`), then:
* `UpOK p0 g1 T` — at most one request is queued at the source, it belongs to the LIVE relay incarnation `g1`, and nobody else in the
  source's client table was heard after `T`;
* `up_flush` — `flushS n t` empties the source's request queue (whatever is queued when `t ≤ T`; requests of the live relay at any
  clock reading) and touches nothing but the source and the relay's SUB queue;
* `w01_round` — the relay WAITS (`EdgeW`): one round `recv 0, send 0 @t, recv 1` at a clock reading beyond the time-out of the others
  hands the relay a set, or the relay waits again at a lower handshake stage;
* `resupply` — `pullU n tf t` from any such state: afterwards the relay HOLDS a result (`pending ≠ none`), `UpOK` holds again, the
  relay's sender / incarnation and the sink are untouched.
Everything is generic in an invariant `I` of every event that implies `RShape` (`InvOK proc I`): `RShape` itself for `FwdMain` process
functions, `RShapeM` (`C06ChainRecoverPass.lean`) for `pass` relays.
-/
namespace OF.Net
open OF
open OF.Pair (PubIdle PubBusy Idle Stale OthersStale)

/-! ## the three nodes of a state with the shape invariant -/

theorem rshape_nodes (st : St) (n0 n1 n2 : Node) (hn : st.nodes = [n0, n1, n2]) (h : RShape st) : N0 n0 ∧ N1 n1 ∧ N2 n2 := by
  rcases h with ⟨m0, m1, m2, hm, h0, h1, h2⟩
  have e : [m0, m1, m2] = [n0, n1, n2] := by rw [← hm, hn]
  simp only [List.cons.injEq, and_true] at e
  rcases e with ⟨rfl, rfl, rfl⟩
  exact ⟨h0, h1, h2⟩

/-- an invariant of every event that implies the shape invariant (instances: `RShape` itself for `FwdMain` process functions,
`RShapeM` of `C06ChainRecoverPass.lean` for `pass` relays) -/
structure InvOK (proc : Proc) (I : St → Prop) : Prop where
  shape : ∀ st, I st → RShape st
  step : ∀ st e, I st → I (step T3 proc st e).1

theorem inv_run {proc : Proc} {I : St → Prop} (hI : InvOK proc I) : ∀ (evs : List Ev) (st : St), I st → I (run T3 proc st evs).1 := by
  intro evs
  induction evs with
  | nil => intro st h; exact h
  | cons e es ih => intro st h; exact ih _ (hI.step st e h)

theorem run_two (proc : Proc) (st : St) (a b : Ev) :
    (run T3 proc st [a, b]).1 = (step T3 proc (step T3 proc st a).1 b).1 := rfl

theorem run_three (proc : Proc) (st : St) (a b c : Ev) :
    (run T3 proc st [a, b, c]).1 = (step T3 proc (run T3 proc st [a, b]).1 c).1 := rfl

theorem run_one (proc : Proc) (st : St) (a : Ev) : (run T3 proc st [a]).1 = (step T3 proc st a).1 := rfl

/-! ## step equations: `send 1`, `recv 2`, `send 2` -/

theorem afterSend_gen (nd : Node) (p : Pending) (r : Send.St × List Send.Out) : (afterSend nd p r).gen = nd.gen := by
  unfold afterSend; split <;> rfl

theorem send1_nodes (proc : Proc) (st : St) (n0 n1 n2 : Node) (p : Pending) (t : Int) (hn : st.nodes = [n0, n1, n2])
    (h0 : N0 n0) (h1 : N1 n1) (hp : n1.pending = some p) :
    ∃ base, (step T3 proc st (.nodeSend 1 t)).1.nodes =
      [n0, afterSend n1 p (eP n1.pub n1.sendState base t),
       { n2 with con := pushWires n2.con [1] 1 ((eP n1.pub n1.sendState base t).2.filterMap (wireOf 1)) }] := by
  have ⟨b, hb⟩ := h1.main p hp
  rcases h1.con with ⟨s1, hs1⟩
  refine ⟨st.tbl.length, ?_⟩
  show (stepSend T3 st 1 t).1.nodes = _
  unfold eP
  rw [← payloadOf_main st.tbl.length p.res b hb]
  unfold stepSend
  simp only [hn, List.getElem?_cons_succ, List.getElem?_cons_zero, hp, reaches_main _ _ b hb, t3_out1, ↓reduceIte, sendReal,
    List.set_cons_succ, List.set_cons_zero, deliverWires, List.mapIdx_cons, List.mapIdx_nil, t3_ups0, t3_ups1, t3_ups2,
    Nat.zero_add]
  rw [pushWires_nosrc _ _ _ _ h0.srcs]
  have e1 : ∀ x, (afterSend n1 p x).con = n1.con := fun x => afterSend_con n1 p x
  rw [pushWires_miss (afterSend n1 p _).con s1 0 (0 + 1) _ (by rw [e1]; exact hs1.srcs) (by omega)]
  have e2 : T3.upsOf (1 + 1) = [1] := t3_ups2
  rw [e2]

theorem recv2_nodes (proc : Proc) (st : St) (n0 n1 n2 : Node) (s : Recv.Src) (hn : st.nodes = [n0, n1, n2])
    (hs : Idle n2.con s) (hp : n2.pending = none) :
    (step T3 proc st (.nodeRecv 2)).1.nodes =
      [n0, { n1 with pub := pushReqs n1.pub ((Recv.call0 n2.con n2.recvState [0]).2.filterMap (reqOf 2 n2.gen [1] 1)) },
       afterRecv proc st.tbl 2 n2 (Recv.call0 n2.con n2.recvState [0])] ∧
    (step T3 proc st (.nodeRecv 2)).2 = recvObs st.tbl (Recv.call0 n2.con n2.recvState [0]).2 := by
  show (stepRecv T3 proc st 2).1.nodes = _ ∧ (stepRecv T3 proc st 2).2 = _
  unfold stepRecv
  simp only [hn, List.getElem?_cons_succ, List.getElem?_cons_zero, hp, Option.isSome_none, Bool.false_eq_true, ↓reduceIte,
    isEmpty_single _ s hs.srcs, recvRelay, range_single _ s hs.srcs, List.set_cons_succ, List.set_cons_zero, deliverReqs,
    List.mapIdx_cons, List.mapIdx_nil, t3_ups2, Nat.zero_add, and_true]
  rw [reqOf_miss 2 n2.gen 1 0 _ (by omega), reqOf_miss 2 n2.gen 1 (1 + 1) _ (by omega), pushReqs_nil, pushReqs_nil]

theorem send2_nodes (proc : Proc) (st : St) (n0 n1 n2 : Node) (t : Int) (hn : st.nodes = [n0, n1, n2]) :
    (step T3 proc st (.nodeSend 2 t)).1.nodes = [n0, n1, { n2 with pending := none }] := by
  show (stepSend T3 st 2 t).1.nodes = _
  unfold stepSend
  simp only [hn, List.getElem?_cons_succ, List.getElem?_cons_zero]
  cases hp : n2.pending with
  | none =>
    simp only
    rw [hn]
    have : ({ n2 with pending := none } : Node) = n2 := by
      cases n2; simp only at hp; subst hp; rfl
    rw [this]
  | some p =>
    have hr : Loop.reachesSender (T3.hasOut 2) p.res = false := by rw [t3_out2]; cases p.res <;> rfl
    simp only [hr, Bool.false_eq_true, ↓reduceIte, sendSkip, hn, List.set_cons_succ, List.set_cons_zero]

/-! ## the source takes a frame and sends: `recv 0, send 0 @t` -/

/-- what `recv 0, send 0 @t` does to the three nodes, whatever is queued -/
theorem src_round_nodes (proc : Proc) {I : St → Prop} (hI : InvOK proc I) (st : St) (n0 n1 n2 : Node) (t : Int)
    (hn : st.nodes = [n0, n1, n2]) (hsh : I st) :
    ∃ base m0, (run T3 proc st [.nodeRecv 0, .nodeSend 0 t]).1.nodes =
        [m0, { n1 with con := eC 0 n0.pub none base t n1.con }, n2] ∧
      m0.pub = (eP n0.pub none base t).1 := by
  have ⟨h0, _, h2⟩ := rshape_nodes st n0 n1 n2 hn (hI.shape st hsh)
  have hr1 := recv0_nodes proc st n0 n1 n2 hn h0
  have ⟨hx0n, _, _⟩ := rshape_nodes _ _ n1 n2 hr1 (hI.shape _ (hI.step st (.nodeRecv 0) hsh))
  obtain ⟨x0, hx0, hx0p, p, hxp⟩ : ∃ x0, x0 = (if n0.pending.isSome then n0 else processed proc 0 n0 []) ∧ x0.pub = n0.pub ∧
      ∃ p, x0.pending = some p := by
    by_cases hp : n0.pending.isSome = true
    · simp only [hp, ↓reduceIte]
      rcases Option.isSome_iff_exists.mp hp with ⟨p, hp'⟩
      exact ⟨n0, rfl, rfl, p, hp'⟩
    · simp only [hp, Bool.false_eq_true, ↓reduceIte]
      exact ⟨_, rfl, rfl, _, rfl⟩
  rw [← hx0] at hr1 hx0n
  have hr2 := send0_nodes proc (step T3 proc st (.nodeRecv 0)).1 x0 n1 n2 p t hr1 hx0n h2 hxp
  have ⟨b, hb⟩ := hx0n.main p hxp
  have hres : sendRes0 (step T3 proc st (.nodeRecv 0)).1 x0 p t =
      eP n0.pub none (step T3 proc st (.nodeRecv 0)).1.tbl.length t := by
    unfold sendRes0 eP
    rw [payloadOf_main _ p.res b hb, hx0p, hx0n.sstate]
  rw [hres] at hr2
  refine ⟨(step T3 proc st (.nodeRecv 0)).1.tbl.length,
    afterSend x0 p (eP n0.pub none (step T3 proc st (.nodeRecv 0)).1.tbl.length t), ?_, ?_⟩
  · rw [run_two]; exact hr2
  · exact afterSend_pub _ _ _

/-! ## the upstream invariant of the healing schedule -/

/-- at most one request is queued at the source, it belongs to the live relay incarnation `g1`, and nobody else in the source's
client table was heard after `T` -/
structure UpOK (p0 : Send.St) (g1 : Nat) (T : Int) : Prop where
  queue : ∃ q, PubIdle p0 q ∧ q.length ≤ 1 ∧ ∀ r ∈ q, Pair.fidOf r = cidOf 1 ++ uidOf g1 0
  others : OthersLe (cidOf 1 ++ uidOf g1 0) T p0.clients

/-- one `recv 0, send 0 @t`, whatever is queued: the queue gets shorter (or stays empty); the entries of the others are not
refreshed when every queued request belongs to `f` or the clock reading is not beyond `T` -/
theorem up_src (proc : Proc) {I : St → Prop} (hI : InvOK proc I) (st : St) (n0 n1 n2 : Node) (t T : Int) (f : String) (q : List Send.Req)
    (hn : st.nodes = [n0, n1, n2]) (hsh : I st) (hq : PubIdle n0.pub q)
    (hc : (∀ r ∈ q, Pair.fidOf r = f) ∨ t ≤ T) (ho : OthersLe f T n0.pub.clients) :
    ∃ m0 c1 q', (run T3 proc st [.nodeRecv 0, .nodeSend 0 t]).1.nodes = [m0, { n1 with con := c1 }, n2] ∧
      PubIdle m0.pub q' ∧ (q' = [] ∨ q'.length < q.length) ∧ (∃ pre, q = pre ++ q') ∧ OthersLe f T m0.pub.clients := by
  have ⟨h0, h1, h2⟩ := rshape_nodes st n0 n1 n2 hn (hI.shape st hsh)
  have ⟨base, m0, e1, e2⟩ := src_round_nodes proc hI st n0 n1 n2 t hn hsh
  have ⟨T', hT', ht'⟩ := Pair.exists_stale n0.pub.clients t
  have hk : n0.pub.minSendId ≤ (callKey n0.pub none).1 := Int.le_refl _
  have ⟨q', hg⟩ := send0_gen n0.pub q none (some [("main", base)]) t T' hq hk hT' ht'
  have hoth := send0_others n0.pub q none (mainPl base) t T f hq hk hc ho
  refine ⟨m0, _, q', e1, ?_, hg.shorter, hg.suffix, ?_⟩
  · rw [e2]; exact hg.idle
  · rw [e2]; exact hoth

/-- the relay's fields other than its receiver -/
structure SameButCon (m1 n1 : Node) : Prop where
  pub : m1.pub = n1.pub
  gen : m1.gen = n1.gen
  pending : m1.pending = n1.pending
  sendState : m1.sendState = n1.sendState
  recvState : m1.recvState = n1.recvState

theorem sameButCon_refl (n1 : Node) : SameButCon n1 n1 := ⟨rfl, rfl, rfl, rfl, rfl⟩
theorem sameButCon_con (n1 : Node) (c : Recv.St) : SameButCon { n1 with con := c } n1 := ⟨rfl, rfl, rfl, rfl, rfl⟩
theorem sameButCon_trans (a b c : Node) (h1 : SameButCon a b) (h2 : SameButCon b c) : SameButCon a c :=
  ⟨h1.pub.trans h2.pub, h1.gen.trans h2.gen, h1.pending.trans h2.pending, h1.sendState.trans h2.sendState,
   h1.recvState.trans h2.recvState⟩

theorem roundsU_succ (k : Nat) (t : Int) : roundsU (k + 1) t = [.nodeRecv 0, .nodeSend 0 t, .nodeRecv 1] ++ roundsU k t := by
  simp [roundsU, List.replicate_succ]

/-- **the source's request queue is flushed**: `n ≥ #queued` times `recv 0, send 0 @t` -/
theorem up_flush (proc : Proc) {I : St → Prop} (hI : InvOK proc I) (t T : Int) (f : String) :
    ∀ (n : Nat) (st : St) (n0 n1 n2 : Node) (q : List Send.Req), st.nodes = [n0, n1, n2] → I st → PubIdle n0.pub q →
      ((∀ r ∈ q, Pair.fidOf r = f) ∨ t ≤ T) → OthersLe f T n0.pub.clients → q.length ≤ n →
      ∃ m0 m1, (run T3 proc st (flushS n t)).1.nodes = [m0, m1, n2] ∧ SameButCon m1 n1 ∧
        PubIdle m0.pub [] ∧ OthersLe f T m0.pub.clients := by
  intro n
  induction n with
  | zero =>
    intro st n0 n1 n2 q hn _ hq _ ho hl
    have : q = [] := List.length_eq_zero_iff.mp (by omega)
    subst this
    exact ⟨n0, n1, hn, sameButCon_refl n1, hq, ho⟩
  | succ n ih =>
    intro st n0 n1 n2 q hn hsh hq hc ho hl
    have ⟨m0, c1, q', e1, e2, e3, ⟨pre, e4⟩, e5⟩ := up_src proc hI st n0 n1 n2 t T f q hn hsh hq hc ho
    have hsh' : I (run T3 proc st [.nodeRecv 0, .nodeSend 0 t]).1 := inv_run hI _ st hsh
    have hc' : (∀ r ∈ q', Pair.fidOf r = f) ∨ t ≤ T := by
      rcases hc with hc | hc
      · exact Or.inl (fun r hr => hc r (by rw [e4]; exact List.mem_append_right _ hr))
      · exact Or.inr hc
    have hl' : q'.length ≤ n := by
      rcases e3 with e3 | e3
      · rw [e3]; simp
      · omega
    have ⟨k0, k1, i1, i2, i3, i4⟩ := ih _ m0 _ n2 q' e1 hsh' e2 hc' e5 hl'
    rw [flushS_succ, run_append_fst]
    exact ⟨k0, k1, i1, sameButCon_trans _ _ _ i2 (sameButCon_con n1 c1), i3, i4⟩

/-! ## the relay polls: `recv 1` -/

theorem afterRecv_some (proc : Proc) (tbl : List Entry) (i : Nat) (nd : Node) (r : Recv.St × List Recv.Out) (id : Int) (bal : Nat)
    (data : List (Topic × Recv.Msg)) (h : retOf r.2 = some (id, bal, data)) :
    (afterRecv proc tbl i nd r).pending ≠ none ∧ (afterRecv proc tbl i nd r).pub = nd.pub ∧
    (afterRecv proc tbl i nd r).gen = nd.gen := by
  unfold afterRecv
  rw [h]
  exact ⟨by simp [processed], rfl, rfl⟩

theorem afterRecv_none (proc : Proc) (tbl : List Entry) (i : Nat) (nd : Node) (r : Recv.St × List Recv.Out)
    (h : retOf r.2 = none) : afterRecv proc tbl i nd r = { nd with con := r.1 } := by
  unfold afterRecv
  rw [h]

theorem reqs_ret (i gen u : Nat) (o1 pre : List Recv.Out) (id : Int) (bal : Nat) (data : List (Topic × Recv.Msg)) (nw : Bool)
    (h : NoReqRet o1) (hp : pre = [] ∨ pre = [Recv.Out.req 0 id 0 nw]) :
    ∃ rs, (o1 ++ (pre ++ [Recv.Out.ret id bal data])).filterMap (reqOf i gen [u] u) = rs ∧ rs.length ≤ 1 ∧
      ∀ r ∈ rs, Pair.fidOf r = cidOf i ++ uidOf gen 0 := by
  rw [reqs_noReqRet_append i gen u o1 _ h]
  rcases hp with rfl | rfl
  · exact ⟨[], by simp [reqOf], by simp, by intro r hr; cases hr⟩
  · refine ⟨[netReq i gen id nw], by simp [reqOf, netReq], by simp, ?_⟩
    intro r hr
    simp only [List.mem_singleton] at hr
    rw [hr]; rfl

/-- one `recv 1` while the relay holds nothing and NOTHING is queued at the source: the relay is handed a set (at most one request
of its own goes to the source), or it times out and WAITS -/
theorem up_recv1 (proc : Proc) {I : St → Prop} (hI : InvOK proc I) (st : St) (n0 n1 n2 : Node) (T : Int) (hn : st.nodes = [n0, n1, n2])
    (hsh : I st) (hq : PubIdle n0.pub []) (ho : OthersLe (cidOf 1 ++ uidOf n1.gen 0) T n0.pub.clients)
    (hp : n1.pending = none) :
    ∃ m0 m1, (step T3 proc st (.nodeRecv 1)).1.nodes = [m0, m1, n2] ∧ m1.pub = n1.pub ∧ m1.gen = n1.gen ∧
      ((m1.pending ≠ none ∧ UpOK m0.pub m1.gen T) ∨
       (m1.pending = none ∧ ∃ s', EdgeW m0.pub m1.con s' m1.recvState 1 m1.gen T)) := by
  have ⟨h0, h1, h2⟩ := rshape_nodes st n0 n1 n2 hn (hI.shape st hsh)
  rcases h1.con with ⟨s, hs⟩
  have e := recv1_nodes proc st n0 n1 n2 s hn hs hp
  rcases recv_side n1.con s n1.recvState hs with
    ⟨id, bal, data, r1, _, _, _, s', o1, pre, r2, r3, r4, r5⟩ | ⟨r1, s', o1, r2, r3, r4, r5, r6, _, _, _⟩
  · have ⟨a1, a2, a3⟩ := afterRecv_some proc st.tbl 1 n1 _ id bal data r1
    refine ⟨_, _, e, a2, a3, Or.inl ⟨a1, ?_⟩⟩
    have ⟨rs, q1, q2, q3⟩ := reqs_ret 1 n1.gen 0 o1 pre id bal data (!s'.conn) r3 r5
    rw [a3]
    refine ⟨⟨rs, ?_, q2, q3⟩, ho⟩
    show PubIdle (pushReqs n0.pub _) rs
    rw [r4, q1]
    exact pubIdle_pushReqs_net _ [] _ hq
  · refine ⟨_, _, e, ?_, ?_, Or.inr ⟨?_, s', ?_⟩⟩
    · rw [afterRecv_none _ _ _ _ _ r1]
    · rw [afterRecv_none _ _ _ _ _ r1]
    · rw [afterRecv_none _ _ _ _ _ r1]; exact hp
    · rw [afterRecv_none _ _ _ _ _ r1]
      refine ⟨?_, r4, r5, r6, ho⟩
      show PubIdle (pushReqs n0.pub _) _
      rw [r3, reqs_timeout 1 n1.gen 0 o1 _ _ r2]
      exact pubIdle_pushReqs_net _ [] _ hq

/-! ## the relay waits: one upstream round makes progress -/

/-- one round `recv 0, send 0 @t, recv 1` while the relay waits: it is handed a set, or it waits again at a lower stage -/
theorem w01_round (proc : Proc) {I : St → Prop} (hI : InvOK proc I) (st : St) (n0 n1 n2 : Node) (s : Recv.Src) (t T : Int)
    (hn : st.nodes = [n0, n1, n2]) (hsh : I st) (hp : n1.pending = none)
    (hw : EdgeW n0.pub n1.con s n1.recvState 1 n1.gen T) (hT : T + OF.Facts.ZMQ_CONN_TIMEOUT < t) :
    ∃ m0 m1, (run T3 proc st [.nodeRecv 0, .nodeSend 0 t, .nodeRecv 1]).1.nodes = [m0, m1, n2] ∧ m1.pub = n1.pub ∧
      m1.gen = n1.gen ∧
      ((m1.pending ≠ none ∧ UpOK m0.pub m1.gen T) ∨
       (m1.pending = none ∧ ∃ s', EdgeW m0.pub m1.con s' m1.recvState 1 m1.gen T ∧
          stageE m0.pub m1.con s' 1 m1.gen < stageE n0.pub n1.con s 1 n1.gen)) := by
  have ⟨h0, h1, h2⟩ := rshape_nodes st n0 n1 n2 hn (hI.shape st hsh)
  have ⟨base, x0, e1, e2⟩ := src_round_nodes proc hI st n0 n1 n2 t hn hsh
  have hsh2 : I (run T3 proc st [.nodeRecv 0, .nodeSend 0 t]).1 := inv_run hI _ st hsh
  have ⟨_, k1, _⟩ := rshape_nodes _ _ _ _ e1 (hI.shape _ hsh2)
  rcases k1.con with ⟨s1, hs1⟩
  have hp1 : ({ n1 with con := eC 0 n0.pub none base t n1.con } : Node).pending = none := hp
  have e3 := recv1_nodes proc (run T3 proc st [.nodeRecv 0, .nodeSend 0 t]).1 x0 _ n2 s1 e1 hs1 hp1
  rw [run_three]
  have hk : n0.pub.minSendId ≤ (callKey n0.pub none).1 := Int.le_refl _
  have ⟨g1, g2⟩ := edge_round 0 1 n1.gen n0.pub none base t T n1.con s n1.recvState hw hk hT
  have hR : Recv.call0 ({ n1 with con := eC 0 n0.pub none base t n1.con } : Node).con
      ({ n1 with con := eC 0 n0.pub none base t n1.con } : Node).recvState [0] = eR 0 n0.pub none base t n1.con n1.recvState := rfl
  rw [hR] at e3
  have hgen : ({ n1 with con := eC 0 n0.pub none base t n1.con } : Node).gen = n1.gen := rfl
  rw [hgen] at e3
  rcases g2 with ⟨id, bal, data, r1, _⟩ | ⟨r1, ⟨s', o1, r2, r3, r4, r5⟩, _⟩
  · -- handed a set
    have ⟨a1, a2, a3⟩ := afterRecv_some proc (run T3 proc st [.nodeRecv 0, .nodeSend 0 t]).1.tbl 1
      { n1 with con := eC 0 n0.pub none base t n1.con } _ id bal data r1
    refine ⟨_, _, e3, a2, a3, Or.inl ⟨a1, ?_⟩⟩
    rw [a3]
    show UpOK (pushReqs x0.pub _) n1.gen T
    rw [e2]
    rcases recv_side _ s1 n1.recvState hs1 with
      ⟨id', bal', data', _, _, _, _, s'', o1, pre, _, q3, q4, q5⟩ | ⟨q1, _⟩
    · have hR2 : Recv.call0 (eC 0 n0.pub none base t n1.con) n1.recvState [0] = eR 0 n0.pub none base t n1.con n1.recvState := rfl
      rw [hR2] at q4
      have ⟨rs, w1, w2, w3⟩ := reqs_ret 1 n1.gen 0 o1 pre id' bal' data' (!s''.conn) q3 q5
      refine ⟨⟨rs, ?_, w2, w3⟩, ?_⟩
      · rw [q4, w1]
        exact pubIdle_pushReqs_net _ [] _ g1
      · show OthersLe _ T (eP n0.pub none base t).1.clients
        refine send0_others n0.pub _ none (mainPl base) t T _ hw.pub hk (Or.inl ?_) hw.others
        intro r hr
        simp only [List.mem_singleton] at hr
        rw [hr]; rfl
    · have hR2 : Recv.call0 (eC 0 n0.pub none base t n1.con) n1.recvState [0] = eR 0 n0.pub none base t n1.con n1.recvState := rfl
      rw [hR2, r1] at q1
      cases q1
  · -- waits again
    have hA := afterRecv_none proc (run T3 proc st [.nodeRecv 0, .nodeSend 0 t]).1.tbl 1
      { n1 with con := eC 0 n0.pub none base t n1.con } _ r1
    refine ⟨_, _, e3, ?_, ?_, Or.inr ⟨?_, s', ?_, ?_⟩⟩
    · rw [hA]
    · rw [hA]
    · rw [hA]; exact hp
    · rw [hA]
      show EdgeW (pushReqs x0.pub _) _ s' n1.recvState 1 n1.gen T
      rw [e2, r3, reqs_timeout 1 n1.gen 0 o1 _ _ r2]
      exact r4
    · rw [hA]
      show stageE (pushReqs x0.pub _) _ s' 1 n1.gen < _
      rw [e2, r3, reqs_timeout 1 n1.gen 0 o1 _ _ r2]
      exact r5

/-! ## the relay holds a result: upstream rounds change nothing that matters -/

theorem up_hold_round (proc : Proc) {I : St → Prop} (hI : InvOK proc I) (st : St) (n0 n1 n2 : Node) (t T : Int)
    (hn : st.nodes = [n0, n1, n2]) (hsh : I st) (hp : n1.pending ≠ none) (hu : UpOK n0.pub n1.gen T) :
    ∃ m0 m1, (run T3 proc st [.nodeRecv 0, .nodeSend 0 t, .nodeRecv 1]).1.nodes = [m0, m1, n2] ∧ SameButCon m1 n1 ∧
      UpOK m0.pub m1.gen T := by
  rcases hu.queue with ⟨q, hq, hl, hfid⟩
  have ⟨m0, c1, q', e1, e2, e3, _, e5⟩ := up_src proc hI st n0 n1 n2 t T _ q hn hsh hq (Or.inl hfid) hu.others
  have hq' : q' = [] := by
    rcases e3 with e3 | e3
    · exact e3
    · exact List.length_eq_zero_iff.mp (by omega)
  subst hq'
  have hps : ({ n1 with con := c1 } : Node).pending.isSome = true := by
    show n1.pending.isSome = true
    cases hx : n1.pending with
    | none => exact absurd hx hp
    | some _ => rfl
  have e6 := recv1_noop proc (run T3 proc st [.nodeRecv 0, .nodeSend 0 t]).1 m0 _ n2 e1 hps
  rw [run_three, e6]
  exact ⟨m0, _, e1, sameButCon_con n1 c1, ⟨[], e2, by simp, by intro r hr; cases hr⟩, e5⟩

theorem up_hold_rounds (proc : Proc) {I : St → Prop} (hI : InvOK proc I) (t T : Int) : ∀ (k : Nat) (st : St) (n0 n1 n2 : Node),
    st.nodes = [n0, n1, n2] → I st → n1.pending ≠ none → UpOK n0.pub n1.gen T →
    ∃ m0 m1, (run T3 proc st (roundsU k t)).1.nodes = [m0, m1, n2] ∧ SameButCon m1 n1 ∧ UpOK m0.pub m1.gen T := by
  intro k
  induction k with
  | zero => intro st n0 n1 n2 hn _ _ hu; exact ⟨n0, n1, hn, sameButCon_refl n1, hu⟩
  | succ k ih =>
    intro st n0 n1 n2 hn hsh hp hu
    have ⟨m0, m1, e1, e2, e3⟩ := up_hold_round proc hI st n0 n1 n2 t T hn hsh hp hu
    have hsh' : I (run T3 proc st [.nodeRecv 0, .nodeSend 0 t, .nodeRecv 1]).1 := inv_run hI _ st hsh
    have hp' : m1.pending ≠ none := by rw [e2.pending]; exact hp
    have ⟨k0, k1, i1, i2, i3⟩ := ih _ m0 m1 n2 e1 hsh' hp' e3
    rw [roundsU_succ, run_append_fst]
    exact ⟨k0, k1, i1, sameButCon_trans _ _ _ i2 e2, i3⟩

/-- from a waiting relay, more rounds than the handshake stage hand it a set -/
theorem up_rounds (proc : Proc) {I : St → Prop} (hI : InvOK proc I) (t T : Int) (hT : T + OF.Facts.ZMQ_CONN_TIMEOUT < t) :
    ∀ (k : Nat) (st : St) (n0 n1 n2 : Node) (s : Recv.Src), st.nodes = [n0, n1, n2] → I st → n1.pending = none →
      EdgeW n0.pub n1.con s n1.recvState 1 n1.gen T → stageE n0.pub n1.con s 1 n1.gen < k →
      ∃ m0 m1, (run T3 proc st (roundsU k t)).1.nodes = [m0, m1, n2] ∧ m1.pub = n1.pub ∧ m1.gen = n1.gen ∧
        m1.pending ≠ none ∧ UpOK m0.pub m1.gen T := by
  intro k
  induction k with
  | zero => intro st n0 n1 n2 s _ _ _ _ hk; omega
  | succ k ih =>
    intro st n0 n1 n2 s hn hsh hp hw hk
    have ⟨m0, m1, e1, e2, e3, e4⟩ := w01_round proc hI st n0 n1 n2 s t T hn hsh hp hw hT
    have hsh' : I (run T3 proc st [.nodeRecv 0, .nodeSend 0 t, .nodeRecv 1]).1 := inv_run hI _ st hsh
    rw [roundsU_succ, run_append_fst]
    rcases e4 with ⟨a1, a2⟩ | ⟨a1, s', a2, a3⟩
    · have ⟨k0, k1, i1, i2, i3⟩ := up_hold_rounds proc hI t T k _ m0 m1 n2 e1 hsh' a1 a2
      exact ⟨k0, k1, i1, i2.pub.trans e2, i2.gen.trans e3, by rw [i2.pending]; exact a1, i3⟩
    · have ⟨k0, k1, i1, i2, i3, i4, i5⟩ := ih _ m0 m1 n2 s' e1 hsh' a1 a2 (by omega)
      exact ⟨k0, k1, i1, i2.trans e2, i3.trans e3, i4, i5⟩

/-- `recv 1` and four rounds at `t`, nothing queued at the source: the relay holds a result afterwards -/
theorem resupply_core (proc : Proc) {I : St → Prop} (hI : InvOK proc I) (st : St) (n0 n1 n2 : Node) (t T : Int)
    (hT : T + OF.Facts.ZMQ_CONN_TIMEOUT < t) (hn : st.nodes = [n0, n1, n2]) (hsh : I st) (hq : PubIdle n0.pub [])
    (ho : OthersLe (cidOf 1 ++ uidOf n1.gen 0) T n0.pub.clients) :
    ∃ m0 m1, (run T3 proc st ([.nodeRecv 1] ++ roundsU 4 t)).1.nodes = [m0, m1, n2] ∧ m1.pub = n1.pub ∧ m1.gen = n1.gen ∧
      m1.pending ≠ none ∧ UpOK m0.pub m1.gen T := by
  rw [run_append_fst, run_one]
  have hsh' : I (step T3 proc st (.nodeRecv 1)).1 := hI.step st _ hsh
  by_cases hp : n1.pending = none
  · have ⟨m0, m1, e1, e2, e3, e4⟩ := up_recv1 proc hI st n0 n1 n2 T hn hsh hq ho hp
    rcases e4 with ⟨a1, a2⟩ | ⟨a1, s', a2⟩
    · have ⟨k0, k1, i1, i2, i3⟩ := up_hold_rounds proc hI t T 4 _ m0 m1 n2 e1 hsh' a1 a2
      exact ⟨k0, k1, i1, i2.pub.trans e2, i2.gen.trans e3, by rw [i2.pending]; exact a1, i3⟩
    · have ⟨k0, k1, i1, i2, i3, i4, i5⟩ := up_rounds proc hI t T hT 4 _ m0 m1 n2 s' e1 hsh' a1 a2
        (by have := stageE_le m0.pub m1.con s' 1 m1.gen; omega)
      exact ⟨k0, k1, i1, i2.trans e2, i3.trans e3, i4, i5⟩
  · have hps : n1.pending.isSome = true := by
      cases hx : n1.pending with
      | none => exact absurd hx hp
      | some _ => rfl
    rw [recv1_noop proc st n0 n1 n2 hn hps]
    have hu : UpOK n0.pub n1.gen T := ⟨⟨[], hq, by simp, by intro r hr; cases hr⟩, ho⟩
    have ⟨k0, k1, i1, i2, i3⟩ := up_hold_rounds proc hI t T 4 st n0 n1 n2 hn hsh hp hu
    exact ⟨k0, k1, i1, i2.pub, i2.gen, by rw [i2.pending]; exact hp, i3⟩

/-- **the relay is re-supplied**: `pullU n tf t` (flush the source's queue at `tf`, one relay `recv`, four upstream rounds at `t`,
`t` beyond the time-out of everybody but the live relay) leaves the relay HOLDING a result; its sender, its incarnation and the
sink are untouched and the upstream invariant holds again -/
theorem resupply (proc : Proc) {I : St → Prop} (hI : InvOK proc I) (st : St) (n0 n1 n2 : Node) (n : Nat) (tf t T : Int) (q : List Send.Req)
    (hT : T + OF.Facts.ZMQ_CONN_TIMEOUT < t) (hn : st.nodes = [n0, n1, n2]) (hsh : I st) (hq : PubIdle n0.pub q)
    (hl : q.length ≤ n) (hc : (∀ r ∈ q, Pair.fidOf r = cidOf 1 ++ uidOf n1.gen 0) ∨ tf ≤ T)
    (ho : OthersLe (cidOf 1 ++ uidOf n1.gen 0) T n0.pub.clients) :
    ∃ m0 m1, (run T3 proc st (pullU n tf t)).1.nodes = [m0, m1, n2] ∧ m1.pub = n1.pub ∧ m1.gen = n1.gen ∧
      m1.pending ≠ none ∧ UpOK m0.pub m1.gen T := by
  have ⟨k0, k1, i1, i2, i3, i4⟩ := up_flush proc hI tf T _ n st n0 n1 n2 q hn hsh hq hc ho hl
  have hsh' : I (run T3 proc st (flushS n tf)).1 := inv_run hI _ st hsh
  have ho' : OthersLe (cidOf 1 ++ uidOf k1.gen 0) T k0.pub.clients := by rw [i2.gen]; exact i4
  have ⟨m0, m1, e1, e2, e3, e4, e5⟩ := resupply_core proc hI _ k0 k1 n2 t T hT i1 hsh' i3 ho'
  have hsched : pullU n tf t = flushS n tf ++ ([.nodeRecv 1] ++ roundsU 4 t) := by simp [pullU]
  rw [hsched, run_append_fst]
  exact ⟨m0, m1, e1, e2.trans i2.pub, e3.trans i2.gen, e4, e5⟩

/-- `resupply` from the upstream invariant, flush and rounds at the same clock reading (as inside the later phases) -/
theorem resupply_ok (proc : Proc) {I : St → Prop} (hI : InvOK proc I) (st : St) (n0 n1 n2 : Node) (t T : Int)
    (hT : T + OF.Facts.ZMQ_CONN_TIMEOUT < t) (hn : st.nodes = [n0, n1, n2]) (hsh : I st) (hu : UpOK n0.pub n1.gen T) :
    ∃ m0 m1, (run T3 proc st (pullU 5 t t)).1.nodes = [m0, m1, n2] ∧ m1.pub = n1.pub ∧ m1.gen = n1.gen ∧
      m1.pending ≠ none ∧ UpOK m0.pub m1.gen T := by
  rcases hu.queue with ⟨q, hq, hl, hfid⟩
  exact resupply proc hI st n0 n1 n2 5 t t T q hT hn hsh hq (by omega) (Or.inl hfid) hu.others

end OF.Net
