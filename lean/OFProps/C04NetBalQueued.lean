import OFProps.C04NetBalPhi
import OFProps.C04NetBalDrain
import OFProps.C04NetBal
set_option linter.unusedSimpArgs false
/-!
# C04 on the balanced network: a worker stalls while requests of it are STILL QUEUED at the splitter

`C04_netbal_worker_stall_bounded_partial` (`OFProps/C04NetBal.lean`) needs `BalPre`: NO request of the stalled worker queued at the splitter.
Here that part is dropped.  `BalPreAny st u fid o lo`: the balanced node `u` tracks `fid` as a synchronised client of its output `o` (heard at
or after `lo`); every request of `fid` still queued at `u` - ANY number of them: a receiver repeats its request on every empty poll - sits
on PULL queue `o` and is ordinary (not ephemeral, no CLOSE) (decidable form `balPreAnyCheck`).

* `C04_netbal_output_stall_queued_bounded_partial` — over ANY restart-free continuation in which the consumer `B` makes no `recv` and the clock
  readings of `u`'s `send` calls lie in `[lo, lo + ZMQ_CONN_TIMEOUT]`: `u` puts AT MOST ONE further id on output `o` (the drain of the
  publishing call takes ALL queued requests before `send_maybe` runs - `Send.drain_done`, `Send.send0_trackAny` in
  `OFProps/C04NetBalDrain.lean` -, the one publish clears the flag, afterwards the sender is held: `BalPost`).
* `C04_netbal_worker_stall_queued_bounded_partial` — the splitter / worker `W_i` instance.
* `C04_netbal_output_stall_potential_bounded_partial` / `C04_netbal_worker_stall_potential_bounded_partial` — the counting form: with
  `BalPreQ … n` (`[requested flag of fid] + #queued requests of fid ≤ n`, `Send.phi`; `Send.send0_phi` in `OFProps/C04NetBalPhi.lean`: a
  publish on `o` costs one unit) at most `n` further ids; sharper than the bound 1 only for `n = 0` (flag down, nothing queued: NOTHING
  more goes to that output).
Partial: `BalPreAny` / `BalPreQ` are hypotheses on the state at the beginning of the stall (evaluated on reachable states in the examples
here; `BalPreAny` is DERIVED from reachability, but for "the splitter has an entry for the worker", in `C04_netbal_stall_bounded_reachable`,
`OFProps/C04NetBalReach.lean`).
-/
namespace OF.NetBal
open OF
open OF.Net (Proc St Node Obs Pending cidOf uidOf keyOf key_ne payloadOf)

theorem qcount_append_none (fid : String) (l rs : List Send.Req) (h : ∀ r ∈ rs, Send.fidOf r ≠ fid) :
    Send.qcount fid (l ++ rs) = Send.qcount fid l := by
  unfold Send.qcount
  rw [List.filter_append, List.length_append]
  have : rs.filter (fun r => Send.fidOf r == fid) = [] := by
    rw [List.filter_eq_nil_iff]
    intro r hr
    simpa using h r hr
  rw [this]; rfl

theorem queued_pushReqsAt (p : Send.St) (q : Nat) (rs : List Send.Req) (fid : String) (h : ∀ r ∈ rs, Send.fidOf r ≠ fid) :
    Send.queued (pushReqsAt p q rs) fid = Send.queued p fid := by
  unfold Send.queued pushReqsAt
  simp only
  congr 1
  apply List.ext_getElem?
  intro i
  simp only [List.getElem?_map, List.getElem?_mapIdx]
  cases p.queues[i]? with
  | none => rfl
  | some l =>
    simp only [Option.map_some]
    split
    · rw [qcount_append_none fid l rs h]
    · rfl

theorem phi_pushReqsAt (p : Send.St) (q : Nat) (rs : List Send.Req) (fid : String) (h : ∀ r ∈ rs, Send.fidOf r ≠ fid) :
    Send.phi (pushReqsAt p q rs) fid = Send.phi p fid := by
  unfold Send.phi
  rw [queued_pushReqsAt p q rs fid h]
  rfl

/-- the balanced node `u` tracks `fid` on output `o`; the queued requests of `fid` are good; flag + queued requests of `fid` at most `n` -/
def BalPreQ (st : St) (u : Nat) (fid : String) (o : Nat) (lo : Int) (n : Nat) : Prop :=
  ∃ nd, st.nodes[u]? = some nd ∧ Send.PInv nd.pub ∧ nd.pub.balance = true ∧ Send.TrackOn nd.pub.clients fid o lo ∧
    Send.QAll (Send.GoodReq fid o) nd.pub ∧ Send.phi nd.pub fid ≤ n

/-- a continuation in which node `B` is stalled (no `recv`, nobody restarted) and every clock reading of `u`'s `send` calls lies in
`[lo, lo + ZMQ_CONN_TIMEOUT]` -/
def BalStallQ (u B : Nat) (lo : Int) (evs : List Ev) : Prop :=
  ∀ e ∈ evs, e.isRestart = false ∧ e ≠ .nodeRecv B ∧ ∀ t, e = .nodeSend u t → lo ≤ t ∧ t - OF.Facts.ZMQ_CONN_TIMEOUT ≤ lo

theorem balq_step (b : Nat) (proc : Proc) (st : St) (u B g jj o : Nat) (lo : Int) (n : Nat) (e : Ev)
    (h : BalPreQ st u (cidOf B ++ uidOf g jj) o lo n) (hne : e.isRestart = false) (hB : e ≠ .nodeRecv B)
    (ht : ∀ t, e = .nodeSend u t → lo ≤ t ∧ t - OF.Facts.ZMQ_CONN_TIMEOUT ≤ lo) :
    ∃ m, BalPreQ (step b proc st e).1 u (cidOf B ++ uidOf g jj) o lo m ∧
      m + (if pubOn u o e (step b proc st e).2 then 1 else 0) ≤ n := by
  rcases h with ⟨nd, hu, hP, hb, hT, hq, hphi⟩
  rcases step_pub_cases b proc st e u nd hu hne with ⟨nd', hu', hc⟩
  rcases hc with ⟨i, q, rs, rfl, hp, _, hrs, hno⟩ | ⟨hp, hno⟩ | ⟨t, p, rfl, hp, hno⟩
  · have hkeys : ∀ r ∈ rs, keyOf r ≠ cidOf B ++ uidOf g jj := by
      intro r hr
      rcases hrs r hr with ⟨g2, j2, e2⟩
      rw [e2]
      exact key_ne i B g2 j2 g jj (fun hc => hB (by rw [hc]))
    refine ⟨n, ⟨nd', hu', by rw [hp]; exact pinv_pushReqsAt _ _ _ hP, by rw [hp]; exact hb, by rw [hp]; exact hT, ?_, ?_⟩, ?_⟩
    · rw [hp]
      apply qall_pushReqsAt _ _ _ _ hq
      intro r hr hk
      exact absurd hk (hkeys r hr)
    · rw [hp, phi_pushReqsAt _ _ _ _ hkeys]; exact hphi
    · rw [hno o]; simp
  · refine ⟨n, ⟨nd', hu', by rw [hp]; exact hP, by rw [hp]; exact hb, by rw [hp]; exact hT, by rw [hp]; exact hq, by rw [hp]; exact hphi⟩, ?_⟩
    rw [hno o]; simp
  · have ⟨h1, h2, h3⟩ := Send.send0_phi nd.pub hP hb _ o lo nd.sendState (payloadOf st.tbl.length p.res) false (sendPrio nd) t hT hq
      (ht t rfl).2 (ht t rfl).1
    refine ⟨Send.phi nd'.pub (cidOf B ++ uidOf g jj), ⟨nd', hu', ?_, ?_, by rw [hp]; exact h1, by rw [hp]; exact h2, Nat.le_refl _⟩, ?_⟩
    · rw [hp]; exact send0_pinv _ hP _ _ _ _ _
    · rw [hp, Net.send0_balance]; exact hb
    · rw [hno o, hp]
      exact Nat.le_trans h3 hphi

/-- **C04 (one output of a balanced sender, its consumer stalls with requests still queued)**: any balanced node `u` with any number of
bound outputs, any process functions, any state in which `u` tracks the consumer `B` (source `jj` of incarnation `g`) as a synchronised
client of output `o`, `B`'s queued requests are ordinary and sit on `o`, and `[requested] + #queued requests of B ≤ n`; over every
restart-free continuation in which `B` makes no `recv` call - every other node as live as it likes - and the clock readings of `u`'s `send`
calls lie in `[lo, lo + ZMQ_CONN_TIMEOUT]`: `u` puts AT MOST `n` further ids on output `o`. -/
theorem C04_netbal_output_stall_potential_bounded_partial (b : Nat) (proc : Proc) (u B g jj o : Nat) (lo : Int) :
    ∀ (evs : List Ev) (n : Nat) (st : St),
    BalPreQ st u (cidOf B ++ uidOf g jj) o lo n → BalStallQ u B lo evs → pubCountOn b proc u o st evs ≤ n := by
  intro evs
  induction evs with
  | nil => intro n st _ _; exact Nat.zero_le _
  | cons e es ih =>
    intro n st h hs
    have ⟨h1, h2, h3⟩ := hs e (List.mem_cons_self ..)
    have hs' : BalStallQ u B lo es := fun x hx => hs x (List.mem_cons_of_mem _ hx)
    rcases balq_step b proc st u B g jj o lo n e h h1 h2 h3 with ⟨m, a, c⟩
    have := ih m _ a hs'
    simp only [pubCountOn]
    omega

/-- **C04 (a worker stalls with ONE request still queued at the splitter)**: worker `W_i` (`1 ≤ i ≤ b`, incarnation `g`) makes no `recv`; the
splitter (node `0`) tracked it on output `i - 1`; `[requested flag of W_i] + #requests of W_i still queued at the splitter ≤ 1` - one
request queued and the flag down, or none queued - and these requests are ordinary (`BalPreQ … 1`); clock readings of the splitter in
`[lo, lo + ZMQ_CONN_TIMEOUT]`: AT MOST ONE further id goes to output `i - 1`, however long the stall lasts and however many ids go to the
other outputs meanwhile. -/
theorem C04_netbal_worker_stall_potential_bounded_partial (b : Nat) (proc : Proc) (i g : Nat) (lo : Int) (evs : List Ev) (st : St)
    (hpre : BalPreQ st 0 (cidOf i ++ uidOf g 0) (i - 1) lo 1) (hs : BalStallQ 0 i lo evs) :
    pubCountOn b proc 0 (i - 1) st evs ≤ 1 :=
  C04_netbal_output_stall_potential_bounded_partial b proc 0 i g 0 (i - 1) lo evs 1 st hpre hs

/-! ## ANY number of queued requests: the drain takes them all before the one publish -/

/-- the balanced node `u` tracks `fid` as a synchronised client of its (existing) output `o`, heard at or after `lo`; the requests of `fid`
still queued at `u` - ANY number of them - sit on PULL queue `o` and are ordinary (not ephemeral, no CLOSE) -/
def BalPreAny (st : St) (u : Nat) (fid : String) (o : Nat) (lo : Int) : Prop :=
  ∃ nd, st.nodes[u]? = some nd ∧ Send.PInv nd.pub ∧ nd.pub.balance = true ∧ o < nd.pub.queues.length ∧
    Send.TrackOn nd.pub.clients fid o lo ∧ Send.QAll (Send.GoodReq fid o) nd.pub

theorem balStall_of_balStallQ (u B : Nat) (lo : Int) (evs : List Ev) (h : BalStallQ u B lo evs) : BalStall u B lo evs :=
  fun e he => ⟨(h e he).1, (h e he).2.1, fun t ht => ((h e he).2.2 t ht).2⟩

theorem balany_step (b : Nat) (proc : Proc) (st : St) (u B g jj o : Nat) (lo : Int) (e : Ev)
    (h : BalPreAny st u (cidOf B ++ uidOf g jj) o lo) (hne : e.isRestart = false) (hB : e ≠ .nodeRecv B)
    (ht : ∀ t, e = .nodeSend u t → lo ≤ t ∧ t - OF.Facts.ZMQ_CONN_TIMEOUT ≤ lo) :
    (BalPreAny (step b proc st e).1 u (cidOf B ++ uidOf g jj) o lo ∧ pubOn u o e (step b proc st e).2 = false) ∨
    BalPost (step b proc st e).1 u (cidOf B ++ uidOf g jj) o lo := by
  rcases h with ⟨nd, hu, hP, hb, hol, hT, hq⟩
  rcases step_pub_cases b proc st e u nd hu hne with ⟨nd', hu', hc⟩
  rcases hc with ⟨i, q, rs, rfl, hp, _, hrs, hno⟩ | ⟨hp, hno⟩ | ⟨t, p, rfl, hp, hno⟩
  · left
    have hkeys : ∀ r ∈ rs, keyOf r ≠ cidOf B ++ uidOf g jj := by
      intro r hr
      rcases hrs r hr with ⟨g2, j2, e2⟩
      rw [e2]
      exact key_ne i B g2 j2 g jj (fun hc => hB (by rw [hc]))
    refine ⟨⟨nd', hu', by rw [hp]; exact pinv_pushReqsAt _ _ _ hP, by rw [hp]; exact hb, ?_, by rw [hp]; exact hT, ?_⟩, hno o⟩
    · rw [hp]; simp only [pushReqsAt, List.length_mapIdx]; exact hol
    · rw [hp]
      apply qall_pushReqsAt _ _ _ _ hq
      intro r hr hk
      exact absurd hk (hkeys r hr)
  · left
    exact ⟨⟨nd', hu', by rw [hp]; exact hP, by rw [hp]; exact hb, by rw [hp]; exact hol, by rw [hp]; exact hT, by rw [hp]; exact hq⟩, hno o⟩
  · have hop : o ∈ sendPrio nd := by unfold sendPrio; exact List.mem_range.mpr hol
    have ⟨h1, h2, h3⟩ := Send.send0_trackAny nd.pub hP hb _ o lo nd.sendState (payloadOf st.tbl.length p.res) false (sendPrio nd) t hop hT hq
      (ht t rfl).2 (ht t rfl).1
    have hP' : Send.PInv nd'.pub := by rw [hp]; exact send0_pinv _ hP _ _ _ _ _
    have hb' : nd'.pub.balance = true := by rw [hp, Net.send0_balance]; exact hb
    cases hany : (Send.send0 nd.pub nd.sendState (payloadOf st.tbl.length p.res) false (sendPrio nd) t).2.any (Send.isPubOn o) with
    | false =>
      left
      exact ⟨⟨nd', hu', hP', hb', by rw [hp, Send.send0_qlen]; exact hol, by rw [hp]; exact h1, by rw [hp]; exact h2⟩,
        by rw [hno o]; exact hany⟩
    | true =>
      right
      rw [List.any_eq_true] at hany
      have ⟨h4, h5⟩ := h3 hany
      exact ⟨nd', hu', hP', hb', by rw [hp]; exact h4, by rw [hp]; exact h5⟩

/-- **C04 (one output of a balanced sender, its consumer stalls - ANY number of its requests still queued)**: any balanced node `u` with any
number of bound outputs, any process functions, any state in which `u` tracks the consumer `B` (source `jj` of incarnation `g`) as a
synchronised client of its output `o` and the requests of `B` still queued at `u` are ordinary and sit on `o` (`BalPreAny`: no bound on
their number, no condition on the flag); over every restart-free continuation in which `B` makes no `recv` call - every other node as
live as it likes - and the clock readings of `u`'s `send` calls lie in `[lo, lo + ZMQ_CONN_TIMEOUT]`: `u` puts AT MOST ONE further id on
output `o` (the drain of the publishing call takes ALL queued requests of `B` before `send_maybe` runs; the one publish clears the flag). -/
theorem C04_netbal_output_stall_queued_bounded_partial (b : Nat) (proc : Proc) (u B g jj o : Nat) (lo : Int) : ∀ (evs : List Ev) (st : St),
    BalPreAny st u (cidOf B ++ uidOf g jj) o lo → BalStallQ u B lo evs → pubCountOn b proc u o st evs ≤ 1 := by
  intro evs
  induction evs with
  | nil => intro st _ _; exact Nat.zero_le _
  | cons e es ih =>
    intro st h hs
    have ⟨h1, h2, h3⟩ := hs e (List.mem_cons_self ..)
    have hs' : BalStallQ u B lo es := fun x hx => hs x (List.mem_cons_of_mem _ hx)
    rcases balany_step b proc st u B g jj o lo e h h1 h2 h3 with ⟨a, c⟩ | a
    · simp only [pubCountOn, c, Bool.false_eq_true, ↓reduceIte, Nat.zero_add]
      exact ih _ a hs'
    · simp only [pubCountOn]
      rw [bal_post_run b proc u B g jj o lo es _ a (balStall_of_balStallQ u B lo es hs')]
      split <;> omega

/-- **C04 (a worker stalls with requests STILL QUEUED at the splitter)**: worker `W_i` (`1 ≤ i ≤ b`, incarnation `g`) makes no `recv`; the
splitter (node `0`) tracked it on output `i - 1` when the stall began; the requests of `W_i` still queued at the splitter - one, or any
number: a receiver repeats its request on every empty poll - are ordinary and sit on PULL queue `i - 1` (`BalPreAny`; `BalPre` of
`C04_netbal_worker_stall_bounded_partial` is the special case "none queued"); clock readings of the splitter in
`[lo, lo + ZMQ_CONN_TIMEOUT]`: AT MOST ONE further id goes to output `i - 1`, however long the stall lasts and however many ids go to the
other outputs meanwhile. -/
theorem C04_netbal_worker_stall_queued_bounded_partial (b : Nat) (proc : Proc) (i g : Nat) (lo : Int) (evs : List Ev) (st : St)
    (hpre : BalPreAny st 0 (cidOf i ++ uidOf g 0) (i - 1) lo) (hs : BalStallQ 0 i lo evs) :
    pubCountOn b proc 0 (i - 1) st evs ≤ 1 :=
  C04_netbal_output_stall_queued_bounded_partial b proc 0 i g 0 (i - 1) lo evs st hpre hs

/-- `BalPre` (nothing queued) is the special case -/
theorem balPreAny_of_balPre (st : St) (u : Nat) (fid : String) (o : Nat) (lo : Int) (h : BalPre st u fid o lo)
    (ho : ∀ nd, st.nodes[u]? = some nd → o < nd.pub.queues.length) : BalPreAny st u fid o lo := by
  rcases h with ⟨nd, hu, hP, hb, hT, hq⟩
  exact ⟨nd, hu, hP, hb, ho nd hu, hT, fun j q hj r hr hk => absurd hk (hq j q hj r hr)⟩


/-! ## the hypothesis `BalPreQ`, as a computation -/

/-- `BalPreQ` without the `PInv` part (which every restart-free run from the initial state has: `pinv_run_at`), decidable form -/
def balPreQCheck (st : St) (u : Nat) (fid : String) (o : Nat) (lo : Int) (n : Nat) : Bool :=
  match st.nodes[u]? with
  | none => false
  | some nd =>
    nd.pub.balance && nd.pub.clients.any (fun x => x.1 == fid) &&
    nd.pub.clients.all (fun x => x.1 != fid || (decide (lo ≤ x.2.tLast) && x.2.eph == 0 && x.2.out == o)) &&
    (List.range nd.pub.queues.length).all (fun j => (nd.pub.queues[j]?.getD []).all
      (fun r => keyOf r != fid || (j == o && r.eph == 0 && decide (¬ r.mid ≤ OF.Facts.MSG_ID_SPECIAL)))) &&
    decide (Send.phi nd.pub fid ≤ n)

theorem balPreQ_of_check (st : St) (u : Nat) (fid : String) (o : Nat) (lo : Int) (n : Nat)
    (hP : ∃ nd, st.nodes[u]? = some nd ∧ Send.PInv nd.pub) (h : balPreQCheck st u fid o lo n = true) : BalPreQ st u fid o lo n := by
  rcases hP with ⟨nd, hn, hP⟩
  unfold balPreQCheck at h
  rw [hn] at h
  simp only [Bool.and_eq_true, decide_eq_true_eq, List.any_eq_true, beq_iff_eq, List.all_eq_true, Bool.or_eq_true, bne_iff_ne, ne_eq,
    List.mem_range] at h
  rcases h with ⟨⟨⟨⟨h1, ⟨x, hx, hxk⟩⟩, h3⟩, h4⟩, h5⟩
  refine ⟨nd, hn, hP, h1, ⟨⟨x.2, by rw [← hxk]; exact hx⟩, ?_⟩, ?_, h5⟩
  · intro c hc
    rcases h3 (fid, c) hc with h | h
    · exact absurd rfl h
    · exact ⟨h.1.1, h.1.2, h.2⟩
  · intro j q hq r hr hk
    have hj : j < nd.pub.queues.length := (List.getElem?_eq_some_iff.mp hq).1
    have := h4 j hj r (by rw [hq]; exact hr)
    rcases this with h | h
    · exact absurd hk h
    · exact ⟨h.1.1, h.1.2, h.2⟩

/-- `BalPreAny` without the `PInv` part, decidable form -/
def balPreAnyCheck (st : St) (u : Nat) (fid : String) (o : Nat) (lo : Int) : Bool :=
  match st.nodes[u]? with
  | none => false
  | some nd => decide (o < nd.pub.queues.length) && balPreQCheck st u fid o lo (Send.phi nd.pub fid)

theorem balPreAny_of_check (st : St) (u : Nat) (fid : String) (o : Nat) (lo : Int)
    (hP : ∃ nd, st.nodes[u]? = some nd ∧ Send.PInv nd.pub) (h : balPreAnyCheck st u fid o lo = true) : BalPreAny st u fid o lo := by
  rcases hP with ⟨nd, hn, hP⟩
  unfold balPreAnyCheck at h
  rw [hn] at h
  simp only [Bool.and_eq_true, decide_eq_true_eq] at h
  rcases balPreQ_of_check st u fid o lo _ ⟨nd, hn, hP⟩ h.2 with ⟨nd2, hn2, hP2, hb, hT, hq, _⟩
  rw [hn] at hn2; cases hn2
  exact ⟨nd, hn, hP2, hb, h.1, hT, hq⟩

theorem wStall_balq (n : Nat) (t lo : Int) (h1 : lo ≤ t) (h2 : t - OF.Facts.ZMQ_CONN_TIMEOUT ≤ lo) : BalStallQ 0 2 lo (wStall n t) := by
  intro e he
  simp only [wStall, List.mem_flatten, List.mem_replicate] at he
  rcases he with ⟨l, ⟨_, rfl⟩, he⟩
  simp only [List.mem_cons, List.mem_nil_iff, or_false] at he
  rcases he with rfl | rfl | rfl | rfl | rfl | rfl
  · exact ⟨rfl, by simp, fun t' ht => by cases ht; exact ⟨h1, h2⟩⟩
  · exact ⟨rfl, by simp, fun t' ht => by cases ht⟩
  · exact ⟨rfl, by simp, fun t' ht => by cases ht⟩
  · exact ⟨rfl, by simp, fun t' ht => by cases ht⟩
  · exact ⟨rfl, by simp, fun t' ht => by cases ht⟩
  · exact ⟨rfl, by simp, fun t' ht => by cases ht⟩

/-! ## non-vacuity and negative witnesses (kernel-evaluated) -/

/-- the case `C04_netbal_worker_stall_bounded_partial` does NOT cover: after 6 fair rounds `W_2` polls once more and stalls with its request
still queued at the splitter (`balPreCheck = false`, `balPreQCheck … 1 = true`: one queued, flag down); ONE further id goes to output 1 in
240 steps: the bound 1 is attained -/
example : balPreCheck (run 2 exProc (init 2 exLL) (stPrefix 6 ++ [.nodeRecv 2])).1 0 (cidOf 2 ++ uidOf 0 0) 1 1400 = false ∧
    balPreQCheck (run 2 exProc (init 2 exLL) (stPrefix 6 ++ [.nodeRecv 2])).1 0 (cidOf 2 ++ uidOf 0 0) 1 1400 1 = true ∧
    balPreQCheck (run 2 exProc (init 2 exLL) (stPrefix 6 ++ [.nodeRecv 2])).1 0 (cidOf 2 ++ uidOf 0 0) 1 1400 0 = false ∧
    pubCountOn 2 exProc 0 1 (run 2 exProc (init 2 exLL) (stPrefix 6 ++ [.nodeRecv 2])).1 (wStall 40 2000) = 1 := by
  decide +kernel

/-- the theorem applies to that state -/
example : pubCountOn 2 exProc 0 1 (run 2 exProc (init 2 exLL) (stPrefix 6 ++ [.nodeRecv 2])).1 (wStall 40 2000) ≤ 1 :=
  C04_netbal_worker_stall_potential_bounded_partial 2 exProc 2 0 1400 _ _
    (balPreQ_of_check _ _ _ _ _ _ (pinv_run_at 2 exProc 0 _ _ (by decide) (pinv_init 2 exLL 0 (by decide))) (by decide +kernel))
    (wStall_balq 40 2000 1400 (by decide) (by decide))

/-- … and to the state without a queued request (the case of `BalPre`), with `n = 0`: the flag of `W_2` is down and nothing is queued, so
NOTHING more goes to output 1 -/
example : pubCountOn 2 exProc 0 1 (run 2 exProc (init 2 exLL) (stPrefix 6)).1 (wStall 40 2000) ≤ 0 :=
  C04_netbal_output_stall_potential_bounded_partial 2 exProc 0 2 0 0 1 1400 _ 0 _
    (balPreQ_of_check _ _ _ _ _ _ (pinv_run_at 2 exProc 0 _ _ (by decide) (pinv_init 2 exLL 0 (by decide))) (by decide +kernel))
    (wStall_balq 40 2000 1400 (by decide) (by decide))

/-- several requests of the stalled worker queued (kernel-evaluated): after 6 fair rounds `W_2` polls FOUR more times (the first poll
takes the prefetched set and asks, the empty polls repeat the request) and stalls: `balPreCheck = false`, THREE requests of `W_2` are
queued at the splitter (potential 3: `balPreQCheck … 2 = false`, `… 3 = true`), `balPreAnyCheck = true`; still only ONE further id goes
to output 1 in 240 steps -/
example : balPreCheck (run 2 exProc (init 2 exLL) (stPrefix 6 ++ [.nodeRecv 2, .nodeSend 2 1700, .nodeRecv 2, .nodeRecv 2])).1 0
      (cidOf 2 ++ uidOf 0 0) 1 1400 = false ∧
    balPreAnyCheck (run 2 exProc (init 2 exLL) (stPrefix 6 ++ [.nodeRecv 2, .nodeSend 2 1700, .nodeRecv 2, .nodeRecv 2])).1 0
      (cidOf 2 ++ uidOf 0 0) 1 1400 = true ∧
    balPreQCheck (run 2 exProc (init 2 exLL) (stPrefix 6 ++ [.nodeRecv 2, .nodeSend 2 1700, .nodeRecv 2, .nodeRecv 2])).1 0
      (cidOf 2 ++ uidOf 0 0) 1 1400 2 = false ∧
    balPreQCheck (run 2 exProc (init 2 exLL) (stPrefix 6 ++ [.nodeRecv 2, .nodeSend 2 1700, .nodeRecv 2, .nodeRecv 2])).1 0
      (cidOf 2 ++ uidOf 0 0) 1 1400 3 = true ∧
    pubCountOn 2 exProc 0 1 (run 2 exProc (init 2 exLL) (stPrefix 6 ++ [.nodeRecv 2, .nodeSend 2 1700, .nodeRecv 2, .nodeRecv 2])).1
      (wStall 40 2000) ≤ 1 := by
  decide +kernel

/-- the theorem applies to that state -/
example : pubCountOn 2 exProc 0 1 (run 2 exProc (init 2 exLL) (stPrefix 6 ++ [.nodeRecv 2, .nodeSend 2 1700, .nodeRecv 2, .nodeRecv 2])).1
    (wStall 40 2000) ≤ 1 :=
  C04_netbal_worker_stall_queued_bounded_partial 2 exProc 2 0 1400 _ _
    (balPreAny_of_check _ _ _ _ _ (pinv_run_at 2 exProc 0 _ _ (by decide) (pinv_init 2 exLL 0 (by decide))) (by decide +kernel))
    (wStall_balq 40 2000 1400 (by decide) (by decide))

/-- negative witness (the hypothesis "tracked" is needed and fails where it should): in the initial state the splitter does not track `W_2` -/
example : balPreAnyCheck (init 2 exLL) 0 (cidOf 2 ++ uidOf 0 0) 1 1000 = false := by decide +kernel

/-- observation, sender level (kernel-evaluated): the potential is an upper bound, not always attained.  A balanced sender whose client `Aa`
of output 0 has its flag UP and one more request queued (`phi = 2`): the drain of the next call absorbs the duplicate request (the flag
is already up), the call publishes once on output 0 and `phi` drops to 0; the call after that publishes nothing there.  (The negative
witness for the count is in the first example above: with `n = 0` the hypothesis fails and so does the conclusion `≤ 0`.) -/
def exTwo : Send.St :=
  (Send.run (Send.mkSt 2 true [])
    [.deliver 0 ⟨"A", "a", -1, 0, false, 0⟩, .begin none (.topics [("main", 1)]) false, .handle 0 1000, .trySend,
     .deliver 0 ⟨"A", "a", 0, 0, false, 0⟩, .begin none (.topics [("main", 2)]) false, .handle 0 1001, .timeout,
     .deliver 0 ⟨"A", "a", 0, 0, false, 0⟩]).1

example : Send.phi exTwo "Aa" = 2 ∧
    ((Send.send0 exTwo none (.topics [("main", 2)]) false [0, 1] 1002).2.any (Send.isPubOn 0)) = true ∧
    Send.phi (Send.send0 exTwo none (.topics [("main", 2)]) false [0, 1] 1002).1 "Aa" = 0 ∧
    ((Send.send0 (Send.send0 exTwo none (.topics [("main", 2)]) false [0, 1] 1002).1 none (.topics [("main", 3)]) false [0, 1] 1003).2.any
      (Send.isPubOn 0)) = false := by
  decide +kernel

end OF.NetBal
