import OFProps.NetBalSend
/-!
# C07 — one `send()` call of a balanced sender, one output: in EVERY sender state

The harness clause `netbal-two-outputs-one-call` (`harness/ofverif/netbal.py`) as a theorem on `OFModel/Zmq/Sender.lean`.

What existed: `C07_one_output` (`OFProps/C07.lean`) is about the publishing tail `publish st ts` alone - for every state `st` with
`st.balance = true`, no other hypothesis.  `send0_one_out` (`OFProps/NetBalSend.lean`, not audited under the `C07_` prefix) is about a
whole `send(payload, state, timeout=0)` call (`Send.send0`: begin, drain every queued request - CLOSE envelopes included -, `send_maybe`,
time-out) but assumes `st.inCall = false` (the state is between two calls).  That hypothesis is NOT needed:

* `C07_one_output_any_state` — for every sender state (any client table, any queued requests, any call locals - even a state inside a
  call -, any clock, any payload / resume state / poll priority) with `balance = true`, all data / heartbeat wire messages (`Out.pub`) of
  ONE `send0` call go to one and the same output.

Stated boundary: the HELLO frames of a balanced sender (`Out.hello`, answers to new connections) go to ALL outputs; they carry no data
and are not counted by the harness clause either.
-/
namespace OF.Net
open OF.Send (Payload Req Client)

/-- every `pub` message of one `send0` goes to a publish target of ONE state `d` - the one `send_maybe` decides in - with the
`balance` flag of the initial state; no hypothesis on the state -/
theorem send0_pub_target_any_state (st : Send.St) (state : Option (Int × Nat)) (pl : Payload) (push : Bool) (prio : List Nat)
    (t : Int) :
    ∃ d : Send.St, d.balance = st.balance ∧
      ∀ o f mid ts bal body, Send.Out.pub o f mid ts bal body ∈ (Send.send0 st state pl push prio t).2 →
        o ∈ Send.pubTargets d := by
  refine ⟨(Send.drain (Send.totalQueued (Send.step st (.begin state pl push)).1 + 1) (Send.step st (.begin state pl push)).1 prio t).1, ?_, ?_⟩
  · rw [drain_balance, Send.step_balance]
  · intro o f mid ts bal body hx
    have hp : Send.isPubOn o (Send.Out.pub o f mid ts bal body) = true := by simp [Send.isPubOn]
    rcases send0_mem st state pl push prio t _ hx with h | ⟨_, h | h | h⟩
    · have := Send.nopub_of_ne st (.begin state pl push) o (by intro hc; cases hc) _ h
      rw [hp] at this; cases this
    · have := Send.drain_nopub o _ _ prio t _ h
      rw [hp] at this; cases this
    · have ⟨_, _, _, htar⟩ := Send.step_pub_on _ .trySend o _ h hp
      exact htar
    · have := Send.nopub_of_ne _ .timeout o (by intro hc; cases hc) _ h
      rw [hp] at this; cases this

/-- **C07 (one output per call, every state)**: for EVERY sender state - any client table, any queued requests (CLOSE / OOB envelopes,
new connections, fast-forward requests), any call locals, any clock `t`, any payload, resume state and poll priority - a BALANCED
sender puts all data and heartbeat wire messages of ONE `send(payload, state, timeout=0)` call on one and the same output.  No
reachability / well-formedness hypothesis. -/
theorem C07_one_output_any_state (st : Send.St) (state : Option (Int × Nat)) (pl : Payload) (push : Bool) (prio : List Nat) (t : Int)
    (hb : st.balance = true) :
    ∀ o f mid ts bal body o' f' mid' ts' bal' body',
      Send.Out.pub o f mid ts bal body ∈ (Send.send0 st state pl push prio t).2 →
      Send.Out.pub o' f' mid' ts' bal' body' ∈ (Send.send0 st state pl push prio t).2 → o = o' := by
  rcases send0_pub_target_any_state st state pl push prio t with ⟨d, hd, hall⟩
  intro o f mid ts bal body o' f' mid' ts' bal' body' h1 h2
  have a1 := hall _ _ _ _ _ _ h1
  have a2 := hall _ _ _ _ _ _ h2
  have ⟨_, e1⟩ := Send.pubTargets_bal d (hd.trans hb) o a1
  rw [e1] at a2
  simp only [List.mem_singleton] at a2
  exact a2.symm

/-! ## non-vacuity and boundaries (kernel-evaluated) -/

/-- the output index of a wire message -/
def pubOut : Send.Out → Option Nat
  | .pub o _ _ _ _ _ => some o
  | _ => none

/-- a balanced splitter with two outputs, a worker on each; both have asked (requests still queued), worker `b` asked for the older
id, and a CLOSE envelope of a third client is queued behind -/
def stTwo : Send.St :=
  { Send.mkSt 2 true [] with
    minSendId := 5,
    clients := [("a1", ⟨"a", 0, 0, false, 0, 3⟩), ("b1", ⟨"b", 1, 0, false, 0, 2⟩)],
    queues := [[⟨"a", "1", 4, 0, false, 0⟩], [⟨"b", "1", 3, 0, false, 0⟩, ⟨"c", "9", OF.Facts.MSG_ID_CLOSE, 0, false, 0⟩]] }

/-- non-vacuity: the call publishes two topics and the heartbeat - three wire messages -, all on output 1 -/
example : stTwo.balance = true ∧
    (Send.send0 stTwo none (.topics [("main", 7), ("x", 8)]) false [0, 1] 1).2.filterMap pubOut = [1, 1, 1] := by
  decide +kernel

/-- non-vacuity for a state INSIDE a call (not covered by `send0_one_out`): the begin is ignored, the stale call locals decide -
still one output -/
example :
    (Send.send0 { stTwo with inCall := true, doSend := true, outputs := [(0, (true, 1, 0)), (1, (true, 1, -1))],
                             payload := .topics [("y", 3)] }
      none (.topics [("main", 7)]) false [] 1).2.filterMap pubOut = [1, 1] := by
  decide +kernel

/-- boundary (the hypothesis `balance = true` is needed): the same state without balancing publishes every message on BOTH outputs -/
example :
    (Send.send0 { stTwo with balance := false } none (.topics [("main", 7)]) false [0, 1] 1).2.filterMap pubOut = [0, 1, 0, 1] := by
  decide +kernel

/-- stated boundary: HELLO frames of a balanced sender go to all outputs (here: a new connection was seen in this call) -/
example :
    (Send.send0 { stTwo with inCall := true, doHello := true, doSend := true, outputs := [(0, (true, 1, 0)), (1, (true, 1, -1))] }
      none (.topics []) false [] 1).2.filter (fun x => match x with | .hello _ => true | _ => false) = [.hello 0, .hello 1] := by
  decide +kernel

end OF.Net
