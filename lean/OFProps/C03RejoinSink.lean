import OFProps.RejoinSinkInv
set_option linter.unusedSimpArgs false
set_option linter.unusedVariables false
/-!
# C03, stage C on the network model — the tee-rejoin (skipping branches included) WITH A SINK below the join

Topology `rejoinSinkTopo b` (`b ≥ 1`): source `0`, branch relays `1 … b` each subscribed to the source only, the join `J = b + 1`
subscribed to ALL branches, the sink `K = b + 2` subscribed to the join.  Hypotheses and quantifier as in `C03RejoinSkip.lean`:
arbitrary `proc` with `ProcNames`, `Owned` (branch-owned topic names) and `BranchCntFree` (a branch's result does not depend on its
call counter); NO hypothesis on skipping — any branch may return `None`, directly or as the value of its callable —, the process
functions of the join and of the sink are arbitrary (the join may skip, defer, return `{}`, hide topics, depend on its call counter);
EVERY restart-free schedule of `nodeRecv | nodeSend @t`.

* `C03_net_rejoin_sink_composition`: (join) the sets handed to the join are a PREFIX of `rejoinSpecSkip proc b N` — the common frames,
  `C03_net_rejoin_common_ids` now in the larger topology, where the join HAS a sender, is throttled by its sink and calls `recv` with
  the `recv_state` its `send` returned; (sink) the sets handed to the sink are a PREFIX of the join's process function threaded
  through those sets (`throughFrom proc (b + 1) 0 (rejoinSpecSkip …)`, `process_frames` normalisation, hidden topics removed, every
  set under the id of the set it was computed from; a `None` of the join drops that id for the sink): the composition of ALL filters
  of the diamond-plus-sink, frame for frame.
* `C03_net_rejoin_sink_composition_run`: the same on the observations of `Net.run`.
* `C03_net_rejoin_sink_edge`: the sink is handed a prefix of what the join's `process()` made of the sets the join WAS handed on
  this run: the join is never fast-forwarded by its sink, no result of the join is dropped unpublished.
* `C03_net_rejoin_sink_needs_cntfree`: `BranchCntFree` is needed (kernel-evaluated pair of schedules, the loss shows at the sink).
Proof: `RejoinSinkInv.lean` (`GoodQ` = simulation by a `rejoinTopo` state satisfying `GoodS` + the chain invariant for `J → K`).
-/
namespace OF.Net
open OF.Chain (Blk ChanQ BlkOK Rest visData vis SInv Mode raise headTs visDataJ Adv)
open OF.Recv (Src Wire Msg Topic)

/-- the log of the join and of the sink under the invariant -/
theorem goodQ_prefix (proc : Proc) (b : Nat) (hb : 1 ≤ b) (owner : Topic → Nat) (X : LSt) (hq : GoodQ proc b owner X) :
    X.log (b + 1) <+: rejoinSpecSkip proc b (srcCount X) ∧
    X.log (b + 2) <+: (throughFrom proc (b + 1) 0 (X.log (b + 1))).map visB := by
  rcases hq with ⟨Y, pubJ, hs, ⟨pubF, bss, Jp, hw⟩, he⟩
  have hJLY : b + 1 < Y.st.nodes.length := by rw [hw.len]; omega
  have hJnY : Y.st.nodes[b + 1]? = some Y.st.nodes[b + 1] := List.getElem?_eq_getElem hJLY
  have hsc : srcCount Y = srcCount X := by unfold srcCount; rw [hs.low 0 (by omega)]
  have hJL : b + 1 < X.st.nodes.length := by rw [hs.lenX]; omega
  have hJn : X.st.nodes[b + 1]? = some X.st.nodes[b + 1] := List.getElem?_eq_getElem hJL
  generalize X.st.nodes[b + 1] = J at hJn
  have hKL : b + 2 < X.st.nodes.length := by rw [hs.lenX]; omega
  have hKn : X.st.nodes[b + 2]? = some X.st.nodes[b + 2] := List.getElem?_eq_getElem hKL
  generalize X.st.nodes[b + 2] = K at hKn
  refine ⟨?_, ?_⟩
  · rw [← hs.log (b + 1) (Nat.le_refl _), (hw.join _ hJnY).log, hsc]
    exact upTo_prefix Jp _ (spec_pairwise proc b _)
  · rcases he.ck K hKn with ⟨bsW, s, hc⟩
    have hpj := (he.pj J hJn).prod
    have hb0 : ¬ b + 1 = 0 := by omega
    simp only [prodOf, hb0, ↓reduceIte] at hpj
    rw [hc.handed, hpj]
    refine List.IsPrefix.trans (prefix_map_visB _ _ (List.take_prefix _ _)) ?_
    exact prefix_map_visB _ _ (List.prefix_append pubJ (pendOf J))

/-- **C03, stage C, the tee-rejoin whose branches may skip, with a sink below the join**: topology `rejoinSinkTopo b` — source `0`,
`b ≥ 1` parallel branch relays `1 … b` each subscribed to the source only, the join `J = b + 1` subscribed to ALL branches, the sink
`K = b + 2` subscribed to the join.  For every process-function family with dict-like results (`ProcNames`), branch-owned topic names
(`Owned`) and branch results that do not depend on the call counter (`BranchCntFree`) — no hypothesis on skipping, the join's and the
sink's process functions arbitrary — and every restart-free schedule `evs` of `nodeRecv | nodeSend @t` events (no bound, any clock
readings — evictions included —, any interleaving):
* the sets handed to the JOIN's `process()` are a PREFIX of `rejoinSpecSkip proc b N` (`N` = frames the source has produced): the
  source's surviving frames of which EVERY branch makes a dict, in increasing order, each set holding, branch after branch, the
  visible topics of that branch's output for THAT source frame under its id;
* the sets handed to the SINK's `process()` are a PREFIX of the visible part of `throughFrom proc (b + 1) 0 (rejoinSpecSkip proc b N)`:
  the join's process function applied to those sets in order (its `n`-th call on the `n`-th common frame; `None` drops that id for
  the sink, `{}` is an empty set, a lone frame is `main`, a callable its value), each under the id of the set it was computed from —
  the ids of the common source frames, handed on unchanged.
The composition of all filters of the diamond-plus-sink, frame for frame; never a mixed set, nothing common lost, nothing duplicated
or reordered. -/
theorem C03_net_rejoin_sink_composition (proc : Proc) (hp : ProcNames proc) (b : Nat) (hb : 1 ≤ b) (hcf : BranchCntFree proc b)
    (owner : Topic → Nat) (hown : Owned proc b owner) (evs : List Ev) (hnr : ∀ e ∈ evs, isRestart e = false) :
    (lrun (rejoinSinkTopo b) proc (linit (rejoinSinkTopo b)) evs).log (b + 1) <+:
      rejoinSpecSkip proc b (srcCount (lrun (rejoinSinkTopo b) proc (linit (rejoinSinkTopo b)) evs)) ∧
    (lrun (rejoinSinkTopo b) proc (linit (rejoinSinkTopo b)) evs).log (b + 2) <+:
      (throughFrom proc (b + 1) 0
        (rejoinSpecSkip proc b (srcCount (lrun (rejoinSinkTopo b) proc (linit (rejoinSinkTopo b)) evs)))).map visB := by
  have hq := goodQ_lrun proc hp b hb hcf owner hown evs _ (goodQ_init proc b owner) hnr
  have ⟨h1, h2⟩ := goodQ_prefix proc b hb owner _ hq
  exact ⟨h1, List.IsPrefix.trans h2 (prefix_map_visB _ _ (throughFrom_prefix proc (b + 1) _ _ h1))⟩

/-- **the join is never fast-forwarded by its sink, none of its results is dropped unpublished** (same hypotheses): the sets handed
to the sink are a PREFIX of the visible part of what the join's `process()` made of the sets the join WAS handed on this run
(`log (b + 1)`), in order, each under the id of the set it was computed from. -/
theorem C03_net_rejoin_sink_edge (proc : Proc) (hp : ProcNames proc) (b : Nat) (hb : 1 ≤ b) (hcf : BranchCntFree proc b)
    (owner : Topic → Nat) (hown : Owned proc b owner) (evs : List Ev) (hnr : ∀ e ∈ evs, isRestart e = false) :
    (lrun (rejoinSinkTopo b) proc (linit (rejoinSinkTopo b)) evs).log (b + 2) <+:
      (throughFrom proc (b + 1) 0 ((lrun (rejoinSinkTopo b) proc (linit (rejoinSinkTopo b)) evs).log (b + 1))).map visB :=
  (goodQ_prefix proc b hb owner _ (goodQ_lrun proc hp b hb hcf owner hown evs _ (goodQ_init proc b owner) hnr)).2

/-- `C03_net_rejoin_sink_composition` on the observations of the model's own `run` -/
theorem C03_net_rejoin_sink_composition_run (proc : Proc) (hp : ProcNames proc) (b : Nat) (hb : 1 ≤ b) (hcf : BranchCntFree proc b)
    (owner : Topic → Nat) (hown : Owned proc b owner) (evs : List Ev) (hnr : ∀ e ∈ evs, isRestart e = false) :
    (handedTo (b + 1) evs (run (rejoinSinkTopo b) proc (init (rejoinSinkTopo b)) evs).2).map contentsOf <+:
      rejoinSpecSkip proc b ((((run (rejoinSinkTopo b) proc (init (rejoinSinkTopo b)) evs).1.nodes[0]?).map (·.count)).getD 0) ∧
    (handedTo (b + 2) evs (run (rejoinSinkTopo b) proc (init (rejoinSinkTopo b)) evs).2).map contentsOf <+:
      (throughFrom proc (b + 1) 0 (rejoinSpecSkip proc b
        ((((run (rejoinSinkTopo b) proc (init (rejoinSinkTopo b)) evs).1.nodes[0]?).map (·.count)).getD 0))).map visB := by
  have := C03_net_rejoin_sink_composition proc hp b hb hcf owner hown evs hnr
  rw [lrun_log, lrun_log] at this
  simp only [linit, List.nil_append] at this
  unfold srcCount at this
  rw [lrun_st] at this
  exact this

/-! ### non-vacuity: a stalled branch is fast-forwarded past the frames its sibling dropped, the join drops one set -/

/-- source and branches as `rsProc` (branch 1: topic `a`, `None` for the source frames 2 … 5, keyed on the CONTENT; branch 2: topic `b`
and a hidden topic, a callable for frame 7); the join (node 3) sums the contents into the topic `sum` beside a hidden topic `_n` = its
call counter, returns `None` for the common frame 6 (sum 180) and a CALLABLE for frame 7 (sum 210); the sink: anything -/
def ksProc : Proc := fun i n h =>
  match i with
  | 3 => if (h.map (·.2)).sum = 180 then .now .none
         else if (h.map (·.2)).sum = 210 then .later (.dict [("sum", (h.map (·.2)).sum)])
         else .now (.dict [("sum", (h.map (·.2)).sum), ("_n", n)])
  | 4 => .now .none
  | _ => rsProc i n h

def gK (t : Int) : List Ev := [.nodeRecv 4, .nodeSend 4 t]
def gRnd (t : Int) : List Ev := fRnd t ++ gK t
def gHold (t : Int) : List Ev := fHold t ++ gK t
def gAway (t : Int) : List Ev := fAway t ++ gK t

/-- `fSched` of `C03RejoinSkip.lean` with the sink taking part in every round: branch 2 takes frame 2 and stalls with it, is evicted
by the source, the join adopts id 6 from branch 1 and fast-forwards branch 2 -/
def gSched : List Ev :=
  gRnd 1100 ++ gRnd 1200 ++ gRnd 1300 ++ gRnd 1400 ++ gRnd 1500 ++ gHold 1600 ++ gHold 1700 ++
  gAway 7800 ++ gAway 7900 ++ gAway 8000 ++ gAway 8100 ++ gAway 8200 ++ gAway 8300 ++
  gRnd 9000 ++ gRnd 9100 ++ gRnd 9200 ++ gRnd 9300

theorem ksProc_low (i : Nat) (hi : i ≤ 2) (n : Nat) (h : List (Topic × Nat)) : ksProc i n h = rsProc i n h := by
  have : i = 0 ∨ i = 1 ∨ i = 2 := by omega
  rcases this with rfl | rfl | rfl <;> rfl

theorem ksProc_names : ProcNames ksProc := by
  intro i n h d hh hd
  by_cases h3 : i = 3
  · subst h3
    unfold ksProc at hd
    simp only at hd
    split at hd
    · simp [Loop.processFrames, Loop.normPlain, dictOf] at hd
    · split at hd
      · simp only [Loop.processFrames, Loop.normPlain, dictOf, Option.some.injEq] at hd
        subst hd
        exact ⟨by simp, by intro x hx; simp only [List.mem_singleton] at hx; subst hx; exact (by decide : ("sum" : String) ≠ "")⟩
      · simp only [Loop.processFrames, Loop.normPlain, dictOf, Option.some.injEq] at hd
        subst hd
        refine ⟨by simp only [List.map_cons, List.map_nil]; decide, ?_⟩
        intro x hx
        simp only [List.mem_cons, List.mem_nil_iff, or_false] at hx
        rcases hx with rfl | rfl
        · exact (by decide : ("sum" : String) ≠ "")
        · exact (by decide : ("_n" : String) ≠ "")
  · by_cases h4 : i = 4
    · subst h4
      simp [ksProc, Loop.processFrames, Loop.normPlain, dictOf] at hd
    · have e : ksProc i n h = rsProc i n h := by
        unfold ksProc
        split
        · exact absurd rfl h3
        · exact absurd rfl h4
        · rfl
      rw [e] at hd
      exact rsProc_names i n h d hh hd

theorem ksProc_cntfree : BranchCntFree ksProc 2 := by
  intro i h1 h2 n m h
  rw [ksProc_low i h2, ksProc_low i h2]
  exact rsProc_cntfree i h1 h2 n m h

theorem ksProc_owned : Owned ksProc 2 kOwner := by
  intro i n h d h1 h2 hd
  rw [ksProc_low i h2] at hd
  exact rsProc_owned i n h d h1 h2 hd

/-- TEST (kernel-evaluated instance): 156 events on `0 → {1, 2} → 3 → 4`: the source has produced 14 frames; branch 1 dropped 2 … 5;
branch 2 was FAST-FORWARDED past 3, 4, 5 (handed 0, 1, 2, 6, 7, 8; its frame 2 never published); the join was handed exactly the
common frames 0, 1, 6, 7, 8, each with both branches' outputs for the same source frame; the join returned `None` for frame 6 and a
callable for frame 7: the sink was handed the sums of the REMAINING common frames under their ids 0, 1, 7, 8 (the hidden topic `_n`
never arrives) — the first sets of the two specifications -/
example : (lrun (rejoinSinkTopo 2) ksProc (linit (rejoinSinkTopo 2)) gSched).log 3 =
      [(0, [("a", 0), ("b", 0)]), (1, [("a", 10), ("b", 20)]), (6, [("a", 60), ("b", 120)]), (7, [("a", 70), ("b", 140)]),
       (8, [("a", 80), ("b", 160)])] ∧
    (lrun (rejoinSinkTopo 2) ksProc (linit (rejoinSinkTopo 2)) gSched).log 4 =
      [(0, [("sum", 0)]), (1, [("sum", 30)]), (7, [("sum", 210)]), (8, [("sum", 240)])] ∧
    ((lrun (rejoinSinkTopo 2) ksProc (linit (rejoinSinkTopo 2)) gSched).log 2).map (·.1) = [0, 1, 2, 6, 7, 8] ∧
    ((lrun (rejoinSinkTopo 2) ksProc (linit (rejoinSinkTopo 2)) gSched).log 1).length = 14 ∧
    (rejoinSpecSkip ksProc 2 (srcCount (lrun (rejoinSinkTopo 2) ksProc (linit (rejoinSinkTopo 2)) gSched))).map (·.1) =
      [0, 1, 6, 7, 8, 9, 10, 11, 12, 13] ∧
    ((throughFrom ksProc 3 0
        (rejoinSpecSkip ksProc 2 (srcCount (lrun (rejoinSinkTopo 2) ksProc (linit (rejoinSinkTopo 2)) gSched)))).map visB).take 5 =
      [(0, [("sum", 0)]), (1, [("sum", 30)]), (7, [("sum", 210)]), (8, [("sum", 240)]), (9, [("sum", 270)])] := by
  decide +kernel

/-- the hypotheses of the theorem are satisfiable: it applies to this family (branch 1 skips by content, the join skips and defers)
on every restart-free schedule -/
example (evs : List Ev) (hnr : ∀ e ∈ evs, isRestart e = false) :
    (lrun (rejoinSinkTopo 2) ksProc (linit (rejoinSinkTopo 2)) evs).log 4 <+:
      (throughFrom ksProc 3 0
        (rejoinSpecSkip ksProc 2 (srcCount (lrun (rejoinSinkTopo 2) ksProc (linit (rejoinSinkTopo 2)) evs)))).map visB :=
  (C03_net_rejoin_sink_composition ksProc ksProc_names 2 (by omega) ksProc_cntfree kOwner ksProc_owned evs hnr).2

/-! ### `BranchCntFree` is needed, also for the sink -/

/-- as `nProc` (branch 2 drops its FOURTH set, whatever it is); the join sums, the sink: anything -/
def knProc : Proc := fun i n h =>
  match i with
  | 3 => .now (.dict [("sum", (h.map (·.2)).sum)])
  | 4 => .now .none
  | _ => nProc i n h

/-- twelve lock-step rounds with the sink -/
def gLock : List Ev :=
  gRnd 1100 ++ gRnd 1200 ++ gRnd 1300 ++ gRnd 1400 ++ gRnd 1500 ++ gRnd 1600 ++ gRnd 1700 ++ gRnd 1800 ++ gRnd 1900 ++ gRnd 2000 ++
  gRnd 2100 ++ gRnd 2200

theorem knProc_names : ProcNames knProc := by
  intro i n h d hh hd
  by_cases h3 : i = 3
  · subst h3
    simp only [knProc, Loop.processFrames, Loop.normPlain, dictOf, Option.some.injEq] at hd
    subst hd
    exact ⟨by simp, by intro x hx; simp only [List.mem_singleton] at hx; subst hx; exact (by decide : ("sum" : String) ≠ "")⟩
  · by_cases h4 : i = 4
    · subst h4
      simp [knProc, Loop.processFrames, Loop.normPlain, dictOf] at hd
    · have e : knProc i n h = nProc i n h := by
        unfold knProc
        split
        · exact absurd rfl h3
        · exact absurd rfl h4
        · rfl
      rw [e] at hd
      exact nProc_names i n h d hh hd

theorem knProc_owned : Owned knProc 2 kOwner := by
  intro i n h d h1 h2 hd
  have e : knProc i n h = nProc i n h := by
    have : i = 1 ∨ i = 2 := by omega
    rcases this with rfl | rfl <;> rfl
  rw [e] at hd
  exact nProc_owned i n h d h1 h2 hd

/-- **`BranchCntFree` is needed** (kernel-evaluated; `knProc` satisfies `ProcNames` and `Owned`): branch 2 drops its FOURTH set.  On
`gSched` branch 2 is fast-forwarded past the frames 3, 4, 5 without `process()` being called on them, its fourth set is source frame
6, and join AND sink are handed 0, 1, 7, 8: frame 6, common according to the specification (call counter = frame number), is lost —
neither log is a prefix of its specification; on the lock-step schedule both are. -/
theorem C03_net_rejoin_sink_needs_cntfree :
    ((lrun (rejoinSinkTopo 2) knProc (linit (rejoinSinkTopo 2)) gSched).log 3).map (·.1) = [0, 1, 7, 8] ∧
    ((lrun (rejoinSinkTopo 2) knProc (linit (rejoinSinkTopo 2)) gSched).log 4).map (·.1) = [0, 1, 7, 8] ∧
    (rejoinSpecSkip knProc 2 (srcCount (lrun (rejoinSinkTopo 2) knProc (linit (rejoinSinkTopo 2)) gSched))).map (·.1) =
      [0, 1, 6, 7, 8, 9, 10, 11, 12, 13] ∧
    ¬ ((lrun (rejoinSinkTopo 2) knProc (linit (rejoinSinkTopo 2)) gSched).log 4 <+:
      (throughFrom knProc 3 0
        (rejoinSpecSkip knProc 2 (srcCount (lrun (rejoinSinkTopo 2) knProc (linit (rejoinSinkTopo 2)) gSched)))).map visB) ∧
    ((lrun (rejoinSinkTopo 2) knProc (linit (rejoinSinkTopo 2)) gLock).log 4).map (·.1) = [0, 1, 6, 7] ∧
    (lrun (rejoinSinkTopo 2) knProc (linit (rejoinSinkTopo 2)) gLock).log 4 <+:
      (throughFrom knProc 3 0
        (rejoinSpecSkip knProc 2 (srcCount (lrun (rejoinSinkTopo 2) knProc (linit (rejoinSinkTopo 2)) gLock)))).map visB := by
  decide +kernel

end OF.Net
