import OFModel.RollLog
/-!
# C13 — rolling logs: property theorems

All theorems are about `step patched` (the behaviour with the two `fix:` commits) over ARBITRARY op sequences
(`Reach`: any list of `Op`s from a freshly constructed writer/reader pair on any well-formed directory), for
arbitrary record sizes, timestamps (equal / decreasing included), `file_size`, `total_size`.
The pinned behaviour is refuted by `decide`d witnesses at the end.
-/
namespace OF.RollLog

/-! ## lists of log files -/

def Sorted (l : List LF) : Prop := (l.map (·.ts)).Pairwise (· < ·)

theorem lfSum_append (a b : List LF) : lfSum (a ++ b) = lfSum a + lfSum b := by
  induction a with
  | nil => simp [lfSum]
  | cons x xs ih => simp [lfSum, ih]; omega

theorem lfSum_reverse (a : List LF) : lfSum a.reverse = lfSum a := by
  induction a with
  | nil => rfl
  | cons x xs ih => simp [lfSum, lfSum_append, ih]; omega

theorem lfSum_filter_le (p : LF → Bool) (a : List LF) : lfSum (a.filter p) ≤ lfSum a := by
  induction a with
  | nil => simp [lfSum]
  | cons x xs ih =>
    simp only [List.filter_cons]
    split <;> simp [lfSum] <;> omega

theorem sorted_cons {x : LF} {l : List LF} : Sorted (x :: l) ↔ (∀ y ∈ l, x.ts < y.ts) ∧ Sorted l := by
  simp [Sorted, List.pairwise_cons]

theorem sorted_append {a b : List LF} :
    Sorted (a ++ b) ↔ Sorted a ∧ Sorted b ∧ ∀ x ∈ a, ∀ y ∈ b, x.ts < y.ts := by
  simp only [Sorted, List.map_append, List.pairwise_append, List.mem_map]
  constructor
  · rintro ⟨h1, h2, h3⟩
    exact ⟨h1, h2, fun x hx y hy => h3 _ ⟨x, hx, rfl⟩ _ ⟨y, hy, rfl⟩⟩
  · rintro ⟨h1, h2, h3⟩
    refine ⟨h1, h2, ?_⟩
    rintro _ ⟨x, hx, rfl⟩ _ ⟨y, hy, rfl⟩
    exact h3 x hx y hy

theorem Sorted.filter {l : List LF} (p : LF → Bool) (h : Sorted l) : Sorted (l.filter p) := by
  unfold Sorted at *
  rw [List.pairwise_map] at *
  exact h.filter p

/-- in a sorted list the time stamp determines the entry -/
theorem sorted_ts_inj {l : List LF} (h : Sorted l) {a b : LF} (ha : a ∈ l) (hb : b ∈ l) (e : a.ts = b.ts) : a = b := by
  induction l with
  | nil => cases ha
  | cons x xs ih =>
    rw [sorted_cons] at h
    rcases List.mem_cons.mp ha with rfl | ha' <;> rcases List.mem_cons.mp hb with rfl | hb'
    · rfl
    · have := h.1 b hb'; omega
    · have := h.1 a ha'; omega
    · exact ih h.2 ha' hb'

/-- every element of a sorted list is at most the last one -/
theorem sorted_le_last {l : List LF} (h : Sorted l) {a last : LF} (ha : a ∈ l) (hl : l.getLast? = some last) :
    a.ts ≤ last.ts := by
  obtain ⟨ys, rfl⟩ := List.getLast?_eq_some_iff.mp hl
  rw [sorted_append] at h
  rcases List.mem_append.mp ha with h1 | h1
  · have := h.2.2 a h1 last (by simp); omega
  · simp at h1; subst h1; omega

/-- `A` (sorted) is dominated entry-wise by entries of `B` (sorted): then its total is no larger -/
theorem lfSum_le_of_dominated : ∀ (B A : List LF), Sorted B → Sorted A →
    (∀ a ∈ A, ∃ b ∈ B, b.ts = a.ts ∧ a.size ≤ b.size) → lfSum A ≤ lfSum B := by
  intro B
  induction B with
  | nil =>
    intro A _ _ h
    cases A with
    | nil => simp [lfSum]
    | cons a _ => obtain ⟨b, hb, _⟩ := h a (by simp); cases hb
  | cons b B ih =>
    intro A hB hA h
    rw [sorted_cons] at hB
    cases A with
    | nil => simp [lfSum]
    | cons a A' =>
      rw [sorted_cons] at hA
      by_cases e : a.ts = b.ts
      · -- `a` is matched by `b`; the rest of `A` lies in `B`
        have hab : a.size ≤ b.size := by
          obtain ⟨b', hb', e', hs⟩ := h a (by simp)
          rcases List.mem_cons.mp hb' with rfl | hb''
          · exact hs
          · have := hB.1 b' hb''; omega
        have : lfSum A' ≤ lfSum B := by
          apply ih A' hB.2 hA.2
          intro a' ha'
          obtain ⟨b', hb', e', hs⟩ := h a' (by simp [ha'])
          rcases List.mem_cons.mp hb' with rfl | hb''
          · have := hA.1 a' ha'; omega
          · exact ⟨b', hb'', e', hs⟩
        simp [lfSum]; omega
      · have : lfSum (a :: A') ≤ lfSum B := by
          apply ih (a :: A') hB.2 (sorted_cons.mpr hA)
          intro a' ha'
          obtain ⟨b', hb', e', hs⟩ := h a' ha'
          rcases List.mem_cons.mp hb' with rfl | hb''
          · -- a' matched by b: then a' ≠ a, so a.ts < a'.ts = b.ts, but a's own match is in B, above b
            exfalso
            rcases List.mem_cons.mp ha' with rfl | ha''
            · exact e e'.symm
            · obtain ⟨b2, hb2, e2, _⟩ := h a (by simp)
              rcases List.mem_cons.mp hb2 with rfl | hb2'
              · exact e e2.symm
              · have h1 := hB.1 b2 hb2'; have h2 := hA.1 a' ha''; omega
          · exact ⟨b', hb'', e', hs⟩
        simp [lfSum] at *; omega

/-! ## insertion sort on an already sorted directory -/

theorem sortLF_of_sorted : ∀ (l : List LF), Sorted l → sortLF l = l := by
  intro l
  induction l with
  | nil => intro _; rfl
  | cons x xs ih =>
    intro h
    rw [sorted_cons] at h
    simp only [sortLF, List.foldr_cons]
    have : List.foldr insertLF [] xs = xs := ih h.2
    rw [this]
    cases xs with
    | nil => rfl
    | cons y ys =>
      have := h.1 y (by simp)
      simp [insertLF]; omega

/-! ## bumpLast -/

theorem bumpLast_append_singleton (l : List LF) (f : LF) (n : Nat) :
    bumpLast (l ++ [f]) n = l ++ [{ f with size := f.size + n }] := by
  induction l with
  | nil => rfl
  | cons x xs ih =>
    cases xs with
    | nil => simp [bumpLast]
    | cons y ys => simp only [List.cons_append] at *; simp only [bumpLast]; rw [ih]

/-! ## directory entries under the file-system primitives -/

theorem dirEntries_nil : dirEntries [] = [] := rfl

theorem dirEntries_cons (f : File) (fs : FS) :
    dirEntries (f :: fs) = if f.linked then ⟨f.name, f.size⟩ :: dirEntries fs else dirEntries fs := by
  unfold dirEntries
  by_cases h : f.linked <;> simp [h]

theorem dirEntries_append (a b : FS) : dirEntries (a ++ b) = dirEntries a ++ dirEntries b := by
  simp [dirEntries]

theorem dirEntries_unlink (fs : FS) (n : Nat) :
    dirEntries (unlink fs n) = (dirEntries fs).filter (fun e => e.ts != n) := by
  induction fs with
  | nil => rfl
  | cons f fs ih =>
    simp only [unlink, List.map_cons] at *
    rw [dirEntries_cons, dirEntries_cons, ih]
    by_cases hn : f.name = n <;> by_cases hl : f.linked <;> simp [hn, hl]

theorem mem_dirEntries {fs : FS} {e : LF} :
    e ∈ dirEntries fs ↔ ∃ f ∈ fs, f.linked = true ∧ e = ⟨f.name, f.size⟩ := by
  simp only [dirEntries, List.mem_map, List.mem_filter]
  constructor
  · rintro ⟨f, ⟨hf, hl⟩, rfl⟩; exact ⟨f, hf, hl, rfl⟩
  · rintro ⟨f, hf, hl, rfl⟩; exact ⟨f, ⟨hf, hl⟩, rfl⟩

theorem lookup_eq_none {fs : FS} {n : Nat} (h : ∀ e ∈ dirEntries fs, e.ts ≠ n) : lookup fs n = none := by
  unfold lookup
  rw [List.findIdx?_eq_none_iff]
  intro f hf
  by_cases hl : f.linked
  · have := h ⟨f.name, f.size⟩ (mem_dirEntries.mpr ⟨f, hf, hl, rfl⟩)
    simp [hl]; exact this
  · simp [hl]

theorem unlink_length (fs : FS) (n : Nat) : (unlink fs n).length = fs.length := by simp [unlink]

theorem unlink_getElem? (fs : FS) (n i : Nat) :
    (unlink fs n)[i]? = (fs[i]?).map (fun f => if f.name == n then { f with linked := false } else f) := by
  simp [unlink]

theorem unlinkAll_length (del : List LF) : ∀ (fs : FS), (unlinkAll fs del).length = fs.length := by
  induction del with
  | nil => intro fs; rfl
  | cons d ds ih => intro fs; simp only [unlinkAll, List.foldl_cons] at *; rw [ih, unlink_length]

theorem dirEntries_unlinkAll (del : List LF) : ∀ (fs : FS),
    dirEntries (unlinkAll fs del) = (dirEntries fs).filter (fun e => del.all (fun d => e.ts != d.ts)) := by
  induction del with
  | nil =>
    intro fs
    simp only [unlinkAll, List.foldl_nil, List.all_nil]
    exact (List.filter_eq_self.mpr (fun _ _ => rfl)).symm
  | cons d ds ih =>
    intro fs
    simp only [unlinkAll, List.foldl_cons] at *
    rw [ih, dirEntries_unlink, List.filter_filter]
    congr 1
    funext e
    simp [Bool.and_comm]

/-- names and linked flags of inodes other than those named in `del` are untouched; names never change -/
theorem unlinkAll_getElem? (del : List LF) : ∀ (fs : FS) (i : Nat) (f' : File), (unlinkAll fs del)[i]? = some f' →
    ∃ f, fs[i]? = some f ∧ f'.name = f.name ∧ f'.recs = f.recs ∧
      (f'.linked = f.linked ∨ (f.linked = true ∧ f'.linked = false ∧ ∃ d ∈ del, d.ts = f.name)) := by
  induction del with
  | nil => intro fs i f' h; exact ⟨f', h, rfl, rfl, Or.inl rfl⟩
  | cons d ds ih =>
    intro fs i f' h
    simp only [unlinkAll, List.foldl_cons] at *
    obtain ⟨g, hg, hn, hr, hl⟩ := ih _ i f' h
    rw [unlink_getElem?] at hg
    cases hfi : fs[i]? with
    | none => simp [hfi] at hg
    | some f =>
      simp only [hfi, Option.map_some, Option.some.injEq] at hg
      refine ⟨f, rfl, ?_⟩
      by_cases hd : f.name == d.ts
      · simp only [hd, ↓reduceIte] at hg
        subst hg
        simp only at hn hr hl
        refine ⟨hn, hr, ?_⟩
        cases hfl : f.linked
        · left; rcases hl with hl | hl
          · exact hl
          · exact absurd hl.1 (by simp)
        · right
          refine ⟨rfl, ?_, d, by simp, (by simp at hd; exact hd.symm)⟩
          rcases hl with hl | hl
          · exact hl
          · exact hl.2.1
      · simp only [hd] at hg
        simp only [Bool.false_eq_true, ↓reduceIte] at hg
        subst hg
        refine ⟨hn, hr, ?_⟩
        rcases hl with hl | ⟨h1, h2, d', hd', e⟩
        · left; exact hl
        · right; exact ⟨h1, h2, d', List.mem_cons_of_mem _ hd', e⟩

/-! ## appendAt, create -/

theorem recsSize_append (a b : List Rec) : recsSize (a ++ b) = recsSize a + recsSize b := by
  induction a with
  | nil => simp [recsSize]
  | cons x xs ih => simp [recsSize, ih]; omega

theorem appendAt_length (recs : List Rec) : ∀ (fs : FS) (ino : Nat), (appendAt fs ino recs).length = fs.length := by
  intro fs
  induction fs with
  | nil => intro ino; rfl
  | cons f fs ih => intro ino; cases ino <;> simp [appendAt, ih]

theorem appendAt_getElem? (recs : List Rec) : ∀ (fs : FS) (ino i : Nat),
    (appendAt fs ino recs)[i]? = (fs[i]?).map (fun f => if i = ino then { f with recs := f.recs ++ recs } else f) := by
  intro fs
  induction fs with
  | nil => intro ino i; simp [appendAt]
  | cons f fs ih =>
    intro ino i
    cases ino with
    | zero => cases i <;> simp [appendAt]
    | succ n => cases i <;> simp [appendAt, ih]

theorem dirEntries_appendAt_ts (recs : List Rec) : ∀ (fs : FS) (ino : Nat),
    (dirEntries (appendAt fs ino recs)).map (·.ts) = (dirEntries fs).map (·.ts) := by
  intro fs
  induction fs with
  | nil => intro ino; rfl
  | cons f fs ih =>
    intro ino
    cases ino with
    | zero => simp only [appendAt, dirEntries_cons]; split <;> simp
    | succ n => simp only [appendAt, dirEntries_cons]; split <;> simp [ih]

theorem dirEntries_appendAt_mem (recs : List Rec) : ∀ (fs : FS) (ino : Nat) (e' : LF), e' ∈ dirEntries (appendAt fs ino recs) →
    ∃ e ∈ dirEntries fs, e.ts = e'.ts ∧
      (e'.size = e.size ∨ (e'.size = e.size + recsSize recs ∧ ∃ f, fs[ino]? = some f ∧ f.name = e.ts)) := by
  intro fs
  induction fs with
  | nil => intro ino e' h; simp [appendAt, dirEntries] at h
  | cons f fs ih =>
    intro ino e' h
    cases ino with
    | zero =>
      simp only [appendAt, dirEntries_cons] at h
      rw [dirEntries_cons]
      split at h
      · rename_i hl
        simp only [hl, ↓reduceIte]
        rcases List.mem_cons.mp h with rfl | h'
        · exact ⟨⟨f.name, f.size⟩, by simp, rfl, Or.inr ⟨by simp [File.size, recsSize_append], f, by simp, rfl⟩⟩
        · exact ⟨e', by simp [h'], rfl, Or.inl rfl⟩
      · rename_i hl
        simp only [hl, ↓reduceIte]
        exact ⟨e', h, rfl, Or.inl rfl⟩
    | succ n =>
      simp only [appendAt, dirEntries_cons] at h
      rw [dirEntries_cons]
      split at h
      · rename_i hl
        simp only [hl, ↓reduceIte]
        rcases List.mem_cons.mp h with rfl | h'
        · exact ⟨⟨f.name, f.size⟩, by simp, rfl, Or.inl rfl⟩
        · obtain ⟨e, he, h1, h2⟩ := ih n e' h'
          refine ⟨e, by simp [he], h1, ?_⟩
          simpa using h2
      · rename_i hl
        simp only [hl, ↓reduceIte]
        obtain ⟨e, he, h1, h2⟩ := ih n e' h
        exact ⟨e, he, h1, by simpa using h2⟩

/-! ## prune -/

theorem keepN_bound (total : Nat) : ∀ (older : List LF) (acc : Nat),
    keepN total acc older = 0 ∨ acc + lfSum (older.take (keepN total acc older)) ≤ total := by
  intro older
  induction older with
  | nil => intro acc; left; rfl
  | cons f r ih =>
    intro acc
    simp only [keepN]
    split
    · left; rfl
    · right
      rename_i h
      rcases ih (acc + f.size) with h0 | h1
      · rw [h0]; simp [lfSum]; omega
      · simp only [List.take_succ_cons, lfSum]; omega

@[simp] theorem closeRead_logfiles (l : Log) : (closeRead l).logfiles = l.logfiles := by unfold closeRead; split <;> rfl
@[simp] theorem closeRead_logfilesSize (l : Log) : (closeRead l).logfilesSize = l.logfilesSize := by unfold closeRead; split <;> rfl
@[simp] theorem closeRead_writeFile (l : Log) : (closeRead l).writeFile = l.writeFile := by unfold closeRead; split <;> rfl
@[simp] theorem closeRead_rdonly (l : Log) : (closeRead l).rdonly = l.rdonly := by unfold closeRead; split <;> rfl
@[simp] theorem closeRead_autorefresh (l : Log) : (closeRead l).autorefresh = l.autorefresh := by unfold closeRead; split <;> rfl
@[simp] theorem closeRead_hasHead (l : Log) : (closeRead l).hasHead = l.hasHead := by unfold closeRead; split <;> rfl
@[simp] theorem closeRead_totalSize (l : Log) : (closeRead l).totalSize = l.totalSize := by unfold closeRead; split <;> rfl
@[simp] theorem closeRead_fileSize (l : Log) : (closeRead l).fileSize = l.fileSize := by unfold closeRead; split <;> rfl
@[simp] theorem closeRead_readIdx (l : Log) : (closeRead l).readIdx = l.readIdx := by unfold closeRead; split <;> rfl

/-- the writer-relevant part of two instance states is the same -/
structure SameW (a b : Log) : Prop where
  logfiles : a.logfiles = b.logfiles
  logfilesSize : a.logfilesSize = b.logfilesSize
  writeFile : a.writeFile = b.writeFile
  rdonly : a.rdonly = b.rdonly
  autorefresh : a.autorefresh = b.autorefresh
  hasHead : a.hasHead = b.hasHead
  totalSize : a.totalSize = b.totalSize
  fileSize : a.fileSize = b.fileSize

theorem SameW.refl (a : Log) : SameW a a := ⟨rfl, rfl, rfl, rfl, rfl, rfl, rfl, rfl⟩

/-- what `prune_logfiles` does to the list, the byte count and the directory -/
theorem prune_spec (l : Log) (fs : FS) :
    (l.logfiles = [] ∧ (prune l fs).2 = fs ∧ (prune l fs).1.logfiles = [] ∧ (prune l fs).1.logfilesSize = 0 ∧
      SameW { (prune l fs).1 with logfiles := l.logfiles, logfilesSize := l.logfilesSize } l) ∨
    (∃ (newest : LF) (older : List LF), l.logfiles = older.reverse ++ [newest] ∧
      (prune l fs).2 = unlinkAll fs (older.drop (keepN l.totalSize newest.size older)) ∧
      (prune l fs).1.logfiles = (older.take (keepN l.totalSize newest.size older)).reverse ++ [newest] ∧
      (prune l fs).1.logfilesSize = lfSum (newest :: older.take (keepN l.totalSize newest.size older)) ∧
      SameW { (prune l fs).1 with logfiles := l.logfiles, logfilesSize := l.logfilesSize } l) := by
  unfold prune
  cases hrev : l.logfiles.reverse with
  | nil =>
    left
    have : l.logfiles = [] := by simpa using hrev
    exact ⟨this, rfl, this, rfl, ⟨rfl, rfl, rfl, rfl, rfl, rfl, rfl, rfl⟩⟩
  | cons newest older =>
    right
    have hl : l.logfiles = older.reverse ++ [newest] := by
      have := congrArg List.reverse hrev
      simpa using this
    refine ⟨newest, older, hl, ?_⟩
    simp only
    generalize keepN l.totalSize newest.size older = k
    by_cases hd : (older.drop k).isEmpty
    · simp only [hd, ↓reduceIte]
      have hde : older.drop k = [] := by simpa using hd
      have htk : older.take k = older := by
        have := List.take_append_drop k older
        rw [hde] at this; simpa using this
      refine ⟨by rw [hde]; rfl, by rw [htk]; exact hl, ?_, ?_⟩
      · first | rfl | trivial
      · exact ⟨rfl, rfl, rfl, rfl, rfl, rfl, rfl, rfl⟩
    · simp only [hd, Bool.false_eq_true, ↓reduceIte]
      have hdrop : List.drop (older.drop k).length l.logfiles = (older.take k).reverse ++ [newest] := by
        rw [hl]
        have : older.reverse = (older.drop k).reverse ++ (older.take k).reverse := by
          rw [← List.reverse_append, List.take_append_drop]
        rw [this, List.append_assoc]
        exact List.drop_left' (by simp)
      split
      · exact ⟨rfl, hdrop, rfl, ⟨rfl, rfl, rfl, rfl, rfl, rfl, rfl, rfl⟩⟩
      · refine ⟨rfl, by simpa using hdrop, by simp, ?_⟩
        constructor <;> simp

/-! ## the writer invariant -/

/-- What ties the writer's bookkeeping to the directory.  `dom`: every file in the directory is known to the writer,
with at least its size (exactly its size unless it was recreated outside - which nothing does). -/
structure WInv (fs : FS) (w : Log) : Prop where
  cfg : w.rdonly = false ∧ w.autorefresh = false ∧ w.hasHead = false
  sortedL : Sorted w.logfiles
  sortedD : Sorted (dirEntries fs)
  dom : ∀ e ∈ dirEntries fs, ∃ lf ∈ w.logfiles, lf.ts = e.ts ∧ e.size ≤ lf.size
  total : w.logfilesSize = lfSum w.logfiles
  wf : ∀ ino, w.writeFile = .opened ino →
    ∃ f lf, fs[ino]? = some f ∧ w.logfiles.getLast? = some lf ∧ lf.ts = f.name

theorem WInv.of_sameW {fs : FS} {a b : Log} (h : WInv fs b) (e : SameW a b) : WInv fs a := by
  obtain ⟨c, s1, s2, d, t, wf⟩ := h
  refine ⟨by rw [e.rdonly, e.autorefresh, e.hasHead]; exact c, by rw [e.logfiles]; exact s1, s2, by rw [e.logfiles]; exact d,
    by rw [e.logfiles, e.logfilesSize]; exact t, ?_⟩
  intro ino hi
  rw [e.writeFile] at hi
  rw [e.logfiles]
  exact wf ino hi

/-- the directory total is bounded by the writer's byte count -/
theorem WInv.disk_le {fs : FS} {w : Log} (h : WInv fs w) : lfSum (dirEntries fs) ≤ w.logfilesSize := by
  rw [h.total]
  exact lfSum_le_of_dominated _ _ h.sortedL h.sortedD h.dom

theorem WInv.unlink_ok {fs : FS} {w : Log} (h : WInv fs w) (n : Nat) : WInv (unlink fs n) w := by
  refine ⟨h.cfg, h.sortedL, ?_, ?_, h.total, ?_⟩
  · rw [dirEntries_unlink]; exact h.sortedD.filter _
  · intro e he
    rw [dirEntries_unlink, List.mem_filter] at he
    exact h.dom e he.1
  · intro ino hi
    obtain ⟨f, lf, h1, h2, h3⟩ := h.wf ino hi
    rw [unlink_getElem?, h1]
    by_cases hn : f.name == n
    · exact ⟨{ f with linked := false }, lf, by simp only [Option.map_some, hn, ↓reduceIte], h2, h3⟩
    · refine ⟨f, lf, ?_, h2, h3⟩
      simp only [Option.map_some]
      rw [if_neg hn]

theorem WInv.unlinkAll_ok {w : Log} (del : List LF) : ∀ {fs : FS}, WInv fs w → WInv (unlinkAll fs del) w := by
  induction del with
  | nil => intro fs h; exact h
  | cons d ds ih => intro fs h; simp only [unlinkAll, List.foldl_cons]; exact ih (h.unlink_ok d.ts)

/-- all names in the directory are at most the newest name the writer knows -/
theorem WInv.dir_le_last {fs : FS} {w : Log} (h : WInv fs w) {e last : LF} (he : e ∈ dirEntries fs)
    (hl : w.logfiles.getLast? = some last) : e.ts ≤ last.ts := by
  obtain ⟨lf, hlf, e1, _⟩ := h.dom e he
  have := sorted_le_last h.sortedL hlf hl
  omega

/-- **the name chosen for a new file is above every name in the directory** (for any timestamp) -/
theorem WInv.newTs_fresh {fs : FS} {w : Log} (h : WInv fs w) (us : Nat) :
    ∀ e ∈ dirEntries fs, e.ts < newTs patched w.logfiles us := by
  intro e he
  unfold newTs
  cases hl : w.logfiles.getLast? with
  | none =>
    exfalso
    obtain ⟨lf, hlf, _⟩ := h.dom e he
    rw [List.getLast?_eq_none_iff.mp hl] at hlf
    cases hlf
  | some last =>
    have := h.dir_le_last he hl
    simp only [patched, Bool.true_and]
    split <;> simp_all <;> omega

theorem WInv.newTs_gt {w : Log} {fs : FS} (h : WInv fs w) (us : Nat) :
    ∀ lf ∈ w.logfiles, lf.ts < newTs patched w.logfiles us := by
  intro lf hlf
  unfold newTs
  cases hl : w.logfiles.getLast? with
  | none => rw [List.getLast?_eq_none_iff.mp hl] at hlf; cases hlf
  | some last =>
    have := sorted_le_last h.sortedL hlf hl
    simp only [patched, Bool.true_and]
    split <;> simp_all <;> omega

/-- opening a file for a write: never hits an existing file, and the invariant is kept -/
theorem WInv.openForWrite_ok {fs : FS} {w : Log} (h : WInv fs w) (us : Nat) :
    let r := openForWrite patched w fs us
    WInv r.2.1 r.1 ∧ r.2.2.2 = false ∧ r.1.writeFile = .opened r.2.2.1 ∧
      (dirEntries r.2.1 = dirEntries fs ∨ dirEntries r.2.1 = dirEntries fs ++ [⟨newTs patched w.logfiles us, 0⟩]) ∧
      r.1.totalSize = w.totalSize ∧ r.1.fileSize = w.fileSize := by
  unfold openForWrite
  split
  · rename_i ino hw
    exact ⟨h, rfl, hw, Or.inl rfl, rfl, rfl⟩
  · rename_i hw
    have hfresh := h.newTs_fresh us
    have hnone : lookup fs (newTs patched w.logfiles us) = none :=
      lookup_eq_none (fun e he => Nat.ne_of_lt (hfresh e he))
    simp only [create, hnone]
    have hdir : dirEntries (fs ++ [⟨newTs patched w.logfiles us, [], true⟩]) =
        dirEntries fs ++ [⟨newTs patched w.logfiles us, 0⟩] := by
      rw [dirEntries_append]; rfl
    refine ⟨⟨h.cfg, ?_, ?_, ?_, ?_, ?_⟩, ?_, ?_, Or.inr hdir, ?_, ?_⟩ <;> try (first | rfl | trivial)
    · simp only
      rw [sorted_append]
      refine ⟨h.sortedL, by simp [Sorted], ?_⟩
      intro x hx y hy
      simp at hy; subst hy
      exact h.newTs_gt us x hx
    · rw [hdir, sorted_append]
      refine ⟨h.sortedD, by simp [Sorted], ?_⟩
      intro x hx y hy
      simp at hy; subst hy
      exact hfresh x hx
    · intro e he
      rw [hdir] at he
      rcases List.mem_append.mp he with h1 | h1
      · obtain ⟨lf, hlf, h2⟩ := h.dom e h1
        exact ⟨lf, List.mem_append_left _ hlf, h2⟩
      · simp at h1; subst h1
        exact ⟨⟨newTs patched w.logfiles us, 0⟩, by simp, rfl, Nat.le_refl _⟩
    · simp only [lfSum_append, lfSum]; rw [h.total]; omega
    · intro ino hi
      simp only [WF.opened.injEq] at hi
      subst hi
      exact ⟨⟨newTs patched w.logfiles us, [], true⟩, ⟨newTs patched w.logfiles us, 0⟩, by simp, by simp, rfl⟩

/-! ## appending, pruning, the whole write -/

def Budget (fs : FS) (total : Nat) : Prop := lfSum (dirEntries fs) ≤ total ∨ (dirEntries fs).length ≤ 1

theorem sorted_const_length {l : List LF} {c : Nat} (h : Sorted l) (hc : ∀ e ∈ l, e.ts = c) : l.length ≤ 1 := by
  cases l with
  | nil => simp
  | cons a r =>
    cases r with
    | nil => simp
    | cons b r' =>
      rw [sorted_cons] at h
      have h1 := h.1 b (by simp)
      have h2 := hc a (by simp)
      have h3 := hc b (by simp)
      omega

theorem WInv.setWriteNone {fs : FS} {w : Log} (h : WInv fs w) : WInv fs { w with writeFile := .none } :=
  ⟨h.cfg, h.sortedL, h.sortedD, h.dom, h.total, by intro ino hi; cases hi⟩

theorem WInv.append_ok {fs : FS} {w : Log} (h : WInv fs w) {ino : Nat} (hw : w.writeFile = .opened ino) (recs : List Rec) :
    WInv (appendAt fs ino recs)
      { w with logfiles := bumpLast w.logfiles (recsSize recs), logfilesSize := w.logfilesSize + recsSize recs } := by
  obtain ⟨f, lf, hf, hlast, hname⟩ := h.wf ino hw
  obtain ⟨ys, hys⟩ := List.getLast?_eq_some_iff.mp hlast
  have hb : bumpLast w.logfiles (recsSize recs) = ys ++ [{ lf with size := lf.size + recsSize recs }] := by
    rw [hys, bumpLast_append_singleton]
  refine ⟨h.cfg, ?_, ?_, ?_, ?_, ?_⟩
  · simp only [hb]
    have := h.sortedL
    rw [hys] at this
    simpa [Sorted] using this
  · unfold Sorted
    rw [dirEntries_appendAt_ts]
    exact h.sortedD
  · intro e' he'
    obtain ⟨e, he, hts, hsz⟩ := dirEntries_appendAt_mem recs fs ino e' he'
    obtain ⟨lf0, hlf0, h1, h2⟩ := h.dom e he
    simp only [hb]
    by_cases hlast0 : lf0.ts = lf.ts
    · have : lf0 = lf := sorted_ts_inj h.sortedL hlf0 (by rw [hys]; simp) hlast0
      subst this
      refine ⟨{ lf0 with size := lf0.size + recsSize recs }, by simp, by simp; omega, ?_⟩
      simp only
      rcases hsz with h3 | ⟨h3, _⟩ <;> omega
    · have hmem : lf0 ∈ ys := by
        rw [hys] at hlf0
        rcases List.mem_append.mp hlf0 with h3 | h3
        · exact h3
        · simp at h3; subst h3; exact absurd rfl hlast0
      refine ⟨lf0, List.mem_append_left _ hmem, by omega, ?_⟩
      rcases hsz with h3 | ⟨_, f', hf', hn'⟩
      · omega
      · exfalso
        rw [hf] at hf'
        cases hf'
        omega
  · simp only [hb, lfSum_append, lfSum]
    rw [h.total, hys, lfSum_append]
    simp [lfSum]; omega
  · intro ino' hi
    simp only at hi
    rw [hw] at hi
    cases hi
    refine ⟨{ f with recs := f.recs ++ recs }, { lf with size := lf.size + recsSize recs }, ?_, ?_, hname⟩
    · rw [appendAt_getElem?, hf]; simp
    · simp only [hb]; simp

theorem WInv.prune_ok {fs : FS} {w : Log} (h : WInv fs w) :
    WInv (prune w fs).2 (prune w fs).1 ∧ Budget (prune w fs).2 w.totalSize ∧
      (prune w fs).1.totalSize = w.totalSize ∧ (prune w fs).1.fileSize = w.fileSize ∧
      (prune w fs).1.writeFile = w.writeFile ∧ (prune w fs).1.logfiles.getLast? = w.logfiles.getLast? := by
  rcases prune_spec w fs with ⟨hnil, hfs, hl, hsz, hsame⟩ | ⟨newest, older, hlf, hfs, hl, hsz, hsame⟩
  · have hdir : dirEntries fs = [] := by
      cases hd : dirEntries fs with
      | nil => rfl
      | cons e _ =>
        obtain ⟨lf, hlf, _⟩ := h.dom e (by rw [hd]; simp)
        rw [hnil] at hlf; cases hlf
    refine ⟨⟨?_, ?_, ?_, ?_, ?_, ?_⟩, ?_, hsame.totalSize, hsame.fileSize, hsame.writeFile, by rw [hl, hnil]⟩
    · exact ⟨hsame.rdonly.trans h.cfg.1, hsame.autorefresh.trans h.cfg.2.1, hsame.hasHead.trans h.cfg.2.2⟩
    · rw [hl]; simp [Sorted]
    · rw [hfs]; exact h.sortedD
    · rw [hfs, hdir]; intro e he; cases he
    · rw [hl, hsz]; rfl
    · intro ino hi
      have : w.writeFile = .opened ino := hsame.writeFile.symm.trans hi |>.symm ▸ rfl
      obtain ⟨f, lf, _, h2, _⟩ := h.wf ino (by rw [← hsame.writeFile]; exact hi)
      rw [hnil] at h2; cases h2
    · left; rw [hfs, hdir]; simp [lfSum]
  · generalize hk : keepN w.totalSize newest.size older = k at hfs hl hsz
    have hsplit : w.logfiles = (older.drop k).reverse ++ ((older.take k).reverse ++ [newest]) := by
      rw [hlf, ← List.append_assoc, ← List.reverse_append, List.take_append_drop]
    have hU := h.unlinkAll_ok (older.drop k)
    have hsL := h.sortedL
    rw [hsplit, sorted_append] at hsL
    have hlast : w.logfiles.getLast? = some newest := by rw [hlf]; simp
    have hlast' : (prune w fs).1.logfiles.getLast? = some newest := by rw [hl]; simp
    have hdom : ∀ e ∈ dirEntries (prune w fs).2, ∃ lf ∈ (prune w fs).1.logfiles, lf.ts = e.ts ∧ e.size ≤ lf.size := by
      intro e he
      rw [hfs, dirEntries_unlinkAll, List.mem_filter] at he
      obtain ⟨lf, hlf0, h1, h2⟩ := h.dom e he.1
      rw [hsplit] at hlf0
      rcases List.mem_append.mp hlf0 with h3 | h3
      · exfalso
        have := List.all_eq_true.mp he.2 lf (by simpa using h3)
        simp at this; omega
      · exact ⟨lf, by rw [hl]; exact h3, h1, h2⟩
    have hW : WInv (prune w fs).2 (prune w fs).1 := by
      refine ⟨?_, ?_, ?_, hdom, ?_, ?_⟩
      · exact ⟨hsame.rdonly.trans h.cfg.1, hsame.autorefresh.trans h.cfg.2.1, hsame.hasHead.trans h.cfg.2.2⟩
      · rw [hl]; exact hsL.2.1
      · rw [hfs]; exact hU.sortedD
      · rw [hl, hsz, lfSum_append, lfSum_reverse]; simp [lfSum]; omega
      · intro ino hi
        obtain ⟨f, lf, h1, h2, h3⟩ := hU.wf ino (by rw [← hsame.writeFile]; exact hi)
        rw [hlast] at h2
        have : newest = lf := Option.some.inj h2
        subst this
        exact ⟨f, newest, by rw [hfs]; exact h1, hlast', h3⟩
    refine ⟨hW, ?_, hsame.totalSize, hsame.fileSize, hsame.writeFile, by rw [hlast, hlast']⟩
    rcases keepN_bound w.totalSize older newest.size with h0 | hb
    · right
      rw [hk] at h0
      apply sorted_const_length hW.sortedD (c := newest.ts)
      intro e he
      obtain ⟨lf, hlf0, h1, _⟩ := hdom e he
      rw [hl, h0] at hlf0
      simp at hlf0; subst hlf0; omega
    · left
      rw [hk] at hb
      have := hW.disk_le
      rw [hsz] at this
      simp only [lfSum] at this
      omega

/-- `write` on a writable instance keeps the invariant and ends within the budget -/
theorem WInv.writeOpen_ok {fs : FS} {w : Log} (h : WInv fs w) {ino : Nat} (hw : w.writeFile = .opened ino) (recs : List Rec) :
    WInv (writeOpen w fs ino recs).2 (writeOpen w fs ino recs).1 ∧ Budget (writeOpen w fs ino recs).2 w.totalSize ∧
      (writeOpen w fs ino recs).1.totalSize = w.totalSize ∧ (writeOpen w fs ino recs).1.fileSize = w.fileSize := by
  have ha := h.append_ok hw recs
  unfold writeOpen
  simp only
  split
  · rename_i hover
    obtain ⟨hp, hb, ht, hf, _, _⟩ := ha.prune_ok
    split
    · exact ⟨hp.setWriteNone, hb, ht, hf⟩
    · exact ⟨hp, hb, ht, hf⟩
  · rename_i hover
    have hb : Budget (appendAt fs ino recs) w.totalSize := by
      left
      have := ha.disk_le
      simp only at this hover
      omega
    split
    · exact ⟨ha.setWriteNone, hb, rfl, rfl⟩
    · exact ⟨ha, hb, rfl, rfl⟩

/-! ## reader-side calls leave the writer's bookkeeping alone -/

theorem SameW.trans {a b c : Log} (h1 : SameW a b) (h2 : SameW b c) : SameW a c :=
  ⟨h1.1.trans h2.1, h1.2.trans h2.2, h1.3.trans h2.3, h1.4.trans h2.4, h1.5.trans h2.5, h1.6.trans h2.6,
   h1.7.trans h2.7, h1.8.trans h2.8⟩

theorem closeRead_sameW (l : Log) : SameW (closeRead l) l := by
  unfold closeRead; split <;> exact ⟨rfl, rfl, rfl, rfl, rfl, rfl, rfl, rfl⟩

theorem readFinish_sameW (l : Log) (sc : Scan) : SameW (readFinish l sc).1 l := by
  cases sc <;> exact ⟨rfl, rfl, rfl, rfl, rfl, rfl, rfl, rfl⟩

theorem read_sameW (p : Policy) (l : Log) (fs : FS) (b : Bool) (h : l.autorefresh = false) : SameW (read p l fs b).1 l := by
  unfold read
  split
  · exact SameW.refl l
  · simp only [h, Bool.not_false, ↓reduceIte]
    split
    · exact SameW.refl l
    · exact readFinish_sameW l _

theorem seekStart_sameW (l : Log) : SameW (seekStart l).1 l := by
  unfold seekStart; split
  · exact SameW.refl l
  · have := closeRead_sameW l
    exact ⟨this.1, this.2, this.3, this.4, this.5, this.6, this.7, this.8⟩

theorem seekEnd_sameW (l : Log) : SameW (seekEnd l).1 l := by
  unfold seekEnd; split
  · exact SameW.refl l
  · have := closeRead_sameW l
    exact ⟨this.1, this.2, this.3, this.4, this.5, this.6, this.7, this.8⟩

theorem seekInvalid_sameW (l : Log) : SameW (seekInvalid l).1 l := by
  unfold seekInvalid; split
  · exact SameW.refl l
  · exact closeRead_sameW l

theorem seekBlock_sameW (l : Log) (us : Nat) : SameW (seekBlock l us).1 l := by
  unfold seekBlock; split
  · exact SameW.refl l
  · have := closeRead_sameW l
    exact ⟨this.1, this.2, this.3, this.4, this.5, this.6, this.7, this.8⟩

theorem seekName_sameW (l : Log) (fs : FS) (n : Nat) (off : Option Nat) : SameW (seekName l fs n off).1 l := by
  have hc := closeRead_sameW l
  have hc' : ∀ (i : Nat) (rf : RF), SameW { closeRead l with readIdx := i, readFile := rf } l :=
    fun _ _ => ⟨hc.1, hc.2, hc.3, hc.4, hc.5, hc.6, hc.7, hc.8⟩
  have hc'' : ∀ (i : Nat), SameW { closeRead l with readIdx := i } l :=
    fun _ => ⟨hc.1, hc.2, hc.3, hc.4, hc.5, hc.6, hc.7, hc.8⟩
  unfold seekName
  split
  · exact SameW.refl l
  · simp only
    split
    · exact hc'' _
    · split
      · split
        · exact hc'' _
        · exact hc' _ _
      · exact hc'' _

theorem seekPos_sameW (l : Log) (fs : FS) (p : Pos) : SameW (seekPos l fs p).1 l := by
  unfold seekPos; split
  · exact seekStart_sameW l
  · exact seekName_sameW l fs _ _

theorem WInv.kill_ok {fs : FS} {w : Log} (h : WInv fs w) : WInv fs (kill w) :=
  ⟨h.cfg, h.sortedL, h.sortedD, h.dom, h.total, by intro ino hi; cases hi⟩

theorem Budget.unlink_ok {fs : FS} {t : Nat} (h : Budget fs t) (n : Nat) : Budget (unlink fs n) t := by
  unfold Budget at *
  rw [dirEntries_unlink]
  rcases h with h | h
  · left; exact Nat.le_trans (lfSum_filter_le _ _) h
  · right; exact Nat.le_trans (List.length_filter_le _ _) h

/-! ## configuration never changes -/

structure SameCfg (a b : Log) : Prop where
  rdonly : a.rdonly = b.rdonly
  hasHead : a.hasHead = b.hasHead
  totalSize : a.totalSize = b.totalSize
  fileSize : a.fileSize = b.fileSize

theorem SameW.cfg {a b : Log} (h : SameW a b) : SameCfg a b := ⟨h.rdonly, h.hasHead, h.totalSize, h.fileSize⟩
theorem SameCfg.refl (a : Log) : SameCfg a a := ⟨rfl, rfl, rfl, rfl⟩
theorem SameCfg.trans {a b c : Log} (h1 : SameCfg a b) (h2 : SameCfg b c) : SameCfg a c :=
  ⟨h1.1.trans h2.1, h1.2.trans h2.2, h1.3.trans h2.3, h1.4.trans h2.4⟩

theorem refreshLogfiles_cfg (l : Log) (fs : FS) : SameCfg (refreshLogfiles l fs) l := by
  unfold refreshLogfiles
  simp only
  split
  · exact ⟨rfl, rfl, rfl, rfl⟩
  · exact (closeRead_sameW _).cfg.trans ⟨rfl, rfl, rfl, rfl⟩

theorem readFinish_cfg (l : Log) (sc : Scan) : SameCfg (readFinish l sc).1 l := (readFinish_sameW l sc).cfg

theorem readTail_cfg (l : Log) (fs : FS) (b : Bool) : SameCfg (readTail l fs b).1 l := by
  unfold readTail; split
  · exact SameCfg.refl l
  · exact readFinish_cfg _ _

theorem readAuto_cfg (p : Policy) (l : Log) (fs : FS) (b : Bool) (sc : Scan) : SameCfg (readAuto p l fs b sc).1 l := by
  cases sc with
  | data => exact readFinish_cfg _ _
  | exhausted =>
    simp only [readAuto, readExhausted]
    exact (readTail_cfg _ _ _).trans ((refreshLogfiles_cfg _ _).trans ⟨rfl, rfl, rfl, rfl⟩)
  | eofLast idx ino off =>
    simp only [readAuto, readEofLast]
    have h0 : SameCfg { l with readIdx := idx, readFile := RF.opened ino off } l := ⟨rfl, rfl, rfl, rfl⟩
    have h := (refreshLogfiles_cfg { l with readIdx := idx, readFile := .opened ino off } fs).trans h0
    generalize eofNextIdx p _ = ridx
    split
    · exact h
    · exact (readFinish_cfg _ _).trans ⟨h.1, h.2, h.3, h.4⟩

theorem read_cfg (p : Policy) (l : Log) (fs : FS) (b : Bool) : SameCfg (read p l fs b).1 l := by
  unfold read
  split
  · exact SameCfg.refl l
  · split
    · split
      · exact SameCfg.refl l
      · exact (readTail_cfg _ _ _).trans (refreshLogfiles_cfg _ _)
    · split
      · exact readFinish_cfg _ _
      · exact readAuto_cfg _ _ _ _ _

theorem refresh_cfg (l : Log) (fs : FS) : SameCfg (refresh l fs).1 l := by
  unfold refresh
  split
  · exact SameCfg.refl l
  · split
    · exact SameCfg.refl l
    · exact refreshLogfiles_cfg l fs

theorem kill_cfg (l : Log) : SameCfg (kill l) l := ⟨rfl, rfl, rfl, rfl⟩

theorem writeHead_cfg (l : Log) (h : HeadFS) (c : Option Nat) : SameCfg (writeHead l h c).1 l := by
  unfold writeHead
  split
  · split <;> first | exact SameCfg.refl l | exact kill_cfg l
  · split
    · exact SameCfg.refl l
    · simp only; split <;> first | exact SameCfg.refl l | exact kill_cfg l

theorem close_cfg (l : Log) (h : HeadFS) : SameCfg (close l h).1 l := by
  have := writeHead_cfg l h none
  unfold close
  simp only
  split
  · exact this
  · exact ⟨this.1, this.2, this.3, this.4⟩

theorem prune_cfg (l : Log) (fs : FS) : SameCfg (prune l fs).1 l := by
  rcases prune_spec l fs with ⟨_, _, _, _, h⟩ | ⟨_, _, _, _, _, _, h⟩ <;> exact ⟨h.rdonly, h.hasHead, h.totalSize, h.fileSize⟩

theorem constructScan_cfg (l : Log) (ar : Bool) (fs : FS) : SameCfg (constructScan l ar fs).1 l := by
  unfold constructScan
  simp only
  split
  · exact ⟨rfl, rfl, rfl, rfl⟩
  · have h0 : SameCfg (constructBase l ar fs) l := ⟨rfl, rfl, rfl, rfl⟩
    have := (prune_cfg (constructBase l ar fs) fs).trans h0
    exact ⟨this.1, this.2, this.3, this.4⟩

theorem restoreHead_cfg (l : Log) (fs : FS) (h : HeadFS) : SameCfg (restoreHead l fs h).1 l := by
  unfold restoreHead
  split
  · exact SameCfg.refl l
  · split
    · exact (seekStart_sameW _).cfg
    · exact (seekPos_sameW _ _ _).cfg
    · exact kill_cfg _

theorem construct_cfg (l : Log) (ar : Bool) (fs : FS) (h : HeadFS) : SameCfg (construct l ar fs h).1 l :=
  (restoreHead_cfg _ _ _).trans (constructScan_cfg _ _ _)

/-- a read-only instance never touches the directory when constructed -/
theorem construct_rdonly_fs (l : Log) (ar : Bool) (fs : FS) (h : HeadFS) (hr : l.rdonly = true) :
    (construct l ar fs h).2.1 = fs := by
  simp [construct, constructScan, constructBase, hr]

/-- constructing a writer on a well-formed directory establishes the invariant and the budget -/
theorem WInv.construct_ok {fs : FS} (hs : Sorted (dirEntries fs)) (l : Log) (ar : Bool)
    (hc : l.rdonly = false ∧ l.hasHead = false) (h : HeadFS) :
    WInv (construct l ar fs h).2.1 (construct l ar fs h).1 ∧ Budget (construct l ar fs h).2.1 l.totalSize := by
  have hscan : scan fs = dirEntries fs := sortLF_of_sorted _ hs
  have h0 : WInv fs (constructBase l ar fs) := by
    refine ⟨⟨hc.1, by simp [constructBase, hc.1], hc.2⟩, ?_, hs, ?_, rfl, ?_⟩
    · simp only [constructBase, hscan]; exact hs
    · intro e he
      exact ⟨e, by simp only [constructBase, hscan]; exact he, rfl, Nat.le_refl _⟩
    · intro ino hi; simp [constructBase, hc.1] at hi
  obtain ⟨hp, hb, _, _, _, _⟩ := h0.prune_ok
  have hrd : (constructBase l ar fs).rdonly = false := hc.1
  have e1 : (constructScan l ar fs).2 = (prune (constructBase l ar fs) fs).2 := by
    simp [constructScan, hrd]
  have e2 : SameW (constructScan l ar fs).1 (prune (constructBase l ar fs) fs).1 := by
    simp only [constructScan, hrd, Bool.false_eq_true, ↓reduceIte]
    exact ⟨rfl, rfl, rfl, rfl, rfl, rfl, rfl, rfl⟩
  have e3 : (constructScan l ar fs).1.hasHead = false := by rw [e2.hasHead]; exact hp.cfg.2.2
  have e4 : construct l ar fs h = ((constructScan l ar fs).1, (constructScan l ar fs).2, .ok) := by
    simp [construct, restoreHead, e3]
  rw [e4]
  simp only
  rw [e1]
  exact ⟨hp.of_sameW e2, hb⟩

/-! ## the system invariant, for arbitrary op sequences -/

structure SInv (s : Sys) : Prop where
  w : WInv s.fs s.w
  budget : Budget s.fs s.w.totalSize
  rRd : s.r.rdonly = true

theorem SInv.intro {fs : FS} {w r : Log} {hd : HeadFS} (h1 : WInv fs w) (h2 : Budget fs w.totalSize) (h3 : r.rdonly = true) :
    SInv { fs := fs, w := w, r := r, hd := hd } := ⟨h1, h2, h3⟩

/-- a call that only moves the read position of either instance -/
theorem SInv.set_same {s : Sys} (h : SInv s) (who : Who) (l : Log) (hs : SameW l (s.get who)) :
    SInv (s.set who l) := by
  cases who with
  | w => exact ⟨h.w.of_sameW hs, by simp only [Sys.set]; rw [hs.totalSize]; exact h.budget, h.rRd⟩
  | r => exact ⟨h.w, h.budget, by simp only [Sys.set]; rw [hs.rdonly]; exact h.rRd⟩

theorem write_closed (p : Policy) (l : Log) (fs : FS) (recs : List Rec) (us : Nat) (h : l.writeFile = .closed) :
    write p l fs recs us = (l, fs, .err .runtime) := by
  unfold write; simp [h]

theorem write_open (p : Policy) (l : Log) (fs : FS) (recs : List Rec) (us : Nat) (h : l.writeFile ≠ .closed) :
    write p l fs recs us =
      ((writeOpen (openForWrite p l fs us).1 (openForWrite p l fs us).2.1 (openForWrite p l fs us).2.2.1 recs).1,
       (writeOpen (openForWrite p l fs us).1 (openForWrite p l fs us).2.1 (openForWrite p l fs us).2.2.1 recs).2,
       .wrote (recsSize recs)) := by
  unfold write
  split
  · rename_i e; exact absurd e h
  · rfl

theorem WInv.write_ok {fs : FS} {w : Log} (h : WInv fs w) (hb : Budget fs w.totalSize) (recs : List Rec) (us : Nat) :
    WInv (write patched w fs recs us).2.1 (write patched w fs recs us).1 ∧
      Budget (write patched w fs recs us).2.1 (write patched w fs recs us).1.totalSize := by
  by_cases hc : w.writeFile = .closed
  · rw [write_closed _ _ _ _ _ hc]; exact ⟨h, hb⟩
  · rw [write_open _ _ _ _ _ hc]
    obtain ⟨h1, _, h3, _, h5, _⟩ := h.openForWrite_ok us
    obtain ⟨g1, g2, g3, _⟩ := h1.writeOpen_ok h3 recs
    exact ⟨g1, by simp only; rw [g3]; exact g2⟩

theorem SInv.step {s : Sys} (h : SInv s) (op : Op) : SInv (step patched s op).1 := by
  cases op with
  | write recs us =>
    obtain ⟨h1, h2⟩ := h.w.write_ok h.budget recs us
    exact ⟨h1, h2, h.rRd⟩
  | read who block =>
    cases who with
    | w => exact h.set_same .w _ (read_sameW _ _ _ _ h.w.cfg.2.1)
    | r => exact ⟨h.w, h.budget, by simp only [OF.RollLog.step, Sys.set, Sys.get]; rw [(read_cfg _ _ _ _).rdonly]; exact h.rRd⟩
  | seekStart who => exact h.set_same who _ (seekStart_sameW _)
  | seekEnd who => exact h.set_same who _ (seekEnd_sameW _)
  | seek who name off => exact h.set_same who _ (seekName_sameW _ _ _ _)
  | seekInvalid who => exact h.set_same who _ (seekInvalid_sameW _)
  | seekBlock who us => exact h.set_same who _ (seekBlock_sameW _ _)
  | tell who => exact h
  | refresh who =>
    cases who with
    | w =>
      have : refresh s.w s.fs = (s.w, .err .runtime) := by simp [refresh, h.w.cfg.1]
      simp only [OF.RollLog.step, Sys.get, this, Sys.set]
      exact h
    | r => exact ⟨h.w, h.budget, by simp only [OF.RollLog.step, Sys.set, Sys.get]; rw [(refresh_cfg _ _).rdonly]; exact h.rRd⟩
  | save who crash =>
    cases who with
    | w =>
      have hh := h.w.cfg.2.2
      simp only [OF.RollLog.step, Sys.get, Sys.set, writeHead, hh, Bool.not_false, ↓reduceIte]
      cases crash with
      | none => exact h
      | some k => exact ⟨h.w.kill_ok, h.budget, h.rRd⟩
    | r => exact ⟨h.w, h.budget, by simp only [OF.RollLog.step, Sys.set, Sys.get]; rw [(writeHead_cfg _ _ _).rdonly]; exact h.rRd⟩
  | close who =>
    cases who with
    | w =>
      have hh := h.w.cfg.2.2
      simp only [OF.RollLog.step, Sys.get, Sys.set, close, writeHead, hh, Bool.not_false, ↓reduceIte]
      exact ⟨⟨⟨h.w.cfg.1, h.w.cfg.2.1, rfl⟩, h.w.sortedL, h.w.sortedD, h.w.dom, h.w.total, by intro ino hi; cases hi⟩, h.budget, h.rRd⟩
    | r => exact ⟨h.w, h.budget, by simp only [OF.RollLog.step, Sys.set, Sys.get]; rw [(close_cfg _ _).rdonly]; exact h.rRd⟩
  | reopen who ar =>
    cases who with
    | w =>
      obtain ⟨h1, h2⟩ := WInv.construct_ok h.w.sortedD s.w ar ⟨h.w.cfg.1, h.w.cfg.2.2⟩ s.hd
      refine ⟨h1, ?_, h.rRd⟩
      simp only [OF.RollLog.step, Sys.get, Sys.set]
      rw [(construct_cfg _ _ _ _).totalSize]
      exact h2
    | r =>
      have e := construct_rdonly_fs s.r ar s.fs s.hd h.rRd
      simp only [OF.RollLog.step, Sys.get, Sys.set]
      refine ⟨by rw [e]; exact h.w, by rw [e]; exact h.budget, ?_⟩
      simp only
      rw [(construct_cfg _ _ _ _).rdonly]; exact h.rRd
  | delete name => exact ⟨h.w.unlink_ok name, h.budget.unlink_ok name, h.rRd⟩

theorem SInv.run {s : Sys} (h : SInv s) (ops : List Op) : SInv (run patched s ops) := by
  induction ops generalizing s with
  | nil => exact h
  | cons op ops ih => exact ih (h.step op)

/-- a directory left behind by earlier (fixed) writers: names of the files present are pairwise different and in
creation order.  The empty directory is one. -/
def DirOk (fs : FS) : Prop := Sorted (dirEntries fs)

theorem SInv.boot {fs : FS} (hfs : DirOk fs) (hd : HeadFS) (fsz tot : Nat) (hh ra : Bool) :
    SInv (boot fs hd fsz tot hh ra) := by
  obtain ⟨h1, h2⟩ := WInv.construct_ok hfs (blankLog false false fsz tot) false ⟨rfl, rfl⟩ hd
  have e := construct_rdonly_fs (blankLog true hh fsz tot) ra
    (construct (blankLog false false fsz tot) false fs hd).2.1 hd rfl
  unfold OF.RollLog.boot
  simp only
  refine ⟨by rw [e]; exact h1, ?_, ?_⟩
  · simp only; rw [e, (construct_cfg _ _ _ _).totalSize]; exact h2
  · simp only; rw [(construct_cfg _ _ _ _).rdonly]; rfl

/-! ## what a step does to an existing inode: records are only ever appended -/

/-- `f'` is `f` later: same name, records extended at the end only, possibly unlinked meanwhile -/
structure Later (f f' : File) : Prop where
  name : f'.name = f.name
  recs : f.recs <+: f'.recs
  linked : f'.linked = true → f.linked = true

theorem Later.refl (f : File) : Later f f := ⟨rfl, List.prefix_refl _, id⟩
theorem Later.trans {a b c : File} (h1 : Later a b) (h2 : Later b c) : Later a c :=
  ⟨h2.name.trans h1.name, h1.recs.trans h2.recs, fun h => h1.linked (h2.linked h)⟩

theorem unlinkAll_fwd (del : List LF) (fs : FS) (i : Nat) (f : File) (h : fs[i]? = some f) :
    ∃ f', (unlinkAll fs del)[i]? = some f' ∧ f'.name = f.name ∧ f'.recs = f.recs ∧
      (f'.linked = f.linked ∨ (f.linked = true ∧ f'.linked = false ∧ ∃ d ∈ del, d.ts = f.name)) := by
  have hi : i < (unlinkAll fs del).length := by
    rw [unlinkAll_length]
    exact (List.getElem?_eq_some_iff.mp h).1
  refine ⟨(unlinkAll fs del)[i], List.getElem?_eq_getElem hi, ?_⟩
  obtain ⟨f0, h0, h1, h2, h3⟩ := unlinkAll_getElem? del fs i _ (List.getElem?_eq_getElem hi)
  rw [h] at h0
  cases h0
  exact ⟨h1, h2, h3⟩

theorem prune_inode {fs : FS} {w : Log} (hw : WInv fs w) (i : Nat) (f : File) (h : fs[i]? = some f) :
    ∃ f', (prune w fs).2[i]? = some f' ∧ f'.name = f.name ∧ f'.recs = f.recs ∧
      (f'.linked = f.linked ∨ (f.linked = true ∧ f'.linked = false ∧
        ∃ last, w.logfiles.getLast? = some last ∧ f.name < last.ts)) := by
  rcases prune_spec w fs with ⟨_, hfs, _⟩ | ⟨newest, older, hlf, hfs, _⟩
  · rw [hfs]; exact ⟨f, h, rfl, rfl, Or.inl rfl⟩
  · rw [hfs]
    obtain ⟨f', h1, h2, h3, h4⟩ := unlinkAll_fwd _ fs i f h
    refine ⟨f', h1, h2, h3, ?_⟩
    rcases h4 with h4 | ⟨h5, h6, d, hd, hdn⟩
    · left; exact h4
    · right
      refine ⟨h5, h6, newest, by rw [hlf]; simp, ?_⟩
      have hs := hw.sortedL
      rw [hlf, sorted_append] at hs
      have hd' : d ∈ older.reverse := by simpa using List.mem_of_mem_drop hd
      have := hs.2.2 d hd' newest (by simp)
      omega

theorem prune_inode_later {fs : FS} {w : Log} (hw : WInv fs w) (i : Nat) (f : File) (h : fs[i]? = some f) :
    ∃ f', (prune w fs).2[i]? = some f' ∧ Later f f' ∧
      (f'.linked = f.linked ∨ ∃ last, (prune w fs).1.logfiles.getLast? = some last ∧ f.name < last.ts) := by
  obtain ⟨f', g1, g2, g3, g4⟩ := prune_inode hw i f h
  obtain ⟨_, _, _, _, _, hlast⟩ := hw.prune_ok
  refine ⟨f', g1, ⟨g2, by rw [g3]; exact List.prefix_refl _, ?_⟩, ?_⟩
  · intro hh; rcases g4 with g4 | g4
    · rw [← g4]; exact hh
    · exact g4.1
  · rcases g4 with g4 | ⟨_, _, last, hl, hlt⟩
    · left; exact g4
    · right; exact ⟨last, by rw [hlast]; exact hl, hlt⟩

theorem bumpLast_getLast? (l : List LF) (n : Nat) (last : LF) (h : l.getLast? = some last) :
    (bumpLast l n).getLast? = some { last with size := last.size + n } := by
  obtain ⟨ys, rfl⟩ := List.getLast?_eq_some_iff.mp h
  rw [bumpLast_append_singleton]; simp

theorem openForWrite_fs {fs : FS} {w : Log} (h : WInv fs w) (us : Nat) :
    (openForWrite patched w fs us).2.1 = fs ∨
    (openForWrite patched w fs us).2.1 = fs ++ [⟨newTs patched w.logfiles us, [], true⟩] := by
  unfold openForWrite
  split
  · left; rfl
  · right
    have hnone : lookup fs (newTs patched w.logfiles us) = none :=
      lookup_eq_none (fun e he => Nat.ne_of_lt (h.newTs_fresh us e he))
    simp only [create, hnone]

theorem writeOpen_inode {fs : FS} {w : Log} (hw : WInv fs w) {ino : Nat} (ho : w.writeFile = .opened ino)
    (recs : List Rec) (i : Nat) (f : File) (h : fs[i]? = some f) :
    ∃ f', (writeOpen w fs ino recs).2[i]? = some f' ∧ Later f f' ∧
      (f'.linked = f.linked ∨ ∃ last, (writeOpen w fs ino recs).1.logfiles.getLast? = some last ∧ f.name < last.ts) := by
  have ha := hw.append_ok ho recs
  have h2 : (appendAt fs ino recs)[i]? = some (if i = ino then { f with recs := f.recs ++ recs } else f) := by
    rw [appendAt_getElem?, h]; rfl
  have hl2 : Later f (if i = ino then { f with recs := f.recs ++ recs } else f) := by
    split
    · exact ⟨rfl, List.prefix_append _ _, id⟩
    · exact Later.refl f
  have hlk : (if i = ino then { f with recs := f.recs ++ recs } else f).linked = f.linked := by split <;> rfl
  have hnm : (if i = ino then { f with recs := f.recs ++ recs } else f).name = f.name := by split <;> rfl
  generalize (if i = ino then { f with recs := f.recs ++ recs } else f) = f2 at h2 hl2 hlk hnm
  unfold writeOpen
  simp only
  split
  · obtain ⟨f', g1, g2, g3⟩ := prune_inode_later ha i f2 h2
    have hL : Later f f' := hl2.trans g2
    have hK := g3
    rw [hlk, hnm] at hK
    split
    · exact ⟨f', g1, hL, hK⟩
    · exact ⟨f', g1, hL, hK⟩
  · split
    · exact ⟨f2, h2, hl2, Or.inl hlk⟩
    · exact ⟨f2, h2, hl2, Or.inl hlk⟩

/-- `write` and one existing inode -/
theorem write_inode {fs : FS} {w : Log} (hw : WInv fs w) (recs : List Rec) (us : Nat) (i : Nat) (f : File)
    (h : fs[i]? = some f) :
    ∃ f', (write patched w fs recs us).2.1[i]? = some f' ∧ Later f f' ∧
      (f'.linked = f.linked ∨ ∃ last, (write patched w fs recs us).1.logfiles.getLast? = some last ∧ f.name < last.ts) := by
  by_cases hc : w.writeFile = .closed
  · rw [write_closed _ _ _ _ _ hc]; exact ⟨f, h, Later.refl f, Or.inl rfl⟩
  · rw [write_open _ _ _ _ _ hc]
    obtain ⟨h1, _, h3, _, _, _⟩ := hw.openForWrite_ok us
    have hf1 : (openForWrite patched w fs us).2.1[i]? = some f := by
      rcases openForWrite_fs hw us with e | e
      · rw [e]; exact h
      · rw [e, List.getElem?_append_left (List.getElem?_eq_some_iff.mp h).1]; exact h
    exact writeOpen_inode h1 h3 recs i f hf1

/-- **append-only**: whatever op is executed, an existing inode keeps its name and its records (as a prefix) -/
theorem step_inode {s : Sys} (hs : SInv s) (op : Op) (i : Nat) (f : File) (h : s.fs[i]? = some f) :
    ∃ f', (step patched s op).1.fs[i]? = some f' ∧ Later f f' := by
  cases op with
  | write recs us =>
    obtain ⟨f', h1, h2, _⟩ := write_inode hs.w recs us i f h
    exact ⟨f', h1, h2⟩
  | delete name =>
    refine ⟨_, by simp only [step]; rw [unlink_getElem?, h]; rfl, ?_⟩
    show Later f (if (f.name == name) = true then { f with linked := false } else f)
    split
    · exact ⟨rfl, List.prefix_refl _, by intro hh; cases hh⟩
    · exact Later.refl f
  | reopen who ar =>
    cases who with
    | r =>
      have e := construct_rdonly_fs s.r ar s.fs s.hd hs.rRd
      exact ⟨f, by simp only [step, Sys.get, Sys.set]; rw [e]; exact h, Later.refl f⟩
    | w =>
      have hrd : (constructBase s.w ar s.fs).rdonly = false := hs.w.cfg.1
      have e : (construct s.w ar s.fs s.hd).2.1 = (prune (constructBase s.w ar s.fs) s.fs).2 := by
        simp [construct, constructScan, hrd]
      have hscan : scan s.fs = dirEntries s.fs := sortLF_of_sorted _ hs.w.sortedD
      have h0 : WInv s.fs (constructBase s.w ar s.fs) := by
        refine ⟨⟨hs.w.cfg.1, by simp [constructBase, hs.w.cfg.1], hs.w.cfg.2.2⟩, ?_, hs.w.sortedD, ?_, rfl, ?_⟩
        · simp only [constructBase, hscan]; exact hs.w.sortedD
        · intro e he
          exact ⟨e, by simp only [constructBase, hscan]; exact he, rfl, Nat.le_refl _⟩
        · intro ino hi; simp [constructBase, hs.w.cfg.1] at hi
      obtain ⟨f', g1, g2, _⟩ := prune_inode_later h0 i f h
      exact ⟨f', by simp only [step, Sys.get, Sys.set]; rw [e]; exact g1, g2⟩
  | read who block => cases who <;> exact ⟨f, h, Later.refl f⟩
  | seekStart who => cases who <;> exact ⟨f, h, Later.refl f⟩
  | seekEnd who => cases who <;> exact ⟨f, h, Later.refl f⟩
  | seek who name off => cases who <;> exact ⟨f, h, Later.refl f⟩
  | seekInvalid who => cases who <;> exact ⟨f, h, Later.refl f⟩
  | seekBlock who us => cases who <;> exact ⟨f, h, Later.refl f⟩
  | tell who => exact ⟨f, h, Later.refl f⟩
  | refresh who => cases who <;> exact ⟨f, h, Later.refl f⟩
  | save who crash => cases who <;> exact ⟨f, h, Later.refl f⟩
  | close who => cases who <;> exact ⟨f, h, Later.refl f⟩

/-! ## configuration of the writer along a run -/

theorem write_cfg {fs : FS} {w : Log} (hw : WInv fs w) (recs : List Rec) (us : Nat) :
    (write patched w fs recs us).1.totalSize = w.totalSize := by
  by_cases hc : w.writeFile = .closed
  · rw [write_closed _ _ _ _ _ hc]
  · rw [write_open _ _ _ _ _ hc]
    obtain ⟨h1, _, h3, _, h5, _⟩ := hw.openForWrite_ok us
    obtain ⟨_, _, g3, _⟩ := h1.writeOpen_ok h3 recs
    simp only; rw [g3, h5]

theorem SInv.step_tot {s : Sys} (h : SInv s) (op : Op) : (OF.RollLog.step patched s op).1.w.totalSize = s.w.totalSize := by
  cases op with
  | write recs us => exact write_cfg h.w recs us
  | read who block => cases who <;> first | rfl | exact (read_cfg _ _ _ _).totalSize
  | seekStart who => cases who <;> first | rfl | exact (seekStart_sameW _).totalSize
  | seekEnd who => cases who <;> first | rfl | exact (seekEnd_sameW _).totalSize
  | seek who name off => cases who <;> first | rfl | exact (seekName_sameW _ _ _ _).totalSize
  | seekInvalid who => cases who <;> first | rfl | exact (seekInvalid_sameW _).totalSize
  | seekBlock who us => cases who <;> first | rfl | exact (seekBlock_sameW _ _).totalSize
  | tell who => rfl
  | refresh who => cases who <;> first | rfl | exact (refresh_cfg _ _).totalSize
  | save who crash => cases who <;> first | rfl | exact (writeHead_cfg _ _ _).totalSize
  | close who => cases who <;> first | rfl | exact (close_cfg _ _).totalSize
  | reopen who ar => cases who <;> first | rfl | exact (construct_cfg _ _ _ _).totalSize
  | delete name => rfl

theorem SInv.run_tot {s : Sys} (h : SInv s) (ops : List Op) : (OF.RollLog.run patched s ops).w.totalSize = s.w.totalSize := by
  induction ops generalizing s with
  | nil => rfl
  | cons op ops ih => exact (ih (h.step op)).trans (h.step_tot op)

theorem boot_tot (fs : FS) (hd : HeadFS) (fsz tot : Nat) (hh ra : Bool) : (boot fs hd fsz tot hh ra).w.totalSize = tot := by
  unfold boot
  simp only
  exact (construct_cfg _ _ _ _).totalSize

/-! ## configuration of the reader along a run -/

theorem step_r_cfg (p : Policy) (s : Sys) (op : Op) : SameCfg (step p s op).1.r s.r := by
  cases op with
  | write recs us => exact SameCfg.refl _
  | read who block => cases who <;> first | exact SameCfg.refl _ | exact read_cfg _ _ _ _
  | seekStart who => cases who <;> first | exact SameCfg.refl _ | exact (seekStart_sameW _).cfg
  | seekEnd who => cases who <;> first | exact SameCfg.refl _ | exact (seekEnd_sameW _).cfg
  | seek who name off => cases who <;> first | exact SameCfg.refl _ | exact (seekName_sameW _ _ _ _).cfg
  | seekInvalid who => cases who <;> first | exact SameCfg.refl _ | exact (seekInvalid_sameW _).cfg
  | seekBlock who us => cases who <;> first | exact SameCfg.refl _ | exact (seekBlock_sameW _ _).cfg
  | tell who => exact SameCfg.refl _
  | refresh who => cases who <;> first | exact SameCfg.refl _ | exact refresh_cfg _ _
  | save who crash => cases who <;> first | exact SameCfg.refl _ | exact writeHead_cfg _ _ _
  | close who => cases who <;> first | exact SameCfg.refl _ | exact close_cfg _ _
  | reopen who ar => cases who <;> first | exact SameCfg.refl _ | exact construct_cfg _ _ _ _
  | delete name => exact SameCfg.refl _

theorem run_r_cfg (p : Policy) (s : Sys) (ops : List Op) : SameCfg (run p s ops).r s.r := by
  induction ops generalizing s with
  | nil => exact SameCfg.refl _
  | cons op ops ih => exact (ih _).trans (step_r_cfg p s op)

theorem boot_r_cfg (fs : FS) (hd : HeadFS) (fsz tot : Nat) (hh ra : Bool) :
    (boot fs hd fsz tot hh ra).r.hasHead = hh ∧ (boot fs hd fsz tot hh ra).r.rdonly = true := by
  unfold boot
  simp only
  exact ⟨(construct_cfg _ _ _ _).hasHead, (construct_cfg _ _ _ _).rdonly⟩

/-! ## The property theorems -/

/-- bytes in the log directory -/
def diskTotal (fs : FS) : Nat := lfSum (dirEntries fs)

/-- size of the newest file in the directory (the one with the largest name), 0 if there is none -/
def newestSize (fs : FS) : Nat := lastSize (scan fs)

theorem budget_max {fs : FS} {t : Nat} (h : Budget fs t) : diskTotal fs ≤ max t (newestSize fs) := by
  unfold diskTotal newestSize scan
  rcases h with h | h
  · omega
  · cases hd : dirEntries fs with
    | nil => simp [lfSum]
    | cons e r =>
      cases r with
      | nil => simp [lfSum, sortLF, insertLF, lastSize]; omega
      | cons e2 r2 => rw [hd] at h; simp at h

/-- **C13 (no overwrite)**: in every state reachable by any op sequence (any timestamps: equal, decreasing, from the
clock), opening a file for the next write - whatever its timestamp `us` - does not hit an existing file, and the new
name is above every name in the directory, so names stay in writing order. -/
theorem C13_no_overwrite (fs0 : FS) (hd : HeadFS) (fsz tot : Nat) (hh ra : Bool) (hfs : DirOk fs0) (ops : List Op) (us : Nat) :
    let s := run patched (boot fs0 hd fsz tot hh ra) ops
    (openForWrite patched s.w s.fs us).2.2.2 = false ∧ ∀ e ∈ dirEntries s.fs, e.ts < newTs patched s.w.logfiles us := by
  have h := (SInv.boot hfs hd fsz tot hh ra).run ops
  exact ⟨(h.w.openForWrite_ok us).2.1, h.w.newTs_fresh us⟩

/-- **C13 (append only)**: no op - in particular no roll-over - ever removes or alters a record of an existing file:
every inode keeps its name and its records as a prefix.  (Files disappear from the directory only by `unlink`.) -/
theorem C13_append_only (fs0 : FS) (hd : HeadFS) (fsz tot : Nat) (hh ra : Bool) (hfs : DirOk fs0) (ops : List Op) (op : Op)
    (i : Nat) (f : File) :
    let s := run patched (boot fs0 hd fsz tot hh ra) ops
    s.fs[i]? = some f → ∃ f', (step patched s op).1.fs[i]? = some f' ∧ f'.name = f.name ∧ f.recs <+: f'.recs := by
  intro s h
  obtain ⟨f', h1, h2⟩ := step_inode ((SInv.boot hfs hd fsz tot hh ra).run ops) op i f h
  exact ⟨f', h1, h2.name, h2.recs⟩

/-- **C13 (budget)**: after every op of any sequence - in particular after every `write` - the files in the directory
total at most `total_size`, or the size of the newest file alone if that is larger. -/
theorem C13_budget (fs0 : FS) (hd : HeadFS) (fsz tot : Nat) (hh ra : Bool) (hfs : DirOk fs0) (ops : List Op) :
    let s := run patched (boot fs0 hd fsz tot hh ra) ops
    diskTotal s.fs ≤ max tot (newestSize s.fs) := by
  have h0 := SInv.boot hfs hd fsz tot hh ra
  have h := h0.run ops
  have ht : (run patched (boot fs0 hd fsz tot hh ra) ops).w.totalSize = tot := (h0.run_tot ops).trans (boot_tot ..)
  have hb := h.budget
  rw [ht] at hb
  exact budget_max hb

/-- **C13 (newest kept)**: a `write` (including its prune) only unlinks files whose name is below the name of the file
the writer regards as newest, i.e. the file being written is never pruned. -/
theorem C13_newest_kept (fs0 : FS) (hd : HeadFS) (fsz tot : Nat) (hh ra : Bool) (hfs : DirOk fs0) (ops : List Op)
    (recs : List Rec) (us : Nat) (i : Nat) (f f' : File) :
    let s := run patched (boot fs0 hd fsz tot hh ra) ops
    let s' := (step patched s (.write recs us)).1
    s.fs[i]? = some f → s'.fs[i]? = some f' → f.linked = true → f'.linked = false →
      ∃ last, s'.w.logfiles.getLast? = some last ∧ f.name < last.ts := by
  intro s s' h1 h2 h3 h4
  obtain ⟨f'', g1, _, g3⟩ := write_inode ((SInv.boot hfs hd fsz tot hh ra).run ops).w recs us i f h1
  have : f'' = f' := by
    have : (step patched s (.write recs us)).1.fs[i]? = some f'' := g1
    rw [h2] at this; exact (Option.some.inj this).symm
  subst this
  rcases g3 with g3 | g3
  · rw [h3, h4] at g3; cases g3
  · exact g3

/-! Non-vacuity and negative witnesses (`decide`d on the same definitions). -/

def demoBoot (fsz tot : Nat) : Sys := boot [] ⟨none, none⟩ fsz tot false true

/-- six writes with equal timestamps, `file_size = 1`: six files, bumped names -/
example : dirEntries (run patched (demoBoot 1 1000) (List.replicate 6 (.write [⟨0, 3⟩] 1000))).fs =
    [⟨1000, 4⟩, ⟨1001, 4⟩, ⟨1002, 4⟩, ⟨1003, 4⟩, ⟨1004, 4⟩, ⟨1005, 4⟩] := by decide +kernel

/-- the pinned naming: the same history leaves ONE file with one record (five overwritten) -/
example : dirEntries (run pinned (demoBoot 1 1000) (List.replicate 6 (.write [⟨0, 3⟩] 1000))).fs = [⟨1000, 4⟩] := by
  decide +kernel

/-- pinned naming, clock stepping back: the new file sorts before the existing one -/
example : dirEntries (run pinned (demoBoot 1 1000) [.write [⟨0, 3⟩] 1000, .write [⟨1, 3⟩] 999]).fs = [⟨1000, 4⟩, ⟨999, 4⟩] := by
  decide +kernel

example : dirEntries (run patched (demoBoot 1 1000) [.write [⟨0, 3⟩] 1000, .write [⟨1, 3⟩] 999]).fs = [⟨1000, 4⟩, ⟨1001, 4⟩] := by
  decide +kernel

/-- budget with pruning: `file_size = 5`, `total_size = 12`, four 6-byte records: two files remain -/
example : dirEntries (run patched (demoBoot 5 12)
    [.write [⟨0, 5⟩] 1000, .write [⟨1, 5⟩] 1001, .write [⟨2, 5⟩] 1002, .write [⟨3, 5⟩] 1003]).fs = [⟨1002, 6⟩, ⟨1003, 6⟩] := by
  decide +kernel

/-! # The reader

From here on: runs without a writer restart, from the empty directory (what the driver does).  The additional
invariants: inode names increase in creation order (`NamesInc`), the writer's newest entry bounds every name ever used
(`NamesBelow`; this is what a writer restart after an external deletion of the newest file could break), and the
reader's possibly stale file list is sorted, complete up to its maximum, and consistent with its open handle. -/

def NamesInc (fs : FS) : Prop := (fs.map (·.name)).Pairwise (· < ·)

def NamesBelow (fs : FS) (w : Log) : Prop := ∀ f ∈ fs, ∃ last, w.logfiles.getLast? = some last ∧ f.name ≤ last.ts

theorem lookup_some {fs : FS} {n ino : Nat} (h : lookup fs n = some ino) :
    ∃ f, fs[ino]? = some f ∧ f.linked = true ∧ f.name = n := by
  unfold lookup at h
  rw [List.findIdx?_eq_some_iff_getElem] at h
  obtain ⟨hlt, hp, _⟩ := h
  refine ⟨fs[ino], List.getElem?_eq_getElem hlt, ?_⟩
  simpa using hp

theorem unlink_names (fs : FS) (n : Nat) : (unlink fs n).map (·.name) = fs.map (·.name) := by
  induction fs with
  | nil => rfl
  | cons f fs ih =>
    simp only [unlink, List.map_cons, List.map_map] at *
    rw [ih]
    congr 1
    split <;> rfl

theorem unlinkAll_names (del : List LF) : ∀ (fs : FS), (unlinkAll fs del).map (·.name) = fs.map (·.name) := by
  induction del with
  | nil => intro fs; rfl
  | cons d ds ih => intro fs; simp only [unlinkAll, List.foldl_cons] at *; rw [ih, unlink_names]

theorem appendAt_names (recs : List Rec) : ∀ (fs : FS) (ino : Nat), (appendAt fs ino recs).map (·.name) = fs.map (·.name) := by
  intro fs
  induction fs with
  | nil => intro ino; rfl
  | cons f fs ih => intro ino; cases ino <;> simp [appendAt, ih]

theorem prune_names (w : Log) (fs : FS) : (prune w fs).2.map (·.name) = fs.map (·.name) := by
  rcases prune_spec w fs with ⟨_, hfs, _⟩ | ⟨_, _, _, hfs, _⟩
  · rw [hfs]
  · rw [hfs, unlinkAll_names]

theorem writeOpen_names (w : Log) (fs : FS) (ino : Nat) (recs : List Rec) :
    (writeOpen w fs ino recs).2.map (·.name) = fs.map (·.name) := by
  unfold writeOpen
  simp only
  split <;> split <;> simp only [prune_names, appendAt_names]

theorem writeOpen_last {fs : FS} {w : Log} (hw : WInv fs w) {ino : Nat} (ho : w.writeFile = .opened ino) (recs : List Rec)
    (last : LF) (hl : w.logfiles.getLast? = some last) :
    ∃ last', (writeOpen w fs ino recs).1.logfiles.getLast? = some last' ∧ last'.ts = last.ts := by
  have ha := hw.append_ok ho recs
  have hb := bumpLast_getLast? w.logfiles (recsSize recs) last hl
  unfold writeOpen
  simp only
  split
  · obtain ⟨_, _, _, _, _, hlast⟩ := ha.prune_ok
    split <;> exact ⟨{ last with size := last.size + recsSize recs }, by simp only; rw [hlast]; exact hb, rfl⟩
  · split <;> exact ⟨{ last with size := last.size + recsSize recs }, hb, rfl⟩

/-- the two global name invariants survive a `write` -/
theorem write_names {fs : FS} {w : Log} (hw : WInv fs w) (hi : NamesInc fs) (hb : NamesBelow fs w) (recs : List Rec) (us : Nat) :
    NamesInc (write patched w fs recs us).2.1 ∧ NamesBelow (write patched w fs recs us).2.1 (write patched w fs recs us).1 := by
  by_cases hc : w.writeFile = .closed
  · rw [write_closed _ _ _ _ _ hc]; exact ⟨hi, hb⟩
  · rw [write_open _ _ _ _ _ hc]
    obtain ⟨h1, _, h3, _, _, _⟩ := hw.openForWrite_ok us
    -- after the open: both invariants, and the newest entry
    have key : NamesInc (openForWrite patched w fs us).2.1 ∧ NamesBelow (openForWrite patched w fs us).2.1 (openForWrite patched w fs us).1 := by
      unfold openForWrite
      split
      · exact ⟨hi, hb⟩
      · have hnone : lookup fs (newTs patched w.logfiles us) = none :=
          lookup_eq_none (fun e he => Nat.ne_of_lt (hw.newTs_fresh us e he))
        simp only [create, hnone]
        have hgt : ∀ f ∈ fs, f.name < newTs patched w.logfiles us := by
          intro f hf
          obtain ⟨last, hl, hle⟩ := hb f hf
          have := hw.newTs_gt us last (List.mem_of_getLast? hl)
          omega
        constructor
        · unfold NamesInc
          rw [List.map_append, List.pairwise_append]
          refine ⟨hi, by simp, ?_⟩
          intro a ha b hb'
          simp at hb'; subst hb'
          obtain ⟨f, hf, rfl⟩ := List.mem_map.mp ha
          exact hgt f hf
        · intro f hf
          refine ⟨⟨newTs patched w.logfiles us, 0⟩, by simp, ?_⟩
          rcases List.mem_append.mp hf with h | h
          · exact Nat.le_of_lt (hgt f h)
          · simp at h; subst h; exact Nat.le_refl _
    constructor
    · unfold NamesInc; simp only; rw [writeOpen_names]; exact key.1
    · intro f hf
      simp only at hf ⊢
      have hfn : f.name ∈ ((openForWrite patched w fs us).2.1).map (·.name) := by
        rw [← writeOpen_names (openForWrite patched w fs us).1 _ (openForWrite patched w fs us).2.2.1 recs]
        exact List.mem_map_of_mem hf
      obtain ⟨g, hg, hgn⟩ := List.mem_map.mp hfn
      obtain ⟨last, hl, hle⟩ := key.2 g hg
      obtain ⟨last', hl', hts⟩ := writeOpen_last h1 h3 recs last hl
      exact ⟨last', hl', by omega⟩

/-- the reader's list: sorted, names are names of inodes, and every file in the directory is in the list or newer than
everything in it -/
structure RL (fs : FS) (L : List LF) : Prop where
  sorted : Sorted L
  known : ∀ lf ∈ L, ∃ f ∈ fs, f.name = lf.ts
  complete : ∀ e ∈ dirEntries fs, (∃ lf ∈ L, lf.ts = e.ts) ∨ (∀ lf ∈ L, lf.ts < e.ts)

/-- the open read handle belongs to the list entry `read_idx` points to -/
def ROpen (fs : FS) (l : Log) : Prop :=
  ∀ ino off, l.readFile = .opened ino off → ∃ f lf, fs[ino]? = some f ∧ l.logfiles[l.readIdx]? = some lf ∧ lf.ts = f.name

structure RInv (fs : FS) (l : Log) : Prop where
  list : RL fs l.logfiles
  opened : ROpen fs l

theorem RL.of_scan {fs : FS} (hs : Sorted (dirEntries fs)) : RL fs (scan fs) := by
  rw [sortLF_of_sorted _ hs |> (fun h => (h : scan fs = dirEntries fs))]
  refine ⟨hs, ?_, ?_⟩
  · intro lf hlf
    obtain ⟨f, hf, _, rfl⟩ := mem_dirEntries.mp hlf
    exact ⟨f, hf, rfl⟩
  · intro e he; left; exact ⟨e, he, rfl⟩

/-- a step of the file system that keeps inodes (`Later`) and gives new inodes larger names keeps `RL` -/
theorem RL.later {fs fs' : FS} {L : List LF} (h : RL fs L)
    (hold : ∀ (i : Nat) (f : File), fs[i]? = some f → ∃ f', fs'[i]? = some f' ∧ Later f f')
    (hinc : NamesInc fs') : RL fs' L := by
  refine ⟨h.sorted, ?_, ?_⟩
  · intro lf hlf
    obtain ⟨f, hf, hn⟩ := h.known lf hlf
    obtain ⟨i, hi⟩ := List.mem_iff_getElem?.mp hf
    obtain ⟨f', hf', hl⟩ := hold i f hi
    exact ⟨f', List.mem_of_getElem? hf', hl.name.trans hn⟩
  · intro e he
    obtain ⟨f', hf', hlk, rfl⟩ := mem_dirEntries.mp he
    obtain ⟨i, hi⟩ := List.mem_iff_getElem?.mp hf'
    by_cases hlt : i < fs.length
    · -- an old inode
      obtain ⟨f'', hf'', hl⟩ := hold i fs[i] (List.getElem?_eq_getElem hlt)
      rw [hi] at hf''
      cases hf''
      have : (⟨fs[i].name, fs[i].size⟩ : LF) ∈ dirEntries fs :=
        mem_dirEntries.mpr ⟨fs[i], List.getElem_mem hlt, hl.linked hlk, rfl⟩
      rcases h.complete _ this with h1 | h1
      · left; simpa [hl.name] using h1
      · right; simpa [hl.name] using h1
    · -- a new inode: above every old name, hence above the whole list
      right
      intro lf hlf
      obtain ⟨f, hf, hn⟩ := h.known lf hlf
      obtain ⟨j, hj⟩ := List.mem_iff_getElem?.mp hf
      obtain ⟨g, hg, hgl⟩ := hold j f hj
      have hjlt : j < fs.length := (List.getElem?_eq_some_iff.mp hj).1
      have hj' : j < fs'.length := (List.getElem?_eq_some_iff.mp hg).1
      have hi' : i < fs'.length := (List.getElem?_eq_some_iff.mp hi).1
      have hp := List.pairwise_iff_getElem.mp hinc j i (by simpa using hj') (by simpa using hi') (by omega)
      simp only [List.getElem_map] at hp
      have e1 : fs'[j] = g := by
        have := List.getElem?_eq_getElem hj'
        rw [hg] at this; exact (Option.some.inj this).symm
      have e2 : fs'[i] = f' := by
        have := List.getElem?_eq_getElem hi'
        rw [hi] at this; exact (Option.some.inj this).symm
      rw [e1, e2] at hp
      have := hgl.name
      show lf.ts < f'.name
      omega

theorem ROpen.later {fs fs' : FS} {l : Log} (h : ROpen fs l)
    (hold : ∀ (i : Nat) (f : File), fs[i]? = some f → ∃ f', fs'[i]? = some f' ∧ Later f f') : ROpen fs' l := by
  intro ino off ho
  obtain ⟨f, lf, h1, h2, h3⟩ := h ino off ho
  obtain ⟨f', hf', hl⟩ := hold ino f h1
  exact ⟨f', lf, hf', h2, h3.trans hl.name.symm⟩

/-! ## reader calls keep the reader invariant (the directory does not change) -/

/-- a listed file has nothing to give from its beginning (or is not there) -/
def NoData (fs : FS) (b : Bool) (n : Nat) : Prop := ∀ ino, lookup fs n = some ino → fileData fs ino 0 b = []

/-- what the read loop over `rest = L.drop idx` establishes -/
def ScanSpec (fs : FS) (b : Bool) (L : List LF) (idx : Nat) : Scan → Prop
  | .data i ino off d => idx ≤ i ∧ off = 0 ∧ d = fileData fs ino 0 b ∧ d ≠ [] ∧
      (∃ lf, L[i]? = some lf ∧ lookup fs lf.ts = some ino) ∧
      ∀ j lf, idx ≤ j → j < i → L[j]? = some lf → NoData fs b lf.ts
  | .eofLast i ino off => idx ≤ i ∧ i + 1 = L.length ∧ off = 0 ∧ fileData fs ino 0 b = [] ∧
      (∃ lf, L[i]? = some lf ∧ lookup fs lf.ts = some ino) ∧
      ∀ j lf, idx ≤ j → j < i → L[j]? = some lf → NoData fs b lf.ts
  | .exhausted => ∀ j lf, idx ≤ j → L[j]? = some lf → NoData fs b lf.ts

theorem drop_cons_getElem? {L : List LF} {idx : Nat} {lf : LF} {rest : List LF} (h : L.drop idx = lf :: rest) :
    L[idx]? = some lf ∧ L.drop (idx + 1) = rest := by
  constructor
  · have := List.getElem?_drop (xs := L) (i := idx) (j := 0)
    rw [h] at this
    simpa using this.symm
  · have : (L.drop idx).drop 1 = rest := by rw [h]; rfl
    rw [List.drop_drop] at this
    exact this

theorem scanFrom_spec (fs : FS) (b : Bool) (L : List LF) : ∀ (rest : List LF) (idx : Nat), L.drop idx = rest →
    ScanSpec fs b L idx (scanFrom fs b idx rest) := by
  intro rest
  induction rest with
  | nil =>
    intro idx h
    simp only [scanFrom, ScanSpec]
    intro j lf hj hlf
    have : L.length ≤ idx := by
      have := congrArg List.length h
      simp at this; omega
    have := (List.getElem?_eq_some_iff.mp hlf).1
    omega
  | cons lf rest ih =>
    intro idx h
    obtain ⟨hget, hdrop⟩ := drop_cons_getElem? h
    have hrec := ih (idx + 1) hdrop
    -- extending a spec from `idx + 1` to `idx` when entry `idx` has no data
    have ext : NoData fs b lf.ts → ScanSpec fs b L (idx + 1) (scanFrom fs b (idx + 1) rest) →
        ScanSpec fs b L idx (scanFrom fs b (idx + 1) rest) := by
      intro hnd hsp
      have step : ∀ j lf', idx ≤ j → L[j]? = some lf' → (idx + 1 ≤ j → NoData fs b lf'.ts) → NoData fs b lf'.ts := by
        intro j lf' hj hlf' hrest
        by_cases e : j = idx
        · subst e; rw [hget] at hlf'; cases hlf'; exact hnd
        · exact hrest (by omega)
      cases hsc : scanFrom fs b (idx + 1) rest with
      | data i ino off d =>
        rw [hsc] at hsp
        obtain ⟨h1, h2, h3, h4, h5, h6⟩ := hsp
        exact ⟨by omega, h2, h3, h4, h5, fun j lf' hj hji hlf' => step j lf' hj hlf' (fun hj' => h6 j lf' hj' hji hlf')⟩
      | eofLast i ino off =>
        rw [hsc] at hsp
        obtain ⟨h1, h2, h3, h4, h5, h6⟩ := hsp
        exact ⟨by omega, h2, h3, h4, h5, fun j lf' hj hji hlf' => step j lf' hj hlf' (fun hj' => h6 j lf' hj' hji hlf')⟩
      | exhausted =>
        rw [hsc] at hsp
        exact fun j lf' hj hlf' => step j lf' hj hlf' (fun hj' => hsp j lf' hj' hlf')
    simp only [scanFrom]
    cases hlk : lookup fs lf.ts with
    | none =>
      simp only
      exact ext (by intro ino hi; rw [hlk] at hi; cases hi) hrec
    | some ino =>
      simp only
      by_cases hd : (fileData fs ino 0 b).isEmpty
      · have hnil : fileData fs ino 0 b = [] := by simpa using hd
        simp only [hd, Bool.not_true, Bool.false_eq_true, ↓reduceIte]
        by_cases hr : rest.isEmpty
        · simp only [hr, ↓reduceIte, ScanSpec]
          have hrn : rest = [] := by simpa using hr
          refine ⟨Nat.le_refl _, ?_, by first | rfl | trivial, hnil, ⟨lf, hget, hlk⟩, by intro j _ h1 h2; omega⟩
          have := congrArg List.length h
          simp [hrn] at this; omega
        · simp only [hr, Bool.false_eq_true, ↓reduceIte]
          exact ext (by intro ino' hi; rw [hlk] at hi; cases hi; exact hnil) hrec
      · simp only [hd, Bool.not_false, ↓reduceIte, ScanSpec]
        exact ⟨Nat.le_refl _, by first | rfl | trivial, by first | rfl | trivial, by simpa using hd, ⟨lf, hget, hlk⟩, by intro j _ h1 h2; omega⟩

/-- the list entry a scan result points to is the entry of the inode it names -/
def ScanOk (fs : FS) (L : List LF) : Scan → Prop
  | .data i ino _ _ => ∃ f lf, fs[ino]? = some f ∧ L[i]? = some lf ∧ lf.ts = f.name
  | .eofLast i ino _ => ∃ f lf, fs[ino]? = some f ∧ L[i]? = some lf ∧ lf.ts = f.name
  | .exhausted => True

theorem ScanSpec.ok {fs : FS} {b : Bool} {L : List LF} {idx : Nat} {sc : Scan} (h : ScanSpec fs b L idx sc) : ScanOk fs L sc := by
  cases sc with
  | data i ino off d =>
    obtain ⟨_, _, _, _, ⟨lf, h1, h2⟩, _⟩ := h
    obtain ⟨f, hf, _, hn⟩ := lookup_some h2
    exact ⟨f, lf, hf, h1, hn.symm⟩
  | eofLast i ino off =>
    obtain ⟨_, _, _, _, ⟨lf, h1, h2⟩, _⟩ := h
    obtain ⟨f, hf, _, hn⟩ := lookup_some h2
    exact ⟨f, lf, hf, h1, hn.symm⟩
  | exhausted => trivial

theorem startScan_ok {fs : FS} {l : Log} (h : ROpen fs l) (b : Bool) : ScanOk fs l.logfiles (startScan l fs b) := by
  unfold startScan
  split
  · rename_i ino off ho
    obtain ⟨f, lf, h1, h2, h3⟩ := h ino off ho
    unfold scanOpen
    simp only
    split
    · exact ⟨f, lf, h1, h2, h3⟩
    · split
      · exact ⟨f, lf, h1, h2, h3⟩
      · exact (scanFrom_spec fs b l.logfiles _ _ rfl).ok
  · exact (scanFrom_spec fs b l.logfiles _ _ rfl).ok

theorem readFinish_rinv {fs : FS} {l : Log} (h : RInv fs l) {sc : Scan} (hsc : ScanOk fs l.logfiles sc) :
    RInv fs (readFinish l sc).1 := by
  cases sc with
  | data i ino off d =>
    refine ⟨h.list, ?_⟩
    intro ino' off' ho
    simp only [readFinish, RF.opened.injEq] at ho
    obtain ⟨rfl, _⟩ := ho
    exact hsc
  | eofLast i ino off =>
    refine ⟨h.list, ?_⟩
    intro ino' off' ho
    simp only [readFinish, RF.opened.injEq] at ho
    obtain ⟨rfl, _⟩ := ho
    exact hsc
  | exhausted => exact ⟨h.list, by intro ino off ho; simp [readFinish] at ho⟩

theorem closeRead_ropen (fs : FS) (l : Log) : ROpen fs (closeRead l) := by
  intro ino off ho
  unfold closeRead at ho
  split at ho
  · cases ho
  · rename_i hne; exact absurd ho (hne ino off)

theorem ropen_of_not_opened {fs : FS} {l : Log} (h : ∀ ino off, l.readFile ≠ .opened ino off) : ROpen fs l :=
  fun ino off ho => absurd ho (h ino off)

theorem refreshLogfiles_rinv {fs : FS} {l : Log} (hs : Sorted (dirEntries fs)) (h : ROpen fs l) :
    RInv fs (refreshLogfiles l fs) := by
  unfold refreshLogfiles
  simp only
  split
  · rename_i hk
    refine ⟨RL.of_scan hs, ?_⟩
    intro ino off ho
    obtain ⟨f, lf, h1, h2, h3⟩ := h ino off ho
    have hkey : oldKey l = (lf.ts, true) := by simp [oldKey, h2]
    simp only [refreshKept, hkey, Bool.true_and] at hk
    cases hg : (scan fs)[refreshIdx (scan fs) (lf.ts, true)]? with
    | none => simp [hg] at hk
    | some lf' =>
      simp only [hg] at hk
      refine ⟨f, lf', h1, by simp only [hkey]; exact hg, ?_⟩
      have : lf'.ts = lf.ts := by simpa using hk
      omega
  · exact ⟨by rw [closeRead_logfiles]; exact RL.of_scan hs, closeRead_ropen _ _⟩

theorem rinv_setNone {fs : FS} {l : Log} (h : RL fs l.logfiles) (i : Nat) :
    RInv fs { l with readIdx := i, readFile := .none } := ⟨h, by intro _ _ ho; cases ho⟩

theorem readTail_rinv {fs : FS} {l : Log} (h : RInv fs l) (b : Bool) : RInv fs (readTail l fs b).1 := by
  unfold readTail
  split
  · exact h
  · exact readFinish_rinv h (startScan_ok h.opened b)

theorem read_rinv {fs : FS} {l : Log} (p : Policy) (hs : Sorted (dirEntries fs)) (h : RInv fs l) (b : Bool) :
    RInv fs (read p l fs b).1 := by
  unfold read
  split
  · exact h
  · split
    · split
      · exact h
      · exact readTail_rinv (refreshLogfiles_rinv hs h.opened) b
    · split
      · exact readFinish_rinv h (startScan_ok h.opened b)
      · have hok := startScan_ok h.opened b
        cases hsc : startScan l fs b with
        | data i ino off d => simp only [readAuto]; rw [hsc] at hok; exact readFinish_rinv h hok
        | exhausted =>
          simp only [readAuto, readExhausted]
          exact readTail_rinv (refreshLogfiles_rinv hs (rinv_setNone h.list _).opened) b
        | eofLast i ino off =>
          rw [hsc] at hok
          simp only [readAuto, readEofLast]
          have hr := refreshLogfiles_rinv (l := { l with readIdx := i, readFile := .opened ino off }) hs (by
            intro ino' off' ho
            simp only [RF.opened.injEq] at ho
            obtain ⟨rfl, _⟩ := ho
            exact hok)
          generalize eofNextIdx p _ = ridx
          split
          · exact hr
          · exact readFinish_rinv (rinv_setNone hr.list _) (startScan_ok (rinv_setNone hr.list _).opened b)

theorem closeRead_not_opened (l : Log) (ino off : Nat) : (closeRead l).readFile ≠ .opened ino off := by
  unfold closeRead
  split
  · intro h; cases h
  · rename_i hne; exact hne ino off

theorem rinv_closeRead_idx {fs : FS} {l : Log} (h : RInv fs l) (i : Nat) : RInv fs { closeRead l with readIdx := i } :=
  ⟨by simp only [closeRead_logfiles]; exact h.list, fun ino off ho => absurd ho (closeRead_not_opened l ino off)⟩

theorem seekStart_rinv {fs : FS} {l : Log} (h : RInv fs l) : RInv fs (seekStart l).1 := by
  unfold seekStart; split
  · exact h
  · exact rinv_closeRead_idx h _

theorem seekEnd_rinv {fs : FS} {l : Log} (h : RInv fs l) : RInv fs (seekEnd l).1 := by
  unfold seekEnd; split
  · exact h
  · exact rinv_closeRead_idx h _

theorem seekBlock_rinv {fs : FS} {l : Log} (h : RInv fs l) (us : Nat) : RInv fs (seekBlock l us).1 := by
  unfold seekBlock; split
  · exact h
  · exact rinv_closeRead_idx h _

theorem seekInvalid_rinv {fs : FS} {l : Log} (h : RInv fs l) : RInv fs (seekInvalid l).1 := by
  unfold seekInvalid; split
  · exact h
  · exact ⟨by simp only [closeRead_logfiles]; exact h.list, closeRead_ropen _ _⟩

theorem seekName_rinv {fs : FS} {l : Log} (h : RInv fs l) (n : Nat) (off : Option Nat) : RInv fs (seekName l fs n off).1 := by
  unfold seekName
  split
  · exact h
  · simp only
    split
    · exact rinv_closeRead_idx h _
    · rename_i lf hget
      split
      · rename_i heq
        split
        · exact rinv_closeRead_idx h _
        · rename_i ino hlk
          refine ⟨by simp only [closeRead_logfiles]; exact h.list, ?_⟩
          intro ino' off' ho
          simp only [RF.opened.injEq] at ho
          obtain ⟨rfl, _⟩ := ho
          obtain ⟨f, hf, _, hn⟩ := lookup_some hlk
          refine ⟨f, lf, hf, hget, ?_⟩
          have : lf.ts = n := by simpa using heq
          omega
      · exact rinv_closeRead_idx h _

theorem seekPos_rinv {fs : FS} {l : Log} (h : RInv fs l) (p : Pos) : RInv fs (seekPos l fs p).1 := by
  unfold seekPos; split
  · exact seekStart_rinv h
  · exact seekName_rinv h _ _

theorem kill_rinv {fs : FS} {l : Log} (h : RInv fs l) : RInv fs (kill l) :=
  ⟨h.list, by intro _ _ ho; cases ho⟩

theorem writeHead_rinv {fs : FS} {l : Log} (h : RInv fs l) (hd : HeadFS) (c : Option Nat) : RInv fs (writeHead l hd c).1 := by
  unfold writeHead
  split
  · split <;> first | exact h | exact kill_rinv h
  · split
    · exact h
    · simp only; split <;> first | exact h | exact kill_rinv h

theorem close_rinv {fs : FS} {l : Log} (h : RInv fs l) (hd : HeadFS) : RInv fs (close l hd).1 := by
  have := writeHead_rinv h hd none
  unfold close
  simp only
  split
  · exact this
  · exact ⟨this.list, by intro _ _ ho; cases ho⟩

theorem refresh_rinv {fs : FS} {l : Log} (hs : Sorted (dirEntries fs)) (h : RInv fs l) : RInv fs (refresh l fs).1 := by
  unfold refresh
  split
  · exact h
  · split
    · exact h
    · exact refreshLogfiles_rinv hs h.opened

theorem construct_rinv {fs : FS} (hs : Sorted (dirEntries fs)) (l : Log) (ar : Bool) (hd : HeadFS) (hr : l.rdonly = true) :
    RInv fs (construct l ar fs hd).1 := by
  have e1 : (constructScan l ar fs).1 = { constructBase l ar fs with readIdx := (scan fs).length } := by
    simp [constructScan, constructBase, hr]
  have e2 : (constructScan l ar fs).2 = fs := by simp [constructScan, constructBase, hr]
  have h0 : RInv fs (constructScan l ar fs).1 := by
    rw [e1]
    exact ⟨RL.of_scan hs, by intro _ _ ho; simp [constructBase] at ho⟩
  unfold construct restoreHead
  simp only [e2]
  split
  · exact h0
  · split
    · exact seekStart_rinv h0
    · exact seekPos_rinv h0 _
    · exact kill_rinv h0

/-! ## the invariant for runs without a writer restart -/

structure GInv (s : Sys) : Prop where
  base : SInv s
  inc : NamesInc s.fs
  below : NamesBelow s.fs s.w
  r : RInv s.fs s.r
  pos : ∀ f ∈ s.fs, 0 < f.name

/-- no writer restart, and explicit timestamps are positive (a file named 0 would be invisible to `refresh_logfiles`,
which starts from timestamp 0 when its list is empty) -/
def GoodOp (op : Op) : Prop := (∀ ar, op ≠ .reopen .w ar) ∧ (∀ recs us, op = .write recs us → 0 < us)

def NoWRestart (ops : List Op) : Prop := ∀ op ∈ ops, GoodOp op

theorem newTs_pos (p : Policy) (L : List LF) (us : Nat) (h : 0 < us) : 0 < newTs p L us := by
  unfold newTs
  split
  · split <;> omega
  · exact h

theorem write_pos {fs : FS} {w : Log} (hw : WInv fs w) (hp : ∀ f ∈ fs, 0 < f.name) (recs : List Rec) (us : Nat) (hus : 0 < us) :
    ∀ f ∈ (write patched w fs recs us).2.1, 0 < f.name := by
  by_cases hc : w.writeFile = .closed
  · rw [write_closed _ _ _ _ _ hc]; exact hp
  · rw [write_open _ _ _ _ _ hc]
    intro f hf
    simp only at hf
    have hfn : f.name ∈ ((openForWrite patched w fs us).2.1).map (·.name) := by
      rw [← writeOpen_names (openForWrite patched w fs us).1 _ (openForWrite patched w fs us).2.2.1 recs]
      exact List.mem_map_of_mem hf
    obtain ⟨g, hg, hgn⟩ := List.mem_map.mp hfn
    rw [← hgn]
    rcases openForWrite_fs hw us with e | e
    · rw [e] at hg; exact hp g hg
    · rw [e] at hg
      rcases List.mem_append.mp hg with h1 | h1
      · exact hp g h1
      · simp at h1; subst h1; exact newTs_pos _ _ _ hus

/-- a step that only replaces the reader -/
theorem GInv.set_r {s : Sys} (h : GInv s) (l : Log) (hd : HeadFS) (hc : l.rdonly = true) (hr : RInv s.fs l) :
    GInv { s with r := l, hd := hd } :=
  ⟨⟨h.base.w, h.base.budget, hc⟩, h.inc, h.below, hr, h.pos⟩

/-- a step that only moves the writer's own read position -/
theorem GInv.set_w {s : Sys} (h : GInv s) (l : Log) (hd : HeadFS) (hs : SameW l s.w) :
    GInv { s with w := l, hd := hd } := by
  refine ⟨⟨h.base.w.of_sameW hs, by simp only; rw [hs.totalSize]; exact h.base.budget, h.base.rRd⟩, h.inc, ?_, h.r, h.pos⟩
  intro f hf
  obtain ⟨last, hl, hle⟩ := h.below f hf
  exact ⟨last, by simp only; rw [hs.logfiles]; exact hl, hle⟩

theorem GInv.step {s : Sys} (h : GInv s) (op : Op) (hgood : GoodOp op) : GInv (OF.RollLog.step patched s op).1 := by
  have hop := hgood.1
  have hb := h.base.step op
  have hsd := h.base.w.sortedD
  cases op with
  | write recs us =>
    obtain ⟨n1, n2⟩ := write_names h.base.w h.inc h.below recs us
    have hold : ∀ (i : Nat) (f : File), s.fs[i]? = some f →
        ∃ f', (OF.RollLog.step patched s (.write recs us)).1.fs[i]? = some f' ∧ Later f f' := fun i f hi => step_inode h.base _ i f hi
    exact ⟨hb, n1, n2, ⟨h.r.list.later hold n1, h.r.opened.later hold⟩, write_pos h.base.w h.pos recs us (hgood.2 recs us rfl)⟩
  | delete name =>
    have hold : ∀ (i : Nat) (f : File), s.fs[i]? = some f →
        ∃ f', (OF.RollLog.step patched s (.delete name)).1.fs[i]? = some f' ∧ Later f f' := fun i f hi => step_inode h.base _ i f hi
    have n1 : NamesInc (unlink s.fs name) := by unfold NamesInc; rw [unlink_names]; exact h.inc
    have hpos' : ∀ f ∈ unlink s.fs name, 0 < f.name := by
      intro f hf
      have : f.name ∈ (unlink s.fs name).map (·.name) := List.mem_map_of_mem hf
      rw [unlink_names] at this
      obtain ⟨g, hg, hgn⟩ := List.mem_map.mp this
      have := h.pos g hg
      omega
    refine ⟨hb, n1, ?_, ⟨h.r.list.later hold n1, h.r.opened.later hold⟩, hpos'⟩
    intro f hf
    have : f.name ∈ (unlink s.fs name).map (·.name) := List.mem_map_of_mem hf
    rw [unlink_names] at this
    obtain ⟨g, hg, hgn⟩ := List.mem_map.mp this
    obtain ⟨last, hl, hle⟩ := h.below g hg
    exact ⟨last, hl, by omega⟩
  | read who block =>
    cases who with
    | w => exact h.set_w _ s.hd (read_sameW _ _ _ _ h.base.w.cfg.2.1)
    | r => exact h.set_r _ s.hd ((read_cfg _ _ _ _).rdonly.trans h.base.rRd) (read_rinv _ hsd h.r _)
  | seekStart who =>
    cases who with
    | w => exact h.set_w _ s.hd (seekStart_sameW _)
    | r => exact h.set_r _ s.hd ((seekStart_sameW _).rdonly.trans h.base.rRd) (seekStart_rinv h.r)
  | seekEnd who =>
    cases who with
    | w => exact h.set_w _ s.hd (seekEnd_sameW _)
    | r => exact h.set_r _ s.hd ((seekEnd_sameW _).rdonly.trans h.base.rRd) (seekEnd_rinv h.r)
  | seek who name off =>
    cases who with
    | w => exact h.set_w _ s.hd (seekName_sameW _ _ _ _)
    | r => exact h.set_r _ s.hd ((seekName_sameW _ _ _ _).rdonly.trans h.base.rRd) (seekName_rinv h.r _ _)
  | seekInvalid who =>
    cases who with
    | w => exact h.set_w _ s.hd (seekInvalid_sameW _)
    | r => exact h.set_r _ s.hd ((seekInvalid_sameW _).rdonly.trans h.base.rRd) (seekInvalid_rinv h.r)
  | seekBlock who us =>
    cases who with
    | w => exact h.set_w _ s.hd (seekBlock_sameW _ _)
    | r => exact h.set_r _ s.hd ((seekBlock_sameW _ _).rdonly.trans h.base.rRd) (seekBlock_rinv h.r _)
  | tell who => exact h
  | refresh who =>
    cases who with
    | w =>
      have : refresh s.w s.fs = (s.w, .err .runtime) := by simp [refresh, h.base.w.cfg.1]
      simp only [OF.RollLog.step, Sys.get, this, Sys.set]
      exact h
    | r => exact h.set_r _ s.hd ((refresh_cfg _ _).rdonly.trans h.base.rRd) (refresh_rinv hsd h.r)
  | save who crash =>
    cases who with
    | w =>
      refine ⟨hb, h.inc, ?_, h.r, h.pos⟩
      intro f hf
      obtain ⟨last, hl, hle⟩ := h.below f hf
      refine ⟨last, ?_, hle⟩
      have hh := h.base.w.cfg.2.2
      simp only [OF.RollLog.step, Sys.get, Sys.set, writeHead, hh, Bool.not_false, ↓reduceIte]
      cases crash <;> exact hl
    | r => exact h.set_r _ _ ((writeHead_cfg _ _ _).rdonly.trans h.base.rRd) (writeHead_rinv h.r _ _)
  | close who =>
    cases who with
    | w =>
      refine ⟨hb, h.inc, ?_, h.r, h.pos⟩
      intro f hf
      obtain ⟨last, hl, hle⟩ := h.below f hf
      refine ⟨last, ?_, hle⟩
      have hh := h.base.w.cfg.2.2
      simp only [OF.RollLog.step, Sys.get, Sys.set, close, writeHead, hh, Bool.not_false, ↓reduceIte]
      exact hl
    | r => exact h.set_r _ _ ((close_cfg _ _).rdonly.trans h.base.rRd) (close_rinv h.r _)
  | reopen who ar =>
    cases who with
    | w => exact absurd rfl (hop ar)
    | r =>
      have e := construct_rdonly_fs s.r ar s.fs s.hd h.base.rRd
      refine ⟨hb, ?_, ?_, ?_, ?_⟩
      · simp only [OF.RollLog.step, Sys.get, Sys.set]; rw [e]; exact h.inc
      · simp only [OF.RollLog.step, Sys.get, Sys.set]; rw [e]; exact h.below
      · simp only [OF.RollLog.step, Sys.get, Sys.set]; rw [e]; exact construct_rinv hsd _ _ _ h.base.rRd
      · simp only [OF.RollLog.step, Sys.get, Sys.set]; rw [e]; exact h.pos

theorem GInv.run {s : Sys} (h : GInv s) (ops : List Op) (hn : NoWRestart ops) : GInv (OF.RollLog.run patched s ops) := by
  induction ops generalizing s with
  | nil => exact h
  | cons op ops ih =>
    exact ih (h.step op (hn op (by simp))) (fun op' hop' => hn op' (List.mem_cons_of_mem _ hop'))

theorem GInv.boot (hd : HeadFS) (fsz tot : Nat) (hh ra : Bool) : GInv (OF.RollLog.boot [] hd fsz tot hh ra) := by
  have hb := SInv.boot (fs := []) (by simp [DirOk, Sorted, dirEntries]) hd fsz tot hh ra
  have e1 : (construct (blankLog false false fsz tot) false [] hd).2.1 = [] := by
    simp [construct, constructScan, constructBase, blankLog, prune, scan, dirEntries, sortLF]
  have e2 := construct_rdonly_fs (blankLog true hh fsz tot) ra
    (construct (blankLog false false fsz tot) false [] hd).2.1 hd rfl
  have efs : (OF.RollLog.boot [] hd fsz tot hh ra).fs = [] := by
    unfold OF.RollLog.boot; simp only; rw [e2, e1]
  refine ⟨hb, ?_, ?_, ?_, by rw [efs]; intro f hf; cases hf⟩
  · rw [efs]; simp [NamesInc]
  · rw [efs]; intro f hf; cases hf
  · rw [efs]
    unfold OF.RollLog.boot
    simp only
    rw [e1]
    exact construct_rinv (by simp [Sorted, dirEntries]) _ _ _ rfl

/-! ## positions, and what it means to pass over a record -/

/-- the reader's position: (file name, byte offset); past the last listed file: (that name + 1, 0); empty list: (0, 0) -/
def cur (l : Log) : Nat × Nat :=
  match l.logfiles[l.readIdx]? with
  | some lf => (lf.ts, match l.readFile with | .opened _ off => off | _ => 0)
  | none => match l.logfiles.getLast? with
    | some lf => (lf.ts + 1, 0)
    | none => (0, 0)

def posLe (a b : Nat × Nat) : Prop := a.1 < b.1 ∨ (a.1 = b.1 ∧ a.2 ≤ b.2)
def posLt (a b : Nat × Nat) : Prop := a.1 < b.1 ∨ (a.1 = b.1 ∧ a.2 < b.2)

/-- a record of a file that is in the directory starts in `[a, b)` -/
def Passed (fs : FS) (a b : Nat × Nat) : Prop :=
  ∃ f ∈ fs, f.linked = true ∧ ∃ k, k < f.recs.length ∧
    posLe a (f.name, recsSize (f.recs.take k)) ∧ posLt (f.name, recsSize (f.recs.take k)) b

theorem not_passed_refl (fs : FS) (a : Nat × Nat) : ¬ Passed fs a a := by
  rintro ⟨f, _, _, k, _, h1, h2⟩
  unfold posLe at h1; unfold posLt at h2
  simp only at h1 h2
  omega

theorem not_passed_trans {fs : FS} {a b c : Nat × Nat} (h1 : ¬ Passed fs a b) (h2 : ¬ Passed fs b c) : ¬ Passed fs a c := by
  rintro ⟨f, hf, hl, k, hk, g1, g2⟩
  by_cases hlt : posLt (f.name, recsSize (f.recs.take k)) b
  · exact h1 ⟨f, hf, hl, k, hk, g1, hlt⟩
  · refine h2 ⟨f, hf, hl, k, hk, ?_, g2⟩
    unfold posLt at hlt; unfold posLe
    simp only at hlt ⊢
    omega

/-- no record of the directory file named `n` starts at or after offset `o` -/
def Empt (fs : FS) (n o : Nat) : Prop :=
  ∀ f ∈ fs, f.linked = true → f.name = n → ∀ k, k < f.recs.length → recsSize (f.recs.take k) < o

theorem recsFrom_nil : ∀ (recs : List Rec) (off : Nat), recsFrom recs off = [] →
    ∀ k, k < recs.length → recsSize (recs.take k) < off := by
  intro recs
  induction recs with
  | nil => intro off _ k hk; simp at hk
  | cons r rs ih =>
    intro off h k hk
    simp only [recsFrom] at h
    split at h
    · cases h
    · rename_i hoff
      cases k with
      | zero => simp [recsSize]; omega
      | succ k' =>
        have := ih (off - r.size) h k' (by simpa using hk)
        simp only [List.take_succ_cons, recsSize]
        omega

theorem fileData_nil {fs : FS} {ino off : Nat} {b : Bool} (h : fileData fs ino off b = []) :
    recsFrom (inodeRecs fs ino) off = [] := by
  unfold fileData at h
  simp only at h
  split at h
  · exact h
  · cases hr : recsFrom (inodeRecs fs ino) off with
    | nil => rfl
    | cons x xs => rw [hr] at h; simp at h

theorem names_unique {fs : FS} (hi : NamesInc fs) {i j : Nat} {f g : File} (h1 : fs[i]? = some f) (h2 : fs[j]? = some g)
    (e : f.name = g.name) : i = j := by
  have hi' := (List.getElem?_eq_some_iff.mp h1)
  have hj' := (List.getElem?_eq_some_iff.mp h2)
  obtain ⟨hil, hie⟩ := hi'
  obtain ⟨hjl, hje⟩ := hj'
  have hp := List.pairwise_iff_getElem.mp hi
  by_cases hlt : i < j
  · have := hp i j (by simpa using hil) (by simpa using hjl) hlt
    simp only [List.getElem_map, hie, hje] at this; omega
  · by_cases hgt : j < i
    · have := hp j i (by simpa using hjl) (by simpa using hil) hgt
      simp only [List.getElem_map, hie, hje] at this; omega
    · omega

theorem lookup_of_linked {fs : FS} (hi : NamesInc fs) {i : Nat} {f : File} (h : fs[i]? = some f) (hl : f.linked = true) :
    lookup fs f.name = some i := by
  cases hlk : lookup fs f.name with
  | none =>
    exfalso
    unfold lookup at hlk
    rw [List.findIdx?_eq_none_iff] at hlk
    have := hlk f (List.mem_of_getElem? h)
    simp [hl] at this
  | some j =>
    obtain ⟨g, hg, _, hn⟩ := lookup_some hlk
    rw [names_unique hi hg h hn]

theorem inodeRecs_eq {fs : FS} {i : Nat} {f : File} (h : fs[i]? = some f) : inodeRecs fs i = f.recs := by
  simp [inodeRecs, h]

theorem NoData.empt {fs : FS} {b : Bool} {n : Nat} (hi : NamesInc fs) (h : NoData fs b n) : Empt fs n 0 := by
  intro f hf hl hn k hk
  obtain ⟨i, hi'⟩ := List.mem_iff_getElem?.mp hf
  have hlk := lookup_of_linked hi hi' hl
  rw [hn] at hlk
  have := recsFrom_nil _ _ (fileData_nil (h i hlk)) k (by rw [inodeRecs_eq hi']; exact hk)
  omega

/-- the open handle found nothing at `off`: the directory file of that name (the same inode) has nothing there either -/
theorem empt_of_handle {fs : FS} (hi : NamesInc fs) {ino off : Nat} {b : Bool} {f : File} (hf : fs[ino]? = some f)
    (h : fileData fs ino off b = []) : Empt fs f.name off := by
  intro g hg hl hn k hk
  obtain ⟨j, hj⟩ := List.mem_iff_getElem?.mp hg
  have : j = ino := names_unique hi hj hf hn
  subst this
  rw [hf] at hj
  cases hj
  have := recsFrom_nil _ _ (fileData_nil h) k (by rw [inodeRecs_eq hf]; exact hk)
  rw [inodeRecs_eq hf] at this
  exact this

theorem sorted_getElem_lt {L : List LF} (hs : Sorted L) {a b : Nat} {x y : LF} (ha : L[a]? = some x) (hb : L[b]? = some y)
    (hlt : a < b) : x.ts < y.ts := by
  obtain ⟨hal, hae⟩ := List.getElem?_eq_some_iff.mp ha
  obtain ⟨hbl, hbe⟩ := List.getElem?_eq_some_iff.mp hb
  have := List.pairwise_iff_getElem.mp hs a b (by simpa using hal) (by simpa using hbl) hlt
  simpa [hae, hbe] using this

/-- **a scan segment passes over nothing**: from `(L[idx], o)` to the beginning of `L[i]`, if every listed file in between
has nothing (from `o` for the first, from 0 for the others) -/
theorem seg_not_passed {fs : FS} {L : List LF} (hL : RL fs L) {idx i o : Nat} {lf0 lfi : LF}
    (h0 : L[idx]? = some lf0) (hi : L[i]? = some lfi)
    (hE : ∀ j lf, idx ≤ j → j < i → L[j]? = some lf → Empt fs lf.ts (if j = idx then o else 0)) :
    ¬ Passed fs (lf0.ts, o) (lfi.ts, 0) := by
  rintro ⟨f, hf, hl, k, hk, h1, h2⟩
  unfold posLe at h1; unfold posLt at h2
  simp only at h1 h2
  have hlt : f.name < lfi.ts := by omega
  rcases hL.complete ⟨f.name, f.size⟩ (mem_dirEntries.mpr ⟨f, hf, hl, rfl⟩) with ⟨lf, hlf, hts⟩ | habove
  · obtain ⟨j, hj⟩ := List.mem_iff_getElem?.mp hlf
    simp only at hts
    have hji : j < i := by
      by_cases hji : j < i
      · exact hji
      · exfalso
        by_cases e : j = i
        · subst e; rw [hi] at hj; cases hj; omega
        · have := sorted_getElem_lt hL.sorted hi hj (by omega); omega
    have hidx : idx ≤ j := by
      by_cases hidx : idx ≤ j
      · exact hidx
      · exfalso
        have := sorted_getElem_lt hL.sorted hj h0 (by omega); omega
    have hem := hE j lf hidx hji hj f hf hl hts.symm k hk
    by_cases e : j = idx
    · subst e
      rw [h0] at hj; cases hj
      simp only [↓reduceIte] at hem
      omega
    · simp only [e, ↓reduceIte] at hem
      omega
  · have := habove lfi (List.mem_of_getElem? hi)
    simp only at this
    omega

/-- the same up to the end of the list -/
theorem seg_not_passed_end {fs : FS} {L : List LF} (hL : RL fs L) {idx o : Nat} {lf0 last : LF}
    (h0 : L[idx]? = some lf0) (hlast : L.getLast? = some last)
    (hE : ∀ j lf, idx ≤ j → L[j]? = some lf → Empt fs lf.ts (if j = idx then o else 0)) :
    ¬ Passed fs (lf0.ts, o) (last.ts + 1, 0) := by
  rintro ⟨f, hf, hl, k, hk, h1, h2⟩
  unfold posLe at h1; unfold posLt at h2
  simp only at h1 h2
  have hlt : f.name ≤ last.ts := by omega
  rcases hL.complete ⟨f.name, f.size⟩ (mem_dirEntries.mpr ⟨f, hf, hl, rfl⟩) with ⟨lf, hlf, hts⟩ | habove
  · obtain ⟨j, hj⟩ := List.mem_iff_getElem?.mp hlf
    simp only at hts
    have hidx : idx ≤ j := by
      by_cases hidx : idx ≤ j
      · exact hidx
      · exfalso
        have := sorted_getElem_lt hL.sorted hj h0 (by omega); omega
    have hem := hE j lf hidx hj f hf hl hts.symm k hk
    by_cases e : j = idx
    · subst e
      rw [h0] at hj; cases hj
      simp only [↓reduceIte] at hem
      omega
    · simp only [e, ↓reduceIte] at hem
      omega
  · have := habove last (List.mem_of_getLast? hlast)
    simp only at this
    omega

/-- **a refresh jump passes over nothing** when the new list is the whole directory and every listed file below the
target is below the old position -/
theorem jump_not_passed {fs : FS} {L' : List LF} (hc : ∀ e ∈ dirEntries fs, ∃ lf ∈ L', lf.ts = e.ts) (c tgt : Nat × Nat)
    (htgt : tgt.2 = 0) (h : ∀ lf ∈ L', lf.ts < tgt.1 → lf.ts < c.1) : ¬ Passed fs c tgt := by
  rintro ⟨f, hf, hl, k, hk, h1, h2⟩
  unfold posLe at h1; unfold posLt at h2
  simp only at h1 h2
  obtain ⟨lf, hlf, hts⟩ := hc ⟨f.name, f.size⟩ (mem_dirEntries.mpr ⟨f, hf, hl, rfl⟩)
  simp only at hts
  have := h lf hlf (by omega)
  omega

/-! ## one `read` passes over nothing -/

/-- where the data returned by a read starts; the reader's position if nothing was returned -/
def readTarget (l' : Log) : Res → Nat × Nat
  | .recs d => ((cur l').1, (cur l').2 - recsSize d)
  | _ => cur l'

theorem target_data (l : Log) {i ino off : Nat} {d : List Rec} {lfi : LF} (h : l.logfiles[i]? = some lfi) :
    readTarget (readFinish l (.data i ino off d)).1 (readFinish l (.data i ino off d)).2 = (lfi.ts, off) := by
  simp [readTarget, readFinish, cur, h]

theorem target_eofLast (l : Log) {i ino off : Nat} {lfi : LF} (h : l.logfiles[i]? = some lfi) :
    readTarget (readFinish l (.eofLast i ino off)).1 (readFinish l (.eofLast i ino off)).2 = (lfi.ts, off) := by
  simp [readTarget, readFinish, cur, h]

theorem target_exhausted (l : Log) {last : LF} (h : l.logfiles.getLast? = some last) :
    readTarget (readFinish l .exhausted).1 (readFinish l .exhausted).2 = (last.ts + 1, 0) := by
  simp [readTarget, readFinish, cur, h]

/-- the loop entered at `idx1 ∈ {idx0, idx0 + 1}` with position `(L[idx0], o)` -/
theorem spec_not_passed {fs : FS} {l : Log} {b : Bool} (hL : RL fs l.logfiles) (hi : NamesInc fs) {idx0 idx1 o : Nat} {lf0 : LF}
    (h0 : l.logfiles[idx0]? = some lf0) (hle : idx0 ≤ idx1) (hle' : idx1 ≤ idx0 + 1)
    (ho : idx1 = idx0 → o = 0) (hE0 : idx1 = idx0 + 1 → Empt fs lf0.ts o)
    {sc : Scan} (hsp : ScanSpec fs b l.logfiles idx1 sc) :
    ¬ Passed fs (lf0.ts, o) (readTarget (readFinish l sc).1 (readFinish l sc).2) := by
  have hE : ∀ j lf, idx0 ≤ j → l.logfiles[j]? = some lf → (idx1 ≤ j → NoData fs b lf.ts) →
      Empt fs lf.ts (if j = idx0 then o else 0) := by
    intro j lf hj hlf hnd
    by_cases e : j = idx0
    · subst e
      rw [h0] at hlf; cases hlf
      simp only [↓reduceIte]
      by_cases e1 : idx1 = j
      · rw [ho e1]; exact (hnd (by omega)).empt hi
      · exact hE0 (by omega)
    · simp only [e, ↓reduceIte]
      exact (hnd (by omega)).empt hi
  cases sc with
  | data i ino off d =>
    obtain ⟨h1, h2, _, _, ⟨lfi, hlfi, _⟩, h6⟩ := hsp
    rw [target_data l hlfi, h2]
    exact seg_not_passed hL h0 hlfi (fun j lf hj hji hlf => hE j lf hj hlf (fun hj' => h6 j lf hj' hji hlf))
  | eofLast i ino off =>
    obtain ⟨h1, _, h2, _, ⟨lfi, hlfi, _⟩, h6⟩ := hsp
    rw [target_eofLast l hlfi, h2]
    exact seg_not_passed hL h0 hlfi (fun j lf hj hji hlf => hE j lf hj hlf (fun hj' => h6 j lf hj' hji hlf))
  | exhausted =>
    cases hlast : l.logfiles.getLast? with
    | none =>
      have := List.getLast?_eq_none_iff.mp hlast
      rw [this] at h0; simp at h0
    | some last =>
      rw [target_exhausted l hlast]
      exact seg_not_passed_end hL h0 hlast (fun j lf hj hlf => hE j lf hj hlf (fun hj' => hsp j lf hj' hlf))

/-- the loop run to its end without refresh (`idx < len`) -/
theorem finish_not_passed {fs : FS} {l : Log} (b : Bool) (h : RInv fs l) (hi : NamesInc fs) (hlt : l.readIdx < l.logfiles.length) :
    ¬ Passed fs (cur l) (readTarget (readFinish l (startScan l fs b)).1 (readFinish l (startScan l fs b)).2) := by
  have h0 : l.logfiles[l.readIdx]? = some l.logfiles[l.readIdx] := List.getElem?_eq_getElem hlt
  generalize l.logfiles[l.readIdx] = lf0 at h0
  unfold startScan
  split
  · rename_i ino off ho
    obtain ⟨f, lf, h1, h2, h3⟩ := h.opened ino off ho
    rw [h0] at h2; cases h2
    have hc : cur l = (lf0.ts, off) := by simp [cur, h0, ho]
    rw [hc]
    unfold scanOpen
    simp only
    split
    · rw [target_data l h0]; exact not_passed_refl _ _
    · rename_i hd
      have hnil : fileData fs ino off b = [] := by simpa using hd
      split
      · rw [target_eofLast l h0]; exact not_passed_refl _ _
      · exact spec_not_passed h.list hi h0 (Nat.le_succ _) (Nat.le_refl _) (by omega)
          (fun _ => by rw [h3]; exact empt_of_handle hi h1 hnil) (scanFrom_spec fs b l.logfiles _ _ rfl)
  · rename_i hno
    have hc : cur l = (lf0.ts, 0) := by
      cases hr : l.readFile with
      | opened ino off => exact absurd hr (hno ino off)
      | none => simp [cur, h0, hr]
      | closed => simp [cur, h0, hr]
    rw [hc]
    exact spec_not_passed h.list hi h0 (Nat.le_refl _) (Nat.le_succ _) (fun _ => rfl) (by omega)
      (scanFrom_spec fs b l.logfiles _ _ rfl)

/-! ### the refresh jump -/

theorem refreshIdx_before (L' : List LF) (key : Nat × Bool) (j : Nat) (lf : LF) (h : L'[j]? = some lf)
    (hj : j < refreshIdx L' key) : lf.ts ≤ key.1 ∧ (key.2 = true → lf.ts < key.1) := by
  obtain ⟨hjl, hje⟩ := List.getElem?_eq_some_iff.mp h
  have := List.not_of_lt_findIdx (p := fun lf => (key.2 && lf.ts == key.1) || decide (lf.ts > key.1)) (xs := L') hj
  rw [hje] at this
  simp only [Bool.or_eq_false_iff, Bool.and_eq_false_iff, decide_eq_false_iff_not] at this
  obtain ⟨h1, h2⟩ := this
  refine ⟨by omega, ?_⟩
  intro hk
  rcases h1 with h1 | h1
  · rw [hk] at h1; cases h1
  · have : lf.ts ≠ key.1 := by simpa using h1
    omega

theorem refreshLogfiles_logfiles (l : Log) (fs : FS) : (refreshLogfiles l fs).logfiles = scan fs := by
  unfold refreshLogfiles; simp only; split <;> simp

theorem refreshLogfiles_readIdx (l : Log) (fs : FS) : (refreshLogfiles l fs).readIdx = refreshIdx (scan fs) (oldKey l) := by
  unfold refreshLogfiles; simp only; split <;> simp

theorem refreshLogfiles_kept {l : Log} {fs : FS} (h : refreshKept (scan fs) (oldKey l) = true) :
    (refreshLogfiles l fs).readFile = l.readFile ∧ (oldKey l).2 = true ∧
      ∃ lf, (scan fs)[refreshIdx (scan fs) (oldKey l)]? = some lf ∧ lf.ts = (oldKey l).1 := by
  refine ⟨by unfold refreshLogfiles; simp [h], ?_⟩
  unfold refreshKept at h
  simp only [Bool.and_eq_true] at h
  refine ⟨h.1, ?_⟩
  cases hg : (scan fs)[refreshIdx (scan fs) (oldKey l)]? with
  | none => rw [hg] at h; simp at h
  | some lf => rw [hg] at h; exact ⟨lf, rfl, by simpa using h.2⟩

theorem refreshLogfiles_not_kept {l : Log} {fs : FS} (h : refreshKept (scan fs) (oldKey l) = false) :
    (∀ ino off, (refreshLogfiles l fs).readFile ≠ .opened ino off) := by
  intro ino off
  have : refreshLogfiles l fs = closeRead { l with logfiles := scan fs, logfilesSize := lfSum (scan fs), readIdx := refreshIdx (scan fs) (oldKey l) } := by
    unfold refreshLogfiles; simp [h]
  rw [this]
  exact closeRead_not_opened _ _ _

theorem complete_scan {fs : FS} (hs : Sorted (dirEntries fs)) : ∀ e ∈ dirEntries fs, ∃ lf ∈ scan fs, lf.ts = e.ts := by
  intro e he
  have hscan : scan fs = dirEntries fs := sortLF_of_sorted _ hs
  rw [hscan]
  exact ⟨e, he, rfl⟩

/-- after a refresh: at the end of the new list -/
theorem jump_end {fs : FS} {l : Log} (hc : ∀ e ∈ dirEntries fs, ∃ lf ∈ l.logfiles, lf.ts = e.ts)
    (hge : l.readIdx ≥ l.logfiles.length) (c : Nat × Nat) (hb : ∀ lf ∈ l.logfiles, lf.ts < c.1) : ¬ Passed fs c (cur l) := by
  have hnone : l.logfiles[l.readIdx]? = none := List.getElem?_eq_none_iff.mpr hge
  apply jump_not_passed hc
  · simp only [cur, hnone]; split <;> rfl
  · intro lf hlf _; exact hb lf hlf

/-- after a refresh: the loop from the new index, no file open -/
theorem jump_scan {fs : FS} {l : Log} (b : Bool) (h : RInv fs l) (hi : NamesInc fs)
    (hc : ∀ e ∈ dirEntries fs, ∃ lf ∈ l.logfiles, lf.ts = e.ts) (hno : ∀ ino off, l.readFile ≠ .opened ino off)
    (hlt : l.readIdx < l.logfiles.length) (c : Nat × Nat)
    (hb : ∀ j lf, l.logfiles[j]? = some lf → j < l.readIdx → lf.ts < c.1) :
    ¬ Passed fs c (readTarget (readFinish l (startScan l fs b)).1 (readFinish l (startScan l fs b)).2) := by
  have h0 : l.logfiles[l.readIdx]? = some l.logfiles[l.readIdx] := List.getElem?_eq_getElem hlt
  have hcur : cur l = (l.logfiles[l.readIdx].ts, 0) := by
    cases hr : l.readFile with
    | opened ino off => exact absurd hr (hno ino off)
    | none => simp [cur, h0, hr]
    | closed => simp [cur, h0, hr]
  refine not_passed_trans (b := cur l) ?_ (finish_not_passed b h hi hlt)
  apply jump_not_passed hc
  · rw [hcur]
  · intro lf hlf hlt'
    rw [hcur] at hlt'
    simp only at hlt'
    obtain ⟨j, hj⟩ := List.mem_iff_getElem?.mp hlf
    apply hb j lf hj
    by_cases hji : j < l.readIdx
    · exact hji
    · exfalso
      by_cases e : j = l.readIdx
      · subst e; rw [h0] at hj; cases hj; omega
      · have := sorted_getElem_lt h.list.sorted h0 hj (by omega); omega

/-- first auto-refresh site (and, with `idx = len`, the second): refresh, then `readTail` -/
theorem tail_not_passed {fs : FS} {l : Log} (b : Bool) (hs : Sorted (dirEntries fs)) (hi : NamesInc fs)
    (hpos : ∀ e ∈ dirEntries fs, 0 < e.ts) (h : RInv fs l) (hge : l.readIdx ≥ l.logfiles.length) :
    ¬ Passed fs (cur l) (readTarget (readTail (refreshLogfiles l fs) fs b).1 (readTail (refreshLogfiles l fs) fs b).2) := by
  have hscan : scan fs = dirEntries fs := sortLF_of_sorted _ hs
  have hnone : l.logfiles[l.readIdx]? = none := List.getElem?_eq_none_iff.mpr hge
  have hr := refreshLogfiles_rinv hs h.opened
  have hlog := refreshLogfiles_logfiles l fs
  have hidx := refreshLogfiles_readIdx l fs
  have hc : ∀ e ∈ dirEntries fs, ∃ lf ∈ (refreshLogfiles l fs).logfiles, lf.ts = e.ts := by
    rw [hlog]; exact complete_scan hs
  -- the key is not a path: nothing can be kept
  have hk2 : (oldKey l).2 = false := by
    simp only [oldKey, hnone]; split <;> rfl
  have hnk : refreshKept (scan fs) (oldKey l) = false := by simp [refreshKept, hk2]
  have hno := refreshLogfiles_not_kept hnk
  -- entries before the new index are below the old position
  have hb : ∀ j lf, (refreshLogfiles l fs).logfiles[j]? = some lf → j < (refreshLogfiles l fs).readIdx → lf.ts < (cur l).1 := by
    intro j lf hj hji
    rw [hlog] at hj
    rw [hidx] at hji
    have h1 := (refreshIdx_before _ _ j lf hj hji).1
    have hp : 0 < lf.ts := hpos lf (by rw [← hscan]; exact List.mem_of_getElem? hj)
    simp only [cur, hnone]
    simp only [oldKey, hnone] at h1
    split
    · rename_i last hl; simp only [hl] at h1; simp only; omega
    · rename_i hl; simp only [hl] at h1; omega
  unfold readTail
  split
  · rename_i hge'
    apply jump_end hc hge'
    intro lf hlf
    obtain ⟨j, hj⟩ := List.mem_iff_getElem?.mp hlf
    exact hb j lf hj (by have := (List.getElem?_eq_some_iff.mp hj).1; omega)
  · rename_i hlt'
    exact jump_scan b hr hi hc hno (by omega) _ hb

theorem startScan_eofLast {fs : FS} {l : Log} {b : Bool} {i ino off : Nat} (h : ROpen fs l)
    (hsc : startScan l fs b = .eofLast i ino off) :
    fileData fs ino off b = [] ∧ ∃ f lf, fs[ino]? = some f ∧ l.logfiles[i]? = some lf ∧ lf.ts = f.name := by
  have fromSpec : ∀ idx, scanFrom fs b idx (l.logfiles.drop idx) = .eofLast i ino off →
      fileData fs ino off b = [] ∧ ∃ f lf, fs[ino]? = some f ∧ l.logfiles[i]? = some lf ∧ lf.ts = f.name := by
    intro idx hs
    have hsp := scanFrom_spec fs b l.logfiles _ idx rfl
    rw [hs] at hsp
    obtain ⟨_, _, h3, h4, ⟨lf, h5, h6⟩, _⟩ := hsp
    obtain ⟨f, hf, _, hn⟩ := lookup_some h6
    exact ⟨by rw [h3]; exact h4, f, lf, hf, h5, hn.symm⟩
  unfold startScan at hsc
  split at hsc
  · rename_i ino0 off0 ho
    obtain ⟨f, lf, h1, h2, h3⟩ := h ino0 off0 ho
    unfold scanOpen at hsc
    simp only at hsc
    split at hsc
    · cases hsc
    · rename_i hd
      split at hsc
      · cases hsc
        exact ⟨by simpa using hd, f, lf, h1, h2, h3⟩
      · exact fromSpec _ hsc
  · exact fromSpec _ hsc

/-- third auto-refresh site -/
theorem eofLast_not_passed {fs : FS} {l : Log} (b : Bool) (hs : Sorted (dirEntries fs)) (hi : NamesInc fs) (h : RInv fs l)
    (hlt : l.readIdx < l.logfiles.length) {i ino off : Nat} (hsc : startScan l fs b = .eofLast i ino off) :
    ¬ Passed fs (cur l) (readTarget (readEofLast patched l fs b i ino off).1 (readEofLast patched l fs b i ino off).2) := by
  have hscan : scan fs = dirEntries fs := sortLF_of_sorted _ hs
  obtain ⟨hnil, f, lfi, hf, hlfi, hname⟩ := startScan_eofLast h.opened hsc
  have hE : Empt fs lfi.ts off := by rw [hname]; exact empt_of_handle hi hf hnil
  -- up to the end of the last listed file
  have hA : ¬ Passed fs (cur l) (lfi.ts, off) := by
    have := finish_not_passed b h hi hlt
    rw [hsc, target_eofLast l hlfi] at this
    exact this
  refine not_passed_trans hA ?_
  have hkey : oldKey { l with readIdx := i, readFile := RF.opened ino off } = (lfi.ts, true) := by
    simp [oldKey, hlfi]
  have hro : ROpen fs { l with readIdx := i, readFile := RF.opened ino off } := by
    intro ino' off' ho
    simp only [RF.opened.injEq] at ho
    obtain ⟨rfl, _⟩ := ho
    exact ⟨f, lfi, hf, hlfi, hname⟩
  have hr := refreshLogfiles_rinv hs hro
  have hlog := refreshLogfiles_logfiles { l with readIdx := i, readFile := RF.opened ino off } fs
  have hidx := refreshLogfiles_readIdx { l with readIdx := i, readFile := RF.opened ino off } fs
  have hc : ∀ e ∈ dirEntries fs, ∃ lf ∈ (refreshLogfiles { l with readIdx := i, readFile := RF.opened ino off } fs).logfiles, lf.ts = e.ts := by
    rw [hlog]; exact complete_scan hs
  unfold readEofLast
  simp only
  cases hk : refreshKept (scan fs) (oldKey { l with readIdx := i, readFile := RF.opened ino off }) with
  | true =>
    obtain ⟨hrf, _, lf', hget, hts⟩ := refreshLogfiles_kept hk
    rw [hkey] at hget hts
    simp only at hts
    have hnext : eofNextIdx patched (refreshLogfiles { l with readIdx := i, readFile := RF.opened ino off } fs) =
        refreshIdx (scan fs) (lfi.ts, true) + 1 := by
      simp [eofNextIdx, hrf, rfIsNone, hidx, hkey]
    rw [hnext]
    have hget' : (refreshLogfiles { l with readIdx := i, readFile := RF.opened ino off } fs).logfiles[
        (refreshLogfiles { l with readIdx := i, readFile := RF.opened ino off } fs).readIdx]? = some lf' := by
      rw [hlog, hidx, hkey]; exact hget
    split
    · -- stays on the finished file, handle open
      have : cur (refreshLogfiles { l with readIdx := i, readFile := RF.opened ino off } fs) = (lfi.ts, off) := by
        simp [cur, hget', hrf, hts]
      simp only [readTarget, this]
      exact not_passed_refl _ _
    · rename_i hlt'
      have hlt'' : refreshIdx (scan fs) (lfi.ts, true) + 1 < (scan fs).length := by rw [hlog] at hlt'; omega
      have hnx : (scan fs)[refreshIdx (scan fs) (lfi.ts, true) + 1]? = some (scan fs)[refreshIdx (scan fs) (lfi.ts, true) + 1] :=
        List.getElem?_eq_getElem hlt''
      generalize (scan fs)[refreshIdx (scan fs) (lfi.ts, true) + 1] = lfn at hnx
      have hseg : ¬ Passed fs (lf'.ts, off) (lfn.ts, 0) := by
        apply seg_not_passed (RL.of_scan hs) hget hnx
        intro j lf hj hji hlf
        have : j = refreshIdx (scan fs) (lfi.ts, true) := by omega
        subst this
        rw [hget] at hlf; cases hlf
        simp only [↓reduceIte]
        rw [hts]; exact hE
      rw [hts] at hseg
      refine not_passed_trans hseg ?_
      have h4 := rinv_setNone (l := refreshLogfiles { l with readIdx := i, readFile := RF.opened ino off } fs) hr.list
        (refreshIdx (scan fs) (lfi.ts, true) + 1)
      have := finish_not_passed b h4 hi (by simp only; rw [hlog]; exact hlt'')
      have hcur : cur { refreshLogfiles { l with readIdx := i, readFile := RF.opened ino off } fs with
          readIdx := refreshIdx (scan fs) (lfi.ts, true) + 1, readFile := RF.none } = (lfn.ts, 0) := by
        simp [cur, hlog, hnx]
      rw [hcur] at this
      exact this
  | false =>
    have hno := refreshLogfiles_not_kept hk
    have hrfnone : (refreshLogfiles { l with readIdx := i, readFile := RF.opened ino off } fs).readFile = RF.none := by
      unfold refreshLogfiles; simp [hk, closeRead]
    have hnext : eofNextIdx patched (refreshLogfiles { l with readIdx := i, readFile := RF.opened ino off } fs) =
        refreshIdx (scan fs) (lfi.ts, true) := by
      simp [eofNextIdx, hrfnone, rfIsNone, hidx, hkey, patched]
    rw [hnext]
    have hb : ∀ j lf, (scan fs)[j]? = some lf → j < refreshIdx (scan fs) (lfi.ts, true) → lf.ts < lfi.ts :=
      fun j lf hj hji => (refreshIdx_before _ _ j lf hj hji).2 rfl
    split
    · rename_i hge
      have hge' : (refreshLogfiles { l with readIdx := i, readFile := RF.opened ino off } fs).readIdx ≥
          (refreshLogfiles { l with readIdx := i, readFile := RF.opened ino off } fs).logfiles.length := by
        rw [hidx, hkey]; exact hge
      simp only [readTarget]
      apply jump_end hc hge'
      intro lf hlf
      rw [hlog] at hlf
      obtain ⟨j, hj⟩ := List.mem_iff_getElem?.mp hlf
      exact hb j lf hj (by have := (List.getElem?_eq_some_iff.mp hj).1; rw [hlog] at hge; omega)
    · rename_i hlt'
      have h4 := rinv_setNone (l := refreshLogfiles { l with readIdx := i, readFile := RF.opened ino off } fs) hr.list
        (refreshIdx (scan fs) (lfi.ts, true))
      exact jump_scan b h4 hi hc (by intro _ _ hh; cases hh) (by simp only; omega) (lfi.ts, off)
        (by intro j lf hj hji; simp only at hj hji; rw [hlog] at hj; exact hb j lf hj hji)

/-- **no read passes over a record that is in the directory** -/
theorem read_not_passed {fs : FS} {l : Log} (b : Bool) (hs : Sorted (dirEntries fs)) (hi : NamesInc fs)
    (hpos : ∀ e ∈ dirEntries fs, 0 < e.ts) (h : RInv fs l) :
    ¬ Passed fs (cur l) (readTarget (read patched l fs b).1 (read patched l fs b).2) := by
  unfold read
  split
  · exact not_passed_refl _ _
  · split
    · rename_i hge
      split
      · exact not_passed_refl _ _
      · exact tail_not_passed b hs hi hpos h hge
    · rename_i hlt
      have hlt' : l.readIdx < l.logfiles.length := by omega
      split
      · exact finish_not_passed b h hi hlt'
      · cases hsc : startScan l fs b with
        | data i ino off d =>
          have := finish_not_passed b h hi hlt'
          rw [hsc] at this
          exact this
        | exhausted =>
          simp only [readAuto, readExhausted]
          have h1 := finish_not_passed b h hi hlt'
          rw [hsc] at h1
          have hne : l.logfiles ≠ [] := by intro e; rw [e] at hlt'; simp at hlt'
          obtain ⟨last, hlast⟩ : ∃ last, l.logfiles.getLast? = some last := by
            cases hg : l.logfiles.getLast? with
            | none => exact absurd (List.getLast?_eq_none_iff.mp hg) hne
            | some x => exact ⟨x, rfl⟩
          rw [target_exhausted l hlast] at h1
          have h2 := tail_not_passed (l := { l with readIdx := l.logfiles.length, readFile := RF.none }) b hs hi hpos
            (rinv_setNone h.list _) (Nat.le_refl _)
          have hcur : cur { l with readIdx := l.logfiles.length, readFile := RF.none } = (last.ts + 1, 0) := by
            simp [cur, hlast]
          rw [hcur] at h2
          exact not_passed_trans h1 h2
        | eofLast i ino off =>
          simp only [readAuto]
          exact eofLast_not_passed b hs hi h hlt' hsc

/-! ## what a read returns -/

theorem startScan_data {fs : FS} {l : Log} {b : Bool} {i ino off : Nat} {d : List Rec}
    (hsc : startScan l fs b = .data i ino off d) : d = fileData fs ino off b ∧ d ≠ [] := by
  have fromSpec : ∀ idx, scanFrom fs b idx (l.logfiles.drop idx) = .data i ino off d → d = fileData fs ino off b ∧ d ≠ [] := by
    intro idx hs
    have hsp := scanFrom_spec fs b l.logfiles _ idx rfl
    rw [hs] at hsp
    obtain ⟨_, h2, h3, h4, _, _⟩ := hsp
    exact ⟨by rw [h2]; exact h3, h4⟩
  unfold startScan at hsc
  split at hsc
  · unfold scanOpen at hsc
    simp only at hsc
    split at hsc
    · rename_i hd
      cases hsc
      exact ⟨rfl, by simpa using hd⟩
    · split at hsc
      · cases hsc
      · exact fromSpec _ hsc
  · exact fromSpec _ hsc

theorem readFinish_recs {l : Log} {sc : Scan} {d : List Rec} (h : (readFinish l sc).2 = .recs d) :
    ∃ i ino off, sc = .data i ino off d := by
  cases sc with
  | data i ino off d' => simp only [readFinish, Res.recs.injEq] at h; subst h; exact ⟨i, ino, off, rfl⟩
  | eofLast => simp [readFinish] at h
  | exhausted => simp [readFinish] at h

theorem readTail_recs {l : Log} {fs : FS} {b : Bool} {d : List Rec} (h : (readTail l fs b).2 = .recs d) :
    readTail l fs b = readFinish l (startScan l fs b) := by
  unfold readTail at h ⊢
  split
  · rename_i hge; simp [hge] at h
  · rfl

theorem read_closed (p : Policy) (l : Log) (fs : FS) (b : Bool) (h : l.readFile = .closed) :
    read p l fs b = (l, .err .runtime) := by
  unfold read; simp [h]

theorem read_open (p : Policy) (l : Log) (fs : FS) (b : Bool) (h : l.readFile ≠ .closed) :
    read p l fs b =
      if l.readIdx ≥ l.logfiles.length then
        if !l.autorefresh then (l, .none) else readTail (refreshLogfiles l fs) fs b
      else if !l.autorefresh then readFinish l (startScan l fs b)
      else readAuto p l fs b (startScan l fs b) := by
  unfold read
  split
  · rename_i e; exact absurd e h
  · rfl

/-- every successful read is `readFinish l0 (startScan l0 …)` for some instance state `l0` -/
theorem read_recs_form {p : Policy} {l : Log} {fs : FS} {b : Bool} {d : List Rec} (h : (read p l fs b).2 = .recs d) :
    ∃ l0, read p l fs b = readFinish l0 (startScan l0 fs b) := by
  by_cases hc : l.readFile = .closed
  · rw [read_closed _ _ _ _ hc] at h; cases h
  · rw [read_open _ _ _ _ hc] at h ⊢
    by_cases hge : l.readIdx ≥ l.logfiles.length
    · simp only [hge, ↓reduceIte] at h ⊢
      by_cases har : (!l.autorefresh) = true
      · simp only [har, ↓reduceIte] at h; cases h
      · simp only [har, Bool.false_eq_true, ↓reduceIte] at h ⊢
        exact ⟨_, readTail_recs h⟩
    · simp only [hge, ↓reduceIte] at h ⊢
      by_cases har : (!l.autorefresh) = true
      · simp only [har, ↓reduceIte]; exact ⟨l, rfl⟩
      · simp only [har, Bool.false_eq_true, ↓reduceIte] at h ⊢
        cases hsc : startScan l fs b with
        | data i ino off d' => exact ⟨l, by simp only [readAuto]; rw [hsc]⟩
        | exhausted =>
          rw [hsc] at h
          simp only [readAuto, readExhausted] at h ⊢
          exact ⟨_, readTail_recs h⟩
        | eofLast i ino off =>
          rw [hsc] at h
          simp only [readAuto, readEofLast] at h ⊢
          split
          · rename_i hge'; simp only [hge', ↓reduceIte] at h; cases h
          · exact ⟨_, rfl⟩

/-- **whole records, from one file, at the handle's offset**: a read that returns data returns the first record (line
read) or all records (block read) that start at or after byte `off` of one inode, and leaves the handle right behind them -/
theorem read_whole_records {p : Policy} {l : Log} {fs : FS} {b : Bool} {d : List Rec} (h : (read p l fs b).2 = .recs d) :
    ∃ ino off rest, (read p l fs b).1.readFile = .opened ino (off + recsSize d) ∧ d ≠ [] ∧
      recsFrom (inodeRecs fs ino) off = d ++ rest ∧ (b = true → rest = []) ∧ (b = false → d.length = 1) := by
  obtain ⟨l0, hform⟩ := read_recs_form h
  rw [hform] at h ⊢
  obtain ⟨i, ino, off, hsc⟩ := readFinish_recs h
  obtain ⟨hd, hne⟩ := startScan_data hsc
  rw [hsc]
  refine ⟨ino, off, (recsFrom (inodeRecs fs ino) off).drop d.length, rfl, hne, ?_, ?_, ?_⟩
  · rw [hd]; unfold fileData; simp only
    split
    · simp
    · cases hr : recsFrom (inodeRecs fs ino) off with
      | nil => simp
      | cons x xs => simp
  · intro hb; rw [hd]; unfold fileData; simp [hb]
  · intro hb
    rw [hd] at hne ⊢
    unfold fileData at hne ⊢
    simp only [hb, Bool.false_eq_true, ↓reduceIte] at hne ⊢
    cases hr : recsFrom (inodeRecs fs ino) off with
    | nil => rw [hr] at hne; simp at hne
    | cons x xs => simp

/-! ## The reader theorems -/

/-- **C13 (reader refines the log, per read)** - for every state reachable from the empty directory by ANY op sequence
without a writer restart (writes with arbitrary positive timestamps - equal and decreasing included -, reads, seeks,
tells, refreshes, saves, closes, reader restarts, external deletions), a `read`/`read_block` of the read-only instance
1. **skips nothing that is on disk**: no record of a file in the directory starts between the reader's position before
   the call and the data it returns (or, if it returns nothing, its position after the call);
2. returns **whole records of one file, untorn, starting at the handle's offset** - the first one (line read) or all of
   them (block read) - and leaves the handle right behind them.
Together with `C13_append_only` (records are never altered or removed from a file) and `C13_no_overwrite`.

PARTIAL - not proved here (checked on every run by the harness oracle, keys `reader-duplicate`, `reader-reorder`,
`reader-skip-on-disk`, `reader-undelivered-on-disk`):
* the composition over a whole history into "the concatenation of what the reader returns is the ghost stream with
  whole files removed" is NOT in this file: it is `C13_reader_stream` in `C13Stream.lean` (subsequence, at most once -
  also across a refresh that re-bases the position -, skips only for unlinked files; per segment between seeks);
* histories with a writer restart (`reopen w`): after an external deletion of the newest file a restarted writer can
  reuse or go below a name the reader has already passed (see pending_fixes/C13-name-regression.finding.md);
* the writable instance reading its own log. -/
theorem C13_reader_refines_partial (hd : HeadFS) (fsz tot : Nat) (hh ra : Bool) (ops : List Op) (hn : NoWRestart ops) (b : Bool) :
    let s := run patched (boot [] hd fsz tot hh ra) ops
    ¬ Passed s.fs (cur s.r) (readTarget (read patched s.r s.fs b).1 (read patched s.r s.fs b).2) ∧
    ∀ d, (read patched s.r s.fs b).2 = .recs d →
      ∃ ino off rest, (read patched s.r s.fs b).1.readFile = .opened ino (off + recsSize d) ∧ d ≠ [] ∧
        recsFrom (inodeRecs s.fs ino) off = d ++ rest ∧ (b = true → rest = []) ∧ (b = false → d.length = 1) := by
  intro s
  have h := (GInv.boot hd fsz tot hh ra).run ops hn
  refine ⟨read_not_passed b h.base.w.sortedD h.inc ?_ h.r, fun d hd' => read_whole_records hd'⟩
  intro e he
  obtain ⟨f, hf, _, rfl⟩ := mem_dirEntries.mp he
  exact h.pos f hf

/-- the reader's invariants themselves hold along every such run (list sorted and complete up to its maximum, open
handle consistent with `read_idx`; inode names increasing in creation order) -/
theorem C13_reader_invariant (hd : HeadFS) (fsz tot : Nat) (hh ra : Bool) (ops : List Op) (hn : NoWRestart ops) :
    GInv (run patched (boot [] hd fsz tot hh ra) ops) :=
  (GInv.boot hd fsz tot hh ra).run ops hn

/-- results of a run -/
def resOf (p : Policy) (s : Sys) (ops : List Op) : List Res := (runTrace p s ops).map (·.1)

/-- the spiked history: `file_size = 5`, `total_size = 12`; the reader has read `aaaa0`; three more files are written, the
first two files get pruned.  Fixed: `cccc2` and `dddd3` are returned. -/
example : resOf patched (boot [] ⟨none, none⟩ 5 12 false true)
    [.write [⟨0, 5⟩] 1000, .reopen .r true, .seekStart .r, .read .r false, .write [⟨1, 5⟩] 1001, .write [⟨2, 5⟩] 1002,
     .write [⟨3, 5⟩] 1003, .read .r false, .read .r false, .read .r false] =
    [.wrote 6, .ok, .ok, .recs [⟨0, 5⟩], .wrote 6, .wrote 6, .wrote 6, .recs [⟨2, 5⟩], .recs [⟨3, 5⟩], .none] := by
  decide +kernel

/-- pinned `read()`: `cccc2` (record 2) is on disk and never returned -/
example : resOf pinned (boot [] ⟨none, none⟩ 5 12 false true)
    [.write [⟨0, 5⟩] 1000, .reopen .r true, .seekStart .r, .read .r false, .write [⟨1, 5⟩] 1001, .write [⟨2, 5⟩] 1002,
     .write [⟨3, 5⟩] 1003, .read .r false, .read .r false, .read .r false] =
    [.wrote 6, .ok, .ok, .recs [⟨0, 5⟩], .wrote 6, .wrote 6, .wrote 6, .recs [⟨3, 5⟩], .none, .none] := by
  decide +kernel

end OF.RollLog
